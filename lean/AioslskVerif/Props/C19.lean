import AioslskVerif.Proofs.Rooms
/-!
# C19 — room and user views equal the fold of what the server announced

Property theorems only.  Model: `Model/Rooms.lean` (one function per handler of
`room/manager.py` and `user/manager.py`, of the code **with** fixes/C19-own-operator-grant.patch and
fixes/C19-join-room-replaces-users.patch); specification: `Spec/Rooms.lean` (`Spec.apply`, the
extensional fold: join adds, leave removes, grant adds, revoke removes, lists replace; `announces`,
`blocked`); abstraction function `view`; helpers: `Proofs/Rooms.lean`.

`Msg.WF` only says that enum-typed fields carry enum values (user status 0..2, upload permissions
0..3, an `AddUser` reply for an existing user has a status): on anything else a handler dies with
`ValueError` half-way (modelled, and compared with the real code by the correspondence, but no
specification says what a half-applied notification "implies").
-/
namespace AioslskVerif.C19
open AioslskVerif.Rooms
open AioslskVerif.Rooms.Spec (announces blocked tagOf)

/-- **Replica.** After any sequence of notifications — all 32 message classes the two managers
listen to, any rooms, any users, any length — what an observer sees of the managers (each room's
joined flag, users, owner, members, operators, tickers, privacy flag; which rooms are known; each
user's status, stats, privileges, country, slots; the own privilege time) is exactly the fold of
`Spec.apply` over the sequence. -/
theorem C19_replica (env : Env) (msgs : List Msg) (hwf : ∀ m ∈ msgs, m.WF = true) :
    view (run env msgs) = Spec.replay env msgs := by
  have hinit : view ({} : Rooms.State) = Spec.init := by
    apply state_ext
    · rfl
    · funext u; simp [view, State.getUser, State.newUser, AL.find, Spec.init]
    · rfl
  suffices h : ∀ s, UsersNodup s → view (msgs.foldl (fun s m => (handle env s m).st) s) = msgs.foldl (Spec.apply env) (view s) by
    unfold run Spec.replay
    rw [h {} inv_init, hinit]
  induction msgs with
  | nil => intro s _; rfl
  | cons m t ih =>
    intro s hs
    simp only [List.foldl]
    rw [ih (fun m' hm' => hwf m' (List.mem_cons_of_mem _ hm')) _ (inv_handle env s hs m),
      handle_view env s hs m (hwf m List.mem_cons_self)]

/-- **One step**, from any reachable state: handling a notification changes the view by exactly what
the notification implies (the commutation square the replica theorem is folded from). -/
theorem C19_step (env : Env) (msgs : List Msg) (m : Msg) (hm : m.WF = true) :
    view (handle env (run env msgs) m).st = Spec.apply env (view (run env msgs)) m := by
  exact handle_view env _ (inv_run env msgs) m hm

/-- The user *list* of a room never names a user twice, whatever was received (malformed
notifications included) — so the list is a faithful representation of the set the replica theorem
speaks about. -/
theorem C19_users_nodup (env : Env) (msgs : List Msg) (r : Nat) (x : Rooms.Room)
    (h : AL.find r (run env msgs).rooms = some x) : x.users.Nodup := by
  exact inv_run env msgs _ (AL.mem_of_find h)

/-- the acknowledgement of a private message is an outgoing server message, not a report -/
def isAck : Ev → Bool
  | .ack _ => true
  | _ => false

/-- **Events.** Whatever the state, every event a notification produces carries the kind, the room
and the user the notification was announced for (chat, ticker, membership, operator, join/leave,
status/stats/privilege events alike). -/
theorem C19_events (env : Env) (s : Rooms.State) (m : Msg) (e : Ev) (he : e ∈ (handle env s m).evs) (hna : isAck e = false) :
    announces m = some (tagOf e) := by
  cases m <;> simp only [handle] at he <;> (try split at he) <;> (try split at he) <;> (try split at he) <;>
    simp only [List.mem_cons, List.not_mem_nil, or_false] at he <;>
    (try rcases he with he | he) <;> (try subst he) <;> first | rfl | (simp [isAck] at hna) | (exact absurd he (by simp))

/-- **Block filter.** A chat message from a user blocked for its kind (room / public chat:
`ROOM_MESSAGES`; private chat: `PRIVATE_MESSAGES`) is not reported and leaves the views untouched;
a private message is acknowledged to the server all the same. -/
theorem C19_block_filter (env : Env) (s : Rooms.State) (m : Msg) (hb : blocked env m = true) :
    (handle env s m).evs.filter (fun e => !isAck e) = [] ∧ view (handle env s m).st = view s := by
  cases m <;> simp only [blocked, Bool.false_eq_true] at hb <;> simp only [handle, hb, ↓reduceIte] <;> simp [isAck]

/-- … and every other well-formed notification is reported exactly once, as what it announces
(`AddUser`, `PeerSearchReply` and the invites toggle announce nothing). -/
theorem C19_reported_once (env : Env) (s : Rooms.State) (m : Msg) (hb : blocked env m = false) (hm : m.WF = true) :
    ((handle env s m).evs.filter (fun e => !isAck e)).map tagOf = (announces m).toList := by
  cases m with
  | joinRoom r es o ops =>
    simp only [Msg.WF] at hm
    simp only [handle, takeWhile_all _ _ hm, List.drop_length]
    rfl
  | addUser u ex st k c =>
    simp only [Msg.WF] at hm
    cases ex
    · rfl
    · cases st with
      | none => simp at hm
      | some v =>
        simp only [Bool.not_true, Bool.false_or] at hm
        simp only [handle, hm, Bool.not_true, Bool.false_eq_true, ↓reduceIte]
        rfl
  | peerInfo c d pic a b f pm =>
    simp only [Msg.WF] at hm
    cases c with
    | none => rfl
    | some u =>
      cases pm with
      | none => rfl
      | some p =>
        simp only at hm
        simp only [handle, hm, Bool.not_true, Bool.false_eq_true, ↓reduceIte]
        rfl
  | _ =>
    simp only [blocked] at hb <;> simp only [Msg.WF] at hm <;>
    simp only [handle, hb, hm, Bool.false_eq_true, Bool.not_true, ↓reduceIte] <;>
    (try (first | rfl | (split <;> rfl)))

/-- A private message is acknowledged first, whoever sent it. -/
theorem C19_private_acked (env : Env) (s : Rooms.State) (id ts u t : Nat) (d : Bool) :
    (handle env s (.privateChat id ts u t d)).evs.head? = some (.ack id) := by
  simp only [handle]; split <;> rfl

/-! ## Non-vacuity: the hypotheses are met by non-trivial histories, and the fixed handlers do what the
specification says on the inputs that exposed the two defects. -/

/-- the logged-in user is 0; user 2 is blocked for room chat, user 1 for private chat -/
def env0 : Env := { me := 0, blockedRoom := [2], blockedPriv := [1] }

/-- a history with every kind of ingredient: list, join, late join after leave, grants for self and others -/
def hist0 : List Msg :=
  [ .roomList [0] [1] [] [1],
    .joinRoom 0 [⟨0, 2, ⟨1, 2, 3, 4⟩, 5, 6⟩, ⟨1, 1, ⟨1, 2, 3, 4⟩, 5, 6⟩] none [],
    .leaveRoom 0,
    .userJoined 0 2 2 ⟨9, 9, 9, 9⟩ 1 1,
    .joinRoom 0 [⟨0, 2, ⟨1, 2, 3, 4⟩, 5, 6⟩] none [],
    .operators 1 [2],
    .operatorGranted 1,
    .revokeMembership 1 2,
    .userStatus 1 0 true ]

example : ∀ m ∈ hist0, m.WF = true := by decide
/-- own operator grant adds (the unfixed handler discarded): operators of room 1 are exactly {me} -/
example : ((run env0 hist0).rooms.map (fun p => (p.1, p.2.operators))) = [(0, []), (1, [0])] := by decide
/-- the second `JoinRoom` replaces the user list (the unfixed handler kept the late joiner 2) -/
example : ((run env0 hist0).rooms.map (fun p => (p.1, p.2.users, p.2.joined))) = [(0, [0], true), (1, [], false)] := by decide
example : ((run env0 hist0).getUser 1).status = some 0 ∧ ((run env0 hist0).getUser 1).privileged = true := by decide
example : blocked env0 (.roomChat 0 2 7) = true ∧ blocked env0 (.privateChat 1 2 2 7 true) = false := by decide

end AioslskVerif.C19
