import AioslskVerif.Proofs.XferTasks
/-!
# C06 — after abort / pause / remove returns, nothing more happens for that transfer

Property theorems only (model: `Model/XferTasks.lean`, invariant: `Proofs/XferTasks.lean`).  The
model is the code **with** `fixes/C06-single-flight.patch` (spawn guards "slot holds no running task"
and "no state change in progress", identity check in the done-callbacks, `remove` cancels what is
left in the slots), `fixes/C06-init-download-refused.patch` (a download initialisation whose
`state.initialize()` is refused answers `allowed=False` and ends) and `fixes/C06-peer-queue-removed.patch`
(the `PeerTransferQueue` handler looks the transfer up again after it asked the shares manager).
`run ops` is the state after any
list of ops — cycles looking at any transfers at any instant, peer transfer requests **also while a
call holds the state lock**, the peer's refusal / PeerUploadFailed, first steps / ends (any outcome)
/ done-callbacks of any task in any order, calls of abort / pause / remove at any point, the
intermediate step of remove and their returns, re-queues, downloads that failed without a reason
(retried by the manager), uploads whose task calls `state.fail()` and goes on (the write-error path
that still delivers `PeerUploadFailed`: FAILED with a live task), `PeerTransferQueue` for an upload in
the list arriving (`peerQueueStart`) and its handler being resumed (`peerQueueEnd`) at any later
point — i.e. any schedule of the abstraction.  On the tree without the first patch
both theorems are false (see `fixes/C06-single-flight.md`); without the second the initialisation
started by a peer request during a call went on after the call had returned
(`fixes/C06-init-download-refused.md`); the witnesses are replayed by the check.
-/
namespace AioslskVerif.C06
open AioslskVerif.Tasks
open AioslskVerif.Sched (St Dir)

/-- Single flight: in every reachable state a task that has not finished is the one its
transfer's slot holds (remote-queue tasks in `_remotely_queue_task`, initialisation tasks in
`_transfer_task`) — so `cancel_tasks()` reaches everything that is in flight. -/
theorem C06_single_flight (ops : List Op) (t : Nat) (hl : ((run ops).tasks t).live = true) :
    ((run ops).xs ((run ops).tasks t).xfer).slotOf ((run ops).tasks t).kind = some t :=
  (inv_run ops).single t hl

/-- … hence at most one remote-queue attempt and one initialisation per transfer at any time. -/
theorem C06_single_flight_unique (ops : List Op) (t u : Nat)
    (ht : ((run ops).tasks t).live = true) (hu : ((run ops).tasks u).live = true)
    (hx : ((run ops).tasks t).xfer = ((run ops).tasks u).xfer)
    (hk : ∀ x : XT, x.slotOf ((run ops).tasks t).kind = x.slotOf ((run ops).tasks u).kind) : t = u := by
  have h1 := C06_single_flight ops t ht
  have h2 := C06_single_flight ops u hu
  rw [hx, hk] at h1
  rw [h1] at h2
  exact Option.some.inj h2

/-- Quiescence: once `abort` / `pause` / `remove` has returned for transfer `k` (`quiet`), then
along **every** continuation that contains no user / peer action on `k` (no re-queue, no further
call, no peer message for it) — but any cycles, any steps of any task including the first step and
the end of an initialisation that a peer request started *while the call was in progress*: state,
`remotely_queued`, `queue_attempts`, the count of connection attempts / messages / field changes made
on its behalf and its membership of the transfer list all stay what they were when the call returned;
and whatever task of `k` is still alive is inert — cancelled (a later call waits for it), or such a
late initialisation that is still before `state.initialize()` or was refused by it (all it does is
answer the peer `allowed=False`). -/
theorem C06_quiescent_after_cancel (ops ops' : List Op) (k : Nat) (hk : k < (run ops).nx)
    (hq : ((run ops).xs k).quiet = true) (hn : ∀ op ∈ ops', op.addresses k = false) :
    obs ((run (ops ++ ops')).xs k) = obs ((run ops).xs k) ∧
      ∀ t, ((run (ops ++ ops')).tasks t).live = true → ((run (ops ++ ops')).tasks t).xfer = k →
        Inert ((run (ops ++ ops')).tasks t) := by
  have hrun : run (ops ++ ops') = ops'.foldl step (run ops) := by simp [run, List.foldl_append]
  rw [hrun]
  exact quiet_foldl (inv_run ops) hk hq ops' hn

/-- An inert task does nothing for its transfer: in a reachable state in which `k` is quiet, the next
step of a live task of `k` (first step with any lock situation, end with any outcome) leaves every
observed field of `k` unchanged — in particular the late initialisation finds the transition refused. -/
theorem C06_inert_task_is_silent (ops : List Op) (k t : Nat) (o : Outcome) (hk : k < (run ops).nx)
    (hq : ((run ops).xs k).quiet = true) :
    obs ((step (run ops) (.taskStart t)).xs k) = obs ((run ops).xs k) ∧
      obs ((step (run ops) (.taskEnd t o)).xs k) = obs ((run ops).xs k) :=
  ⟨(quiet_step (inv_run ops) hk hq (.taskStart t) rfl).1, (quiet_step (inv_run ops) hk hq (.taskEnd t o) rfl).1⟩

/-- A peer message handler that found the transfer BEFORE the call returned and is resumed AFTER it (it was waiting
for the shares manager): being resumed is not an action of the peer — `peerQueueEnd k` may occur anywhere in the
continuation of `C06_quiescent_after_cancel` — and it leaves a quiet transfer exactly as it is (it looks the transfer
up again: one that left the list is not touched; one that is ABORTED / PAUSED is not re-queued by this message). -/
theorem C06_suspended_handler_is_silent (ops : List Op) (k : Nat) (hk : k < (run ops).nx)
    (hq : ((run ops).xs k).quiet = true) :
    obs ((step (run ops) (.peerQueueEnd k)).xs k) = obs ((run ops).xs k) :=
  (quiet_step (inv_run ops) hk hq (.peerQueueEnd k) rfl).1

/-- The return of a call makes the transfer quiet, and it can only return when every task it
cancelled has finished (for `remove`: after its `abort` part is through, `removeMid`). -/
theorem C06_return_is_quiet (s : TS) (k : Nat) (c : CallKind) (hl : (s.xs k).locked = some c)
    (hw : (s.xs k).waitFor.all (fun t => !(s.tasks t).live) = true) (hr : c = .remove → (s.xs k).removed = true) :
    ((step s (.callResume k)).xs k).quiet = true ∧ ((step s (.callResume k)).xs k).locked = none := by
  simp only [step, hl, hw, true_and]
  rw [if_pos hr]
  simp only [upd_same, and_self]

/-- … and it does not return before: while a task it cancelled is alive, `callResume` is not enabled. -/
theorem C06_no_return_before (s : TS) (k t : Nat) (ht : t ∈ (s.xs k).waitFor) (hlive : (s.tasks t).live = true) :
    step s (.callResume k) = s := by
  simp only [step]
  split
  · have hw : ¬ ((s.xs k).waitFor.all (fun t => !(s.tasks t).live) = true) := by
      intro hw
      have := List.all_eq_true.mp hw t ht
      simp [hlive] at this
    simp [hw]
  · rfl

/-- In every reachable state, when a call returns for `k` (any kind, the peer request may have arrived at
any point of the call) everything still alive for `k` is inert. -/
theorem C06_return_leaves_inert (ops : List Op) (k t : Nat)
    (hq : ((run ops).xs k).quiet = true) (hl : ((run ops).tasks t).live = true) (hx : ((run ops).tasks t).xfer = k) :
    Inert ((run ops).tasks t) :=
  (inv_run ops).quietInert k hq t hl hx

/-! ## the hypotheses are satisfiable -/

/-- a download whose remote-queue attempt hangs, two more cycles (no second task is created), abort
while it hangs: abort returns only after the task is gone, the transfer is quiet and ABORTED -/
example :
    let s := run [.addDownload, .cycle [0], .taskStart 0, .cycle [0], .cycle [0], .call 0 .abort, .taskEnd 0 .ok,
      .doneCallback 0, .callResume 0]
    s.nt = 1 ∧ (s.xs 0).quiet = true ∧ (s.xs 0).st = .aborted ∧ (s.xs 0).rq = false ∧ (s.xs 0).acts = 1 := by decide

/-- the call cannot return while the cancelled task is still alive -/
example :
    let s := run [.addDownload, .cycle [0], .taskStart 0, .call 0 .abort, .callResume 0]
    (s.xs 0).quiet = false ∧ (s.xs 0).locked = some .abort ∧ (s.tasks 0).live = true := by decide

/-- a cycle between the end of a failed attempt and its done-callback starts the next attempt; the
late callback does not clear the new task out of the slot -/
example :
    let s := run [.addDownload, .cycle [0], .taskStart 0, .taskEnd 0 .fail, .cycle [0], .doneCallback 0]
    (s.xs 0).rqSlot = some 1 ∧ (s.tasks 1).live = true ∧ (s.tasks 0).live = false := by decide

/-- a cycle while abort waits (slot already cleared, state still QUEUED) does not start anything -/
example :
    let s := run [.addDownload, .cycle [0], .taskStart 0, .call 0 .abort, .taskEnd 0 .ok, .doneCallback 0, .cycle [0],
      .callResume 0, .cycle [0]]
    s.nt = 1 ∧ (s.xs 0).quiet = true := by decide

/-- the peer refuses the queue request while the remote-queue attempt is still connecting: the download is FAILED
(a state `abort` refuses) with a live task; `remove` takes it off the list at once, cancels the task and returns
only when it is gone — the attempt never delivers (`rq` stays false, nothing counted after the first connect) -/
example :
    let s := run [.addDownload, .cycle [0], .taskStart 0, .peerFail 0, .call 0 .remove, .callResume 0, .cycle [0],
      .taskEnd 0 .ok, .doneCallback 0, .callResume 0, .cycle [0]]
    (s.xs 0).st = .failed ∧ (s.xs 0).removed = true ∧ (s.xs 0).quiet = true ∧ (s.xs 0).rq = false ∧
      (s.xs 0).acts = 1 ∧ s.nt = 1 ∧ (s.tasks 0).live = false := by decide

/-- the peer's transfer request arrives while abort waits for the remote-queue attempt it cancelled: the handler still
sees QUEUED and starts an initialisation (task 1) the call does not wait for; its `state.initialize()` waits for the
lock, abort returns (ABORTED), the task finds the transition refused and ends: nothing was done for the transfer after
the first connect (`acts = 1`), no third task, ABORTED, quiet -/
example :
    let s := run [.addDownload, .cycle [0], .taskStart 0, .call 0 .abort, .peerRequest 0, .taskStart 1, .taskEnd 0 .ok,
      .doneCallback 0, .callResume 0]
    let s' := [Op.cycle [0], .taskEnd 1 .transferring, .doneCallback 1, .cycle [0]].foldl step s
    (s.xs 0).quiet = true ∧ (s.tasks 1).live = true ∧ (s.tasks 1).phase = .refused ∧
      (s'.tasks 1).live = false ∧ (s'.xs 0).st = .aborted ∧ (s'.xs 0).acts = 1 ∧ s'.nt = 2 := by decide

/-- the same during `remove`: when its abort part is through the late initialisation is cancelled with whatever else the
slots hold, and remove returns only when it is gone -/
example :
    let s := run [.addDownload, .cycle [0], .taskStart 0, .call 0 .remove, .peerRequest 0, .taskStart 1, .taskEnd 0 .ok,
      .removeMid 0, .callResume 0]
    let s' := [Op.taskEnd 1 .ok, .callResume 0].foldl step s
    (s.xs 0).locked = some .remove ∧ (s.xs 0).removed = true ∧ (s.tasks 1).cancelReq = true ∧ (s.xs 0).quiet = false ∧
      (s'.xs 0).quiet = true ∧ (s'.tasks 1).live = false ∧ (s'.xs 0).acts = 1 := by decide

/-- a download that failed without a reason is retried by the manager; `remove` takes it off the list at once, so the
cycle that runs between the end of the cancelled attempt and the return of `remove` creates nothing -/
example :
    let s := run [.addFailed, .cycle [0], .taskStart 0, .call 0 .remove, .taskEnd 0 .ok, .doneCallback 0, .cycle [0],
      .callResume 0, .cycle [0]]
    (run [.addFailed, .cycle [0]]).nt = 1 ∧ s.nt = 1 ∧ (s.xs 0).quiet = true ∧ (s.xs 0).removed = true ∧
      (s.xs 0).rq = false := by decide

/-- an upload hits a write error: `state.fail()` and then, in the same task, the delivery of `PeerUploadFailed` over a
slow connection — FAILED with a live task, which is the one the slot holds.  `remove` (the only call FAILED accepts)
cancels it; it returns only when the task is gone; nothing is counted for the transfer after the failure -/
example :
    let s0 := run [.addUpload, .cycle [0], .taskStart 0, .taskEnd 0 .transferring, .taskEnd 0 .failing, .cycle [0]]
    let s := [Op.call 0 .remove, .callResume 0, .taskEnd 0 .ok, .doneCallback 0, .callResume 0, .cycle [0]].foldl step s0
    (s0.xs 0).st = .failed ∧ (s0.tasks 0).live = true ∧ (s0.xs 0).ttSlot = some 0 ∧ s0.nt = 1 ∧
      (s.xs 0).st = .failed ∧ (s.xs 0).removed = true ∧ (s.xs 0).quiet = true ∧ (s.xs 0).acts = (s0.xs 0).acts ∧
      s.nt = 1 ∧ (s.tasks 0).live = false := by decide

/-- … the peer queues the file again while that delivery is still pending: QUEUED, but no second task is started as long as
the slot holds the first; `abort` cancels it and nothing is left -/
example :
    let s := run [.addUpload, .cycle [0], .taskStart 0, .taskEnd 0 .transferring, .taskEnd 0 .failing, .peerQueueStart 0,
      .peerQueueEnd 0, .cycle [0], .call 0 .abort, .taskEnd 0 .ok, .doneCallback 0, .callResume 0, .cycle [0]]
    s.nt = 1 ∧ (s.xs 0).st = .aborted ∧ (s.xs 0).quiet = true ∧ (s.tasks 0).live = false := by decide

/-- the peer's `PeerTransferQueue` for a FAILED upload: the handler finds it and asks the shares manager; the user removes
the upload meanwhile; the handler goes on after `remove` returned and does not touch it.  Without the `remove` the same
handler re-queues it. -/
example :
    let s0 := run [.addUpload, .cycle [0], .taskStart 0, .taskEnd 0 .fail, .doneCallback 0, .peerQueueStart 0]
    let s := [Op.call 0 .remove, .callResume 0, .peerQueueEnd 0].foldl step s0
    (s.xs 0).st = .failed ∧ (s.xs 0).removed = true ∧ (s.xs 0).quiet = true ∧ (s.xs 0).pq = 0 ∧
      ((step s0 (.peerQueueEnd 0)).xs 0).st = .queued := by decide

end AioslskVerif.C06
