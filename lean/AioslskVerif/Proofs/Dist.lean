import AioslskVerif.Spec.DistTree
/-! Helper lemmas for C13: the inductive invariant of the distributed-tree model. -/
namespace AioslskVerif.Dist

/-- what a child was last told agrees with the advertised values `a`; for level 0 the root may never
have been written (`_add_child` omits it, the protocol lets the child assume the sender). -/
def ToldOK (a : Adv) (l : Option Nat) (r : Option Name) : Prop :=
  l = some a.level ∧ (r = some a.root ∨ (r = none ∧ a.level = 0))

/-- structural part of the invariant -/
structure SInv (s : DState) : Prop where
  fresh : ∀ c ∈ s.live, c < s.nextConn
  liveNodup : s.live.Nodup
  childNodup : s.children.Nodup
  parentLive : ∀ c, s.parent = some c → c ∈ s.live
  childLive : ∀ c ∈ s.children, c ∈ s.live
  parentComplete : ∀ c, s.parent = some c → (s.level c).isSome ∧ (s.root c).isSome
  pnc : ∀ c, s.parent = some c → ∀ d ∈ s.children, s.name d ≠ s.name c

/-- truthfulness part of the invariant (w.r.t. the code's own `adv`) -/
structure TInv (s : DState) : Prop where
  toldS : ∀ me, s.session = some me → s.toldServer = some (s.adv me, s.parent.isNone)
  toldC : ∀ me, s.session = some me → ∀ d ∈ s.children, ToldOK (s.adv me) (s.toldL d) (s.toldR d)

structure Inv (s : DState) : Prop where
  str : SInv s
  told : TInv s

/-- `adv` only reads the parent and the parent's announced values -/
theorem adv_congr (s s' : DState) (me : Name) (hp : s'.parent = s.parent)
    (hv : ∀ c, s.parent = some c → s'.level c = s.level c ∧ s'.root c = s.root c) :
    s'.adv me = s.adv me := by
  unfold DState.adv
  rw [hp]
  cases h : s.parent with
  | none => rfl
  | some c => simp only [(hv c h).1, (hv c h).2]

/-- `SInv` only reads these components -/
theorem SInv.congr {s s' : DState} (h : SInv s) (h1 : s'.live = s.live) (h2 : s'.nextConn = s.nextConn)
    (h3 : s'.children = s.children) (h4 : s'.parent = s.parent) (h5 : s'.level = s.level)
    (h6 : s'.root = s.root) (h7 : s'.name = s.name) : SInv s' := by
  constructor
  · rw [h1, h2]; exact h.fresh
  · rw [h1]; exact h.liveNodup
  · rw [h3]; exact h.childNodup
  · rw [h1, h4]; exact h.parentLive
  · rw [h1, h3]; exact h.childLive
  · rw [h4, h5, h6]; exact h.parentComplete
  · rw [h3, h4, h7]; exact h.pnc

theorem TInv.congr {s s' : DState} (h : TInv s) (h0 : s'.session = s.session)
    (h3 : s'.children = s.children) (h4 : s'.parent = s.parent) (h5 : s'.level = s.level)
    (h6 : s'.root = s.root) (h8 : s'.toldServer = s.toldServer) (h9 : s'.toldL = s.toldL)
    (h10 : s'.toldR = s.toldR) : TInv s' := by
  have ha : ∀ me, s'.adv me = s.adv me := fun me =>
    adv_congr s s' me h4 (fun c _ => by rw [h5, h6]; exact ⟨rfl, rfl⟩)
  constructor
  · intro me hm; rw [h8, ha, h4]; exact h.toldS me (h0 ▸ hm)
  · intro me hm d hd; rw [h9, h10, ha]; exact h.toldC me (h0 ▸ hm) d (h3 ▸ hd)

/-! ### field lemmas of the two notifications -/

@[simp] theorem notifyServer_session (s : DState) : (notifyServer s).session = s.session := by
  unfold notifyServer; split <;> rfl
@[simp] theorem notifyServer_parent (s : DState) : (notifyServer s).parent = s.parent := by
  unfold notifyServer; split <;> rfl
@[simp] theorem notifyServer_children (s : DState) : (notifyServer s).children = s.children := by
  unfold notifyServer; split <;> rfl
@[simp] theorem notifyServer_live (s : DState) : (notifyServer s).live = s.live := by
  unfold notifyServer; split <;> rfl
@[simp] theorem notifyServer_nextConn (s : DState) : (notifyServer s).nextConn = s.nextConn := by
  unfold notifyServer; split <;> rfl
@[simp] theorem notifyServer_level (s : DState) : (notifyServer s).level = s.level := by
  unfold notifyServer; split <;> rfl
@[simp] theorem notifyServer_root (s : DState) : (notifyServer s).root = s.root := by
  unfold notifyServer; split <;> rfl
@[simp] theorem notifyServer_name (s : DState) : (notifyServer s).name = s.name := by
  unfold notifyServer; split <;> rfl
@[simp] theorem notifyServer_toldL (s : DState) : (notifyServer s).toldL = s.toldL := by
  unfold notifyServer; split <;> rfl
@[simp] theorem notifyServer_toldR (s : DState) : (notifyServer s).toldR = s.toldR := by
  unfold notifyServer; split <;> rfl
@[simp] theorem notifyServer_potential (s : DState) : (notifyServer s).potential = s.potential := by
  unfold notifyServer; split <;> rfl
@[simp] theorem notifyServer_accept (s : DState) : (notifyServer s).accept = s.accept := by
  unfold notifyServer; split <;> rfl
@[simp] theorem notifyServer_maxChildren (s : DState) : (notifyServer s).maxChildren = s.maxChildren := by
  unfold notifyServer; split <;> rfl

@[simp] theorem notifyChildren_session (s : DState) : (notifyChildren s).session = s.session := by
  unfold notifyChildren; split <;> rfl
@[simp] theorem notifyChildren_parent (s : DState) : (notifyChildren s).parent = s.parent := by
  unfold notifyChildren; split <;> rfl
@[simp] theorem notifyChildren_children (s : DState) : (notifyChildren s).children = s.children := by
  unfold notifyChildren; split <;> rfl
@[simp] theorem notifyChildren_live (s : DState) : (notifyChildren s).live = s.live := by
  unfold notifyChildren; split <;> rfl
@[simp] theorem notifyChildren_nextConn (s : DState) : (notifyChildren s).nextConn = s.nextConn := by
  unfold notifyChildren; split <;> rfl
@[simp] theorem notifyChildren_level (s : DState) : (notifyChildren s).level = s.level := by
  unfold notifyChildren; split <;> rfl
@[simp] theorem notifyChildren_root (s : DState) : (notifyChildren s).root = s.root := by
  unfold notifyChildren; split <;> rfl
@[simp] theorem notifyChildren_name (s : DState) : (notifyChildren s).name = s.name := by
  unfold notifyChildren; split <;> rfl
@[simp] theorem notifyChildren_toldServer (s : DState) : (notifyChildren s).toldServer = s.toldServer := by
  unfold notifyChildren; split <;> rfl
@[simp] theorem notifyChildren_potential (s : DState) : (notifyChildren s).potential = s.potential := by
  unfold notifyChildren; split <;> rfl
@[simp] theorem notifyChildren_accept (s : DState) : (notifyChildren s).accept = s.accept := by
  unfold notifyChildren; split <;> rfl
@[simp] theorem notifyChildren_maxChildren (s : DState) : (notifyChildren s).maxChildren = s.maxChildren := by
  unfold notifyChildren; split <;> rfl

@[simp] theorem notifyServer_adv (s : DState) (me : Name) : (notifyServer s).adv me = s.adv me :=
  adv_congr s _ me (by simp) (fun c _ => by simp)
@[simp] theorem notifyChildren_adv (s : DState) (me : Name) : (notifyChildren s).adv me = s.adv me :=
  adv_congr s _ me (by simp) (fun c _ => by simp)

theorem notifyServer_toldServer (s : DState) (me : Name) (h : s.session = some me) :
    (notifyServer s).toldServer = some (s.adv me, s.parent.isNone) := by
  unfold notifyServer; simp [h]

theorem notifyChildren_told (s : DState) (me : Name) (h : s.session = some me) (d : ConnId)
    (hd : d ∈ s.children) :
    (notifyChildren s).toldL d = some (s.adv me).level ∧ (notifyChildren s).toldR d = some (s.adv me).root := by
  unfold notifyChildren; simp [h, hd]

/-- **Both notifications re-establish truthfulness from any structurally sound state.** -/
theorem notify_inv (s : DState) (h : SInv s) : Inv (notifyChildren (notifyServer s)) := by
  constructor
  · exact h.congr (by simp) (by simp) (by simp) (by simp) (by simp) (by simp) (by simp)
  · constructor
    · intro me hm
      simp only [notifyChildren_session, notifyServer_session] at hm
      simp only [notifyChildren_toldServer, notifyChildren_adv, notifyServer_adv, notifyChildren_parent,
        notifyServer_parent]
      exact notifyServer_toldServer s me hm
    · intro me hm d hd
      simp only [notifyChildren_session, notifyServer_session] at hm
      simp only [notifyChildren_children, notifyServer_children] at hd
      have := notifyChildren_told (notifyServer s) me (by simpa using hm) d (by simpa using hd)
      simp only [notifyServer_adv] at this
      simp only [notifyChildren_adv, notifyServer_adv]
      exact ⟨this.1, Or.inl this.2⟩

/-! ### closing a connection -/

theorem erase_inv (s : DState) (c : ConnId) (h : Inv s) (hp : s.parent ≠ some c) :
    Inv { s with children := s.children.erase c, live := s.live.erase c } := by
  have hs := h.str
  refine ⟨⟨?_, ?_, ?_, ?_, ?_, ?_, ?_⟩, ⟨?_, ?_⟩⟩
  · intro d hd; exact hs.fresh d (List.mem_of_mem_erase hd)
  · exact hs.liveNodup.erase c
  · exact hs.childNodup.erase c
  · intro p hpp
    have hne : p ≠ c := by intro e; subst e; exact hp hpp
    exact (List.mem_erase_of_ne hne).2 (hs.parentLive p hpp)
  · intro d hd
    have hd' := (hs.childNodup.mem_erase_iff).1 hd
    exact (List.mem_erase_of_ne hd'.1).2 (hs.childLive d hd'.2)
  · exact hs.parentComplete
  · intro p hpp d hd; exact hs.pnc p hpp d (List.mem_of_mem_erase hd)
  · intro me hm; exact h.told.toldS me hm
  · intro me hm d hd; exact h.told.toldC me hm d (List.mem_of_mem_erase hd)

theorem sinv_noParent (s : DState) (h : SInv s) : SInv { s with parent := none } := by
  refine ⟨h.fresh, h.liveNodup, h.childNodup, ?_, h.childLive, ?_, ?_⟩
  · intro c hc; cases hc
  · intro c hc; cases hc
  · intro c hc; cases hc

theorem closePeer_inv (s : DState) (c : ConnId) (h : Inv s) : Inv (closePeer s c) := by
  unfold closePeer
  split
  · by_cases hp : s.parent = some c
    · simp only [hp, if_true]
      exact erase_inv _ c (notify_inv _ (sinv_noParent s h.str)) (by simp)
    · simp only [hp, if_false]
      exact erase_inv s c h hp
  · exact h

theorem foldl_closePeer_inv (l : List ConnId) (s : DState) (h : Inv s) : Inv (l.foldl closePeer s) := by
  induction l generalizing s with
  | nil => exact h
  | cons c l ih => exact ih _ (closePeer_inv s c h)

theorem reset_inv (s : DState) (h : Inv s) : Inv (reset s) := by
  unfold reset
  have h1 := foldl_closePeer_inv s.children s h
  simp only
  split
  · exact closePeer_inv _ _ h1
  · exact h1

/-! ### taking a parent -/

theorem setParent_inv (s : DState) (c : ConnId) (h : Inv s) (hc : c ∈ s.live)
    (hl : (s.level c).isSome) (hr : (s.root c).isSome) (hn : s.isChildName (s.name c) = false) :
    Inv (setParent s c) := by
  unfold setParent
  apply notify_inv
  have hs := h.str
  refine ⟨?_, ?_, hs.childNodup, ?_, ?_, ?_, ?_⟩
  · intro d hd; exact hs.fresh d (List.mem_filter.1 hd).1
  · exact hs.liveNodup.filter _
  · intro p hp
    have : c = p := by simpa using hp
    subst this
    simp [List.mem_filter, hc]
  · intro d hd
    simp only [List.mem_filter, decide_eq_true_eq]
    exact ⟨hs.childLive d hd, Or.inr hd⟩
  · intro p hp
    have : c = p := by simpa using hp
    subst this
    exact ⟨hl, hr⟩
  · intro p hp d hd
    have : c = p := by simpa using hp
    subst this
    unfold DState.isChildName at hn
    rw [List.any_eq_false] at hn
    simpa using hn d hd

theorem checkNewParent_inv (s : DState) (c : ConnId) (h : Inv s) (hc : c ∈ s.live) :
    Inv (checkNewParent s c) := by
  unfold checkNewParent
  split
  · rename_i hlr
    split
    · rename_i hpn
      exact setParent_inv s c h hc hlr.1 hlr.2 hpn.2
    · exact closePeer_inv s c h
  · exact h

/-! ### announcements -/

/-- new announced values on connection `c`, complete there -/
theorem sinv_announce (s : DState) (c : ConnId) (L : ConnId → Option Nat) (R : ConnId → Option Name)
    (h : SInv s) (hoff : ∀ d, d ≠ c → L d = s.level d ∧ R d = s.root d)
    (hL : (L c).isSome) (hR : (R c).isSome) : SInv { s with level := L, root := R } := by
  refine ⟨h.fresh, h.liveNodup, h.childNodup, h.parentLive, h.childLive, ?_, h.pnc⟩
  intro p hp
  by_cases e : p = c
  · subst e; exact ⟨hL, hR⟩
  · have := hoff p e
    show (L p).isSome ∧ (R p).isSome
    rw [this.1, this.2]; exact h.parentComplete p hp

/-- new announced values on a connection that is not the parent's -/
theorem inv_announce (s : DState) (c : ConnId) (L : ConnId → Option Nat) (R : ConnId → Option Name)
    (h : Inv s) (hoff : ∀ d, d ≠ c → L d = s.level d ∧ R d = s.root d) (hp : s.parent ≠ some c) :
    Inv { s with level := L, root := R } := by
  have hs := h.str
  have ha : ∀ me, DState.adv { s with level := L, root := R } me = s.adv me := fun me =>
    adv_congr s _ me rfl (fun p hpp => hoff p (by intro e; subst e; exact hp hpp))
  refine ⟨⟨hs.fresh, hs.liveNodup, hs.childNodup, hs.parentLive, hs.childLive, ?_, hs.pnc⟩, ⟨?_, ?_⟩⟩
  · intro p hpp
    have := hoff p (by intro e; subst e; exact hp hpp)
    show (L p).isSome ∧ (R p).isSome
    rw [this.1, this.2]; exact hs.parentComplete p hpp
  · intro me hm; rw [ha]; exact h.told.toldS me hm
  · intro me hm d hd; rw [ha]; exact h.told.toldC me hm d hd

theorem upd_ne {α : Type} (f : Nat → α) (c : Nat) (v : α) (d : Nat) (h : d ≠ c) : upd f c v d = f d := by
  simp [upd, h]
@[simp] theorem upd_self {α : Type} (f : Nat → α) (c : Nat) (v : α) : upd f c v c = v := by
  simp [upd]

theorem onLevel_inv (s : DState) (c : ConnId) (n : Nat) (h : Inv s) : Inv (onLevel s c n) := by
  unfold onLevel
  split
  · rename_i hc
    have hoff : ∀ d, d ≠ c → upd s.level c (some n) d = s.level d ∧
        (if n = 0 then upd s.root c (some (s.name c)) else s.root) d = s.root d := by
      intro d hd
      refine ⟨upd_ne _ _ _ _ hd, ?_⟩
      split
      · exact upd_ne _ _ _ _ hd
      · rfl
    by_cases hp : s.parent = some c
    · simp only [if_pos hp]
      apply notify_inv
      refine sinv_announce s c _ _ h.str hoff (by simp) ?_
      split
      · simp
      · exact (h.str.parentComplete c hp).2
    · simp only [if_neg hp]
      exact checkNewParent_inv _ c (inv_announce s c _ _ h hoff hp) hc
  · exact h

theorem onRoot_inv (s : DState) (c : ConnId) (r : Name) (h : Inv s) : Inv (onRoot s c r) := by
  unfold onRoot
  split
  · rename_i hc
    split
    · exact h
    · have hoff : ∀ d, d ≠ c → s.level d = s.level d ∧ upd s.root c (some r) d = s.root d :=
        fun d hd => ⟨rfl, upd_ne _ _ _ _ hd⟩
      by_cases hp : s.parent = some c
      · simp only [if_pos hp]
        apply notify_inv
        exact sinv_announce s c _ _ h.str hoff (h.str.parentComplete c hp).1 (by simp)
      · simp only [if_neg hp]
        exact checkNewParent_inv _ c (inv_announce s c _ _ h hoff hp) hc
  · exact h

/-! ### new connections and children -/

theorem addChild_inv (s : DState) (c : ConnId) (h : Inv s) (hc : c ∈ s.live) (hnc : c ∉ s.children)
    (hpn : ∀ p, s.parent = some p → s.name c ≠ s.name p) (hR : s.toldR c = none) :
    Inv (addChild s c) := by
  have hs := h.str
  have hstr : SInv { s with children := s.children ++ [c] } := by
    refine ⟨hs.fresh, hs.liveNodup, ?_, hs.parentLive, ?_, hs.parentComplete, ?_⟩
    · exact List.nodup_append.2 ⟨hs.childNodup, by simp, by
        intro a ha b hb; simp at hb; subst hb; intro e; subst e; exact hnc ha⟩
    · intro d hd
      rcases List.mem_append.1 hd with hd | hd
      · exact hs.childLive d hd
      · simp at hd; subst hd; exact hc
    · intro p hp d hd
      rcases List.mem_append.1 hd with hd | hd
      · exact hs.pnc p hp d hd
      · simp at hd; subst hd; exact hpn p hp
  have htS := h.told.toldS
  have htC := h.told.toldC
  unfold addChild
  cases hm : s.session with
  | none =>
    simp only
    refine ⟨hstr.congr rfl rfl rfl rfl rfl rfl rfl, ⟨?_, ?_⟩⟩
    · intro me hme; cases hme
    · intro me hme; cases hme
  | some me =>
    simp only
    refine ⟨hstr.congr rfl rfl rfl rfl rfl rfl rfl, ⟨?_, ?_⟩⟩
    · intro me' hme'
      have e : me = me' := Option.some.inj hme'
      subst e
      exact htS me hm
    · intro me' hme' d hd
      have e : me = me' := Option.some.inj hme'
      subst e
      have hd' : d ∈ s.children ++ [c] := hd
      show ToldOK (s.adv me) (upd s.toldL c (some (s.adv me).level) d)
        ((if (s.adv me).level = 0 then s.toldR else upd s.toldR c (some (s.adv me).root)) d)
      rcases List.mem_append.1 hd' with hd1 | hd1
      · have hne : d ≠ c := by intro e; subst e; exact hnc hd1
        have := htC me hm d hd1
        rw [upd_ne _ _ _ _ hne]
        split
        · exact this
        · rw [upd_ne _ _ _ _ hne]; exact this
      · have : d = c := by simpa using hd1
        subst this
        rw [upd_self]
        split
        · rename_i h0; exact ⟨rfl, Or.inr ⟨hR, h0⟩⟩
        · rw [upd_self]; exact ⟨rfl, Or.inl rfl⟩

theorem checkNewChild_inv (s : DState) (c : ConnId) (h : Inv s) (hc : c ∈ s.live) (hnc : c ∉ s.children)
    (hR : s.toldR c = none) : Inv (checkNewChild s c) := by
  unfold checkNewChild
  split
  · exact h
  · rename_i hg
    split
    · exact closePeer_inv s c h
    · split
      · exact closePeer_inv s c h
      · refine addChild_inv s c h hc hnc ?_ hR
        intro p hp e
        apply hg
        right
        simp [DState.parentName, hp, e]

/-- the state right after the new `DistributedPeer` was appended -/
def withConn (s : DState) (n : Name) : DState :=
  { s with live := s.live ++ [s.nextConn], nextConn := s.nextConn + 1, name := upd s.name s.nextConn n,
           level := upd s.level s.nextConn none, root := upd s.root s.nextConn none,
           toldL := upd s.toldL s.nextConn none, toldR := upd s.toldR s.nextConn none,
           nL := upd s.nL s.nextConn 0, nR := upd s.nR s.nextConn 0 }

theorem initialized_eq (s : DState) (n : Name) (r : Bool) :
    initialized s n r = if r then withConn s n else checkNewChild (withConn s n) s.nextConn := rfl

theorem withConn_inv (s : DState) (n : Name) (h : Inv s) : Inv (withConn s n) := by
  have hs := h.str
  have hfresh : s.nextConn ∉ s.live := fun hm => Nat.lt_irrefl _ (hs.fresh _ hm)
  have hpne : ∀ p, s.parent = some p → p ≠ s.nextConn := by
    intro p hp e; subst e; exact hfresh (hs.parentLive _ hp)
  have hcne : ∀ d ∈ s.children, d ≠ s.nextConn := by
    intro d hd e; subst e; exact hfresh (hs.childLive _ hd)
  have ha : ∀ me, (withConn s n).adv me = s.adv me := fun me =>
    adv_congr s _ me rfl (fun p hp => ⟨upd_ne _ _ _ _ (hpne p hp), upd_ne _ _ _ _ (hpne p hp)⟩)
  refine ⟨⟨?_, ?_, hs.childNodup, ?_, ?_, ?_, ?_⟩, ⟨?_, ?_⟩⟩
  · intro d hd
    have hd' : d ∈ s.live ++ [s.nextConn] := hd
    show d < s.nextConn + 1
    rcases List.mem_append.1 hd' with hd' | hd'
    · exact Nat.lt_succ_of_lt (hs.fresh d hd')
    · have : d = s.nextConn := by simpa using hd'
      subst this; exact Nat.lt_succ_self _
  · exact List.nodup_append.2 ⟨hs.liveNodup, by simp, by
      intro a ha b hb; simp at hb; subst hb; intro e; subst e; exact hfresh ha⟩
  · intro p hp; exact List.mem_append_left _ (hs.parentLive p hp)
  · intro d hd; exact List.mem_append_left _ (hs.childLive d hd)
  · intro p hp
    show (upd s.level s.nextConn none p).isSome ∧ (upd s.root s.nextConn none p).isSome
    rw [upd_ne _ _ _ _ (hpne p hp), upd_ne _ _ _ _ (hpne p hp)]
    exact hs.parentComplete p hp
  · intro p hp d hd
    show upd s.name s.nextConn n d ≠ upd s.name s.nextConn n p
    rw [upd_ne _ _ _ _ (hpne p hp), upd_ne _ _ _ _ (hcne d hd)]
    exact hs.pnc p hp d hd
  · intro me hm; rw [ha]; exact h.told.toldS me hm
  · intro me hm d hd
    rw [ha]
    show ToldOK (s.adv me) (upd s.toldL s.nextConn none d) (upd s.toldR s.nextConn none d)
    rw [upd_ne _ _ _ _ (hcne d hd), upd_ne _ _ _ _ (hcne d hd)]
    exact h.told.toldC me hm d hd

theorem initialized_inv (s : DState) (n : Name) (r : Bool) (h : Inv s) : Inv (initialized s n r) := by
  have hfresh : s.nextConn ∉ s.live := fun hm => Nat.lt_irrefl _ (h.str.fresh _ hm)
  rw [initialized_eq]
  split
  · exact withConn_inv s n h
  · refine checkNewChild_inv _ _ (withConn_inv s n h) ?_ ?_ ?_
    · show s.nextConn ∈ s.live ++ [s.nextConn]; simp
    · intro hm; exact hfresh (h.str.childLive _ hm)
    · show upd s.toldR s.nextConn none s.nextConn = none; simp

/-! ### the remaining handlers only touch fields the invariant does not read -/

theorem frame_inv {s s' : DState} (h : Inv s) (h0 : s'.session = s.session) (h1 : s'.live = s.live)
    (h2 : s'.nextConn = s.nextConn) (h3 : s'.children = s.children) (h4 : s'.parent = s.parent)
    (h5 : s'.level = s.level) (h6 : s'.root = s.root) (h7 : s'.name = s.name)
    (h8 : s'.toldServer = s.toldServer) (h9 : s'.toldL = s.toldL) (h10 : s'.toldR = s.toldR) : Inv s' :=
  ⟨h.str.congr h1 h2 h3 h4 h5 h6 h7, h.told.congr h0 h3 h4 h5 h6 h8 h9 h10⟩

theorem requestUserStats_inv (s : DState) (h : Inv s) : Inv (requestUserStats s) := by
  unfold requestUserStats
  split
  · exact frame_inv h rfl rfl rfl rfl rfl rfl rfl rfl rfl rfl rfl
  · exact h

theorem onUserStats_inv (s : DState) (n : Name) (sp : Nat) (h : Inv s) : Inv (onUserStats s n sp) := by
  unfold onUserStats
  simp only
  split
  · split
    · exact frame_inv h rfl rfl rfl rfl rfl rfl rfl rfl rfl rfl rfl
    · split
      · exact frame_inv h rfl rfl rfl rfl rfl rfl rfl rfl rfl rfl rfl
      · exact frame_inv h rfl rfl rfl rfl rfl rfl rfl rfl rfl rfl rfl
  · exact h

theorem init_inv : Inv init := by
  refine ⟨⟨?_, List.nodup_nil, List.nodup_nil, ?_, ?_, ?_, ?_⟩, ⟨?_, ?_⟩⟩ <;> simp [init]

theorem step_inv (s : DState) (op : Op) (h : Inv s) : Inv (step s op) := by
  cases op with
  | potentialParents ns => exact frame_inv h rfl rfl rfl rfl rfl rfl rfl rfl rfl rfl rfl
  | initialized n r => exact initialized_inv s n r h
  | level c n => exact onLevel_inv s c n h
  | root c r => exact onRoot_inv s c r h
  | closed c => exact closePeer_inv s c h
  | userStats n sp => exact onUserStats_inv s n sp h
  | minSpeed n =>
    exact requestUserStats_inv _ (frame_inv h rfl rfl rfl rfl rfl rfl rfl rfl rfl rfl rfl)
  | speedRatio n =>
    exact requestUserStats_inv _ (frame_inv h rfl rfl rfl rfl rfl rfl rfl rfl rfl rfl rfl)
  | resetDistributed => exact reset_inv s h
  | sessionInit me =>
    exact notify_inv { s with session := some me } (h.str.congr rfl rfl rfl rfl rfl rfl rfl)
  | sessionDestroyed =>
    refine ⟨h.str.congr rfl rfl rfl rfl rfl rfl rfl, ⟨?_, ?_⟩⟩
    · intro me hm; cases hm
    · intro me hm; cases hm
  | serverStateChange => exact frame_inv h rfl rfl rfl rfl rfl rfl rfl rfl rfl rfl rfl

theorem foldl_step_inv (ops : List Op) (s : DState) (h : Inv s) : Inv (ops.foldl step s) := by
  induction ops generalizing s with
  | nil => exact h
  | cons op ops ih => exact ih _ (step_inv s op h)

/-- **The invariant holds after every op sequence.** -/
theorem run_inv (ops : List Op) : Inv (run ops) := foldl_step_inv ops init init_inv

/-! ### who can become a child: only `_check_if_new_child` → `_add_child` adds to `children` -/

theorem closePeer_children (s : DState) (c d : ConnId) (h : d ∈ (closePeer s c).children) :
    d ∈ s.children := by
  unfold closePeer at h
  split at h
  · by_cases hp : s.parent = some c
    · simp only [if_pos hp] at h
      have := List.mem_of_mem_erase h
      simpa using this
    · simp only [if_neg hp] at h
      exact List.mem_of_mem_erase h
  · exact h

theorem foldl_closePeer_children (l : List ConnId) (s : DState) (d : ConnId)
    (h : d ∈ (l.foldl closePeer s).children) : d ∈ s.children := by
  induction l generalizing s with
  | nil => exact h
  | cons c l ih => exact closePeer_children s c d (ih _ h)

theorem reset_children (s : DState) (d : ConnId) (h : d ∈ (reset s).children) : d ∈ s.children := by
  unfold reset at h
  simp only at h
  split at h
  · exact foldl_closePeer_children _ s d (closePeer_children _ _ d h)
  · exact foldl_closePeer_children _ s d h

theorem setParent_children (s : DState) (c : ConnId) : (setParent s c).children = s.children := by
  unfold setParent; simp

theorem checkNewParent_children (s : DState) (c d : ConnId) (h : d ∈ (checkNewParent s c).children) :
    d ∈ s.children := by
  unfold checkNewParent at h
  split at h
  · split at h
    · rw [setParent_children] at h; exact h
    · exact closePeer_children s c d h
  · exact h

theorem onLevel_children (s : DState) (c : ConnId) (n : Nat) (d : ConnId)
    (h : d ∈ (onLevel s c n).children) : d ∈ s.children := by
  unfold onLevel at h
  split at h
  · by_cases hp : s.parent = some c
    · simp only [if_pos hp] at h; simpa using h
    · simp only [if_neg hp] at h
      have := checkNewParent_children _ c d h
      exact this
  · exact h

theorem onRoot_children (s : DState) (c : ConnId) (r : Name) (d : ConnId)
    (h : d ∈ (onRoot s c r).children) : d ∈ s.children := by
  unfold onRoot at h
  split at h
  · split at h
    · exact h
    · by_cases hp : s.parent = some c
      · simp only [if_pos hp] at h; simpa using h
      · simp only [if_neg hp] at h
        have := checkNewParent_children _ c d h
        exact this
  · exact h

/-- the admission guard of `_check_if_new_child`, evaluated in the state *before* the new connection -/
def Admissible (s : DState) (n : Name) : Prop :=
  s.accept = true ∧ s.children.length < s.maxChildren ∧ n ∉ s.potential ∧ s.parentName ≠ some n

theorem addChild_children (s : DState) (c : ConnId) : (addChild s c).children = s.children ++ [c] := by
  unfold addChild; split <;> rfl

theorem checkNewChild_children (s : DState) (c d : ConnId) (h : d ∈ (checkNewChild s c).children) :
    d ∈ s.children ∨ (d = c ∧ s.accept = true ∧ s.children.length < s.maxChildren ∧
      s.name c ∉ s.potential ∧ s.parentName ≠ some (s.name c)) := by
  unfold checkNewChild at h
  split at h
  · exact Or.inl h
  · rename_i hg
    split at h
    · exact Or.inl (closePeer_children s c d h)
    · rename_i hacc
      split at h
      · exact Or.inl (closePeer_children s c d h)
      · rename_i hlen
        rw [addChild_children] at h
        rcases List.mem_append.1 h with h | h
        · exact Or.inl h
        · right
          have : d = c := by simpa using h
          refine ⟨this, ?_, by omega, fun hm => hg (Or.inl hm), fun hm => hg (Or.inr hm)⟩
          cases hb : s.accept with
          | true => rfl
          | false => exact absurd hb hacc

theorem initialized_children (s : DState) (n : Name) (r : Bool) (d : ConnId) (hi : Inv s)
    (h : d ∈ (initialized s n r).children) :
    d ∈ s.children ∨ (d = s.nextConn ∧ r = false ∧ Admissible s n) := by
  rw [initialized_eq] at h
  split at h
  · exact Or.inl h
  · rename_i hr
    rcases checkNewChild_children _ _ d h with h | ⟨h1, h2, h3, h4, h5⟩
    · exact Or.inl h
    · right
      have hfresh : s.nextConn ∉ s.live := fun hm => Nat.lt_irrefl _ (hi.str.fresh _ hm)
      have hname : (withConn s n).name s.nextConn = n := by simp [withConn]
      rw [hname] at h4 h5
      refine ⟨h1, by simpa using hr, h2, h3, h4, ?_⟩
      intro hp
      apply h5
      unfold DState.parentName at hp ⊢
      cases hpar : s.parent with
      | none => rw [hpar] at hp; cases hp
      | some p =>
        rw [hpar] at hp
        have hne : p ≠ s.nextConn := by
          intro e; subst e; exact hfresh (hi.str.parentLive _ hpar)
        show Option.map (upd s.name s.nextConn n) s.parent = some n
        rw [hpar]
        simp only [Option.map_some] at hp ⊢
        rw [upd_ne _ _ _ _ hne]; exact hp

/-- a connection only joins `children` by the `initialized _ false` step that created it, and only when the
admission guard held in the state before that step -/
theorem step_children (s : DState) (op : Op) (d : ConnId) (hi : Inv s)
    (h : d ∈ (step s op).children) (hn : d ∉ s.children) :
    ∃ n, op = .initialized n false ∧ d = s.nextConn ∧ Admissible s n := by
  cases op with
  | potentialParents ns => exact absurd h hn
  | initialized n r =>
    rcases initialized_children s n r d hi h with h | ⟨h1, h2, h3⟩
    · exact absurd h hn
    · subst h2; exact ⟨n, rfl, h1, h3⟩
  | level c n => exact absurd (onLevel_children s c n d h) hn
  | root c r => exact absurd (onRoot_children s c r d h) hn
  | closed c => exact absurd (closePeer_children s c d h) hn
  | userStats n sp =>
    have : (onUserStats s n sp).children = s.children := by
      unfold onUserStats; simp only; split
      · split
        · rfl
        · split <;> rfl
      · rfl
    exact absurd (this ▸ h) hn
  | minSpeed n =>
    have : (requestUserStats { s with minSpeed := some n }).children = s.children := by
      unfold requestUserStats; split <;> rfl
    exact absurd (this ▸ h) hn
  | speedRatio n =>
    have : (requestUserStats { s with ratio := some n }).children = s.children := by
      unfold requestUserStats; split <;> rfl
    exact absurd (this ▸ h) hn
  | resetDistributed => exact absurd (reset_children s d h) hn
  | sessionInit me =>
    have : (step s (.sessionInit me)).children = s.children := by simp [step]
    exact absurd (this ▸ h) hn
  | sessionDestroyed => exact absurd h hn
  | serverStateChange => exact absurd h hn

/-! ### the code's advertised values are the derived position -/

theorem adv_derived (s : DState) (me : Name) (h : Inv s) (hd : ¬ Degenerate s me) :
    Derived s me (s.adv me) s.parent.isNone := by
  unfold Derived DState.adv
  cases hp : s.parent with
  | none => exact ⟨rfl, rfl⟩
  | some c =>
    have hc := h.str.parentComplete c hp
    obtain ⟨l, hl⟩ := Option.isSome_iff_exists.1 hc.1
    obtain ⟨r, hr⟩ := Option.isSome_iff_exists.1 hc.2
    have hne : ¬ (s.root c = some me) := fun e => hd ⟨c, hp, e⟩
    refine ⟨l, r, hl, hr, ?_, rfl⟩
    rw [hr] at hne
    simp only [hl, hr, Option.getD_some, if_neg hne]

end AioslskVerif.Dist
