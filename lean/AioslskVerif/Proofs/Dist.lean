import AioslskVerif.Model.Dist
/-! Helper lemmas for C13: the inductive invariant of the distributed-tree model. -/
namespace AioslskVerif.Dist

/-- what a child was last told agrees with the advertised values `a`; for level 0 the root may never
have been written (`_add_child` omits it, the protocol lets the child assume the sender). -/
def ToldOK (a : Adv) (l : Option Nat) (r : Option Name) : Prop :=
  l = some a.level ∧ (r = some a.root ∨ (r = none ∧ a.level = 0))

/-- structural part of the invariant -/
structure SInv (s : DState) : Prop where
  fresh : ∀ c ∈ s.live, c < s.nextConn
  liveNodup : s.live.Nodup
  childNodup : s.children.Nodup
  parentLive : ∀ c, s.parent = some c → c ∈ s.live
  childLive : ∀ c ∈ s.children, c ∈ s.live
  parentComplete : ∀ c, s.parent = some c → (s.level c).isSome ∧ (s.root c).isSome
  pnc : ∀ c, s.parent = some c → ∀ d ∈ s.children, s.name d ≠ s.name c

/-- truthfulness part of the invariant (w.r.t. the code's own `adv`) -/
structure TInv (s : DState) : Prop where
  toldS : ∀ me, s.session = some me → s.toldServer = some (s.adv me, s.parent.isNone)
  toldC : ∀ me, s.session = some me → ∀ d ∈ s.children, ToldOK (s.adv me) (s.toldL d) (s.toldR d)

structure Inv (s : DState) : Prop where
  str : SInv s
  told : TInv s

/-- `adv` only reads the parent and the parent's announced values -/
theorem adv_congr (s s' : DState) (me : Name) (hp : s'.parent = s.parent)
    (hv : ∀ c, s.parent = some c → s'.level c = s.level c ∧ s'.root c = s.root c) :
    s'.adv me = s.adv me := by
  unfold DState.adv
  rw [hp]
  cases h : s.parent with
  | none => rfl
  | some c => simp only [(hv c h).1, (hv c h).2]

/-- `SInv` only reads these components -/
theorem SInv.congr {s s' : DState} (h : SInv s) (h1 : s'.live = s.live) (h2 : s'.nextConn = s.nextConn)
    (h3 : s'.children = s.children) (h4 : s'.parent = s.parent) (h5 : s'.level = s.level)
    (h6 : s'.root = s.root) (h7 : s'.name = s.name) : SInv s' := by
  constructor
  · rw [h1, h2]; exact h.fresh
  · rw [h1]; exact h.liveNodup
  · rw [h3]; exact h.childNodup
  · rw [h1, h4]; exact h.parentLive
  · rw [h1, h3]; exact h.childLive
  · rw [h4, h5, h6]; exact h.parentComplete
  · rw [h3, h4, h7]; exact h.pnc

theorem TInv.congr {s s' : DState} (h : TInv s) (h0 : s'.session = s.session)
    (h3 : s'.children = s.children) (h4 : s'.parent = s.parent) (h5 : s'.level = s.level)
    (h6 : s'.root = s.root) (h8 : s'.toldServer = s.toldServer) (h9 : s'.toldL = s.toldL)
    (h10 : s'.toldR = s.toldR) : TInv s' := by
  have ha : ∀ me, s'.adv me = s.adv me := fun me =>
    adv_congr s s' me h4 (fun c _ => by rw [h5, h6]; exact ⟨rfl, rfl⟩)
  constructor
  · intro me hm; rw [h8, ha, h4]; exact h.toldS me (h0 ▸ hm)
  · intro me hm d hd; rw [h9, h10, ha]; exact h.toldC me (h0 ▸ hm) d (h3 ▸ hd)

/-! ### field lemmas of the two notifications -/

@[simp] theorem notifyServer_session (s : DState) : (notifyServer s).session = s.session := by
  unfold notifyServer; split <;> rfl
@[simp] theorem notifyServer_parent (s : DState) : (notifyServer s).parent = s.parent := by
  unfold notifyServer; split <;> rfl
@[simp] theorem notifyServer_children (s : DState) : (notifyServer s).children = s.children := by
  unfold notifyServer; split <;> rfl
@[simp] theorem notifyServer_live (s : DState) : (notifyServer s).live = s.live := by
  unfold notifyServer; split <;> rfl
@[simp] theorem notifyServer_nextConn (s : DState) : (notifyServer s).nextConn = s.nextConn := by
  unfold notifyServer; split <;> rfl
@[simp] theorem notifyServer_level (s : DState) : (notifyServer s).level = s.level := by
  unfold notifyServer; split <;> rfl
@[simp] theorem notifyServer_root (s : DState) : (notifyServer s).root = s.root := by
  unfold notifyServer; split <;> rfl
@[simp] theorem notifyServer_name (s : DState) : (notifyServer s).name = s.name := by
  unfold notifyServer; split <;> rfl
@[simp] theorem notifyServer_toldL (s : DState) : (notifyServer s).toldL = s.toldL := by
  unfold notifyServer; split <;> rfl
@[simp] theorem notifyServer_toldR (s : DState) : (notifyServer s).toldR = s.toldR := by
  unfold notifyServer; split <;> rfl
@[simp] theorem notifyServer_potential (s : DState) : (notifyServer s).potential = s.potential := by
  unfold notifyServer; split <;> rfl
@[simp] theorem notifyServer_accept (s : DState) : (notifyServer s).accept = s.accept := by
  unfold notifyServer; split <;> rfl
@[simp] theorem notifyServer_maxChildren (s : DState) : (notifyServer s).maxChildren = s.maxChildren := by
  unfold notifyServer; split <;> rfl

@[simp] theorem notifyChildren_session (s : DState) : (notifyChildren s).session = s.session := by
  unfold notifyChildren; split <;> rfl
@[simp] theorem notifyChildren_parent (s : DState) : (notifyChildren s).parent = s.parent := by
  unfold notifyChildren; split <;> rfl
@[simp] theorem notifyChildren_children (s : DState) : (notifyChildren s).children = s.children := by
  unfold notifyChildren; split <;> rfl
@[simp] theorem notifyChildren_live (s : DState) : (notifyChildren s).live = s.live := by
  unfold notifyChildren; split <;> rfl
@[simp] theorem notifyChildren_nextConn (s : DState) : (notifyChildren s).nextConn = s.nextConn := by
  unfold notifyChildren; split <;> rfl
@[simp] theorem notifyChildren_level (s : DState) : (notifyChildren s).level = s.level := by
  unfold notifyChildren; split <;> rfl
@[simp] theorem notifyChildren_root (s : DState) : (notifyChildren s).root = s.root := by
  unfold notifyChildren; split <;> rfl
@[simp] theorem notifyChildren_name (s : DState) : (notifyChildren s).name = s.name := by
  unfold notifyChildren; split <;> rfl
@[simp] theorem notifyChildren_toldServer (s : DState) : (notifyChildren s).toldServer = s.toldServer := by
  unfold notifyChildren; split <;> rfl
@[simp] theorem notifyChildren_potential (s : DState) : (notifyChildren s).potential = s.potential := by
  unfold notifyChildren; split <;> rfl
@[simp] theorem notifyChildren_accept (s : DState) : (notifyChildren s).accept = s.accept := by
  unfold notifyChildren; split <;> rfl
@[simp] theorem notifyChildren_maxChildren (s : DState) : (notifyChildren s).maxChildren = s.maxChildren := by
  unfold notifyChildren; split <;> rfl

@[simp] theorem notifyServer_adv (s : DState) (me : Name) : (notifyServer s).adv me = s.adv me :=
  adv_congr s _ me (by simp) (fun c _ => by simp)
@[simp] theorem notifyChildren_adv (s : DState) (me : Name) : (notifyChildren s).adv me = s.adv me :=
  adv_congr s _ me (by simp) (fun c _ => by simp)

theorem notifyServer_toldServer (s : DState) (me : Name) (h : s.session = some me) :
    (notifyServer s).toldServer = some (s.adv me, s.parent.isNone) := by
  unfold notifyServer; simp [h]

theorem notifyChildren_told (s : DState) (me : Name) (h : s.session = some me) (d : ConnId)
    (hd : d ∈ s.children) :
    (notifyChildren s).toldL d = some (s.adv me).level ∧ (notifyChildren s).toldR d = some (s.adv me).root := by
  unfold notifyChildren; simp [h, hd]

/-- **Both notifications re-establish truthfulness from any structurally sound state.** -/
theorem notify_inv (s : DState) (h : SInv s) : Inv (notifyChildren (notifyServer s)) := by
  constructor
  · exact h.congr (by simp) (by simp) (by simp) (by simp) (by simp) (by simp) (by simp)
  · constructor
    · intro me hm
      simp only [notifyChildren_session, notifyServer_session] at hm
      simp only [notifyChildren_toldServer, notifyChildren_adv, notifyServer_adv, notifyChildren_parent,
        notifyServer_parent]
      exact notifyServer_toldServer s me hm
    · intro me hm d hd
      simp only [notifyChildren_session, notifyServer_session] at hm
      simp only [notifyChildren_children, notifyServer_children] at hd
      have := notifyChildren_told (notifyServer s) me (by simpa using hm) d (by simpa using hd)
      simp only [notifyServer_adv] at this
      simp only [notifyChildren_adv, notifyServer_adv]
      exact ⟨this.1, Or.inl this.2⟩

end AioslskVerif.Dist
