import AioslskVerif.Proofs.Dist
import AioslskVerif.Model.DistSusp
import AioslskVerif.Spec.DistLimits
/-! Helper lemmas for C13 over the small-step layer `Model/DistSusp.lean` (suspended sends to the server, failing
child writes): the inductive invariant `XInv`, who can become a child, and the refinement of the atomic model. -/
namespace AioslskVerif.Dist

/-! ### what is told, as predicates on the tree state -/

/-- the server has been told the advertised position -/
def ToldS (d : DState) : Prop := ∀ me, d.session = some me → d.toldServer = some (d.adv me, d.parent.isNone)

/-- every child has been told the advertised position -/
def ToldC (d : DState) : Prop :=
  ∀ me, d.session = some me → ∀ c ∈ d.children, ToldOK (d.adv me) (d.toldL c) (d.toldR c)

theorem inv_of (d : DState) (h1 : SInv d) (h2 : ToldS d) (h3 : ToldC d) : Inv d := ⟨h1, ⟨h2, h3⟩⟩

/-- what the youngest suspended handler will do makes the children's knowledge right again -/
def ContOK (d : DState) : Option Cont → Prop
  | none => ToldC d
  | some .tellAdv => True
  | some (.unsetTail _ me') => ∀ me, d.session = some me → me' = me ∧ d.parent = none

def PendOK (x : XState) : Prop := ContOK x.d x.pend.getLast?

/-- everything but what has been told -/
structure BInv (x : XState) : Prop where
  str : SInv x.d
  closingNP : ∀ c ∈ x.closing, x.d.parent ≠ some c
  closingFresh : ∀ c ∈ x.closing, c < x.d.nextConn
  closingNC : ∀ c ∈ x.closing, c ∉ x.d.children
  pendClosing : ∀ c me, Cont.unsetTail c me ∈ x.pend → c ∈ x.closing
  unblocked : x.srvBlocked = false → x.pend = []

structure XInv (x : XState) : Prop where
  binv : BInv x
  toldS : ToldS x.d
  pendOK : PendOK x

theorem contOK_nosession (d : DState) (h : d.session = none) (k : Option Cont) : ContOK d k := by
  cases k with
  | none => intro me hm; rw [h] at hm; cases hm
  | some k =>
    cases k with
    | tellAdv => trivial
    | unsetTail c me' => intro me hm; rw [h] at hm; cases hm

theorem toldS_nosession (d : DState) (h : d.session = none) : ToldS d := by
  intro me hm; rw [h] at hm; cases hm

/-- with no session nothing is demanded of what was told -/
theorem xinv_nosession (x : XState) (hb : BInv x) (h : x.d.session = none) : XInv x :=
  ⟨hb, toldS_nosession _ h, contOK_nosession _ h _⟩

/-! ### `tell` -/

@[simp] theorem tell_parent (x : XState) (a : Adv) : (tell x a).d.parent = x.d.parent := rfl
@[simp] theorem tell_session (x : XState) (a : Adv) : (tell x a).d.session = x.d.session := rfl
@[simp] theorem tell_level (x : XState) (a : Adv) : (tell x a).d.level = x.d.level := rfl
@[simp] theorem tell_root (x : XState) (a : Adv) : (tell x a).d.root = x.d.root := rfl
@[simp] theorem tell_name (x : XState) (a : Adv) : (tell x a).d.name = x.d.name := rfl
@[simp] theorem tell_nextConn (x : XState) (a : Adv) : (tell x a).d.nextConn = x.d.nextConn := rfl
@[simp] theorem tell_toldServer (x : XState) (a : Adv) : (tell x a).d.toldServer = x.d.toldServer := rfl
@[simp] theorem tell_pend (x : XState) (a : Adv) : (tell x a).pend = x.pend := rfl
@[simp] theorem tell_closing (x : XState) (a : Adv) : (tell x a).closing = x.closing := rfl
@[simp] theorem tell_srvBlocked (x : XState) (a : Adv) : (tell x a).srvBlocked = x.srvBlocked := rfl
@[simp] theorem tell_armed (x : XState) (a : Adv) : (tell x a).armed = x.armed := rfl
theorem tell_children (x : XState) (a : Adv) :
    (tell x a).d.children = x.d.children.filter (fun c => decide (c ∉ x.armed)) := rfl
theorem tell_live (x : XState) (a : Adv) :
    (tell x a).d.live = x.d.live.filter (fun c => decide (¬ (c ∈ x.d.children ∧ c ∈ x.armed))) := rfl

theorem mem_tell_children {x : XState} {a : Adv} {c : ConnId} :
    c ∈ (tell x a).d.children ↔ c ∈ x.d.children ∧ c ∉ x.armed := by
  rw [tell_children]; simp [List.mem_filter]

theorem tell_children_sub (x : XState) (a : Adv) (c : ConnId) (h : c ∈ (tell x a).d.children) :
    c ∈ x.d.children := (mem_tell_children.1 h).1

@[simp] theorem tell_adv (x : XState) (a : Adv) (me : Name) : (tell x a).d.adv me = x.d.adv me :=
  adv_congr x.d _ me rfl (fun _ _ => ⟨rfl, rfl⟩)

/-- **every child that can be reached is told**, whatever happens to the others -/
theorem tell_told (x : XState) (a : Adv) (c : ConnId) (hc : c ∈ x.d.children) (ha : c ∉ x.armed) :
    (tell x a).d.toldL c = some a.level ∧ (tell x a).d.toldR c = some a.root := by
  have h : c ∈ x.d.children ∧ c ∉ x.armed := ⟨hc, ha⟩
  constructor
  · show (if c ∈ x.d.children ∧ c ∉ x.armed then some a.level else x.d.toldL c) = some a.level
    rw [if_pos h]
  · show (if c ∈ x.d.children ∧ c ∉ x.armed then some a.root else x.d.toldR c) = some a.root
    rw [if_pos h]

theorem tell_toldOK (x : XState) (a : Adv) (c : ConnId) (hc : c ∈ (tell x a).d.children) :
    ToldOK a ((tell x a).d.toldL c) ((tell x a).d.toldR c) := by
  obtain ⟨h1, h2⟩ := mem_tell_children.1 hc
  obtain ⟨hl, hr⟩ := tell_told x a c h1 h2
  exact ⟨hl, Or.inl hr⟩

theorem parent_not_child {d : DState} (h : SInv d) {p : ConnId} (hp : d.parent = some p) : p ∉ d.children :=
  fun hm => h.pnc p hp p hm rfl

theorem tell_sinv (x : XState) (a : Adv) (h : SInv x.d) : SInv (tell x a).d := by
  refine ⟨?_, ?_, ?_, ?_, ?_, h.parentComplete, ?_⟩
  · intro c hc; rw [tell_live] at hc; exact h.fresh c (List.mem_filter.1 hc).1
  · rw [tell_live]; exact h.liveNodup.filter _
  · rw [tell_children]; exact h.childNodup.filter _
  · intro p hp
    rw [tell_live, List.mem_filter]
    refine ⟨h.parentLive p hp, ?_⟩
    have := parent_not_child h hp
    simp [this]
  · intro c hc
    obtain ⟨h1, h2⟩ := mem_tell_children.1 hc
    rw [tell_live, List.mem_filter]
    refine ⟨h.childLive c h1, ?_⟩
    simp [h2]
  · intro p hp c hc
    exact h.pnc p hp c (tell_children_sub x a c hc)

theorem tell_binv (x : XState) (a : Adv) (h : BInv x) : BInv (tell x a) :=
  ⟨tell_sinv x a h.str, h.closingNP, h.closingFresh,
   fun c hc hm => h.closingNC c hc (tell_children_sub x a c hm), h.pendClosing, h.unblocked⟩

theorem tell_toldS (x : XState) (a : Adv) (h : ToldS x.d) : ToldS (tell x a).d := by
  intro me hm
  simp only [tell_toldServer, tell_adv, tell_parent]
  exact h me hm

/-! ### removing a connection that is not the parent's -/

theorem dropConn_sinv (d : DState) (c : ConnId) (h : SInv d) (hp : d.parent ≠ some c) : SInv (dropConn d c) := by
  refine ⟨?_, ?_, ?_, ?_, ?_, h.parentComplete, ?_⟩
  · intro e he; exact h.fresh e (List.mem_of_mem_erase he)
  · exact h.liveNodup.erase c
  · exact h.childNodup.erase c
  · intro p hpp
    have hne : p ≠ c := by intro e; subst e; exact hp hpp
    exact (List.mem_erase_of_ne hne).2 (h.parentLive p hpp)
  · intro e he
    have he' := (h.childNodup.mem_erase_iff).1 he
    exact (List.mem_erase_of_ne he'.1).2 (h.childLive e he'.2)
  · intro p hpp e he; exact h.pnc p hpp e (List.mem_of_mem_erase he)

@[simp] theorem dropConn_adv (d : DState) (c : ConnId) (me : Name) : (dropConn d c).adv me = d.adv me :=
  adv_congr d _ me rfl (fun _ _ => ⟨rfl, rfl⟩)

theorem dropConn_toldS (d : DState) (c : ConnId) (h : ToldS d) : ToldS (dropConn d c) := by
  intro me hm
  rw [dropConn_adv]
  exact h me hm

theorem dropConn_toldC (d : DState) (c : ConnId) (h : ToldC d) : ToldC (dropConn d c) := by
  intro me hm e he
  rw [dropConn_adv]
  exact h me hm e (List.mem_of_mem_erase he)

theorem drop_binv (x : XState) (c : ConnId) (h : BInv x) (hp : x.d.parent ≠ some c) :
    BInv { x with d := dropConn x.d c } :=
  ⟨dropConn_sinv x.d c h.str hp, h.closingNP, h.closingFresh,
   fun e he hm => h.closingNC e he (List.mem_of_mem_erase hm), h.pendClosing, h.unblocked⟩

/-! ### steps that only tell children and let connections go -/

/-- `y` differs from `x` only in what the children were told and in children / closed connections that went away -/
structure Shrinks (x y : XState) : Prop where
  parent : y.d.parent = x.d.parent
  session : y.d.session = x.d.session
  level : y.d.level = x.d.level
  root : y.d.root = x.d.root
  toldServer : y.d.toldServer = x.d.toldServer
  nextConn : y.d.nextConn = x.d.nextConn
  children : ∀ c ∈ y.d.children, c ∈ x.d.children
  closing : ∀ c ∈ y.closing, c ∈ x.closing
  pend : y.pend = x.pend
  srvBlocked : y.srvBlocked = x.srvBlocked
  accept : y.d.accept = x.d.accept
  maxChildren : y.d.maxChildren = x.d.maxChildren
  minSpeed : y.d.minSpeed = x.d.minSpeed
  ratio : y.d.ratio = x.d.ratio
  potential : y.d.potential = x.d.potential

theorem Shrinks.refl (x : XState) : Shrinks x x :=
  ⟨rfl, rfl, rfl, rfl, rfl, rfl, fun _ h => h, fun _ h => h, rfl, rfl, rfl, rfl, rfl, rfl, rfl⟩

theorem Shrinks.trans {x y z : XState} (h1 : Shrinks x y) (h2 : Shrinks y z) : Shrinks x z :=
  ⟨h2.parent.trans h1.parent, h2.session.trans h1.session, h2.level.trans h1.level, h2.root.trans h1.root,
   h2.toldServer.trans h1.toldServer, h2.nextConn.trans h1.nextConn,
   fun c h => h1.children c (h2.children c h), fun c h => h1.closing c (h2.closing c h),
   h2.pend.trans h1.pend, h2.srvBlocked.trans h1.srvBlocked, h2.accept.trans h1.accept,
   h2.maxChildren.trans h1.maxChildren, h2.minSpeed.trans h1.minSpeed, h2.ratio.trans h1.ratio,
   h2.potential.trans h1.potential⟩

theorem Shrinks.adv {x y : XState} (h : Shrinks x y) (me : Name) : y.d.adv me = x.d.adv me :=
  adv_congr x.d y.d me h.parent (fun _ _ => by rw [h.level, h.root]; exact ⟨rfl, rfl⟩)

theorem Shrinks.toldS {x y : XState} (h : Shrinks x y) (hs : ToldS x.d) : ToldS y.d := by
  intro me hm
  rw [h.toldServer, h.adv, h.parent]
  exact hs me (h.session ▸ hm)

theorem tell_shrinks (x : XState) (a : Adv) : Shrinks x (tell x a) :=
  ⟨rfl, rfl, rfl, rfl, rfl, rfl, tell_children_sub x a, fun _ h => h, rfl, rfl, rfl, rfl, rfl, rfl, rfl⟩

theorem notifyChildrenX_shrinks (x : XState) : Shrinks x (notifyChildrenX x) := by
  unfold notifyChildrenX
  split
  · exact tell_shrinks x _
  · exact Shrinks.refl x

theorem runCont_shrinks (x : XState) (k : Cont) : Shrinks x (runCont x k) := by
  cases k with
  | tellAdv => exact notifyChildrenX_shrinks x
  | unsetTail c me =>
    refine (tell_shrinks x ⟨0, me⟩).trans ?_
    exact ⟨rfl, rfl, rfl, rfl, rfl, rfl, fun e h => List.mem_of_mem_erase h,
           fun e h => (List.mem_filter.1 h).1, rfl, rfl, rfl, rfl, rfl, rfl, rfl⟩

theorem notifyChildrenX_binv (x : XState) (h : BInv x) : BInv (notifyChildrenX x) := by
  unfold notifyChildrenX
  split
  · exact tell_binv x _ h
  · exact h

theorem runCont_binv (x : XState) (k : Cont) (h : BInv x) (hp : x.pend = [])
    (hk : ∀ c me, k = .unsetTail c me → x.d.parent ≠ some c) : BInv (runCont x k) := by
  cases k with
  | tellAdv => exact notifyChildrenX_binv x h
  | unsetTail c me =>
    have h1 := tell_binv x ⟨0, me⟩ h
    have hpar : (tell x ⟨0, me⟩).d.parent ≠ some c := hk c me rfl
    refine ⟨dropConn_sinv _ c h1.str hpar, ?_, ?_, ?_, ?_, ?_⟩
    · intro e he; exact h1.closingNP e (List.mem_filter.1 he).1
    · intro e he; exact h1.closingFresh e (List.mem_filter.1 he).1
    · intro e he hm; exact h1.closingNC e (List.mem_filter.1 he).1 (List.mem_of_mem_erase hm)
    · intro e me' hm
      have : (tell x ⟨0, me⟩).pend = [] := hp
      change Cont.unsetTail e me' ∈ (tell x ⟨0, me⟩).pend at hm
      rw [this] at hm; cases hm
    · intro _; exact hp

/-- after `_notify_children_of_branch_values` every child knows the advertised position -/
theorem notifyChildrenX_toldC (x : XState) : ToldC (notifyChildrenX x).d := by
  intro me hm c hc
  have hs : x.d.session = some me := (notifyChildrenX_shrinks x).session ▸ hm
  rw [(notifyChildrenX_shrinks x).adv]
  unfold notifyChildrenX at hc ⊢
  rw [hs] at hc ⊢
  exact tell_toldOK x _ c hc

theorem runCont_tellAdv_toldC (x : XState) : ToldC (runCont x .tellAdv).d := notifyChildrenX_toldC x

/-- after the tail of `_unset_parent` every child knows `(0, me)`, which is the advertised position as long as
there is no parent and the session is the same -/
theorem runCont_unsetTail_toldC (x : XState) (c : ConnId) (me' : Name)
    (h : ∀ me, x.d.session = some me → me' = me ∧ x.d.parent = none) :
    ToldC (runCont x (.unsetTail c me')).d := by
  intro me hm e he
  have hsh := runCont_shrinks x (.unsetTail c me')
  have hs : x.d.session = some me := hsh.session ▸ hm
  obtain ⟨hme, hpar⟩ := h me hs
  subst hme
  rw [hsh.adv]
  have hadv : x.d.adv me' = ⟨0, me'⟩ := by unfold DState.adv; rw [hpar]
  rw [hadv]
  have he' : e ∈ (tell x ⟨0, me'⟩).d.children := List.mem_of_mem_erase he
  exact tell_toldOK x ⟨0, me'⟩ e he'

/-! ### `await _notify_server_of_parent()`, then the rest of the handler -/

theorem notifyServer_sinv (d : DState) (h : SInv d) : SInv (notifyServer d) :=
  h.congr (by simp) (by simp) (by simp) (by simp) (by simp) (by simp) (by simp)

theorem notifyServer_toldS (d : DState) : ToldS (notifyServer d) := by
  intro me hm
  simp only [notifyServer_session] at hm
  simp only [notifyServer_adv, notifyServer_parent]
  exact notifyServer_toldServer d me hm

theorem serverThen_xinv (x : XState) (k : Cont) (h : BInv x)
    (hk : ∀ c me, k = .unsetTail c me → c ∈ x.closing ∧ x.d.session = some me ∧ x.d.parent = none) :
    XInv (serverThen x k) := by
  unfold serverThen
  split
  · rename_i hs; exact xinv_nosession x h hs
  · rename_i me0 hs
    have hb1 : BInv { x with d := notifyServer x.d } :=
      ⟨notifyServer_sinv _ h.str, by simpa using h.closingNP, by simpa using h.closingFresh,
       by simpa using h.closingNC, h.pendClosing, h.unblocked⟩
    by_cases hbl : x.srvBlocked = true
    · rw [if_pos hbl]
      refine ⟨⟨hb1.str, hb1.closingNP, hb1.closingFresh, hb1.closingNC, ?_, ?_⟩, notifyServer_toldS _, ?_⟩
      · intro c me hm
        rcases List.mem_append.1 hm with hm | hm
        · exact h.pendClosing c me hm
        · rw [List.mem_singleton] at hm
          exact (hk c me hm.symm).1
      · intro hf
        have : x.srvBlocked = false := hf
        rw [hbl] at this; cases this
      · show ContOK (notifyServer x.d) (x.pend ++ [k]).getLast?
        rw [List.getLast?_append, List.getLast?_singleton]
        simp only [Option.some_or]
        cases k with
        | tellAdv => trivial
        | unsetTail c me' =>
          intro me hm
          obtain ⟨_, h2, h3⟩ := hk c me' rfl
          simp only [notifyServer_session] at hm
          rw [h2] at hm
          exact ⟨Option.some.inj hm, by simpa using h3⟩
    · have hbl' : x.srvBlocked = false := by
        cases hb : x.srvBlocked with
        | true => exact absurd hb hbl
        | false => rfl
      rw [if_neg hbl]
      have hpend : x.pend = [] := h.unblocked hbl'
      have hkk : ∀ c me, k = .unsetTail c me → (notifyServer x.d).parent ≠ some c := by
        intro c me hke
        have := (hk c me hke).2.2
        simp [this]
      have hb2 := runCont_binv { x with d := notifyServer x.d } k hb1 hpend hkk
      have hsh := runCont_shrinks { x with d := notifyServer x.d } k
      refine ⟨hb2, hsh.toldS (notifyServer_toldS _), ?_⟩
      show ContOK _ (runCont { x with d := notifyServer x.d } k).pend.getLast?
      have : (runCont { x with d := notifyServer x.d } k).pend = [] := by rw [hsh.pend]; exact hpend
      rw [this]
      show ToldC _
      cases k with
      | tellAdv => exact runCont_tellAdv_toldC _
      | unsetTail c me' =>
        apply runCont_unsetTail_toldC
        intro me hm
        obtain ⟨_, h2, h3⟩ := hk c me' rfl
        simp only [notifyServer_session] at hm
        rw [h2] at hm
        exact ⟨Option.some.inj hm, by simpa using h3⟩

/-! ### framing -/

theorem toldS_frame {d d' : DState} (h : ToldS d) (h1 : d'.session = d.session) (h2 : d'.toldServer = d.toldServer)
    (h3 : d'.parent = d.parent) (h4 : ∀ me, d'.adv me = d.adv me) : ToldS d' := by
  intro me hm
  rw [h2, h3, h4]
  exact h me (h1 ▸ hm)

theorem pendOK_frame {x x' : XState} (h : PendOK x) (hp : x'.pend = x.pend) (hs : x'.d.session = x.d.session)
    (hpar : x'.d.parent = x.d.parent) (hc : x.pend = [] → ToldC x.d → ToldC x'.d) : PendOK x' := by
  unfold PendOK at h ⊢
  rw [hp]
  cases hl : x.pend.getLast? with
  | none =>
    rw [hl] at h
    exact hc (List.getLast?_eq_none_iff.1 hl) h
  | some k =>
    rw [hl] at h
    cases k with
    | tellAdv => trivial
    | unsetTail c me' =>
      intro me hm
      rw [hpar]
      exact h me (hs ▸ hm)

/-- a step that leaves alone everything the invariant reads -/
theorem xinv_frame {x : XState} {d' : DState} (h : XInv x) (h0 : d'.session = x.d.session)
    (h1 : d'.live = x.d.live) (h2 : d'.nextConn = x.d.nextConn) (h3 : d'.children = x.d.children)
    (h4 : d'.parent = x.d.parent) (h5 : d'.level = x.d.level) (h6 : d'.root = x.d.root)
    (h7 : d'.name = x.d.name) (h8 : d'.toldServer = x.d.toldServer) (h9 : d'.toldL = x.d.toldL)
    (h10 : d'.toldR = x.d.toldR) : XInv { x with d := d' } := by
  have ha : ∀ me, d'.adv me = x.d.adv me := fun me =>
    adv_congr x.d d' me h4 (fun c _ => by rw [h5, h6]; exact ⟨rfl, rfl⟩)
  refine ⟨⟨h.binv.str.congr h1 h2 h3 h4 h5 h6 h7, ?_, ?_, ?_, h.binv.pendClosing, h.binv.unblocked⟩,
          toldS_frame h.toldS h0 h8 h4 ha, pendOK_frame h.pendOK rfl h0 h4 ?_⟩
  · intro c hc; show d'.parent ≠ some c; rw [h4]; exact h.binv.closingNP c hc
  · intro c hc; show c < d'.nextConn; rw [h2]; exact h.binv.closingFresh c hc
  · intro c hc; show c ∉ d'.children; rw [h3]; exact h.binv.closingNC c hc
  · intro _ htc me hm c hc
    show ToldOK (d'.adv me) (d'.toldL c) (d'.toldR c)
    rw [ha, h9, h10]
    exact htc me (h0 ▸ hm) c (h3 ▸ hc)

/-! ### a connection is closed -/

theorem closePeerX_xinv (x : XState) (c : ConnId) (h : XInv x) : XInv (closePeerX x c) := by
  have hb := h.binv
  unfold closePeerX
  split
  · rename_i hc
    split
    · rename_i hp
      have hnc : c ∉ x.d.children := parent_not_child hb.str hp
      split
      · rename_i me hs
        apply serverThen_xinv
        · refine ⟨sinv_noParent x.d hb.str, ?_, ?_, ?_, ?_, hb.unblocked⟩
          · intro e _ he; cases he
          · intro e he
            rcases List.mem_cons.1 he with he | he
            · subst he; exact hb.str.fresh _ hc
            · exact hb.closingFresh e he
          · intro e he
            rcases List.mem_cons.1 he with he | he
            · subst he; exact hnc
            · exact hb.closingNC e he
          · intro e me' hm; exact List.mem_cons_of_mem _ (hb.pendClosing e me' hm)
        · intro c' me' hk
          injection hk with h1 h2
          subst h1; subst h2
          exact ⟨List.mem_cons_self, hs, rfl⟩
      · rename_i hs
        refine xinv_nosession _ ?_ hs
        refine ⟨dropConn_sinv _ c (sinv_noParent x.d hb.str) (by intro he; cases he), ?_, hb.closingFresh, ?_,
                hb.pendClosing, hb.unblocked⟩
        · intro e _ he; cases he
        · intro e he hm; exact hb.closingNC e he (List.mem_of_mem_erase hm)
    · rename_i hp
      refine ⟨drop_binv x c hb hp, dropConn_toldS _ c h.toldS, pendOK_frame h.pendOK rfl rfl rfl ?_⟩
      intro _ htc; exact dropConn_toldC _ c htc
  · exact h

theorem foldl_closePeerX_xinv (l : List ConnId) (x : XState) (h : XInv x) : XInv (l.foldl closePeerX x) := by
  induction l generalizing x with
  | nil => exact h
  | cons c l ih => exact ih _ (closePeerX_xinv x c h)

theorem resetX_xinv (x : XState) (h : XInv x) : XInv (resetX x) := by
  unfold resetX
  have h1 := foldl_closePeerX_xinv x.d.children x h
  simp only
  split
  · exact closePeerX_xinv _ _ h1
  · exact h1

/-! ### taking a parent, announcements -/

theorem setParentX_xinv (x : XState) (c : ConnId) (hb : BInv x) (hc : c ∈ x.d.live) (hcl : c ∉ x.closing)
    (hl : (x.d.level c).isSome) (hr : (x.d.root c).isSome) (hn : x.d.isChildName (x.d.name c) = false) :
    XInv (setParentX x c) := by
  unfold setParentX
  apply serverThen_xinv
  · have hs := hb.str
    refine ⟨⟨?_, ?_, hs.childNodup, ?_, ?_, ?_, ?_⟩, ?_, hb.closingFresh, hb.closingNC, hb.pendClosing,
            hb.unblocked⟩
    · intro e he; exact hs.fresh e (List.mem_filter.1 he).1
    · exact hs.liveNodup.filter _
    · intro p hp
      have : c = p := by simpa using hp
      subst this
      simp [List.mem_filter, hc]
    · intro e he
      simp only [List.mem_filter, decide_eq_true_eq]
      exact ⟨hs.childLive e he, Or.inr (Or.inl he)⟩
    · intro p hp
      have : c = p := by simpa using hp
      subst this
      exact ⟨hl, hr⟩
    · intro p hp e he
      have : c = p := by simpa using hp
      subst this
      unfold DState.isChildName at hn
      rw [List.any_eq_false] at hn
      simpa using hn e he
    · intro e he hp
      have : c = e := by simpa using hp
      subst this
      exact hcl he
  · intro _ _ hk; cases hk

theorem checkNewParentX_xinv (x : XState) (c : ConnId) (h : XInv x) (hc : c ∈ x.d.live) (hcl : c ∉ x.closing) :
    XInv (checkNewParentX x c) := by
  unfold checkNewParentX
  split
  · rename_i hlr
    split
    · rename_i hpn
      exact setParentX_xinv x c h.binv hc hcl hlr.1 hlr.2 hpn.2
    · exact closePeerX_xinv x c h
  · exact h

/-- new announced values on a connection that is not the parent's -/
theorem xinv_announce (x : XState) (c : ConnId) (L : ConnId → Option Nat) (R : ConnId → Option Name)
    (h : XInv x) (hoff : ∀ e, e ≠ c → L e = x.d.level e ∧ R e = x.d.root e) (hp : x.d.parent ≠ some c) :
    XInv { x with d := { x.d with level := L, root := R } } := by
  have hb := h.binv
  have hs := hb.str
  have ha : ∀ me, DState.adv { x.d with level := L, root := R } me = x.d.adv me := fun me =>
    adv_congr x.d _ me rfl (fun p hpp => hoff p (by intro e; subst e; exact hp hpp))
  refine ⟨⟨⟨hs.fresh, hs.liveNodup, hs.childNodup, hs.parentLive, hs.childLive, ?_, hs.pnc⟩, hb.closingNP,
           hb.closingFresh, hb.closingNC, hb.pendClosing, hb.unblocked⟩,
          toldS_frame h.toldS rfl rfl rfl ha, pendOK_frame h.pendOK rfl rfl rfl ?_⟩
  · intro p hpp
    have := hoff p (by intro e; subst e; exact hp hpp)
    show (L p).isSome ∧ (R p).isSome
    rw [this.1, this.2]; exact hs.parentComplete p hpp
  · intro _ htc
    exact (inv_announce x.d c L R (inv_of _ hs h.toldS htc) hoff hp).told.toldC

/-- the parent announces new values: everything is told again -/
theorem reannounce_xinv (x : XState) (c : ConnId) (L : ConnId → Option Nat) (R : ConnId → Option Name)
    (hb : BInv x) (hoff : ∀ e, e ≠ c → L e = x.d.level e ∧ R e = x.d.root e)
    (hL : (L c).isSome) (hR : (R c).isSome) :
    XInv (serverThen { x with d := { x.d with level := L, root := R } } .tellAdv) := by
  apply serverThen_xinv
  · exact ⟨sinv_announce x.d c L R hb.str hoff hL hR, hb.closingNP, hb.closingFresh, hb.closingNC,
           hb.pendClosing, hb.unblocked⟩
  · intro _ _ hk; cases hk

theorem onLevelX_xinv (x : XState) (c : ConnId) (n : Nat) (h : XInv x) (hcl : c ∉ x.closing) :
    XInv (onLevelX x c n) := by
  unfold onLevelX
  simp only
  split
  · rename_i hc
    have hoff : ∀ e, e ≠ c → upd x.d.level c (some n) e = x.d.level e ∧
        (if n = 0 then upd x.d.root c (some (x.d.name c)) else x.d.root) e = x.d.root e := by
      intro e he
      refine ⟨upd_ne _ _ _ _ he, ?_⟩
      split
      · exact upd_ne _ _ _ _ he
      · rfl
    by_cases hp : x.d.parent = some c
    · rw [if_pos hp]
      refine reannounce_xinv x c _ _ h.binv hoff (by simp) ?_
      split
      · simp
      · exact (h.binv.str.parentComplete c hp).2
    · rw [if_neg hp]
      exact checkNewParentX_xinv _ c (xinv_announce x c _ _ h hoff hp) hc hcl
  · exact h

theorem onRootX_xinv (x : XState) (c : ConnId) (r : Name) (h : XInv x) (hcl : c ∉ x.closing) :
    XInv (onRootX x c r) := by
  unfold onRootX
  simp only
  split
  · rename_i hc
    split
    · exact h
    · have hoff : ∀ e, e ≠ c → x.d.level e = x.d.level e ∧ upd x.d.root c (some r) e = x.d.root e :=
        fun e he => ⟨rfl, upd_ne _ _ _ _ he⟩
      by_cases hp : x.d.parent = some c
      · rw [if_pos hp]
        exact reannounce_xinv x c _ _ h.binv hoff (h.binv.str.parentComplete c hp).1 (by simp)
      · rw [if_neg hp]
        exact checkNewParentX_xinv _ c (xinv_announce x c _ _ h hoff hp) hc hcl
  · exact h

/-! ### a new connection (the atomic model's `initialized`), without assuming that the children have been told -/

theorem closePeer_np (s : DState) (c : ConnId) (hp : s.parent ≠ some c) :
    closePeer s c = if c ∈ s.live then dropConn s c else s := by
  unfold closePeer
  split
  · rfl
  · rfl

theorem withConn_sinv (s : DState) (n : Name) (hs : SInv s) : SInv (withConn s n) := by
  have hfresh : s.nextConn ∉ s.live := fun hm => Nat.lt_irrefl _ (hs.fresh _ hm)
  have hpne : ∀ p, s.parent = some p → p ≠ s.nextConn := by
    intro p hp e; subst e; exact hfresh (hs.parentLive _ hp)
  have hcne : ∀ d ∈ s.children, d ≠ s.nextConn := by
    intro d hd e; subst e; exact hfresh (hs.childLive _ hd)
  refine ⟨?_, ?_, hs.childNodup, ?_, ?_, ?_, ?_⟩
  · intro d hd
    have hd' : d ∈ s.live ++ [s.nextConn] := hd
    show d < s.nextConn + 1
    rcases List.mem_append.1 hd' with hd' | hd'
    · exact Nat.lt_succ_of_lt (hs.fresh d hd')
    · have : d = s.nextConn := by simpa using hd'
      subst this; exact Nat.lt_succ_self _
  · exact List.nodup_append.2 ⟨hs.liveNodup, by simp, by
      intro a ha b hb; simp at hb; subst hb; intro e; subst e; exact hfresh ha⟩
  · intro p hp; exact List.mem_append_left _ (hs.parentLive p hp)
  · intro d hd; exact List.mem_append_left _ (hs.childLive d hd)
  · intro p hp
    show (upd s.level s.nextConn none p).isSome ∧ (upd s.root s.nextConn none p).isSome
    rw [upd_ne _ _ _ _ (hpne p hp), upd_ne _ _ _ _ (hpne p hp)]
    exact hs.parentComplete p hp
  · intro p hp d hd
    show upd s.name s.nextConn n d ≠ upd s.name s.nextConn n p
    rw [upd_ne _ _ _ _ (hpne p hp), upd_ne _ _ _ _ (hcne d hd)]
    exact hs.pnc p hp d hd

theorem withConn_adv (s : DState) (n : Name) (hs : SInv s) (me : Name) : (withConn s n).adv me = s.adv me := by
  have hfresh : s.nextConn ∉ s.live := fun hm => Nat.lt_irrefl _ (hs.fresh _ hm)
  have hpne : ∀ p, s.parent = some p → p ≠ s.nextConn := by
    intro p hp e; subst e; exact hfresh (hs.parentLive _ hp)
  exact adv_congr s _ me rfl (fun p hp => ⟨upd_ne _ _ _ _ (hpne p hp), upd_ne _ _ _ _ (hpne p hp)⟩)

theorem addChild_sinv (s : DState) (c : ConnId) (hs : SInv s) (hc : c ∈ s.live) (hnc : c ∉ s.children)
    (hpn : ∀ p, s.parent = some p → s.name c ≠ s.name p) : SInv (addChild s c) := by
  have hstr : SInv { s with children := s.children ++ [c] } := by
    refine ⟨hs.fresh, hs.liveNodup, ?_, hs.parentLive, ?_, hs.parentComplete, ?_⟩
    · exact List.nodup_append.2 ⟨hs.childNodup, by simp, by
        intro a ha b hb; simp at hb; subst hb; intro e; subst e; exact hnc ha⟩
    · intro d hd
      rcases List.mem_append.1 hd with hd | hd
      · exact hs.childLive d hd
      · simp at hd; subst hd; exact hc
    · intro p hp d hd
      rcases List.mem_append.1 hd with hd | hd
      · exact hs.pnc p hp d hd
      · simp at hd; subst hd; exact hpn p hp
  unfold addChild
  split <;> exact hstr.congr rfl rfl rfl rfl rfl rfl rfl

/-- the fields of the state that `_check_if_new_child` (for a connection that is not the parent's) leaves alone -/
structure SameTop (s s' : DState) : Prop where
  parent : s'.parent = s.parent
  session : s'.session = s.session
  level : s'.level = s.level
  root : s'.root = s.root
  toldServer : s'.toldServer = s.toldServer
  nextConn : s'.nextConn = s.nextConn
  accept : s'.accept = s.accept
  maxChildren : s'.maxChildren = s.maxChildren
  minSpeed : s'.minSpeed = s.minSpeed
  ratio : s'.ratio = s.ratio
  potential : s'.potential = s.potential

theorem SameTop.adv {s s' : DState} (h : SameTop s s') (me : Name) : s'.adv me = s.adv me :=
  adv_congr s s' me h.parent (fun _ _ => by rw [h.level, h.root]; exact ⟨rfl, rfl⟩)

theorem addChild_sameTop (s : DState) (c : ConnId) : SameTop s (addChild s c) := by
  unfold addChild
  split <;> exact ⟨rfl, rfl, rfl, rfl, rfl, rfl, rfl, rfl, rfl, rfl, rfl⟩

theorem dropConn_sameTop (s : DState) (c : ConnId) : SameTop s (dropConn s c) :=
  ⟨rfl, rfl, rfl, rfl, rfl, rfl, rfl, rfl, rfl, rfl, rfl⟩

theorem SameTop.refl (s : DState) : SameTop s s := ⟨rfl, rfl, rfl, rfl, rfl, rfl, rfl, rfl, rfl, rfl, rfl⟩

theorem closePeer_np_sameTop (s : DState) (c : ConnId) (hp : s.parent ≠ some c) : SameTop s (closePeer s c) := by
  rw [closePeer_np s c hp]
  split
  · exact dropConn_sameTop s c
  · exact SameTop.refl s

theorem closePeer_np_sinv (s : DState) (c : ConnId) (hs : SInv s) (hp : s.parent ≠ some c) :
    SInv (closePeer s c) := by
  rw [closePeer_np s c hp]
  split
  · exact dropConn_sinv s c hs hp
  · exact hs

theorem checkNewChild_sameTop (s : DState) (c : ConnId) (hp : s.parent ≠ some c) :
    SameTop s (checkNewChild s c) := by
  unfold checkNewChild
  split
  · exact SameTop.refl s
  · split
    · exact closePeer_np_sameTop s c hp
    · split
      · exact closePeer_np_sameTop s c hp
      · exact addChild_sameTop s c

theorem checkNewChild_sinv (s : DState) (c : ConnId) (hs : SInv s) (hc : c ∈ s.live) (hnc : c ∉ s.children)
    (hp : s.parent ≠ some c) : SInv (checkNewChild s c) := by
  unfold checkNewChild
  split
  · exact hs
  · rename_i hg
    split
    · exact closePeer_np_sinv s c hs hp
    · split
      · exact closePeer_np_sinv s c hs hp
      · refine addChild_sinv s c hs hc hnc ?_
        intro p hpp e
        apply hg
        right
        simp [DState.parentName, hpp, e]

theorem initialized_sinv (s : DState) (n : Name) (r : Bool) (hs : SInv s) : SInv (initialized s n r) := by
  have hfresh : s.nextConn ∉ s.live := fun hm => Nat.lt_irrefl _ (hs.fresh _ hm)
  rw [initialized_eq]
  split
  · exact withConn_sinv s n hs
  · refine checkNewChild_sinv _ _ (withConn_sinv s n hs) ?_ ?_ ?_
    · show s.nextConn ∈ s.live ++ [s.nextConn]; simp
    · intro hm; exact hfresh (hs.childLive _ hm)
    · intro hp; exact hfresh (hs.parentLive _ hp)

theorem initialized_top (s : DState) (n : Name) (r : Bool) (hs : SInv s) :
    (initialized s n r).parent = s.parent ∧ (initialized s n r).session = s.session ∧
    (initialized s n r).toldServer = s.toldServer ∧ (initialized s n r).nextConn = s.nextConn + 1 ∧
    (∀ me, (initialized s n r).adv me = s.adv me) ∧
    (initialized s n r).accept = s.accept ∧ (initialized s n r).maxChildren = s.maxChildren ∧
    (initialized s n r).minSpeed = s.minSpeed ∧ (initialized s n r).ratio = s.ratio ∧
    (initialized s n r).potential = s.potential := by
  have hfresh : s.nextConn ∉ s.live := fun hm => Nat.lt_irrefl _ (hs.fresh _ hm)
  rw [initialized_eq]
  split
  · exact ⟨rfl, rfl, rfl, rfl, withConn_adv s n hs, rfl, rfl, rfl, rfl, rfl⟩
  · have hp : (withConn s n).parent ≠ some s.nextConn := fun hp => hfresh (hs.parentLive _ hp)
    have ht := checkNewChild_sameTop (withConn s n) s.nextConn hp
    exact ⟨ht.parent, ht.session, ht.toldServer, ht.nextConn,
           fun me => (ht.adv me).trans (withConn_adv s n hs me), ht.accept, ht.maxChildren, ht.minSpeed, ht.ratio,
           ht.potential⟩

theorem initialized_children_sub (s : DState) (n : Name) (r : Bool) (e : ConnId)
    (h : e ∈ (initialized s n r).children) : e ∈ s.children ∨ e = s.nextConn := by
  rw [initialized_eq] at h
  split at h
  · exact Or.inl h
  · rcases checkNewChild_children _ _ e h with h | ⟨h1, _⟩
    · exact Or.inl h
    · exact Or.inr h1

theorem initialized_xinv (x : XState) (n : Name) (r : Bool) (h : XInv x) :
    XInv { x with d := initialized x.d n r } := by
  have hb := h.binv
  obtain ⟨t1, t2, t3, t4, t5, _⟩ := initialized_top x.d n r hb.str
  refine ⟨⟨initialized_sinv x.d n r hb.str, ?_, ?_, ?_, hb.pendClosing, hb.unblocked⟩,
          toldS_frame h.toldS t2 t3 t1 t5, pendOK_frame h.pendOK rfl t2 t1 ?_⟩
  · intro c hc; show (initialized x.d n r).parent ≠ some c; rw [t1]; exact hb.closingNP c hc
  · intro c hc; show c < (initialized x.d n r).nextConn; rw [t4]
    exact Nat.lt_succ_of_lt (hb.closingFresh c hc)
  · intro c hc hm
    rcases initialized_children_sub x.d n r c hm with hm | hm
    · exact hb.closingNC c hc hm
    · have := hb.closingFresh c hc
      rw [hm] at this; exact Nat.lt_irrefl _ this
  · intro _ htc
    exact (initialized_inv x.d n r (inv_of _ hb.str h.toldS htc)).told.toldC

/-! ### the socket to the server drains -/

theorem release_xinv (ks : List Cont) (y : XState) (hb : BInv y) (hp : y.pend = []) (hts : ToldS y.d)
    (hk : ∀ c me, Cont.unsetTail c me ∈ ks → y.d.parent ≠ some c) (hl : ContOK y.d ks.getLast?) :
    XInv (ks.foldl runCont y) ∧ (ks.foldl runCont y).pend = [] := by
  induction ks generalizing y with
  | nil =>
    refine ⟨⟨hb, hts, ?_⟩, hp⟩
    show ContOK y.d y.pend.getLast?
    rw [hp]; exact hl
  | cons k ks ih =>
    have hsh := runCont_shrinks y k
    have hb' := runCont_binv y k hb hp (fun c me hke => hk c me (hke ▸ List.mem_cons_self))
    have hp' : (runCont y k).pend = [] := by rw [hsh.pend]; exact hp
    refine ih (runCont y k) hb' hp' (hsh.toldS hts) ?_ ?_
    · intro c me hm; rw [hsh.parent]; exact hk c me (List.mem_cons_of_mem _ hm)
    · cases ks with
      | nil =>
        show ToldC (runCont y k).d
        cases k with
        | tellAdv => exact runCont_tellAdv_toldC y
        | unsetTail c me' => exact runCont_unsetTail_toldC y c me' hl
      | cons k2 ks2 =>
        rw [List.getLast?_cons_cons] at hl
        cases hk2 : (k2 :: ks2).getLast? with
        | none => simp at hk2
        | some kk =>
          rw [hk2] at hl
          cases kk with
          | tellAdv => trivial
          | unsetTail c me' =>
            intro me hm
            rw [hsh.parent]
            exact hl me (hsh.session ▸ hm)

theorem srvRelease_xinv (x : XState) (h : XInv x) :
    XInv (xstep x .srvRelease) ∧ (xstep x .srvRelease).pend = [] := by
  show XInv (x.pend.foldl runCont { x with srvBlocked := false, pend := [] }) ∧ _
  have hb := h.binv
  apply release_xinv
  · refine ⟨hb.str, hb.closingNP, hb.closingFresh, hb.closingNC, ?_, fun _ => rfl⟩
    intro c me hm; cases hm
  · rfl
  · exact h.toldS
  · intro c me hm; exact hb.closingNP c (hb.pendClosing c me hm)
  · exact h.pendOK

/-! ### every step keeps the invariant -/

theorem xstep_xinv (x : XState) (op : XOp) (h : XInv x) : XInv (xstep x op) := by
  have hb := h.binv
  cases op with
  | base op =>
    cases op with
    | potentialParents ns => exact xinv_frame h rfl rfl rfl rfl rfl rfl rfl rfl rfl rfl rfl
    | initialized n r => exact initialized_xinv x n r h
    | level c n =>
      show XInv (if c ∈ x.closing then x else onLevelX x c n)
      split
      · exact h
      · rename_i hcl; exact onLevelX_xinv x c n h hcl
    | root c r =>
      show XInv (if c ∈ x.closing then x else onRootX x c r)
      split
      · exact h
      · rename_i hcl; exact onRootX_xinv x c r h hcl
    | closed c =>
      show XInv (if c ∈ x.closing then x else closePeerX x c)
      split
      · exact h
      · exact closePeerX_xinv x c h
    | userStats n sp =>
      show XInv { x with d := onUserStats x.d n sp }
      unfold onUserStats
      simp only
      split
      · split
        · exact xinv_frame h rfl rfl rfl rfl rfl rfl rfl rfl rfl rfl rfl
        · split
          · exact xinv_frame h rfl rfl rfl rfl rfl rfl rfl rfl rfl rfl rfl
          · exact xinv_frame h rfl rfl rfl rfl rfl rfl rfl rfl rfl rfl rfl
      · exact h
    | minSpeed n =>
      show XInv { x with d := requestUserStats { x.d with minSpeed := some n } }
      unfold requestUserStats
      split
      · exact xinv_frame h rfl rfl rfl rfl rfl rfl rfl rfl rfl rfl rfl
      · exact xinv_frame h rfl rfl rfl rfl rfl rfl rfl rfl rfl rfl rfl
    | speedRatio n =>
      show XInv { x with d := requestUserStats { x.d with ratio := some n } }
      unfold requestUserStats
      split
      · exact xinv_frame h rfl rfl rfl rfl rfl rfl rfl rfl rfl rfl rfl
      · exact xinv_frame h rfl rfl rfl rfl rfl rfl rfl rfl rfl rfl rfl
    | resetDistributed => exact resetX_xinv x h
    | sessionInit me =>
      show XInv (serverThen { x with d := { x.d with session := some me } } .tellAdv)
      apply serverThen_xinv
      · exact ⟨hb.str.congr rfl rfl rfl rfl rfl rfl rfl, hb.closingNP, hb.closingFresh, hb.closingNC,
               hb.pendClosing, hb.unblocked⟩
      · intro _ _ hk; cases hk
    | sessionDestroyed =>
      show XInv { x with d := { x.d with session := none, toldServer := none, lastAccept := none } }
      refine xinv_nosession _ ?_ rfl
      exact ⟨hb.str.congr rfl rfl rfl rfl rfl rfl rfl, hb.closingNP, hb.closingFresh, hb.closingNC,
             hb.pendClosing, hb.unblocked⟩
    | serverStateChange => exact xinv_frame h rfl rfl rfl rfl rfl rfl rfl rfl rfl rfl rfl
  | srvBlock =>
    refine ⟨⟨hb.str, hb.closingNP, hb.closingFresh, hb.closingNC, hb.pendClosing, ?_⟩, h.toldS, h.pendOK⟩
    intro hf; cases hf
  | srvRelease => exact (srvRelease_xinv x h).1
  | arm c => exact ⟨⟨hb.str, hb.closingNP, hb.closingFresh, hb.closingNC, hb.pendClosing, hb.unblocked⟩,
                    h.toldS, h.pendOK⟩
  | childBlock c => exact h
  | childRelease c => exact h

theorem xinit_xinv : XInv XState.init := by
  have hi := init_inv
  refine ⟨⟨hi.str, ?_, ?_, ?_, ?_, fun _ => rfl⟩, hi.told.toldS, hi.told.toldC⟩
  · intro c hc; cases hc
  · intro c hc; cases hc
  · intro c hc; cases hc
  · intro c me hc; cases hc

theorem foldl_xstep_xinv (ops : List XOp) (x : XState) (h : XInv x) : XInv (ops.foldl xstep x) := by
  induction ops generalizing x with
  | nil => exact h
  | cons op ops ih => exact ih _ (xstep_xinv x op h)

/-- **The invariant holds after every op sequence**, with any sends suspended. -/
theorem xrun_xinv (ops : List XOp) : XInv (xrun ops) := foldl_xstep_xinv ops XState.init xinit_xinv

/-- no handler is suspended: the atomic model's invariant holds -/
theorem xinv_settled (x : XState) (h : XInv x) (hp : x.pend = []) : Inv x.d := by
  have := h.pendOK
  unfold PendOK at this
  rw [hp] at this
  exact inv_of _ h.binv.str h.toldS this

/-! ### who can become a child; the limits -/

/-- children only leave; limits, cache and connection counter are untouched -/
structure Keeps (x y : XState) : Prop where
  children : ∀ c ∈ y.d.children, c ∈ x.d.children
  session : y.d.session = x.d.session
  accept : y.d.accept = x.d.accept
  maxChildren : y.d.maxChildren = x.d.maxChildren
  minSpeed : y.d.minSpeed = x.d.minSpeed
  ratio : y.d.ratio = x.d.ratio
  potential : y.d.potential = x.d.potential
  nextConn : y.d.nextConn = x.d.nextConn

theorem Keeps.refl (x : XState) : Keeps x x := ⟨fun _ h => h, rfl, rfl, rfl, rfl, rfl, rfl, rfl⟩

theorem Keeps.trans {x y z : XState} (h1 : Keeps x y) (h2 : Keeps y z) : Keeps x z :=
  ⟨fun c h => h1.children c (h2.children c h), h2.session.trans h1.session, h2.accept.trans h1.accept,
   h2.maxChildren.trans h1.maxChildren, h2.minSpeed.trans h1.minSpeed, h2.ratio.trans h1.ratio,
   h2.potential.trans h1.potential, h2.nextConn.trans h1.nextConn⟩

theorem Shrinks.keeps {x y : XState} (h : Shrinks x y) : Keeps x y :=
  ⟨h.children, h.session, h.accept, h.maxChildren, h.minSpeed, h.ratio, h.potential, h.nextConn⟩

@[simp] theorem notifyServer_minSpeed (s : DState) : (notifyServer s).minSpeed = s.minSpeed := by
  unfold notifyServer; split <;> rfl
@[simp] theorem notifyServer_ratio (s : DState) : (notifyServer s).ratio = s.ratio := by
  unfold notifyServer; split <;> rfl
@[simp] theorem notifyChildren_minSpeed (s : DState) : (notifyChildren s).minSpeed = s.minSpeed := by
  unfold notifyChildren; split <;> rfl
@[simp] theorem notifyChildren_ratio (s : DState) : (notifyChildren s).ratio = s.ratio := by
  unfold notifyChildren; split <;> rfl

theorem serverThen_keeps (x : XState) (k : Cont) : Keeps x (serverThen x k) := by
  unfold serverThen
  split
  · exact Keeps.refl x
  · have h1 : Keeps x { x with d := notifyServer x.d } :=
      ⟨fun c h => by simpa using h, by simp, by simp, by simp, by simp, by simp, by simp, by simp⟩
    split
    · exact ⟨h1.children, h1.session, h1.accept, h1.maxChildren, h1.minSpeed, h1.ratio, h1.potential, h1.nextConn⟩
    · exact h1.trans (runCont_shrinks _ k).keeps

theorem closePeerX_keeps (x : XState) (c : ConnId) : Keeps x (closePeerX x c) := by
  unfold closePeerX
  split
  · split
    · split
      · refine Keeps.trans ?_ (serverThen_keeps _ _)
        exact ⟨fun _ h => h, rfl, rfl, rfl, rfl, rfl, rfl, rfl⟩
      · exact ⟨fun _ h => List.mem_of_mem_erase h, rfl, rfl, rfl, rfl, rfl, rfl, rfl⟩
    · exact ⟨fun _ h => List.mem_of_mem_erase h, rfl, rfl, rfl, rfl, rfl, rfl, rfl⟩
  · exact Keeps.refl x

theorem foldl_closePeerX_keeps (l : List ConnId) (x : XState) : Keeps x (l.foldl closePeerX x) := by
  induction l generalizing x with
  | nil => exact Keeps.refl x
  | cons c l ih => exact (closePeerX_keeps x c).trans (ih _)

theorem resetX_keeps (x : XState) : Keeps x (resetX x) := by
  unfold resetX
  simp only
  split
  · exact (foldl_closePeerX_keeps _ x).trans (closePeerX_keeps _ _)
  · exact foldl_closePeerX_keeps _ x

theorem setParentX_keeps (x : XState) (c : ConnId) : Keeps x (setParentX x c) := by
  unfold setParentX
  refine Keeps.trans ?_ (serverThen_keeps _ _)
  exact ⟨fun _ h => h, rfl, rfl, rfl, rfl, rfl, rfl, rfl⟩

theorem checkNewParentX_keeps (x : XState) (c : ConnId) : Keeps x (checkNewParentX x c) := by
  unfold checkNewParentX
  split
  · split
    · exact setParentX_keeps x c
    · exact closePeerX_keeps x c
  · exact Keeps.refl x

theorem onLevelX_keeps (x : XState) (c : ConnId) (n : Nat) : Keeps x (onLevelX x c n) := by
  unfold onLevelX
  simp only
  split
  · split
    · refine Keeps.trans ?_ (serverThen_keeps _ _)
      exact ⟨fun _ h => h, rfl, rfl, rfl, rfl, rfl, rfl, rfl⟩
    · refine Keeps.trans ?_ (checkNewParentX_keeps _ _)
      exact ⟨fun _ h => h, rfl, rfl, rfl, rfl, rfl, rfl, rfl⟩
  · exact Keeps.refl x

theorem onRootX_keeps (x : XState) (c : ConnId) (r : Name) : Keeps x (onRootX x c r) := by
  unfold onRootX
  simp only
  split
  · split
    · exact Keeps.refl x
    · split
      · refine Keeps.trans ?_ (serverThen_keeps _ _)
        exact ⟨fun _ h => h, rfl, rfl, rfl, rfl, rfl, rfl, rfl⟩
      · refine Keeps.trans ?_ (checkNewParentX_keeps _ _)
        exact ⟨fun _ h => h, rfl, rfl, rfl, rfl, rfl, rfl, rfl⟩
  · exact Keeps.refl x

theorem foldl_runCont_shrinks (ks : List Cont) (y : XState) : Shrinks y (ks.foldl runCont y) := by
  induction ks generalizing y with
  | nil => exact Shrinks.refl y
  | cons k ks ih => exact (runCont_shrinks y k).trans (ih _)

theorem srvRelease_keeps (x : XState) : Keeps x (xstep x .srvRelease) := by
  show Keeps x (x.pend.foldl runCont { x with srvBlocked := false, pend := [] })
  refine Keeps.trans ?_ (foldl_runCont_shrinks _ _).keeps
  exact ⟨fun _ h => h, rfl, rfl, rfl, rfl, rfl, rfl, rfl⟩

theorem onUserStats_children' (s : DState) (n : Name) (sp : Nat) : (onUserStats s n sp).children = s.children := by
  unfold onUserStats; simp only; split
  · split
    · rfl
    · split <;> rfl
  · rfl

theorem requestUserStats_children' (s : DState) : (requestUserStats s).children = s.children := by
  unfold requestUserStats; split <;> rfl

theorem initialized_children_s (s : DState) (n : Name) (r : Bool) (d : ConnId) (hs : SInv s)
    (h : d ∈ (initialized s n r).children) :
    d ∈ s.children ∨ (d = s.nextConn ∧ r = false ∧ Admissible s n) := by
  rw [initialized_eq] at h
  split at h
  · exact Or.inl h
  · rename_i hr
    rcases checkNewChild_children _ _ d h with h | ⟨h1, h2, h3, h4, h5⟩
    · exact Or.inl h
    · right
      have hfresh : s.nextConn ∉ s.live := fun hm => Nat.lt_irrefl _ (hs.fresh _ hm)
      have hname : (withConn s n).name s.nextConn = n := by simp [withConn]
      rw [hname] at h4 h5
      refine ⟨h1, by simpa using hr, h2, h3, h4, ?_⟩
      intro hp
      apply h5
      unfold DState.parentName at hp ⊢
      cases hpar : s.parent with
      | none => rw [hpar] at hp; cases hp
      | some p =>
        rw [hpar] at hp
        have hne : p ≠ s.nextConn := by
          intro e; subst e; exact hfresh (hs.parentLive _ hpar)
        show Option.map (upd s.name s.nextConn n) s.parent = some n
        rw [hpar]
        simp only [Option.map_some] at hp ⊢
        rw [upd_ne _ _ _ _ hne]; exact hp

/-- a connection only joins `children` by the `initialized _ false` step that created it, and only when the
admission guard held in the state before that step — whatever is suspended -/
theorem xstep_children (x : XState) (op : XOp) (e : ConnId) (hi : XInv x)
    (h : e ∈ (xstep x op).d.children) (hn : e ∉ x.d.children) :
    ∃ n, op = .base (.initialized n false) ∧ e = x.d.nextConn ∧ Admissible x.d n := by
  cases op with
  | base op =>
    cases op with
    | potentialParents ns => exact absurd h hn
    | initialized n r =>
      rcases initialized_children_s x.d n r e hi.binv.str h with h | ⟨h1, h2, h3⟩
      · exact absurd h hn
      · subst h2; exact ⟨n, rfl, h1, h3⟩
    | level c n =>
      have h' : e ∈ (if c ∈ x.closing then x else onLevelX x c n).d.children := h
      split at h'
      · exact absurd h' hn
      · exact absurd ((onLevelX_keeps x c n).children e h') hn
    | root c r =>
      have h' : e ∈ (if c ∈ x.closing then x else onRootX x c r).d.children := h
      split at h'
      · exact absurd h' hn
      · exact absurd ((onRootX_keeps x c r).children e h') hn
    | closed c =>
      have h' : e ∈ (if c ∈ x.closing then x else closePeerX x c).d.children := h
      split at h'
      · exact absurd h' hn
      · exact absurd ((closePeerX_keeps x c).children e h') hn
    | userStats n sp =>
      have h' : e ∈ (onUserStats x.d n sp).children := h
      rw [onUserStats_children'] at h'; exact absurd h' hn
    | minSpeed n =>
      have h' : e ∈ (requestUserStats { x.d with minSpeed := some n }).children := h
      rw [requestUserStats_children'] at h'; exact absurd h' hn
    | speedRatio n =>
      have h' : e ∈ (requestUserStats { x.d with ratio := some n }).children := h
      rw [requestUserStats_children'] at h'; exact absurd h' hn
    | resetDistributed => exact absurd ((resetX_keeps x).children e h) hn
    | sessionInit me =>
      have h' : e ∈ (serverThen { x with d := { x.d with session := some me } } .tellAdv).d.children := h
      exact absurd ((serverThen_keeps _ _).children e h') hn
    | sessionDestroyed => exact absurd h hn
    | serverStateChange => exact absurd h hn
  | srvBlock => exact absurd h hn
  | srvRelease => exact absurd ((srvRelease_keeps x).children e h) hn
  | arm c => exact absurd h hn
  | childBlock c => exact absurd h hn
  | childRelease c => exact absurd h hn

theorem Keeps.lim {x y : XState} (h : Keeps x y) : y.d.lim = x.d.lim := by
  unfold DState.lim
  rw [h.session, h.minSpeed, h.ratio, h.accept, h.maxChildren]

theorem onUserStats_lim (d : DState) (n : Name) (sp : Nat) : (onUserStats d n sp).lim = limStats d.lim n sp := by
  unfold onUserStats limStats DState.lim
  dsimp only
  split
  · split
    · rfl
    · split <;> rfl
  · rfl

/-- **the limit part of the model is the limits machine**: only the step that handles the statistics changes
`accept` / `maxChildren`, and it does so at once -/
theorem lim_xstep (x : XState) (op : XOp) : (xstep x op).d.lim = limStep x.d.lim op := by
  cases op with
  | base op =>
    cases op with
    | potentialParents ns => rfl
    | initialized n r =>
      show (initialized x.d n r).lim = x.d.lim
      rw [initialized_eq]
      split
      · rfl
      · -- (the limit fields do not need that the new connection is not the parent's: go through the branches)
        unfold checkNewChild
        split
        · rfl
        · split
          · unfold closePeer; split
            · split
              · simp [DState.lim, withConn]
              · rfl
            · rfl
          · split
            · unfold closePeer; split
              · split
                · simp [DState.lim, withConn]
                · rfl
              · rfl
            · unfold addChild; split <;> rfl
    | level c n =>
      show (if c ∈ x.closing then x else onLevelX x c n).d.lim = x.d.lim
      split
      · rfl
      · exact (onLevelX_keeps x c n).lim
    | root c r =>
      show (if c ∈ x.closing then x else onRootX x c r).d.lim = x.d.lim
      split
      · rfl
      · exact (onRootX_keeps x c r).lim
    | closed c =>
      show (if c ∈ x.closing then x else closePeerX x c).d.lim = x.d.lim
      split
      · rfl
      · exact (closePeerX_keeps x c).lim
    | userStats n sp => exact onUserStats_lim x.d n sp
    | minSpeed n =>
      show (requestUserStats { x.d with minSpeed := some n }).lim = _
      unfold requestUserStats; split <;> rfl
    | speedRatio n =>
      show (requestUserStats { x.d with ratio := some n }).lim = _
      unfold requestUserStats; split <;> rfl
    | resetDistributed => exact (resetX_keeps x).lim
    | sessionInit me =>
      show (serverThen { x with d := { x.d with session := some me } } .tellAdv).d.lim = _
      rw [(serverThen_keeps _ _).lim]; rfl
    | sessionDestroyed => rfl
    | serverStateChange => rfl
  | srvBlock => rfl
  | srvRelease => exact (srvRelease_keeps x).lim
  | arm c => rfl
  | childBlock c => rfl
  | childRelease c => rfl

theorem lim_xrun (ops : List XOp) : (xrun ops).d.lim = limits ops := by
  suffices ∀ (x : XState) (l : Lim), x.d.lim = l → (ops.foldl xstep x).d.lim = ops.foldl limStep l from
    this XState.init Lim.init rfl
  induction ops with
  | nil => intro x l h; exact h
  | cons op ops ih => intro x l h; exact ih _ _ (by rw [lim_xstep, h])

/-! ### a closed connection is not alive; the advertised values are the derived position -/

theorem dropConn_not_live (d : DState) (c : ConnId) (h : d.live.Nodup) : c ∉ (dropConn d c).live :=
  fun hm => (h.mem_erase_iff.1 hm).1 rfl

theorem serverThen_unset_not_alive (y : XState) (c : ConnId) (me : Name) (hy : SInv y.d) (hcl : c ∈ y.closing) :
    ¬ (serverThen y (.unsetTail c me)).alive c := by
  unfold serverThen
  split
  · exact fun h => h.2 hcl
  · split
    · exact fun h => h.2 hcl
    · intro h
      have hs1 : SInv (tell { y with d := notifyServer y.d } ⟨0, me⟩).d := tell_sinv _ _ (notifyServer_sinv _ hy)
      exact dropConn_not_live _ c hs1.liveNodup h.1

theorem closePeerX_not_alive (x : XState) (c : ConnId) (hs : SInv x.d) : ¬ (closePeerX x c).alive c := by
  unfold closePeerX
  split
  · split
    · split
      · exact serverThen_unset_not_alive _ c _ (sinv_noParent _ hs) List.mem_cons_self
      · intro h; exact dropConn_not_live _ c hs.liveNodup h.1
    · intro h; exact dropConn_not_live _ c hs.liveNodup h.1
  · rename_i hc; exact fun h => hc h.1

theorem closed_not_alive (x : XState) (c : ConnId) (hs : SInv x.d) :
    ¬ (xstep x (.base (.closed c))).alive c := by
  show ¬ (if c ∈ x.closing then x else closePeerX x c).alive c
  split
  · rename_i hcl; exact fun h => h.2 hcl
  · exact closePeerX_not_alive x c hs

theorem adv_derived_s (s : DState) (me : Name) (h : SInv s) (hd : ¬ Degenerate s me) :
    Derived s me (s.adv me) s.parent.isNone := by
  unfold Derived DState.adv
  cases hp : s.parent with
  | none => exact ⟨rfl, rfl⟩
  | some c =>
    have hc := h.parentComplete c hp
    obtain ⟨l, hl⟩ := Option.isSome_iff_exists.1 hc.1
    obtain ⟨r, hr⟩ := Option.isSome_iff_exists.1 hc.2
    have hne : ¬ (s.root c = some me) := fun e => hd ⟨c, hp, e⟩
    refine ⟨l, r, hl, hr, ?_, rfl⟩
    rw [hr] at hne
    simp only [hl, hr, Option.getD_some, if_neg hne]

/-! ### nothing suspended, no dead socket: the small-step layer is the atomic model -/

theorem tell_plain (s : DState) (a : Adv) :
    tell { d := s } a = { d := { s with
      toldL := fun c => if c ∈ s.children then some a.level else s.toldL c
      toldR := fun c => if c ∈ s.children then some a.root else s.toldR c
      nL := fun c => if c ∈ s.children then s.nL c + 1 else s.nL c
      nR := fun c => if c ∈ s.children then s.nR c + 1 else s.nR c } } := by
  simp [tell]

theorem notifyChildrenX_plain (s : DState) : notifyChildrenX { d := s } = { d := notifyChildren s } := by
  rcases Option.eq_none_or_eq_some s.session with hs | ⟨me, hs⟩
  · unfold notifyChildrenX notifyChildren; simp only [hs]
  · unfold notifyChildrenX notifyChildren; simp only [hs]; rw [tell_plain, hs]

theorem notifyBoth_nosession (s : DState) (h : s.session = none) : notifyChildren (notifyServer s) = s := by
  have h1 : notifyServer s = s := by unfold notifyServer; rw [h]
  rw [h1]; unfold notifyChildren; rw [h]

theorem serverThen_plain_tellAdv (s : DState) :
    serverThen { d := s } .tellAdv = { d := notifyChildren (notifyServer s) } := by
  unfold serverThen
  split
  · rename_i hs; rw [notifyBoth_nosession s hs]
  · rw [if_neg (by simp)]
    show notifyChildrenX { d := notifyServer s } = _
    exact notifyChildrenX_plain _

theorem unsetTail_plain (s : DState) (c : ConnId) (me : Name) (hs : s.session = some me)
    (hp : s.parent = none) :
    runCont { d := s, closing := [c] } (.unsetTail c me) = { d := dropConn (notifyChildren s) c } := by
  have hadv : s.adv me = ⟨0, me⟩ := by unfold DState.adv; rw [hp]
  unfold notifyChildren
  simp only [hs, hadv]
  have hf : ∀ l : List ConnId, List.filter (fun _ => true) l = l := fun l =>
    List.filter_eq_self.mpr (fun _ _ => rfl)
  simp [runCont, tell, dropConn, hs, hf]

theorem serverThen_plain_unsetTail (s : DState) (c : ConnId) (me : Name) (hs : s.session = some me)
    (hp : s.parent = none) :
    serverThen { d := s, closing := [c] } (.unsetTail c me) = { d := dropConn (notifyChildren (notifyServer s)) c } := by
  unfold serverThen
  split
  · rename_i hn
    have : s.session = none := hn
    rw [hs] at this; cases this
  · rw [if_neg (by simp)]
    show runCont { d := notifyServer s, closing := [c] } (.unsetTail c me) = _
    exact unsetTail_plain _ c me (by rw [notifyServer_session]; exact hs) (by rw [notifyServer_parent]; exact hp)

theorem closePeer_of_parent (s : DState) (c : ConnId) (hc : c ∈ s.live) (hp : s.parent = some c) :
    closePeer s c = dropConn (notifyChildren (notifyServer { s with parent := none })) c := by
  unfold closePeer
  rw [if_pos hc]
  simp only
  rw [if_pos hp]
  rfl

theorem closePeerX_plain (s : DState) (c : ConnId) : closePeerX { d := s } c = { d := closePeer s c } := by
  unfold closePeerX
  split
  · rename_i hc
    split
    · rename_i hp
      rw [closePeer_of_parent s c hc hp]
      split
      · rename_i me hs
        exact serverThen_plain_unsetTail { s with parent := none } c me hs rfl
      · rename_i hs
        rw [notifyBoth_nosession { s with parent := none } hs]
    · rename_i hp
      have hp' : s.parent ≠ some c := hp
      rw [closePeer_np s c hp', if_pos hc]
  · rename_i hc
    have hc' : c ∉ s.live := hc
    unfold closePeer
    rw [if_neg hc']

theorem setParentX_plain (s : DState) (c : ConnId) : setParentX { d := s } c = { d := setParent s c } := by
  unfold setParentX setParent
  have : (fun e => decide (e = c ∨ e ∈ s.children ∨ e ∈ ([] : List ConnId))) =
      (fun e => decide (e = c ∨ e ∈ s.children)) := by
    funext e; simp
  simp only [this]
  exact serverThen_plain_tellAdv _

theorem checkNewParentX_plain (s : DState) (c : ConnId) :
    checkNewParentX { d := s } c = { d := checkNewParent s c } := by
  unfold checkNewParentX checkNewParent
  split
  · split
    · exact setParentX_plain s c
    · exact closePeerX_plain s c
  · rfl

theorem onLevelX_plain (s : DState) (c : ConnId) (n : Nat) : onLevelX { d := s } c n = { d := onLevel s c n } := by
  unfold onLevelX onLevel
  simp only
  split
  · split
    · exact serverThen_plain_tellAdv _
    · exact checkNewParentX_plain _ c
  · rfl

theorem onRootX_plain (s : DState) (c : ConnId) (r : Name) : onRootX { d := s } c r = { d := onRoot s c r } := by
  unfold onRootX onRoot
  simp only
  split
  · split
    · rfl
    · split
      · exact serverThen_plain_tellAdv _
      · exact checkNewParentX_plain _ c
  · rfl

theorem foldl_closePeerX_plain (l : List ConnId) (s : DState) :
    l.foldl closePeerX { d := s } = { d := l.foldl closePeer s } := by
  induction l generalizing s with
  | nil => rfl
  | cons c l ih => simp only [List.foldl_cons]; rw [closePeerX_plain, ih]

theorem resetX_plain (s : DState) : resetX { d := s } = { d := reset s } := by
  unfold resetX reset
  simp only
  rw [foldl_closePeerX_plain]
  split
  · rename_i p hp
    simp only at hp
    rw [hp]
    exact closePeerX_plain _ p
  · rename_i hp
    simp only at hp
    rw [hp]

/-- with no send suspended and no dead socket a step of the small-step layer is the atomic model's step -/
theorem xstep_base (s : DState) (op : Op) : xstep { d := s } (.base op) = { d := step s op } := by
  cases op with
  | potentialParents ns => rfl
  | initialized n r => rfl
  | level c n =>
    show (if c ∈ ([] : List ConnId) then ({ d := s } : XState) else onLevelX { d := s } c n) = _
    rw [if_neg (by simp)]; exact onLevelX_plain s c n
  | root c r =>
    show (if c ∈ ([] : List ConnId) then ({ d := s } : XState) else onRootX { d := s } c r) = _
    rw [if_neg (by simp)]; exact onRootX_plain s c r
  | closed c =>
    show (if c ∈ ([] : List ConnId) then ({ d := s } : XState) else closePeerX { d := s } c) = _
    rw [if_neg (by simp)]; exact closePeerX_plain s c
  | userStats n sp => rfl
  | minSpeed n => rfl
  | speedRatio n => rfl
  | resetDistributed => exact resetX_plain s
  | sessionInit me => exact serverThen_plain_tellAdv { s with session := some me }
  | sessionDestroyed => rfl
  | serverStateChange => rfl

/-- **the atomic model (`Model/Dist.lean`, also used by C14) is the small-step layer without suspensions** -/
theorem xrun_base (ops : List Op) : xrun (ops.map XOp.base) = { d := run ops } := by
  suffices ∀ (s : DState), (ops.map XOp.base).foldl xstep { d := s } = { d := ops.foldl step s } from this init
  induction ops with
  | nil => intro s; rfl
  | cons op ops ih => intro s; simp only [List.map_cons, List.foldl_cons]; rw [xstep_base, ih]

end AioslskVerif.Dist
