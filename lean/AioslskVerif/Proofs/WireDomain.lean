import AioslskVerif.Proofs.WireTop
/-! The plain-words domain implies the technical `inDomain` for well-formed schemas (C01). -/
namespace AioslskVerif.Wire

theorem noneEmitted_encTop (all : List Val) : ∀ (fs : List Field) (vs : List Val),
    noneEmitted all fs vs = true → encTop all fs vs = some []
  | [], [], _ => rfl
  | f :: fs, v :: vs, h => by
    simp only [noneEmitted, Bool.and_eq_true, Bool.not_eq_true'] at h
    have := noneEmitted_encTop all fs vs h.2
    have he : (v.isAbsent || !guardEnc f.cond all) = true := by
      have := h.1; simp only [emitted, Bool.not_eq_false'] at this; exact this
    simp [encTop, he, this]
  | [], _ :: _, h | _ :: _, [], h => by simp [noneEmitted] at h

theorem expParsed_getD (all : List Val) : ∀ (fs : List Field) (vs : List Val) (i : Nat) (g : Field) (v : Val),
    fs[i]? = some g → vs[i]? = some v →
    (expParsed all fs vs).getD i none = if emitted all g v then some v else none
  | [], _, i, g, v, h, _ => by simp at h
  | _ :: _, [], i, g, v, _, h => by simp at h
  | f :: fs, w :: vs, 0, g, v, h1, h2 => by
    simp only [List.getElem?_cons_zero, Option.some.injEq] at h1 h2; subst h1; subst h2
    simp [expParsed]
  | f :: fs, w :: vs, i + 1, g, v, h1, h2 => by
    simp only [List.getElem?_cons_succ] at h1 h2
    simp only [expParsed, List.getD_cons_succ]
    exact expParsed_getD all fs vs i g v h1 h2

/-- the fields passed so far that are unconditional and not optional carry a value -/
def PrefOK (fsP : List Field) (vsP : List Val) : Prop :=
  ∀ (i : Nat) (g : Field), fsP[i]? = some g → g.cond = Cond.always → g.optional = false →
    ∃ v : Val, vsP[i]? = some v ∧ v.isAbsent = false

theorem guardDec_ok (all : List Val) (fsP fsS : List Field) (vsP vsS : List Val) (f : Field)
    (hall : all = vsP ++ vsS) (hlen : fsP.length = vsP.length) (hp : PrefOK fsP vsP)
    (hg : f.guardOk (fsP ++ fsS) fsP.length = true) :
    guardDec f.cond (expParsed all fsP vsP) = .ok (guardEnc f.cond all) := by
  unfold Field.guardOk at hg
  cases hc : f.cond with
  | always => simp [guardDec, guardEnc]
  | ifTrue i =>
    simp only [hc, Bool.and_eq_true, decide_eq_true_eq] at hg
    obtain ⟨⟨hi, htgt⟩, _⟩ := hg
    have hfi : (fsP ++ fsS)[i]? = fsP[i]? := List.getElem?_append_left hi
    rw [hfi] at htgt
    cases hgi : fsP[i]? with
    | none => simp [hgi] at htgt
    | some g =>
      simp only [hgi, Bool.and_eq_true, beq_iff_eq, Bool.not_eq_true'] at htgt
      obtain ⟨v, hv, hva⟩ := hp i g hgi htgt.1.1 htgt.1.2
      have hem : emitted all g v = true := by simp [emitted, hva, htgt.1.1, guardEnc]
      have h1 := expParsed_getD all fsP vsP i g v hgi hv
      have hav : all.getD i .absent = v := by
        rw [hall, List.getD_eq_getElem?_getD, List.getElem?_append_left (by rw [← hlen]; exact hi), hv]; rfl
      simp only [hem, if_true] at h1
      simp only [guardDec, guardEnc, h1, hav]
      rfl
  | ifFalse i =>
    simp only [hc, Bool.and_eq_true, decide_eq_true_eq] at hg
    obtain ⟨⟨hi, htgt⟩, _⟩ := hg
    have hfi : (fsP ++ fsS)[i]? = fsP[i]? := List.getElem?_append_left hi
    rw [hfi] at htgt
    cases hgi : fsP[i]? with
    | none => simp [hgi] at htgt
    | some g =>
      simp only [hgi, Bool.and_eq_true, beq_iff_eq, Bool.not_eq_true'] at htgt
      obtain ⟨v, hv, hva⟩ := hp i g hgi htgt.1.1 htgt.1.2
      have hem : emitted all g v = true := by simp [emitted, hva, htgt.1.1, guardEnc]
      have h1 := expParsed_getD all fsP vsP i g v hgi hv
      have hav : all.getD i .absent = v := by
        rw [hall, List.getD_eq_getElem?_getD, List.getElem?_append_left (by rw [← hlen]; exact hi), hv]; rfl
      simp only [hem, if_true] at h1
      simp only [guardDec, guardEnc, h1, hav]
      rfl

theorem guarded_dflt_none (f : Field) (fs : List Field) (pos : Nat) (all : List Val)
    (hg : f.guardOk fs pos = true) (hf : guardEnc f.cond all = false) : f.dflt = .none := by
  unfold Field.guardOk at hg
  cases hc : f.cond with
  | always => simp [hc, guardEnc] at hf
  | ifTrue i => simp only [hc, Bool.and_eq_true, beq_iff_eq] at hg; exact hg.2
  | ifFalse i => simp only [hc, Bool.and_eq_true, beq_iff_eq] at hg; exact hg.2

theorem plainDom_domFrom (all : List Val) : ∀ (fsS : List Field) (vsS : List Val) (fsP : List Field)
    (vsP : List Val), all = vsP ++ vsS → fsP.length = vsP.length → PrefOK fsP vsP →
    fieldsWf (fsP ++ fsS) fsP.length fsS = true → plainDom all fsS vsS = true →
    domFrom all fsP vsP fsS vsS = true
  | [], [], _, _, _, _, _, _, _ => by simp [domFrom]
  | f :: fs, v :: vs, fsP, vsP, hall, hlen, hp, hwf, hd => by
    simp only [fieldsWf, Bool.and_eq_true] at hwf
    obtain ⟨⟨⟨⟨⟨hgok, hopt⟩, htk⟩, _⟩, _⟩, hwfr⟩ := hwf
    simp only [plainDom, Bool.and_eq_true] at hd
    obtain ⟨hrow, hdr⟩ := hd
    have hgd := guardDec_ok all fsP (f :: fs) vsP (v :: vs) f hall hlen hp hgok
    have happF : fsP ++ f :: fs = (fsP ++ [f]) ++ fs := by simp
    have hlen' : (fsP ++ [f]).length = (vsP ++ [v]).length := by simp [hlen]
    have hall' : all = (vsP ++ [v]) ++ vs := by simp [hall]
    -- the prefix invariant for the extended prefix
    have hp' : PrefOK (fsP ++ [f]) (vsP ++ [v]) := by
      intro i g hgi hca hno
      by_cases hi : i < fsP.length
      · rw [List.getElem?_append_left hi] at hgi
        obtain ⟨w, hw, hwa⟩ := hp i g hgi hca hno
        exact ⟨w, by rw [List.getElem?_append_left (by rw [← hlen]; exact hi)]; exact hw, hwa⟩
      · have hi' : i = fsP.length := by
          have : i < (fsP ++ [f]).length := (List.getElem?_eq_some_iff.mp hgi).1
          simp at this; omega
        subst hi'
        simp at hgi; subst hgi
        refine ⟨v, by simp [hlen], ?_⟩
        have hgt : guardEnc f.cond all = true := by rw [hca]; rfl
        simp only [hgt, Bool.not_true, Bool.false_eq_true, if_false] at hrow
        cases hva : v.isAbsent with
        | false => rfl
        | true => simp [hva, hno] at hrow
    have hwfr' : fieldsWf ((fsP ++ [f]) ++ fs) (fsP ++ [f]).length fs = true := by
      rw [← happF]; simpa using hwfr
    have ih := plainDom_domFrom all fs vs (fsP ++ [f]) (vsP ++ [v]) hall' hlen' hp' hwfr' hdr
    simp only [domFrom, Bool.and_eq_true]
    refine ⟨⟨by simp [isOkWith, hgd], ?_⟩, ih⟩
    by_cases hgt : guardEnc f.cond all = true
    · simp only [hgt, Bool.not_true, Bool.false_eq_true, if_false] at hrow ⊢
      by_cases hva : v.isAbsent = true
      · simp only [hva, if_true, Bool.and_eq_true] at hrow ⊢
        refine ⟨hrow.1, ?_⟩
        rw [noneEmitted_encTop all fs vs hrow.2]; rfl
      · have hva' : v.isAbsent = false := by simpa using hva
        simp only [hva', Bool.false_eq_true, if_false, Bool.and_eq_true, Bool.or_eq_true]
        constructor
        · simp only [Bool.or_eq_true, Bool.and_eq_true] at htk
          rcases htk with h | ⟨h1, h2⟩
          · exact Or.inl h
          · right
            refine ⟨h1, ?_⟩
            have hfs : fs = [] := by simpa using h2
            subst hfs
            cases vs with
            | nil => rfl
            | cons _ _ => simp [plainDom] at hdr
        · simp only [Bool.or_eq_true, Bool.and_eq_true, Bool.not_eq_true'] at hopt
          rcases hopt with h | h
          · exact Or.inl (by simpa using h)
          · exact Or.inr h.2
    · have hgf : guardEnc f.cond all = false := by simpa using hgt
      simp only [hgf, Bool.not_false, if_true, Bool.and_eq_true] at hrow ⊢
      refine ⟨hrow, ?_⟩
      have := guarded_dflt_none f (fsP ++ f :: fs) fsP.length all hgok hgf
      simp [this]
  | [], _ :: _, _, _, _, _, _, _, hd | _ :: _, [], _, _, _, _, _, _, hd => by simp [plainDom] at hd

end AioslskVerif.Wire
