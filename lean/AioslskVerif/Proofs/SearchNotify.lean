import AioslskVerif.Proofs.Search
/-! Helper lemmas for the removal report (`nstep`, Model/Search.lean): each registered listener is told of a
removal exactly once, and the reporting task is never cancelled. -/
namespace AioslskVerif.Search
open AioslskVerif.Generated.Search

/-! ### task ids are never re-used -/

/-- `s'` has at least the task-id counter of `s`, and every pending task of `s'` carries the id of a pending task
of `s` or a fresh one -/
def Grows (s s' : State) : Prop :=
  s.nextTask ≤ s'.nextTask ∧ ∀ t ∈ s'.tasks, (∃ t0 ∈ s.tasks, t0.id = t.id) ∨ s.nextTask ≤ t.id

theorem Grows.refl (s : State) : Grows s s := ⟨Nat.le_refl _, fun t ht => .inl ⟨t, ht, rfl⟩⟩

theorem Grows.trans {a b c : State} (h1 : Grows a b) (h2 : Grows b c) : Grows a c := by
  refine ⟨Nat.le_trans h1.1 h2.1, ?_⟩
  intro t ht
  rcases h2.2 t ht with ⟨t1, ht1, he⟩ | hge
  · rcases h1.2 t1 ht1 with ⟨t0, ht0, he0⟩ | hge
    · exact .inl ⟨t0, ht0, by omega⟩
    · exact .inr (by omega)
  · exact .inr (by have := h1.1; omega)

theorem grows_of_eq {s s' : State} (h1 : s'.nextTask = s.nextTask) (h2 : s'.tasks = s.tasks) : Grows s s' := by
  refine ⟨by omega, ?_⟩
  intro t ht
  rw [h2] at ht
  exact .inl ⟨t, ht, rfl⟩

theorem grows_timerCancel (s : State) (rid : Nat) (h : Option Nat) : Grows s (timerCancel s rid h) := by
  cases h with
  | none => exact Grows.refl s
  | some id =>
    rw [timerCancel_some]
    refine ⟨Nat.le_refl _, ?_⟩
    intro t ht
    obtain ⟨t0, ht0, rfl⟩ := List.mem_map.1 ht
    exact .inl ⟨t0, ht0, by simp⟩

theorem grows_timerStart (s : State) (rid tk T : Nat) : Grows s (timerStart s rid tk T) := by
  unfold timerStart
  refine ⟨by simp, ?_⟩
  intro t ht
  rcases List.mem_append.1 ht with h | h
  · exact .inl ⟨t, h, rfl⟩
  · simp at h; subst h; exact .inr (Nat.le_refl _)

theorem grows_newRequest (s : State) (k : Kind) (to : Option Nat) : Grows s (newRequest s k to).1 := by
  rw [newRequest_state]
  cases to with
  | none => exact grows_of_eq rfl rfl
  | some T => exact (grows_of_eq (s' := registered s k (some T)) rfl rfl).trans (grows_timerStart _ _ _ _)

theorem grows_wishlistRound (n : Nat) (s : State) (o : List Obs) : Grows s (wishlistRound n s o).1 := by
  induction n generalizing s o with
  | zero => exact Grows.refl s
  | succ n ih => simp only [wishlistRound]; exact (grows_newRequest s _ _).trans (ih _ _)

theorem grows_settleTimers (s : State) : Grows s (settleTimers s).1 := by
  rw [settleTimers_state]
  refine ⟨Nat.le_refl _, ?_⟩
  intro t ht
  obtain ⟨t0, ht0, rfl⟩ := List.mem_map.1 (List.mem_filter.1 ht).1
  exact .inl ⟨t0, ht0, by simp⟩

theorem grows_mapStart (s : State) (n : Nat) : Grows s { s with tasks := s.tasks.map (startTask n) } := by
  refine ⟨Nat.le_refl _, ?_⟩
  intro t ht
  obtain ⟨t0, ht0, rfl⟩ := List.mem_map.1 ht
  exact .inl ⟨t0, ht0, by simp⟩

theorem grows_settleWishlist (s : State) (o : List Obs) : Grows s (settleWishlist s o).1 := by
  rcases settleWishlist_cases s o with he | ⟨w, _, _, he⟩
  · rw [he]; exact Grows.refl s
  · rw [he]
    refine (grows_wishlistRound s.cfg.items s o).trans ?_
    refine ⟨Nat.le_refl _, ?_⟩
    intro t ht
    obtain ⟨t0, ht0, rfl⟩ := List.mem_map.1 ht
    exact .inl ⟨t0, ht0, by simp⟩

theorem grows_settle (s : State) : Grows s (settle s).1 := by
  unfold settle
  exact (grows_settleTimers s).trans (grows_settleWishlist _ _)

theorem grows_step (s : State) (op : Op) : Grows s (step s op).1 := by
  cases op with
  | search k => exact grows_newRequest s _ _
  | wlInterval n => exact grows_of_eq rfl rfl
  | serverClosing => exact grows_of_eq rfl rfl
  | jump d => exact grows_of_eq rfl rfl
  | settle => exact grows_settle s
  | remove tk =>
    simp only [step]
    cases hl : lookup s tk with
    | none => exact Grows.refl s
    | some r =>
      cases hto : r.timeout with
      | none => simp only [hto]; exact grows_of_eq rfl rfl
      | some T =>
        simp only [hto]
        exact (grows_of_eq (s' := { s with requests := s.requests.filter (fun q => q.ticket ≠ tk) }) rfl rfl).trans
          (grows_timerCancel _ _ _)
  | reply tk =>
    simp only [step]
    cases hl : lookup s tk with
    | none => exact Grows.refl s
    | some r => exact grows_of_eq rfl rfl
  | timerCancel tk =>
    simp only [step]
    cases hl : lookup s tk with
    | none => exact Grows.refl s
    | some r =>
      cases hto : r.timeout with
      | none => simp only [hto]; exact Grows.refl s
      | some T => simp only [hto]; exact grows_timerCancel s _ _
  | timerReschedule tk n =>
    simp only [step]
    cases hl : lookup s tk with
    | none => exact Grows.refl s
    | some r =>
      cases hto : r.timeout with
      | none => simp only [hto]; exact Grows.refl s
      | some T =>
        simp only [hto]
        exact ((grows_timerCancel s r.rid r.handle).trans
          (grows_of_eq (s' := { (timerCancel s r.rid r.handle) with
            requests := setTimeout (timerCancel s r.rid r.handle).requests r.rid n }) rfl rfl)).trans
          (grows_timerStart _ _ _ _)

/-! ### who can be cancelled -/

/-- `Timer.cancel` is only ever called on a pending task: the handle of a registered request -/
theorem timerOf_task {s : State} (h : Inv s) {tk id : Nat} (hc : timerOf s tk = some id) :
    ∃ r ∈ s.requests, r.ticket = tk ∧ r.handle = some id ∧ ∃ t ∈ s.tasks, t.id = id ∧ t.cancelled = false := by
  unfold timerOf at hc
  cases hl : lookup s tk with
  | none => simp [hl] at hc
  | some r =>
    obtain ⟨hr, htk⟩ := lookup_some hl
    cases hto : r.timeout with
    | none => simp [hl, hto] at hc
    | some T =>
      simp only [hl, hto] at hc
      obtain ⟨t, ht, h1, _, h3⟩ := h.handle_task r hr id hc
      exact ⟨r, hr, htk, hc, t, ht, h1, h3⟩

theorem cancelTarget_task {s : State} (h : Inv s) {op : Op} {id : Nat} (hc : cancelTarget s op = some id) :
    ∃ t ∈ s.tasks, t.id = id ∧ t.cancelled = false := by
  have key : ∀ tk, timerOf s tk = some id → ∃ t ∈ s.tasks, t.id = id ∧ t.cancelled = false := by
    intro tk hc
    obtain ⟨_, _, _, _, t, ht, h1, h2⟩ := timerOf_task h hc
    exact ⟨t, ht, h1, h2⟩
  cases op with
  | remove tk => exact key tk hc
  | timerCancel tk => exact key tk hc
  | timerReschedule tk n => exact key tk hc
  | search k => cases hc
  | wlInterval n => cases hc
  | serverClosing => cases hc
  | reply tk => cases hc
  | jump d => cases hc
  | settle => cases hc

/-- what `cancelTarget` names is what `step` cancels: the named pending task is marked cancelled … -/
theorem cancelTarget_marks {s : State} (h : Inv s) {op : Op} {id : Nat} (hc : cancelTarget s op = some id) :
    ∀ t ∈ (step s op).1.tasks, t.id = id → t.cancelled = true := by
  have key : ∀ tk, timerOf s tk = some id → ∀ r, lookup s tk = some r →
      ∀ t ∈ (timerCancel s r.rid r.handle).tasks, t.id = id → t.cancelled = true := by
    intro tk htk r hl t ht hid
    unfold timerOf at htk
    rw [hl] at htk
    cases hto : r.timeout with
    | none => simp [hto] at htk
    | some T =>
      simp only [hto] at htk
      rw [htk, timerCancel_some] at ht
      obtain ⟨t0, _, rfl⟩ := List.mem_map.1 ht
      rw [markCancelled_cancelled]
      simp at hid
      simp [hid]
  have hl : ∀ tk, timerOf s tk = some id → ∃ r, lookup s tk = some r ∧ ∃ T, r.timeout = some T := by
    intro tk htk
    unfold timerOf at htk
    cases hl : lookup s tk with
    | none => simp [hl] at htk
    | some r =>
      cases hto : r.timeout with
      | none => simp [hl, hto] at htk
      | some T => exact ⟨r, rfl, T, hto⟩
  cases op with
  | search k => cases hc
  | wlInterval n => cases hc
  | serverClosing => cases hc
  | reply tk => cases hc
  | jump d => cases hc
  | settle => cases hc
  | remove tk =>
    have hc : timerOf s tk = some id := hc
    obtain ⟨r, hr, T, hT⟩ := hl tk hc
    intro t ht
    simp only [step, hr, hT] at ht
    have := key tk hc r hr
    cases hh : r.handle with
    | none => unfold timerOf at hc; simp [hr, hT, hh] at hc
    | some i =>
      rw [hh, timerCancel_some] at ht this
      exact this t ht
  | timerCancel tk =>
    have hc : timerOf s tk = some id := hc
    obtain ⟨r, hr, T, hT⟩ := hl tk hc
    intro t ht
    simp only [step, hr, hT] at ht
    exact key tk hc r hr t ht
  | timerReschedule tk n =>
    have hc : timerOf s tk = some id := hc
    obtain ⟨r, hr, T, hT⟩ := hl tk hc
    intro t ht hid
    simp only [step, hr, hT, timerStart] at ht
    rcases List.mem_append.1 ht with ht | ht
    · exact key tk hc r hr t ht hid
    · -- the fresh task has a new id
      exfalso
      obtain ⟨t0, ht0, h0, _⟩ := cancelTarget_task (op := .timerReschedule tk n) h (by simpa [cancelTarget] using hc)
      have h1 := h.task_id t0 ht0
      have h2 : (timerCancel s r.rid r.handle).nextTask = s.nextTask := by cases r.handle <;> rfl
      simp at ht
      subst ht
      simp only [h2] at hid
      omega

/-- … and no other pending task is: a task that was not cancelled before the step and is cancelled after it is the
one `cancelTarget` names. -/
theorem cancelTarget_complete (s : State) (op : Op) :
    ∀ t ∈ (step s op).1.tasks, t.cancelled = true →
      (∃ t0 ∈ s.tasks, t0.id = t.id ∧ t0.cancelled = true) ∨ cancelTarget s op = some t.id := by
  have hmark : ∀ (l : List TTask) (id : Nat), ∀ t ∈ l.map (markCancelled id), t.cancelled = true →
      (∃ t0 ∈ l, t0.id = t.id ∧ t0.cancelled = true) ∨ id = t.id := by
    intro l id t ht hc
    obtain ⟨t0, ht0, rfl⟩ := List.mem_map.1 ht
    rw [markCancelled_cancelled] at hc
    by_cases h0 : t0.cancelled = true
    · exact .inl ⟨t0, ht0, by simp, h0⟩
    · right; simp at h0; simp [h0] at hc; simp [hc]
  have hcan : ∀ (s0 : State) (rid : Nat) (hd : Option Nat), ∀ t ∈ (timerCancel s0 rid hd).tasks, t.cancelled = true →
      (∃ t0 ∈ s0.tasks, t0.id = t.id ∧ t0.cancelled = true) ∨ hd = some t.id := by
    intro s0 rid hd t ht hc
    cases hd with
    | none => exact .inl ⟨t, ht, rfl, hc⟩
    | some id =>
      rw [timerCancel_some] at ht
      rcases hmark _ _ t ht hc with h | h
      · exact .inl h
      · exact .inr (by rw [h])
  have hsame : ∀ t ∈ s.tasks, t.cancelled = true → (∃ t0 ∈ s.tasks, t0.id = t.id ∧ t0.cancelled = true) ∨
      cancelTarget s op = some t.id := fun t ht hc => .inl ⟨t, ht, rfl, hc⟩
  have hnew : ∀ (k : Kind) (to : Option Nat), ∀ t ∈ (newRequest s k to).1.tasks, t.cancelled = true →
      ∃ t0 ∈ s.tasks, t0.id = t.id ∧ t0.cancelled = true := by
    intro k to t ht hc
    rcases newRequest_tasks s k to t ht with h | ⟨h, _, _⟩
    · exact ⟨t, h, rfl, hc⟩
    · rw [h] at hc; cases hc
  cases op with
  | search k => intro t ht hc; exact .inl (hnew k _ t ht hc)
  | wlInterval n => exact hsame
  | serverClosing => exact hsame
  | jump d => exact hsame
  | reply tk =>
    intro t ht hc
    simp only [step] at ht
    cases hl : lookup s tk with
    | none => rw [hl] at ht; exact hsame t ht hc
    | some r => rw [hl] at ht; exact hsame t ht hc
  | settle =>
    intro t ht hc
    left
    -- a loop run only finishes cancelled tasks and starts fresh, un-cancelled ones
    have hT : ∀ x ∈ (settleTimers s).1.tasks, x.cancelled = true → ∃ t0 ∈ s.tasks, t0.id = x.id ∧ t0.cancelled = true := by
      intro x hx hxc
      rw [settleTimers_state] at hx
      obtain ⟨t0, ht0, rfl⟩ := List.mem_map.1 (List.mem_filter.1 hx).1
      exact ⟨t0, ht0, by simp, by simpa using hxc⟩
    simp only [step, settle] at ht
    rcases settleWishlist_cases (settleTimers s).1 (settleTimers s).2 with he | ⟨w, _, _, he⟩
    · rw [he] at ht; exact hT t ht hc
    · rw [he] at ht
      simp only [] at ht
      obtain ⟨t1, ht1, rfl⟩ := List.mem_map.1 ht
      rcases wishlistRound_tasks _ _ _ t1 ht1 with h | ⟨h, _, _⟩
      · obtain ⟨t0, ht0, h1, h2⟩ := hT t1 h (by simpa using hc)
        exact ⟨t0, ht0, by simpa using h1, h2⟩
      · simp [h] at hc
  | remove tk =>
    intro t ht hc
    cases hl : lookup s tk with
    | none => simp only [step, hl] at ht; exact hsame t ht hc
    | some r =>
      cases hto : r.timeout with
      | none => simp only [step, hl, hto] at ht; exact hsame t ht hc
      | some T =>
        simp only [step, hl, hto] at ht
        rcases hcan _ _ _ t ht hc with h | h
        · exact .inl h
        · right; simp [cancelTarget, timerOf, hl, hto, h]
  | timerCancel tk =>
    intro t ht hc
    cases hl : lookup s tk with
    | none => simp only [step, hl] at ht; exact hsame t ht hc
    | some r =>
      cases hto : r.timeout with
      | none => simp only [step, hl, hto] at ht; exact hsame t ht hc
      | some T =>
        simp only [step, hl, hto] at ht
        rcases hcan _ _ _ t ht hc with h | h
        · exact .inl h
        · right; simp [cancelTarget, timerOf, hl, hto, h]
  | timerReschedule tk n =>
    intro t ht hc
    cases hl : lookup s tk with
    | none => simp only [step, hl] at ht; exact hsame t ht hc
    | some r =>
      cases hto : r.timeout with
      | none => simp only [step, hl, hto] at ht; exact hsame t ht hc
      | some T =>
        simp only [step, hl, hto, timerStart] at ht
        rcases List.mem_append.1 ht with ht | ht
        · rcases hcan _ _ _ t ht hc with h | h
          · exact .inl h
          · right; simp [cancelTarget, timerOf, hl, hto, h]
        · simp at ht; subst ht; cases hc

/-- the task whose callback reports a removal is finished as far as the registry is concerned: it is not among
the pending tasks after that loop run, and its id is below the counter -/
theorem settle_fired_not_pending {s : State} (h : Inv s) {t rid tk dl tid : Nat}
    (hx : Obs.removed t rid tk dl tid ∈ (settle s).2) :
    tid < s.nextTask ∧ ∀ x ∈ (settle s).1.tasks, x.id ≠ tid := by
  obtain ⟨t0, ht0, hc, _, hd, hle, hid, _⟩ := removed_mem_settle s hx
  have hlt : tid < s.nextTask := by have := h.task_id t0 ht0; omega
  refine ⟨hlt, ?_⟩
  have hT : ∀ x ∈ (settleTimers s).1.tasks, x.id ≠ tid := by
    intro x hxm heq
    rw [settleTimers_state] at hxm
    obtain ⟨hm, hnf⟩ := List.mem_filter.1 hxm
    obtain ⟨x0, hx0, rfl⟩ := List.mem_map.1 hm
    have : x0 = t0 := pairwise_id_inj h.task_nodup x0 hx0 t0 ht0 (by simp at heq; omega)
    subst this
    unfold isFinishing reached at hnf
    rw [hd] at hnf
    simp [hle] at hnf
  intro x hxm
  unfold settle at hxm
  rcases settleWishlist_cases (settleTimers s).1 (settleTimers s).2 with he | ⟨w, _, _, he⟩
  · rw [he] at hxm; exact hT x hxm
  · rw [he] at hxm
    simp only [] at hxm
    obtain ⟨x1, hx1, rfl⟩ := List.mem_map.1 hxm
    rcases (grows_wishlistRound _ _ _).2 x1 hx1 with ⟨x0, hx0, he0⟩ | hge
    · have := hT x0 hx0; simp; omega
    · have : (settleTimers s).1.nextTask = s.nextTask := by rw [settleTimers_state]
      simp; omega

/-! ### the removal report -/

theorem nrun_nil (s : NState) : nrun s [] = (s, []) := rfl
theorem nrun_cons (s : NState) (op : NOp) (ops : List NOp) :
    nrun s (op :: ops) = ((nrun (nstep s op).1 ops).1, (nstep s op).2 ++ (nrun (nstep s op).1 ops).2) := rfl

theorem nrun_ind {P : NState → List NObs → Prop} {G : NState → Prop}
    (hG : ∀ s op, G (nstep s op).1 → G s)
    (hstep : ∀ s tr op, P s tr → G (nstep s op).1 → P (nstep s op).1 (tr ++ (nstep s op).2)) :
    ∀ ops s tr, P s tr → G (nrun s ops).1 → P (nrun s ops).1 (tr ++ (nrun s ops).2) := by
  intro ops
  induction ops with
  | nil => intro s tr h _; simpa [nrun_nil] using h
  | cons op ops ih =>
    intro s tr h hg
    rw [nrun_cons] at hg ⊢
    have hgs : G (nstep s op).1 := by
      clear ih h
      generalize (nstep s op).1 = s' at hg
      induction ops generalizing s' with
      | nil => simpa [nrun_nil] using hg
      | cons op' ops' ih' => rw [nrun_cons] at hg; exact hG _ _ (ih' _ hg)
    have := ih _ _ (hstep s tr op h hgs) hg
    simpa [List.append_assoc] using this

theorem nstep_resume_base (s : NState) (rid : Nat) : (nstep s (.resume rid)).1.base = s.base := by
  simp only [nstep]
  split
  · rfl
  · split
    · rfl
    · split <;> rfl

theorem nstep_resume_listeners (s : NState) (rid : Nat) : (nstep s (.resume rid)).1.listeners = s.listeners := by
  simp only [nstep]
  split
  · rfl
  · split
    · rfl
    · split <;> rfl

theorem nstep_base_base (s : NState) (op : Op) : (nstep s (.base op)).1.base = (step s.base op).1 := by
  simp only [nstep]; split <;> rfl

theorem nstep_listeners (s : NState) (op : NOp) : (nstep s op).1.listeners = s.listeners := by
  cases op with
  | base op => simp only [nstep]; split <;> rfl
  | resume rid => exact nstep_resume_listeners s rid

theorem noWrap_of_nstep (s : NState) (op : NOp) (h : NoWrap (nstep s op).1.base) : NoWrap s.base := by
  cases op with
  | base op => rw [nstep_base_base] at h; exact noWrap_of_step _ _ h
  | resume rid => rw [nstep_resume_base] at h; exact h

def toldKey : NObs → Option (Nat × Nat)
  | .told _ rid _ i => some (rid, i)
  | _ => none

theorem pairwise_rid_inj {l : List Emission} (h : l.Pairwise (fun a b => a.rid ≠ b.rid)) :
    ∀ a ∈ l, ∀ b ∈ l, a.rid = b.rid → a = b := by
  induction l with
  | nil => intro a ha; cases ha
  | cons x xs ih =>
    rw [List.pairwise_cons] at h
    intro a ha b hb hab
    rcases List.mem_cons.1 ha with rfl | ha' <;> rcases List.mem_cons.1 hb with rfl | hb'
    · rfl
    · exact absurd hab (h.1 b hb')
    · exact absurd hab.symm (h.1 a ha')
    · exact ih h.2 a ha' b hb' hab

@[simp] theorem bump_rid (rid : Nat) (e : Emission) : (bump rid e).rid = e.rid := by unfold bump; split <;> rfl
@[simp] theorem bump_tid (rid : Nat) (e : Emission) : (bump rid e).tid = e.tid := by unfold bump; split <;> rfl
@[simp] theorem bump_cancelled (rid : Nat) (e : Emission) : (bump rid e).cancelled = e.cancelled := by
  unfold bump; split <;> rfl
theorem bump_told (rid : Nat) (e : Emission) : (bump rid e).told = if e.rid = rid then e.told + 1 else e.told := by
  unfold bump; split <;> rfl

/-- The ledger of the removal reports.  `tr` is the trace so far. -/
structure NInv (s : NState) (tr : List NObs) : Prop where
  inv : Inv s.base
  /-- a running report: not cancelled, between its first and its last listener, for a request that is gone, run
  by a task that is not pending any more and whose id will never be handed out again -/
  rep_ok : ∀ e ∈ s.reporting, e.cancelled = false ∧ 1 ≤ e.told ∧ e.told ≤ s.listeners ∧ Gone e.rid s.base ∧
    e.tid < s.base.nextTask ∧ ∀ t ∈ s.base.tasks, t.id ≠ e.tid
  rep_nodup : s.reporting.Pairwise (fun a b => a.rid ≠ b.rid)
  /-- the listeners a running report has passed have been told -/
  rep_told : ∀ e ∈ s.reporting, ∀ j, j < e.told → ∃ t' tk', NObs.told t' e.rid tk' j ∈ tr
  told_ok : ∀ t rid tk i, NObs.told t rid tk i ∈ tr →
    i < s.listeners ∧ Gone rid s.base ∧ ∀ e ∈ s.reporting, e.rid = rid → i < e.told
  told_nodup : (tr.filterMap toldKey).Nodup
  /-- nothing is lost: a listener has been told, or the report is still running and has not reached it yet -/
  complete : ∀ t rid tk dl tid, NObs.base (.removed t rid tk dl tid) ∈ tr → ∀ i, i < s.listeners →
    (∃ t' tk', NObs.told t' rid tk' i ∈ tr) ∨ ∃ e ∈ s.reporting, e.rid = rid ∧ e.told ≤ i
  /-- listeners are told in registration order -/
  in_order : ∀ t rid tk i, NObs.told t rid tk i ∈ tr → ∀ j, j < i → ∃ t' tk', NObs.told t' rid tk' j ∈ tr
  no_abort : ∀ t rid tk i, NObs.aborted t rid tk i ∉ tr

theorem ninv_init (cfg : Cfg) (n : Nat) : NInv (ninit cfg n) [] := by
  constructor
  · exact inv_init cfg
  · intro e he; cases he
  · exact List.Pairwise.nil
  · intro e he; cases he
  · intro t rid tk i h; cases h
  · exact List.nodup_nil
  · intro t rid tk dl tid h; cases h
  · intro t rid tk i h; cases h
  · intro t rid tk i h; cases h

theorem mem_newEmission {obs : List Obs} {e : Emission} (h : e ∈ obs.filterMap newEmission) :
    ∃ t dl, Obs.removed t e.rid e.ticket dl e.tid ∈ obs ∧ e.told = 1 ∧ e.cancelled = false := by
  obtain ⟨x, hx, hxe⟩ := List.mem_filterMap.1 h
  cases x with
  | removed t rid tk dl tid =>
    simp only [newEmission, Option.some.injEq] at hxe
    subst hxe
    exact ⟨t, dl, hx, rfl, rfl⟩
  | _ => simp [newEmission] at hxe

theorem mem_firstTold {obs : List Obs} {x : NObs} (h : x ∈ obs.filterMap firstTold) :
    ∃ t rid tk dl tid, Obs.removed t rid tk dl tid ∈ obs ∧ x = .told t rid tk 0 := by
  obtain ⟨y, hy, hyx⟩ := List.mem_filterMap.1 h
  cases y with
  | removed t rid tk dl tid =>
    simp only [firstTold, Option.some.injEq] at hyx
    exact ⟨t, rid, tk, dl, tid, hy, hyx.symm⟩
  | _ => simp [firstTold] at hyx

theorem newEmission_of_removed {obs : List Obs} {t rid tk dl tid : Nat} (h : Obs.removed t rid tk dl tid ∈ obs) :
    ({ rid := rid, ticket := tk, tid := tid, told := 1, cancelled := false } : Emission) ∈ obs.filterMap newEmission :=
  List.mem_filterMap.2 ⟨_, h, rfl⟩

theorem firstTold_of_removed {obs : List Obs} {t rid tk dl tid : Nat} (h : Obs.removed t rid tk dl tid ∈ obs) :
    NObs.told t rid tk 0 ∈ obs.filterMap firstTold :=
  List.mem_filterMap.2 ⟨_, h, rfl⟩

theorem newEmission_rids (obs : List Obs) : (obs.filterMap newEmission).map (·.rid) = obs.filterMap removedRid := by
  rw [List.map_filterMap]
  congr 1
  funext x
  cases x <;> rfl

theorem firstTold_keys (obs : List Obs) :
    (obs.filterMap firstTold).filterMap toldKey = (obs.filterMap removedRid).map (fun r => (r, 0)) := by
  rw [List.filterMap_filterMap, List.map_filterMap]
  congr 1
  funext x
  cases x <;> rfl

theorem base_keys (obs : List Obs) : (obs.map NObs.base).filterMap toldKey = [] := by
  rw [List.filterMap_map]
  apply List.filterMap_eq_nil_iff.2
  intro x _
  rfl

/-- what a base step reports about removals -/
theorem step_removed_facts {s : State} (op : Op) (h : Inv s) (hw : NoWrap (step s op).1) {t rid tk dl tid : Nat}
    (hx : Obs.removed t rid tk dl tid ∈ (step s op).2) :
    (∃ r ∈ s.requests, r.rid = rid) ∧ Gone rid (step s op).1 ∧ tid < s.nextTask ∧
      ∀ x ∈ (step s op).1.tasks, x.id ≠ tid := by
  have hok := step_obs op h hw _ hx
  obtain ⟨hop, _, _, _, q, hq, hq1, _⟩ := hok
  subst hop
  have := settle_fired_not_pending h hx
  exact ⟨⟨q, hq, hq1⟩, gone_after_timeout h hw hx, this.1, this.2⟩

theorem ninv_resume {s : NState} {tr : List NObs} (rid : Nat) (h : NInv s tr) :
    NInv (nstep s (.resume rid)).1 (tr ++ (nstep s (.resume rid)).2) := by
  obtain ⟨hinv, hrep, hnd, hrt, htold, hkeys, hcomp, hord, hab⟩ := h
  have hinj := pairwise_rid_inj hnd
  have hnil : ∀ x : NObs, toldKey x = none → (tr ++ [x]).filterMap toldKey = tr.filterMap toldKey := by
    intro x hx
    rw [List.filterMap_append]
    simp [hx]
  simp only [nstep]
  cases hf : s.reporting.find? (fun e => decide (e.rid = rid)) with
  | none =>
    simp only []
    constructor
    · exact hinv
    · exact hrep
    · exact hnd
    · intro e he j hj
      obtain ⟨t', tk', h1⟩ := hrt e he j hj
      exact ⟨t', tk', List.mem_append.2 (.inl h1)⟩
    · intro t r tk i hm
      rcases List.mem_append.1 hm with hm | hm
      · exact htold t r tk i hm
      · simp at hm
    · rw [hnil _ rfl]; exact hkeys
    · intro t r tk dl tid hm i hi
      have hm' : NObs.base (.removed t r tk dl tid) ∈ tr := by
        rcases List.mem_append.1 hm with hm | hm
        · exact hm
        · simp at hm
      rcases hcomp t r tk dl tid hm' i hi with ⟨t', tk', h1⟩ | h1
      · exact .inl ⟨t', tk', List.mem_append.2 (.inl h1)⟩
      · exact .inr h1
    · intro t r tk i hm j hj
      rcases List.mem_append.1 hm with hm | hm
      · obtain ⟨t', tk', h1⟩ := hord t r tk i hm j hj
        exact ⟨t', tk', List.mem_append.2 (.inl h1)⟩
      · simp at hm
    · intro t r tk i hm
      rcases List.mem_append.1 hm with hm | hm
      · exact hab t r tk i hm
      · simp at hm
  | some e =>
    have hem : e ∈ s.reporting := List.mem_of_find?_eq_some hf
    have her : e.rid = rid := by simpa using List.find?_some hf
    obtain ⟨hec, he1, hen, heg, het, hett⟩ := hrep e hem
    simp only [hec, Bool.false_eq_true, if_false]
    by_cases hlt : e.told < s.listeners
    · -- the next listener is called
      simp only [hlt, if_true]
      have hbump : ∀ e0 ∈ s.reporting, e0.rid = rid → e0 = e := fun e0 h0 hr => hinj e0 h0 e hem (by omega)
      constructor
      · exact hinv
      · intro e' he'
        obtain ⟨e0, he0, rfl⟩ := List.mem_map.1 he'
        obtain ⟨a, b, c, d, f, g⟩ := hrep e0 he0
        refine ⟨by simpa using a, ?_, ?_, by simpa using d, by simpa using f, by simpa using g⟩
        · rw [bump_told]; split <;> omega
        · show (bump rid e0).told ≤ s.listeners
          rw [bump_told]
          split
          · rename_i hr; have := hbump e0 he0 hr; subst this; omega
          · exact c
      · rw [List.pairwise_map]
        simpa using hnd
      · intro e' he' j hj
        obtain ⟨e0, he0, rfl⟩ := List.mem_map.1 he'
        rw [bump_told] at hj
        rw [bump_rid]
        by_cases hr : e0.rid = rid
        · have h0 := hbump e0 he0 hr
          subst h0
          rw [if_pos hr] at hj
          by_cases hj' : j < e0.told
          · obtain ⟨t', tk', h1⟩ := hrt e0 he0 j hj'
            exact ⟨t', tk', List.mem_append.2 (.inl h1)⟩
          · have : j = e0.told := by omega
            subst this
            exact ⟨s.base.now, e0.ticket, List.mem_append.2 (.inr (by simp))⟩
        · rw [if_neg hr] at hj
          obtain ⟨t', tk', h1⟩ := hrt e0 he0 j hj
          exact ⟨t', tk', List.mem_append.2 (.inl h1)⟩
      · intro t r tk i hm
        rcases List.mem_append.1 hm with hm | hm
        · obtain ⟨a, b, c⟩ := htold t r tk i hm
          refine ⟨a, b, ?_⟩
          intro e' he' her'
          obtain ⟨e0, he0, rfl⟩ := List.mem_map.1 he'
          have := c e0 he0 (by simpa using her')
          rw [bump_told]; split <;> omega
        · simp only [List.mem_singleton, NObs.told.injEq] at hm
          obtain ⟨_, rfl, _, rfl⟩ := hm
          refine ⟨hlt, heg, ?_⟩
          intro e' he' her'
          obtain ⟨e0, he0, rfl⟩ := List.mem_map.1 he'
          have h0 : e0 = e := hinj e0 he0 e hem (by simpa using her')
          subst h0
          rw [bump_told, if_pos her]; omega
      · rw [List.filterMap_append, List.nodup_append]
        refine ⟨hkeys, by simp [toldKey], ?_⟩
        intro a ha b hb hab
        simp only [List.filterMap_cons, toldKey, List.filterMap_nil, List.mem_singleton] at hb
        subst hab hb
        obtain ⟨x, hx, hxk⟩ := List.mem_filterMap.1 ha
        cases x with
        | told t' r' tk' i' =>
          simp only [toldKey, Option.some.injEq, Prod.mk.injEq] at hxk
          obtain ⟨rfl, rfl⟩ := hxk
          have := (htold t' _ tk' _ hx).2.2 e hem rfl
          omega
        | _ => simp [toldKey] at hxk
      · intro t r tk dl tid hm i hi
        have hm' : NObs.base (.removed t r tk dl tid) ∈ tr := by
          rcases List.mem_append.1 hm with hm | hm
          · exact hm
          · simp at hm
        rcases hcomp t r tk dl tid hm' i hi with ⟨t', tk', h1⟩ | ⟨e0, he0, h1, h2⟩
        · exact .inl ⟨t', tk', List.mem_append.2 (.inl h1)⟩
        · by_cases hr : e0.rid = rid
          · have h0 := hbump e0 he0 hr
            subst h0
            by_cases hi' : e0.told = i
            · left
              refine ⟨s.base.now, e0.ticket, List.mem_append.2 (.inr ?_)⟩
              simp [← h1, hi']
            · right
              refine ⟨bump rid e0, List.mem_map.2 ⟨e0, he0, rfl⟩, by simpa using h1, ?_⟩
              rw [bump_told, if_pos hr]; omega
          · right
            refine ⟨bump rid e0, List.mem_map.2 ⟨e0, he0, rfl⟩, by simpa using h1, ?_⟩
            rw [bump_told, if_neg hr]; exact h2
      · intro t r tk i hm j hj
        rcases List.mem_append.1 hm with hm | hm
        · obtain ⟨t', tk', h1⟩ := hord t r tk i hm j hj
          exact ⟨t', tk', List.mem_append.2 (.inl h1)⟩
        · simp only [List.mem_singleton, NObs.told.injEq] at hm
          obtain ⟨_, rfl, _, rfl⟩ := hm
          obtain ⟨t', tk', h1⟩ := hrt e hem j hj
          exact ⟨t', tk', List.mem_append.2 (.inl h1)⟩
      · intro t r tk i hm
        rcases List.mem_append.1 hm with hm | hm
        · exact hab t r tk i hm
        · simp at hm
    · -- the last listener has returned: `emit` returns, the task is done
      simp only [hlt, if_false]
      constructor
      · exact hinv
      · intro e' he'; exact hrep e' (List.mem_filter.1 he').1
      · exact hnd.filter _
      · intro e' he' j hj
        obtain ⟨t', tk', h1⟩ := hrt e' (List.mem_filter.1 he').1 j hj
        exact ⟨t', tk', List.mem_append.2 (.inl h1)⟩
      · intro t r tk i hm
        rcases List.mem_append.1 hm with hm | hm
        · obtain ⟨a, b, c⟩ := htold t r tk i hm
          exact ⟨a, b, fun e' he' => c e' (List.mem_filter.1 he').1⟩
        · simp at hm
      · rw [hnil _ rfl]; exact hkeys
      · intro t r tk dl tid hm i hi
        have hi : i < s.listeners := hi
        have hm' : NObs.base (.removed t r tk dl tid) ∈ tr := by
          rcases List.mem_append.1 hm with hm | hm
          · exact hm
          · simp at hm
        rcases hcomp t r tk dl tid hm' i hi with ⟨t', tk', h1⟩ | ⟨e0, he0, h1, h2⟩
        · exact .inl ⟨t', tk', List.mem_append.2 (.inl h1)⟩
        · by_cases hr : e0.rid = rid
          · have h0 : e0 = e := hinj e0 he0 e hem (by omega)
            subst h0; omega
          · exact .inr ⟨e0, List.mem_filter.2 ⟨he0, by simpa using hr⟩, h1, h2⟩
      · intro t r tk i hm j hj
        rcases List.mem_append.1 hm with hm | hm
        · obtain ⟨t', tk', h1⟩ := hord t r tk i hm j hj
          exact ⟨t', tk', List.mem_append.2 (.inl h1)⟩
        · simp at hm
      · intro t r tk i hm
        rcases List.mem_append.1 hm with hm | hm
        · exact hab t r tk i hm
        · simp at hm

end AioslskVerif.Search
