import AioslskVerif.Model.Query
/-! Helper lemmas for C07 (query side). -/
set_option linter.unusedSectionVars false
namespace AioslskVerif.Query

section
variable {Ch : Type} [DecidableEq Ch] (K : Cls Ch)

/-! ### boundaries -/

/-- "the last character read is a word character", starting from `pw` -/
def lastW : Bool → List Ch → Bool
  | pw, [] => pw
  | _, c :: a => lastW (K.isWord c) a

theorem lastW_concat (pw : Bool) (a : List Ch) (c : Ch) : lastW K pw (a ++ [c]) = K.isWord c := by
  induction a generalizing pw with
  | nil => rfl
  | cons x a ih => exact ih _

theorem endsSep_iff (a : List Ch) : EndsSep K a ↔ lastW K false a = false := by
  constructor
  · rintro (rfl | ⟨a', c, rfl, hc⟩)
    · rfl
    · rw [lastW_concat]; exact hc
  · intro h
    rcases List.eq_nil_or_concat a with rfl | ⟨a', c, rfl⟩
    · exact Or.inl rfl
    · right
      refine ⟨a', c, by simp, ?_⟩
      have := lastW_concat K false a' c
      simp at h
      simpa [this] using h

theorem startsSep_iff (b : List Ch) : StartsSep K b ↔ endOK K b = true := by
  cases b with
  | nil => simp [StartsSep, endOK]
  | cons c b => simp [StartsSep, endOK]

/-! ### the matcher against the declarative predicate -/

theorem litAt_iff (t p r : List Ch) :
    litAt K t p = some r ↔ ∃ m, p = m ++ r ∧ CIeq K m t := by
  induction t generalizing p with
  | nil =>
    simp only [litAt, CIeq, List.map_nil, List.map_eq_nil_iff, Option.some.injEq]
    constructor
    · rintro rfl; exact ⟨[], rfl, rfl⟩
    · rintro ⟨m, rfl, rfl⟩; rfl
  | cons c t ih =>
    cases p with
    | nil =>
      simp only [litAt, CIeq, reduceCtorEq, false_iff]
      rintro ⟨m, hm, hc⟩
      have : m = [] := by
        cases m with
        | nil => rfl
        | cons x m => simp at hm
      subst this
      simp at hc
    | cons d p =>
      simp only [litAt]
      split
      · rename_i hcd
        rw [ih]
        constructor
        · rintro ⟨m, rfl, hm⟩
          exact ⟨d :: m, rfl, by simp [CIeq] at hm ⊢; exact ⟨hcd.symm, hm⟩⟩
        · rintro ⟨m, hm, hc⟩
          cases m with
          | nil => simp [CIeq] at hc
          | cons x m =>
            simp only [List.cons_append, List.cons.injEq] at hm
            obtain ⟨rfl, rfl⟩ := hm
            simp [CIeq] at hc
            exact ⟨m, rfl, hc.2⟩
      · rename_i hcd
        simp only [reduceCtorEq, false_iff]
        rintro ⟨m, hm, hc⟩
        cases m with
        | nil => simp [CIeq] at hc
        | cons x m =>
          simp only [List.cons_append, List.cons.injEq] at hm
          obtain ⟨rfl, rfl⟩ := hm
          simp [CIeq] at hc
          exact hcd hc.1.symm

theorem inclAt_iff (t p : List Ch) :
    inclAt K t p = true ↔ ∃ m r, p = m ++ r ∧ CIeq K m t ∧ StartsSep K r := by
  unfold inclAt
  constructor
  · intro h
    split at h
    · rename_i r hr
      obtain ⟨m, hm, hc⟩ := (litAt_iff K t p r).1 hr
      exact ⟨m, r, hm, hc, (startsSep_iff K r).2 h⟩
    · simp at h
  · rintro ⟨m, r, hm, hc, hs⟩
    have := (litAt_iff K t p r).2 ⟨m, hm, hc⟩
    rw [this]
    exact (startsSep_iff K r).1 hs

theorem wildAt_iff (t p : List Ch) :
    wildAt K t p = true ↔
      ∃ w m r, p = w ++ m ++ r ∧ (∀ c ∈ w, K.isWord c = true) ∧ CIeq K m t ∧ StartsSep K r := by
  induction p with
  | nil =>
    simp only [wildAt, inclAt_iff]
    constructor
    · rintro ⟨m, r, h, hc, hs⟩
      exact ⟨[], m, r, by simpa using h, by simp, hc, hs⟩
    · rintro ⟨w, m, r, h, _, hc, hs⟩
      have hw : w = [] := by
        cases w with
        | nil => rfl
        | cons x w => simp at h
      subst hw
      exact ⟨m, r, by simpa using h, hc, hs⟩
  | cons c p ih =>
    simp only [wildAt, Bool.or_eq_true, Bool.and_eq_true, inclAt_iff, ih]
    constructor
    · rintro (⟨m, r, h, hc, hs⟩ | ⟨hcw, w, m, r, h, hw, hc, hs⟩)
      · exact ⟨[], m, r, by simpa using h, by simp, hc, hs⟩
      · refine ⟨c :: w, m, r, by simp [h], ?_, hc, hs⟩
        intro x hx
        rcases List.mem_cons.1 hx with rfl | hx
        · exact hcw
        · exact hw x hx
    · rintro ⟨w, m, r, h, hw, hc, hs⟩
      cases w with
      | nil => exact Or.inl ⟨m, r, by simpa using h, hc, hs⟩
      | cons x w =>
        simp only [List.cons_append, List.cons.injEq] at h
        obtain ⟨rfl, rfl⟩ := h
        exact Or.inr ⟨hw _ (List.mem_cons_self), w, m, r, rfl, fun y hy => hw y (List.mem_cons_of_mem _ hy), hc, hs⟩

theorem searchFrom_iff (here : List Ch → Bool) (pw : Bool) (p : List Ch) :
    searchFrom K here pw p = true ↔ ∃ a r, p = a ++ r ∧ lastW K pw a = false ∧ here r = true := by
  induction p generalizing pw with
  | nil =>
    simp only [searchFrom, Bool.and_eq_true, Bool.not_eq_true']
    constructor
    · rintro ⟨h1, h2⟩; exact ⟨[], [], rfl, h1, h2⟩
    · rintro ⟨a, r, h, h1, h2⟩
      have ha : a = [] := by
        cases a with
        | nil => rfl
        | cons x a => simp at h
      subst ha
      have hr : r = [] := by simpa using h.symm
      subst hr
      exact ⟨h1, h2⟩
  | cons c p ih =>
    simp only [searchFrom, Bool.or_eq_true, Bool.and_eq_true, Bool.not_eq_true', ih]
    constructor
    · rintro (⟨h1, h2⟩ | ⟨a, r, h, h1, h2⟩)
      · exact ⟨[], c :: p, rfl, h1, h2⟩
      · exact ⟨c :: a, r, by simp [h], h1, h2⟩
    · rintro ⟨a, r, h, h1, h2⟩
      cases a with
      | nil =>
        left
        have : r = c :: p := by simpa using h.symm
        subst this
        exact ⟨h1, h2⟩
      | cons x a =>
        simp only [List.cons_append, List.cons.injEq] at h
        obtain ⟨rfl, rfl⟩ := h
        exact Or.inr ⟨a, r, rfl, h1, h2⟩

theorem reIncl_iff (t p : List Ch) : reIncl K t p = true ↔ Incl K t p := by
  unfold reIncl Incl
  rw [searchFrom_iff]
  constructor
  · rintro ⟨a, r, h, ha, hr⟩
    obtain ⟨m, b, hb, hc, hs⟩ := (inclAt_iff K t r).1 hr
    exact ⟨a, m, b, by simp [h, hb], (endsSep_iff K a).2 ha, hc, hs⟩
  · rintro ⟨a, m, b, h, ha, hc, hs⟩
    exact ⟨a, m ++ b, by simp [h], (endsSep_iff K a).1 ha, (inclAt_iff K t _).2 ⟨m, b, rfl, hc, hs⟩⟩

theorem reWild_iff (t p : List Ch) : reWild K t p = true ↔ Wild K t p := by
  unfold reWild Wild
  rw [searchFrom_iff]
  constructor
  · rintro ⟨a, r, h, ha, hr⟩
    obtain ⟨w, m, b, hb, hw, hc, hs⟩ := (wildAt_iff K t r).1 hr
    exact ⟨a, w, m, b, by simp [h, hb], (endsSep_iff K a).2 ha, hw, hc, hs⟩
  · rintro ⟨a, w, m, b, h, ha, hw, hc, hs⟩
    exact ⟨a, w ++ m ++ b, by simp [h], (endsSep_iff K a).1 ha,
      (wildAt_iff K t _).2 ⟨w, m, b, rfl, hw, hc, hs⟩⟩

theorem matchesRegex_iff (q : Query Ch) (p : List Ch) : matchesRegex K q p = true ↔ MatchesSpec K q p := by
  simp only [matchesRegex, MatchesSpec, Bool.and_eq_true, List.all_eq_true, reIncl_iff, reWild_iff,
    Bool.not_eq_true', ← Bool.not_eq_true, and_assoc]

/-! ### splitting into runs -/

theorem runsAux_append_sep (keep : Ch → Bool) (cur a : List Ch) (c : Ch) (b : List Ch) (hc : keep c = false) :
    runsAux keep cur (a ++ c :: b) = runsAux keep cur a ++ runsAux keep [] b := by
  induction a generalizing cur with
  | nil =>
    simp only [List.nil_append, runsAux, hc, Bool.false_eq_true, if_false]
    split <;> simp
  | cons x a ih =>
    simp only [List.cons_append, runsAux]
    split
    · exact ih _
    · split
      · exact ih _
      · simp [ih]

theorem runsAux_all (keep : Ch → Bool) (cur a b : List Ch) (ha : ∀ c ∈ a, keep c = true) :
    runsAux keep cur (a ++ b) = runsAux keep (cur ++ a) b := by
  induction a generalizing cur with
  | nil => simp
  | cons x a ih =>
    have hx : keep x = true := ha x (List.mem_cons_self)
    simp only [List.cons_append, runsAux, hx, if_true]
    rw [ih _ (fun c hc => ha c (List.mem_cons_of_mem _ hc))]
    simp

theorem words_nil : words K ([] : List Ch) = [] := by simp [words, runsAux]

theorem words_append_left (a b : List Ch) (ha : EndsSep K a) : words K (a ++ b) = words K a ++ words K b := by
  rcases ha with rfl | ⟨a', c, rfl, hc⟩
  · simp [words_nil]
  · have h1 : words K (a' ++ [c] ++ b) = words K a' ++ words K b := by
      simpa [words] using runsAux_append_sep K.isWord [] a' c b hc
    have h2 : words K (a' ++ [c]) = words K a' := by
      have := runsAux_append_sep K.isWord [] a' c [] hc
      simpa [words, runsAux] using this
    rw [h1, h2]

theorem words_append_right (a b : List Ch) (hb : StartsSep K b) : words K (a ++ b) = words K a ++ words K b := by
  rcases hb with rfl | ⟨c, b', rfl, hc⟩
  · simp [words_nil]
  · have h1 : words K (a ++ c :: b') = words K a ++ words K b' := by
      simpa [words] using runsAux_append_sep K.isWord [] a c b' hc
    have h2 : words K (c :: b') = words K b' := by
      simp [words, runsAux, hc]
    rw [h1, h2]

theorem words_allword (u : List Ch) (hne : u ≠ []) (hu : ∀ c ∈ u, K.isWord c = true) : words K u = [u] := by
  have := runsAux_all K.isWord [] u [] hu
  simp only [List.append_nil, List.nil_append] at this
  simp [words, this, runsAux, hne]

theorem runsAux_ne_nil (keep : Ch → Bool) (cur t : List Ch) (h : cur ≠ [] ∨ t.any keep = true) :
    runsAux keep cur t ≠ [] := by
  induction t generalizing cur with
  | nil =>
    rcases h with h | h
    · simp [runsAux, h]
    · simp at h
  | cons c s ih =>
    simp only [runsAux]
    split
    · exact ih _ (Or.inl (by simp))
    · rename_i hc
      split
      · rename_i hcur
        apply ih
        rcases h with h | h
        · simp at hcur; exact absurd hcur h
        · right; simpa [hc] using h
      · simp

theorem startsSep_dropWhile (l : List Ch) : StartsSep K (l.dropWhile K.isWord) := by
  induction l with
  | nil => exact Or.inl rfl
  | cons c l ih =>
    by_cases hc : K.isWord c = true
    · simpa [List.dropWhile, hc] using ih
    · have hc' : K.isWord c = false := by simpa using hc
      right
      exact ⟨c, l, by simp [List.dropWhile, hc'], hc'⟩

theorem startsSep_append (a b : List Ch) (ha : StartsSep K a) (hb : StartsSep K b) : StartsSep K (a ++ b) := by
  rcases ha with rfl | ⟨c, a', rfl, hc⟩
  · simpa using hb
  · exact Or.inr ⟨c, a' ++ b, rfl, hc⟩

theorem mem_takeWhile_word (l : List Ch) : ∀ c ∈ l.takeWhile K.isWord, K.isWord c = true := by
  induction l with
  | nil => simp
  | cons x l ih =>
    by_cases hx : K.isWord x = true
    · simp only [List.takeWhile, hx]
      intro c hc
      rcases List.mem_cons.1 hc with rfl | hc
      · exact hx
      · exact ih c hc
    · have hx' : K.isWord x = false := by simpa using hx
      simp [List.takeWhile, hx']

/-- a wildcard term that starts with a word character: its first sub-term and the rest -/
theorem wildFirst_some (t s : List Ch) (h : wildFirst K t = some s) :
    s ≠ [] ∧ (∀ c ∈ s, K.isWord c = true) ∧ t = s ++ t.dropWhile K.isWord ∧ wildRest K t = words K (t.dropWhile K.isWord) := by
  cases t with
  | nil => simp [wildFirst] at h
  | cons c t =>
    simp only [wildFirst] at h
    split at h
    · rename_i hc
      have hs : s = (c :: t).takeWhile K.isWord := by simpa using h.symm
      subst hs
      refine ⟨by simp [List.takeWhile, hc], mem_takeWhile_word K _, (List.takeWhile_append_dropWhile).symm, ?_⟩
      simp [wildRest, wildFirst, hc]
    · simp at h

theorem wildFirst_none (t : List Ch) (h : wildFirst K t = none) : StartsSep K t ∧ wildRest K t = words K t := by
  cases t with
  | nil => exact ⟨Or.inl rfl, by simp [wildRest, wildFirst]⟩
  | cons c t =>
    simp only [wildFirst] at h
    split at h
    · simp at h
    · rename_i hc
      have hc' : K.isWord c = false := by simpa using hc
      exact ⟨Or.inr ⟨c, t, rfl, hc'⟩, by simp [wildRest, wildFirst, hc']⟩

/-! ### a matching path has the words the prefilter looks up -/

theorem endsSep_map (hK : K.Lawful) (a : List Ch) (h : EndsSep K a) : EndsSep K (a.map K.fold) := by
  rcases h with rfl | ⟨a', c, rfl, hc⟩
  · exact Or.inl rfl
  · exact Or.inr ⟨a'.map K.fold, K.fold c, by simp, by rw [hK.word_fold]; exact hc⟩

theorem startsSep_map (hK : K.Lawful) (b : List Ch) (h : StartsSep K b) : StartsSep K (b.map K.fold) := by
  rcases h with rfl | ⟨c, b', rfl, hc⟩
  · exact Or.inl rfl
  · exact Or.inr ⟨K.fold c, b'.map K.fold, by simp, by rw [hK.word_fold]; exact hc⟩

/-- include term: every sub-term is a word of the lower-cased path -/
theorem incl_words (hK : K.Lawful) (t p : List Ch) (ht : t.map K.fold = t) (h : Incl K t p) :
    ∀ x ∈ words K t, x ∈ pathWords K p := by
  obtain ⟨a, m, b, rfl, ha, hc, hb⟩ := h
  intro x hx
  have hc' : m.map K.fold = t := by rw [← ht]; exact hc
  simp only [pathWords, List.map_append, hc']
  rw [List.append_assoc, words_append_left K _ _ (endsSep_map K hK a ha),
    words_append_right K _ _ (startsSep_map K hK b hb)]
  simp [hx]

/-- wildcard term: some word of the lower-cased path ends with the first sub-term, the other
sub-terms are words of the path -/
theorem wild_words (hK : K.Lawful) (t p : List Ch) (ht : t.map K.fold = t) (h : Wild K t p) :
    (∀ s, wildFirst K t = some s → ∃ w ∈ pathWords K p, s <:+ w) ∧ (∀ x ∈ wildRest K t, x ∈ pathWords K p) := by
  obtain ⟨a, w, m, b, rfl, ha, hw, hc, hb⟩ := h
  have hc' : m.map K.fold = t := by rw [← ht]; exact hc
  have ha' := endsSep_map K hK a ha
  have hb' := startsSep_map K hK b hb
  have hw' : ∀ c ∈ w.map K.fold, K.isWord c = true := by
    intro c hcm
    obtain ⟨d, hd, rfl⟩ := List.mem_map.1 hcm
    rw [hK.word_fold]; exact hw d hd
  have hp : pathWords K (a ++ w ++ m ++ b) = words K (a.map K.fold ++ (w.map K.fold ++ (t ++ b.map K.fold))) := by
    simp [pathWords, hc']
  cases hf : wildFirst K t with
  | some s =>
    obtain ⟨hne, hsw, hts, hrest⟩ := wildFirst_some K t s hf
    have hsplit : a.map K.fold ++ (w.map K.fold ++ (t ++ b.map K.fold))
        = a.map K.fold ++ ((w.map K.fold ++ s) ++ (t.dropWhile K.isWord ++ b.map K.fold)) := by
      conv => lhs; rw [hts]
      simp
    have hsep : StartsSep K (t.dropWhile K.isWord ++ b.map K.fold) :=
      startsSep_append K _ _ (startsSep_dropWhile K t) hb'
    have hword : words K (w.map K.fold ++ s) = [w.map K.fold ++ s] := by
      apply words_allword
      · simp [hne]
      · intro c hcm
        rcases List.mem_append.1 hcm with h1 | h1
        · exact hw' c h1
        · exact hsw c h1
    have hall : pathWords K (a ++ w ++ m ++ b) = words K (a.map K.fold) ++ ([w.map K.fold ++ s] ++
        (words K (t.dropWhile K.isWord) ++ words K (b.map K.fold))) := by
      rw [hp, hsplit, words_append_left K _ _ ha', words_append_right K _ _ hsep, hword,
        words_append_right K _ _ hb']
    constructor
    · intro s' hs'
      have : s' = s := by simpa using hs'.symm
      subst this
      exact ⟨w.map K.fold ++ s', by rw [hall]; simp, List.suffix_append _ _⟩
    · intro x hx
      rw [hrest] at hx
      rw [hall]; simp [hx]
  | none =>
    obtain ⟨hst, hrest⟩ := wildFirst_none K t hf
    have hsep : StartsSep K (t ++ b.map K.fold) := startsSep_append K _ _ hst hb'
    have hall : pathWords K (a ++ w ++ m ++ b) = words K (a.map K.fold ++ w.map K.fold) ++
        (words K t ++ words K (b.map K.fold)) := by
      rw [hp, ← List.append_assoc, words_append_right K _ _ hsep, words_append_right K _ _ hb']
    constructor
    · intro s hs; simp at hs
    · intro x hx
      rw [hrest] at hx
      rw [hall]; simp [hx]

/-! ### term map look-ups -/

theorem mem_dedup {α : Type} [DecidableEq α] (x : α) (l : List α) : x ∈ dedup l ↔ x ∈ l := by
  induction l with
  | nil => simp [dedup]
  | cons y l ih =>
    simp only [dedup]
    split
    · rename_i hy
      rw [ih]
      constructor
      · exact List.mem_cons_of_mem _
      · intro h
        rcases List.mem_cons.1 h with rfl | h
        · exact hy
        · exact h
    · simp [ih]

theorem nodup_dedup {α : Type} [DecidableEq α] (l : List α) : (dedup l).Nodup := by
  induction l with
  | nil => simp [dedup]
  | cons y l ih =>
    simp only [dedup]
    split
    · exact ih
    · rename_i hy
      rw [List.nodup_cons]
      exact ⟨by rwa [mem_dedup], ih⟩

variable {I : Type} [DecidableEq I] (qp : I → List Ch)

theorem mem_keys (tm : List I) (w : List Ch) : w ∈ keys K qp tm ↔ ∃ it ∈ tm, w ∈ pathWords K (qp it) := by
  simp [keys, mem_dedup, List.mem_flatMap]

theorem mem_lookup (tm : List I) (w : List Ch) (it : I) :
    it ∈ lookup K qp tm w ↔ it ∈ tm ∧ w ∈ pathWords K (qp it) := by
  simp [lookup, List.mem_filter]

theorem mem_unionLookup (tm : List I) (ws : List (List Ch)) (it : I) :
    it ∈ unionLookup K qp tm ws ↔ it ∈ tm ∧ ∃ w ∈ ws, w ∈ pathWords K (qp it) := by
  simp [unionLookup, List.mem_filter]

theorem mem_matchingKeys (tm : List I) (s w : List Ch) :
    w ∈ matchingKeys K qp tm s ↔ w ∈ keys K qp tm ∧ s <:+ w := by
  simp [matchingKeys, List.mem_filter]

/-- the candidate sets of the prefilter -/
def candSets (tm : List I) (q : Query Ch) : List (List I) :=
  (exactTerms K q).map (lookup K qp tm) ++
    (suffixTerms K q).map (fun s => unionLookup K qp tm (matchingKeys K qp tm s))

theorem candSets_sublist (tm : List I) (q : Query Ch) : ∀ x ∈ candSets K qp tm q, x.Sublist tm := by
  intro x hx
  simp only [candSets, List.mem_append, List.mem_map] at hx
  rcases hx with ⟨w, _, rfl⟩ | ⟨s, _, rfl⟩
  · exact List.filter_sublist
  · exact List.filter_sublist

theorem prefilter_eq (tm : List I) (q : Query Ch) :
    prefilter K qp tm q =
      if (exactTerms K q).any (fun w => !(keys K qp tm).contains w) ||
          (suffixTerms K q).any (fun s => (matchingKeys K qp tm s).isEmpty) then []
      else match candSets K qp tm q with
        | [] => []
        | s :: ss => s.filter (fun it => ss.all (fun x => x.contains it)) := rfl

theorem prefilter_sublist (tm : List I) (q : Query Ch) : (prefilter K qp tm q).Sublist tm := by
  rw [prefilter_eq]
  split
  · exact List.nil_sublist _
  · have := candSets_sublist K qp tm q
    split
    · exact List.nil_sublist _
    · rename_i s ss heq
      exact (List.filter_sublist).trans (this s (by rw [heq]; exact List.mem_cons_self))

/-- Per-term well-formedness of what `parse` produces: every include / wildcard term has a word
character and is lower-cased. -/
def Query.WF (q : Query Ch) : Prop :=
  (∀ t ∈ q.incl, t.any K.isWord = true ∧ t.map K.fold = t) ∧
  (∀ t ∈ q.wild, t.any K.isWord = true ∧ t.map K.fold = t)

theorem words_ne_nil (t : List Ch) (h : t.any K.isWord = true) : words K t ≠ [] :=
  runsAux_ne_nil K.isWord [] t (Or.inr h)

theorem candSets_ne_nil (tm : List I) (q : Query Ch) (hq : q.WF K) (hi : q.hasInclusion = true) :
    candSets K qp tm q ≠ [] := by
  intro h
  simp only [candSets, List.append_eq_nil_iff, List.map_eq_nil_iff] at h
  obtain ⟨hex, hsf⟩ := h
  simp only [exactTerms, List.append_eq_nil_iff] at hex
  simp only [Query.hasInclusion, Bool.or_eq_true, Bool.not_eq_true', List.isEmpty_eq_false_iff] at hi
  rcases hi with hi | hi
  · obtain ⟨t, l, hl⟩ := List.exists_cons_of_ne_nil hi
    have ht : t ∈ q.incl := by rw [hl]; exact List.mem_cons_self
    have h1 : words K t = [] := by
      have := hex.1
      rw [List.flatMap_eq_nil_iff] at this
      exact this t ht
    exact words_ne_nil K t (hq.1 t ht).1 h1
  · obtain ⟨t, l, hl⟩ := List.exists_cons_of_ne_nil hi
    have ht : t ∈ q.wild := by rw [hl]; exact List.mem_cons_self
    cases hf : wildFirst K t with
    | some s =>
      have : s ∈ suffixTerms K q := by
        simp only [suffixTerms, List.mem_filterMap]
        exact ⟨t, ht, hf⟩
      rw [hsf] at this
      simp at this
    | none =>
      have h1 : wildRest K t = [] := by
        have := hex.2
        rw [List.flatMap_eq_nil_iff] at this
        exact this t ht
      rw [(wildFirst_none K t hf).2] at h1
      exact words_ne_nil K t (hq.2 t ht).1 h1

/-- **Completeness of the term-map prefilter** -/
theorem mem_prefilter (hK : K.Lawful) (tm : List I) (q : Query Ch) (hq : q.WF K)
    (hi : q.hasInclusion = true) (it : I) (hit : it ∈ tm) (hm : MatchesSpec K q (qp it)) :
    it ∈ prefilter K qp tm q := by
  have hE : ∀ x ∈ exactTerms K q, x ∈ pathWords K (qp it) := by
    intro x hx
    simp only [exactTerms, List.mem_append, List.mem_flatMap] at hx
    rcases hx with ⟨t, ht, hxt⟩ | ⟨t, ht, hxt⟩
    · exact incl_words K hK t _ (hq.1 t ht).2 (hm.1 t ht) x hxt
    · exact (wild_words K hK t _ (hq.2 t ht).2 (hm.2.1 t ht)).2 x hxt
  have hS : ∀ s ∈ suffixTerms K q, ∃ w ∈ pathWords K (qp it), s <:+ w := by
    intro s hs
    simp only [suffixTerms, List.mem_filterMap] at hs
    obtain ⟨t, ht, hts⟩ := hs
    exact (wild_words K hK t _ (hq.2 t ht).2 (hm.2.1 t ht)).1 s hts
  have hall : ∀ x ∈ candSets K qp tm q, it ∈ x := by
    intro x hx
    simp only [candSets, List.mem_append, List.mem_map] at hx
    rcases hx with ⟨w, hw, rfl⟩ | ⟨s, hs, rfl⟩
    · exact (mem_lookup K qp tm w it).2 ⟨hit, hE w hw⟩
    · obtain ⟨w, hw, hsw⟩ := hS s hs
      exact (mem_unionLookup K qp tm _ it).2 ⟨hit, w,
        (mem_matchingKeys K qp tm s w).2 ⟨(mem_keys K qp tm w).2 ⟨it, hit, hw⟩, hsw⟩, hw⟩
  rw [prefilter_eq]
  have hcond : ((exactTerms K q).any (fun w => !(keys K qp tm).contains w) ||
      (suffixTerms K q).any (fun s => (matchingKeys K qp tm s).isEmpty)) = false := by
    rw [Bool.or_eq_false_iff]
    constructor
    · rw [List.any_eq_false]
      intro w hw
      have : w ∈ keys K qp tm := (mem_keys K qp tm w).2 ⟨it, hit, hE w hw⟩
      simp [this]
    · rw [List.any_eq_false]
      intro s hs
      obtain ⟨w, hw, hsw⟩ := hS s hs
      have : w ∈ matchingKeys K qp tm s :=
        (mem_matchingKeys K qp tm s w).2 ⟨(mem_keys K qp tm w).2 ⟨it, hit, hw⟩, hsw⟩
      intro hemp
      rw [List.isEmpty_iff] at hemp
      rw [hemp] at this
      simp at this
  rw [hcond]
  simp only [Bool.false_eq_true, if_false]
  have hne := candSets_ne_nil K qp tm q hq hi
  split
  · rename_i heq; exact absurd heq hne
  · rename_i s ss heq
    rw [heq] at hall
    rw [List.mem_filter]
    refine ⟨hall s List.mem_cons_self, ?_⟩
    rw [List.all_eq_true]
    intro x hx
    simpa using hall x (List.mem_cons_of_mem _ hx)

/-! ### the cap loop -/

theorem keepLoop_eq (re extra : I → Bool) (cap : Nat) (l acc : List I) (hacc : acc.length < cap) :
    keepLoop re extra cap l acc = (acc ++ l.filter (fun it => re it && extra it)).take cap := by
  induction l generalizing acc with
  | nil => simp [keepLoop, List.take_of_length_le (Nat.le_of_lt hacc)]
  | cons it rest ih =>
    simp only [keepLoop]
    by_cases hre : re it = true
    · simp only [hre, if_true]
      by_cases hex : extra it = true
      · simp only [hex, if_true]
        have hfil : (it :: rest).filter (fun it => re it && extra it) = it :: rest.filter (fun it => re it && extra it) := by
          simp [List.filter, hre, hex]
        rw [hfil]
        split
        · rename_i hge
          have hlen : (acc ++ [it]).length = cap := by simp at hge ⊢; omega
          have : acc ++ it :: rest.filter (fun it => re it && extra it)
              = (acc ++ [it]) ++ rest.filter (fun it => re it && extra it) := by simp
          rw [this, ← hlen, List.take_left']
          rfl
        · rename_i hge
          rw [ih _ (by simp at hge ⊢; omega)]
          simp
      · have hex' : extra it = false := by simpa using hex
        simp only [hex', Bool.false_eq_true, if_false]
        have hfil : (it :: rest).filter (fun it => re it && extra it) = rest.filter (fun it => re it && extra it) := by
          simp [List.filter, hre, hex']
        rw [hfil]
        have : ¬ acc.length ≥ cap := by omega
        simp only [this, if_false]
        exact ih acc hacc
    · have hre' : re it = false := by simpa using hre
      have hfil : (it :: rest).filter (fun it => re it && extra it) = rest.filter (fun it => re it && extra it) := by
        simp [List.filter, hre']
      simp only [hre', Bool.false_eq_true, if_false, hfil]
      exact ih acc hacc

/-! ### what `parse` produces -/

theorem setAdd_mem {α : Type} [DecidableEq α] (l : List α) (x y : α) : y ∈ setAdd l x → y ∈ l ∨ y = x := by
  unfold setAdd
  split
  · exact Or.inl
  · intro h
    rcases List.mem_append.1 h with h | h
    · exact Or.inl h
    · exact Or.inr (by simpa using h)

theorem parseTerm_wf (hK : K.Lawful) (q : Query Ch) (term : List Ch) (hq : q.WF K) : (parseTerm K q term).WF K := by
  unfold parseTerm
  dsimp only
  split
  · exact hq
  · rename_i hany
    have hany' : (term.map K.fold).any K.isWord = true := by simpa using hany
    have hfold : ∀ l : List Ch, (l.map K.fold).map K.fold = l.map K.fold := by
      intro l; simp [hK.fold_idem]
    cases term with
    | nil => exact hq
    | cons c rest =>
      dsimp only
      have htail : c = K.star ∨ c = K.dash →
          ((List.map K.fold (c :: rest)).tail.any K.isWord = true ∧
            (List.map K.fold (c :: rest)).tail.map K.fold = (List.map K.fold (c :: rest)).tail) := by
        intro hc
        have hcw : K.isWord (K.fold c) = false := by
          rw [hK.word_fold]
          rcases hc with rfl | rfl
          · exact hK.star_nonword
          · exact hK.dash_nonword
        constructor
        · simpa [hcw] using hany'
        · simpa using hfold rest
      split
      · rename_i hc
        refine ⟨hq.1, ?_⟩
        intro t ht
        rcases setAdd_mem _ _ _ ht with h | rfl
        · exact hq.2 t h
        · exact htail (Or.inl hc)
      · split
        · rename_i hc
          exact ⟨hq.1, hq.2⟩
        · refine ⟨?_, hq.2⟩
          intro t ht
          rcases setAdd_mem _ _ _ ht with h | rfl
          · exact hq.1 t h
          · exact ⟨hany', hfold _⟩

theorem parse_wf (hK : K.Lawful) (s : List Ch) : (parse K s).WF K := by
  unfold parse
  have : ∀ (ts : List (List Ch)) (q : Query Ch), q.WF K → (ts.foldl (parseTerm K) q).WF K := by
    intro ts
    induction ts with
    | nil => intro q h; exact h
    | cons t ts ih => intro q h; exact ih _ (parseTerm_wf K hK q t h)
  exact this _ _ ⟨by simp, by simp⟩

end
end AioslskVerif.Query
