import AioslskVerif.Spec.Rooms
/-!
Helper lemmas for C19: association lists, list-backed sets, `withRoom` / `withUser` against the
extensional specification, the `JoinRoom` loop, the `RoomList` passes, the no-duplicates invariant.
-/
namespace AioslskVerif.Rooms
open Spec

/-! ## association lists -/
namespace AL
variable {α β : Type}

theorem find_set (k k' : Nat) (v : α) (l : List (Nat × α)) :
    find k' (set k v l) = if k' = k then some v else find k' l := by
  induction l with
  | nil => grind [set, find]
  | cons p t ih => grind [set, find]

theorem find_filter (q : Nat → Bool) (k : Nat) (l : List (Nat × α)) :
    find k (l.filter (fun p => q p.1)) = if q k then find k l else none := by
  induction l with
  | nil => simp [find]
  | cons p t ih =>
    obtain ⟨a, b⟩ := p
    simp only [List.filter]
    by_cases h : a = k
    · subst h
      cases hq : q a <;> simp_all [find]
    · cases hq : q a <;> simp_all [find]

theorem find_erase (k k' : Nat) (l : List (Nat × α)) :
    find k' (erase k l) = if k' = k then none else find k' l := by
  unfold erase
  rw [find_filter (fun a => a != k)]
  by_cases h : k' = k <;> simp [h]

theorem find_map (F : Nat × α → β) (k : Nat) (l : List (Nat × α)) :
    find k (l.map (fun p => (p.1, F p))) = (find k l).map (fun x => F (k, x)) := by
  induction l with
  | nil => simp [find]
  | cons p t ih =>
    obtain ⟨a, b⟩ := p
    simp only [List.map, find, ih]
    split <;> simp_all

theorem mem_of_find {k : Nat} {v : α} {l : List (Nat × α)} (h : find k l = some v) : (k, v) ∈ l := by
  induction l with
  | nil => simp [find] at h
  | cons p t ih =>
    obtain ⟨a, b⟩ := p
    simp only [find] at h
    split at h
    · simp_all
    · simp [ih h]

theorem mem_set {k : Nat} {v : α} {l : List (Nat × α)} {p : Nat × α} (h : p ∈ set k v l) : p = (k, v) ∨ p ∈ l := by
  induction l with
  | nil => simp_all [set]
  | cons q t ih =>
    obtain ⟨a, b⟩ := q
    simp only [set] at h
    split at h
    · simp only [List.mem_cons] at h ⊢; rcases h with h | h <;> simp [h]
    · simp only [List.mem_cons] at h ⊢
      rcases h with h | h
      · simp [h]
      · rcases ih h with h | h <;> simp [h]

end AL

/-! ## list-backed sets -/

@[simp] theorem contains_sadd (u v : Nat) (l : List Nat) : (sadd u l).contains v = (v == u || l.contains v) := by
  unfold sadd
  grind

@[simp] theorem contains_sdiscard (u v : Nat) (l : List Nat) : (sdiscard u l).contains v = (v != u && l.contains v) := by
  unfold sdiscard
  rw [Bool.eq_iff_iff]
  simp [List.mem_filter, and_comm]

theorem sadd_sadd (u : Nat) (l : List Nat) : sadd u (sadd u l) = sadd u l := by
  unfold sadd
  split <;> simp_all

/-! ## the view of `withRoom` / `withUser` -/

@[simp] theorem mem_sadd (u v : Nat) (l : List Nat) : v ∈ sadd u l ↔ v = u ∨ v ∈ l := by
  unfold sadd; grind
@[simp] theorem mem_sdiscard (u v : Nat) (l : List Nat) : v ∈ sdiscard u l ↔ v ≠ u ∧ v ∈ l := by
  unfold sdiscard; simp [List.mem_filter, and_comm]

theorem state_ext {a b : Spec.State} (h1 : a.room = b.room) (h2 : a.user = b.user) (h3 : a.timeLeft = b.timeLeft) :
    a = b := by
  cases a; cases b; simp_all

theorem room_ext {a b : Spec.Room} (h1 : a.joined = b.joined) (h2 : a.priv = b.priv) (h3 : a.users = b.users)
    (h4 : a.owner = b.owner) (h5 : a.members = b.members) (h6 : a.operators = b.operators)
    (h7 : a.tickers = b.tickers) : a = b := by
  cases a; cases b; simp_all

def State.getRoom (s : State) (r : Nat) (p : Bool) : Room := (AL.find r s.rooms).getD (Room.new p)

def Spec.State.setRoom (σ : Spec.State) (r : Nat) (x : Spec.Room) : Spec.State :=
  { σ with room := fun r' => if r' = r then some x else σ.room r' }

theorem roomView_new (p : Bool) : roomView (Room.new p) = Spec.Room.new p := by
  simp [roomView, Room.new, Spec.Room.new, AL.find]

theorem view_room_getD (s : State) (r : Nat) (p : Bool) :
    ((view s).room r).getD (Spec.Room.new p) = roomView (s.getRoom r p) := by
  unfold view State.getRoom
  cases h : AL.find r s.rooms <;> simp [h, roomView_new]

theorem withRoom_eq (s : State) (r : Nat) (p : Bool) (f : Room → Room) :
    s.withRoom r p f = { s with rooms := AL.set r (f (s.getRoom r p)) s.rooms } := rfl

theorem view_withRoom (s : State) (r : Nat) (p : Bool) (f : Room → Room) :
    view (s.withRoom r p f) = (view s).setRoom r (roomView (f (s.getRoom r p))) := by
  apply state_ext
  · funext r'
    simp only [view, withRoom_eq, Spec.State.setRoom, AL.find_set, State.getUser]
    split <;> simp
  · rfl
  · rfl

theorem touch_eq (σ : Spec.State) (r : Nat) (p : Bool) (g : Spec.Room → Spec.Room) :
    σ.touch r p g = σ.setRoom r (g ((σ.room r).getD (Spec.Room.new p))) := rfl

theorem view_withRoom_touch (s : State) (r : Nat) (p : Bool) (f : Room → Room) (g : Spec.Room → Spec.Room)
    (h : roomView (f (s.getRoom r p)) = g (roomView (s.getRoom r p))) :
    view (s.withRoom r p f) = (view s).touch r p g := by
  rw [view_withRoom, touch_eq, view_room_getD, h]

theorem touch_touch (σ : Spec.State) (r : Nat) (p p' : Bool) (g g' : Spec.Room → Spec.Room) :
    (σ.touch r p g).touch r p' g' = σ.touch r p (fun x => g' (g x)) := by
  apply state_ext
  · funext r'
    simp only [Spec.State.touch]
    split <;> simp
  · rfl
  · rfl

theorem getUser_withUser (s : State) (u u' : Nat) (f : User → User) :
    (s.withUser u f).getUser u' = if u' = u then f (s.getUser u) else s.getUser u' := by
  unfold State.getUser
  have h : (s.withUser u f).newUser u' = s.newUser u' := rfl
  rw [h]
  simp only [State.withUser, AL.find_set]
  split <;> simp_all [State.getUser]

theorem view_withUser (s : State) (u : Nat) (f : User → User) :
    view (s.withUser u f) = (view s).upd u f := by
  apply state_ext
  · rfl
  · funext u'
    simp only [view, Spec.State.upd, getUser_withUser]
  · rfl

theorem upd_id (σ : Spec.State) (u : Nat) : σ.upd u id = σ := by
  apply state_ext
  · rfl
  · funext u'; simp only [Spec.State.upd]; split <;> simp_all
  · rfl

@[simp] theorem view_touchUser (s : State) (u : Nat) : view (s.touchUser u) = view s := by
  rw [State.touchUser, view_withUser, upd_id]

@[simp] theorem getRoom_touchUser (s : State) (u r : Nat) (p : Bool) : (s.touchUser u).getRoom r p = s.getRoom r p := rfl
@[simp] theorem getRoom_withUser (s : State) (u r : Nat) (p : Bool) (f : User → User) :
    (s.withUser u f).getRoom r p = s.getRoom r p := rfl

theorem touch_id_touch (σ : Spec.State) (r : Nat) (p p' : Bool) (g' : Spec.Room → Spec.Room) :
    (σ.touch r p id).touch r p' g' = σ.touch r p g' := by
  rw [touch_touch]; rfl

/-- handlers that do `get_or_create_room` and mutate the room in a way that commutes with the view -/
theorem view_withRoom_gen (s : State) (r : Nat) (p : Bool) (f : Room → Room) (g : Spec.Room → Spec.Room)
    (h : ∀ x, roomView (f x) = g (roomView x)) :
    view (s.withRoom r p f) = (view s).touch r p g := view_withRoom_touch s r p f g (h _)


/-! ## shapes the room handlers come in -/

theorem view_room1 (s : State) (r : Nat) (p : Bool) (f : Room → Room) (g : Spec.Room → Spec.Room)
    (h : ∀ x, roomView (f x) = g (roomView x)) :
    view (s.withRoom r p f) = (view s).touch r p g := view_withRoom_gen s r p f g h

theorem view_room2 (s : State) (r u : Nat) (p : Bool) (f : Room → Room) (g : Spec.Room → Spec.Room)
    (h : ∀ x, roomView (f x) = g (roomView x)) :
    view ((s.touchUser u).withRoom r p f) = (view s).touch r p g := by
  rw [view_withRoom_gen _ r p f g h, view_touchUser]

theorem view_room3 (s : State) (r u : Nat) (p : Bool) (f : Room → Room) (g : Spec.Room → Spec.Room)
    (h : ∀ x, roomView (f x) = g (roomView x)) :
    view (((s.withRoom r p id).touchUser u).withRoom r p f) = (view s).touch r p g := by
  rw [view_withRoom_gen _ r p f g h, view_touchUser, view_withRoom_gen _ r p id id (fun _ => rfl), touch_id_touch]

theorem view_room_id (s : State) (r : Nat) (p : Bool) : view (s.withRoom r p id) = (view s).touch r p id :=
  view_withRoom_gen s r p id id (fun _ => rfl)

/-- closes `roomView (f x) = g (roomView x)` for the field-wise mutations -/
macro "room_side" : tactic =>
  `(tactic| (intro x; apply room_ext <;> (try rfl) <;>
      (funext v; simp [roomView, ins, del, ofList, AL.find_set, AL.find_erase] <;> try grind)))

theorem view_touchFold (s : State) (us : List Nat) : view (us.foldl (fun s u => s.touchUser u) s) = view s := by
  induction us generalizing s with
  | nil => rfl
  | cons a t ih => simp only [List.foldl, ih, view_touchUser]

theorem view_touchFold' (s : State) (ts : List (Nat × Nat)) : view (ts.foldl (fun s p => s.touchUser p.1) s) = view s := by
  induction ts generalizing s with
  | nil => rfl
  | cons a t ih => simp only [List.foldl, ih, view_touchUser]

theorem rooms_touchFold (s : State) (us : List Nat) : (us.foldl (fun s u => s.touchUser u) s).rooms = s.rooms := by
  induction us generalizing s with
  | nil => rfl
  | cons a t ih => simp only [List.foldl, ih]; rfl

theorem rooms_touchFold' (s : State) (ts : List (Nat × Nat)) : (ts.foldl (fun s p => s.touchUser p.1) s).rooms = s.rooms := by
  induction ts generalizing s with
  | nil => rfl
  | cons a t ih => simp only [List.foldl, ih]; rfl

/-- `dict` built from a list: the last entry for a key wins -/
theorem find_foldl_set (ts : List (Nat × Nat)) (d : List (Nat × Nat)) (u : Nat) :
    AL.find u (ts.foldl (fun d p => AL.set p.1 p.2 d) d) = (AL.find u ts.reverse).or (AL.find u d) := by
  induction ts generalizing d with
  | nil => simp [AL.find]
  | cons a t ih =>
    obtain ⟨k, v⟩ := a
    simp only [List.foldl, ih, AL.find_set, List.reverse_cons]
    have happ : ∀ (l1 l2 : List (Nat × Nat)), AL.find u (l1 ++ l2) = (AL.find u l1).or (AL.find u l2) := by
      intro l1 l2
      induction l1 with
      | nil => simp [AL.find]
      | cons b t2 ih2 => obtain ⟨k2, v2⟩ := b; simp only [List.cons_append, AL.find, ih2]; split <;> simp
    rw [happ]
    simp only [AL.find]
    clear ih happ
    by_cases h : k = u
    · subst h; cases AL.find k t.reverse <;> simp
    · have h' : ¬ u = k := fun e => h e.symm
      cases AL.find u t.reverse <;> simp [h, h']

/-! ## the simple handlers -/
section
variable (env : Env) (s : State)

theorem hv_roomChat (r u t : Nat) : view (handle env s (.roomChat r u t)).st = Spec.apply env (view s) (.roomChat r u t) := by
  simp only [handle, Spec.apply]
  split
  · rfl
  · exact view_room2 _ _ _ _ _ _ (fun _ => rfl)

theorem hv_publicChat (r u t : Nat) : view (handle env s (.publicChat r u t)).st = Spec.apply env (view s) (.publicChat r u t) := by
  simp only [handle, Spec.apply]
  split
  · rfl
  · rw [view_touchUser]; exact view_room_id _ _ _

theorem hv_leaveRoom (r : Nat) : view (handle env s (.leaveRoom r)).st = Spec.apply env (view s) (.leaveRoom r) := by
  simp only [handle, Spec.apply]
  apply view_room1; room_side

theorem hv_tickers (r : Nat) (ts : List (Nat × Nat)) : view (handle env s (.tickers r ts)).st = Spec.apply env (view s) (.tickers r ts) := by
  simp only [handle, Spec.apply]
  rw [view_room1 _ r false _ (fun x => { x with tickers := lastFor ts }), view_touchFold']
  intro x; apply room_ext <;> try rfl
  funext v; simp [roomView, lastFor, find_foldl_set, AL.find]

theorem hv_tickerAdded (r u t : Nat) : view (handle env s (.tickerAdded r u t)).st = Spec.apply env (view s) (.tickerAdded r u t) := by
  simp only [handle, Spec.apply]
  apply view_room3; room_side

theorem hv_tickerRemoved (r u : Nat) : view (handle env s (.tickerRemoved r u)).st = Spec.apply env (view s) (.tickerRemoved r u) := by
  simp only [handle, Spec.apply]
  apply view_room3; room_side

theorem hv_grantMembership (r u : Nat) : view (handle env s (.grantMembership r u)).st = Spec.apply env (view s) (.grantMembership r u) := by
  simp only [handle, Spec.apply]
  apply view_room3; room_side

theorem hv_membershipGranted (r : Nat) : view (handle env s (.membershipGranted r)).st = Spec.apply env (view s) (.membershipGranted r) := by
  simp only [handle, Spec.apply]
  apply view_room3; room_side

theorem hv_revokeMembership (r u : Nat) : view (handle env s (.revokeMembership r u)).st = Spec.apply env (view s) (.revokeMembership r u) := by
  simp only [handle, Spec.apply]
  apply view_room3; room_side

theorem hv_membershipRevoked (r : Nat) : view (handle env s (.membershipRevoked r)).st = Spec.apply env (view s) (.membershipRevoked r) := by
  simp only [handle, Spec.apply]
  apply view_room3; room_side

theorem hv_members (r : Nat) (us : List Nat) : view (handle env s (.members r us)).st = Spec.apply env (view s) (.members r us) := by
  simp only [handle, Spec.apply]
  rw [view_touchFold]
  apply view_room1; room_side

theorem hv_operators (r : Nat) (us : List Nat) : view (handle env s (.operators r us)).st = Spec.apply env (view s) (.operators r us) := by
  simp only [handle, Spec.apply]
  rw [view_touchFold]
  apply view_room1; room_side

theorem hv_operatorGranted (r : Nat) : view (handle env s (.operatorGranted r)).st = Spec.apply env (view s) (.operatorGranted r) := by
  simp only [handle, Spec.apply]
  apply view_room3; room_side

theorem hv_operatorRevoked (r : Nat) : view (handle env s (.operatorRevoked r)).st = Spec.apply env (view s) (.operatorRevoked r) := by
  simp only [handle, Spec.apply]
  apply view_room3; room_side

theorem hv_grantOperator (r u : Nat) : view (handle env s (.grantOperator r u)).st = Spec.apply env (view s) (.grantOperator r u) := by
  simp only [handle, Spec.apply]
  apply view_room2; room_side

theorem hv_revokeOperator (r u : Nat) : view (handle env s (.revokeOperator r u)).st = Spec.apply env (view s) (.revokeOperator r u) := by
  simp only [handle, Spec.apply]
  apply view_room2; room_side

end

/-! ## user handlers -/
section
variable (env : Env) (s : State)

theorem touch_upd (σ : Spec.State) (r u : Nat) (p : Bool) (g : Spec.Room → Spec.Room) (h : User → User) :
    ((σ.upd u h).touch r p g) = ((σ.touch r p g).upd u h) := rfl

theorem hv_addPrivileged (u : Nat) : view (handle env s (.addPrivileged u)).st = Spec.apply env (view s) (.addPrivileged u) := by
  simp only [handle, Spec.apply, view_withUser]
  -- the user is also added to the privileged set: that changes what a not-yet-created object of `u` would look
  -- like (privileged — which the update sets anyway) and nothing for any other user
  apply state_ext
  · rfl
  · funext v
    simp only [Spec.State.upd, view, State.getUser, State.newUser]
    by_cases hv : v = u
    · subst hv
      simp only [if_true]
      cases AL.find v s.users <;> simp
    · simp only [hv, if_false]
      cases AL.find v s.users with
      | some x => rfl
      | none => simp [hv]
  · rfl

theorem hv_userStats (u : Nat) (k : Stats) : view (handle env s (.userStats u k)).st = Spec.apply env (view s) (.userStats u k) := by
  simp only [handle, Spec.apply, view_withUser]

theorem hv_peerSearch (u : Nat) (f : Bool) (a b : Nat) : view (handle env s (.peerSearch u f a b)).st = Spec.apply env (view s) (.peerSearch u f a b) := by
  simp only [handle, Spec.apply, view_withUser]

theorem hv_userStatus (u st : Nat) (pv : Bool) (h : (Msg.userStatus u st pv).WF = true) :
    view (handle env s (.userStatus u st pv)).st = Spec.apply env (view s) (.userStatus u st pv) := by
  simp only [Msg.WF] at h
  simp only [handle, Spec.apply, h, Bool.not_true, Bool.false_eq_true, if_false, view_withUser]

theorem hv_addUser (u : Nat) (ex : Bool) (st : Option Nat) (k : Option Stats) (c : Option Nat)
    (h : (Msg.addUser u ex st k c).WF = true) :
    view (handle env s (.addUser u ex st k c)).st = Spec.apply env (view s) (.addUser u ex st k c) := by
  simp only [Msg.WF] at h
  simp only [handle, Spec.apply]
  cases ex
  · simp
  · cases st with
    | none => simp at h
    | some v =>
      simp only [Bool.not_true, Bool.false_or] at h
      have h1 : (!validStatus v) = false := by simp [h]
      simp only [Bool.not_true, Bool.false_eq_true, if_false, h1]
      exact view_withUser _ _ _

theorem hv_peerInfo (c : Option Nat) (d : Nat) (pic : Option Nat) (a b : Nat) (f : Bool) (pm : Option Nat)
    (h : (Msg.peerInfo c d pic a b f pm).WF = true) :
    view (handle env s (.peerInfo c d pic a b f pm)).st = Spec.apply env (view s) (.peerInfo c d pic a b f pm) := by
  simp only [Msg.WF] at h
  simp only [handle, Spec.apply]
  cases c with
  | none => rfl
  | some u =>
    cases pm with
    | none => simp only [view_withUser]
    | some p =>
      simp only at h
      simp only [h, Bool.not_true, Bool.false_eq_true, if_false, view_withUser]

theorem hv_privateChat (a b u t : Nat) (d : Bool) : view (handle env s (.privateChat a b u t d)).st = Spec.apply env (view s) (.privateChat a b u t d) := by
  simp only [handle, Spec.apply]
  split <;> simp

theorem getUser_privMap (us : List Nat) (u : Nat) :
    ({ s with users := s.users.map (fun p => (p.1, { p.2 with privileged := us.contains p.1 })), privSet := us } : State).getUser u
      = { s.getUser u with privileged := us.contains u } := by
  unfold State.getUser State.newUser
  simp only [AL.find_map]
  cases AL.find u s.users <;> simp

theorem hv_privilegedUsers (us : List Nat) : view (handle env s (.privilegedUsers us)).st = Spec.apply env (view s) (.privilegedUsers us) := by
  simp only [handle, Spec.apply, view_touchFold]
  apply state_ext
  · rfl
  · funext u
    exact getUser_privMap s us u
  · rfl

end

/-! ## no user is listed twice in a room -/

def UsersNodup (s : State) : Prop := ∀ p ∈ s.rooms, p.2.users.Nodup

theorem inv_init : UsersNodup {} := by intro p hp; simp at hp

theorem nodup_getRoom {s : State} (hs : UsersNodup s) (r : Nat) (p : Bool) : (s.getRoom r p).users.Nodup := by
  unfold State.getRoom
  cases h : AL.find r s.rooms with
  | none => simp [Room.new]
  | some x => exact hs _ (AL.mem_of_find h)

theorem inv_withRoom {s : State} (hs : UsersNodup s) (r : Nat) (p : Bool) (f : Room → Room)
    (hf : ∀ x, x.users.Nodup → (f x).users.Nodup) : UsersNodup (s.withRoom r p f) := by
  intro q hq
  rw [withRoom_eq] at hq
  rcases AL.mem_set hq with h | h
  · subst h; exact hf _ (nodup_getRoom hs r p)
  · exact hs _ h

theorem inv_withUser {s : State} (hs : UsersNodup s) (u : Nat) (f : User → User) : UsersNodup (s.withUser u f) := hs
theorem inv_touchUser {s : State} (hs : UsersNodup s) (u : Nat) : UsersNodup (s.touchUser u) := hs

theorem inv_of_rooms {s t : State} (hs : UsersNodup s) (h : t.rooms = s.rooms) : UsersNodup t := by
  intro p hp; rw [h] at hp; exact hs p hp

theorem nodup_addUser (x : Room) (u : Nat) (h : x.users.Nodup) : (x.addUser u).users.Nodup := by
  unfold Room.addUser
  split
  · exact h
  · rename_i hn
    simp only [List.nodup_append, h, true_and]
    simp
    intro a ha e; subst e; exact hn ha

theorem nodup_removeUser (x : Room) (u : Nat) (h : x.users.Nodup) : (x.removeUser u).users.Nodup := by
  unfold Room.removeUser
  exact h.erase u

theorem roomView_addUser (x : Room) (u : Nat) : roomView (x.addUser u) = { roomView x with users := ins u (roomView x).users } := by
  unfold Room.addUser
  split
  · rename_i h
    apply room_ext <;> try rfl
    funext v; simp [roomView, ins]; grind
  · apply room_ext <;> try rfl
    funext v; simp [roomView, ins]; grind

theorem roomView_removeUser (x : Room) (u : Nat) (h : x.users.Nodup) :
    roomView (x.removeUser u) = { roomView x with users := del u (roomView x).users } := by
  apply room_ext <;> try rfl
  funext v
  simp [roomView, del, Room.removeUser, h.mem_erase_iff]
  grind

section
variable (env : Env) (s : State)

theorem hv_userJoined (r u st : Nat) (k : Stats) (a b : Nat) (h : (Msg.userJoined r u st k a b).WF = true) :
    view (handle env s (.userJoined r u st k a b)).st = Spec.apply env (view s) (.userJoined r u st k a b) := by
  simp only [Msg.WF] at h
  simp only [handle, Spec.apply, h, Bool.not_true, Bool.false_eq_true, if_false]
  rw [view_room1 _ r false _ (fun x => { x with users := ins u x.users }) (fun x => roomView_addUser x u), view_withUser]

theorem hv_userLeft (hs : UsersNodup s) (r u : Nat) :
    view (handle env s (.userLeft r u)).st = Spec.apply env (view s) (.userLeft r u) := by
  simp only [handle, Spec.apply]
  rw [view_withRoom_touch _ r false _ (fun x => { x with users := del u x.users }), view_touchUser]
  exact roomView_removeUser _ u (nodup_getRoom (inv_touchUser hs u) r false)

end

/-! ## the `JoinRoom` loop -/

def joinStep (r : Nat) (s : State) (e : Entry) : State :=
  (s.withUser e.name e.apply).withRoom r false (·.addUser e.name)

theorem apply_apply (e e' : Entry) (x : User) : e'.apply (e.apply x) = e'.apply x := by
  simp [Entry.apply, User.withStats]

theorem view_joinStep (r : Nat) (s : State) (e : Entry) :
    view (joinStep r s e) = ((view s).upd e.name e.apply).touch r false (fun x => { x with users := ins e.name x.users }) := by
  unfold joinStep
  rw [view_room1 _ r false _ (fun x => { x with users := ins e.name x.users }) (fun x => roomView_addUser x e.name),
    view_withUser]

theorem known_joinStep (r : Nat) (s : State) (e : Entry) : (AL.find r (joinStep r s e).rooms).isSome := by
  simp [joinStep, withRoom_eq, AL.find_set]

theorem lastEntry_cons (e : Entry) (es : List Entry) (u : Nat) :
    lastEntry (e :: es) u = (lastEntry es u).or (if e.name == u then some e else none) := by
  simp only [lastEntry, List.reverse_cons, List.find?_append]
  congr 1
  simp only [List.find?]
  split <;> simp_all

theorem view_joinLoop (r : Nat) (es : List Entry) (s : State) (hk : (AL.find r s.rooms).isSome) :
    view (es.foldl (joinStep r) s) =
      { (view s).touch r false (fun x => { x with users := fun v => x.users v || (es.map (·.name)).contains v }) with
        user := fun u => (lastEntry es u).elim ((view s).user u) (fun e => e.apply ((view s).user u)) } := by
  induction es generalizing s with
  | nil =>
    apply state_ext
    · funext r'
      simp only [List.foldl, Spec.State.touch, List.map, List.contains_nil, Bool.or_false]
      split
      · rename_i h; subst h
        obtain ⟨x, hx⟩ := Option.isSome_iff_exists.mp hk
        simp [view, hx]
      · rfl
    · rfl
    · rfl
  | cons e es ih =>
    simp only [List.foldl]
    rw [ih _ (known_joinStep r s e), view_joinStep]
    apply state_ext
    · funext r'
      simp only [Spec.State.touch, Spec.State.upd]
      split
      · simp only [Option.some.injEq]
        apply room_ext <;> try rfl
        funext v
        simp [ins]
        grind
      · rfl
    · funext u
      simp only [Spec.State.touch, Spec.State.upd, lastEntry_cons]
      cases hl : lastEntry es u with
      | none =>
        by_cases hu : e.name = u
        · simp [hu]
        · have hu' : ¬ u = e.name := fun h => hu h.symm
          simp [hu, hu']
      | some e' =>
        by_cases hu : e.name = u
        · simp [hu, apply_apply]
        · have hu' : ¬ u = e.name := fun h => hu h.symm
          simp [hu']
    · rfl

theorem inv_joinLoop (r : Nat) (es : List Entry) (s : State) (hs : UsersNodup s) : UsersNodup (es.foldl (joinStep r) s) := by
  induction es generalizing s with
  | nil => exact hs
  | cons e es ih =>
    apply ih
    exact inv_withRoom (inv_withUser hs _ _) r false _ (fun x hx => nodup_addUser x e.name hx)

theorem takeWhile_all {α : Type} (p : α → Bool) (l : List α) (h : l.all p = true) : l.takeWhile p = l := by
  induction l with
  | nil => rfl
  | cons a t ih =>
    simp only [List.all_cons, Bool.and_eq_true] at h
    simp [List.takeWhile, h.1, ih h.2]

theorem hv_joinRoom (env : Env) (s : State) (r : Nat) (es : List Entry) (o : Option Nat) (ops : List Nat)
    (h : (Msg.joinRoom r es o ops).WF = true) :
    view (handle env s (.joinRoom r es o ops)).st = Spec.apply env (view s) (.joinRoom r es o ops) := by
  simp only [Msg.WF] at h
  simp only [handle, Spec.apply, takeWhile_all _ _ h, List.drop_length]
  show view ((es.foldl (joinStep r) _).withRoom r false _) = _
  rw [view_room1 _ r false _ (fun x => { x with owner := o, operators := ofList ops }),
    view_joinLoop _ _ _ (by simp [withRoom_eq, AL.find_set]),
    view_room1 _ r false _ (fun x => { x with joined := true, priv := o.isSome, users := fun _ => false })]
  · apply state_ext
    · funext r'
      simp only [Spec.State.touch]
      split
      · simp only [Option.some.injEq]
        apply room_ext <;> rfl
      · rfl
    · rfl
    · rfl
  · room_side
  · room_side

theorem inv_joinRoom (env : Env) (s : State) (hs : UsersNodup s) (r : Nat) (es : List Entry) (o : Option Nat) (ops : List Nat) :
    UsersNodup (handle env s (.joinRoom r es o ops)).st := by
  simp only [handle]
  have h1 : UsersNodup (List.foldl (joinStep r)
      (s.withRoom r false fun x => { x with joined := true, priv := o.isSome, users := [] })
      (es.takeWhile fun e => validStatus e.status)) :=
    inv_joinLoop _ _ _ (inv_withRoom hs _ _ _ (fun _ _ => List.nodup_nil))
  split
  · exact inv_touchUser h1 _
  · exact inv_withRoom h1 _ _ _ (fun _ hx => hx)


/-! ## the passes of `_on_room_list` -/

theorem rest_withRoomFold (l : List Nat) (p : Bool) (f : Room → Room) (s : State) :
    (l.foldl (fun s r => s.withRoom r p f) s).users = s.users ∧
    (l.foldl (fun s r => s.withRoom r p f) s).privSet = s.privSet ∧
    (l.foldl (fun s r => s.withRoom r p f) s).timeLeft = s.timeLeft := by
  induction l generalizing s with
  | nil => exact ⟨rfl, rfl, rfl⟩
  | cons a t ih => simp only [List.foldl]; exact ih _

theorem find_withRoomFold (l : List Nat) (p : Bool) (f : Room → Room) (hf : ∀ x, f (f x) = f x) (s : State) (r : Nat) :
    AL.find r (l.foldl (fun s r' => s.withRoom r' p f) s).rooms =
      if l.contains r then some (f ((AL.find r s.rooms).getD (Room.new p))) else AL.find r s.rooms := by
  induction l generalizing s with
  | nil => simp
  | cons a t ih =>
    simp only [List.foldl]
    rw [ih]
    simp only [withRoom_eq, AL.find_set, State.getRoom, List.contains_cons]
    by_cases h : r = a
    · subst h
      cases t.contains r <;> simp [hf]
    · have h' : (r == a) = false := by simp [h]
      simp [h, h']

theorem inv_withRoomFold (l : List Nat) (p : Bool) (f : Room → Room) (hf : ∀ x, x.users.Nodup → (f x).users.Nodup)
    (s : State) (hs : UsersNodup s) : UsersNodup (l.foldl (fun s r' => s.withRoom r' p f) s) := by
  induction l generalizing s with
  | nil => exact hs
  | cons a t ih => exact ih _ (inv_withRoom hs a p f hf)

theorem inv_roomList (env : Env) (s : State) (hs : UsersNodup s) (pub owned priv oper : List Nat) :
    UsersNodup (roomList env s pub owned priv oper) := by
  unfold roomList
  intro q hq
  simp only [List.mem_map, List.mem_filter] at hq
  obtain ⟨q0, ⟨hq0, _⟩, rfl⟩ := hq
  have h1 := inv_withRoomFold pub false id (fun _ h => h) s hs
  have h2 := inv_withRoomFold owned true (fun x => { x with owner := some env.me }) (fun _ h => h) _ h1
  have h3 := inv_withRoomFold priv true (fun x => { x with members := sadd env.me x.members }) (fun _ h => h) _ h2
  have h4 := inv_withRoomFold oper true (fun x => { x with operators := sadd env.me x.operators }) (fun _ h => h) _ h3
  exact h4 q0 hq0

theorem view_roomList (env : Env) (s : State) (pub owned priv oper : List Nat) :
    view (roomList env s pub owned priv oper) = Spec.apply env (view s) (.roomList pub owned priv oper) := by
  apply state_ext
  · funext r
    simp only [view, roomList, Spec.apply]
    rw [AL.find_map, AL.find_filter (fun k => pub.contains k || priv.contains k || owned.contains k)]
    rw [find_withRoomFold oper true (fun x => { x with operators := sadd env.me x.operators }) (fun x => by simp [sadd_sadd]),
      find_withRoomFold priv true (fun x => { x with members := sadd env.me x.members }) (fun x => by simp [sadd_sadd]),
      find_withRoomFold owned true (fun x => { x with owner := some env.me }) (fun x => rfl),
      find_withRoomFold pub false id (fun x => rfl)]
    obtain ⟨o, h0⟩ : ∃ o, AL.find r s.rooms = o := ⟨_, rfl⟩
    simp only [h0]
    cases hp : pub.contains r <;> cases ho : owned.contains r <;> cases hm : priv.contains r <;>
      cases hx : oper.contains r <;> cases o <;>
      simp [Room.new, Spec.Room.new, roomView, ins, del, AL.find, funext_iff] <;> (try grind)
  · funext u
    simp only [view, State.getUser, State.newUser, roomList, Spec.apply]
    simp only [rest_withRoomFold]
  · simp only [view, roomList, Spec.apply]
    simp only [rest_withRoomFold]


/-! ## every handler commutes with the view; every handler keeps the invariant -/

theorem handle_view (env : Env) (s : State) (hs : UsersNodup s) (m : Msg) (hm : m.WF = true) :
    view (handle env s m).st = Spec.apply env (view s) m := by
  cases m with
  | roomChat r u t => exact hv_roomChat env s r u t
  | publicChat r u t => exact hv_publicChat env s r u t
  | userJoined r u st k a b => exact hv_userJoined env s r u st k a b hm
  | userLeft r u => exact hv_userLeft env s hs r u
  | joinRoom r es o ops => exact hv_joinRoom env s r es o ops hm
  | leaveRoom r => exact hv_leaveRoom env s r
  | tickers r ts => exact hv_tickers env s r ts
  | tickerAdded r u t => exact hv_tickerAdded env s r u t
  | tickerRemoved r u => exact hv_tickerRemoved env s r u
  | toggleInvites e => rfl
  | grantMembership r u => exact hv_grantMembership env s r u
  | membershipGranted r => exact hv_membershipGranted env s r
  | revokeMembership r u => exact hv_revokeMembership env s r u
  | membershipRevoked r => exact hv_membershipRevoked env s r
  | members r us => exact hv_members env s r us
  | operators r us => exact hv_operators env s r us
  | operatorGranted r => exact hv_operatorGranted env s r
  | operatorRevoked r => exact hv_operatorRevoked env s r
  | grantOperator r u => exact hv_grantOperator env s r u
  | revokeOperator r u => exact hv_revokeOperator env s r u
  | roomList pub owned priv oper =>
    simp only [handle]
    rw [view_roomList, view_touchUser]
  | admin t => rfl
  | kicked => rfl
  | privateChat a b u t d => exact hv_privateChat env s a b u t d
  | checkPrivileges t => rfl
  | privilegedUsers us => exact hv_privilegedUsers env s us
  | addPrivileged u => exact hv_addPrivileged env s u
  | addUser u ex st k c => exact hv_addUser env s u ex st k c hm
  | userStatus u st pv => exact hv_userStatus env s u st pv hm
  | userStats u k => exact hv_userStats env s u k
  | peerInfo c d pic a b f pm => exact hv_peerInfo env s c d pic a b f pm hm
  | peerSearch u f a b => exact hv_peerSearch env s u f a b

theorem inv_touchFold {s : State} (us : List Nat) (hs : UsersNodup s) : UsersNodup (us.foldl (fun s u => s.touchUser u) s) :=
  inv_of_rooms hs (rooms_touchFold _ _)
theorem inv_touchFold' {s : State} (ts : List (Nat × Nat)) (hs : UsersNodup s) : UsersNodup (ts.foldl (fun s p => s.touchUser p.1) s) :=
  inv_of_rooms hs (rooms_touchFold' _ _)

theorem inv_room1 {s : State} {r : Nat} {p : Bool} {f : Room → Room} (hs : UsersNodup s)
    (hf : ∀ x, x.users.Nodup → (f x).users.Nodup) : UsersNodup (s.withRoom r p f) := inv_withRoom hs r p f hf
theorem inv_room3 {s : State} {r u : Nat} {p : Bool} {f : Room → Room} (hs : UsersNodup s)
    (hf : ∀ x, x.users.Nodup → (f x).users.Nodup) : UsersNodup (((s.withRoom r p id).touchUser u).withRoom r p f) :=
  inv_withRoom (inv_withRoom hs r p id (fun _ h => h)) r p f hf

macro "inv_side" : tactic =>
  `(tactic| first
    | exact fun _ h => h
    | exact fun _ h => nodup_addUser _ _ h
    | exact fun _ h => nodup_removeUser _ _ h
    | exact fun _ _ => List.nodup_nil)

theorem inv_handle (env : Env) (s : State) (hs : UsersNodup s) (m : Msg) : UsersNodup (handle env s m).st := by
  cases m with
  | joinRoom r es o ops => exact inv_joinRoom env s hs r es o ops
  | roomList pub owned priv oper => exact inv_roomList env _ (inv_touchUser hs _) _ _ _ _
  | privilegedUsers us => exact inv_of_rooms (t := (handle env s (.privilegedUsers us)).st) hs (rooms_touchFold _ _)
  | _ =>
    simp only [handle]
    (repeat' split) <;> first
      | exact hs
      | exact inv_room1 hs (by inv_side)
      | exact inv_room3 hs (by inv_side)
      | exact inv_touchFold _ (inv_room1 hs (by inv_side))
      | exact inv_room1 (inv_touchFold' _ hs) (by inv_side)


theorem inv_run (env : Env) (msgs : List Msg) : UsersNodup (run env msgs) := by
  unfold run
  suffices h : ∀ s, UsersNodup s → UsersNodup (msgs.foldl (fun s m => (handle env s m).st) s) from h {} inv_init
  induction msgs with
  | nil => intro s hs; exact hs
  | cons a t ih => intro s hs; exact ih _ (inv_handle env s hs a)

end AioslskVerif.Rooms
