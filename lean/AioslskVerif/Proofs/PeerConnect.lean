import AioslskVerif.Model.PeerConnect
/-!
Helper lemmas for C11.  The state space of one request is finite; `good` is the inductive invariant,
`tableOK` (decided by kernel evaluation over the complete enumeration of the states satisfying the first half of
`good` x `allOp`) says every step from a good state yields a good state, and that every good state satisfies the
post-conditions the property theorems state.
-/
namespace AioslskVerif.PeerConnect

def allBool : List Bool := [false, true]
def allMode : List Mode := [.fallback, .race]
def allDPh : List DPh :=
  [.addr, .nConnecting, .opening, .nConnectedOk, .nConnectedBad, .nInit, .fClosing, .fClosed, .cClosing, .cClosed,
   .ok, .failed, .cancelled]
def allIPh : List IPh := [.notStarted, .waiting, .ok, .failed, .cancelled, .wClosing, .wClosed]
def allAPh : List APh := [.none, .nConnected, .nInit, .nClosing, .nClosed]
def allDConn : List DConn := [.none, .connecting, .open]
def allRes : List Res := [.pending, .returnedD, .returnedI, .raised, .cancelled]
def allNote : List Note :=
  [.dConnecting, .dConnected, .dInit, .dClosing, .dClosed, .aConnected, .aInit, .aClosing, .aClosed, .wClosing, .wClosed]
def allOp : List Op :=
  [.addrReply .valid, .addrReply .noAddr, .addrReply .noPort, .connectOk true, .connectOk false, .connectRefused,
   .connectTimeout, .pierce false, .pierce true, .cannotConnect, .indirectTimeout, .cancelRequest, .probe] ++
  allNote.map .note

theorem mem_allBool (b : Bool) : b ∈ allBool := by cases b <;> decide
theorem mem_allMode (x : Mode) : x ∈ allMode := by cases x <;> decide
theorem mem_allDPh (x : DPh) : x ∈ allDPh := by cases x <;> decide
theorem mem_allIPh (x : IPh) : x ∈ allIPh := by cases x <;> decide
theorem mem_allAPh (x : APh) : x ∈ allAPh := by cases x <;> decide
theorem mem_allDConn (x : DConn) : x ∈ allDConn := by cases x <;> decide
theorem mem_allRes (x : Res) : x ∈ allRes := by cases x <;> decide
theorem mem_allNote (x : Note) : x ∈ allNote := by cases x <;> decide

theorem mem_allOp (op : Op) : op ∈ allOp := by
  cases op with
  | addrReply r => cases r <;> decide
  | connectOk b => cases b <;> decide
  | pierce b => cases b <;> decide
  | note n => cases n <;> decide
  | _ => decide

/-- a state whose waiter tables and pierced-connection flag are what the phases of the two attempts say -/
def mk (mode : Mode) (srvFail cr : Bool) (d : DPh) (i : IPh) (a : APh) (dc : DConn) (ps : Bool) (res : Res) : S :=
  { mode := mode, srvFail := srvFail, cr := cr, d := d, i := i, a := a, dc := dc,
    ic := (i == .ok || i == .wClosing), ps := ps, tw := (i == .waiting), rw := (i == .waiting), aw := (d == .addr),
    res := res }

/-- the direct attempt is closing its connection because it was cancelled -/
def dCancelling (d : DPh) : Bool := d == .cClosing || d == .cClosed

/-- what the connection object of the direct attempt can be in each phase -/
def dcOf : DPh → List DConn
  | .addr | .fClosed | .cClosed | .failed | .cancelled => [.none]
  | .nConnecting | .opening | .fClosing => [.connecting]
  | .nConnectedOk | .nConnectedBad | .nInit | .ok => [.open]
  | .cClosing => [.connecting, .open]

/-- whether PeerInit can have reached the peer in each phase -/
def psOf : DPh → List Bool
  | .nInit | .ok => [true]
  | .cClosing | .cClosed | .cancelled => [false, true]
  | _ => [false]

/-- second half of the invariant: the request's result, the cancellation flag and the phases of the two attempts fit -/
def ctrlOK (mode : Mode) (cr : Bool) (d : DPh) (i : IPh) (res : Res) : Bool :=
  match mode with
  | .fallback =>
    i != .wClosing && i != .wClosed && ((i == .notStarted) == (d != .failed)) &&
    (match res with
     | .pending => if d == .failed then i == .waiting && !cr else dRunning d && (cr == dCancelling d)
     | .returnedD => d == .ok && !cr
     | .returnedI => i == .ok && !cr
     | .raised => i == .failed && !cr
     | .cancelled => cr && (d == .cancelled || i == .cancelled))
  | .race =>
    i != .notStarted &&
    (match res with
     | .pending =>
       if cr then
         -- cancelled, gathering: the direct attempt is closing down; or the winner is being closed
         (dCancelling d && (i == .cancelled || i == .failed || i == .ok)) ||
         (d == .cancelled && (i == .wClosing || i == .wClosed))
       else
         -- no winner yet; or the indirect attempt won and the direct one is closing down
         ((i == .waiting || i == .failed) && ((dRunning d && !dCancelling d) || d == .failed) &&
           !(d == .failed && i == .failed)) ||
         (i == .ok && dCancelling d)
     | .returnedD => d == .ok && (i == .cancelled || i == .failed) && !cr
     | .returnedI => i == .ok && (d == .failed || d == .cancelled) && !cr
     | .raised => d == .failed && i == .failed && !cr
     | .cancelled => cr && (d == .cancelled || d == .failed) && (i == .cancelled || i == .failed) &&
         (d == .cancelled || i == .cancelled))

/-- first half of the invariant: every table entry and connection object is what the phases say -/
def shapeOK (s : S) : Bool :=
  (s.tw == (s.i == .waiting)) && (s.rw == (s.i == .waiting)) && (s.aw == (s.d == .addr)) &&
  (s.ic == (s.i == .ok || s.i == .wClosing)) && (dcOf s.d).contains s.dc && (psOf s.d).contains s.ps

/-- the inductive invariant -/
def good (s : S) : Bool := shapeOK s && ctrlOK s.mode s.cr s.d s.i s.res

/-- every state that satisfies the invariant (and no other combination of result, flag and phases) -/
def allS : List S :=
  allMode.flatMap fun mode => allBool.flatMap fun cr => allDPh.flatMap fun d => allIPh.flatMap fun i =>
  (allRes.filter fun res => ctrlOK mode cr d i res).flatMap fun res =>
  allBool.flatMap fun srvFail => allAPh.flatMap fun a => (dcOf d).flatMap fun dc => (psOf d).map fun ps =>
    mk mode srvFail cr d i a dc ps res

theorem eq_mk_of_shapeOK (s : S) (h : shapeOK s = true) :
    s = mk s.mode s.srvFail s.cr s.d s.i s.a s.dc s.ps s.res ∧ s.dc ∈ dcOf s.d ∧ s.ps ∈ psOf s.d := by
  cases s
  simp only [shapeOK, Bool.and_eq_true, beq_iff_eq, List.contains_iff_mem] at h
  obtain ⟨⟨⟨⟨⟨h1, h2⟩, h3⟩, h4⟩, h5⟩, h6⟩ := h
  subst h1 h2 h3 h4
  exact ⟨rfl, h5, h6⟩

theorem mem_allS (s : S) (h : good s = true) : s ∈ allS := by
  simp only [good, Bool.and_eq_true] at h
  obtain ⟨hs, hc⟩ := h
  obtain ⟨he, hd, hp⟩ := eq_mk_of_shapeOK s hs
  simp only [allS, List.mem_flatMap, List.mem_map, List.mem_filter]
  exact ⟨s.mode, mem_allMode _, s.cr, mem_allBool _, s.d, mem_allDPh _, s.i, mem_allIPh _, s.res,
    ⟨mem_allRes _, hc⟩, s.srvFail, mem_allBool _, s.a, mem_allAPh _, s.dc, hd, s.ps, hp, he.symm⟩

/-! the four steps that touch the wire-level state (`wireStep`) -/

/-- PeerInit is written (and the outgoing connection finalised) -/
def evWrites (s : S) (op : Op) : Bool := op == .note .dConnected && s.d == .nConnectedOk
/-- a piercing connection lands on a listening port -/
def evLands (s : S) : Op → Option Bool
  | .pierce o => if s.a = .none then some o else none
  | _ => none
/-- its pierce message is matched to the pending waiter (and the connection finalised) -/
def evAccepts (s : S) (op : Op) : Bool := op == .note .aConnected && s.a == .nConnected && s.tw
/-- the waiter is completed with it -/
def evHands (s : S) (op : Op) : Bool := op == .note .aInit && s.a == .nInit && s.tw

/-- how one step `s -op-> s'` can change the facts the wire-level state follows: `ps` becomes true in exactly the step
that writes PeerInit; the accepted connection enters `nConnected` only by landing, `nInit` only by being matched;
the request is handed a pierced connection only by the completion of its waiter -/
def frameOK (s : S) (op : Op) (s' : S) : Bool :=
  (if evWrites s op then !s.ps && s'.ps else s'.ps == s.ps) &&
  (s'.a != .nConnected || s.a == .nConnected || (evLands s op).isSome) &&
  (if evAccepts s op then s'.a == .nInit else (s'.a != .nInit || s.a == .nInit)) &&
  (!s'.ic || s.ic || evHands s op)

def stepOK (s : S) (op : Op) : Bool :=
  match step s op with
  | none => true
  | some s' => good s' && s'.mode == s.mode && s'.srvFail == s.srvFail && frameOK s op s'

/-! what the property theorems say of a state, as decidable propositions -/

/-- no listener invocation is outstanding: nothing the library does now depends on the application -/
def settled (s : S) : Bool :=
  (match s.d with
   | .addr | .opening | .ok | .failed | .cancelled => true
   | _ => false) && s.a == .none && s.i != .wClosing && s.i != .wClosed

/-- every listener returns: each notification that is outstanding, and each one that follows from that, is
acknowledged (the accepted connection first, then the direct attempt, then the winner being closed: one round
suffices, `Drains` below) -/
def drainOps : List Op :=
  [.note .aConnected, .note .aInit, .note .aClosing, .note .aClosed, .note .dConnecting, .note .dConnected,
   .note .dInit, .note .dClosing, .note .dClosed, .note .wClosing, .note .wClosed]

def drain (s : S) : S := drainOps.foldl stepT s

def ReturnsIff (s : S) : Prop :=
  (s.res = .returnedD ↔ s.d = .ok) ∧ (s.res = .returnedI ↔ (s.i = .ok ∧ s.d ≠ .cClosing ∧ s.d ≠ .cClosed)) ∧
    (s.d = .ok → s.dc = .open ∧ s.ps = true) ∧ (s.i = .ok → s.ic = true)

def RaisesOtherwise (s : S) : Prop :=
  (s.res = .raised ↔ (s.d = .failed ∧ s.i = .failed)) ∧
    (s.mode = .fallback → s.i ≠ .notStarted → s.d = .failed)

def NoLeftovers (s : S) : Prop :=
  s.res ≠ .pending →
    s.tw = false ∧ s.rw = false ∧ s.aw = false ∧
    (s.dc ≠ .none → s.res = .returnedD ∧ s.dc = .open) ∧ (s.ic = true → s.res = .returnedI) ∧
    dRunning s.d = false ∧ s.i ≠ .waiting ∧ s.i ≠ .wClosing ∧ s.i ≠ .wClosed

def ResultFinal (s : S) : Prop :=
  s.res ≠ .pending → ∀ op ∈ allOp, ((step s op).getD s).res = s.res

/-- when all listeners have returned: nothing is outstanding, a finished request is unchanged and has nothing but
the returned connection, a cancelled request has ended, and a request that is still pending is waiting for the
environment (the address, the connect outcome, the peer / the server / the timer) -/
def DrainsTo (s t : S) : Prop :=
  settled t = true ∧ (s.res ≠ .pending → t.res = s.res) ∧ (s.cr = true → t.res = .cancelled) ∧
    (t.res = .pending → t.d = .addr ∨ t.d = .opening ∨ t.i = .waiting)

def Drains (s : S) : Prop := DrainsTo s (drain s)

instance (s : S) : Decidable (ReturnsIff s) := by unfold ReturnsIff; infer_instance
instance (s : S) : Decidable (RaisesOtherwise s) := by unfold RaisesOtherwise; infer_instance
instance (s : S) : Decidable (NoLeftovers s) := by unfold NoLeftovers; infer_instance
instance (s : S) : Decidable (ResultFinal s) := by unfold ResultFinal; infer_instance
instance (s t : S) : Decidable (DrainsTo s t) := by unfold DrainsTo; infer_instance
instance (s : S) : Decidable (Drains s) := by unfold Drains; infer_instance

def facts (s : S) : Bool :=
  decide (ReturnsIff s) && decide (RaisesOtherwise s) && decide (NoLeftovers s) && decide (ResultFinal s) &&
    decide (Drains s)

def tableOK : Bool := allS.all fun s => !good s || (facts s && allOp.all (stepOK s))

def initOK : Bool := allMode.all fun m => allBool.all fun l => allBool.all fun f =>
  good (init m l f) && (init m l f).mode == m && (init m l f).srvFail == f

theorem table_ok : tableOK = true := by decide +kernel
theorem init_ok : initOK = true := by decide +kernel

theorem good_init (m : Mode) (l f : Bool) : good (init m l f) = true := by
  have h := init_ok
  simp only [initOK, List.all_eq_true, Bool.and_eq_true] at h
  exact (h m (mem_allMode m) l (mem_allBool l) f (mem_allBool f)).1.1

theorem good_facts {s : S} (h : good s = true) :
    ReturnsIff s ∧ RaisesOtherwise s ∧ NoLeftovers s ∧ ResultFinal s ∧ Drains s := by
  have ht := List.all_eq_true.mp table_ok s (mem_allS s h)
  simp only [h, Bool.not_true, Bool.false_or, Bool.and_eq_true, facts, decide_eq_true_eq] at ht
  obtain ⟨⟨⟨⟨⟨a, b⟩, c⟩, d⟩, e⟩, _⟩ := ht
  exact ⟨a, b, c, d, e⟩

theorem good_step {s s' : S} {op : Op} (h : good s = true) (hs : step s op = some s') : good s' = true := by
  have ht := List.all_eq_true.mp table_ok s (mem_allS s h)
  simp only [h, Bool.not_true, Bool.false_or, Bool.and_eq_true, List.all_eq_true] at ht
  have := ht.2 op (mem_allOp op)
  simp only [stepOK, hs, Bool.and_eq_true] at this
  exact this.1.1.1

theorem frame_step {s s' : S} {op : Op} (h : good s = true) (hs : step s op = some s') : frameOK s op s' = true := by
  have ht := List.all_eq_true.mp table_ok s (mem_allS s h)
  simp only [h, Bool.not_true, Bool.false_or, Bool.and_eq_true, List.all_eq_true] at ht
  have := ht.2 op (mem_allOp op)
  simp only [stepOK, hs, Bool.and_eq_true] at this
  exact this.2

theorem good_stepT {s : S} (op : Op) (h : good s = true) : good (stepT s op) = true := by
  unfold stepT
  cases hs : step s op with
  | none => simpa using h
  | some s' => simpa using good_step h hs

theorem run_append (m : Mode) (l f : Bool) (ops ops' : List Op) :
    run m l f (ops ++ ops') = ops'.foldl stepT (run m l f ops) := by
  simp [run, List.foldl_append]

theorem good_run (m : Mode) (l f : Bool) (ops : List Op) : good (run m l f ops) = true := by
  unfold run
  suffices h : ∀ s, good s = true → good (ops.foldl stepT s) = true from h _ (good_init m l f)
  induction ops with
  | nil => intro s hs; simpa using hs
  | cons op ops ih => intro s hs; exact ih _ (good_stepT op hs)

end AioslskVerif.PeerConnect
