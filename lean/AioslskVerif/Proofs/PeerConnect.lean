import AioslskVerif.Model.PeerConnect
/-!
Helper lemmas for C11.  The state space of one request is finite; `good` is the inductive invariant,
`tableOK` (decided by kernel evaluation over the complete enumeration `allS` x `allOp`) says every step from
a good state yields a good state, `factsOK` that every good state satisfies the post-conditions the
property theorems state.
-/
namespace AioslskVerif.PeerConnect

def allBool : List Bool := [false, true]
def allMode : List Mode := [.fallback, .race]
def allDPh : List DPh := [.addr, .opening, .ok, .failed, .cancelled]
def allIPh : List IPh := [.notStarted, .waiting, .ok, .failed, .cancelled]
def allDConn : List DConn := [.none, .connecting, .open]
def allRes : List Res := [.pending, .returnedD, .returnedI, .raised, .cancelled]
def allOp : List Op :=
  [.addrReply .valid, .addrReply .noAddr, .addrReply .noPort, .connectOk true, .connectOk false, .connectRefused,
   .connectTimeout, .pierce, .cannotConnect, .indirectTimeout, .cancelRequest]

def allS : List S :=
  allMode.flatMap fun mode => allBool.flatMap fun srvFail => allDPh.flatMap fun d => allIPh.flatMap fun i =>
  allDConn.flatMap fun dc => allBool.flatMap fun ic => allBool.flatMap fun tw => allBool.flatMap fun rw =>
  allBool.flatMap fun aw => allRes.map fun res =>
    { mode := mode, srvFail := srvFail, d := d, i := i, dc := dc, ic := ic, tw := tw, rw := rw, aw := aw, res := res }

theorem mem_allBool (b : Bool) : b ∈ allBool := by cases b <;> decide
theorem mem_allMode (x : Mode) : x ∈ allMode := by cases x <;> decide
theorem mem_allDPh (x : DPh) : x ∈ allDPh := by cases x <;> decide
theorem mem_allIPh (x : IPh) : x ∈ allIPh := by cases x <;> decide
theorem mem_allDConn (x : DConn) : x ∈ allDConn := by cases x <;> decide
theorem mem_allRes (x : Res) : x ∈ allRes := by cases x <;> decide

theorem mem_allOp (op : Op) : op ∈ allOp := by
  cases op with
  | addrReply r => cases r <;> decide
  | connectOk b => cases b <;> decide
  | _ => decide

theorem mem_allS (s : S) : s ∈ allS := by
  simp only [allS, List.mem_flatMap, List.mem_map]
  exact ⟨s.mode, mem_allMode _, s.srvFail, mem_allBool _, s.d, mem_allDPh _, s.i, mem_allIPh _, s.dc, mem_allDConn _,
    s.ic, mem_allBool _, s.tw, mem_allBool _, s.rw, mem_allBool _, s.aw, mem_allBool _, s.res, mem_allRes _, rfl⟩

/-- the inductive invariant: every table entry and connection object is what the phases of the two
attempts say, and the request's result is what the phases say -/
def good (s : S) : Bool :=
  (s.tw == (s.i == .waiting)) && (s.rw == (s.i == .waiting)) && (s.aw == (s.d == .addr)) &&
  (s.dc == (match s.d with | .opening => DConn.connecting | .ok => DConn.open | _ => DConn.none)) &&
  (s.ic == (s.i == .ok)) &&
  (match s.res with
   | .pending => (s.d == .addr || s.d == .opening || s.i == .waiting) &&
       (s.d == .addr || s.d == .opening || s.d == .failed) && (s.i == .notStarted || s.i == .waiting || s.i == .failed)
   | .returnedD => s.d == .ok && s.i != .ok && s.i != .waiting
   | .returnedI => s.i == .ok && s.d != .ok && s.d != .addr && s.d != .opening
   | .raised => s.d == .failed && s.i == .failed
   | .cancelled => s.d != .ok && s.i != .ok && s.d != .addr && s.d != .opening && s.i != .waiting &&
       (s.d == .cancelled || s.i == .cancelled)) &&
  (match s.mode with
   | .fallback => (s.i == .notStarted) == (s.d != .failed)
   | .race => s.i != .notStarted)

def stepOK (s : S) (op : Op) : Bool :=
  match step s op with
  | none => true
  | some s' => good s' && s'.mode == s.mode && s'.srvFail == s.srvFail

/-! what the property theorems say of a state, as decidable propositions -/

def ReturnsIff (s : S) : Prop :=
  (s.res = .returnedD ↔ s.d = .ok) ∧ (s.res = .returnedI ↔ s.i = .ok) ∧
    (s.d = .ok → s.dc = .open) ∧ (s.i = .ok → s.ic = true)

def RaisesOtherwise (s : S) : Prop :=
  (s.res = .raised ↔ (s.d = .failed ∧ s.i = .failed)) ∧
    (s.mode = .fallback → s.i ≠ .notStarted → s.d = .failed)

def NoLeftovers (s : S) : Prop :=
  s.res ≠ .pending →
    s.tw = false ∧ s.rw = false ∧ s.aw = false ∧
    (s.dc ≠ .none → s.res = .returnedD ∧ s.dc = .open) ∧ (s.ic = true → s.res = .returnedI) ∧
    s.d ≠ .addr ∧ s.d ≠ .opening ∧ s.i ≠ .waiting

def ResultFinal (s : S) : Prop :=
  s.res ≠ .pending → ∀ op ∈ allOp, ((step s op).getD s).res = s.res

instance (s : S) : Decidable (ReturnsIff s) := by unfold ReturnsIff; infer_instance
instance (s : S) : Decidable (RaisesOtherwise s) := by unfold RaisesOtherwise; infer_instance
instance (s : S) : Decidable (NoLeftovers s) := by unfold NoLeftovers; infer_instance
instance (s : S) : Decidable (ResultFinal s) := by unfold ResultFinal; infer_instance

def facts (s : S) : Bool :=
  decide (ReturnsIff s) && decide (RaisesOtherwise s) && decide (NoLeftovers s) && decide (ResultFinal s)

def tableOK : Bool := allS.all fun s => !good s || (facts s && allOp.all (stepOK s))

def initOK : Bool := allMode.all fun m => allBool.all fun l => allBool.all fun f =>
  good (init m l f) && (init m l f).mode == m && (init m l f).srvFail == f

theorem table_ok : tableOK = true := by decide +kernel
theorem init_ok : initOK = true := by decide +kernel

theorem good_init (m : Mode) (l f : Bool) : good (init m l f) = true := by
  have h := init_ok
  simp only [initOK, List.all_eq_true, Bool.and_eq_true] at h
  exact (h m (mem_allMode m) l (mem_allBool l) f (mem_allBool f)).1.1

theorem good_facts {s : S} (h : good s = true) : ReturnsIff s ∧ RaisesOtherwise s ∧ NoLeftovers s ∧ ResultFinal s := by
  have ht := List.all_eq_true.mp table_ok s (mem_allS s)
  simp only [h, Bool.not_true, Bool.false_or, Bool.and_eq_true, facts, decide_eq_true_eq] at ht
  obtain ⟨⟨⟨⟨a, b⟩, c⟩, d⟩, _⟩ := ht
  exact ⟨a, b, c, d⟩

theorem good_step {s s' : S} {op : Op} (h : good s = true) (hs : step s op = some s') : good s' = true := by
  have ht := List.all_eq_true.mp table_ok s (mem_allS s)
  simp only [h, Bool.not_true, Bool.false_or, Bool.and_eq_true, List.all_eq_true] at ht
  have := ht.2 op (mem_allOp op)
  simp only [stepOK, hs, Bool.and_eq_true] at this
  exact this.1.1

theorem good_stepT {s : S} (op : Op) (h : good s = true) : good (stepT s op) = true := by
  unfold stepT
  cases hs : step s op with
  | none => simpa using h
  | some s' => simpa using good_step h hs

theorem good_run (m : Mode) (l f : Bool) (ops : List Op) : good (run m l f ops) = true := by
  unfold run
  suffices h : ∀ s, good s = true → good (ops.foldl stepT s) = true from h _ (good_init m l f)
  induction ops with
  | nil => intro s hs; simpa using hs
  | cons op ops ih => intro s hs; exact ih _ (good_stepT op hs)

end AioslskVerif.PeerConnect
