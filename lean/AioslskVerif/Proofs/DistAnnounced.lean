import AioslskVerif.Proofs.DistSusp
import AioslskVerif.Spec.DistAnnounced
/-! Helper lemmas for C13: the position the handlers keep on their books for a live connection (`DState.level / root`)
is the position that connection has announced by the protocol's rule (`Spec/DistAnnounced.lean`). -/
namespace AioslskVerif.Dist

/-- `y` has the books of `x` (the position noted for every connection is untouched) and no connection has come
(back) to life -/
structure Books (x y : XState) : Prop where
  level : y.d.level = x.d.level
  root : y.d.root = x.d.root
  name : y.d.name = x.d.name
  nextConn : y.d.nextConn = x.d.nextConn
  nodup : x.d.live.Nodup → y.d.live.Nodup
  alive : x.d.live.Nodup → ∀ c, y.alive c → x.alive c

theorem Books.refl (x : XState) : Books x x := ⟨rfl, rfl, rfl, rfl, id, fun _ _ h => h⟩

theorem Books.trans {x y z : XState} (h1 : Books x y) (h2 : Books y z) : Books x z :=
  ⟨h2.level.trans h1.level, h2.root.trans h1.root, h2.name.trans h1.name, h2.nextConn.trans h1.nextConn,
   fun h => h2.nodup (h1.nodup h), fun h c hc => h1.alive h c (h2.alive (h1.nodup h) c hc)⟩

/-- the usual case: connections only leave the list, handled `CLOSED` events stay handled -/
theorem books_of {x y : XState} (h1 : y.d.level = x.d.level) (h2 : y.d.root = x.d.root) (h3 : y.d.name = x.d.name)
    (h4 : y.d.nextConn = x.d.nextConn) (hl : y.d.live.Sublist x.d.live) (hc : ∀ c ∈ x.closing, c ∈ y.closing) :
    Books x y :=
  ⟨h1, h2, h3, h4, fun h => h.sublist hl, fun _ c h => ⟨hl.subset h.1, fun hx => h.2 (hc c hx)⟩⟩

theorem tell_books (x : XState) (a : Adv) : Books x (tell x a) :=
  books_of rfl rfl rfl rfl (by rw [tell_live]; exact List.filter_sublist ..) (fun _ h => h)

theorem notifyChildrenX_books (x : XState) : Books x (notifyChildrenX x) := by
  unfold notifyChildrenX
  split
  · exact tell_books x _
  · exact Books.refl x

theorem runCont_books (x : XState) (k : Cont) : Books x (runCont x k) := by
  cases k with
  | tellAdv => exact notifyChildrenX_books x
  | unsetTail c me =>
    refine (tell_books x ⟨0, me⟩).trans ?_
    refine ⟨rfl, rfl, rfl, rfl, fun h => h.erase c, ?_⟩
    intro hnd e he
    have he1 : e ∈ (dropConn (tell x ⟨0, me⟩).d c).live := he.1
    have he2 : e ∉ (tell x ⟨0, me⟩).closing.filter (fun e => decide (e ≠ c)) := he.2
    refine ⟨List.mem_of_mem_erase he1, ?_⟩
    intro hcl
    by_cases hec : e = c
    · subst hec
      exact dropConn_not_live _ e hnd he1
    · exact he2 (List.mem_filter.2 ⟨hcl, by simpa using hec⟩)

theorem foldl_runCont_books (ks : List Cont) (y : XState) : Books y (ks.foldl runCont y) := by
  induction ks generalizing y with
  | nil => exact Books.refl y
  | cons k ks ih => exact (runCont_books y k).trans (ih _)

theorem serverThen_books (x : XState) (k : Cont) : Books x (serverThen x k) := by
  unfold serverThen
  split
  · exact Books.refl x
  · have h1 : Books x { x with d := notifyServer x.d } :=
      books_of (by simp) (by simp) (by simp) (by simp) (by simp) (fun _ h => h)
    split
    · exact ⟨h1.level, h1.root, h1.name, h1.nextConn, h1.nodup, h1.alive⟩
    · exact h1.trans (runCont_books _ k)

theorem closePeerX_books (x : XState) (c : ConnId) : Books x (closePeerX x c) := by
  unfold closePeerX
  split
  · split
    · split
      · refine Books.trans ?_ (serverThen_books _ _)
        exact books_of rfl rfl rfl rfl (List.Sublist.refl _) (fun _ h => List.mem_cons_of_mem _ h)
      · exact books_of rfl rfl rfl rfl (List.erase_sublist ..) (fun _ h => h)
    · exact books_of rfl rfl rfl rfl (List.erase_sublist ..) (fun _ h => h)
  · exact Books.refl x

theorem foldl_closePeerX_books (l : List ConnId) (x : XState) : Books x (l.foldl closePeerX x) := by
  induction l generalizing x with
  | nil => exact Books.refl x
  | cons c l ih => exact (closePeerX_books x c).trans (ih _)

theorem resetX_books (x : XState) : Books x (resetX x) := by
  unfold resetX
  simp only
  split
  · exact (foldl_closePeerX_books _ x).trans (closePeerX_books _ _)
  · exact foldl_closePeerX_books _ x

theorem setParentX_books (x : XState) (c : ConnId) : Books x (setParentX x c) := by
  unfold setParentX
  refine Books.trans ?_ (serverThen_books _ _)
  exact books_of rfl rfl rfl rfl (List.filter_sublist ..) (fun _ h => h)

theorem checkNewParentX_books (x : XState) (c : ConnId) : Books x (checkNewParentX x c) := by
  unfold checkNewParentX
  split
  · split
    · exact setParentX_books x c
    · exact closePeerX_books x c
  · exact Books.refl x

/-- the state in which `_on_distributed_branch_level` has noted the announcement (437-447) -/
def notedLevel (x : XState) (c : ConnId) (n : Nat) : XState :=
  { x with d := { x.d with level := upd x.d.level c (some n),
                           root := if n = 0 then upd x.d.root c (some (x.d.name c)) else x.d.root } }

/-- ... `_on_distributed_branch_root` (461-478) -/
def notedRoot (x : XState) (c : ConnId) (r : Name) : XState :=
  { x with d := { x.d with root := upd x.d.root c (some r) } }

theorem onLevelX_books (x : XState) (c : ConnId) (n : Nat) (hc : c ∈ x.d.live) :
    Books (notedLevel x c n) (onLevelX x c n) := by
  unfold onLevelX
  simp only
  rw [if_pos hc]
  split
  · exact serverThen_books _ _
  · exact checkNewParentX_books _ _

theorem onRootX_books (x : XState) (c : ConnId) (r : Name) (hc : c ∈ x.d.live) (hr : x.d.root c ≠ some r) :
    Books (notedRoot x c r) (onRootX x c r) := by
  unfold onRootX
  simp only
  rw [if_pos hc, if_neg hr]
  split
  · exact serverThen_books _ _
  · exact checkNewParentX_books _ _

/-! ### the atomic handlers that remain (`step`) -/

/-- on the tree state: the books are untouched, no connection is added -/
structure DBooks (s t : DState) : Prop where
  level : t.level = s.level
  root : t.root = s.root
  name : t.name = s.name
  nextConn : t.nextConn = s.nextConn
  live : ∀ c ∈ t.live, c ∈ s.live

theorem closePeer_dbooks (s : DState) (c : ConnId) : DBooks s (closePeer s c) := by
  unfold closePeer
  split
  · split
    · exact ⟨by simp, by simp, by simp, by simp, fun e he => by
        have := List.mem_of_mem_erase he
        simpa using this⟩
    · exact ⟨rfl, rfl, rfl, rfl, fun e he => List.mem_of_mem_erase he⟩
  · exact ⟨rfl, rfl, rfl, rfl, fun _ h => h⟩

theorem addChild_dbooks (s : DState) (c : ConnId) : DBooks s (addChild s c) := by
  unfold addChild
  split
  · exact ⟨rfl, rfl, rfl, rfl, fun _ h => h⟩
  · exact ⟨rfl, rfl, rfl, rfl, fun _ h => h⟩

theorem checkNewChild_dbooks (s : DState) (c : ConnId) : DBooks s (checkNewChild s c) := by
  unfold checkNewChild
  split
  · exact ⟨rfl, rfl, rfl, rfl, fun _ h => h⟩
  · split
    · exact closePeer_dbooks s c
    · split
      · exact closePeer_dbooks s c
      · exact addChild_dbooks s c

theorem onUserStats_dbooks (s : DState) (n : Name) (sp : Nat) : DBooks s (onUserStats s n sp) := by
  unfold onUserStats; simp only; split
  · split
    · exact ⟨rfl, rfl, rfl, rfl, fun _ h => h⟩
    · split <;> exact ⟨rfl, rfl, rfl, rfl, fun _ h => h⟩
  · exact ⟨rfl, rfl, rfl, rfl, fun _ h => h⟩

theorem requestUserStats_dbooks (s t : DState) (h : DBooks s t) : DBooks s (requestUserStats t) := by
  unfold requestUserStats; split
  · exact ⟨h.level, h.root, h.name, h.nextConn, h.live⟩
  · exact h

theorem DBooks.lift {x : XState} {t : DState} (h : DBooks x.d t) (hnd : x.d.live.Nodup → t.live.Nodup) :
    Books x { x with d := t } :=
  ⟨h.level, h.root, h.name, h.nextConn, hnd, fun _ c hc => ⟨h.live c hc.1, hc.2⟩⟩

/-! ### books = announcements, step by step -/

/-- the books agree with the announcements on connection `c` -/
def AgreeAt (x : XState) (a : Ann) (c : ConnId) : Prop :=
  x.d.level c = a.level c ∧ x.d.root c = a.root c ∧ x.d.name c = a.name c

/-- ... on every live connection; the connection counters agree -/
def Agree (x : XState) (a : Ann) : Prop := a.next = x.d.nextConn ∧ ∀ c, x.alive c → AgreeAt x a c

theorem agree_of_books {x y : XState} {a : Ann} (hb : Books x y) (hnd : x.d.live.Nodup) (h : Agree x a) :
    Agree y a := by
  refine ⟨h.1.trans hb.nextConn.symm, fun c hc => ?_⟩
  unfold AgreeAt
  rw [hb.level, hb.root, hb.name]
  exact h.2 c (hb.alive hnd c hc)

theorem agree_xstep (x : XState) (a : Ann) (op : XOp) (hi : XInv x) (h : Agree x a) :
    Agree (xstep x op) (annStep a op) := by
  have hnd := hi.binv.str.liveNodup
  cases op with
  | base op =>
    cases op with
    | potentialParents ns => exact agree_of_books (DBooks.lift ⟨rfl, rfl, rfl, rfl, fun _ h => h⟩ id) hnd h
    | initialized n r =>
      have hdb : DBooks (withConn x.d n) (initialized x.d n r) := by
        rw [initialized_eq]
        split
        · exact ⟨rfl, rfl, rfl, rfl, fun _ h => h⟩
        · exact checkNewChild_dbooks _ _
      refine ⟨?_, ?_⟩
      · show a.next + 1 = (initialized x.d n r).nextConn
        rw [hdb.nextConn, h.1]; rfl
      · intro c hc
        have hc1 : c ∈ (initialized x.d n r).live := hc.1
        have hc2 : c ∉ x.closing := hc.2
        have hc3 : c ∈ x.d.live ++ [x.d.nextConn] := hdb.live c hc1
        show (initialized x.d n r).level c = upd a.level a.next none c ∧
          (initialized x.d n r).root c = upd a.root a.next none c ∧
          (initialized x.d n r).name c = upd a.name a.next n c
        rw [hdb.level, hdb.root, hdb.name, h.1]
        show upd x.d.level x.d.nextConn none c = _ ∧ upd x.d.root x.d.nextConn none c = _ ∧
          upd x.d.name x.d.nextConn n c = _
        by_cases hck : c = x.d.nextConn
        · subst hck
          simp
        · have hcl : c ∈ x.d.live := by
            rcases List.mem_append.1 hc3 with h' | h'
            · exact h'
            · exact absurd (by simpa using h') hck
          obtain ⟨e1, e2, e3⟩ := h.2 c ⟨hcl, hc2⟩
          simp only [upd_ne _ _ _ _ hck]
          exact ⟨e1, e2, e3⟩
    | level c n =>
      by_cases hal : x.alive c
      · -- the announcement is noted, then connections may go
        have hx : xstep x (.base (.level c n)) = onLevelX x c n := by
          show (if c ∈ x.closing then x else onLevelX x c n) = _
          rw [if_neg hal.2]
        rw [hx]
        have hb := onLevelX_books x c n hal.1
        refine ⟨h.1.trans hb.nextConn.symm, fun e he => ?_⟩
        have he' : x.alive e := hb.alive hnd e he
        unfold AgreeAt
        rw [hb.level, hb.root, hb.name]
        show upd x.d.level c (some n) e = upd a.level c (some n) e ∧
          (if n = 0 then upd x.d.root c (some (x.d.name c)) else x.d.root) e =
            (if n = 0 then upd a.root c (some (a.name c)) else a.root) e ∧ x.d.name e = a.name e
        obtain ⟨e1, e2, e3⟩ := h.2 e he'
        obtain ⟨_, _, c3⟩ := h.2 c hal
        by_cases hec : e = c
        · subst hec
          refine ⟨by simp, ?_, e3⟩
          split
          · simp [c3]
          · exact e2
        · refine ⟨by simp only [upd_ne _ _ _ _ hec]; exact e1, ?_, e3⟩
          split
          · simp only [upd_ne _ _ _ _ hec]; exact e2
          · exact e2
      · -- nobody listens on this connection (not registered, or its `CLOSED` event has been seen)
        have hx : xstep x (.base (.level c n)) = x := by
          show (if c ∈ x.closing then x else onLevelX x c n) = _
          split
          · rfl
          · rename_i hcl
            unfold onLevelX
            simp only
            rw [if_neg (fun hm => hal ⟨hm, hcl⟩)]
        rw [hx]
        refine ⟨h.1, fun e he => ?_⟩
        have hec : e ≠ c := fun e' => hal (e' ▸ he)
        obtain ⟨e1, e2, e3⟩ := h.2 e he
        show x.d.level e = upd a.level c (some n) e ∧
          x.d.root e = (if n = 0 then upd a.root c (some (a.name c)) else a.root) e ∧ x.d.name e = a.name e
        refine ⟨by simp only [upd_ne _ _ _ _ hec]; exact e1, ?_, e3⟩
        split
        · simp only [upd_ne _ _ _ _ hec]; exact e2
        · exact e2
    | root c r =>
      by_cases hal : x.alive c
      · by_cases hr : x.d.root c = some r
        · have hx : xstep x (.base (.root c r)) = x := by
            show (if c ∈ x.closing then x else onRootX x c r) = _
            rw [if_neg hal.2]
            unfold onRootX
            simp only
            rw [if_pos hal.1, if_pos hr]
          rw [hx]
          refine ⟨h.1, fun e he => ?_⟩
          obtain ⟨e1, e2, e3⟩ := h.2 e he
          show x.d.level e = a.level e ∧ x.d.root e = upd a.root c (some r) e ∧ x.d.name e = a.name e
          refine ⟨e1, ?_, e3⟩
          by_cases hec : e = c
          · subst hec; simp [hr]
          · simp only [upd_ne _ _ _ _ hec]; exact e2
        · have hx : xstep x (.base (.root c r)) = onRootX x c r := by
            show (if c ∈ x.closing then x else onRootX x c r) = _
            rw [if_neg hal.2]
          rw [hx]
          have hb := onRootX_books x c r hal.1 hr
          refine ⟨h.1.trans hb.nextConn.symm, fun e he => ?_⟩
          have he' : x.alive e := hb.alive hnd e he
          unfold AgreeAt
          rw [hb.level, hb.root, hb.name]
          show x.d.level e = a.level e ∧ upd x.d.root c (some r) e = upd a.root c (some r) e ∧ x.d.name e = a.name e
          obtain ⟨e1, e2, e3⟩ := h.2 e he'
          refine ⟨e1, ?_, e3⟩
          by_cases hec : e = c
          · subst hec; simp
          · simp only [upd_ne _ _ _ _ hec]; exact e2
      · have hx : xstep x (.base (.root c r)) = x := by
          show (if c ∈ x.closing then x else onRootX x c r) = _
          split
          · rfl
          · rename_i hcl
            unfold onRootX
            simp only
            rw [if_neg (fun hm => hal ⟨hm, hcl⟩)]
        rw [hx]
        refine ⟨h.1, fun e he => ?_⟩
        have hec : e ≠ c := fun e' => hal (e' ▸ he)
        obtain ⟨e1, e2, e3⟩ := h.2 e he
        show x.d.level e = a.level e ∧ x.d.root e = upd a.root c (some r) e ∧ x.d.name e = a.name e
        exact ⟨e1, by simp only [upd_ne _ _ _ _ hec]; exact e2, e3⟩
    | closed c =>
      show Agree (if c ∈ x.closing then x else closePeerX x c) a
      split
      · exact h
      · exact agree_of_books (closePeerX_books x c) hnd h
    | userStats n sp =>
      have hdb := onUserStats_dbooks x.d n sp
      have hl : (onUserStats x.d n sp).live = x.d.live := by
        unfold onUserStats; simp only; split
        · split
          · rfl
          · split <;> rfl
        · rfl
      exact agree_of_books (DBooks.lift hdb (fun hn => hl ▸ hn)) hnd h
    | minSpeed n =>
      have hl : (requestUserStats { x.d with minSpeed := some n }).live = x.d.live := by
        unfold requestUserStats; split <;> rfl
      exact agree_of_books (DBooks.lift (requestUserStats_dbooks x.d _ ⟨rfl, rfl, rfl, rfl, fun _ h => h⟩)
        (fun hn => hl ▸ hn)) hnd h
    | speedRatio n =>
      have hl : (requestUserStats { x.d with ratio := some n }).live = x.d.live := by
        unfold requestUserStats; split <;> rfl
      exact agree_of_books (DBooks.lift (requestUserStats_dbooks x.d _ ⟨rfl, rfl, rfl, rfl, fun _ h => h⟩)
        (fun hn => hl ▸ hn)) hnd h
    | resetDistributed => exact agree_of_books (resetX_books x) hnd h
    | sessionInit me =>
      show Agree (serverThen { x with d := { x.d with session := some me } } .tellAdv) a
      refine agree_of_books (Books.trans ?_ (serverThen_books _ _)) hnd h
      exact books_of rfl rfl rfl rfl (List.Sublist.refl _) (fun _ h => h)
    | sessionDestroyed => exact agree_of_books (DBooks.lift ⟨rfl, rfl, rfl, rfl, fun _ h => h⟩ id) hnd h
    | serverStateChange => exact agree_of_books (DBooks.lift ⟨rfl, rfl, rfl, rfl, fun _ h => h⟩ id) hnd h
  | srvBlock => exact agree_of_books (books_of rfl rfl rfl rfl (List.Sublist.refl _) (fun _ h => h)) hnd h
  | srvRelease =>
    show Agree (x.pend.foldl runCont { x with srvBlocked := false, pend := [] }) a
    refine agree_of_books (Books.trans ?_ (foldl_runCont_books _ _)) hnd h
    exact books_of rfl rfl rfl rfl (List.Sublist.refl _) (fun _ h => h)
  | arm c => exact agree_of_books (books_of rfl rfl rfl rfl (List.Sublist.refl _) (fun _ h => h)) hnd h
  | childBlock c => exact h
  | childRelease c => exact h

theorem agree_foldl (ops : List XOp) (x : XState) (a : Ann) (hi : XInv x) (h : Agree x a) :
    Agree (ops.foldl xstep x) (ops.foldl annStep a) := by
  induction ops generalizing x a with
  | nil => exact h
  | cons op ops ih => exact ih _ _ (xstep_xinv x op hi) (agree_xstep x a op hi h)

/-- after every history the books of every live connection are its announcements -/
theorem agree_xrun (ops : List XOp) : Agree (xrun ops) (announced ops) :=
  agree_foldl ops XState.init Ann.init xinit_xinv ⟨rfl, fun _ hc => nomatch hc.1⟩

/-- `Derived` read on the announcements -/
theorem derived_announced (ops : List XOp) (me : Name) (a : Adv) (search : Bool)
    (h : Derived (xrun ops).d me a search) : DerivedAnn (xrun ops).d (announced ops) me a search := by
  unfold DerivedAnn
  unfold Derived at h
  cases hp : (xrun ops).d.parent with
  | none => rw [hp] at h; exact h
  | some c =>
    rw [hp] at h
    obtain ⟨l, r, h1, h2, h3⟩ := h
    obtain ⟨e1, e2, _⟩ := (agree_xrun ops).2 c ⟨(xrun_xinv ops).binv.str.parentLive c hp, fun hm => (xrun_xinv ops).binv.closingNP c hm hp⟩
    exact ⟨l, r, e1 ▸ h1, e2 ▸ h2, h3⟩

end AioslskVerif.Dist
