import AioslskVerif.Proofs.ConnBase
/-! The step table of `Proofs/ConnBase.lean` for connections of origin `incoming`, type P, by kernel evaluation. -/
namespace AioslskVerif.Conn

theorem table_incoming_P : tableFor .incoming false = true := by decide +kernel

end AioslskVerif.Conn
