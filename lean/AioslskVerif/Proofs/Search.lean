import AioslskVerif.Model.Search
/-! Helper lemmas for C18 (model: `Model/Search.lean`). -/
namespace AioslskVerif.Search
open AioslskVerif.Generated.Search

/-! ### generic induction over op lists -/

theorem run_nil (s : State) : run s [] = (s, []) := rfl
theorem run_cons (s : State) (op : Op) (ops : List Op) :
    run s (op :: ops) = ((run (step s op).1 ops).1, (step s op).2 ++ (run (step s op).1 ops).2) := rfl

theorem run_append (s : State) (a b : List Op) :
    run s (a ++ b) = ((run (run s a).1 b).1, (run s a).2 ++ (run (run s a).1 b).2) := by
  induction a generalizing s with
  | nil => simp [run_nil]
  | cons op ops ih => simp [run_cons, ih, List.append_assoc]

/-- Induction principle: `P` relates the state and the trace so far; `G` is a guard on the *final* state that is
inherited by every earlier state (`hG`). -/
theorem run_ind {P : State → List Obs → Prop} {G : State → Prop}
    (hG : ∀ s op, G (step s op).1 → G s)
    (hstep : ∀ s tr op, P s tr → G (step s op).1 → P (step s op).1 (tr ++ (step s op).2)) :
    ∀ ops s tr, P s tr → G (run s ops).1 → P (run s ops).1 (tr ++ (run s ops).2) := by
  intro ops
  induction ops with
  | nil => intro s tr h _; simpa [run_nil] using h
  | cons op ops ih =>
    intro s tr h hg
    rw [run_cons] at hg ⊢
    have hgs : G (step s op).1 := by
      clear ih h
      generalize (step s op).1 = s' at hg
      induction ops generalizing s' with
      | nil => simpa [run_nil] using hg
      | cons op' ops' ih' => rw [run_cons] at hg; exact hG _ _ (ih' _ hg)
    have := ih _ _ (hstep s tr op h hgs) hg
    simpa [List.append_assoc] using this

/-! ### fireAll -/

theorem fireTask_requests (s : State) (t : TTask) :
    (fireTask s t).1 = { s with requests := s.requests.filter (fun r => r.ticket ≠ t.ticket) } := by
  unfold fireTask
  split
  · rfl
  · rename_i h
    have : s.requests.filter (fun r => r.ticket ≠ t.ticket) = s.requests := by
      apply List.filter_eq_self.2
      intro r hr
      simp only [List.any_eq_true, not_exists, not_and, decide_eq_true_eq] at h
      simpa using h r hr
    rw [this]

theorem fireAll_state (F : List TTask) (s : State) (o : List Obs) :
    (fireAll F s o).1 = { s with requests := s.requests.filter (fun r => F.all (fun t => r.ticket ≠ t.ticket)) } := by
  induction F generalizing s o with
  | nil => cases s; simp only [fireAll, List.all_nil]; congr 1; exact (List.filter_eq_self.2 (fun _ _ => rfl)).symm
  | cons t ts ih =>
    simp only [fireAll, ih, fireTask_requests, List.filter_filter, List.all_cons]
    congr 1
    apply List.filter_congr
    intro r _
    simp [Bool.and_comm]

theorem fireAll_obs_mem (F : List TTask) (s : State) (o : List Obs) (x : Obs) (hx : x ∈ (fireAll F s o).2) :
    x ∈ o ∨ ∃ t ∈ F, x = Obs.removed s.now t.rid t.ticket (t.deadline.getD 0) t.id ∨
                      x = Obs.loopErr s.now t.rid t.ticket t.id := by
  induction F generalizing s o with
  | nil => left; simpa [fireAll] using hx
  | cons t ts ih =>
    simp only [fireAll] at hx
    rcases ih _ _ hx with h | ⟨t', ht', h⟩
    · rcases List.mem_append.1 h with h | h
      · exact .inl h
      · right; refine ⟨t, by simp, ?_⟩
        unfold fireTask at h; split at h <;> simp_all
    · right; refine ⟨t', by simp [ht'], ?_⟩
      simpa [fireTask_requests] using h

/-! ### the invariant -/

/-- the ticket generator has not wrapped yet -/
def NoWrap (s : State) : Prop := s.cfg.initial + s.draws ≤ maxTicket

structure Inv (s : State) : Prop where
  gen_eq : s.gen = s.cfg.initial + s.draws
  req_tk : ∀ r ∈ s.requests, r.ticket = s.cfg.initial + r.rid ∧ 1 ≤ r.rid ∧ r.rid ≤ s.draws
  req_uniq : ∀ r1 ∈ s.requests, ∀ r2 ∈ s.requests, r1.rid = r2.rid → r1 = r2
  task_id : ∀ t ∈ s.tasks, t.id < s.nextTask
  task_nodup : s.tasks.Pairwise (fun a b => a.id ≠ b.id)
  /-- an un-cancelled pending timer task is the current handle of a registered request -/
  task_live : ∀ t ∈ s.tasks, t.cancelled = false →
    ∃ r ∈ s.requests, r.rid = t.rid ∧ r.ticket = t.ticket ∧ r.handle = some t.id
  /-- the handle of a registered request is an un-cancelled pending task of its Timer -/
  handle_task : ∀ r ∈ s.requests, ∀ id, r.handle = some id →
    ∃ t ∈ s.tasks, t.id = id ∧ t.rid = r.rid ∧ t.cancelled = false
  handle_timeout : ∀ r ∈ s.requests, r.timeout = none → r.handle = none

theorem inv_congr {s s' : State} (h : Inv s) (h1 : s'.cfg = s.cfg) (h2 : s'.gen = s.gen) (h3 : s'.draws = s.draws)
    (h4 : s'.nextTask = s.nextTask) (h5 : s'.requests = s.requests) (h6 : s'.tasks = s.tasks) : Inv s' := by
  obtain ⟨a, b, c, d, e, f, g, i⟩ := h
  constructor <;> simp only [h1, h2, h3, h4, h5, h6] <;> assumption

@[simp] theorem startTask_id (n : Nat) (t : TTask) : (startTask n t).id = t.id := by unfold startTask; split <;> rfl
@[simp] theorem startTask_rid (n : Nat) (t : TTask) : (startTask n t).rid = t.rid := by unfold startTask; split <;> rfl
@[simp] theorem startTask_ticket (n : Nat) (t : TTask) : (startTask n t).ticket = t.ticket := by
  unfold startTask; split <;> rfl
@[simp] theorem startTask_cancelled (n : Nat) (t : TTask) : (startTask n t).cancelled = t.cancelled := by
  unfold startTask; split <;> rfl
@[simp] theorem startTask_timeout (n : Nat) (t : TTask) : (startTask n t).timeout = t.timeout := by
  unfold startTask; split <;> rfl

theorem inv_mapStart {s : State} (n : Nat) (h : Inv s) : Inv { s with tasks := s.tasks.map (startTask n) } := by
  obtain ⟨a, b, c, d, e, f, g, i⟩ := h
  constructor <;> simp only [] <;> try assumption
  · intro t ht
    obtain ⟨t0, ht0, rfl⟩ := List.mem_map.1 ht
    simpa using d t0 ht0
  · rw [List.pairwise_map]
    simpa using e
  · intro t ht hc
    obtain ⟨t0, ht0, rfl⟩ := List.mem_map.1 ht
    simpa using f t0 ht0 (by simpa using hc)
  · intro r hr id hid
    obtain ⟨t, ht, h1, h2, h3⟩ := g r hr id hid
    exact ⟨startTask n t, List.mem_map.2 ⟨t, ht, rfl⟩, by simpa using h1, by simpa using h2, by simpa using h3⟩

theorem inv_reply {s : State} (tk : Nat) (h : Inv s) :
    Inv { s with requests := s.requests.map (fun q => if q.ticket = tk then { q with results := q.results + 1 } else q) } := by
  obtain ⟨a, b, c, d, e, f, g, i⟩ := h
  constructor <;> simp only [] <;> try assumption
  · intro r hr
    obtain ⟨r0, hr0, rfl⟩ := List.mem_map.1 hr
    have := b r0 hr0
    split <;> simpa using this
  · intro r1 hr1 r2 hr2 heq
    obtain ⟨q1, hq1, rfl⟩ := List.mem_map.1 hr1
    obtain ⟨q2, hq2, rfl⟩ := List.mem_map.1 hr2
    have : q1 = q2 := c q1 hq1 q2 hq2 (by grind)
    subst this; rfl
  · intro t ht hc
    obtain ⟨r, hr, h1, h2, h3⟩ := f t ht hc
    refine ⟨_, List.mem_map.2 ⟨r, hr, rfl⟩, ?_⟩
    split <;> simp_all
  · intro r hr id hid
    obtain ⟨r0, hr0, rfl⟩ := List.mem_map.1 hr
    have := g r0 hr0 id (by grind)
    grind
  · intro r hr hto
    obtain ⟨r0, hr0, rfl⟩ := List.mem_map.1 hr
    have := i r0 hr0
    grind

/-! ### Timer.cancel / remove_request -/

theorem pairwise_id_inj {l : List TTask} (h : l.Pairwise (fun a b => a.id ≠ b.id)) :
    ∀ a ∈ l, ∀ b ∈ l, a.id = b.id → a = b := by
  induction l with
  | nil => intro a ha; cases ha
  | cons x xs ih =>
    rw [List.pairwise_cons] at h
    intro a ha b hb hab
    rcases List.mem_cons.1 ha with rfl | ha' <;> rcases List.mem_cons.1 hb with rfl | hb'
    · rfl
    · exact absurd hab (h.1 b hb')
    · exact absurd hab.symm (h.1 a ha')
    · exact ih h.2 a ha' b hb' hab

def markCancelled (id : Nat) (t : TTask) : TTask := if t.id = id then { t with cancelled := true } else t

@[simp] theorem markCancelled_id (i : Nat) (t : TTask) : (markCancelled i t).id = t.id := by
  unfold markCancelled; split <;> rfl
@[simp] theorem markCancelled_rid (i : Nat) (t : TTask) : (markCancelled i t).rid = t.rid := by
  unfold markCancelled; split <;> rfl
@[simp] theorem markCancelled_ticket (i : Nat) (t : TTask) : (markCancelled i t).ticket = t.ticket := by
  unfold markCancelled; split <;> rfl
theorem markCancelled_cancelled (i : Nat) (t : TTask) :
    (markCancelled i t).cancelled = (t.cancelled || decide (t.id = i)) := by
  unfold markCancelled; split <;> simp_all

theorem timerCancel_some (s : State) (rid id : Nat) :
    timerCancel s rid (some id) =
      { s with tasks := s.tasks.map (markCancelled id), requests := setHandle s.requests rid none } := rfl

/-- `Timer.cancel` on the Timer of a registered request. -/
theorem inv_timerCancel {s : State} (h : Inv s) (r : Req) (hr : r ∈ s.requests) :
    Inv (timerCancel s r.rid r.handle) := by
  cases hh : r.handle with
  | none => simpa [timerCancel] using h
  | some id =>
    rw [timerCancel_some]
    obtain ⟨a, b, c, d, e, f, g, i⟩ := h
    constructor <;> simp only [setHandle] <;> try assumption
    · intro q hq
      obtain ⟨q0, hq0, rfl⟩ := List.mem_map.1 hq
      have := b q0 hq0
      split <;> simpa using this
    · intro r1 hr1 r2 hr2 heq
      obtain ⟨q1, hq1, rfl⟩ := List.mem_map.1 hr1
      obtain ⟨q2, hq2, rfl⟩ := List.mem_map.1 hr2
      have : q1 = q2 := c q1 hq1 q2 hq2 (by grind)
      subst this; rfl
    · intro t ht
      obtain ⟨t0, ht0, rfl⟩ := List.mem_map.1 ht
      simpa using d t0 ht0
    · rw [List.pairwise_map]; simpa using e
    · intro t ht hc
      obtain ⟨t0, ht0, rfl⟩ := List.mem_map.1 ht
      rw [markCancelled_cancelled] at hc
      have hc0 : t0.cancelled = false := by grind
      have hne : t0.id ≠ id := by grind
      obtain ⟨q, hq, h1, h2, h3⟩ := f t0 ht0 hc0
      have hqr : q.rid ≠ r.rid := by
        intro heq
        have := c q hq r hr heq
        grind
      refine ⟨q, List.mem_map.2 ⟨q, hq, by simp [hqr]⟩, by simpa using h1, by simpa using h2, by simpa using h3⟩
    · intro q hq id' hid'
      obtain ⟨q0, hq0, rfl⟩ := List.mem_map.1 hq
      by_cases hqr : q0.rid = r.rid
      · simp [hqr] at hid'
      · simp only [hqr, if_false] at hid'
        obtain ⟨t, ht, h1, h2, h3⟩ := g q0 hq0 id' hid'
        refine ⟨markCancelled id t, List.mem_map.2 ⟨t, ht, rfl⟩, by simpa using h1, by simpa [hqr] using h2, ?_⟩
        rw [markCancelled_cancelled]
        have : t.id ≠ id := by
          intro heq
          obtain ⟨t', ht', h1', h2', _⟩ := g r hr id hh
          have : t = t' := pairwise_id_inj e t ht t' ht' (by omega)
          grind
        simp [h3, this]
    · intro q hq hto
      obtain ⟨q0, hq0, rfl⟩ := List.mem_map.1 hq
      have := i q0 hq0
      grind

theorem Inv.ticket_inj {s : State} (h : Inv s) : ∀ r1 ∈ s.requests, ∀ r2 ∈ s.requests, r1.ticket = r2.ticket → r1 = r2 := by
  intro r1 h1 r2 h2 heq
  have a := h.req_tk r1 h1
  have b := h.req_tk r2 h2
  exact h.req_uniq r1 h1 r2 h2 (by omega)

/-- dropping a registered request whose Timer holds no task -/
theorem inv_dropDisarmed {s : State} (h : Inv s) (r : Req) (hr : r ∈ s.requests) (hh : r.handle = none) :
    Inv { s with requests := s.requests.filter (fun q => q.ticket ≠ r.ticket) } := by
  have hinj := h.ticket_inj
  obtain ⟨a, b, c, d, e, f, g, i⟩ := h
  constructor <;> simp only [] <;> try assumption
  · intro q hq; exact b q (List.mem_filter.1 hq).1
  · intro r1 h1 r2 h2; exact c r1 (List.mem_filter.1 h1).1 r2 (List.mem_filter.1 h2).1
  · intro t ht hc
    obtain ⟨q, hq, h1, h2, h3⟩ := f t ht hc
    refine ⟨q, List.mem_filter.2 ⟨hq, ?_⟩, h1, h2, h3⟩
    have : q.ticket ≠ r.ticket := by
      intro heq
      have := hinj q hq r hr heq
      grind
    simpa using this
  · intro q hq; exact g q (List.mem_filter.1 hq).1
  · intro q hq; exact i q (List.mem_filter.1 hq).1

theorem lookup_some {s : State} {tk : Nat} {r : Req} (h : lookup s tk = some r) : r ∈ s.requests ∧ r.ticket = tk := by
  unfold lookup at h
  exact ⟨List.mem_of_find?_eq_some h, by simpa using List.find?_some h⟩

theorem lookup_none {s : State} {tk : Nat} (h : lookup s tk = none) : ∀ r ∈ s.requests, r.ticket ≠ tk := by
  unfold lookup at h
  intro r hr
  simpa using List.find?_eq_none.1 h r hr

theorem setHandle_filter (rs : List Req) (rid tk : Nat) (h : Option Nat) :
    setHandle (rs.filter (fun q => q.ticket ≠ tk)) rid h = (setHandle rs rid h).filter (fun q => q.ticket ≠ tk) := by
  unfold setHandle
  rw [List.filter_map]
  congr 1
  apply List.filter_congr
  intro q _
  simp only [Function.comp]
  split <;> rfl

/-- state after `remove_request(tk)` for a registered `r` -/
theorem inv_remove {s : State} (h : Inv s) (tk : Nat) (r : Req) (hl : lookup s tk = some r) :
    Inv (step s (.remove tk)).1 := by
  obtain ⟨hr, htk⟩ := lookup_some hl
  have hc := inv_timerCancel h r hr
  simp only [step, hl]
  cases hh : r.handle with
  | none =>
    have key := inv_dropDisarmed h r hr hh
    rw [htk] at key
    cases hto : r.timeout <;> simpa [hh, timerCancel] using key
  | some id =>
    have hto : r.timeout ≠ none := fun h0 => by have := h.handle_timeout r hr h0; simp [hh] at this
    obtain ⟨T, hT⟩ := Option.ne_none_iff_exists'.1 hto
    simp only [hT, timerCancel_some]
    rw [hh, timerCancel_some] at hc
    rw [setHandle_filter]
    have hmem : ({ r with handle := none } : Req) ∈ setHandle s.requests r.rid none := by
      unfold setHandle
      exact List.mem_map.2 ⟨r, hr, by simp⟩
    have := inv_dropDisarmed hc _ hmem rfl
    simpa [htk] using this

end AioslskVerif.Search
