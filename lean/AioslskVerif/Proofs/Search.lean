import AioslskVerif.Proofs.SearchBase
/-! Helper lemmas for C18, part 2: set-ups in progress, single loop iterations, `step`, histories.
(Part 1, the sub-operations on the registry and the timer tasks: `Proofs/SearchBase.lean`; part 3, the removal
report: `Proofs/SearchReport.lean`.) -/
namespace AioslskVerif.Search
open AioslskVerif.Generated.Search

/-! ### set-ups in progress and timer phases: the second half of the invariant -/

structure PInv (s : State) : Prop where
  /-- a set-up holds a ticket that was drawn for it -/
  pend_tk : ∀ p ∈ s.pending, p.ticket = s.cfg.initial + p.rid ∧ 1 ≤ p.rid ∧ p.rid ≤ s.draws
  pend_nodup : s.pending.Pairwise (fun a b => a.rid ≠ b.rid)
  /-- a request that is being set up is not registered -/
  pend_fresh : ∀ p ∈ s.pending, ∀ r ∈ s.requests, r.rid ≠ p.rid
  /-- a timer task is only woken once its sleep is over -/
  woken_due : ∀ t ∈ s.tasks, t.woken = true → ∃ d, t.deadline = some d ∧ d ≤ s.now

/-- the invariant of the reachable states -/
structure SInv (s : State) : Prop where
  inv : Inv s
  pinv : PInv s

theorem SInv.req_tk {s : State} (h : SInv s) :
    ∀ r ∈ s.requests, r.ticket = s.cfg.initial + r.rid ∧ 1 ≤ r.rid ∧ r.rid ≤ s.draws := h.inv.req_tk
theorem SInv.req_uniq {s : State} (h : SInv s) :
    ∀ r1 ∈ s.requests, ∀ r2 ∈ s.requests, r1.rid = r2.rid → r1 = r2 := h.inv.req_uniq
theorem SInv.task_id {s : State} (h : SInv s) : ∀ t ∈ s.tasks, t.id < s.nextTask := h.inv.task_id
theorem SInv.task_nodup {s : State} (h : SInv s) : s.tasks.Pairwise (fun a b => a.id ≠ b.id) := h.inv.task_nodup
theorem SInv.task_live {s : State} (h : SInv s) : ∀ t ∈ s.tasks, t.cancelled = false →
    ∃ r ∈ s.requests, r.rid = t.rid ∧ r.ticket = t.ticket ∧ r.handle = some t.id := h.inv.task_live
theorem SInv.handle_task {s : State} (h : SInv s) : ∀ r ∈ s.requests, ∀ id, r.handle = some id →
    ∃ t ∈ s.tasks, t.id = id ∧ t.rid = r.rid ∧ t.cancelled = false := h.inv.handle_task
theorem SInv.handle_timeout {s : State} (h : SInv s) : ∀ r ∈ s.requests, r.timeout = none → r.handle = none :=
  h.inv.handle_timeout
theorem SInv.ticket_inj {s : State} (h : SInv s) :
    ∀ r1 ∈ s.requests, ∀ r2 ∈ s.requests, r1.ticket = r2.ticket → r1 = r2 := h.inv.ticket_inj
theorem SInv.gen_eq {s : State} (h : SInv s) : s.gen = s.cfg.initial + s.draws := h.inv.gen_eq

theorem pinv_congr {s s' : State} (h : PInv s) (h1 : s'.cfg = s.cfg) (h2 : s'.draws = s.draws) (h3 : s'.now = s.now)
    (h4 : s'.requests = s.requests) (h5 : s'.tasks = s.tasks) (h6 : s'.pending = s.pending) : PInv s' := by
  obtain ⟨a, b, c, d⟩ := h
  constructor <;> simp only [h1, h2, h3, h4, h5, h6] <;> assumption

theorem sinv_congr {s s' : State} (h : SInv s) (h1 : s'.cfg = s.cfg) (h2 : s'.gen = s.gen) (h3 : s'.draws = s.draws)
    (h4 : s'.nextTask = s.nextTask) (h5 : s'.requests = s.requests) (h6 : s'.tasks = s.tasks)
    (h7 : s'.now = s.now) (h8 : s'.pending = s.pending) : SInv s' :=
  ⟨inv_congr h.inv h1 h2 h3 h4 h5 h6, pinv_congr h.pinv h1 h3 h7 h5 h6 h8⟩

/-- the registry part of `PInv` only looks at the `rid`s -/
theorem pinv_of_rids {s s' : State} (h : PInv s) (h1 : s'.cfg = s.cfg) (h2 : s.draws ≤ s'.draws) (h6 : s'.pending = s.pending)
    (hr : ∀ r' ∈ s'.requests, (∃ r ∈ s.requests, r.rid = r'.rid) ∨ s.draws < r'.rid)
    (hw : ∀ t ∈ s'.tasks, t.woken = true → ∃ d, t.deadline = some d ∧ d ≤ s'.now) : PInv s' := by
  obtain ⟨a, b, c, d⟩ := h
  constructor
  · intro p hp
    rw [h6] at hp
    have := a p hp
    rw [h1]; omega
  · rw [h6]; exact b
  · intro p hp r' hr'
    rw [h6] at hp
    rcases hr r' hr' with ⟨r, hrm, he⟩ | hlt
    · have := c p hp r hrm; omega
    · have := (a p hp).2.2; omega
  · exact hw

/-! ### steps that only add: tickets are drawn, set-ups go on, requests are registered -/

/-- `s'` comes from `s` by drawing tickets, finishing / dropping set-ups and registering requests -/
structure Adds (s s' : State) : Prop where
  cfg : s'.cfg = s.cfg
  now : s'.now = s.now
  draws : s.draws ≤ s'.draws
  reqs : ∀ r' ∈ s'.requests, (∃ r ∈ s.requests, r.rid = r'.rid) ∨ (∃ p ∈ s.pending, p.rid = r'.rid) ∨ s.draws < r'.rid
  pend : ∀ p' ∈ s'.pending, (∃ p ∈ s.pending, p.rid = p'.rid) ∨ s.draws < p'.rid
  nextTask : s.nextTask ≤ s'.nextTask
  tasks : ∀ t ∈ s'.tasks, t ∈ s.tasks ∨
    (s.nextTask ≤ t.id ∧ t.cancelled = false ∧ t.deadline = none ∧ t.woken = false ∧ 1 ≤ t.timeout)

theorem Adds.refl (s : State) : Adds s s :=
  ⟨rfl, rfl, Nat.le_refl _, fun r h => .inl ⟨r, h, rfl⟩, fun p h => .inl ⟨p, h, rfl⟩, Nat.le_refl _, fun t h => .inl h⟩

theorem Adds.trans {a b c : State} (h1 : Adds a b) (h2 : Adds b c) : Adds a c := by
  refine ⟨h2.cfg.trans h1.cfg, h2.now.trans h1.now, Nat.le_trans h1.draws h2.draws, ?_, ?_,
    Nat.le_trans h1.nextTask h2.nextTask, ?_⟩
  · intro r' hr'
    rcases h2.reqs r' hr' with ⟨r, hr, he⟩ | ⟨p, hp, he⟩ | hlt
    · rcases h1.reqs r hr with ⟨r0, hr0, he0⟩ | ⟨p0, hp0, he0⟩ | hlt
      · exact .inl ⟨r0, hr0, by omega⟩
      · exact .inr (.inl ⟨p0, hp0, by omega⟩)
      · exact .inr (.inr (by omega))
    · rcases h1.pend p hp with ⟨p0, hp0, he0⟩ | hlt
      · exact .inr (.inl ⟨p0, hp0, by omega⟩)
      · exact .inr (.inr (by omega))
    · exact .inr (.inr (by have := h1.draws; omega))
  · intro p' hp'
    rcases h2.pend p' hp' with ⟨p, hp, he⟩ | hlt
    · rcases h1.pend p hp with ⟨p0, hp0, he0⟩ | hlt
      · exact .inl ⟨p0, hp0, by omega⟩
      · exact .inr (by omega)
    · exact .inr (by have := h1.draws; omega)
  · intro t ht
    rcases h2.tasks t ht with h | ⟨k1, k2⟩
    · exact h1.tasks t h
    · exact .inr ⟨by have := h1.nextTask; omega, k2⟩

/-- nothing but the wishlist task's own fields / the gate changed -/
theorem adds_of_eq {s s' : State} (h1 : s'.cfg = s.cfg) (h2 : s'.now = s.now) (h3 : s'.draws = s.draws)
    (h4 : s'.requests = s.requests) (h5 : s'.pending = s.pending) (h6 : s'.nextTask = s.nextTask)
    (h7 : s'.tasks = s.tasks) : Adds s s' := by
  refine ⟨h1, h2, by omega, ?_, ?_, by omega, ?_⟩
  · intro r hr; rw [h4] at hr; exact .inl ⟨r, hr, rfl⟩
  · intro p hp; rw [h5] at hp; exact .inl ⟨p, hp, rfl⟩
  · intro t ht; rw [h7] at ht; exact .inl ht

theorem requestTimeout_pos {c : Cfg} {T : Nat} (h : requestTimeout c = some T) : 1 ≤ T := by
  unfold requestTimeout at h
  split at h
  · simp at h; omega
  · cases h

theorem wishlistTimeout_pos {s : State} {T : Nat} (h : wishlistTimeout s = some T) : 1 ≤ T := by
  unfold wishlistTimeout at h
  simp only [] at h
  generalize (if s.cfg.wishlistTimeout < 0 then s.wlInterval.getD defaultWishlistInterval
    else s.cfg.wishlistTimeout.toNat) = v at h
  by_cases hv : v = 0
  · simp [hv] at h
  · simp [hv] at h; omega

theorem kindTimeout_pos {s : State} {k : Kind} {T : Nat} (h : kindTimeout s k = some T) : 1 ≤ T := by
  cases k <;> simp only [kindTimeout] at h
  · exact requestTimeout_pos h
  · exact requestTimeout_pos h
  · exact requestTimeout_pos h
  · exact wishlistTimeout_pos h

theorem newRequest_tasks (s : State) (k : Kind) (to : Option Nat) :
    ∀ t ∈ (newRequest s k to).1.tasks, t ∈ s.tasks ∨
      (t.id = s.nextTask ∧ t.cancelled = false ∧ t.deadline = none ∧ t.woken = false ∧ to = some t.timeout) := by
  intro t ht
  rw [newRequest_state] at ht
  cases to with
  | none => exact .inl ht
  | some T =>
    simp only [timerStart, registered] at ht
    rcases List.mem_append.1 ht with h | h
    · exact .inl h
    · simp at h; subst h; exact .inr ⟨rfl, rfl, rfl, rfl, rfl⟩

theorem newRequest_nextTask (s : State) (k : Kind) (to : Option Nat) : s.nextTask ≤ (newRequest s k to).1.nextTask := by
  rw [newRequest_state]
  cases to with
  | none => exact Nat.le_refl _
  | some T => simp only [timerStart, registered]; omega

theorem newRequest_pending (s : State) (k : Kind) (to : Option Nat) : (newRequest s k to).1.pending = s.pending := by
  rw [newRequest_state]
  cases to <;> rfl

theorem newRequest_reqs (s : State) (k : Kind) (to : Option Nat) :
    ∀ r' ∈ (newRequest s k to).1.requests, (∃ r ∈ s.requests, r.rid = r'.rid) ∨ s.draws < r'.rid := by
  have hreg : ∀ r' ∈ (registered s k to).requests, (∃ r ∈ s.requests, r.rid = r'.rid) ∨ s.draws < r'.rid := by
    intro r' hr'
    rcases List.mem_append.1 hr' with h | h
    · exact .inl ⟨r', (List.mem_filter.1 h).1, rfl⟩
    · simp at h; subst h; right; simp
  rw [newRequest_state]
  cases to with
  | none => exact hreg
  | some T =>
    intro r' hr'
    simp only [timerStart, setHandle] at hr'
    obtain ⟨q, hq, rfl⟩ := List.mem_map.1 hr'
    have := hreg q hq
    split <;> exact this

theorem adds_newRequest (s : State) (k : Kind) (to : Option Nat) (hto : ∀ T, to = some T → 1 ≤ T) :
    Adds s (newRequest s k to).1 := by
  refine ⟨newRequest_cfg s k to, newRequest_now s k to, by rw [newRequest_draws]; omega, ?_, ?_,
    newRequest_nextTask s k to, ?_⟩
  · intro r' hr'
    rcases newRequest_reqs s k to r' hr' with h | h
    · exact .inl h
    · exact .inr (.inr h)
  · intro p hp; rw [newRequest_pending] at hp; exact .inl ⟨p, hp, rfl⟩
  · intro t ht
    rcases newRequest_tasks s k to t ht with h | ⟨h1, h2, h3, h4, h5⟩
    · exact .inl h
    · exact .inr ⟨by omega, h2, h3, h4, hto _ h5⟩

theorem wishlistRound_wl (n : Nat) (s : State) (o : List Obs) : (wishlistRound n s o).1.wlInterval = s.wlInterval := by
  induction n generalizing s o with
  | zero => rfl
  | succ n ih =>
    simp only [wishlistRound, ih]
    rw [newRequest_state]; cases wishlistTimeout s <;> rfl

theorem adds_wishlistRound (n : Nat) (s : State) (o : List Obs) : Adds s (wishlistRound n s o).1 := by
  induction n generalizing s o with
  | zero => exact Adds.refl s
  | succ n ih =>
    simp only [wishlistRound]
    exact (adds_newRequest s .wishlist _ (fun T h => wishlistTimeout_pos h)).trans (ih _ _)

theorem adds_beginSetup (s : State) (k : Kind) : Adds s (beginSetup s k) := by
  refine ⟨rfl, rfl, by simp [beginSetup], fun r h => .inl ⟨r, h, rfl⟩, ?_, Nat.le_refl _, fun t h => .inl h⟩
  intro p hp
  simp only [beginSetup] at hp
  rcases List.mem_append.1 hp with h | h
  · exact .inl ⟨p, h, rfl⟩
  · simp at h; subst h; right; simp

theorem adds_roundEnd (s : State) : Adds s (roundEnd s) := adds_of_eq rfl rfl rfl rfl rfl rfl rfl

theorem adds_roundGo (m : Nat) (s : State) (o : List Obs) : Adds s (roundGo m s o).1 := by
  unfold roundGo
  split
  · cases m with
    | zero => exact adds_roundEnd s
    | succ m => exact (adds_beginSetup s .wishlist).trans (adds_of_eq rfl rfl rfl rfl rfl rfl rfl)
  · exact (adds_wishlistRound m s o).trans (adds_roundEnd _)

theorem register_cfg (s : State) (p : Setup) : (register s p).1.cfg = s.cfg := by
  unfold register; cases kindTimeout s p.kind <;> rfl
theorem register_now (s : State) (p : Setup) : (register s p).1.now = s.now := by
  unfold register; cases kindTimeout s p.kind <;> rfl
theorem register_draws (s : State) (p : Setup) : (register s p).1.draws = s.draws := by
  unfold register; cases kindTimeout s p.kind <;> rfl
theorem register_gen (s : State) (p : Setup) : (register s p).1.gen = s.gen := by
  unfold register; cases kindTimeout s p.kind <;> rfl
theorem register_pending (s : State) (p : Setup) : (register s p).1.pending = s.pending := by
  unfold register; cases kindTimeout s p.kind <;> rfl
theorem register_wlRound (s : State) (p : Setup) : (register s p).1.wlRound = s.wlRound := by
  unfold register; cases kindTimeout s p.kind <;> rfl
theorem register_nextTask (s : State) (p : Setup) : s.nextTask ≤ (register s p).1.nextTask := by
  unfold register; cases kindTimeout s p.kind <;> simp [timerStart]

theorem register_reqs (s : State) (p : Setup) :
    ∀ r' ∈ (register s p).1.requests, (∃ r ∈ s.requests, r.rid = r'.rid) ∨ r'.rid = p.rid := by
  have hreg : ∀ r' ∈ s.requests.filter (fun r => decide (r.ticket ≠ p.ticket)) ++
      [({ rid := p.rid, ticket := p.ticket, kind := p.kind, timeout := kindTimeout s p.kind, handle := none,
          results := 0 } : Req)], (∃ r ∈ s.requests, r.rid = r'.rid) ∨ r'.rid = p.rid := by
    intro r' hr'
    rcases List.mem_append.1 hr' with h | h
    · exact .inl ⟨r', (List.mem_filter.1 h).1, rfl⟩
    · simp at h; subst h; right; rfl
  intro r' hr'
  unfold register at hr'
  cases hk : kindTimeout s p.kind with
  | none => simp only [hk] at hr' hreg; exact hreg r' hr'
  | some T =>
    simp only [hk, timerStart, setHandle] at hr' hreg
    obtain ⟨q, hq, rfl⟩ := List.mem_map.1 hr'
    have := hreg q hq
    split <;> exact this

theorem register_tasks (s : State) (p : Setup) :
    ∀ t ∈ (register s p).1.tasks, t ∈ s.tasks ∨
      (t.id = s.nextTask ∧ t.cancelled = false ∧ t.deadline = none ∧ t.woken = false ∧ 1 ≤ t.timeout) := by
  intro t ht
  unfold register at ht
  cases hk : kindTimeout s p.kind with
  | none => simp only [hk] at ht; exact .inl ht
  | some T =>
    simp only [hk, timerStart] at ht
    rcases List.mem_append.1 ht with h | h
    · exact .inl h
    · simp at h; subst h; exact .inr ⟨rfl, rfl, rfl, rfl, kindTimeout_pos hk⟩

/-- a set-up leaves `pending` and is registered -/
theorem adds_register_drop (s : State) (p : Setup) (hpm : p ∈ s.pending) :
    Adds s (register { s with pending := s.pending.filter (fun q => decide (q.rid ≠ p.rid)) } p).1 := by
    generalize hs0 : ({ s with pending := s.pending.filter (fun q => decide (q.rid ≠ p.rid)) } : State) = s0
    have e1 : s0.cfg = s.cfg := by rw [← hs0]
    have e2 : s0.now = s.now := by rw [← hs0]
    have e3 : s0.draws = s.draws := by rw [← hs0]
    have e4 : s0.requests = s.requests := by rw [← hs0]
    have e5 : s0.pending = s.pending.filter (fun q => decide (q.rid ≠ p.rid)) := by rw [← hs0]
    have e6 : s0.nextTask = s.nextTask := by rw [← hs0]
    have e7 : s0.tasks = s.tasks := by rw [← hs0]
    refine ⟨(register_cfg _ _).trans e1, (register_now _ _).trans e2, by rw [register_draws, e3]; exact Nat.le_refl _,
      ?_, ?_, by have := register_nextTask s0 p; omega, ?_⟩
    · intro r' hr'
      rcases register_reqs _ _ r' hr' with h | h
      · rw [e4] at h; exact .inl h
      · exact .inr (.inl ⟨p, hpm, h.symm⟩)
    · intro p' hp'
      rw [register_pending] at hp'
      rw [e5] at hp'
      exact .inl ⟨p', (List.mem_filter.1 hp').1, rfl⟩
    · intro t ht
      rcases register_tasks _ _ t ht with h | ⟨h1, h2⟩
      · rw [e7] at h; exact .inl h
      · exact .inr ⟨by omega, h2⟩

theorem adds_completeOne (s : State) (rid : Nat) (o : List Obs) : Adds s (completeOne s rid o).1 := by
  unfold completeOne
  cases hf : s.pending.find? (fun p => decide (p.rid = rid)) with
  | none => exact Adds.refl s
  | some p =>
    have hpm : p ∈ s.pending := List.mem_of_find?_eq_some hf
    simp only []
    cases ho : p.outcome with
    | none => exact Adds.refl s
    | some ok =>
      simp only []
      -- the set-up leaves `pending`
      have hdrop : ∀ (s0 : State), s0.pending = s.pending.filter (fun q => decide (q.rid ≠ p.rid)) →
          ∀ p' ∈ s0.pending, (∃ q ∈ s.pending, q.rid = p'.rid) ∨ s.draws < p'.rid := by
        intro s0 h0 p' hp'
        rw [h0] at hp'
        exact .inl ⟨p', (List.mem_filter.1 hp').1, rfl⟩
      have hreg := adds_register_drop s p hpm
      have hfail : ∀ (s0 : State), s0.cfg = s.cfg → s0.now = s.now → s0.draws = s.draws → s0.requests = s.requests →
          s0.pending = s.pending.filter (fun q => decide (q.rid ≠ p.rid)) → s0.nextTask = s.nextTask →
          s0.tasks = s.tasks → Adds s s0 := by
        intro s0 h1 h2 h3 h4 h5 h6 h7
        refine ⟨h1, h2, by omega, ?_, hdrop s0 h5, by omega, ?_⟩
        · intro r hr; rw [h4] at hr; exact .inl ⟨r, hr, rfl⟩
        · intro t ht; rw [h7] at ht; exact .inl ht
      cases ok with
      | true =>
        simp only [if_true]
        split
        · exact hreg.trans (adds_roundGo _ _ _)
        · exact hreg
      | false =>
        simp only [Bool.false_eq_true, if_false]
        split
        · exact hfail _ rfl rfl rfl rfl rfl rfl rfl
        · exact hfail _ rfl rfl rfl rfl rfl rfl rfl

theorem adds_completeAll (rids : List Nat) (s : State) (o : List Obs) : Adds s (completeAll rids s o).1 := by
  induction rids generalizing s o with
  | nil => exact Adds.refl s
  | cons rid rids ih =>
    simp only [completeAll]
    exact (adds_completeOne s rid o).trans (ih _ _)

theorem adds_completeSetups (s : State) (o : List Obs) : Adds s (completeSetups s o).1 := adds_completeAll _ s o

theorem adds_settleWishlist (s : State) (o : List Obs) : Adds s (settleWishlist s o).1 := by
  unfold settleWishlist
  split
  · exact Adds.refl s
  · split
    · exact adds_roundGo _ _ _
    · exact Adds.refl s

theorem adds_tickWishlist (s : State) (o : List Obs) : Adds s (tickWishlist s o).1 := by
  unfold tickWishlist
  split
  · exact Adds.refl s
  · split
    · exact adds_roundGo _ _ _
    · split
      · exact adds_of_eq rfl rfl rfl rfl rfl rfl rfl
      · exact Adds.refl s


/-! ### … keep the invariant, and announce only requests that did not exist before -/

theorem noWrap_of_adds {s s' : State} (h : Adds s s') (hw : NoWrap s') : NoWrap s := by
  unfold NoWrap at hw ⊢
  rw [h.cfg] at hw
  have := h.draws
  omega

/-- a `SearchRequestSentEvent` for a request object that did not exist before this step: its ticket is drawn in the
step, or it was being set up -/
def SentOk (s : State) (x : Obs) : Prop :=
  ∃ rid, x = Obs.sent s.now rid (s.cfg.initial + rid) ∧ (s.draws < rid ∨ ∃ p ∈ s.pending, p.rid = rid)

theorem SentOk.mono {s s1 : State} {x : Obs} (h : Adds s s1) (hx : SentOk s1 x) : SentOk s x := by
  obtain ⟨rid, he, hr⟩ := hx
  refine ⟨rid, by rw [he, h.now, h.cfg], ?_⟩
  rcases hr with hlt | ⟨p, hp, hpr⟩
  · exact .inl (by have := h.draws; omega)
  · rcases h.pend p hp with ⟨p0, hp0, he0⟩ | hlt
    · exact .inr ⟨p0, hp0, by omega⟩
    · exact .inl (by omega)

theorem pinv_newRequest {s : State} (h : PInv s) (k : Kind) (to : Option Nat) : PInv (newRequest s k to).1 := by
  apply pinv_of_rids h (newRequest_cfg s k to) (by rw [newRequest_draws]; omega) (newRequest_pending s k to)
    (newRequest_reqs s k to)
  intro t ht hwk
  rw [newRequest_now]
  rcases newRequest_tasks s k to t ht with h0 | ⟨_, _, _, h4, _⟩
  · exact h.woken_due t h0 hwk
  · rw [h4] at hwk; cases hwk

theorem sinv_newRequest {s : State} (h : SInv s) (k : Kind) (to : Option Nat) (hw : NoWrap (newRequest s k to).1) :
    SInv (newRequest s k to).1 := ⟨inv_newRequest h.inv k to hw, pinv_newRequest h.pinv k to⟩

theorem newRequest_sentOk {s : State} (h : SInv s) (k : Kind) (to : Option Nat) (hw : NoWrap (newRequest s k to).1) :
    ∀ x ∈ (newRequest s k to).2, SentOk s x := by
  intro x hx
  rw [newRequest_obs h.inv k to hw] at hx
  simp at hx; subst hx
  exact ⟨s.draws + 1, by simp [Nat.add_assoc], .inl (by omega)⟩

theorem ok_wishlistRound (n : Nat) {s : State} (o : List Obs) (h : SInv s) (hw : NoWrap (wishlistRound n s o).1) :
    SInv (wishlistRound n s o).1 ∧ ∀ x ∈ (wishlistRound n s o).2, x ∈ o ∨ SentOk s x := by
  induction n generalizing s o with
  | zero => exact ⟨h, fun x hx => .inl hx⟩
  | succ n ih =>
    simp only [wishlistRound] at hw ⊢
    have hadd := adds_newRequest s .wishlist (wishlistTimeout s) (fun T h => wishlistTimeout_pos h)
    have hw1 : NoWrap (newRequest s .wishlist (wishlistTimeout s)).1 := noWrap_of_adds (adds_wishlistRound n _ _) hw
    obtain ⟨h1, h2⟩ := ih _ (sinv_newRequest h _ _ hw1) hw
    refine ⟨h1, ?_⟩
    intro x hx
    rcases h2 x hx with hx | hx
    · rcases List.mem_append.1 hx with hx | hx
      · exact .inl hx
      · exact .inr (newRequest_sentOk h _ _ hw1 x hx)
    · exact .inr (hx.mono hadd)

theorem sinv_beginSetup {s : State} (h : SInv s) (k : Kind) (hw : NoWrap (beginSetup s k)) : SInv (beginSetup s k) := by
  have hw' : s.cfg.initial + s.draws + 1 ≤ maxTicket := by unfold NoWrap beginSetup at hw; simpa [Nat.add_assoc] using hw
  have htk : nextTicket s.cfg.initial s.gen = s.cfg.initial + s.draws + 1 := by
    rw [h.gen_eq]; exact nextTicket_nowrap _ _ hw'
  obtain ⟨⟨a, b, c, d, e, f, g, i⟩, ⟨pa, pb, pc, pd⟩⟩ := h
  unfold beginSetup
  rw [htk]
  refine ⟨?_, ?_⟩
  · constructor <;> simp only [] <;> try assumption
    · omega
    · intro r hr; have := b r hr; omega
  · constructor <;> simp only []
    · intro p hp
      rcases List.mem_append.1 hp with hp | hp
      · have := pa p hp; omega
      · simp at hp; subst hp; simp; omega
    · rw [List.pairwise_append]
      refine ⟨pb, by simp, ?_⟩
      intro x hx y hy
      simp at hy; subst hy
      have := pa x hx
      simp; omega
    · intro p hp r hr
      rcases List.mem_append.1 hp with hp | hp
      · exact pc p hp r hr
      · simp at hp; subst hp
        have := b r hr
        simp; omega
    · exact pd

theorem sinv_roundEnd {s : State} (h : SInv s) : SInv (roundEnd s) := sinv_congr h rfl rfl rfl rfl rfl rfl rfl rfl

theorem ok_roundGo (m : Nat) {s : State} (o : List Obs) (h : SInv s) (hw : NoWrap (roundGo m s o).1) :
    SInv (roundGo m s o).1 ∧ ∀ x ∈ (roundGo m s o).2, x ∈ o ∨ SentOk s x := by
  unfold roundGo at hw ⊢
  by_cases hg : s.gated = true
  · simp only [hg, if_true] at hw ⊢
    cases m with
    | zero => exact ⟨sinv_roundEnd h, fun x hx => .inl hx⟩
    | succ m =>
      simp only [] at hw ⊢
      have hw1 : NoWrap (beginSetup s .wishlist) := hw
      exact ⟨sinv_congr (sinv_beginSetup h .wishlist hw1) rfl rfl rfl rfl rfl rfl rfl rfl, fun x hx => .inl hx⟩
  · simp only [hg, if_false] at hw ⊢
    have hw1 : NoWrap (wishlistRound m s o).1 := hw
    obtain ⟨h1, h2⟩ := ok_wishlistRound m o h hw1
    exact ⟨sinv_roundEnd h1, h2⟩

/-- the set-up leaves `pending` -/
theorem sinv_dropSetup {s : State} (h : SInv s) (rid : Nat) :
    SInv { s with pending := s.pending.filter (fun q => decide (q.rid ≠ rid)) } := by
  refine ⟨inv_congr h.inv rfl rfl rfl rfl rfl rfl, ?_⟩
  obtain ⟨pa, pb, pc, pd⟩ := h.pinv
  constructor <;> simp only []
  · intro p hp; exact pa p (List.mem_filter.1 hp).1
  · exact pb.filter _
  · intro p hp; exact pc p (List.mem_filter.1 hp).1
  · exact pd

/-- registering a set-up that has left `pending` -/
theorem ok_register {s : State} (h : SInv s) (p : Setup)
    (h1 : p.ticket = s.cfg.initial + p.rid) (h2 : 1 ≤ p.rid) (h3 : p.rid ≤ s.draws)
    (hf : ∀ r ∈ s.requests, r.rid ≠ p.rid) (hq : ∀ q ∈ s.pending, q.rid ≠ p.rid) :
    SInv (register s p).1 ∧ (register s p).2 = [Obs.sent s.now p.rid (s.cfg.initial + p.rid)] := by
  have hnone : s.requests.filter (fun r => decide (r.ticket = p.ticket)) = [] := by
    apply List.filter_eq_nil_iff.2
    intro r hr
    have := h.req_tk r hr
    have := hf r hr
    simp; omega
  have hadd := inv_addReq h.inv p.rid p.kind (kindTimeout s p.kind) h2 h3 hf
  refine ⟨⟨?_, ?_⟩, ?_⟩
  · unfold register
    simp only [h1]
    cases hk : kindTimeout s p.kind with
    | none => simpa [hk] using hadd
    | some T =>
      simp only []
      rw [hk] at hadd
      apply inv_timerStart hadd
      exact ⟨_, List.mem_append.2 (.inr (List.mem_singleton.2 rfl)), rfl, rfl, rfl, by simp⟩
  · obtain ⟨pa, pb, pc, pd⟩ := h.pinv
    constructor
    · rw [register_pending, register_cfg, register_draws]; exact pa
    · rw [register_pending]; exact pb
    · intro q hq' r' hr'
      rw [register_pending] at hq'
      rcases register_reqs s p r' hr' with ⟨r, hr, he⟩ | he
      · have := pc q hq' r hr; omega
      · have := hq q hq'; omega
    · intro t ht hwk
      rw [register_now]
      rcases register_tasks s p t ht with h0 | ⟨_, _, _, h4, _⟩
      · exact pd t h0 hwk
      · rw [h4] at hwk; cases hwk
  · unfold register
    rw [h1] at hnone
    simp only [h1, hnone, List.map_nil, List.nil_append]

theorem ok_completeOne {s : State} (rid : Nat) (o : List Obs) (h : SInv s) (hw : NoWrap (completeOne s rid o).1) :
    SInv (completeOne s rid o).1 ∧ ∀ x ∈ (completeOne s rid o).2, x ∈ o ∨ SentOk s x := by
  unfold completeOne at hw ⊢
  cases hf : s.pending.find? (fun p => decide (p.rid = rid)) with
  | none => exact ⟨h, fun x hx => .inl hx⟩
  | some p =>
    have hpm : p ∈ s.pending := List.mem_of_find?_eq_some hf
    simp only [hf] at hw ⊢
    cases ho : p.outcome with
    | none => exact ⟨h, fun x hx => .inl hx⟩
    | some ok =>
      simp only [ho] at hw ⊢
      have h0 := sinv_dropSetup h p.rid
      have hptk := h.pinv.pend_tk p hpm
      cases ok with
      | false =>
        simp only [Bool.false_eq_true, if_false] at hw ⊢
        split
        · exact ⟨sinv_congr h0 rfl rfl rfl rfl rfl rfl rfl rfl, fun x hx => .inl hx⟩
        · exact ⟨h0, fun x hx => .inl hx⟩
      | true =>
        simp only [if_true] at hw ⊢
        obtain ⟨hr1, hr2⟩ := ok_register (s := { s with pending := s.pending.filter (fun q => decide (q.rid ≠ p.rid)) })
          h0 p hptk.1 hptk.2.1 hptk.2.2 (fun r hr => h.pinv.pend_fresh p hpm r hr)
          (fun q hq => by simpa using (List.mem_filter.1 hq).2)
        have hsent : SentOk s (Obs.sent s.now p.rid (s.cfg.initial + p.rid)) := ⟨p.rid, rfl, .inr ⟨p, hpm, rfl⟩⟩
        have hreg := adds_register_drop s p hpm
        split
        · rename_i hk
          simp only [hk, if_true] at hw
          obtain ⟨g1, g2⟩ := ok_roundGo (s.wlRound.getD 0) (o ++ (register { s with pending := s.pending.filter (fun q => decide (q.rid ≠ p.rid)) } p).2) hr1 hw
          refine ⟨g1, ?_⟩
          intro x hx
          rcases g2 x hx with hx | hx
          · rcases List.mem_append.1 hx with hx | hx
            · exact .inl hx
            · rw [hr2] at hx; simp at hx; subst hx; exact .inr hsent
          · exact .inr (hx.mono hreg)
        · refine ⟨hr1, ?_⟩
          intro x hx
          rcases List.mem_append.1 hx with hx | hx
          · exact .inl hx
          · rw [hr2] at hx; simp at hx; subst hx; exact .inr hsent


theorem ok_completeAll (rids : List Nat) {s : State} (o : List Obs) (h : SInv s) (hw : NoWrap (completeAll rids s o).1) :
    SInv (completeAll rids s o).1 ∧ ∀ x ∈ (completeAll rids s o).2, x ∈ o ∨ SentOk s x := by
  induction rids generalizing s o with
  | nil => exact ⟨h, fun x hx => .inl hx⟩
  | cons rid rids ih =>
    simp only [completeAll] at hw ⊢
    have hw1 : NoWrap (completeOne s rid o).1 := noWrap_of_adds (adds_completeAll rids _ _) hw
    obtain ⟨h1, h2⟩ := ok_completeOne rid o h hw1
    obtain ⟨g1, g2⟩ := ih _ h1 hw
    refine ⟨g1, ?_⟩
    intro x hx
    rcases g2 x hx with hx | hx
    · exact h2 x hx
    · exact .inr (hx.mono (adds_completeOne s rid o))

theorem ok_completeSetups {s : State} (o : List Obs) (h : SInv s) (hw : NoWrap (completeSetups s o).1) :
    SInv (completeSetups s o).1 ∧ ∀ x ∈ (completeSetups s o).2, x ∈ o ∨ SentOk s x := ok_completeAll _ o h hw

theorem ok_settleWishlist {s : State} (o : List Obs) (h : SInv s) (hw : NoWrap (settleWishlist s o).1) :
    SInv (settleWishlist s o).1 ∧ ∀ x ∈ (settleWishlist s o).2, x ∈ o ∨ SentOk s x := by
  unfold settleWishlist at hw ⊢
  cases hn : s.wlNext with
  | none => exact ⟨h, fun x hx => .inl hx⟩
  | some w =>
    simp only [hn] at hw ⊢
    by_cases hle : w ≤ s.now
    · simp only [hle, if_true] at hw ⊢; exact ok_roundGo _ o h hw
    · simp only [hle, if_false] at hw ⊢; exact ⟨h, fun x hx => .inl hx⟩

theorem ok_tickWishlist {s : State} (o : List Obs) (h : SInv s) (hw : NoWrap (tickWishlist s o).1) :
    SInv (tickWishlist s o).1 ∧ ∀ x ∈ (tickWishlist s o).2, x ∈ o ∨ SentOk s x := by
  unfold tickWishlist at hw ⊢
  cases hn : s.wlNext with
  | none => exact ⟨h, fun x hx => .inl hx⟩
  | some w =>
    simp only [hn] at hw ⊢
    by_cases hk : s.wlWoken = true
    · simp only [hk, if_true] at hw ⊢; exact ok_roundGo _ o h hw
    · simp only [hk, if_false] at hw ⊢
      by_cases hle : w ≤ s.now
      · simp only [hle, if_true] at hw ⊢
        exact ⟨sinv_congr h rfl rfl rfl rfl rfl rfl rfl rfl, fun x hx => .inl hx⟩
      · simp only [hle, if_false] at hw ⊢; exact ⟨h, fun x hx => .inl hx⟩

/-! ### the loop runs the timer tasks -/

/-- a timeout removal reported by a loop run from state `s`: at the present instant, not before the deadline `dl`, by
an un-cancelled pending task that is — at this moment — the handle of a registered request, the one removed -/
def RemovedOk (s : State) (t rid tk dl tid : Nat) : Prop :=
  t = s.now ∧ dl ≤ s.now ∧
  (∃ task ∈ s.tasks, task.id = tid ∧ task.rid = rid ∧ task.cancelled = false ∧
    (startTask s.now task).deadline = some dl) ∧
  ∃ r ∈ s.requests, r.rid = rid ∧ r.ticket = tk ∧ r.handle = some tid

theorem startTask_woken (n : Nat) (t : TTask) : (startTask n t).woken = t.woken := by
  unfold startTask; split <;> rfl

theorem startTask_of_some {n d : Nat} {t : TTask} (h : t.deadline = some d) : startTask n t = t := by
  unfold startTask; rw [h]

theorem startTask_deadline (n : Nat) (t : TTask) :
    (startTask n t).deadline = some (match t.deadline with | none => n + t.timeout | some d => d) := by
  unfold startTask; split <;> simp_all

theorem settleTimers_cfg (s : State) : (settleTimers s).1.cfg = s.cfg := by rw [settleTimers_state]
theorem settleTimers_draws (s : State) : (settleTimers s).1.draws = s.draws := by rw [settleTimers_state]
theorem settleTimers_now (s : State) : (settleTimers s).1.now = s.now := by rw [settleTimers_state]
theorem settleTimers_pending (s : State) : (settleTimers s).1.pending = s.pending := by rw [settleTimers_state]
theorem settleTimers_nextTask (s : State) : (settleTimers s).1.nextTask = s.nextTask := by rw [settleTimers_state]
theorem settleTimers_gen (s : State) : (settleTimers s).1.gen = s.gen := by rw [settleTimers_state]

theorem settleTimers_reqs (s : State) : ∀ r' ∈ (settleTimers s).1.requests, ∃ r ∈ s.requests, r.rid = r'.rid := by
  intro r' hr'
  rw [settleTimers_state] at hr'
  obtain ⟨q, hq, rfl⟩ := List.mem_map.1 hr'
  exact ⟨q, (List.mem_filter.1 hq).1, by simp⟩

theorem sinv_settleTimers {s : State} (h : SInv s) : SInv (settleTimers s).1 := by
  refine ⟨inv_settleTimers h.inv, ?_⟩
  apply pinv_of_rids h.pinv (settleTimers_cfg s) (by rw [settleTimers_draws]; exact Nat.le_refl _) (settleTimers_pending s)
    (fun r' hr' => .inl (settleTimers_reqs s r' hr'))
  intro t ht hwk
  rw [settleTimers_state] at ht
  rw [settleTimers_now]
  obtain ⟨t0, ht0, rfl⟩ := List.mem_map.1 (List.mem_filter.1 ht).1
  rw [startTask_woken] at hwk
  obtain ⟨d, hd, hle⟩ := h.pinv.woken_due t0 ht0 hwk
  rw [startTask_of_some hd]
  exact ⟨d, hd, hle⟩

theorem settleTimers_obs {s : State} (h : SInv s) : ∀ x ∈ (settleTimers s).2,
    ∃ t rid tk dl tid, x = Obs.removed t rid tk dl tid ∧ RemovedOk s t rid tk dl tid := by
  intro x hx
  have h0 := inv_mapStart s.now h.inv
  simp only [settleTimers] at hx
  have hF : ∀ t ∈ (s.tasks.map (startTask s.now)).filter (isDue s.now),
      ∃ t0 ∈ s.tasks, t = startTask s.now t0 ∧ t0.cancelled = false ∧ reached s.now t = true := by
    intro t ht
    obtain ⟨htm, hd⟩ := List.mem_filter.1 ht
    obtain ⟨t0, ht0, rfl⟩ := List.mem_map.1 htm
    refine ⟨t0, ht0, rfl, ?_⟩
    unfold isDue at hd
    simpa using hd
  have := fireAll_obs_ok _ s [] (h0.task_nodup.filter _)
    (by
      intro t ht
      obtain ⟨t0, ht0, rfl, hc, _⟩ := hF t ht
      obtain ⟨r, hr, _, k2, k3⟩ := h.task_live t0 ht0 hc
      exact ⟨r, hr, by simpa using k2, by simpa using k3⟩)
    h.ticket_inj x hx
  rcases this with h' | ⟨t, ht, rfl⟩
  · cases h'
  · obtain ⟨t0, ht0, rfl, hc, hre⟩ := hF t ht
    obtain ⟨r, hr, k1, k2, k3⟩ := h.task_live t0 ht0 hc
    unfold reached at hre
    cases hd : (startTask s.now t0).deadline with
    | none => simp [hd] at hre
    | some d =>
      simp only [hd, decide_eq_true_eq] at hre
      refine ⟨_, _, _, _, _, rfl, rfl, by simpa using hre, ⟨t0, ht0, by simp, by simp, hc, by simp [hd]⟩, r, hr, ?_⟩
      simp [k1, k2, k3]

/-! #### one iteration -/

@[simp] theorem wakeTask_id (n : Nat) (t : TTask) : (wakeTask n t).id = t.id := by
  unfold wakeTask; split
  · rfl
  · split <;> rfl
@[simp] theorem wakeTask_rid (n : Nat) (t : TTask) : (wakeTask n t).rid = t.rid := by
  unfold wakeTask; split
  · rfl
  · split <;> rfl
@[simp] theorem wakeTask_ticket (n : Nat) (t : TTask) : (wakeTask n t).ticket = t.ticket := by
  unfold wakeTask; split
  · rfl
  · split <;> rfl
@[simp] theorem wakeTask_cancelled (n : Nat) (t : TTask) : (wakeTask n t).cancelled = t.cancelled := by
  unfold wakeTask; split
  · rfl
  · split <;> rfl
@[simp] theorem wakeTask_timeout (n : Nat) (t : TTask) : (wakeTask n t).timeout = t.timeout := by
  unfold wakeTask; split
  · rfl
  · split <;> rfl

/-- a task that goes on sleeping or is woken: woken only when its sleep is over -/
theorem wakeTask_due (n : Nat) (t : TTask) (h : t.woken = true → ∃ d, t.deadline = some d ∧ d ≤ n) :
    (wakeTask n t).woken = true → ∃ d, (wakeTask n t).deadline = some d ∧ d ≤ n := by
  unfold wakeTask
  split
  · intro hw
    simp only [beq_iff_eq] at hw
    exact ⟨n + t.timeout, rfl, by omega⟩
  · rename_i d hd
    split
    · intro _; exact ⟨d, hd, by assumption⟩
    · exact h

theorem firesNow_endsNow {t : TTask} (h : firesNow t = true) : endsNow t = true := by
  unfold firesNow at h; unfold endsNow; simp_all
theorem firesNow_cancelled {t : TTask} (h : firesNow t = true) : t.cancelled = false := by
  unfold firesNow at h; simp_all
theorem firesNow_woken {t : TTask} (h : firesNow t = true) : t.woken = true := by
  unfold firesNow at h; simp_all

theorem tickTimers_state (s : State) :
    (tickTimers s).1 =
      { s with tasks := (s.tasks.filter (fun t => !endsNow t)).map (wakeTask s.now),
               requests := (s.requests.filter (fun r => (s.tasks.filter firesNow).all
                              (fun t => r.ticket ≠ t.ticket))).map (unsetDone (s.tasks.filter endsNow)) } := by
  simp only [tickTimers, fireAll_state]

theorem tickTimers_cfg (s : State) : (tickTimers s).1.cfg = s.cfg := by rw [tickTimers_state]
theorem tickTimers_draws (s : State) : (tickTimers s).1.draws = s.draws := by rw [tickTimers_state]
theorem tickTimers_now (s : State) : (tickTimers s).1.now = s.now := by rw [tickTimers_state]
theorem tickTimers_pending (s : State) : (tickTimers s).1.pending = s.pending := by rw [tickTimers_state]
theorem tickTimers_nextTask (s : State) : (tickTimers s).1.nextTask = s.nextTask := by rw [tickTimers_state]

theorem tickTimers_reqs (s : State) : ∀ r' ∈ (tickTimers s).1.requests, ∃ r ∈ s.requests, r.rid = r'.rid := by
  intro r' hr'
  rw [tickTimers_state] at hr'
  obtain ⟨q, hq, rfl⟩ := List.mem_map.1 hr'
  exact ⟨q, (List.mem_filter.1 hq).1, by simp⟩

theorem sinv_tickTimers {s : State} (h : SInv s) : SInv (tickTimers s).1 := by
  refine ⟨?_, ?_⟩
  · rw [tickTimers_state]
    have h1 := inv_fireCore h.inv firesNow endsNow (fun t => firesNow_endsNow) (fun t => firesNow_cancelled)
    have h2 := inv_mapTasks (wakeTask s.now) h1 (by simp) (by simp) (by simp) (by simp)
    exact h2
  · apply pinv_of_rids h.pinv (tickTimers_cfg s) (by rw [tickTimers_draws]; exact Nat.le_refl _) (tickTimers_pending s)
      (fun r' hr' => .inl (tickTimers_reqs s r' hr'))
    intro t ht
    rw [tickTimers_state] at ht
    rw [tickTimers_now]
    obtain ⟨t0, ht0, rfl⟩ := List.mem_map.1 ht
    exact wakeTask_due s.now t0 (h.pinv.woken_due t0 (List.mem_filter.1 ht0).1)

theorem tickTimers_obs {s : State} (h : SInv s) : ∀ x ∈ (tickTimers s).2,
    ∃ t rid tk dl tid, x = Obs.removed t rid tk dl tid ∧ RemovedOk s t rid tk dl tid := by
  intro x hx
  simp only [tickTimers] at hx
  have := fireAll_obs_ok _ s [] (h.task_nodup.filter _)
    (by
      intro t ht
      obtain ⟨htm, hf⟩ := List.mem_filter.1 ht
      obtain ⟨r, hr, _, k2, k3⟩ := h.task_live t htm (firesNow_cancelled hf)
      exact ⟨r, hr, k2, k3⟩)
    h.ticket_inj x hx
  rcases this with h' | ⟨t, ht, rfl⟩
  · cases h'
  · obtain ⟨htm, hf⟩ := List.mem_filter.1 ht
    obtain ⟨r, hr, k1, k2, k3⟩ := h.task_live t htm (firesNow_cancelled hf)
    obtain ⟨d, hd, hle⟩ := h.pinv.woken_due t htm (firesNow_woken hf)
    refine ⟨_, _, _, _, _, rfl, rfl, by rw [hd]; exact hle, ⟨t, htm, rfl, rfl, firesNow_cancelled hf, ?_⟩, r, hr, k1, k2, k3⟩
    rw [startTask_of_some hd, hd]; rfl

/-! ### `settle` and `tick` as a whole -/

theorem sinv_startAll {s : State} (h : SInv s) : SInv (startAll s) := by
  refine ⟨inv_mapStart s.now h.inv, ?_⟩
  apply pinv_of_rids (s' := startAll s) h.pinv rfl (Nat.le_refl _) rfl (fun r' hr' => .inl ⟨r', hr', rfl⟩)
  intro t ht hwk
  obtain ⟨t0, ht0, rfl⟩ := List.mem_map.1 ht
  rw [startTask_woken] at hwk
  obtain ⟨d, hd, hle⟩ := h.pinv.woken_due t0 ht0 hwk
  rw [startTask_of_some hd]
  exact ⟨d, hd, hle⟩

/-- the three phases of a loop run after the timers, seen from the state the timers leave -/
theorem adds_settleRest (s : State) (o : List Obs) :
    Adds s (settleWishlist (completeSetups s o).1 (completeSetups s o).2).1 :=
  (adds_completeSetups s o).trans (adds_settleWishlist _ _)

theorem adds_tickRest (s : State) (o : List Obs) :
    Adds s (tickWishlist (completeSetups s o).1 (completeSetups s o).2).1 :=
  (adds_completeSetups s o).trans (adds_tickWishlist _ _)

theorem settle_cfg (s : State) : (settle s).1.cfg = s.cfg := by
  simp only [settle, startAll]
  rw [(adds_settleRest _ _).cfg, settleTimers_cfg]

theorem settle_now (s : State) : (settle s).1.now = s.now := by
  simp only [settle, startAll]
  rw [(adds_settleRest _ _).now, settleTimers_now]

theorem settle_draws (s : State) : s.draws ≤ (settle s).1.draws := by
  simp only [settle, startAll]
  have := (adds_settleRest (settleTimers s).1 (settleTimers s).2).draws
  rw [settleTimers_draws] at this; exact this

theorem tick_cfg (s : State) : (tick s).1.cfg = s.cfg := by
  simp only [tick]
  rw [(adds_tickRest _ _).cfg, tickTimers_cfg]

theorem tick_now (s : State) : (tick s).1.now = s.now := by
  simp only [tick]
  rw [(adds_tickRest _ _).now, tickTimers_now]

theorem tick_draws (s : State) : s.draws ≤ (tick s).1.draws := by
  simp only [tick]
  have := (adds_tickRest (tickTimers s).1 (tickTimers s).2).draws
  rw [tickTimers_draws] at this; exact this

theorem sentOk_of_timers {s s1 : State} {x : Obs} (h1 : s1.now = s.now) (h2 : s1.cfg = s.cfg) (h3 : s1.draws = s.draws)
    (h4 : s1.pending = s.pending) (hx : SentOk s1 x) : SentOk s x := by
  obtain ⟨rid, he, hr⟩ := hx
  rw [h1, h2] at he
  rw [h3, h4] at hr
  exact ⟨rid, he, hr⟩

theorem ok_settle {s : State} (h : SInv s) (hw : NoWrap (settle s).1) :
    SInv (settle s).1 ∧ ∀ x ∈ (settle s).2,
      (∃ t rid tk dl tid, x = Obs.removed t rid tk dl tid ∧ RemovedOk s t rid tk dl tid) ∨ SentOk s x := by
  simp only [settle] at hw ⊢
  have hw2 : NoWrap (settleWishlist (completeSetups (settleTimers s).1 (settleTimers s).2).1
      (completeSetups (settleTimers s).1 (settleTimers s).2).2).1 := hw
  have hw1 : NoWrap (completeSetups (settleTimers s).1 (settleTimers s).2).1 :=
    noWrap_of_adds (adds_settleWishlist _ _) hw2
  have h0 := sinv_settleTimers h
  obtain ⟨h1, o1⟩ := ok_completeSetups (settleTimers s).2 h0 hw1
  obtain ⟨h2, o2⟩ := ok_settleWishlist _ h1 hw2
  refine ⟨sinv_startAll h2, ?_⟩
  intro x hx
  have back : ∀ y, SentOk (settleTimers s).1 y → SentOk s y := fun y hy =>
    sentOk_of_timers (settleTimers_now s) (settleTimers_cfg s) (settleTimers_draws s) (settleTimers_pending s) hy
  rcases o2 x hx with hx | hx
  · rcases o1 x hx with hx | hx
    · exact .inl (settleTimers_obs h x hx)
    · exact .inr (back x hx)
  · exact .inr (back x (hx.mono (adds_completeSetups _ _)))

theorem ok_tick {s : State} (h : SInv s) (hw : NoWrap (tick s).1) :
    SInv (tick s).1 ∧ ∀ x ∈ (tick s).2,
      (∃ t rid tk dl tid, x = Obs.removed t rid tk dl tid ∧ RemovedOk s t rid tk dl tid) ∨ SentOk s x := by
  simp only [tick] at hw ⊢
  have hw1 : NoWrap (completeSetups (tickTimers s).1 (tickTimers s).2).1 :=
    noWrap_of_adds (adds_tickWishlist _ _) hw
  have h0 := sinv_tickTimers h
  obtain ⟨h1, o1⟩ := ok_completeSetups (tickTimers s).2 h0 hw1
  obtain ⟨h2, o2⟩ := ok_tickWishlist _ h1 hw
  refine ⟨h2, ?_⟩
  intro x hx
  have back : ∀ y, SentOk (tickTimers s).1 y → SentOk s y := fun y hy =>
    sentOk_of_timers (tickTimers_now s) (tickTimers_cfg s) (tickTimers_draws s) (tickTimers_pending s) hy
  rcases o2 x hx with hx | hx
  · rcases o1 x hx with hx | hx
    · exact .inl (tickTimers_obs h x hx)
    · exact .inr (back x hx)
  · exact .inr (back x (hx.mono (adds_completeSetups _ _)))


/-! ### what any step does to the identities: requests, set-ups, task ids -/

/-- `s'` has at least the task-id counter of `s`, and every pending task of `s'` carries the id of a pending task
of `s` or a fresh one -/
def Grows (s s' : State) : Prop :=
  s.nextTask ≤ s'.nextTask ∧ ∀ t ∈ s'.tasks, (∃ t0 ∈ s.tasks, t0.id = t.id) ∨ s.nextTask ≤ t.id

theorem Grows.refl (s : State) : Grows s s := ⟨Nat.le_refl _, fun t ht => .inl ⟨t, ht, rfl⟩⟩

theorem Grows.trans {a b c : State} (h1 : Grows a b) (h2 : Grows b c) : Grows a c := by
  refine ⟨Nat.le_trans h1.1 h2.1, ?_⟩
  intro t ht
  rcases h2.2 t ht with ⟨t1, ht1, he⟩ | hge
  · rcases h1.2 t1 ht1 with ⟨t0, ht0, he0⟩ | hge
    · exact .inl ⟨t0, ht0, by omega⟩
    · exact .inr (by omega)
  · exact .inr (by have := h1.1; omega)

theorem grows_of_eq {s s' : State} (h1 : s'.nextTask = s.nextTask) (h2 : s'.tasks = s.tasks) : Grows s s' := by
  refine ⟨by omega, ?_⟩
  intro t ht
  rw [h2] at ht
  exact .inl ⟨t, ht, rfl⟩

theorem grows_timerCancel (s : State) (rid : Nat) (h : Option Nat) : Grows s (timerCancel s rid h) := by
  cases h with
  | none => exact Grows.refl s
  | some id =>
    rw [timerCancel_some]
    refine ⟨Nat.le_refl _, ?_⟩
    intro t ht
    obtain ⟨t0, ht0, rfl⟩ := List.mem_map.1 ht
    exact .inl ⟨t0, ht0, by simp⟩

theorem grows_timerStart (s : State) (rid tk T : Nat) : Grows s (timerStart s rid tk T) := by
  unfold timerStart
  refine ⟨by simp, ?_⟩
  intro t ht
  rcases List.mem_append.1 ht with h | h
  · exact .inl ⟨t, h, rfl⟩
  · simp at h; subst h; exact .inr (Nat.le_refl _)

theorem grows_of_adds {s s' : State} (h : Adds s s') : Grows s s' := by
  refine ⟨h.nextTask, ?_⟩
  intro t ht
  rcases h.tasks t ht with h0 | ⟨h1, _⟩
  · exact .inl ⟨t, h0, rfl⟩
  · exact .inr h1

theorem grows_settleTimers (s : State) : Grows s (settleTimers s).1 := by
  rw [settleTimers_state]
  refine ⟨Nat.le_refl _, ?_⟩
  intro t ht
  obtain ⟨t0, ht0, rfl⟩ := List.mem_map.1 (List.mem_filter.1 ht).1
  exact .inl ⟨t0, ht0, by simp⟩

theorem grows_tickTimers (s : State) : Grows s (tickTimers s).1 := by
  rw [tickTimers_state]
  refine ⟨Nat.le_refl _, ?_⟩
  intro t ht
  obtain ⟨t0, ht0, rfl⟩ := List.mem_map.1 ht
  exact .inl ⟨t0, (List.mem_filter.1 ht0).1, by simp⟩

theorem grows_startAll (s : State) : Grows s (startAll s) := by
  refine ⟨Nat.le_refl _, ?_⟩
  intro t ht
  obtain ⟨t0, ht0, rfl⟩ := List.mem_map.1 ht
  exact .inl ⟨t0, ht0, by simp⟩

/-- every request of `b` has the `rid` of a request of `a`, or is new (`rid > d`) -/
def RidsFrom (a : List Req) (d : Nat) (b : List Req) : Prop := ∀ r' ∈ b, (∃ r ∈ a, r.rid = r'.rid) ∨ d < r'.rid

theorem RidsFrom.refl (a : List Req) (d : Nat) : RidsFrom a d a := fun r' h => .inl ⟨r', h, rfl⟩

theorem RidsFrom.map {a b : List Req} {d : Nat} (h : RidsFrom a d b) (f : Req → Req) (hf : ∀ r, (f r).rid = r.rid) :
    RidsFrom a d (b.map f) := by
  intro r' hr'
  obtain ⟨q, hq, rfl⟩ := List.mem_map.1 hr'
  rw [hf]; exact h q hq

theorem RidsFrom.filter {a b : List Req} {d : Nat} (h : RidsFrom a d b) (p : Req → Bool) :
    RidsFrom a d (b.filter p) := fun r' hr' => h r' (List.mem_filter.1 hr').1

theorem RidsFrom.trans {a b c : List Req} {d d' : Nat} (h1 : RidsFrom a d b) (h2 : RidsFrom b d' c) (hd : d ≤ d') :
    RidsFrom a d c := by
  intro r' hr'
  rcases h2 r' hr' with ⟨q, hq, he⟩ | hlt
  · rcases h1 q hq with ⟨p, hp, he'⟩ | hlt
    · exact .inl ⟨p, hp, by omega⟩
    · exact .inr (by omega)
  · exact .inr (by omega)

theorem ridsFrom_setHandle (a : List Req) (d rid : Nat) (h : Option Nat) : RidsFrom a d (setHandle a rid h) :=
  (RidsFrom.refl a d).map _ (by intro r; split <;> rfl)

theorem ridsFrom_setTimeout (a : List Req) (d rid n : Nat) : RidsFrom a d (setTimeout a rid n) :=
  (RidsFrom.refl a d).map _ (by intro r; split <;> rfl)

theorem ridsFrom_timerCancel (s : State) (rid : Nat) (h : Option Nat) :
    RidsFrom s.requests s.draws (timerCancel s rid h).requests := by
  cases h with
  | none => exact RidsFrom.refl _ _
  | some id => exact ridsFrom_setHandle _ _ _ _

/-- what any step may do, as far as identities go: requests come from requests, from set-ups or from fresh draws;
set-ups from set-ups or fresh draws; task ids are never re-used; the clock does not go back -/
structure Evolves (s s' : State) : Prop where
  cfg : s'.cfg = s.cfg
  draws : s.draws ≤ s'.draws
  now : s.now ≤ s'.now
  reqs : ∀ r' ∈ s'.requests, (∃ r ∈ s.requests, r.rid = r'.rid) ∨ (∃ p ∈ s.pending, p.rid = r'.rid) ∨ s.draws < r'.rid
  pend : ∀ p' ∈ s'.pending, (∃ p ∈ s.pending, p.rid = p'.rid) ∨ s.draws < p'.rid
  grows : Grows s s'

theorem Evolves.refl (s : State) : Evolves s s :=
  ⟨rfl, Nat.le_refl _, Nat.le_refl _, fun r h => .inl ⟨r, h, rfl⟩, fun p h => .inl ⟨p, h, rfl⟩, Grows.refl s⟩

theorem Evolves.trans {a b c : State} (h1 : Evolves a b) (h2 : Evolves b c) : Evolves a c := by
  refine ⟨h2.cfg.trans h1.cfg, Nat.le_trans h1.draws h2.draws, Nat.le_trans h1.now h2.now, ?_, ?_, h1.grows.trans h2.grows⟩
  · intro r' hr'
    rcases h2.reqs r' hr' with ⟨r, hr, he⟩ | ⟨p, hp, he⟩ | hlt
    · rcases h1.reqs r hr with ⟨r0, hr0, he0⟩ | ⟨p0, hp0, he0⟩ | hlt
      · exact .inl ⟨r0, hr0, by omega⟩
      · exact .inr (.inl ⟨p0, hp0, by omega⟩)
      · exact .inr (.inr (by omega))
    · rcases h1.pend p hp with ⟨p0, hp0, he0⟩ | hlt
      · exact .inr (.inl ⟨p0, hp0, by omega⟩)
      · exact .inr (.inr (by omega))
    · exact .inr (.inr (by have := h1.draws; omega))
  · intro p' hp'
    rcases h2.pend p' hp' with ⟨p, hp, he⟩ | hlt
    · rcases h1.pend p hp with ⟨p0, hp0, he0⟩ | hlt
      · exact .inl ⟨p0, hp0, by omega⟩
      · exact .inr (by omega)
    · exact .inr (by have := h1.draws; omega)

theorem evolves_of_adds {s s' : State} (h : Adds s s') : Evolves s s' :=
  ⟨h.cfg, h.draws, by rw [h.now]; exact Nat.le_refl _, h.reqs, h.pend, grows_of_adds h⟩

/-- a step that leaves the set-ups alone and whose requests all come from requests -/
theorem evolves_of_rids {s s' : State} (h1 : s'.cfg = s.cfg) (h2 : s'.draws = s.draws) (h3 : s.now ≤ s'.now)
    (h4 : RidsFrom s.requests s.draws s'.requests) (h5 : ∀ p' ∈ s'.pending, p' ∈ s.pending) (h6 : Grows s s') :
    Evolves s s' := by
  refine ⟨h1, by omega, h3, ?_, fun p' hp' => .inl ⟨p', h5 p' hp', rfl⟩, h6⟩
  intro r' hr'
  rcases h4 r' hr' with h | h
  · exact .inl h
  · exact .inr (.inr h)

theorem evolves_settleTimers (s : State) : Evolves s (settleTimers s).1 :=
  evolves_of_rids (settleTimers_cfg s) (settleTimers_draws s) (by rw [settleTimers_now]; exact Nat.le_refl _)
    (fun r' hr' => .inl (settleTimers_reqs s r' hr')) (by rw [settleTimers_pending]; exact fun _ h => h)
    (grows_settleTimers s)

theorem evolves_tickTimers (s : State) : Evolves s (tickTimers s).1 :=
  evolves_of_rids (tickTimers_cfg s) (tickTimers_draws s) (by rw [tickTimers_now]; exact Nat.le_refl _)
    (fun r' hr' => .inl (tickTimers_reqs s r' hr')) (by rw [tickTimers_pending]; exact fun _ h => h)
    (grows_tickTimers s)

theorem evolves_startAll (s : State) : Evolves s (startAll s) :=
  evolves_of_rids rfl rfl (Nat.le_refl _) (RidsFrom.refl _ _) (fun _ h => h) (grows_startAll s)

theorem evolves_settle (s : State) : Evolves s (settle s).1 := by
  simp only [settle]
  exact ((evolves_settleTimers s).trans (evolves_of_adds (adds_settleRest _ _))).trans (evolves_startAll _)

theorem evolves_tick (s : State) : Evolves s (tick s).1 := by
  simp only [tick]
  exact (evolves_tickTimers s).trans (evolves_of_adds (adds_tickRest _ _))

theorem mem_setOutcome {ps : List Setup} {rid : Nat} {b : Bool} {p' : Setup} (h : p' ∈ setOutcome ps rid b) :
    ∃ p ∈ ps, p.rid = p'.rid ∧ p.ticket = p'.ticket ∧ p.kind = p'.kind := by
  unfold setOutcome at h
  obtain ⟨q, hq, rfl⟩ := List.mem_map.1 h
  refine ⟨q, hq, ?_⟩
  split <;> exact ⟨rfl, rfl, rfl⟩

theorem evolves_step (s : State) (op : Op) : Evolves s (step s op).1 := by
  cases op with
  | search k =>
    simp only [step]
    split
    · exact evolves_of_adds (adds_beginSetup s k)
    · exact evolves_of_adds (adds_newRequest s k _ (fun T h => requestTimeout_pos h))
  | wlInterval n =>
    exact evolves_of_rids rfl rfl (Nat.le_refl _) (RidsFrom.refl _ _)
      (fun p' hp' => (List.mem_filter.1 hp').1) (grows_of_eq rfl rfl)
  | serverClosing =>
    exact evolves_of_rids rfl rfl (Nat.le_refl _) (RidsFrom.refl _ _)
      (fun p' hp' => (List.mem_filter.1 hp').1) (grows_of_eq rfl rfl)
  | jump d =>
    exact evolves_of_rids rfl rfl (by simp [step]) (RidsFrom.refl _ _) (fun _ h => h) (grows_of_eq rfl rfl)
  | gate b => exact evolves_of_rids rfl rfl (Nat.le_refl _) (RidsFrom.refl _ _) (fun _ h => h) (grows_of_eq rfl rfl)
  | sessionDestroyed => exact evolves_of_rids rfl rfl (Nat.le_refl _) (RidsFrom.refl _ _) (fun _ h => h) (grows_of_eq rfl rfl)
  | sessionInitialized => exact evolves_of_rids rfl rfl (Nat.le_refl _) (RidsFrom.refl _ _) (fun _ h => h) (grows_of_eq rfl rfl)
  | settle => exact evolves_settle s
  | tick => exact evolves_tick s
  | sendDone tk ok =>
    simp only [step]
    split
    · exact Evolves.refl s
    · refine ⟨rfl, Nat.le_refl _, Nat.le_refl _, fun r h => .inl ⟨r, h, rfl⟩, ?_, grows_of_eq rfl rfl⟩
      intro p' hp'
      obtain ⟨p, hp, h1, _⟩ := mem_setOutcome hp'
      exact .inl ⟨p, hp, h1⟩
  | cancelCall tk =>
    simp only [step]
    split
    · exact Evolves.refl s
    · refine ⟨rfl, Nat.le_refl _, Nat.le_refl _, fun r h => .inl ⟨r, h, rfl⟩, ?_, grows_of_eq rfl rfl⟩
      intro p' hp'
      obtain ⟨p, hp, h1, _⟩ := mem_setOutcome hp'
      exact .inl ⟨p, hp, h1⟩
  | remove tk =>
    simp only [step]
    cases hl : lookup s tk with
    | none => exact Evolves.refl s
    | some r =>
      cases hto : r.timeout with
      | none =>
        simp only [hto]
        exact evolves_of_rids rfl rfl (Nat.le_refl _) ((RidsFrom.refl s.requests s.draws).filter _) (fun _ h => h)
          (grows_of_eq rfl rfl)
      | some T =>
        simp only [hto]
        refine evolves_of_rids (by cases r.handle <;> rfl) (by cases r.handle <;> rfl)
          (by cases r.handle <;> exact Nat.le_refl _) ?_ (by cases r.handle <;> exact fun _ h => h) ?_
        · exact ((RidsFrom.refl s.requests s.draws).filter _).trans (ridsFrom_timerCancel _ _ _) (Nat.le_refl _)
        · exact (grows_of_eq (s' := { s with requests := s.requests.filter (fun q => q.ticket ≠ tk) }) rfl rfl).trans
            (grows_timerCancel _ _ _)
  | reply tk =>
    simp only [step]
    cases hl : lookup s tk with
    | none => exact Evolves.refl s
    | some r =>
      simp only []
      refine evolves_of_rids rfl rfl (Nat.le_refl _) ?_ (fun _ h => h) (grows_of_eq rfl rfl)
      simp only []
      split
      · exact (RidsFrom.refl _ _).map _ (by intro r; split <;> rfl)
      · exact RidsFrom.refl _ _
  | timerCancel tk =>
    simp only [step]
    cases hl : lookup s tk with
    | none => exact Evolves.refl s
    | some r =>
      cases hto : r.timeout with
      | none => simp only [hto]; exact Evolves.refl s
      | some T =>
        simp only [hto]
        exact evolves_of_rids (by cases r.handle <;> rfl) (by cases r.handle <;> rfl)
          (by cases r.handle <;> exact Nat.le_refl _) (ridsFrom_timerCancel s r.rid r.handle)
          (by cases r.handle <;> exact fun _ h => h) (grows_timerCancel s _ _)
  | timerReschedule tk n =>
    simp only [step]
    cases hl : lookup s tk with
    | none => exact Evolves.refl s
    | some r =>
      cases hto : r.timeout with
      | none => simp only [hto]; exact Evolves.refl s
      | some T =>
        simp only [hto]
        refine evolves_of_rids (by cases r.handle <;> rfl) (by cases r.handle <;> rfl)
          (by cases r.handle <;> exact Nat.le_refl _) ?_ (by cases r.handle <;> exact fun _ h => h) ?_
        · simp only [timerStart]
          exact ((ridsFrom_timerCancel s r.rid r.handle).trans (ridsFrom_setTimeout _ s.draws _ _) (Nat.le_refl _)).trans
            (ridsFrom_setHandle _ s.draws _ _) (Nat.le_refl _)
        · exact ((grows_timerCancel s r.rid r.handle).trans
            (grows_of_eq (s' := { (timerCancel s r.rid r.handle) with
              requests := setTimeout (timerCancel s r.rid r.handle).requests r.rid n }) rfl rfl)).trans
            (grows_timerStart _ _ _ _)

theorem step_cfg (s : State) (op : Op) : (step s op).1.cfg = s.cfg := (evolves_step s op).cfg
theorem step_draws (s : State) (op : Op) : s.draws ≤ (step s op).1.draws := (evolves_step s op).draws
theorem grows_step (s : State) (op : Op) : Grows s (step s op).1 := (evolves_step s op).grows

theorem noWrap_of_step (s : State) (op : Op) (h : NoWrap (step s op).1) : NoWrap s := by
  unfold NoWrap at h ⊢
  rw [step_cfg] at h
  have := step_draws s op
  omega


/-! ### every step keeps the invariant -/

@[simp] theorem markCancelled_woken (i : Nat) (t : TTask) : (markCancelled i t).woken = t.woken := by
  unfold markCancelled; split <;> rfl
@[simp] theorem markCancelled_deadline (i : Nat) (t : TTask) : (markCancelled i t).deadline = t.deadline := by
  unfold markCancelled; split <;> rfl

/-- the woken tasks of `s'` are woken tasks of `s` (same deadline) -/
def WokenFrom (s s' : State) : Prop :=
  ∀ t' ∈ s'.tasks, t'.woken = true → ∃ t ∈ s.tasks, t.woken = true ∧ t.deadline = t'.deadline

theorem wokenFrom_timerCancel (s : State) (rid : Nat) (h : Option Nat) : WokenFrom s (timerCancel s rid h) := by
  cases h with
  | none => exact fun t ht hw => ⟨t, ht, hw, rfl⟩
  | some id =>
    rw [timerCancel_some]
    intro t ht hw
    obtain ⟨t0, ht0, rfl⟩ := List.mem_map.1 ht
    exact ⟨t0, ht0, by simpa using hw, by simp⟩

theorem pinv_of_wokenFrom {s s' : State} (h : PInv s) (h1 : s'.cfg = s.cfg) (h2 : s.draws ≤ s'.draws)
    (h3 : s.now ≤ s'.now) (h6 : s'.pending = s.pending)
    (hr : RidsFrom s.requests s.draws s'.requests) (hw : WokenFrom s s') : PInv s' := by
  apply pinv_of_rids h h1 h2 h6 hr
  intro t' ht' hwk
  obtain ⟨t, ht, k1, k2⟩ := hw t' ht' hwk
  obtain ⟨d, hd, hle⟩ := h.woken_due t ht k1
  exact ⟨d, by rw [← k2]; exact hd, by omega⟩

theorem pinv_subPending {s : State} (h : PInv s) (f : Setup → Bool) :
    PInv { s with pending := s.pending.filter f } := by
  obtain ⟨pa, pb, pc, pd⟩ := h
  constructor <;> simp only []
  · intro p hp; exact pa p (List.mem_filter.1 hp).1
  · exact pb.filter _
  · intro p hp; exact pc p (List.mem_filter.1 hp).1
  · exact pd

theorem pinv_setOutcome {s : State} (h : PInv s) (rid : Nat) (b : Bool) :
    PInv { s with pending := setOutcome s.pending rid b } := by
  obtain ⟨pa, pb, pc, pd⟩ := h
  constructor <;> simp only []
  · intro p' hp'
    obtain ⟨p, hp, h1, h2, _⟩ := mem_setOutcome hp'
    have := pa p hp
    omega
  · unfold setOutcome
    rw [List.pairwise_map]
    apply pb.imp
    intro a b hab
    split <;> split <;> exact hab
  · intro p' hp' r hr
    obtain ⟨p, hp, h1, _⟩ := mem_setOutcome hp'
    have := pc p hp r hr
    omega
  · exact pd

theorem sinv_cancelWishlist {s : State} (h : SInv s) : SInv (cancelWishlist s) :=
  ⟨inv_congr h.inv rfl rfl rfl rfl rfl rfl, pinv_congr (pinv_subPending h.pinv _) rfl rfl rfl rfl rfl rfl⟩

theorem sinv_step {s : State} (op : Op) (h : SInv s) (hw : NoWrap (step s op).1) : SInv (step s op).1 := by
  cases op with
  | search k =>
    simp only [step] at hw ⊢
    by_cases hg : s.gated = true
    · simp only [hg, if_true] at hw ⊢; exact sinv_beginSetup h k hw
    · simp only [hg, if_false] at hw ⊢; exact sinv_newRequest h k _ hw
  | wlInterval n => exact sinv_congr (sinv_cancelWishlist h) rfl rfl rfl rfl rfl rfl rfl rfl
  | serverClosing => exact sinv_cancelWishlist h
  | gate b => exact sinv_congr h rfl rfl rfl rfl rfl rfl rfl rfl
  | sessionDestroyed => exact sinv_congr h rfl rfl rfl rfl rfl rfl rfl rfl
  | sessionInitialized => exact sinv_congr h rfl rfl rfl rfl rfl rfl rfl rfl
  | settle => exact (ok_settle h hw).1
  | tick => exact (ok_tick h hw).1
  | jump d =>
    refine ⟨inv_congr h.inv rfl rfl rfl rfl rfl rfl, ?_⟩
    exact pinv_of_wokenFrom (s' := (step s (.jump d)).1) h.pinv rfl (Nat.le_refl _) (by simp [step]) rfl
      (RidsFrom.refl _ _) (fun t ht hw => ⟨t, ht, hw, rfl⟩)
  | sendDone tk ok =>
    simp only [step]
    split
    · exact h
    · exact ⟨inv_congr h.inv rfl rfl rfl rfl rfl rfl, pinv_setOutcome h.pinv _ _⟩
  | cancelCall tk =>
    simp only [step]
    split
    · exact h
    · exact ⟨inv_congr h.inv rfl rfl rfl rfl rfl rfl, pinv_setOutcome h.pinv _ _⟩
  | remove tk =>
    cases hl : lookup s tk with
    | none => simpa [step, hl] using h
    | some r =>
      refine ⟨inv_remove h.inv tk r hl, ?_⟩
      have hev := evolves_step s (.remove tk)
      simp only [step, hl] at hev ⊢
      cases hto : r.timeout with
      | none =>
        simp only [hto]
        exact pinv_of_wokenFrom (s' := { s with requests := s.requests.filter (fun q => q.ticket ≠ tk) }) h.pinv rfl
          (Nat.le_refl _) (Nat.le_refl _) rfl ((RidsFrom.refl _ _).filter _) (fun t ht hw => ⟨t, ht, hw, rfl⟩)
      | some T =>
        simp only [hto]
        apply pinv_of_wokenFrom h.pinv (by cases r.handle <;> rfl) (by cases r.handle <;> exact Nat.le_refl _)
          (by cases r.handle <;> exact Nat.le_refl _) (by cases r.handle <;> rfl)
        · exact ((RidsFrom.refl s.requests s.draws).filter _).trans (ridsFrom_timerCancel _ _ _) (Nat.le_refl _)
        · exact wokenFrom_timerCancel { s with requests := s.requests.filter (fun q => q.ticket ≠ tk) } r.rid r.handle
  | reply tk =>
    simp only [step]
    cases hl : lookup s tk with
    | none => simpa using h
    | some r =>
      simp only []
      cases hs : s.cfg.storeResults with
      | false => simpa using sinv_congr h rfl rfl rfl rfl rfl rfl rfl rfl
      | true =>
        simp only [if_true]
        refine ⟨by simpa using inv_reply tk h.inv, ?_⟩
        let f : Req → Req := fun q => if q.ticket = tk then { q with results := q.results + 1 } else q
        exact pinv_of_wokenFrom (s' := { s with requests := s.requests.map f }) h.pinv rfl (Nat.le_refl _)
          (Nat.le_refl _) rfl ((RidsFrom.refl _ _).map f (by intro r; simp only [f]; split <;> rfl))
          (fun t ht hw => ⟨t, ht, hw, rfl⟩)
  | timerCancel tk =>
    simp only [step]
    cases hl : lookup s tk with
    | none => simpa using h
    | some r =>
      cases hto : r.timeout with
      | none => simpa [hto] using h
      | some T =>
        simp only [hto]
        refine ⟨inv_timerCancel h.inv r (lookup_some hl).1, ?_⟩
        exact pinv_of_wokenFrom h.pinv (by cases r.handle <;> rfl) (by cases r.handle <;> exact Nat.le_refl _)
          (by cases r.handle <;> exact Nat.le_refl _) (by cases r.handle <;> rfl)
          (ridsFrom_timerCancel s r.rid r.handle) (wokenFrom_timerCancel s r.rid r.handle)
  | timerReschedule tk n =>
    refine ⟨inv_reschedule h.inv tk n, ?_⟩
    simp only [step]
    cases hl : lookup s tk with
    | none => simpa using h.pinv
    | some r =>
      cases hto : r.timeout with
      | none => simpa [hto] using h.pinv
      | some T =>
        simp only [hto]
        apply pinv_of_wokenFrom h.pinv (by cases r.handle <;> rfl) (by cases r.handle <;> exact Nat.le_refl _)
          (by cases r.handle <;> exact Nat.le_refl _) (by cases r.handle <;> rfl)
        · simp only [timerStart]
          exact ((ridsFrom_timerCancel s r.rid r.handle).trans (ridsFrom_setTimeout _ s.draws _ _) (Nat.le_refl _)).trans
            (ridsFrom_setHandle _ s.draws _ _) (Nat.le_refl _)
        · intro t ht hwk
          simp only [timerStart] at ht
          rcases List.mem_append.1 ht with ht | ht
          · exact wokenFrom_timerCancel s r.rid r.handle t ht hwk
          · simp at ht; subst ht; cases hwk

theorem inv_init (cfg : Cfg) : Inv (init cfg) := by
  constructor <;> simp [init]

theorem sinv_init (cfg : Cfg) : SInv (init cfg) := by
  refine ⟨inv_init cfg, ?_⟩
  constructor <;> simp [init]

/-! ### what a step may report -/

def ObsOk (s : State) (op : Op) : Obs → Prop
  | .sent t rid tk => t = s.now ∧ tk = s.cfg.initial + rid ∧ (s.draws < rid ∨ ∃ p ∈ s.pending, p.rid = rid)
  | .removed t rid tk dl tid => (op = .settle ∨ op = .tick) ∧ RemovedOk s t rid tk dl tid
  | .result t rid tk => op = .reply tk ∧ t = s.now ∧ ∃ r ∈ s.requests, r.rid = rid ∧ r.ticket = tk
  | .loopErr _ _ _ _ => False
  | .clobber _ _ => False
  | .callerErr => ∃ tk, op = .remove tk ∧ ∀ r ∈ s.requests, r.ticket ≠ tk
  | .noReq => True
  | .noTimer => True
  | .noSetup => True

theorem obsOk_of_sentOk {s : State} {op : Op} {x : Obs} (h : SentOk s x) : ObsOk s op x := by
  obtain ⟨rid, rfl, hr⟩ := h
  exact ⟨rfl, rfl, hr⟩

theorem step_obs {s : State} (op : Op) (h : SInv s) (hw : NoWrap (step s op).1) :
    ∀ x ∈ (step s op).2, ObsOk s op x := by
  cases op with
  | search k =>
    intro x hx
    simp only [step] at hx hw
    by_cases hg : s.gated = true
    · simp only [hg, if_true] at hx; cases hx
    · simp only [hg, if_false] at hx hw
      exact obsOk_of_sentOk (newRequest_sentOk h k _ hw x hx)
  | wlInterval n => intro x hx; cases hx
  | serverClosing => intro x hx; cases hx
  | jump d => intro x hx; cases hx
  | gate b => intro x hx; cases hx
  | sessionDestroyed => intro x hx; cases hx
  | sessionInitialized => intro x hx; cases hx
  | sendDone tk ok =>
    intro x hx
    simp only [step] at hx
    split at hx
    · simp at hx; subst hx; trivial
    · cases hx
  | cancelCall tk =>
    intro x hx
    simp only [step] at hx
    split at hx
    · simp at hx; subst hx; trivial
    · cases hx
  | remove tk =>
    intro x hx
    simp only [step] at hx
    cases hl : lookup s tk with
    | none =>
      simp [hl] at hx; subst hx
      exact ⟨tk, rfl, lookup_none hl⟩
    | some r => simp [hl] at hx
  | reply tk =>
    intro x hx
    simp only [step] at hx
    cases hl : lookup s tk with
    | none => simp [hl] at hx
    | some r =>
      simp [hl] at hx; subst hx
      exact ⟨rfl, rfl, r, (lookup_some hl).1, rfl, (lookup_some hl).2⟩
  | timerCancel tk =>
    intro x hx
    simp only [step] at hx
    cases hl : lookup s tk with
    | none => simp [hl] at hx; subst hx; trivial
    | some r =>
      cases hto : r.timeout with
      | none => simp [hl, hto] at hx; subst hx; trivial
      | some T => simp [hl, hto] at hx
  | timerReschedule tk n =>
    intro x hx
    simp only [step] at hx
    cases hl : lookup s tk with
    | none => simp [hl] at hx; subst hx; trivial
    | some r =>
      cases hto : r.timeout with
      | none => simp [hl, hto] at hx; subst hx; trivial
      | some T => simp [hl, hto] at hx
  | settle =>
    intro x hx
    rcases (ok_settle h hw).2 x hx with ⟨t, rid, tk, dl, tid, rfl, hok⟩ | hs
    · exact ⟨.inl rfl, hok⟩
    · exact obsOk_of_sentOk hs
  | tick =>
    intro x hx
    rcases (ok_tick h hw).2 x hx with ⟨t, rid, tk, dl, tid, rfl, hok⟩ | hs
    · exact ⟨.inr rfl, hok⟩
    · exact obsOk_of_sentOk hs

/-! ### a removed request stays silent -/

def obsRid : Obs → Option Nat
  | .sent _ rid _ => some rid
  | .removed _ rid _ _ _ => some rid
  | .result _ rid _ => some rid
  | .loopErr _ rid _ _ => some rid
  | _ => none

/-- request object `rid` exists (its ticket has been drawn), is not registered and is not being set up -/
def Gone (rid : Nat) (s : State) : Prop :=
  rid ≤ s.draws ∧ (∀ q ∈ s.requests, q.rid ≠ rid) ∧ ∀ p ∈ s.pending, p.rid ≠ rid

theorem gone_of_evolves {s s' : State} {rid : Nat} (he : Evolves s s') (hg : Gone rid s) : Gone rid s' := by
  refine ⟨Nat.le_trans hg.1 he.draws, ?_, ?_⟩
  · intro q hq heq
    rcases he.reqs q hq with ⟨r, hr, h1⟩ | ⟨p, hp, h1⟩ | hlt
    · exact hg.2.1 r hr (by omega)
    · exact hg.2.2 p hp (by omega)
    · have := hg.1; omega
  · intro p' hp' heq
    rcases he.pend p' hp' with ⟨p, hp, h1⟩ | hlt
    · exact hg.2.2 p hp (by omega)
    · have := hg.1; omega

theorem gone_step {s : State} {rid : Nat} (op : Op) (hg : Gone rid s) : Gone rid (step s op).1 :=
  gone_of_evolves (evolves_step s op) hg

theorem gone_step_obs {s : State} {rid : Nat} (op : Op) (h : SInv s) (hw : NoWrap (step s op).1) (hg : Gone rid s) :
    ∀ x ∈ (step s op).2, obsRid x ≠ some rid := by
  intro x hx
  have hok := step_obs op h hw x hx
  cases x with
  | sent t r tk =>
    simp only [obsRid, ObsOk] at hok ⊢
    intro hc; cases hc
    rcases hok.2.2 with hlt | ⟨p, hp, hpr⟩
    · have := hg.1; omega
    · exact hg.2.2 p hp hpr
  | removed t r tk dl tid =>
    simp only [obsRid, ObsOk, RemovedOk] at hok ⊢
    obtain ⟨_, _, _, _, q, hq, hqr, _⟩ := hok
    intro hc; cases hc; exact hg.2.1 q hq hqr
  | result t r tk =>
    simp only [obsRid, ObsOk] at hok ⊢
    obtain ⟨_, _, q, hq, hqr, _⟩ := hok
    intro hc; cases hc; exact hg.2.1 q hq hqr
  | loopErr t r tk tid => exact absurd hok (by simp [ObsOk])
  | callerErr => simp [obsRid]
  | noReq => simp [obsRid]
  | noTimer => simp [obsRid]
  | noSetup => simp [obsRid]
  | clobber a b => simp [obsRid]

theorem gone_run {rid : Nat} (ops : List Op) (s : State) (h : SInv s) (hw : NoWrap (run s ops).1) (hg : Gone rid s) :
    ∀ x ∈ (run s ops).2, obsRid x ≠ some rid := by
  have := run_ind (P := fun s tr => SInv s ∧ Gone rid s ∧ ∀ x ∈ tr, obsRid x ≠ some rid) (G := NoWrap)
    noWrap_of_step
    (by
      intro s tr op ⟨hi, hg, ht⟩ hw
      refine ⟨sinv_step op hi hw, gone_step op hg, ?_⟩
      intro x hx
      rcases List.mem_append.1 hx with hx | hx
      · exact ht x hx
      · exact gone_step_obs op hi hw hg x hx)
    ops s [] ⟨h, hg, by simp⟩ hw
  simpa using this.2.2


/-! ### registering steps report no removal (from any state) -/

def removedRid : Obs → Option Nat
  | .removed _ rid _ _ _ => some rid
  | _ => none

/-- `o'` is `o` followed by observations none of which is a timeout removal -/
def NoRemovals (o o' : List Obs) : Prop := ∃ n, o' = o ++ n ∧ ∀ x ∈ n, removedRid x = none

theorem NoRemovals.refl (o : List Obs) : NoRemovals o o := ⟨[], by simp, by simp⟩

theorem NoRemovals.trans {a b c : List Obs} (h1 : NoRemovals a b) (h2 : NoRemovals b c) : NoRemovals a c := by
  obtain ⟨n1, rfl, k1⟩ := h1
  obtain ⟨n2, rfl, k2⟩ := h2
  refine ⟨n1 ++ n2, by simp, ?_⟩
  intro x hx
  rcases List.mem_append.1 hx with hx | hx
  · exact k1 x hx
  · exact k2 x hx

theorem NoRemovals.filterMap {o o' : List Obs} (h : NoRemovals o o') : o'.filterMap removedRid = o.filterMap removedRid := by
  obtain ⟨n, rfl, k⟩ := h
  rw [List.filterMap_append]
  have : n.filterMap removedRid = [] := List.filterMap_eq_nil_iff.2 k
  rw [this, List.append_nil]

theorem NoRemovals.mem {o o' : List Obs} (h : NoRemovals o o') {t rid tk dl tid : Nat}
    (hx : Obs.removed t rid tk dl tid ∈ o') : Obs.removed t rid tk dl tid ∈ o := by
  obtain ⟨n, rfl, k⟩ := h
  rcases List.mem_append.1 hx with hx | hx
  · exact hx
  · have := k _ hx; simp [removedRid] at this

theorem noRemovals_append (o : List Obs) (n : List Obs) (h : ∀ x ∈ n, removedRid x = none) : NoRemovals o (o ++ n) :=
  ⟨n, rfl, h⟩

theorem newRequest_noRemovals (s : State) (k : Kind) (to : Option Nat) : ∀ x ∈ (newRequest s k to).2, removedRid x = none := by
  intro x hx
  unfold newRequest at hx
  simp only [] at hx
  rcases List.mem_append.1 hx with hx | hx
  · obtain ⟨r, _, rfl⟩ := List.mem_map.1 hx; rfl
  · simp at hx; subst hx; rfl

theorem register_noRemovals (s : State) (p : Setup) : ∀ x ∈ (register s p).2, removedRid x = none := by
  intro x hx
  unfold register at hx
  simp only [] at hx
  rcases List.mem_append.1 hx with hx | hx
  · obtain ⟨r, _, rfl⟩ := List.mem_map.1 hx; rfl
  · simp at hx; subst hx; rfl

theorem wishlistRound_noRemovals (n : Nat) (s : State) (o : List Obs) : NoRemovals o (wishlistRound n s o).2 := by
  induction n generalizing s o with
  | zero => exact NoRemovals.refl o
  | succ n ih =>
    simp only [wishlistRound]
    exact (noRemovals_append o _ (newRequest_noRemovals s _ _)).trans (ih _ _)

theorem roundGo_noRemovals (m : Nat) (s : State) (o : List Obs) : NoRemovals o (roundGo m s o).2 := by
  unfold roundGo
  split
  · cases m <;> exact NoRemovals.refl o
  · exact wishlistRound_noRemovals m s o

theorem completeOne_noRemovals (s : State) (rid : Nat) (o : List Obs) : NoRemovals o (completeOne s rid o).2 := by
  unfold completeOne
  split
  · exact NoRemovals.refl o
  · split
    · exact NoRemovals.refl o
    · split
      · split
        · exact (noRemovals_append o _ (register_noRemovals _ _)).trans (roundGo_noRemovals _ _ _)
        · exact noRemovals_append o _ (register_noRemovals _ _)
      · split <;> exact NoRemovals.refl o

theorem completeAll_noRemovals (rids : List Nat) (s : State) (o : List Obs) : NoRemovals o (completeAll rids s o).2 := by
  induction rids generalizing s o with
  | nil => exact NoRemovals.refl o
  | cons rid rids ih => simp only [completeAll]; exact (completeOne_noRemovals s rid o).trans (ih _ _)

theorem settleWishlist_noRemovals (s : State) (o : List Obs) : NoRemovals o (settleWishlist s o).2 := by
  unfold settleWishlist
  split
  · exact NoRemovals.refl o
  · split
    · exact roundGo_noRemovals _ _ _
    · exact NoRemovals.refl o

theorem tickWishlist_noRemovals (s : State) (o : List Obs) : NoRemovals o (tickWishlist s o).2 := by
  unfold tickWishlist
  split
  · exact NoRemovals.refl o
  · split
    · exact roundGo_noRemovals _ _ _
    · split <;> exact NoRemovals.refl o

theorem settle_noRemovals (s : State) : NoRemovals (settleTimers s).2 (settle s).2 := by
  simp only [settle]
  exact (completeAll_noRemovals _ _ _).trans (settleWishlist_noRemovals _ _)

theorem tick_noRemovals (s : State) : NoRemovals (tickTimers s).2 (tick s).2 := by
  simp only [tick]
  exact (completeAll_noRemovals _ _ _).trans (tickWishlist_noRemovals _ _)

/-! ### the request whose timer fires is gone afterwards; a removal is reported at most once -/

/-- firing the un-cancelled tasks `F` of `s`: a removal reported is that of a registered request, and that request
does not survive -/
theorem fired_gone {s : State} (h : SInv s) (F : List TTask)
    (hF : ∀ f ∈ F, ∃ t0 ∈ s.tasks, t0.rid = f.rid ∧ t0.ticket = f.ticket ∧ t0.cancelled = false)
    {t rid tk dl tid : Nat} (hx : Obs.removed t rid tk dl tid ∈ (fireAll F s []).2) :
    (∃ r ∈ s.requests, r.rid = rid) ∧
      ∀ q ∈ s.requests.filter (fun r => F.all (fun f => r.ticket ≠ f.ticket)), q.rid ≠ rid := by
  rcases fireAll_obs_mem _ _ _ _ hx with h0 | ⟨f, hf, h0 | h0⟩
  · cases h0
  · simp only [Obs.removed.injEq] at h0
    obtain ⟨_, h2, h3, _, _⟩ := h0
    obtain ⟨t0, ht0, k1, k2, k3⟩ := hF f hf
    obtain ⟨r, hr, j1, j2, _⟩ := h.task_live t0 ht0 k3
    refine ⟨⟨r, hr, by omega⟩, ?_⟩
    intro q hq heq
    obtain ⟨hqm, hall⟩ := List.mem_filter.1 hq
    have : q = r := h.req_uniq q hqm r hr (by omega)
    subst this
    rw [List.all_eq_true] at hall
    have := hall f hf
    simp at this
    omega
  · cases h0

theorem settle_fired {s : State} : ∀ f ∈ (s.tasks.map (startTask s.now)).filter (isDue s.now),
    ∃ t0 ∈ s.tasks, t0.rid = f.rid ∧ t0.ticket = f.ticket ∧ t0.cancelled = false := by
  intro f hf
  obtain ⟨hfm, hd⟩ := List.mem_filter.1 hf
  obtain ⟨t0, ht0, rfl⟩ := List.mem_map.1 hfm
  refine ⟨t0, ht0, by simp, by simp, ?_⟩
  unfold isDue at hd
  simp only [Bool.and_eq_true, Bool.not_eq_true', startTask_cancelled] at hd
  exact hd.1

theorem tick_fired {s : State} : ∀ f ∈ s.tasks.filter firesNow,
    ∃ t0 ∈ s.tasks, t0.rid = f.rid ∧ t0.ticket = f.ticket ∧ t0.cancelled = false := by
  intro f hf
  obtain ⟨hfm, hd⟩ := List.mem_filter.1 hf
  exact ⟨f, hfm, rfl, rfl, firesNow_cancelled hd⟩

/-- after a timeout removal was reported the request is gone -/
theorem gone_after_settle {s : State} (h : SInv s) {t rid tk dl tid : Nat}
    (hx : Obs.removed t rid tk dl tid ∈ (settle s).2) : Gone rid (settle s).1 := by
  have hx' := (settle_noRemovals s).mem hx
  simp only [settleTimers] at hx'
  obtain ⟨⟨r, hr, hrr⟩, hgone⟩ := fired_gone h _ settle_fired hx'
  have hT : Gone rid (settleTimers s).1 := by
    refine ⟨by rw [settleTimers_draws]; have := (h.req_tk r hr).2.2; omega, ?_, ?_⟩
    · intro q hq
      rw [settleTimers_state] at hq
      obtain ⟨q0, hq0, rfl⟩ := List.mem_map.1 hq
      simpa using hgone q0 hq0
    · intro p hp
      rw [settleTimers_pending] at hp
      have := h.pinv.pend_fresh p hp r hr
      omega
  simp only [settle]
  exact gone_of_evolves ((evolves_of_adds (adds_settleRest _ _)).trans (evolves_startAll _)) hT

theorem gone_after_tick {s : State} (h : SInv s) {t rid tk dl tid : Nat}
    (hx : Obs.removed t rid tk dl tid ∈ (tick s).2) : Gone rid (tick s).1 := by
  have hx' := (tick_noRemovals s).mem hx
  simp only [tickTimers] at hx'
  obtain ⟨⟨r, hr, hrr⟩, hgone⟩ := fired_gone h _ tick_fired hx'
  have hT : Gone rid (tickTimers s).1 := by
    refine ⟨by rw [tickTimers_draws]; have := (h.req_tk r hr).2.2; omega, ?_, ?_⟩
    · intro q hq
      rw [tickTimers_state] at hq
      obtain ⟨q0, hq0, rfl⟩ := List.mem_map.1 hq
      simpa using hgone q0 hq0
    · intro p hp
      rw [tickTimers_pending] at hp
      have := h.pinv.pend_fresh p hp r hr
      omega
  simp only [tick]
  exact gone_of_evolves (evolves_of_adds (adds_tickRest _ _)) hT

/-- after `remove_request` succeeded the request is gone -/
theorem gone_after_remove {s : State} (h : SInv s) {tk : Nat} {r : Req} (hl : lookup s tk = some r) :
    Gone r.rid (step s (.remove tk)).1 := by
  obtain ⟨hr, htk⟩ := lookup_some hl
  refine ⟨Nat.le_trans (h.req_tk r hr).2.2 (step_draws _ _), ?_, ?_⟩
  · intro q hq heq
    have hsub : ∀ q ∈ (step s (.remove tk)).1.requests, ∃ q0 ∈ s.requests, q0.rid = q.rid ∧ q0.ticket ≠ tk := by
      intro q hq
      simp only [step, hl] at hq
      have hfil : ∀ q ∈ s.requests.filter (fun x => x.ticket ≠ tk), ∃ q0 ∈ s.requests, q0.rid = q.rid ∧ q0.ticket ≠ tk := by
        intro q hq
        obtain ⟨h1, h2⟩ := List.mem_filter.1 hq
        exact ⟨q, h1, rfl, by simpa using h2⟩
      cases hto : r.timeout with
      | none => rw [hto] at hq; exact hfil q hq
      | some T =>
        rw [hto] at hq
        cases hh : r.handle with
        | none => rw [hh] at hq; exact hfil q hq
        | some id =>
          rw [hh, timerCancel_some] at hq
          simp only [setHandle] at hq
          obtain ⟨q1, hq1, rfl⟩ := List.mem_map.1 hq
          obtain ⟨q0, hq0, h1, h2⟩ := hfil q1 hq1
          exact ⟨q0, hq0, by rw [h1]; split <;> rfl, h2⟩
    obtain ⟨q0, hq0, h1, h2⟩ := hsub q hq
    have := h.req_uniq q0 hq0 r hr (by omega)
    subst this
    exact h2 htk
  · intro p hp
    have hpend : (step s (.remove tk)).1.pending = s.pending := by
      simp only [step, hl]
      cases r.timeout with
      | none => rfl
      | some T => cases r.handle <;> rfl
    rw [hpend] at hp
    have := h.pinv.pend_fresh p hp r hr
    omega

theorem fired_nodup {s : State} (h : SInv s) (F : List TTask) (hp : F.Pairwise (fun a b => a.id ≠ b.id))
    (hF : ∀ t ∈ F, ∃ r ∈ s.requests, r.rid = t.rid ∧ r.ticket = t.ticket ∧ r.handle = some t.id) :
    ((fireAll F s []).2.filterMap removedRid).Nodup := by
  rw [fireAll_obs_eq _ s [] hp
    (fun t ht => by obtain ⟨r, hr, _, k2, k3⟩ := hF t ht; exact ⟨r, hr, k2, k3⟩) h.ticket_inj]
  simp only [List.nil_append, List.filterMap_map]
  have : (removedRid ∘ fun t : TTask => Obs.removed s.now t.rid t.ticket (t.deadline.getD 0) t.id) = fun t => some t.rid := by
    funext t; rfl
  rw [this, List.filterMap_eq_map', List.Nodup, List.pairwise_map]
  apply List.Pairwise.imp_of_mem _ hp
  intro a b ha hb hab heq
  obtain ⟨ra, hra, a1, _, a3⟩ := hF a ha
  obtain ⟨rb, hrb, b1, _, b3⟩ := hF b hb
  have := h.req_uniq ra hra rb hrb (by omega)
  subst this
  rw [a3] at b3
  exact hab (by simpa using b3)

theorem settle_removedRid_nodup {s : State} (h : SInv s) : ((settle s).2.filterMap removedRid).Nodup := by
  rw [(settle_noRemovals s).filterMap]
  have h0 := inv_mapStart s.now h.inv
  simp only [settleTimers]
  apply fired_nodup h _ (h0.task_nodup.filter _)
  intro t ht
  obtain ⟨htm, hd⟩ := List.mem_filter.1 ht
  have hc : t.cancelled = false := by unfold isDue at hd; simp_all
  exact h0.task_live t htm hc

theorem tick_removedRid_nodup {s : State} (h : SInv s) : ((tick s).2.filterMap removedRid).Nodup := by
  rw [(tick_noRemovals s).filterMap]
  simp only [tickTimers]
  apply fired_nodup h _ (h.task_nodup.filter _)
  intro t ht
  obtain ⟨htm, hd⟩ := List.mem_filter.1 ht
  exact h.task_live t htm (firesNow_cancelled hd)

theorem removed_is_loop {s : State} (op : Op) (h : SInv s) (hw : NoWrap (step s op).1) {t rid tk dl tid : Nat}
    (hx : Obs.removed t rid tk dl tid ∈ (step s op).2) : op = .settle ∨ op = .tick :=
  (step_obs op h hw _ hx).1

theorem gone_after_timeout {s : State} (op : Op) (h : SInv s) (hw : NoWrap (step s op).1) {t rid tk dl tid : Nat}
    (hx : Obs.removed t rid tk dl tid ∈ (step s op).2) : Gone rid (step s op).1 := by
  rcases removed_is_loop op h hw hx with rfl | rfl
  · exact gone_after_settle h hx
  · exact gone_after_tick h hx

theorem step_removedRid_nodup {s : State} (op : Op) (h : SInv s) (hw : NoWrap (step s op).1) :
    ((step s op).2.filterMap removedRid).Nodup := by
  by_cases hop : op = .settle
  · subst hop; exact settle_removedRid_nodup h
  · by_cases hop2 : op = .tick
    · subst hop2; exact tick_removedRid_nodup h
    · have : (step s op).2.filterMap removedRid = [] := by
        rw [List.filterMap_eq_nil_iff]
        intro x hx
        have hok := step_obs op h hw x hx
        cases x with
        | removed t r tk dl tid => rcases hok.1 with h1 | h1 <;> contradiction
        | _ => rfl
      rw [this]; exact List.nodup_nil

theorem removed_once (cfg : Cfg) (ops : List Op) (hw : NoWrap (run (init cfg) ops).1) :
    ((run (init cfg) ops).2.filterMap removedRid).Nodup := by
  have := run_ind (P := fun s tr => SInv s ∧ (∀ rid ∈ tr.filterMap removedRid, Gone rid s) ∧
      (tr.filterMap removedRid).Nodup) (G := NoWrap) noWrap_of_step
    (by
      intro s tr op ⟨hi, hg, hn⟩ hw
      have hnew : ∀ rid ∈ (step s op).2.filterMap removedRid,
          (∃ r ∈ s.requests, r.rid = rid) ∧ Gone rid (step s op).1 := by
        intro rid hrid
        obtain ⟨x, hx, hxr⟩ := List.mem_filterMap.1 hrid
        cases x with
        | removed t r tk dl tid =>
          simp only [removedRid, Option.some.injEq] at hxr
          subst hxr
          have hok := step_obs op hi hw _ hx
          obtain ⟨_, _, _, _, q, hq, hq1, _⟩ := hok
          exact ⟨⟨q, hq, hq1⟩, gone_after_timeout op hi hw hx⟩
        | _ => simp [removedRid] at hxr
      refine ⟨sinv_step op hi hw, ?_, ?_⟩
      · intro rid hrid
        rw [List.filterMap_append] at hrid
        rcases List.mem_append.1 hrid with h1 | h1
        · exact gone_step op (hg rid h1)
        · exact (hnew rid h1).2
      · rw [List.filterMap_append, List.nodup_append]
        refine ⟨hn, step_removedRid_nodup op hi hw, ?_⟩
        intro a ha b hb hab
        subst hab
        obtain ⟨⟨q, hq, hq1⟩, _⟩ := hnew a hb
        exact (hg a ha).2.1 q hq hq1)
    ops (init cfg) [] ⟨sinv_init cfg, by simp, by simp⟩ hw
  simpa using this.2.2


/-! ### timing: not before, not late, on the dot -/

/-- every pending task is un-cancelled, has started, and its deadline lies in the future -/
def Ahead (s : State) : Prop := ∀ t ∈ s.tasks, t.cancelled = false ∧ ∃ d, t.deadline = some d ∧ s.now < d

/-- no pending un-cancelled task is overdue -/
def OnTime (s : State) : Prop := ∀ t ∈ s.tasks, t.cancelled = false → ∀ d, t.deadline = some d → s.now ≤ d

/-- **not late**: when the loop has run, whatever is still pending is not yet due (from ANY state) -/
theorem settle_ahead (s : State) : Ahead (settle s).1 := by
  have hT : ∀ t ∈ (settleTimers s).1.tasks, t.cancelled = false ∧ ∃ d, t.deadline = some d ∧ s.now < d := by
    intro t ht
    rw [settleTimers_state] at ht
    obtain ⟨htm, hnf⟩ := List.mem_filter.1 ht
    obtain ⟨t0, _, rfl⟩ := List.mem_map.1 htm
    unfold isFinishing reached at hnf
    rw [startTask_deadline] at hnf ⊢
    simp only [Bool.not_or, Bool.and_eq_true, Bool.not_eq_true', decide_eq_false_iff_not] at hnf
    exact ⟨hnf.1, _, rfl, by omega⟩
  have hadd := adds_settleRest (settleTimers s).1 (settleTimers s).2
  intro t ht
  rw [settle_now]
  simp only [settle, startAll] at ht
  obtain ⟨t0, ht0, rfl⟩ := List.mem_map.1 ht
  rw [hadd.now, settleTimers_now]
  rcases hadd.tasks t0 ht0 with h | ⟨_, h1, h2, _, h4⟩
  · obtain ⟨k1, d, k2, k3⟩ := hT t0 h
    rw [startTask_deadline, k2]
    exact ⟨by simpa using k1, d, rfl, k3⟩
  · rw [startTask_deadline, h2]
    exact ⟨by simpa using h1, _, rfl, by show s.now < s.now + t0.timeout; omega⟩

theorem removed_mem_settle (s : State) {t rid tk dl tid : Nat} (hx : Obs.removed t rid tk dl tid ∈ (settle s).2) :
    ∃ t0 ∈ s.tasks, t0.cancelled = false ∧ t = s.now ∧ (startTask s.now t0).deadline = some dl ∧ dl ≤ s.now ∧
      t0.id = tid ∧ t0.rid = rid := by
  have hx' := (settle_noRemovals s).mem hx
  simp only [settleTimers] at hx'
  rcases fireAll_obs_mem _ _ _ _ hx' with h | ⟨f, hf, h | h⟩
  · cases h
  · obtain ⟨hfm, hd⟩ := List.mem_filter.1 hf
    obtain ⟨t0, ht0, rfl⟩ := List.mem_map.1 hfm
    unfold isDue reached at hd
    rw [startTask_deadline] at hd h
    simp only [Bool.and_eq_true, Bool.not_eq_true', decide_eq_true_eq, startTask_cancelled] at hd
    simp only [Option.getD_some, Obs.removed.injEq, startTask_rid, startTask_ticket, startTask_id] at h
    obtain ⟨h1, h2, _, h4, h5⟩ := h
    refine ⟨t0, ht0, hd.1, h1, ?_, ?_, h5.symm, h2.symm⟩
    · rw [startTask_deadline, h4]
    · rw [h4]; exact hd.2
  · cases h

theorem removed_mem_tick (s : State) {t rid tk dl tid : Nat} (hx : Obs.removed t rid tk dl tid ∈ (tick s).2) :
    ∃ t0 ∈ s.tasks, firesNow t0 = true ∧ t = s.now ∧ t0.id = tid ∧ t0.rid = rid := by
  have hx' := (tick_noRemovals s).mem hx
  simp only [tickTimers] at hx'
  rcases fireAll_obs_mem _ _ _ _ hx' with h | ⟨f, hf, h | h⟩
  · cases h
  · obtain ⟨hfm, hd⟩ := List.mem_filter.1 hf
    simp only [Obs.removed.injEq] at h
    obtain ⟨h1, h2, _, _, h5⟩ := h
    exact ⟨f, hfm, hd, h1, h5.symm, h2.symm⟩
  · cases h

/-- **on the dot**: if nothing pending is overdue, a removal reported by this run of the loop happens
exactly at its deadline -/
theorem settle_exact {s : State} (h : OnTime s) {t rid tk dl tid : Nat}
    (hx : Obs.removed t rid tk dl tid ∈ (settle s).2) : t = dl := by
  obtain ⟨t0, ht0, hc, rfl, hd, hle, _⟩ := removed_mem_settle s hx
  rw [startTask_deadline] at hd
  cases h0 : t0.deadline with
  | none => rw [h0] at hd; simp at hd; omega
  | some d =>
    rw [h0] at hd; simp at hd
    have := h t0 ht0 hc d h0
    omega

theorem onTime_of_ahead_jump1 {s : State} (h : Ahead s) : OnTime (step s (.jump 1)).1 := by
  intro t ht _ d hd
  obtain ⟨_, d', h1, h2⟩ := h t ht
  simp only [step] at hd ⊢
  rw [h1] at hd; cases hd; omega

theorem sleep_exact (d : Nat) {s : State} (h : OnTime s) :
    (∀ t rid tk dl tid, Obs.removed t rid tk dl tid ∈ (run s (sleepOps d)).2 → t = dl) ∧
    Ahead (run s (sleepOps d)).1 := by
  induction d generalizing s with
  | zero =>
    simp only [sleepOps, run_cons, run_nil, List.append_nil]
    exact ⟨fun t rid tk dl tid hx => settle_exact h hx, settle_ahead s⟩
  | succ d ih =>
    simp only [sleepOps, run_cons]
    have h1 : OnTime (step (step s .settle).1 (.jump 1)).1 := onTime_of_ahead_jump1 (settle_ahead s)
    obtain ⟨ih1, ih2⟩ := ih h1
    refine ⟨?_, ih2⟩
    intro t rid tk dl tid hx
    rcases List.mem_append.1 hx with hx | hx
    · exact settle_exact h hx
    · rcases List.mem_append.1 hx with hx | hx
      · cases hx
      · exact ih1 t rid tk dl tid hx

/-! ### reachable states; the ticket generator -/

theorem reach_inv (cfg : Cfg) (ops : List Op) (hw : NoWrap (run (init cfg) ops).1) : SInv (run (init cfg) ops).1 := by
  have := run_ind (P := fun s _ => SInv s) (G := NoWrap) noWrap_of_step
    (fun s _ op hi hw => sinv_step op hi hw) ops (init cfg) [] (sinv_init cfg) hw
  exact this

/-- every observation of a history without a generator wrap is one a step may report (`ObsOk`) -/
theorem reach_obs (cfg : Cfg) (ops : List Op) (hw : NoWrap (run (init cfg) ops).1) :
    ∀ x ∈ (run (init cfg) ops).2, (∀ t rid tk tid, x ≠ .loopErr t rid tk tid) ∧ (∀ a b, x ≠ .clobber a b) := by
  have := run_ind (P := fun s tr => SInv s ∧ ∀ x ∈ tr, (∀ t rid tk tid, x ≠ .loopErr t rid tk tid) ∧
      (∀ a b, x ≠ .clobber a b)) (G := NoWrap) noWrap_of_step
    (by
      intro s tr op ⟨hi, ht⟩ hw
      refine ⟨sinv_step op hi hw, ?_⟩
      intro x hx
      rcases List.mem_append.1 hx with hx | hx
      · exact ht x hx
      · have hok := step_obs op hi hw x hx
        constructor
        · intro t rid tk tid hc; subst hc; exact hok
        · intro a b hc; subst hc; exact hok)
    ops (init cfg) [] ⟨sinv_init cfg, by simp⟩ hw
  simpa using this.2

/-- the `n`-th output of `ticket_generator(initial)` (`n = 0`: the start value, never handed out) -/
def ticketAt (initial : Nat) : Nat → Nat
  | 0 => initial
  | n + 1 => nextTicket initial (ticketAt initial n)

theorem ticketAt_default (n : Nat) : ticketAt defaultInitial n = n % maxTicket + 1 := by
  induction n with
  | zero => rfl
  | succ n ih =>
    simp only [ticketAt, ih, nextTicket]
    have hm : maxTicket = 4294967295 := rfl
    have hi : defaultInitial = 1 := rfl
    rw [hm, hi]
    split <;> omega

/-! ### who can be cancelled -/

/-- `Timer.cancel` is only ever called on a pending task: the handle of a registered request -/
theorem timerOf_task {s : State} (h : SInv s) {tk id : Nat} (hc : timerOf s tk = some id) :
    ∃ r ∈ s.requests, r.ticket = tk ∧ r.handle = some id ∧ ∃ t ∈ s.tasks, t.id = id ∧ t.cancelled = false := by
  unfold timerOf at hc
  cases hl : lookup s tk with
  | none => simp [hl] at hc
  | some r =>
    obtain ⟨hr, htk⟩ := lookup_some hl
    cases hto : r.timeout with
    | none => simp [hl, hto] at hc
    | some T =>
      simp only [hl, hto] at hc
      obtain ⟨t, ht, h1, _, h3⟩ := h.handle_task r hr id hc
      exact ⟨r, hr, htk, hc, t, ht, h1, h3⟩

theorem cancelTarget_task {s : State} (h : SInv s) {op : Op} {id : Nat} (hc : cancelTarget s op = some id) :
    ∃ t ∈ s.tasks, t.id = id ∧ t.cancelled = false := by
  have key : ∀ tk, timerOf s tk = some id → ∃ t ∈ s.tasks, t.id = id ∧ t.cancelled = false := by
    intro tk hc
    obtain ⟨_, _, _, _, t, ht, h1, h2⟩ := timerOf_task h hc
    exact ⟨t, ht, h1, h2⟩
  cases op with
  | remove tk => exact key tk hc
  | timerCancel tk => exact key tk hc
  | timerReschedule tk n => exact key tk hc
  | _ => cases hc

/-- what `cancelTarget` names is what `step` cancels: the named pending task is marked cancelled … -/
theorem cancelTarget_marks {s : State} (h : SInv s) {op : Op} {id : Nat} (hc : cancelTarget s op = some id) :
    ∀ t ∈ (step s op).1.tasks, t.id = id → t.cancelled = true := by
  have key : ∀ tk, timerOf s tk = some id → ∀ r, lookup s tk = some r →
      ∀ t ∈ (timerCancel s r.rid r.handle).tasks, t.id = id → t.cancelled = true := by
    intro tk htk r hl t ht hid
    unfold timerOf at htk
    rw [hl] at htk
    cases hto : r.timeout with
    | none => simp [hto] at htk
    | some T =>
      simp only [hto] at htk
      rw [htk, timerCancel_some] at ht
      obtain ⟨t0, _, rfl⟩ := List.mem_map.1 ht
      rw [markCancelled_cancelled]
      simp at hid
      simp [hid]
  have hl : ∀ tk, timerOf s tk = some id → ∃ r, lookup s tk = some r ∧ ∃ T, r.timeout = some T := by
    intro tk htk
    unfold timerOf at htk
    cases hl : lookup s tk with
    | none => simp [hl] at htk
    | some r =>
      cases hto : r.timeout with
      | none => simp [hl, hto] at htk
      | some T => exact ⟨r, rfl, T, hto⟩
  cases op with
  | remove tk =>
    have hc : timerOf s tk = some id := hc
    obtain ⟨r, hr, T, hT⟩ := hl tk hc
    intro t ht
    simp only [step, hr, hT] at ht
    have := key tk hc r hr
    cases hh : r.handle with
    | none => unfold timerOf at hc; simp [hr, hT, hh] at hc
    | some i =>
      rw [hh, timerCancel_some] at ht this
      exact this t ht
  | timerCancel tk =>
    have hc : timerOf s tk = some id := hc
    obtain ⟨r, hr, T, hT⟩ := hl tk hc
    intro t ht
    simp only [step, hr, hT] at ht
    exact key tk hc r hr t ht
  | timerReschedule tk n =>
    have hc : timerOf s tk = some id := hc
    obtain ⟨r, hr, T, hT⟩ := hl tk hc
    intro t ht hid
    simp only [step, hr, hT, timerStart] at ht
    rcases List.mem_append.1 ht with ht | ht
    · exact key tk hc r hr t ht hid
    · -- the fresh task has a new id
      exfalso
      obtain ⟨t0, ht0, h0, _⟩ := cancelTarget_task (op := .timerReschedule tk n) h (by simpa [cancelTarget] using hc)
      have h1 := h.task_id t0 ht0
      have h2 : (timerCancel s r.rid r.handle).nextTask = s.nextTask := by cases r.handle <;> rfl
      simp at ht
      subst ht
      simp only [h2] at hid
      omega
  | _ => cases hc

/-- no task of `s'` is newly cancelled -/
def Quiet (s s' : State) : Prop :=
  ∀ t ∈ s'.tasks, t.cancelled = true → ∃ t0 ∈ s.tasks, t0.id = t.id ∧ t0.cancelled = true

theorem Quiet.refl (s : State) : Quiet s s := fun t ht hc => ⟨t, ht, rfl, hc⟩

theorem Quiet.trans {a b c : State} (h1 : Quiet a b) (h2 : Quiet b c) : Quiet a c := by
  intro t ht hc
  obtain ⟨t1, ht1, k1, k2⟩ := h2 t ht hc
  obtain ⟨t0, ht0, j1, j2⟩ := h1 t1 ht1 k2
  exact ⟨t0, ht0, by omega, j2⟩

theorem quiet_of_adds {s s' : State} (h : Adds s s') : Quiet s s' := by
  intro t ht hc
  rcases h.tasks t ht with h0 | ⟨_, h1, _⟩
  · exact ⟨t, h0, rfl, hc⟩
  · rw [h1] at hc; cases hc

theorem quiet_settleTimers (s : State) : Quiet s (settleTimers s).1 := by
  intro x hx hxc
  rw [settleTimers_state] at hx
  obtain ⟨t0, ht0, rfl⟩ := List.mem_map.1 (List.mem_filter.1 hx).1
  exact ⟨t0, ht0, by simp, by simpa using hxc⟩

theorem quiet_tickTimers (s : State) : Quiet s (tickTimers s).1 := by
  intro x hx hxc
  rw [tickTimers_state] at hx
  obtain ⟨t0, ht0, rfl⟩ := List.mem_map.1 hx
  exact ⟨t0, (List.mem_filter.1 ht0).1, by simp, by simpa using hxc⟩

theorem quiet_startAll (s : State) : Quiet s (startAll s) := by
  intro x hx hxc
  obtain ⟨t0, ht0, rfl⟩ := List.mem_map.1 hx
  exact ⟨t0, ht0, by simp, by simpa using hxc⟩

theorem quiet_settle (s : State) : Quiet s (settle s).1 := by
  simp only [settle]
  exact ((quiet_settleTimers s).trans (quiet_of_adds (adds_settleRest _ _))).trans (quiet_startAll _)

theorem quiet_tick (s : State) : Quiet s (tick s).1 := by
  simp only [tick]
  exact (quiet_tickTimers s).trans (quiet_of_adds (adds_tickRest _ _))

/-- … and no other pending task is: a task that was not cancelled before the step and is cancelled after it is the
one `cancelTarget` names. -/
theorem cancelTarget_complete (s : State) (op : Op) :
    ∀ t ∈ (step s op).1.tasks, t.cancelled = true →
      (∃ t0 ∈ s.tasks, t0.id = t.id ∧ t0.cancelled = true) ∨ cancelTarget s op = some t.id := by
  have hmark : ∀ (l : List TTask) (id : Nat), ∀ t ∈ l.map (markCancelled id), t.cancelled = true →
      (∃ t0 ∈ l, t0.id = t.id ∧ t0.cancelled = true) ∨ id = t.id := by
    intro l id t ht hc
    obtain ⟨t0, ht0, rfl⟩ := List.mem_map.1 ht
    rw [markCancelled_cancelled] at hc
    by_cases h0 : t0.cancelled = true
    · exact .inl ⟨t0, ht0, by simp, h0⟩
    · right; simp at h0; simp [h0] at hc; simp [hc]
  have hcan : ∀ (s0 : State) (rid : Nat) (hd : Option Nat), ∀ t ∈ (timerCancel s0 rid hd).tasks, t.cancelled = true →
      (∃ t0 ∈ s0.tasks, t0.id = t.id ∧ t0.cancelled = true) ∨ hd = some t.id := by
    intro s0 rid hd t ht hc
    cases hd with
    | none => exact .inl ⟨t, ht, rfl, hc⟩
    | some id =>
      rw [timerCancel_some] at ht
      rcases hmark _ _ t ht hc with h | h
      · exact .inl h
      · exact .inr (by rw [h])
  have hsame : ∀ t ∈ s.tasks, t.cancelled = true → (∃ t0 ∈ s.tasks, t0.id = t.id ∧ t0.cancelled = true) ∨
      cancelTarget s op = some t.id := fun t ht hc => .inl ⟨t, ht, rfl, hc⟩
  have hquiet : Quiet s (step s op).1 → ∀ t ∈ (step s op).1.tasks, t.cancelled = true →
      (∃ t0 ∈ s.tasks, t0.id = t.id ∧ t0.cancelled = true) ∨ cancelTarget s op = some t.id :=
    fun hq t ht hc => .inl (hq t ht hc)
  cases op with
  | search k =>
    apply hquiet
    simp only [step]
    split
    · exact quiet_of_adds (adds_beginSetup s k)
    · exact quiet_of_adds (adds_newRequest s k _ (fun T h => requestTimeout_pos h))
  | wlInterval n => exact hsame
  | serverClosing => exact hsame
  | jump d => exact hsame
  | gate b => exact hsame
  | sessionDestroyed => exact hsame
  | sessionInitialized => exact hsame
  | sendDone tk ok =>
    intro t ht hc
    simp only [step] at ht
    split at ht <;> exact hsame t ht hc
  | cancelCall tk =>
    intro t ht hc
    simp only [step] at ht
    split at ht <;> exact hsame t ht hc
  | reply tk =>
    intro t ht hc
    simp only [step] at ht
    cases hl : lookup s tk with
    | none => rw [hl] at ht; exact hsame t ht hc
    | some r => rw [hl] at ht; exact hsame t ht hc
  | settle => exact hquiet (quiet_settle s)
  | tick => exact hquiet (quiet_tick s)
  | remove tk =>
    intro t ht hc
    cases hl : lookup s tk with
    | none => simp only [step, hl] at ht; exact hsame t ht hc
    | some r =>
      cases hto : r.timeout with
      | none => simp only [step, hl, hto] at ht; exact hsame t ht hc
      | some T =>
        simp only [step, hl, hto] at ht
        rcases hcan _ _ _ t ht hc with h | h
        · exact .inl h
        · right; simp [cancelTarget, timerOf, hl, hto, h]
  | timerCancel tk =>
    intro t ht hc
    cases hl : lookup s tk with
    | none => simp only [step, hl] at ht; exact hsame t ht hc
    | some r =>
      cases hto : r.timeout with
      | none => simp only [step, hl, hto] at ht; exact hsame t ht hc
      | some T =>
        simp only [step, hl, hto] at ht
        rcases hcan _ _ _ t ht hc with h | h
        · exact .inl h
        · right; simp [cancelTarget, timerOf, hl, hto, h]
  | timerReschedule tk n =>
    intro t ht hc
    cases hl : lookup s tk with
    | none => simp only [step, hl] at ht; exact hsame t ht hc
    | some r =>
      cases hto : r.timeout with
      | none => simp only [step, hl, hto] at ht; exact hsame t ht hc
      | some T =>
        simp only [step, hl, hto, timerStart] at ht
        rcases List.mem_append.1 ht with ht | ht
        · rcases hcan _ _ _ t ht hc with h | h
          · exact .inl h
          · right; simp [cancelTarget, timerOf, hl, hto, h]
        · simp at ht; subst ht; cases hc

/-- the task whose callback reports a removal is finished as far as the registry is concerned: it is not among
the pending tasks after that step, and its id is below the counter -/
theorem fired_not_pending {s : State} (op : Op) (h : SInv s) (hw : NoWrap (step s op).1) {t rid tk dl tid : Nat}
    (hx : Obs.removed t rid tk dl tid ∈ (step s op).2) :
    tid < s.nextTask ∧ ∀ x ∈ (step s op).1.tasks, x.id ≠ tid := by
  have later : ∀ (T s' : State), T.nextTask = s.nextTask → (∀ x ∈ T.tasks, x.id ≠ tid) → tid < s.nextTask →
      Grows T s' → ∀ x ∈ s'.tasks, x.id ≠ tid := by
    intro T s' h1 h2 h3 hg x hxm
    rcases hg.2 x hxm with ⟨x0, hx0, he⟩ | hge
    · have := h2 x0 hx0; omega
    · omega
  rcases removed_is_loop op h hw hx with rfl | rfl
  · obtain ⟨t0, ht0, hc, _, hd, hle, hid, _⟩ := removed_mem_settle s hx
    have hlt : tid < s.nextTask := by have := h.task_id t0 ht0; omega
    refine ⟨hlt, ?_⟩
    have hT : ∀ x ∈ (settleTimers s).1.tasks, x.id ≠ tid := by
      intro x hxm heq
      rw [settleTimers_state] at hxm
      obtain ⟨hm, hnf⟩ := List.mem_filter.1 hxm
      obtain ⟨x0, hx0, rfl⟩ := List.mem_map.1 hm
      have : x0 = t0 := pairwise_id_inj h.task_nodup x0 hx0 t0 ht0 (by simp at heq; omega)
      subst this
      unfold isFinishing reached at hnf
      rw [hd] at hnf
      simp [hle] at hnf
    simp only [step, settle]
    exact later _ _ (settleTimers_nextTask s) hT hlt
      ((grows_of_adds (adds_settleRest _ _)).trans (grows_startAll _))
  · obtain ⟨t0, ht0, hf, _, hid, _⟩ := removed_mem_tick s hx
    have hlt : tid < s.nextTask := by have := h.task_id t0 ht0; omega
    refine ⟨hlt, ?_⟩
    have hT : ∀ x ∈ (tickTimers s).1.tasks, x.id ≠ tid := by
      intro x hxm heq
      rw [tickTimers_state] at hxm
      obtain ⟨x0, hx0, rfl⟩ := List.mem_map.1 hxm
      obtain ⟨hm, hnf⟩ := List.mem_filter.1 hx0
      have : x0 = t0 := pairwise_id_inj h.task_nodup x0 hm t0 ht0 (by simp at heq; omega)
      subst this
      rw [firesNow_endsNow hf] at hnf
      simp at hnf
    simp only [step, tick]
    exact later _ _ (tickTimers_nextTask s) hT hlt (grows_of_adds (adds_tickRest _ _))

/-- what a base step reports about removals -/
theorem step_removed_facts {s : State} (op : Op) (h : SInv s) (hw : NoWrap (step s op).1) {t rid tk dl tid : Nat}
    (hx : Obs.removed t rid tk dl tid ∈ (step s op).2) :
    (∃ r ∈ s.requests, r.rid = rid) ∧ Gone rid (step s op).1 ∧ tid < s.nextTask ∧
      ∀ x ∈ (step s op).1.tasks, x.id ≠ tid := by
  have hok := step_obs op h hw _ hx
  obtain ⟨_, _, _, _, q, hq, hq1, _⟩ := hok
  have := fired_not_pending op h hw hx
  exact ⟨⟨q, hq, hq1⟩, gone_after_timeout op h hw hx, this.1, this.2⟩


/-! ### whatever is registered has been announced -/

/-- every request that the step registers is announced by it: a request of `s'` has the `rid` of a request of `s`,
or its `SearchRequestSentEvent` is among `n` -/
def Told (s s' : State) (n : List Obs) : Prop :=
  ∀ r' ∈ s'.requests, (∃ r ∈ s.requests, r.rid = r'.rid) ∨ ∃ t, Obs.sent t r'.rid (s.cfg.initial + r'.rid) ∈ n

theorem Told.refl (s : State) (n : List Obs) : Told s s n := fun r h => .inl ⟨r, h, rfl⟩

theorem Told.mono {s s' : State} {n n' : List Obs} (h : Told s s' n) (hsub : ∀ x ∈ n, x ∈ n') : Told s s' n' := by
  intro r' hr'
  rcases h r' hr' with h0 | ⟨t, ht⟩
  · exact .inl h0
  · exact .inr ⟨t, hsub _ ht⟩

theorem Told.trans {a b c : State} {n n' : List Obs} (h1 : Told a b n) (h2 : Told b c n') (hsub : ∀ x ∈ n, x ∈ n')
    (hc : b.cfg = a.cfg) : Told a c n' := by
  intro r' hr'
  rcases h2 r' hr' with ⟨r, hr, he⟩ | ⟨t, ht⟩
  · rcases h1 r hr with ⟨r0, hr0, he0⟩ | ⟨t, ht⟩
    · exact .inl ⟨r0, hr0, by omega⟩
    · exact .inr ⟨t, hsub _ (by rw [← he]; exact ht)⟩
  · exact .inr ⟨t, by rw [← hc]; exact ht⟩

theorem told_of_rids {s s' : State} (n : List Obs) (h : ∀ r' ∈ s'.requests, ∃ r ∈ s.requests, r.rid = r'.rid) :
    Told s s' n := fun r' hr' => .inl (h r' hr')

theorem NoRemovals.sub {o o' : List Obs} (h : NoRemovals o o') : ∀ x ∈ o, x ∈ o' := by
  obtain ⟨n, rfl, _⟩ := h
  exact fun x hx => List.mem_append.2 (.inl hx)

theorem told_newRequest {s : State} (h : SInv s) (k : Kind) (to : Option Nat) (hw : NoWrap (newRequest s k to).1) :
    Told s (newRequest s k to).1 (newRequest s k to).2 := by
  intro r' hr'
  rcases newRequest_reqs s k to r' hr' with h0 | hlt
  · exact .inl h0
  · right
    have h' := sinv_newRequest h k to hw
    have hle := (h'.req_tk r' hr').2.2
    rw [newRequest_draws] at hle
    have : r'.rid = s.draws + 1 := by omega
    refine ⟨s.now, ?_⟩
    rw [newRequest_obs h.inv k to hw, this]
    simp [Nat.add_assoc]

theorem told_wishlistRound (n : Nat) {s : State} (o : List Obs) (h : SInv s) (hw : NoWrap (wishlistRound n s o).1) :
    Told s (wishlistRound n s o).1 (wishlistRound n s o).2 := by
  induction n generalizing s o with
  | zero => exact Told.refl s o
  | succ n ih =>
    simp only [wishlistRound] at hw ⊢
    have hw1 : NoWrap (newRequest s .wishlist (wishlistTimeout s)).1 := noWrap_of_adds (adds_wishlistRound n _ _) hw
    have h1 := told_newRequest h .wishlist (wishlistTimeout s) hw1
    have h2 := ih (o ++ (newRequest s .wishlist (wishlistTimeout s)).2) (sinv_newRequest h _ _ hw1) hw
    refine (h1.mono ?_).trans h2 (fun x hx => hx) (newRequest_cfg _ _ _)
    intro x hx
    exact wishlistRound_noRemovals n _ _ |>.sub x (List.mem_append.2 (.inr hx))

theorem told_roundGo (m : Nat) {s : State} (o : List Obs) (h : SInv s) (hw : NoWrap (roundGo m s o).1) :
    Told s (roundGo m s o).1 (roundGo m s o).2 := by
  unfold roundGo at hw ⊢
  by_cases hg : s.gated = true
  · simp only [hg, if_true] at hw ⊢
    cases m with
    | zero => exact told_of_rids _ (fun r' hr' => ⟨r', hr', rfl⟩)
    | succ m => exact told_of_rids _ (fun r' hr' => ⟨r', hr', rfl⟩)
  · simp only [hg, if_false] at hw ⊢
    have hw1 : NoWrap (wishlistRound m s o).1 := hw
    exact told_wishlistRound m o h hw1

theorem told_completeOne {s : State} (rid : Nat) (o : List Obs) (h : SInv s) (hw : NoWrap (completeOne s rid o).1) :
    Told s (completeOne s rid o).1 (completeOne s rid o).2 := by
  unfold completeOne at hw ⊢
  cases hf : s.pending.find? (fun p => decide (p.rid = rid)) with
  | none => exact Told.refl s o
  | some p =>
    have hpm : p ∈ s.pending := List.mem_of_find?_eq_some hf
    simp only [hf] at hw ⊢
    cases ho : p.outcome with
    | none => exact Told.refl s o
    | some ok =>
      simp only [ho] at hw ⊢
      have h0 := sinv_dropSetup h p.rid
      have hptk := h.pinv.pend_tk p hpm
      cases ok with
      | false =>
        simp only [Bool.false_eq_true, if_false] at hw ⊢
        split <;> exact told_of_rids _ (fun r' hr' => ⟨r', hr', rfl⟩)
      | true =>
        simp only [if_true] at hw ⊢
        obtain ⟨hr1, hr2⟩ := ok_register (s := { s with pending := s.pending.filter (fun q => decide (q.rid ≠ p.rid)) })
          h0 p hptk.1 hptk.2.1 hptk.2.2 (fun r hr => h.pinv.pend_fresh p hpm r hr)
          (fun q hq => by simpa using (List.mem_filter.1 hq).2)
        have hreg : Told s (register { s with pending := s.pending.filter (fun q => decide (q.rid ≠ p.rid)) } p).1
            (o ++ (register { s with pending := s.pending.filter (fun q => decide (q.rid ≠ p.rid)) } p).2) := by
          intro r' hr'
          rcases register_reqs _ p r' hr' with h1 | h1
          · exact .inl h1
          · right
            refine ⟨s.now, List.mem_append.2 (.inr ?_)⟩
            rw [hr2, h1]; simp
        split
        · rename_i hk
          simp only [hk, if_true] at hw
          have h2 := told_roundGo (s.wlRound.getD 0)
            (o ++ (register { s with pending := s.pending.filter (fun q => decide (q.rid ≠ p.rid)) } p).2) hr1 hw
          exact hreg.trans h2 (roundGo_noRemovals _ _ _).sub (register_cfg _ _)
        · exact hreg

theorem told_completeAll (rids : List Nat) {s : State} (o : List Obs) (h : SInv s) (hw : NoWrap (completeAll rids s o).1) :
    Told s (completeAll rids s o).1 (completeAll rids s o).2 := by
  induction rids generalizing s o with
  | nil => exact Told.refl s o
  | cons rid rids ih =>
    simp only [completeAll] at hw ⊢
    have hw1 : NoWrap (completeOne s rid o).1 := noWrap_of_adds (adds_completeAll rids _ _) hw
    have h1 := told_completeOne rid o h hw1
    have h2 := ih _ (ok_completeOne rid o h hw1).1 hw
    exact h1.trans h2 (completeAll_noRemovals _ _ _).sub (adds_completeOne s rid o).cfg

theorem told_settleWishlist {s : State} (o : List Obs) (h : SInv s) (hw : NoWrap (settleWishlist s o).1) :
    Told s (settleWishlist s o).1 (settleWishlist s o).2 := by
  unfold settleWishlist at hw ⊢
  cases hn : s.wlNext with
  | none => exact Told.refl s o
  | some w =>
    simp only [hn] at hw ⊢
    by_cases hle : w ≤ s.now
    · simp only [hle, if_true] at hw ⊢; exact told_roundGo _ o h hw
    · simp only [hle, if_false] at hw ⊢; exact Told.refl s o

theorem told_tickWishlist {s : State} (o : List Obs) (h : SInv s) (hw : NoWrap (tickWishlist s o).1) :
    Told s (tickWishlist s o).1 (tickWishlist s o).2 := by
  unfold tickWishlist at hw ⊢
  cases hn : s.wlNext with
  | none => exact Told.refl s o
  | some w =>
    simp only [hn] at hw ⊢
    by_cases hk : s.wlWoken = true
    · simp only [hk, if_true] at hw ⊢; exact told_roundGo _ o h hw
    · simp only [hk, if_false] at hw ⊢
      by_cases hle : w ≤ s.now
      · simp only [hle, if_true] at hw ⊢; exact told_of_rids _ (fun r' hr' => ⟨r', hr', rfl⟩)
      · simp only [hle, if_false] at hw ⊢; exact Told.refl s o

theorem told_settle {s : State} (h : SInv s) (hw : NoWrap (settle s).1) : Told s (settle s).1 (settle s).2 := by
  simp only [settle] at hw ⊢
  have hw2 : NoWrap (settleWishlist (completeSetups (settleTimers s).1 (settleTimers s).2).1
      (completeSetups (settleTimers s).1 (settleTimers s).2).2).1 := hw
  have hw1 : NoWrap (completeSetups (settleTimers s).1 (settleTimers s).2).1 :=
    noWrap_of_adds (adds_settleWishlist _ _) hw2
  have h0 := sinv_settleTimers h
  have t0 : Told s (settleTimers s).1 (settleTimers s).2 := told_of_rids _ (settleTimers_reqs s)
  have t1 := told_completeAll _ (settleTimers s).2 h0 hw1
  have t2 := told_settleWishlist _ (ok_completeSetups (settleTimers s).2 h0 hw1).1 hw2
  have t12 := t1.trans t2 (settleWishlist_noRemovals _ _).sub (adds_completeSetups _ _).cfg
  have := t0.trans t12 (settle_noRemovals s).sub (settleTimers_cfg s)
  intro r' hr'
  exact this r' hr'

theorem told_tick {s : State} (h : SInv s) (hw : NoWrap (tick s).1) : Told s (tick s).1 (tick s).2 := by
  simp only [tick] at hw ⊢
  have hw1 : NoWrap (completeSetups (tickTimers s).1 (tickTimers s).2).1 :=
    noWrap_of_adds (adds_tickWishlist _ _) hw
  have h0 := sinv_tickTimers h
  have t0 : Told s (tickTimers s).1 (tickTimers s).2 := told_of_rids _ (tickTimers_reqs s)
  have t1 := told_completeAll _ (tickTimers s).2 h0 hw1
  have t2 := told_tickWishlist _ (ok_completeSetups (tickTimers s).2 h0 hw1).1 hw
  have t12 := t1.trans t2 (tickWishlist_noRemovals _ _).sub (adds_completeSetups _ _).cfg
  have := t0.trans t12 (tick_noRemovals s).sub (tickTimers_cfg s)
  intro r' hr'
  exact this r' hr'

/-- `remove_request`, a reply, `Timer.cancel`, `Timer.reschedule` draw no ticket and leave the set-ups alone -/
theorem step_keeps (s : State) (op : Op)
    (hop : (∃ tk, op = .remove tk) ∨ (∃ tk, op = .reply tk) ∨ (∃ tk, op = .timerCancel tk) ∨
      ∃ tk n, op = .timerReschedule tk n) :
    (step s op).1.draws = s.draws ∧ (step s op).1.pending = s.pending := by
  rcases hop with ⟨tk, rfl⟩ | ⟨tk, rfl⟩ | ⟨tk, rfl⟩ | ⟨tk, n, rfl⟩
  · cases hl : lookup s tk with
    | none => simp [step, hl]
    | some r =>
      cases hto : r.timeout with
      | none => simp [step, hl, hto]
      | some T => cases hh : r.handle <;> simp [step, hl, hto, hh, timerCancel]
  · cases hl : lookup s tk with
    | none => simp [step, hl]
    | some r => simp [step, hl]
  · cases hl : lookup s tk with
    | none => simp [step, hl]
    | some r =>
      cases hto : r.timeout with
      | none => simp [step, hl, hto]
      | some T => cases hh : r.handle <;> simp [step, hl, hto, hh, timerCancel]
  · cases hl : lookup s tk with
    | none => simp [step, hl]
    | some r =>
      cases hto : r.timeout with
      | none => simp [step, hl, hto]
      | some T => cases hh : r.handle <;> simp [step, hl, hto, hh, timerCancel, timerStart]

/-- every request a step registers is announced by that step -/
theorem told_step {s : State} (op : Op) (h : SInv s) (hw : NoWrap (step s op).1) :
    Told s (step s op).1 (step s op).2 := by
  have hev := evolves_step s op
  have hs := sinv_step op h hw
  -- steps that draw no ticket and leave the set-ups alone: every request comes from a request
  have hquiet : (step s op).1.draws = s.draws ∧ (step s op).1.pending = s.pending →
      Told s (step s op).1 (step s op).2 := by
    intro ⟨hd, hp⟩ r' hr'
    rcases hev.reqs r' hr' with h0 | ⟨p, hpm, he⟩ | hlt
    · exact .inl h0
    · exact absurd he (by have := hs.pinv.pend_fresh p (by rw [hp]; exact hpm) r' hr'; omega)
    · have := (hs.req_tk r' hr').2.2
      omega
  cases op with
  | search k =>
    simp only [step] at hw ⊢
    by_cases hg : s.gated = true
    · simp only [hg, if_true] at hw ⊢; exact told_of_rids _ (fun r' hr' => ⟨r', hr', rfl⟩)
    · simp only [hg, if_false] at hw ⊢; exact told_newRequest h k _ hw
  | settle => exact told_settle h hw
  | tick => exact told_tick h hw
  | wlInterval n => exact told_of_rids _ (fun r' hr' => ⟨r', hr', rfl⟩)
  | serverClosing => exact told_of_rids _ (fun r' hr' => ⟨r', hr', rfl⟩)
  | jump d => exact told_of_rids _ (fun r' hr' => ⟨r', hr', rfl⟩)
  | gate b => exact told_of_rids _ (fun r' hr' => ⟨r', hr', rfl⟩)
  | sessionDestroyed => exact told_of_rids _ (fun r' hr' => ⟨r', hr', rfl⟩)
  | sessionInitialized => exact told_of_rids _ (fun r' hr' => ⟨r', hr', rfl⟩)
  | sendDone tk ok =>
    simp only [step]
    split <;> exact told_of_rids _ (fun r' hr' => ⟨r', hr', rfl⟩)
  | cancelCall tk =>
    simp only [step]
    split <;> exact told_of_rids _ (fun r' hr' => ⟨r', hr', rfl⟩)
  | remove tk => exact hquiet (step_keeps s _ (.inl ⟨tk, rfl⟩))
  | reply tk => exact hquiet (step_keeps s _ (.inr (.inl ⟨tk, rfl⟩)))
  | timerCancel tk => exact hquiet (step_keeps s _ (.inr (.inr (.inl ⟨tk, rfl⟩))))
  | timerReschedule tk n => exact hquiet (step_keeps s _ (.inr (.inr (.inr ⟨tk, n, rfl⟩))))


/-! ### a set-up whose send raised, or whose owner was cancelled, leaves nothing behind -/

theorem pairwise_setup_inj {l : List Setup} (h : l.Pairwise (fun a b => a.rid ≠ b.rid)) :
    ∀ a ∈ l, ∀ b ∈ l, a.rid = b.rid → a = b := by
  induction l with
  | nil => intro a ha; cases ha
  | cons x xs ih =>
    rw [List.pairwise_cons] at h
    intro a ha b hb hab
    rcases List.mem_cons.1 ha with rfl | ha' <;> rcases List.mem_cons.1 hb with rfl | hb'
    · rfl
    · exact absurd hab (h.1 b hb')
    · exact absurd hab.symm (h.1 a ha')
    · exact ih h.2 a ha' b hb' hab

theorem wishlistRound_pending (n : Nat) (s : State) (o : List Obs) : (wishlistRound n s o).1.pending = s.pending := by
  induction n generalizing s o with
  | zero => rfl
  | succ n ih => simp only [wishlistRound, ih, newRequest_pending]

theorem roundGo_pending_sub (m : Nat) (s : State) (o : List Obs) : ∀ p ∈ s.pending, p ∈ (roundGo m s o).1.pending := by
  intro p hp
  unfold roundGo
  split
  · cases m with
    | zero => exact hp
    | succ m => simp only [beginSetup]; exact List.mem_append.2 (.inl hp)
  · simp only [roundEnd]; rw [wishlistRound_pending]; exact hp

/-- the step of another set-up's owner leaves this set-up as it is -/
theorem completeOne_other {s : State} {rid : Nat} (o : List Obs) {p : Setup} (hp : p ∈ s.pending) (hne : p.rid ≠ rid) :
    p ∈ (completeOne s rid o).1.pending := by
  unfold completeOne
  cases hf : s.pending.find? (fun q => decide (q.rid = rid)) with
  | none => exact hp
  | some q =>
    have hq : q.rid = rid := by simpa using List.find?_some hf
    simp only []
    cases ho : q.outcome with
    | none => exact hp
    | some ok =>
      simp only []
      have hfil : p ∈ s.pending.filter (fun x => decide (x.rid ≠ q.rid)) :=
        List.mem_filter.2 ⟨hp, by simp; omega⟩
      cases ok with
      | true =>
        simp only [if_true]
        split
        · apply roundGo_pending_sub; rw [register_pending]; exact hfil
        · rw [register_pending]; exact hfil
      | false =>
        simp only [Bool.false_eq_true, if_false]
        split <;> exact hfil

/-- the owner of a set-up whose send raised (or who was cancelled) takes its next step: the set-up is gone -/
theorem completeOne_failed {s : State} (o : List Obs) (h : SInv s) {p : Setup} (hp : p ∈ s.pending)
    (ho : p.outcome = some false) : Gone p.rid (completeOne s p.rid o).1 := by
  unfold completeOne
  cases hf : s.pending.find? (fun q => decide (q.rid = p.rid)) with
  | none =>
    have := List.find?_eq_none.1 hf p hp
    simp at this
  | some q =>
    have hq : q.rid = p.rid := by simpa using List.find?_some hf
    have hqm : q ∈ s.pending := List.mem_of_find?_eq_some hf
    have : q = p := pairwise_setup_inj h.pinv.pend_nodup q hqm p hp hq
    subst this
    simp only [ho, Bool.false_eq_true, if_false]
    have hg : ∀ s0 : State, s0.draws = s.draws → s0.requests = s.requests →
        s0.pending = s.pending.filter (fun x => decide (x.rid ≠ q.rid)) → Gone q.rid s0 := by
      intro s0 h1 h2 h3
      refine ⟨by rw [h1]; exact (h.pinv.pend_tk q hp).2.2, ?_, ?_⟩
      · intro r hr; rw [h2] at hr; exact h.pinv.pend_fresh q hp r hr
      · intro x hx; rw [h3] at hx; simpa using (List.mem_filter.1 hx).2
    split <;> exact hg _ rfl rfl rfl

theorem completeAll_failed (rids : List Nat) {s : State} (o : List Obs) (h : SInv s)
    (hw : NoWrap (completeAll rids s o).1) {p : Setup} (hp : p ∈ s.pending) (ho : p.outcome = some false)
    (hmem : p.rid ∈ rids) : Gone p.rid (completeAll rids s o).1 := by
  induction rids generalizing s o with
  | nil => cases hmem
  | cons rid rids ih =>
    simp only [completeAll] at hw ⊢
    have hw1 : NoWrap (completeOne s rid o).1 := noWrap_of_adds (adds_completeAll rids _ _) hw
    by_cases he : p.rid = rid
    · subst he
      exact gone_of_evolves (evolves_of_adds (adds_completeAll rids _ _)) (completeOne_failed o h hp ho)
    · have hmem' : p.rid ∈ rids := by
        rcases List.mem_cons.1 hmem with h0 | h0
        · exact absurd h0 he
        · exact h0
      exact ih _ (ok_completeOne rid o h hw1).1 hw (completeOne_other o hp he) hmem'

theorem completeSetups_failed {s : State} (o : List Obs) (h : SInv s) (hw : NoWrap (completeSetups s o).1) {p : Setup}
    (hp : p ∈ s.pending) (ho : p.outcome = some false) : Gone p.rid (completeSetups s o).1 :=
  completeAll_failed _ o h hw hp ho (List.mem_map.2 ⟨p, hp, rfl⟩)

/-- a set-up whose send raised, or whose owner was cancelled, is gone after the next loop iteration -/
theorem tick_failed {s : State} (h : SInv s) (hw : NoWrap (tick s).1) {p : Setup} (hp : p ∈ s.pending)
    (ho : p.outcome = some false) : Gone p.rid (tick s).1 := by
  simp only [tick] at hw ⊢
  have hw1 : NoWrap (completeSetups (tickTimers s).1 (tickTimers s).2).1 :=
    noWrap_of_adds (adds_tickWishlist _ _) hw
  have hg := completeSetups_failed (tickTimers s).2 (sinv_tickTimers h) hw1 (p := p)
    (by rw [tickTimers_pending]; exact hp) ho
  exact gone_of_evolves (evolves_of_adds (adds_tickWishlist _ _)) hg

theorem settle_failed {s : State} (h : SInv s) (hw : NoWrap (settle s).1) {p : Setup} (hp : p ∈ s.pending)
    (ho : p.outcome = some false) : Gone p.rid (settle s).1 := by
  simp only [settle] at hw ⊢
  have hw2 : NoWrap (settleWishlist (completeSetups (settleTimers s).1 (settleTimers s).2).1
      (completeSetups (settleTimers s).1 (settleTimers s).2).2).1 := hw
  have hw1 : NoWrap (completeSetups (settleTimers s).1 (settleTimers s).2).1 :=
    noWrap_of_adds (adds_settleWishlist _ _) hw2
  have hg := completeSetups_failed (settleTimers s).2 (sinv_settleTimers h) hw1 (p := p)
    (by rw [settleTimers_pending]; exact hp) ho
  exact gone_of_evolves ((evolves_of_adds (adds_settleWishlist _ _)).trans (evolves_startAll _)) hg

/-- cancelling the wishlist task drops the set-up of its round at once -/
theorem cancelWishlist_gone {s : State} (h : SInv s) {p : Setup} (hp : p ∈ s.pending) (hk : p.kind = .wishlist) :
    Gone p.rid (cancelWishlist s) := by
  refine ⟨(h.pinv.pend_tk p hp).2.2, fun r hr => h.pinv.pend_fresh p hp r hr, ?_⟩
  intro x hx heq
  obtain ⟨hxm, hxk⟩ := List.mem_filter.1 hx
  have := pairwise_setup_inj h.pinv.pend_nodup x hxm p hp heq
  subst this
  simp [hk] at hxk


/-! ### a registered request has a Timer iff a timeout is in force for it, and the Timer is armed -/

/-- request `r` has a Timer exactly when a timeout is configured for its kind; with `strict`, the Timer holds a task -/
def Good (c : Cfg) (strict : Bool) (r : Req) : Prop :=
  (r.kind ≠ .wishlist → (r.timeout ≠ none ↔ 0 < c.requestTimeout)) ∧
  (r.kind = .wishlist → 0 < c.wishlistTimeout → r.timeout ≠ none) ∧
  (strict = true → r.timeout ≠ none → r.handle ≠ none)

def AllGood (strict : Bool) (s : State) : Prop := ∀ r ∈ s.requests, Good s.cfg strict r

theorem requestTimeout_iff (c : Cfg) : requestTimeout c ≠ none ↔ 0 < c.requestTimeout := by
  unfold requestTimeout; split <;> simp_all

theorem wishlistTimeout_own {s : State} (h : 0 < s.cfg.wishlistTimeout) : wishlistTimeout s ≠ none := by
  unfold wishlistTimeout
  have h1 : ¬ s.cfg.wishlistTimeout < 0 := by omega
  have h2 : s.cfg.wishlistTimeout.toNat ≠ 0 := by omega
  simp [h1, h2]

/-- a fresh request with the timeout of its kind, before `Timer.start` -/
theorem good_fresh (s : State) (b : Bool) (rid tk : Nat) (k : Kind) (to : Option Nat)
    (h1 : k ≠ .wishlist → to = requestTimeout s.cfg) (h2 : k = .wishlist → to = wishlistTimeout s) (hto : to = none) :
    Good s.cfg b { rid := rid, ticket := tk, kind := k, timeout := to, handle := none, results := 0 } := by
  refine ⟨?_, ?_, ?_⟩
  · intro hk; simp only []; rw [h1 hk]; exact requestTimeout_iff _
  · intro hk hpos; simp only []; rw [h2 hk]; exact wishlistTimeout_own hpos
  · intro _ hne; simp only [] at hne; exact absurd hto hne

theorem good_fresh_armed (s : State) (b : Bool) (rid tk id : Nat) (k : Kind) (to : Option Nat)
    (h1 : k ≠ .wishlist → to = requestTimeout s.cfg) (h2 : k = .wishlist → to = wishlistTimeout s) :
    Good s.cfg b { rid := rid, ticket := tk, kind := k, timeout := to, handle := some id, results := 0 } := by
  refine ⟨?_, ?_, ?_⟩
  · intro hk; simp only []; rw [h1 hk]; exact requestTimeout_iff _
  · intro hk hpos; simp only []; rw [h2 hk]; exact wishlistTimeout_own hpos
  · intro _ _; simp

theorem good_withHandle {c : Cfg} {b : Bool} {q : Req} (h : Good c b q) (id : Nat) :
    Good c b { q with handle := some id } :=
  ⟨h.1, h.2.1, fun _ _ => by simp⟩

/-- the list part of a registration: the others stay, the new request gets its Timer started -/
theorem allGood_added (s : State) (b : Bool) (old : List Req) (rid tk : Nat) (k : Kind) (to : Option Nat) (id : Nat)
    (h1 : k ≠ .wishlist → to = requestTimeout s.cfg) (h2 : k = .wishlist → to = wishlistTimeout s)
    (hold : ∀ r ∈ old, Good s.cfg b r) :
    (to = none → ∀ r ∈ old ++ [({ rid := rid, ticket := tk, kind := k, timeout := to, handle := none, results := 0 } : Req)],
      Good s.cfg b r) ∧
    (∀ r ∈ setHandle (old ++ [({ rid := rid, ticket := tk, kind := k, timeout := to, handle := none, results := 0 } : Req)])
      rid (some id), Good s.cfg b r) := by
  constructor
  · intro hto r hr
    rcases List.mem_append.1 hr with hr | hr
    · exact hold r hr
    · simp at hr; subst hr; exact good_fresh s b rid tk k to h1 h2 hto
  · intro r hr
    unfold setHandle at hr
    obtain ⟨q, hq, rfl⟩ := List.mem_map.1 hr
    rcases List.mem_append.1 hq with hq | hq
    · split
      · exact good_withHandle (hold q hq) id
      · exact hold q hq
    · simp at hq; subst hq
      simp only [if_true]
      exact good_fresh_armed s b rid tk id k to h1 h2

theorem allGood_newRequest {s : State} (b : Bool) (k : Kind) (to : Option Nat)
    (h1 : k ≠ .wishlist → to = requestTimeout s.cfg) (h2 : k = .wishlist → to = wishlistTimeout s)
    (h : AllGood b s) : AllGood b (newRequest s k to).1 := by
  intro r hr
  rw [newRequest_cfg]
  rw [newRequest_state] at hr
  have hold : ∀ r ∈ s.requests.filter (fun r => decide (r.ticket ≠ nextTicket s.cfg.initial s.gen)), Good s.cfg b r :=
    fun r hr => h r (List.mem_filter.1 hr).1
  have := allGood_added s b _ (s.draws + 1) (nextTicket s.cfg.initial s.gen) k to s.nextTask h1 h2 hold
  cases to with
  | none => exact this.1 rfl r hr
  | some T => exact this.2 r hr

theorem wishlistTimeout_congr {s s' : State} (h1 : s'.cfg = s.cfg) (h2 : s'.wlInterval = s.wlInterval) :
    wishlistTimeout s' = wishlistTimeout s := by
  unfold wishlistTimeout; rw [h1, h2]

theorem allGood_wishlistRound (n : Nat) {s : State} (b : Bool) (o : List Obs) (h : AllGood b s) :
    AllGood b (wishlistRound n s o).1 := by
  induction n generalizing s o with
  | zero => exact h
  | succ n ih =>
    simp only [wishlistRound]
    exact ih _ (allGood_newRequest b .wishlist _ (fun hk => absurd rfl hk) (fun _ => rfl) h)

theorem allGood_of_reqs {s s' : State} {b : Bool} (h : AllGood b s) (h1 : s'.cfg = s.cfg) (h2 : s'.requests = s.requests) :
    AllGood b s' := by
  intro r hr; rw [h1]; rw [h2] at hr; exact h r hr

theorem kindTimeout_spec (s : State) (k : Kind) :
    (k ≠ .wishlist → kindTimeout s k = requestTimeout s.cfg) ∧ (k = .wishlist → kindTimeout s k = wishlistTimeout s) := by
  cases k <;> simp [kindTimeout]

theorem allGood_register {s : State} (b : Bool) (p : Setup) (h : AllGood b s) : AllGood b (register s p).1 := by
  intro r hr
  rw [register_cfg]
  have hold : ∀ r ∈ s.requests.filter (fun r => decide (r.ticket ≠ p.ticket)), Good s.cfg b r :=
    fun r hr => h r (List.mem_filter.1 hr).1
  have := allGood_added s b _ p.rid p.ticket p.kind (kindTimeout s p.kind) s.nextTask (kindTimeout_spec s p.kind).1
    (kindTimeout_spec s p.kind).2 hold
  unfold register at hr
  cases hk : kindTimeout s p.kind with
  | none => rw [hk] at this; simp only [hk] at hr; exact this.1 rfl r hr
  | some T => rw [hk] at this; simp only [hk, timerStart] at hr; exact this.2 r hr

theorem allGood_roundGo (m : Nat) {s : State} (b : Bool) (o : List Obs) (h : AllGood b s) : AllGood b (roundGo m s o).1 := by
  unfold roundGo
  split
  · cases m with
    | zero => exact allGood_of_reqs h rfl rfl
    | succ m => exact allGood_of_reqs h rfl rfl
  · exact allGood_of_reqs (allGood_wishlistRound m b o h) rfl rfl

theorem allGood_completeOne {s : State} (b : Bool) (rid : Nat) (o : List Obs) (h : AllGood b s) :
    AllGood b (completeOne s rid o).1 := by
  unfold completeOne
  split
  · exact h
  · split
    · exact h
    · have h0 : ∀ p : Setup, AllGood b { s with pending := s.pending.filter (fun q => decide (q.rid ≠ p.rid)) } :=
        fun p => allGood_of_reqs h rfl rfl
      split
      · split
        · exact allGood_roundGo _ b _ (allGood_register b _ (h0 _))
        · exact allGood_register b _ (h0 _)
      · split
        · exact allGood_of_reqs h rfl rfl
        · exact allGood_of_reqs h rfl rfl

theorem allGood_completeAll (rids : List Nat) {s : State} (b : Bool) (o : List Obs) (h : AllGood b s) :
    AllGood b (completeAll rids s o).1 := by
  induction rids generalizing s o with
  | nil => exact h
  | cons rid rids ih => simp only [completeAll]; exact ih _ (allGood_completeOne b rid o h)

theorem allGood_settleWishlist {s : State} (b : Bool) (o : List Obs) (h : AllGood b s) : AllGood b (settleWishlist s o).1 := by
  unfold settleWishlist
  split
  · exact h
  · split
    · exact allGood_roundGo _ b o h
    · exact h

theorem allGood_tickWishlist {s : State} (b : Bool) (o : List Obs) (h : AllGood b s) : AllGood b (tickWishlist s o).1 := by
  unfold tickWishlist
  split
  · exact h
  · split
    · exact allGood_roundGo _ b o h
    · split
      · exact allGood_of_reqs h rfl rfl
      · exact h

/-- a loop run drops the handle of a registered request only together with the request -/
theorem fireCore_keeps_handle {s : State} (h : Inv s) (D F : TTask → Bool)
    (hFD : ∀ t, F t = true → t.cancelled = false → D t = true) :
    ∀ q ∈ s.requests.filter (fun r => (s.tasks.filter D).all (fun t => r.ticket ≠ t.ticket)),
      (unsetDone (s.tasks.filter F) q).handle = q.handle := by
  intro q hq
  obtain ⟨hqm, hall⟩ := List.mem_filter.1 hq
  rw [unsetDone_handle]
  have : (s.tasks.filter F).any (fun x => x.rid = q.rid && q.handle == some x.id) = false := by
    rw [List.any_eq_false]
    intro x hx hcon
    obtain ⟨hxm, hxf⟩ := List.mem_filter.1 hx
    simp only [Bool.and_eq_true, decide_eq_true_eq, beq_iff_eq] at hcon
    -- `x` is the handle of the registered `q`: un-cancelled, so it fires, so `q` does not survive
    obtain ⟨t, ht, k1, k2, k3⟩ := h.handle_task q hqm x.id hcon.2
    have : t = x := pairwise_id_inj h.task_nodup t ht x hxm k1
    subst this
    have hd := hFD t hxf k3
    obtain ⟨r0, hr0, j1, j2, j3⟩ := h.task_live t ht k3
    have : r0 = q := h.req_uniq r0 hr0 q hqm (by omega)
    subst this
    rw [List.all_eq_true] at hall
    have := hall t (List.mem_filter.2 ⟨ht, hd⟩)
    simp [j2] at this
  rw [if_neg (by rw [this]; simp)]

theorem unsetDone_kind (fin : List TTask) (r : Req) : (unsetDone fin r).kind = r.kind := by
  unfold unsetDone; split <;> rfl

theorem allGood_settleTimers {s : State} (b : Bool) (hi : Inv s) (h : AllGood b s) : AllGood b (settleTimers s).1 := by
  intro r hr
  rw [settleTimers_cfg]
  rw [settleTimers_state] at hr
  obtain ⟨q, hq, rfl⟩ := List.mem_map.1 hr
  have h0 := inv_mapStart s.now hi
  have hkeep := fireCore_keeps_handle h0 (isDue s.now) (isFinishing s.now)
    (by intro t hf hc; unfold isFinishing at hf; unfold isDue; simp_all) q hq
  have hg := h q (List.mem_filter.1 hq).1
  refine ⟨?_, ?_, ?_⟩
  · rw [unsetDone_kind, unsetDone_timeout]; exact hg.1
  · rw [unsetDone_kind, unsetDone_timeout]; exact hg.2.1
  · intro hb hne; rw [hkeep]; exact hg.2.2 hb (by simpa using hne)

theorem allGood_tickTimers {s : State} (b : Bool) (hi : Inv s) (h : AllGood b s) : AllGood b (tickTimers s).1 := by
  intro r hr
  rw [tickTimers_cfg]
  rw [tickTimers_state] at hr
  obtain ⟨q, hq, rfl⟩ := List.mem_map.1 hr
  have hkeep := fireCore_keeps_handle hi firesNow endsNow
    (by intro t hf hc; unfold endsNow at hf; unfold firesNow; simp_all) q hq
  have hg := h q (List.mem_filter.1 hq).1
  refine ⟨?_, ?_, ?_⟩
  · rw [unsetDone_kind, unsetDone_timeout]; exact hg.1
  · rw [unsetDone_kind, unsetDone_timeout]; exact hg.2.1
  · intro hb hne; rw [hkeep]; exact hg.2.2 hb (by simpa using hne)

theorem allGood_settle {s : State} (b : Bool) (hi : Inv s) (h : AllGood b s) : AllGood b (settle s).1 := by
  simp only [settle]
  exact allGood_of_reqs (allGood_settleWishlist b _ (allGood_completeAll _ b _ (allGood_settleTimers b hi h))) rfl rfl

theorem allGood_tick {s : State} (b : Bool) (hi : Inv s) (h : AllGood b s) : AllGood b (tick s).1 := by
  simp only [tick]
  exact allGood_tickWishlist b _ (allGood_completeAll _ b _ (allGood_tickTimers b hi h))


theorem mem_setHandle {rs : List Req} {rid : Nat} {hd : Option Nat} {r' : Req} (h : r' ∈ setHandle rs rid hd) :
    ∃ q ∈ rs, r' = if q.rid = rid then { q with handle := hd } else q := by
  unfold setHandle at h
  obtain ⟨q, hq, rfl⟩ := List.mem_map.1 h
  exact ⟨q, hq, rfl⟩

theorem mem_setTimeout {rs : List Req} {rid n : Nat} {r' : Req} (h : r' ∈ setTimeout rs rid n) :
    ∃ q ∈ rs, r' = if q.rid = rid then { q with timeout := some n } else q := by
  unfold setTimeout at h
  obtain ⟨q, hq, rfl⟩ := List.mem_map.1 h
  exact ⟨q, hq, rfl⟩

theorem mem_timerCancel_requests {s : State} {rid : Nat} {hd : Option Nat} {r' : Req}
    (h : r' ∈ (timerCancel s rid hd).requests) :
    ∃ q ∈ s.requests, r' = q ∨ (q.rid = rid ∧ r' = { q with handle := none }) := by
  cases hd with
  | none => exact ⟨r', h, .inl rfl⟩
  | some id =>
    rw [timerCancel_some] at h
    obtain ⟨q, hq, rfl⟩ := mem_setHandle h
    refine ⟨q, hq, ?_⟩
    split
    · rename_i he; exact .inr ⟨he, rfl⟩
    · exact .inl rfl

/-- every step keeps "a Timer iff a timeout is in force"; every step but a `Timer.cancel` by the user keeps the Timers
armed.  (`Op.search .wishlist` is not an API call: wishlist requests are made by the wishlist job only.) -/
theorem allGood_step {s : State} (b : Bool) (op : Op) (hi : SInv s) (h : AllGood b s)
    (hop : b = true → ∀ tk, op ≠ .timerCancel tk) (hs : op ≠ .search .wishlist) : AllGood b (step s op).1 := by
  have same : ∀ s' : State, s'.cfg = s.cfg → s'.requests = s.requests → AllGood b s' :=
    fun s' h1 h2 => allGood_of_reqs h h1 h2
  cases op with
  | search k =>
    simp only [step]
    split
    · exact same _ rfl rfl
    · exact allGood_newRequest b k _ (fun _ => rfl) (fun hk => absurd (by rw [hk]) hs) h
  | wlInterval n => exact same _ rfl rfl
  | serverClosing => exact same _ rfl rfl
  | jump d => exact same _ rfl rfl
  | gate g => exact same _ rfl rfl
  | sessionDestroyed => exact same _ rfl rfl
  | sessionInitialized => exact same _ rfl rfl
  | sendDone tk ok => simp only [step]; split <;> exact same _ rfl rfl
  | cancelCall tk => simp only [step]; split <;> exact same _ rfl rfl
  | settle => exact allGood_settle b hi.inv h
  | tick => exact allGood_tick b hi.inv h
  | reply tk =>
    simp only [step]
    cases hl : lookup s tk with
    | none => exact h
    | some r =>
      simp only []
      split
      · intro r' hr'
        obtain ⟨q, hq, rfl⟩ := List.mem_map.1 hr'
        have := h q hq
        split
        · exact ⟨this.1, this.2.1, this.2.2⟩
        · exact this
      · exact same _ rfl rfl
  | remove tk =>
    simp only [step]
    cases hl : lookup s tk with
    | none => exact h
    | some r =>
      obtain ⟨hr, htk⟩ := lookup_some hl
      have hfil : ∀ q ∈ s.requests.filter (fun x => decide (x.ticket ≠ tk)), Good s.cfg b q ∧ q.rid ≠ r.rid := by
        intro q hq
        obtain ⟨hqm, hne⟩ := List.mem_filter.1 hq
        refine ⟨h q hqm, ?_⟩
        intro he
        have := hi.req_uniq q hqm r hr he
        subst this
        simp [htk] at hne
      cases hto : r.timeout with
      | none => simp only [hto]; exact fun q hq => (hfil q hq).1
      | some T =>
        simp only [hto]
        intro r' hr'
        have hcfg : (timerCancel { s with requests := s.requests.filter (fun x => decide (x.ticket ≠ tk)) } r.rid r.handle).cfg
            = s.cfg := by cases r.handle <;> rfl
        rw [hcfg]
        obtain ⟨q, hq, h0 | ⟨h1, _⟩⟩ := mem_timerCancel_requests hr'
        · rw [h0]; exact (hfil q hq).1
        · exact absurd h1 (hfil q hq).2
  | timerCancel tk =>
    have hb : b = false := by
      cases b with
      | false => rfl
      | true => exact absurd rfl (hop rfl tk)
    subst hb
    simp only [step]
    cases hl : lookup s tk with
    | none => exact h
    | some r =>
      cases hto : r.timeout with
      | none => simp only [hto]; exact h
      | some T =>
        simp only [hto]
        intro r' hr'
        have hcfg : (timerCancel s r.rid r.handle).cfg = s.cfg := by cases r.handle <;> rfl
        rw [hcfg]
        obtain ⟨q, hq, h0 | ⟨_, h1⟩⟩ := mem_timerCancel_requests hr'
        · rw [h0]; exact h q hq
        · rw [h1]
          have := h q hq
          exact ⟨this.1, this.2.1, fun hf => by cases hf⟩
  | timerReschedule tk n =>
    simp only [step]
    cases hl : lookup s tk with
    | none => exact h
    | some r =>
      obtain ⟨hr, htk⟩ := lookup_some hl
      cases hto : r.timeout with
      | none => simp only [hto]; exact h
      | some T =>
        simp only [hto]
        intro r' hr'
        have hcfg : (timerStart { (timerCancel s r.rid r.handle) with
            requests := setTimeout (timerCancel s r.rid r.handle).requests r.rid n } r.rid r.ticket n).cfg = s.cfg := by
          simp only [timerStart]; cases r.handle <;> rfl
        rw [hcfg]
        simp only [timerStart] at hr'
        obtain ⟨q1, hq1, rfl⟩ := mem_setHandle hr'
        obtain ⟨q2, hq2, rfl⟩ := mem_setTimeout hq1
        obtain ⟨q, hq, h0⟩ := mem_timerCancel_requests hq2
        have hg := h q hq
        by_cases he : q.rid = r.rid
        · -- the re-armed request: it had a Timer, it has one now, with a task
          have : q = r := hi.req_uniq q hq r hr he
          subst this
          have hq2r : q2.rid = q.rid ∧ q2.kind = q.kind := by
            rcases h0 with h0 | ⟨_, h0⟩ <;> rw [h0] <;> exact ⟨rfl, rfl⟩
          simp only [hq2r.1, if_true]
          refine ⟨?_, ?_, ?_⟩
          · intro hk
            simp only [] at hk ⊢
            rw [hq2r.2] at hk
            have := hg.1 hk
            rw [hto] at this
            simp only [ne_eq, reduceCtorEq, not_false_eq_true, true_iff] at this
            simp [this]
          · intro _ _; simp
          · intro _ _; simp
        · have hq2r : q2.rid = q.rid := by
            rcases h0 with h0 | ⟨_, h0⟩ <;> rw [h0]
          have hq2e : q2 = q := by
            rcases h0 with h0 | ⟨h1, _⟩
            · exact h0
            · exact absurd h1 he
          subst hq2e
          simp only [he, if_false]
          exact hg

theorem run_cfg (cfg : Cfg) (ops : List Op) : (run (init cfg) ops).1.cfg = cfg :=
  run_ind (P := fun s _ => s.cfg = cfg) (G := fun _ => True) (fun _ _ _ => trivial)
    (fun s _ op h _ => by rw [step_cfg]; exact h) ops (init cfg) [] rfl trivial

theorem noWrap_of_run (ops : List Op) (s : State) (h : NoWrap (run s ops).1) : NoWrap s := by
  induction ops generalizing s with
  | nil => simpa [run_nil] using h
  | cons op ops ih => rw [run_cons] at h; exact noWrap_of_step _ _ (ih _ h)

/-- histories: "a Timer iff a timeout is in force" always (`b = false`); "armed" as long as the user cancels no Timer -/
theorem reach_allGood (b : Bool) (ops : List Op) (s : State) (hi : SInv s) (h : AllGood b s)
    (hw : NoWrap (run s ops).1)
    (hop : b = true → ∀ op ∈ ops, ∀ tk, op ≠ .timerCancel tk) (hs : ∀ op ∈ ops, op ≠ .search .wishlist) :
    AllGood b (run s ops).1 := by
  induction ops generalizing s with
  | nil => simpa [run_nil] using h
  | cons op ops ih =>
    rw [run_cons] at hw ⊢
    have hw1 : NoWrap (step s op).1 := noWrap_of_run ops _ hw
    exact ih _ (sinv_step op hi hw1)
      (allGood_step b op hi h (fun hb tk => hop hb op (by simp) tk) (hs op (by simp))) hw
      (fun hb o ho => hop hb o (by simp [ho])) (fun o ho => hs o (by simp [ho]))

end AioslskVerif.Search
