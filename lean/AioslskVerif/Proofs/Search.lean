import AioslskVerif.Model.Search
/-! Helper lemmas for C18 (model: `Model/Search.lean`). -/
namespace AioslskVerif.Search
open AioslskVerif.Generated.Search

/-! ### generic induction over op lists -/

theorem run_nil (s : State) : run s [] = (s, []) := rfl
theorem run_cons (s : State) (op : Op) (ops : List Op) :
    run s (op :: ops) = ((run (step s op).1 ops).1, (step s op).2 ++ (run (step s op).1 ops).2) := rfl

theorem run_append (s : State) (a b : List Op) :
    run s (a ++ b) = ((run (run s a).1 b).1, (run s a).2 ++ (run (run s a).1 b).2) := by
  induction a generalizing s with
  | nil => simp [run_nil]
  | cons op ops ih => simp [run_cons, ih, List.append_assoc]

/-- Induction principle: `P` relates the state and the trace so far; `G` is a guard on the *final* state that is
inherited by every earlier state (`hG`). -/
theorem run_ind {P : State → List Obs → Prop} {G : State → Prop}
    (hG : ∀ s op, G (step s op).1 → G s)
    (hstep : ∀ s tr op, P s tr → G (step s op).1 → P (step s op).1 (tr ++ (step s op).2)) :
    ∀ ops s tr, P s tr → G (run s ops).1 → P (run s ops).1 (tr ++ (run s ops).2) := by
  intro ops
  induction ops with
  | nil => intro s tr h _; simpa [run_nil] using h
  | cons op ops ih =>
    intro s tr h hg
    rw [run_cons] at hg ⊢
    have hgs : G (step s op).1 := by
      clear ih h
      generalize (step s op).1 = s' at hg
      induction ops generalizing s' with
      | nil => simpa [run_nil] using hg
      | cons op' ops' ih' => rw [run_cons] at hg; exact hG _ _ (ih' _ hg)
    have := ih _ _ (hstep s tr op h hgs) hg
    simpa [List.append_assoc] using this

/-! ### fireAll -/

theorem fireTask_requests (s : State) (t : TTask) :
    (fireTask s t).1 = { s with requests := s.requests.filter (fun r => r.ticket ≠ t.ticket) } := by
  unfold fireTask
  split
  · rfl
  · rename_i h
    have : s.requests.filter (fun r => r.ticket ≠ t.ticket) = s.requests := by
      apply List.filter_eq_self.2
      intro r hr
      simp only [List.any_eq_true, not_exists, not_and, decide_eq_true_eq] at h
      simpa using h r hr
    rw [this]

theorem fireAll_state (F : List TTask) (s : State) (o : List Obs) :
    (fireAll F s o).1 = { s with requests := s.requests.filter (fun r => F.all (fun t => r.ticket ≠ t.ticket)) } := by
  induction F generalizing s o with
  | nil => cases s; simp only [fireAll, List.all_nil]; congr 1; exact (List.filter_eq_self.2 (fun _ _ => rfl)).symm
  | cons t ts ih =>
    simp only [fireAll, ih, fireTask_requests, List.filter_filter, List.all_cons]
    congr 1
    apply List.filter_congr
    intro r _
    simp [Bool.and_comm]

theorem fireAll_obs_mem (F : List TTask) (s : State) (o : List Obs) (x : Obs) (hx : x ∈ (fireAll F s o).2) :
    x ∈ o ∨ ∃ t ∈ F, x = Obs.removed s.now t.rid t.ticket (t.deadline.getD 0) t.id ∨
                      x = Obs.loopErr s.now t.rid t.ticket t.id := by
  induction F generalizing s o with
  | nil => left; simpa [fireAll] using hx
  | cons t ts ih =>
    simp only [fireAll] at hx
    rcases ih _ _ hx with h | ⟨t', ht', h⟩
    · rcases List.mem_append.1 h with h | h
      · exact .inl h
      · right; refine ⟨t, by simp, ?_⟩
        unfold fireTask at h; split at h <;> simp_all
    · right; refine ⟨t', by simp [ht'], ?_⟩
      simpa [fireTask_requests] using h

/-! ### the invariant -/

/-- the ticket generator has not wrapped yet -/
def NoWrap (s : State) : Prop := s.cfg.initial + s.draws ≤ maxTicket

structure Inv (s : State) : Prop where
  gen_eq : s.gen = s.cfg.initial + s.draws
  req_tk : ∀ r ∈ s.requests, r.ticket = s.cfg.initial + r.rid ∧ 1 ≤ r.rid ∧ r.rid ≤ s.draws
  req_uniq : ∀ r1 ∈ s.requests, ∀ r2 ∈ s.requests, r1.rid = r2.rid → r1 = r2
  task_id : ∀ t ∈ s.tasks, t.id < s.nextTask
  task_nodup : s.tasks.Pairwise (fun a b => a.id ≠ b.id)
  /-- an un-cancelled pending timer task is the current handle of a registered request -/
  task_live : ∀ t ∈ s.tasks, t.cancelled = false →
    ∃ r ∈ s.requests, r.rid = t.rid ∧ r.ticket = t.ticket ∧ r.handle = some t.id
  /-- the handle of a registered request is an un-cancelled pending task of its Timer -/
  handle_task : ∀ r ∈ s.requests, ∀ id, r.handle = some id →
    ∃ t ∈ s.tasks, t.id = id ∧ t.rid = r.rid ∧ t.cancelled = false
  handle_timeout : ∀ r ∈ s.requests, r.timeout = none → r.handle = none

theorem inv_congr {s s' : State} (h : Inv s) (h1 : s'.cfg = s.cfg) (h2 : s'.gen = s.gen) (h3 : s'.draws = s.draws)
    (h4 : s'.nextTask = s.nextTask) (h5 : s'.requests = s.requests) (h6 : s'.tasks = s.tasks) : Inv s' := by
  obtain ⟨a, b, c, d, e, f, g, i⟩ := h
  constructor <;> simp only [h1, h2, h3, h4, h5, h6] <;> assumption

@[simp] theorem startTask_id (n : Nat) (t : TTask) : (startTask n t).id = t.id := by unfold startTask; split <;> rfl
@[simp] theorem startTask_rid (n : Nat) (t : TTask) : (startTask n t).rid = t.rid := by unfold startTask; split <;> rfl
@[simp] theorem startTask_ticket (n : Nat) (t : TTask) : (startTask n t).ticket = t.ticket := by
  unfold startTask; split <;> rfl
@[simp] theorem startTask_cancelled (n : Nat) (t : TTask) : (startTask n t).cancelled = t.cancelled := by
  unfold startTask; split <;> rfl
@[simp] theorem startTask_timeout (n : Nat) (t : TTask) : (startTask n t).timeout = t.timeout := by
  unfold startTask; split <;> rfl

theorem inv_mapStart {s : State} (n : Nat) (h : Inv s) : Inv { s with tasks := s.tasks.map (startTask n) } := by
  obtain ⟨a, b, c, d, e, f, g, i⟩ := h
  constructor <;> simp only [] <;> try assumption
  · intro t ht
    obtain ⟨t0, ht0, rfl⟩ := List.mem_map.1 ht
    simpa using d t0 ht0
  · rw [List.pairwise_map]
    simpa using e
  · intro t ht hc
    obtain ⟨t0, ht0, rfl⟩ := List.mem_map.1 ht
    simpa using f t0 ht0 (by simpa using hc)
  · intro r hr id hid
    obtain ⟨t, ht, h1, h2, h3⟩ := g r hr id hid
    exact ⟨startTask n t, List.mem_map.2 ⟨t, ht, rfl⟩, by simpa using h1, by simpa using h2, by simpa using h3⟩

theorem inv_reply {s : State} (tk : Nat) (h : Inv s) :
    Inv { s with requests := s.requests.map (fun q => if q.ticket = tk then { q with results := q.results + 1 } else q) } := by
  obtain ⟨a, b, c, d, e, f, g, i⟩ := h
  constructor <;> simp only [] <;> try assumption
  · intro r hr
    obtain ⟨r0, hr0, rfl⟩ := List.mem_map.1 hr
    have := b r0 hr0
    split <;> simpa using this
  · intro r1 hr1 r2 hr2 heq
    obtain ⟨q1, hq1, rfl⟩ := List.mem_map.1 hr1
    obtain ⟨q2, hq2, rfl⟩ := List.mem_map.1 hr2
    have : q1 = q2 := c q1 hq1 q2 hq2 (by grind)
    subst this; rfl
  · intro t ht hc
    obtain ⟨r, hr, h1, h2, h3⟩ := f t ht hc
    refine ⟨_, List.mem_map.2 ⟨r, hr, rfl⟩, ?_⟩
    split <;> simp_all
  · intro r hr id hid
    obtain ⟨r0, hr0, rfl⟩ := List.mem_map.1 hr
    have := g r0 hr0 id (by grind)
    grind
  · intro r hr hto
    obtain ⟨r0, hr0, rfl⟩ := List.mem_map.1 hr
    have := i r0 hr0
    grind

/-! ### Timer.cancel / remove_request -/

theorem pairwise_id_inj {l : List TTask} (h : l.Pairwise (fun a b => a.id ≠ b.id)) :
    ∀ a ∈ l, ∀ b ∈ l, a.id = b.id → a = b := by
  induction l with
  | nil => intro a ha; cases ha
  | cons x xs ih =>
    rw [List.pairwise_cons] at h
    intro a ha b hb hab
    rcases List.mem_cons.1 ha with rfl | ha' <;> rcases List.mem_cons.1 hb with rfl | hb'
    · rfl
    · exact absurd hab (h.1 b hb')
    · exact absurd hab.symm (h.1 a ha')
    · exact ih h.2 a ha' b hb' hab

def markCancelled (id : Nat) (t : TTask) : TTask := if t.id = id then { t with cancelled := true } else t

@[simp] theorem markCancelled_id (i : Nat) (t : TTask) : (markCancelled i t).id = t.id := by
  unfold markCancelled; split <;> rfl
@[simp] theorem markCancelled_rid (i : Nat) (t : TTask) : (markCancelled i t).rid = t.rid := by
  unfold markCancelled; split <;> rfl
@[simp] theorem markCancelled_ticket (i : Nat) (t : TTask) : (markCancelled i t).ticket = t.ticket := by
  unfold markCancelled; split <;> rfl
theorem markCancelled_cancelled (i : Nat) (t : TTask) :
    (markCancelled i t).cancelled = (t.cancelled || decide (t.id = i)) := by
  unfold markCancelled; split <;> simp_all

theorem timerCancel_some (s : State) (rid id : Nat) :
    timerCancel s rid (some id) =
      { s with tasks := s.tasks.map (markCancelled id), requests := setHandle s.requests rid none } := rfl

/-- `Timer.cancel` on the Timer of a registered request. -/
theorem inv_timerCancel {s : State} (h : Inv s) (r : Req) (hr : r ∈ s.requests) :
    Inv (timerCancel s r.rid r.handle) := by
  cases hh : r.handle with
  | none => simpa [timerCancel] using h
  | some id =>
    rw [timerCancel_some]
    obtain ⟨a, b, c, d, e, f, g, i⟩ := h
    constructor <;> simp only [setHandle] <;> try assumption
    · intro q hq
      obtain ⟨q0, hq0, rfl⟩ := List.mem_map.1 hq
      have := b q0 hq0
      split <;> simpa using this
    · intro r1 hr1 r2 hr2 heq
      obtain ⟨q1, hq1, rfl⟩ := List.mem_map.1 hr1
      obtain ⟨q2, hq2, rfl⟩ := List.mem_map.1 hr2
      have : q1 = q2 := c q1 hq1 q2 hq2 (by grind)
      subst this; rfl
    · intro t ht
      obtain ⟨t0, ht0, rfl⟩ := List.mem_map.1 ht
      simpa using d t0 ht0
    · rw [List.pairwise_map]; simpa using e
    · intro t ht hc
      obtain ⟨t0, ht0, rfl⟩ := List.mem_map.1 ht
      rw [markCancelled_cancelled] at hc
      have hc0 : t0.cancelled = false := by grind
      have hne : t0.id ≠ id := by grind
      obtain ⟨q, hq, h1, h2, h3⟩ := f t0 ht0 hc0
      have hqr : q.rid ≠ r.rid := by
        intro heq
        have := c q hq r hr heq
        grind
      refine ⟨q, List.mem_map.2 ⟨q, hq, by simp [hqr]⟩, by simpa using h1, by simpa using h2, by simpa using h3⟩
    · intro q hq id' hid'
      obtain ⟨q0, hq0, rfl⟩ := List.mem_map.1 hq
      by_cases hqr : q0.rid = r.rid
      · simp [hqr] at hid'
      · simp only [hqr, if_false] at hid'
        obtain ⟨t, ht, h1, h2, h3⟩ := g q0 hq0 id' hid'
        refine ⟨markCancelled id t, List.mem_map.2 ⟨t, ht, rfl⟩, by simpa using h1, by simpa [hqr] using h2, ?_⟩
        rw [markCancelled_cancelled]
        have : t.id ≠ id := by
          intro heq
          obtain ⟨t', ht', h1', h2', _⟩ := g r hr id hh
          have : t = t' := pairwise_id_inj e t ht t' ht' (by omega)
          grind
        simp [h3, this]
    · intro q hq hto
      obtain ⟨q0, hq0, rfl⟩ := List.mem_map.1 hq
      have := i q0 hq0
      grind

theorem Inv.ticket_inj {s : State} (h : Inv s) : ∀ r1 ∈ s.requests, ∀ r2 ∈ s.requests, r1.ticket = r2.ticket → r1 = r2 := by
  intro r1 h1 r2 h2 heq
  have a := h.req_tk r1 h1
  have b := h.req_tk r2 h2
  exact h.req_uniq r1 h1 r2 h2 (by omega)

/-- dropping a registered request whose Timer holds no task -/
theorem inv_dropDisarmed {s : State} (h : Inv s) (r : Req) (hr : r ∈ s.requests) (hh : r.handle = none) :
    Inv { s with requests := s.requests.filter (fun q => q.ticket ≠ r.ticket) } := by
  have hinj := h.ticket_inj
  obtain ⟨a, b, c, d, e, f, g, i⟩ := h
  constructor <;> simp only [] <;> try assumption
  · intro q hq; exact b q (List.mem_filter.1 hq).1
  · intro r1 h1 r2 h2; exact c r1 (List.mem_filter.1 h1).1 r2 (List.mem_filter.1 h2).1
  · intro t ht hc
    obtain ⟨q, hq, h1, h2, h3⟩ := f t ht hc
    refine ⟨q, List.mem_filter.2 ⟨hq, ?_⟩, h1, h2, h3⟩
    have : q.ticket ≠ r.ticket := by
      intro heq
      have := hinj q hq r hr heq
      grind
    simpa using this
  · intro q hq; exact g q (List.mem_filter.1 hq).1
  · intro q hq; exact i q (List.mem_filter.1 hq).1

theorem lookup_some {s : State} {tk : Nat} {r : Req} (h : lookup s tk = some r) : r ∈ s.requests ∧ r.ticket = tk := by
  unfold lookup at h
  exact ⟨List.mem_of_find?_eq_some h, by simpa using List.find?_some h⟩

theorem lookup_none {s : State} {tk : Nat} (h : lookup s tk = none) : ∀ r ∈ s.requests, r.ticket ≠ tk := by
  unfold lookup at h
  intro r hr
  simpa using List.find?_eq_none.1 h r hr

theorem setHandle_filter (rs : List Req) (rid tk : Nat) (h : Option Nat) :
    setHandle (rs.filter (fun q => q.ticket ≠ tk)) rid h = (setHandle rs rid h).filter (fun q => q.ticket ≠ tk) := by
  unfold setHandle
  rw [List.filter_map]
  congr 1
  apply List.filter_congr
  intro q _
  simp only [Function.comp]
  split <;> rfl

/-- state after `remove_request(tk)` for a registered `r` -/
theorem inv_remove {s : State} (h : Inv s) (tk : Nat) (r : Req) (hl : lookup s tk = some r) :
    Inv (step s (.remove tk)).1 := by
  obtain ⟨hr, htk⟩ := lookup_some hl
  have hc := inv_timerCancel h r hr
  simp only [step, hl]
  cases hh : r.handle with
  | none =>
    have key := inv_dropDisarmed h r hr hh
    rw [htk] at key
    cases hto : r.timeout <;> simpa [hh, timerCancel] using key
  | some id =>
    have hto : r.timeout ≠ none := fun h0 => by have := h.handle_timeout r hr h0; simp [hh] at this
    obtain ⟨T, hT⟩ := Option.ne_none_iff_exists'.1 hto
    simp only [hT, timerCancel_some]
    rw [hh, timerCancel_some] at hc
    rw [setHandle_filter]
    have hmem : ({ r with handle := none } : Req) ∈ setHandle s.requests r.rid none := by
      unfold setHandle
      exact List.mem_map.2 ⟨r, hr, by simp⟩
    have := inv_dropDisarmed hc _ hmem rfl
    simpa [htk] using this

/-! ### Timer.start / reschedule -/

theorem inv_setTimeout {s : State} (h : Inv s) (rid n : Nat) :
    Inv { s with requests := setTimeout s.requests rid n } := by
  obtain ⟨a, b, c, d, e, f, g, i⟩ := h
  constructor <;> simp only [setTimeout] <;> try assumption
  · intro r hr
    obtain ⟨r0, hr0, rfl⟩ := List.mem_map.1 hr
    have := b r0 hr0
    split <;> simpa using this
  · intro r1 hr1 r2 hr2 heq
    obtain ⟨q1, hq1, rfl⟩ := List.mem_map.1 hr1
    obtain ⟨q2, hq2, rfl⟩ := List.mem_map.1 hr2
    have : q1 = q2 := c q1 hq1 q2 hq2 (by grind)
    subst this; rfl
  · intro t ht hc
    obtain ⟨r, hr, h1, h2, h3⟩ := f t ht hc
    refine ⟨_, List.mem_map.2 ⟨r, hr, rfl⟩, ?_⟩
    split <;> simp_all
  · intro r hr id hid
    obtain ⟨r0, hr0, rfl⟩ := List.mem_map.1 hr
    have := g r0 hr0 id (by grind)
    grind
  · intro r hr hto
    obtain ⟨r0, hr0, rfl⟩ := List.mem_map.1 hr
    have := i r0 hr0
    grind

theorem inv_timerStart {s : State} (h : Inv s) (rid tk T : Nat)
    (hq : ∃ q ∈ s.requests, q.rid = rid ∧ q.ticket = tk ∧ q.handle = none ∧ q.timeout ≠ none) :
    Inv (timerStart s rid tk T) := by
  obtain ⟨q, hqm, hq1, hq2, hq3, hq4⟩ := hq
  obtain ⟨a, b, c, d, e, f, g, i⟩ := h
  unfold timerStart
  constructor <;> simp only [setHandle] <;> try assumption
  · intro r hr
    obtain ⟨r0, hr0, rfl⟩ := List.mem_map.1 hr
    have := b r0 hr0
    split <;> simpa using this
  · intro r1 hr1 r2 hr2 heq
    obtain ⟨q1, hq1, rfl⟩ := List.mem_map.1 hr1
    obtain ⟨q2, hq2, rfl⟩ := List.mem_map.1 hr2
    have : q1 = q2 := c q1 hq1 q2 hq2 (by grind)
    subst this; rfl
  · intro t ht
    rcases List.mem_append.1 ht with ht | ht
    · have := d t ht; omega
    · simp at ht; subst ht; simp
  · rw [List.pairwise_append]
    refine ⟨e, by simp, ?_⟩
    intro x hx y hy
    simp at hy; subst hy
    have := d x hx
    simp; omega
  · intro t ht hc
    rcases List.mem_append.1 ht with ht | ht
    · obtain ⟨r, hr, h1, h2, h3⟩ := f t ht hc
      have hne : r.rid ≠ rid := by
        intro heq
        have := c r hr q hqm (by omega)
        grind
      exact ⟨r, List.mem_map.2 ⟨r, hr, by simp [hne]⟩, h1, h2, h3⟩
    · simp at ht; subst ht
      exact ⟨{ q with handle := some s.nextTask }, List.mem_map.2 ⟨q, hqm, by simp [hq1]⟩, by simpa using hq1,
        by simpa using hq2, rfl⟩
  · intro r hr id hid
    obtain ⟨r0, hr0, rfl⟩ := List.mem_map.1 hr
    by_cases hr : r0.rid = rid
    · simp only [hr, if_true] at hid ⊢
      refine ⟨_, List.mem_append.2 (.inr (List.mem_singleton.2 rfl)), ?_⟩
      simp at hid; simp [hid]
    · simp only [hr, if_false] at hid ⊢
      obtain ⟨t, ht, h1⟩ := g r0 hr0 id hid
      exact ⟨t, List.mem_append.2 (.inl ht), h1⟩
  · intro r hr hto
    obtain ⟨r0, hr0, rfl⟩ := List.mem_map.1 hr
    by_cases hr : r0.rid = rid
    · have := c r0 hr0 q hqm (by omega)
      subst this
      simp [hr] at hto
      exact absurd hto hq4
    · simp only [hr, if_false] at hto ⊢
      exact i r0 hr0 hto

/-- `requests[tk].timer.reschedule(n)` -/
theorem inv_reschedule {s : State} (h : Inv s) (tk n : Nat) : Inv (step s (.timerReschedule tk n)).1 := by
  simp only [step]
  cases hl : lookup s tk with
  | none => simpa using h
  | some r =>
    obtain ⟨hr, htk⟩ := lookup_some hl
    cases hto : r.timeout with
    | none => simpa [hto] using h
    | some T0 =>
      simp only [hto]
      have hc := inv_timerCancel h r hr
      have hst := inv_setTimeout hc r.rid n
      apply inv_timerStart hst
      -- the request, with its handle cleared by `cancel` and its new timeout
      refine ⟨{ r with handle := none, timeout := some n }, ?_, rfl, rfl, rfl, by simp⟩
      cases hh : r.handle with
      | none =>
        simp only [timerCancel, setTimeout]
        exact List.mem_map.2 ⟨r, hr, by simp [hh]⟩
      | some id =>
        simp only [timerCancel_some, setTimeout, setHandle, List.map_map]
        exact List.mem_map.2 ⟨r, hr, by simp⟩

/-! ### new requests -/

theorem nextTicket_nowrap (initial d : Nat) (h : initial + d + 1 ≤ maxTicket) :
    nextTicket initial (initial + d) = initial + d + 1 := by
  unfold nextTicket
  have : ¬ (initial + d + 1 > maxTicket) := by omega
  simp [this]

theorem newRequest_draws (s : State) (k : Kind) (to : Option Nat) : (newRequest s k to).1.draws = s.draws + 1 := by
  unfold newRequest; cases to <;> simp [timerStart]

theorem newRequest_cfg (s : State) (k : Kind) (to : Option Nat) : (newRequest s k to).1.cfg = s.cfg := by
  unfold newRequest; cases to <;> simp [timerStart]

theorem newRequest_now (s : State) (k : Kind) (to : Option Nat) : (newRequest s k to).1.now = s.now := by
  unfold newRequest; cases to <;> simp [timerStart]

/-- the registration part of `newRequest` (before `Timer.start`) -/
def registered (s : State) (k : Kind) (to : Option Nat) : State :=
  { s with gen := nextTicket s.cfg.initial s.gen, draws := s.draws + 1,
           requests := s.requests.filter (fun r => r.ticket ≠ nextTicket s.cfg.initial s.gen) ++
             [{ rid := s.draws + 1, ticket := nextTicket s.cfg.initial s.gen, kind := k, timeout := to,
                handle := none, results := 0 }] }

theorem newRequest_state (s : State) (k : Kind) (to : Option Nat) :
    (newRequest s k to).1 = match to with
      | none => registered s k none
      | some T => timerStart (registered s k (some T)) (s.draws + 1) (nextTicket s.cfg.initial s.gen) T := by
  unfold newRequest registered; cases to <;> rfl

theorem inv_registered {s : State} (h : Inv s) (k : Kind) (to : Option Nat)
    (hw : s.cfg.initial + s.draws + 1 ≤ maxTicket) : Inv (registered s k to) := by
  obtain ⟨a, b, c, d, e, f, g, i⟩ := h
  have htk : nextTicket s.cfg.initial s.gen = s.cfg.initial + s.draws + 1 := by
    rw [a]; exact nextTicket_nowrap _ _ hw
  unfold registered
  rw [htk]
  constructor <;> simp only [] <;> try assumption
  · omega
  · intro r hr
    rcases List.mem_append.1 hr with hr | hr
    · have := b r (List.mem_filter.1 hr).1; omega
    · simp at hr; subst hr; simp; omega
  · intro r1 h1 r2 h2 heq
    rcases List.mem_append.1 h1 with h1 | h1 <;> rcases List.mem_append.1 h2 with h2 | h2
    · exact c r1 (List.mem_filter.1 h1).1 r2 (List.mem_filter.1 h2).1 heq
    · have := b r1 (List.mem_filter.1 h1).1
      simp at h2; subst h2; simp at heq; omega
    · have := b r2 (List.mem_filter.1 h2).1
      simp at h1; subst h1; simp at heq; omega
    · simp at h1 h2; rw [h1, h2]
  · intro t ht hc
    obtain ⟨q, hq, h1, h2, h3⟩ := f t ht hc
    refine ⟨q, List.mem_append.2 (.inl (List.mem_filter.2 ⟨hq, ?_⟩)), h1, h2, h3⟩
    have := b q hq
    simp; omega
  · intro r hr id hid
    rcases List.mem_append.1 hr with hr | hr
    · exact g r (List.mem_filter.1 hr).1 id hid
    · simp at hr; subst hr; simp at hid
  · intro r hr hto
    rcases List.mem_append.1 hr with hr | hr
    · exact i r (List.mem_filter.1 hr).1 hto
    · simp at hr; subst hr; rfl

theorem inv_newRequest {s : State} (h : Inv s) (k : Kind) (to : Option Nat)
    (hw : NoWrap (newRequest s k to).1) : Inv (newRequest s k to).1 := by
  have hw' : s.cfg.initial + s.draws + 1 ≤ maxTicket := by
    unfold NoWrap at hw; rw [newRequest_draws, newRequest_cfg] at hw; omega
  rw [newRequest_state]
  cases to with
  | none => exact inv_registered h k none hw'
  | some T =>
    apply inv_timerStart (inv_registered h k (some T) hw')
    refine ⟨_, List.mem_append.2 (.inr (List.mem_singleton.2 rfl)), rfl, rfl, rfl, by simp⟩

/-- without a wrap no registered request is overwritten, and the only observation is the `sent` event -/
theorem newRequest_obs {s : State} (h : Inv s) (k : Kind) (to : Option Nat)
    (hw : NoWrap (newRequest s k to).1) :
    (newRequest s k to).2 = [Obs.sent s.now (s.draws + 1) (s.cfg.initial + s.draws + 1)] := by
  have hw' : s.cfg.initial + s.draws + 1 ≤ maxTicket := by
    unfold NoWrap at hw; rw [newRequest_draws, newRequest_cfg] at hw; omega
  have htk : nextTicket s.cfg.initial s.gen = s.cfg.initial + s.draws + 1 := by
    rw [h.gen_eq]; exact nextTicket_nowrap _ _ hw'
  unfold newRequest
  simp only [htk]
  have : s.requests.filter (fun r => r.ticket = s.cfg.initial + s.draws + 1) = [] := by
    apply List.filter_eq_nil_iff.2
    intro r hr
    have := h.req_tk r hr
    simp; omega
  simp [this]

/-! ### the loop runs: timer tasks -/

@[simp] theorem unsetDone_rid (fin : List TTask) (r : Req) : (unsetDone fin r).rid = r.rid := by
  unfold unsetDone; split <;> rfl
@[simp] theorem unsetDone_ticket (fin : List TTask) (r : Req) : (unsetDone fin r).ticket = r.ticket := by
  unfold unsetDone; split <;> rfl
@[simp] theorem unsetDone_timeout (fin : List TTask) (r : Req) : (unsetDone fin r).timeout = r.timeout := by
  unfold unsetDone; split <;> rfl
@[simp] theorem unsetDone_results (fin : List TTask) (r : Req) : (unsetDone fin r).results = r.results := by
  unfold unsetDone; split <;> rfl
theorem unsetDone_handle (fin : List TTask) (r : Req) :
    (unsetDone fin r).handle = if fin.any (fun t => t.rid = r.rid && r.handle == some t.id) then none else r.handle := by
  unfold unsetDone; split <;> rfl

theorem settleTimers_state (s : State) :
    (settleTimers s).1 =
      { s with tasks := (s.tasks.map (startTask s.now)).filter (fun t => !isFinishing s.now t),
               requests := (s.requests.filter (fun r => ((s.tasks.map (startTask s.now)).filter (isDue s.now)).all
                              (fun t => r.ticket ≠ t.ticket))).map
                            (unsetDone ((s.tasks.map (startTask s.now)).filter (isFinishing s.now))) } := by
  simp only [settleTimers, fireAll_state]

theorem isDue_finishing {n : Nat} {t : TTask} (h : isDue n t = true) : isFinishing n t = true := by
  unfold isDue at h; unfold isFinishing; simp_all

/-- core: finishing / firing the timer tasks of a state whose tasks have all taken their first step -/
theorem inv_settleCore {s : State} (h : Inv s) (n : Nat) :
    Inv { s with tasks := s.tasks.filter (fun t => !isFinishing n t),
                 requests := (s.requests.filter (fun r => (s.tasks.filter (isDue n)).all
                                (fun t => r.ticket ≠ t.ticket))).map (unsetDone (s.tasks.filter (isFinishing n))) } := by
  have hinj := h.ticket_inj
  obtain ⟨a, b, c, d, e, f, g, i⟩ := h
  constructor <;> simp only [] <;> try assumption
  · intro r hr
    obtain ⟨q, hq, rfl⟩ := List.mem_map.1 hr
    simpa using b q (List.mem_filter.1 hq).1
  · intro r1 h1 r2 h2 heq
    obtain ⟨q1, hq1, rfl⟩ := List.mem_map.1 h1
    obtain ⟨q2, hq2, rfl⟩ := List.mem_map.1 h2
    have := c q1 (List.mem_filter.1 hq1).1 q2 (List.mem_filter.1 hq2).1 (by simpa using heq)
    subst this; rfl
  · intro t ht; exact d t (List.mem_filter.1 ht).1
  · exact e.filter _
  · intro t ht hc
    obtain ⟨htm, hnf⟩ := List.mem_filter.1 ht
    obtain ⟨q, hq, h1, h2, h3⟩ := f t htm hc
    have hsurv : (s.tasks.filter (isDue n)).all (fun x => q.ticket ≠ x.ticket) = true := by
      rw [List.all_eq_true]
      intro x hx
      obtain ⟨hxm, hxd⟩ := List.mem_filter.1 hx
      have hxc : x.cancelled = false := by unfold isDue at hxd; simp_all
      obtain ⟨qx, hqx, k1, k2, k3⟩ := f x hxm hxc
      have : q.ticket ≠ x.ticket := by
        intro heq
        have hqq := hinj q hq qx hqx (by omega)
        subst hqq
        have hid : t.id = x.id := by simpa [h3] using k3
        have := pairwise_id_inj e t htm x hxm hid
        subst this
        have := isDue_finishing hxd
        simp [this] at hnf
      simpa using this
    have hkeep : (unsetDone (s.tasks.filter (isFinishing n)) q).handle = some t.id := by
      rw [unsetDone_handle]
      have : (s.tasks.filter (isFinishing n)).any (fun x => x.rid = q.rid && q.handle == some x.id) = false := by
        rw [List.any_eq_false]
        intro x hx
        obtain ⟨hxm, hxf⟩ := List.mem_filter.1 hx
        intro hcon
        simp only [Bool.and_eq_true, decide_eq_true_eq, beq_iff_eq] at hcon
        have hid : t.id = x.id := by simpa [h3] using hcon.2
        have := pairwise_id_inj e t htm x hxm hid
        subst this
        simp [hxf] at hnf
      rw [if_neg (by rw [this]; simp)]
      exact h3
    exact ⟨_, List.mem_map.2 ⟨q, List.mem_filter.2 ⟨hq, hsurv⟩, rfl⟩, by simpa using h1, by simpa using h2, hkeep⟩
  · intro r hr id hid
    obtain ⟨q, hq, rfl⟩ := List.mem_map.1 hr
    rw [unsetDone_handle] at hid
    split at hid
    · cases hid
    · rename_i hany
      obtain ⟨t, ht, k1, k2, k3⟩ := g q (List.mem_filter.1 hq).1 id hid
      refine ⟨t, List.mem_filter.2 ⟨ht, ?_⟩, k1, by simpa using k2, k3⟩
      cases hfin : isFinishing n t with
      | false => rfl
      | true =>
        exfalso
        apply hany
        rw [List.any_eq_true]
        refine ⟨t, List.mem_filter.2 ⟨ht, hfin⟩, ?_⟩
        simp [k2, hid, k1]
  · intro r hr hto
    obtain ⟨q, hq, rfl⟩ := List.mem_map.1 hr
    rw [unsetDone_handle]
    have := i q (List.mem_filter.1 hq).1 (by simpa using hto)
    simp [this]

theorem inv_settleTimers {s : State} (h : Inv s) : Inv (settleTimers s).1 := by
  rw [settleTimers_state]
  exact inv_settleCore (inv_mapStart s.now h) s.now

/-! ### wishlist rounds, settle, step -/

theorem wishlistRound_cfg (n : Nat) (s : State) (o : List Obs) : (wishlistRound n s o).1.cfg = s.cfg := by
  induction n generalizing s o with
  | zero => rfl
  | succ n ih => simp only [wishlistRound, ih, newRequest_cfg]

theorem wishlistRound_now (n : Nat) (s : State) (o : List Obs) : (wishlistRound n s o).1.now = s.now := by
  induction n generalizing s o with
  | zero => rfl
  | succ n ih => simp only [wishlistRound, ih, newRequest_now]

theorem wishlistRound_draws (n : Nat) (s : State) (o : List Obs) : (wishlistRound n s o).1.draws = s.draws + n := by
  induction n generalizing s o with
  | zero => rfl
  | succ n ih => simp only [wishlistRound, ih, newRequest_draws]; omega

theorem inv_wishlistRound (n : Nat) {s : State} (o : List Obs) (h : Inv s) (hw : NoWrap (wishlistRound n s o).1) :
    Inv (wishlistRound n s o).1 := by
  induction n generalizing s o with
  | zero => exact h
  | succ n ih =>
    simp only [wishlistRound] at hw ⊢
    apply ih _ _ hw
    apply inv_newRequest h
    unfold NoWrap at hw ⊢
    rw [wishlistRound_cfg, wishlistRound_draws] at hw
    omega

/-- a round only adds `sent` observations, for requests that did not exist before -/
theorem wishlistRound_obs (n : Nat) {s : State} (o : List Obs) (h : Inv s) (hw : NoWrap (wishlistRound n s o).1) :
    ∀ x ∈ (wishlistRound n s o).2, x ∈ o ∨ ∃ rid, x = Obs.sent s.now rid (s.cfg.initial + rid) ∧ s.draws < rid := by
  induction n generalizing s o with
  | zero => intro x hx; exact .inl hx
  | succ n ih =>
    simp only [wishlistRound] at hw ⊢
    have hw1 : NoWrap (newRequest s .wishlist (wishlistTimeout s)).1 := by
      unfold NoWrap at hw ⊢
      rw [wishlistRound_cfg, wishlistRound_draws] at hw
      omega
    intro x hx
    rcases ih _ (inv_newRequest h _ _ hw1) hw x hx with hx | ⟨rid, hx, hlt⟩
    · rw [newRequest_obs h _ _ hw1] at hx
      rcases List.mem_append.1 hx with hx | hx
      · exact .inl hx
      · right; refine ⟨s.draws + 1, ?_, by omega⟩
        simp at hx; rw [hx]; simp [Nat.add_assoc]
    · right
      rw [newRequest_now, newRequest_cfg] at hx
      rw [newRequest_draws] at hlt
      exact ⟨rid, hx, by omega⟩

theorem settleTimers_cfg (s : State) : (settleTimers s).1.cfg = s.cfg := by rw [settleTimers_state]
theorem settleTimers_draws (s : State) : (settleTimers s).1.draws = s.draws := by rw [settleTimers_state]
theorem settleTimers_now (s : State) : (settleTimers s).1.now = s.now := by rw [settleTimers_state]

theorem settleWishlist_cfg (s : State) (o : List Obs) : (settleWishlist s o).1.cfg = s.cfg := by
  unfold settleWishlist; split
  · rfl
  · split
    · simp [wishlistRound_cfg]
    · rfl

theorem settleWishlist_draws (s : State) (o : List Obs) : s.draws ≤ (settleWishlist s o).1.draws := by
  unfold settleWishlist; split
  · exact Nat.le_refl _
  · split
    · simp [wishlistRound_draws]
    · exact Nat.le_refl _

theorem settleWishlist_round {s : State} (o : List Obs) {w : Nat} (h1 : s.wlNext = some w) (h2 : w ≤ s.now) :
    settleWishlist s o =
      ({ (wishlistRound s.cfg.items s o).1 with
          wlNext := some (s.now + s.wlInterval.getD defaultWishlistInterval),
          tasks := (wishlistRound s.cfg.items s o).1.tasks.map (startTask s.now) },
       (wishlistRound s.cfg.items s o).2) := by
  unfold settleWishlist; simp [h1, h2]

theorem settleWishlist_idle {s : State} (o : List Obs) (h : ∀ w, s.wlNext = some w → ¬ w ≤ s.now) :
    settleWishlist s o = (s, o) := by
  unfold settleWishlist
  cases hw : s.wlNext with
  | none => rfl
  | some w => simp [h w hw]

/-- case split on whether the wishlist task runs a round -/
theorem settleWishlist_cases (s : State) (o : List Obs) :
    (settleWishlist s o = (s, o)) ∨
    (∃ w, s.wlNext = some w ∧ w ≤ s.now ∧ settleWishlist s o =
      ({ (wishlistRound s.cfg.items s o).1 with
          wlNext := some (s.now + s.wlInterval.getD defaultWishlistInterval),
          tasks := (wishlistRound s.cfg.items s o).1.tasks.map (startTask s.now) },
       (wishlistRound s.cfg.items s o).2)) := by
  cases hw : s.wlNext with
  | none => left; exact settleWishlist_idle o (by simp [hw])
  | some w =>
    by_cases hle : w ≤ s.now
    · right; exact ⟨w, rfl, hle, settleWishlist_round o hw hle⟩
    · left; apply settleWishlist_idle o; intro w' hw'; rw [hw] at hw'; cases hw'; exact hle

theorem inv_settleWishlist {s : State} (o : List Obs) (h : Inv s) (hw : NoWrap (settleWishlist s o).1) :
    Inv (settleWishlist s o).1 := by
  rcases settleWishlist_cases s o with he | ⟨w, _, _, he⟩
  · rw [he]; exact h
  · rw [he] at hw ⊢
    have hw' : NoWrap (wishlistRound s.cfg.items s o).1 := hw
    have := inv_mapStart s.now (inv_wishlistRound _ o h hw')
    exact inv_congr this rfl rfl rfl rfl rfl rfl

theorem settleWishlist_obs {s : State} (o : List Obs) (h : Inv s) (hw : NoWrap (settleWishlist s o).1) :
    ∀ x ∈ (settleWishlist s o).2, x ∈ o ∨ ∃ rid, x = Obs.sent s.now rid (s.cfg.initial + rid) ∧ s.draws < rid := by
  rcases settleWishlist_cases s o with he | ⟨w, _, _, he⟩
  · rw [he]; intro x hx; exact .inl hx
  · rw [he] at hw ⊢
    exact wishlistRound_obs _ o h hw

theorem inv_settle {s : State} (h : Inv s) (hw : NoWrap (settle s).1) : Inv (settle s).1 := by
  unfold settle at hw ⊢
  exact inv_settleWishlist _ (inv_settleTimers h) hw

theorem timerCancel_cfg (s : State) (rid : Nat) (h : Option Nat) : (timerCancel s rid h).cfg = s.cfg := by
  cases h <;> rfl
theorem timerCancel_draws (s : State) (rid : Nat) (h : Option Nat) : (timerCancel s rid h).draws = s.draws := by
  cases h <;> rfl
theorem timerCancel_now (s : State) (rid : Nat) (h : Option Nat) : (timerCancel s rid h).now = s.now := by
  cases h <;> rfl

theorem step_cfg (s : State) (op : Op) : (step s op).1.cfg = s.cfg := by
  cases op <;> simp only [step] <;> (repeat' split) <;>
    simp [newRequest_cfg, timerCancel_cfg, timerStart, settle, settleWishlist_cfg, settleTimers_cfg]

theorem settle_draws (s : State) : s.draws ≤ (settle s).1.draws := by
  unfold settle
  have := settleWishlist_draws (settleTimers s).1 (settleTimers s).2
  rw [settleTimers_draws] at this; exact this

theorem step_draws (s : State) (op : Op) : s.draws ≤ (step s op).1.draws := by
  cases op <;> simp only [step] <;> (repeat' split) <;>
    simp [newRequest_draws, timerCancel_draws, timerStart, settle_draws]

theorem noWrap_of_step (s : State) (op : Op) (h : NoWrap (step s op).1) : NoWrap s := by
  unfold NoWrap at h ⊢
  rw [step_cfg] at h
  have := step_draws s op
  omega

theorem inv_step {s : State} (op : Op) (h : Inv s) (hw : NoWrap (step s op).1) : Inv (step s op).1 := by
  cases op with
  | search k => exact inv_newRequest h _ _ hw
  | wlInterval n => exact inv_congr h rfl rfl rfl rfl rfl rfl
  | serverClosing => exact inv_congr h rfl rfl rfl rfl rfl rfl
  | remove tk =>
    cases hl : lookup s tk with
    | none => simpa [step, hl] using h
    | some r => exact inv_remove h tk r hl
  | reply tk =>
    simp only [step]
    cases hl : lookup s tk with
    | none => simpa using h
    | some r =>
      simp only []
      cases hs : s.cfg.storeResults with
      | false => simpa using inv_congr h rfl rfl rfl rfl rfl rfl
      | true => simpa using inv_reply tk h
  | timerCancel tk =>
    simp only [step]
    cases hl : lookup s tk with
    | none => simpa using h
    | some r =>
      cases hto : r.timeout with
      | none => simpa [hto] using h
      | some T => simpa [hto] using inv_timerCancel h r (lookup_some hl).1
  | timerReschedule tk n => exact inv_reschedule h tk n
  | jump d => exact inv_congr h rfl rfl rfl rfl rfl rfl
  | settle => exact inv_settle h hw

theorem inv_init (cfg : Cfg) : Inv (init cfg) := by
  constructor <;> simp [init]


/-! ### what a step may report -/

theorem fireAll_obs_ok (F : List TTask) (s : State) (o : List Obs)
    (hp : F.Pairwise (fun a b => a.id ≠ b.id))
    (hw : ∀ t ∈ F, ∃ r ∈ s.requests, r.ticket = t.ticket ∧ r.handle = some t.id)
    (hinj : ∀ r1 ∈ s.requests, ∀ r2 ∈ s.requests, r1.ticket = r2.ticket → r1 = r2) :
    ∀ x ∈ (fireAll F s o).2, x ∈ o ∨ ∃ t ∈ F, x = Obs.removed s.now t.rid t.ticket (t.deadline.getD 0) t.id := by
  induction F generalizing s o with
  | nil => intro x hx; exact .inl hx
  | cons t ts ih =>
    rw [List.pairwise_cons] at hp
    obtain ⟨rt, hrt, hrt1, hrt2⟩ := hw t (by simp)
    have hany : s.requests.any (fun r => r.ticket = t.ticket) = true := by
      rw [List.any_eq_true]; exact ⟨rt, hrt, by simpa using hrt1⟩
    have hfire : fireTask s t = ({ s with requests := s.requests.filter (fun r => r.ticket ≠ t.ticket) },
        [Obs.removed s.now t.rid t.ticket (t.deadline.getD 0) t.id]) := by
      unfold fireTask; rw [if_pos hany]
    simp only [fireAll, hfire]
    intro x hx
    have := ih { s with requests := s.requests.filter (fun r => r.ticket ≠ t.ticket) } _ hp.2
      (by
        intro t2 ht2
        obtain ⟨r2, hr2, k1, k2⟩ := hw t2 (by simp [ht2])
        refine ⟨r2, List.mem_filter.2 ⟨hr2, ?_⟩, k1, k2⟩
        have : r2.ticket ≠ t.ticket := by
          intro heq
          have := hinj r2 hr2 rt hrt (by omega)
          subst this
          have : t2.id = t.id := by simpa [k2] using hrt2
          exact hp.1 t2 ht2 this.symm
        simpa using this)
      (by
        intro r1 h1 r2 h2
        exact hinj r1 (List.mem_filter.1 h1).1 r2 (List.mem_filter.1 h2).1)
      x hx
    rcases this with h | ⟨t', ht', h⟩
    · rcases List.mem_append.1 h with h | h
      · exact .inl h
      · right; exact ⟨t, by simp, by simpa using h⟩
    · right; exact ⟨t', by simp [ht'], h⟩

def ObsOk (s : State) (op : Op) : Obs → Prop
  | .sent t rid tk => t = s.now ∧ s.draws < rid ∧ tk = s.cfg.initial + rid
  | .removed t rid tk dl tid =>
    op = .settle ∧ t = s.now ∧ dl ≤ s.now ∧
    (∃ task ∈ s.tasks, task.id = tid ∧ task.rid = rid ∧ task.cancelled = false ∧
      (startTask s.now task).deadline = some dl) ∧
    ∃ r ∈ s.requests, r.rid = rid ∧ r.ticket = tk ∧ r.handle = some tid
  | .result t rid tk => op = .reply tk ∧ t = s.now ∧ ∃ r ∈ s.requests, r.rid = rid ∧ r.ticket = tk
  | .loopErr _ _ _ _ => False
  | .clobber _ _ => False
  | .callerErr => ∃ tk, op = .remove tk ∧ ∀ r ∈ s.requests, r.ticket ≠ tk
  | .noReq => True
  | .noTimer => True

theorem settleTimers_obs {s : State} (h : Inv s) : ∀ x ∈ (settleTimers s).2, ObsOk s .settle x := by
  intro x hx
  have h0 := inv_mapStart s.now h
  simp only [settleTimers] at hx
  have hF : ∀ t ∈ (s.tasks.map (startTask s.now)).filter (isDue s.now),
      ∃ t0 ∈ s.tasks, t = startTask s.now t0 ∧ t0.cancelled = false ∧ reached s.now t = true := by
    intro t ht
    obtain ⟨htm, hd⟩ := List.mem_filter.1 ht
    obtain ⟨t0, ht0, rfl⟩ := List.mem_map.1 htm
    refine ⟨t0, ht0, rfl, ?_⟩
    unfold isDue at hd
    simpa using hd
  have := fireAll_obs_ok _ s [] (h0.task_nodup.filter _)
    (by
      intro t ht
      obtain ⟨t0, ht0, rfl, hc, _⟩ := hF t ht
      obtain ⟨r, hr, _, k2, k3⟩ := h.task_live t0 ht0 hc
      exact ⟨r, hr, by simpa using k2, by simpa using k3⟩)
    h.ticket_inj x hx
  rcases this with h' | ⟨t, ht, rfl⟩
  · cases h'
  · obtain ⟨t0, ht0, rfl, hc, hre⟩ := hF t ht
    obtain ⟨r, hr, k1, k2, k3⟩ := h.task_live t0 ht0 hc
    unfold reached at hre
    cases hd : (startTask s.now t0).deadline with
    | none => simp [hd] at hre
    | some d =>
      simp only [hd, decide_eq_true_eq] at hre
      refine ⟨rfl, rfl, by simpa using hre, ⟨t0, ht0, by simp, by simp, hc, by simp [hd]⟩, r, hr, ?_⟩
      simp [k1, k2, k3]

theorem ObsOk_sent_mono {s s' : State} {op : Op} {t rid tk : Nat} (h : ObsOk s' op (.sent t rid tk))
    (h1 : s'.now = s.now) (h2 : s.draws ≤ s'.draws) (h3 : s'.cfg = s.cfg) (op' : Op) :
    ObsOk s op' (.sent t rid tk) := by
  unfold ObsOk at h ⊢
  rw [h1, h3] at h
  exact ⟨h.1, by omega, h.2.2⟩

theorem step_obs {s : State} (op : Op) (h : Inv s) (hw : NoWrap (step s op).1) :
    ∀ x ∈ (step s op).2, ObsOk s op x := by
  cases op with
  | search k =>
    intro x hx
    simp only [step] at hx hw
    rw [newRequest_obs h _ _ hw] at hx
    simp at hx; subst hx
    exact ⟨rfl, by omega, by omega⟩
  | wlInterval n => intro x hx; cases hx
  | serverClosing => intro x hx; cases hx
  | jump d => intro x hx; cases hx
  | remove tk =>
    intro x hx
    simp only [step] at hx
    cases hl : lookup s tk with
    | none =>
      simp [hl] at hx; subst hx
      exact ⟨tk, rfl, lookup_none hl⟩
    | some r => simp [hl] at hx
  | reply tk =>
    intro x hx
    simp only [step] at hx
    cases hl : lookup s tk with
    | none => simp [hl] at hx
    | some r =>
      simp [hl] at hx; subst hx
      exact ⟨rfl, rfl, r, (lookup_some hl).1, rfl, (lookup_some hl).2⟩
  | timerCancel tk =>
    intro x hx
    simp only [step] at hx
    cases hl : lookup s tk with
    | none => simp [hl] at hx; subst hx; trivial
    | some r =>
      cases hto : r.timeout with
      | none => simp [hl, hto] at hx; subst hx; trivial
      | some T => simp [hl, hto] at hx
  | timerReschedule tk n =>
    intro x hx
    simp only [step] at hx
    cases hl : lookup s tk with
    | none => simp [hl] at hx; subst hx; trivial
    | some r =>
      cases hto : r.timeout with
      | none => simp [hl, hto] at hx; subst hx; trivial
      | some T => simp [hl, hto] at hx
  | settle =>
    intro x hx
    simp only [step, settle] at hx hw
    rcases settleWishlist_obs _ (inv_settleTimers h) hw x hx with hx | ⟨rid, rfl, hlt⟩
    · exact settleTimers_obs h x hx
    · rw [settleTimers_now, settleTimers_cfg]
      rw [settleTimers_draws] at hlt
      exact ⟨rfl, hlt, rfl⟩

/-! ### where the requests of the next state come from -/

/-- every request of `b` has the `rid` of a request of `a`, or is new (`rid > d`) -/
def RidsFrom (a : List Req) (d : Nat) (b : List Req) : Prop := ∀ r' ∈ b, (∃ r ∈ a, r.rid = r'.rid) ∨ d < r'.rid

theorem RidsFrom.refl (a : List Req) (d : Nat) : RidsFrom a d a := fun r' h => .inl ⟨r', h, rfl⟩

theorem RidsFrom.map {a b : List Req} {d : Nat} (h : RidsFrom a d b) (f : Req → Req) (hf : ∀ r, (f r).rid = r.rid) :
    RidsFrom a d (b.map f) := by
  intro r' hr'
  obtain ⟨q, hq, rfl⟩ := List.mem_map.1 hr'
  rw [hf]; exact h q hq

theorem RidsFrom.filter {a b : List Req} {d : Nat} (h : RidsFrom a d b) (p : Req → Bool) :
    RidsFrom a d (b.filter p) := fun r' hr' => h r' (List.mem_filter.1 hr').1

theorem RidsFrom.trans {a b c : List Req} {d d' : Nat} (h1 : RidsFrom a d b) (h2 : RidsFrom b d' c) (hd : d ≤ d') :
    RidsFrom a d c := by
  intro r' hr'
  rcases h2 r' hr' with ⟨q, hq, he⟩ | hlt
  · rcases h1 q hq with ⟨p, hp, he'⟩ | hlt
    · exact .inl ⟨p, hp, by omega⟩
    · exact .inr (by omega)
  · exact .inr (by omega)

theorem ridsFrom_setHandle (a : List Req) (d rid : Nat) (h : Option Nat) : RidsFrom a d (setHandle a rid h) :=
  (RidsFrom.refl a d).map _ (by intro r; split <;> rfl)

theorem ridsFrom_setTimeout (a : List Req) (d rid n : Nat) : RidsFrom a d (setTimeout a rid n) :=
  (RidsFrom.refl a d).map _ (by intro r; split <;> rfl)

theorem ridsFrom_timerCancel (s : State) (rid : Nat) (h : Option Nat) :
    RidsFrom s.requests s.draws (timerCancel s rid h).requests := by
  cases h with
  | none => exact RidsFrom.refl _ _
  | some id => exact ridsFrom_setHandle _ _ _ _

theorem ridsFrom_newRequest (s : State) (k : Kind) (to : Option Nat) :
    RidsFrom s.requests s.draws (newRequest s k to).1.requests := by
  have hreg : RidsFrom s.requests s.draws (registered s k to).requests := by
    intro r' hr'
    rcases List.mem_append.1 hr' with h | h
    · exact .inl ⟨r', (List.mem_filter.1 h).1, rfl⟩
    · simp at h; subst h; right; simp
  rw [newRequest_state]
  cases to with
  | none => exact hreg
  | some T => exact hreg.trans (ridsFrom_setHandle _ (s.draws) _ _) (Nat.le_refl _)

theorem ridsFrom_wishlistRound (n : Nat) (s : State) (o : List Obs) :
    RidsFrom s.requests s.draws (wishlistRound n s o).1.requests := by
  induction n generalizing s o with
  | zero => exact RidsFrom.refl _ _
  | succ n ih =>
    simp only [wishlistRound]
    exact (ridsFrom_newRequest s _ _).trans (ih _ _) (by rw [newRequest_draws]; omega)

theorem ridsFrom_settleTimers (s : State) : RidsFrom s.requests s.draws (settleTimers s).1.requests := by
  rw [settleTimers_state]
  exact ((RidsFrom.refl _ _).filter _).map _ (by simp)

theorem ridsFrom_settle (s : State) : RidsFrom s.requests s.draws (settle s).1.requests := by
  unfold settle
  refine (ridsFrom_settleTimers s).trans ?_ (Nat.le_refl _)
  rw [← settleTimers_draws s]
  rcases settleWishlist_cases (settleTimers s).1 (settleTimers s).2 with he | ⟨w, _, _, he⟩
  · rw [he]; exact RidsFrom.refl _ _
  · rw [he]; exact ridsFrom_wishlistRound _ _ _

theorem ridsFrom_step (s : State) (op : Op) : RidsFrom s.requests s.draws (step s op).1.requests := by
  cases op with
  | search k => exact ridsFrom_newRequest s _ _
  | wlInterval n => exact RidsFrom.refl _ _
  | serverClosing => exact RidsFrom.refl _ _
  | jump d => exact RidsFrom.refl _ _
  | settle => exact ridsFrom_settle s
  | remove tk =>
    simp only [step]
    cases hl : lookup s tk with
    | none => exact RidsFrom.refl _ _
    | some r =>
      cases hto : r.timeout with
      | none => simpa [hto] using (RidsFrom.refl s.requests s.draws).filter _
      | some T =>
        simp only [hto]
        exact ((RidsFrom.refl s.requests s.draws).filter _).trans (ridsFrom_timerCancel _ _ _) (Nat.le_refl _)
  | reply tk =>
    simp only [step]
    cases hl : lookup s tk with
    | none => exact RidsFrom.refl _ _
    | some r =>
      simp only []
      split
      · exact (RidsFrom.refl _ _).map _ (by intro r; split <;> rfl)
      · exact RidsFrom.refl _ _
  | timerCancel tk =>
    simp only [step]
    cases hl : lookup s tk with
    | none => exact RidsFrom.refl _ _
    | some r =>
      cases hto : r.timeout with
      | none => simpa [hto] using RidsFrom.refl s.requests s.draws
      | some T => simpa [hto] using ridsFrom_timerCancel s r.rid r.handle
  | timerReschedule tk n =>
    simp only [step]
    cases hl : lookup s tk with
    | none => exact RidsFrom.refl _ _
    | some r =>
      cases hto : r.timeout with
      | none => simpa [hto] using RidsFrom.refl s.requests s.draws
      | some T =>
        simp only [hto, timerStart]
        exact ((ridsFrom_timerCancel s r.rid r.handle).trans (ridsFrom_setTimeout _ s.draws _ _) (Nat.le_refl _)).trans
          (ridsFrom_setHandle _ s.draws _ _) (Nat.le_refl _)

/-! ### a removed request stays silent -/

def obsRid : Obs → Option Nat
  | .sent _ rid _ => some rid
  | .removed _ rid _ _ _ => some rid
  | .result _ rid _ => some rid
  | .loopErr _ rid _ _ => some rid
  | _ => none

/-- request object `rid` exists (its ticket has been drawn) and is not registered -/
def Gone (rid : Nat) (s : State) : Prop := rid ≤ s.draws ∧ ∀ q ∈ s.requests, q.rid ≠ rid

theorem gone_step {s : State} {rid : Nat} (op : Op) (hg : Gone rid s) : Gone rid (step s op).1 := by
  refine ⟨Nat.le_trans hg.1 (step_draws s op), ?_⟩
  intro q hq heq
  rcases ridsFrom_step s op q hq with ⟨r, hr, he⟩ | hlt
  · exact hg.2 r hr (by omega)
  · have := hg.1; omega

theorem gone_step_obs {s : State} {rid : Nat} (op : Op) (h : Inv s) (hw : NoWrap (step s op).1) (hg : Gone rid s) :
    ∀ x ∈ (step s op).2, obsRid x ≠ some rid := by
  intro x hx
  have hok := step_obs op h hw x hx
  cases x with
  | sent t r tk => simp only [obsRid, ObsOk] at hok ⊢; have := hg.1; intro hc; cases hc; omega
  | removed t r tk dl tid =>
    simp only [obsRid, ObsOk] at hok ⊢
    obtain ⟨_, _, _, _, q, hq, hqr, _⟩ := hok
    intro hc; cases hc; exact hg.2 q hq hqr
  | result t r tk =>
    simp only [obsRid, ObsOk] at hok ⊢
    obtain ⟨_, _, q, hq, hqr, _⟩ := hok
    intro hc; cases hc; exact hg.2 q hq hqr
  | loopErr t r tk tid => exact absurd hok (by simp [ObsOk])
  | callerErr => simp [obsRid]
  | noReq => simp [obsRid]
  | noTimer => simp [obsRid]
  | clobber a b => simp [obsRid]

theorem gone_run {rid : Nat} (ops : List Op) (s : State) (h : Inv s) (hw : NoWrap (run s ops).1) (hg : Gone rid s) :
    ∀ x ∈ (run s ops).2, obsRid x ≠ some rid := by
  have := run_ind (P := fun s tr => Inv s ∧ Gone rid s ∧ ∀ x ∈ tr, obsRid x ≠ some rid) (G := NoWrap)
    noWrap_of_step
    (by
      intro s tr op ⟨hi, hg, ht⟩ hw
      refine ⟨inv_step op hi hw, gone_step op hg, ?_⟩
      intro x hx
      rcases List.mem_append.1 hx with hx | hx
      · exact ht x hx
      · exact gone_step_obs op hi hw hg x hx)
    ops s [] ⟨h, hg, by simp⟩ hw
  simpa using this.2.2

/-- after `remove_request` succeeded the request is gone -/
theorem gone_after_remove {s : State} (h : Inv s) {tk : Nat} {r : Req} (hl : lookup s tk = some r) :
    Gone r.rid (step s (.remove tk)).1 := by
  obtain ⟨hr, htk⟩ := lookup_some hl
  refine ⟨Nat.le_trans (h.req_tk r hr).2.2 (step_draws _ _), ?_⟩
  intro q hq heq
  have hsub : ∀ q ∈ (step s (.remove tk)).1.requests, ∃ q0 ∈ s.requests, q0.rid = q.rid ∧ q0.ticket ≠ tk := by
    intro q hq
    simp only [step, hl] at hq
    have hfil : ∀ q ∈ s.requests.filter (fun x => x.ticket ≠ tk), ∃ q0 ∈ s.requests, q0.rid = q.rid ∧ q0.ticket ≠ tk := by
      intro q hq
      obtain ⟨h1, h2⟩ := List.mem_filter.1 hq
      exact ⟨q, h1, rfl, by simpa using h2⟩
    cases hto : r.timeout with
    | none => rw [hto] at hq; exact hfil q hq
    | some T =>
      rw [hto] at hq
      cases hh : r.handle with
      | none => rw [hh] at hq; exact hfil q hq
      | some id =>
        rw [hh, timerCancel_some] at hq
        simp only [setHandle] at hq
        obtain ⟨q1, hq1, rfl⟩ := List.mem_map.1 hq
        obtain ⟨q0, hq0, h1, h2⟩ := hfil q1 hq1
        exact ⟨q0, hq0, by rw [h1]; split <;> rfl, h2⟩
  obtain ⟨q0, hq0, h1, h2⟩ := hsub q hq
  have := h.req_uniq q0 hq0 r hr (by omega)
  subst this
  exact h2 htk

/-- after a timeout removal was reported the request is gone -/
theorem gone_after_timeout {s : State} (h : Inv s) (hw : NoWrap (settle s).1) {t rid tk dl tid : Nat}
    (hx : Obs.removed t rid tk dl tid ∈ (settle s).2) : Gone rid (settle s).1 := by
  have hok := step_obs .settle h hw _ hx
  simp only [ObsOk] at hok
  obtain ⟨_, _, hdl, ⟨task, htask, k1, k2, k3, k4⟩, r, hr, hr1, hr2, hr3⟩ := hok
  refine ⟨Nat.le_trans (by have := (h.req_tk r hr).2.2; omega) (settle_draws s), ?_⟩
  -- the request is filtered out when its task fires
  have hT : ∀ q ∈ (settleTimers s).1.requests, q.rid ≠ rid := by
    intro q hq heq
    rw [settleTimers_state] at hq
    simp only [] at hq
    obtain ⟨q0, hq0, rfl⟩ := List.mem_map.1 hq
    obtain ⟨hq0m, hall⟩ := List.mem_filter.1 hq0
    have : q0 = r := h.req_uniq q0 hq0m r hr (by simpa [hr1] using heq)
    subst this
    rw [List.all_eq_true] at hall
    have hmem : startTask s.now task ∈ (s.tasks.map (startTask s.now)).filter (isDue s.now) := by
      refine List.mem_filter.2 ⟨List.mem_map.2 ⟨task, htask, rfl⟩, ?_⟩
      unfold isDue reached
      simp [k3, k4, hdl]
    have := hall _ hmem
    obtain ⟨r', hr', j1, j2, j3⟩ := h.task_live task htask k3
    have : r' = q0 := h.req_uniq r' hr' q0 hr (by omega)
    subst this
    simp [j2] at this
  intro q hq heq
  unfold settle at hq
  rcases settleWishlist_cases (settleTimers s).1 (settleTimers s).2 with he | ⟨w, _, _, he⟩
  · rw [he] at hq; exact hT q hq heq
  · rw [he] at hq
    rcases ridsFrom_wishlistRound _ _ _ q hq with ⟨q0, hq0, h0⟩ | hlt
    · exact hT q0 hq0 (by omega)
    · rw [settleTimers_draws] at hlt
      have := (h.req_tk r hr).2.2
      omega

/-! ### a timeout removal is reported at most once -/

def removedRid : Obs → Option Nat
  | .removed _ rid _ _ _ => some rid
  | _ => none

theorem newRequest_removedRid (s : State) (k : Kind) (to : Option Nat) :
    (newRequest s k to).2.filterMap removedRid = [] := by
  unfold newRequest
  simp only [List.filterMap_append, List.filterMap_map]
  simp [removedRid, Function.comp_def]

theorem wishlistRound_removedRid (n : Nat) (s : State) (o : List Obs) :
    (wishlistRound n s o).2.filterMap removedRid = o.filterMap removedRid := by
  induction n generalizing s o with
  | zero => rfl
  | succ n ih => simp only [wishlistRound, ih, List.filterMap_append, newRequest_removedRid, List.append_nil]

theorem settleWishlist_removedRid (s : State) (o : List Obs) :
    (settleWishlist s o).2.filterMap removedRid = o.filterMap removedRid := by
  rcases settleWishlist_cases s o with he | ⟨w, _, _, he⟩
  · rw [he]
  · rw [he]; exact wishlistRound_removedRid _ _ _

theorem fireAll_obs_eq (F : List TTask) (s : State) (o : List Obs)
    (hp : F.Pairwise (fun a b => a.id ≠ b.id))
    (hw : ∀ t ∈ F, ∃ r ∈ s.requests, r.ticket = t.ticket ∧ r.handle = some t.id)
    (hinj : ∀ r1 ∈ s.requests, ∀ r2 ∈ s.requests, r1.ticket = r2.ticket → r1 = r2) :
    (fireAll F s o).2 = o ++ F.map (fun t => Obs.removed s.now t.rid t.ticket (t.deadline.getD 0) t.id) := by
  induction F generalizing s o with
  | nil => simp [fireAll]
  | cons t ts ih =>
    rw [List.pairwise_cons] at hp
    obtain ⟨rt, hrt, hrt1, hrt2⟩ := hw t (by simp)
    have hany : s.requests.any (fun r => r.ticket = t.ticket) = true := by
      rw [List.any_eq_true]; exact ⟨rt, hrt, by simpa using hrt1⟩
    have hfire : fireTask s t = ({ s with requests := s.requests.filter (fun r => r.ticket ≠ t.ticket) },
        [Obs.removed s.now t.rid t.ticket (t.deadline.getD 0) t.id]) := by
      unfold fireTask; rw [if_pos hany]
    simp only [fireAll, hfire]
    rw [ih { s with requests := s.requests.filter (fun r => r.ticket ≠ t.ticket) } _ hp.2
      (by
        intro t2 ht2
        obtain ⟨r2, hr2, k1, k2⟩ := hw t2 (by simp [ht2])
        refine ⟨r2, List.mem_filter.2 ⟨hr2, ?_⟩, k1, k2⟩
        have : r2.ticket ≠ t.ticket := by
          intro heq
          have := hinj r2 hr2 rt hrt (by omega)
          subst this
          have : t2.id = t.id := by simpa [k2] using hrt2
          exact hp.1 t2 ht2 this.symm
        simpa using this)
      (by
        intro r1 h1 r2 h2
        exact hinj r1 (List.mem_filter.1 h1).1 r2 (List.mem_filter.1 h2).1)]
    simp [List.append_assoc]

theorem settle_removedRid_nodup {s : State} (h : Inv s) : ((settle s).2.filterMap removedRid).Nodup := by
  unfold settle
  rw [settleWishlist_removedRid]
  have h0 := inv_mapStart s.now h
  have hF : ∀ t ∈ (s.tasks.map (startTask s.now)).filter (isDue s.now),
      ∃ r ∈ s.requests, r.rid = t.rid ∧ r.ticket = t.ticket ∧ r.handle = some t.id := by
    intro t ht
    obtain ⟨htm, hd⟩ := List.mem_filter.1 ht
    have hc : t.cancelled = false := by unfold isDue at hd; simp_all
    exact h0.task_live t htm hc
  simp only [settleTimers]
  rw [fireAll_obs_eq _ s [] (h0.task_nodup.filter _)
    (fun t ht => by obtain ⟨r, hr, _, k2, k3⟩ := hF t ht; exact ⟨r, hr, k2, k3⟩) h.ticket_inj]
  simp only [List.nil_append, List.filterMap_map]
  have : (removedRid ∘ fun t : TTask => Obs.removed s.now t.rid t.ticket (t.deadline.getD 0) t.id) = fun t => some t.rid := by
    funext t; rfl
  rw [this, List.filterMap_eq_map', List.Nodup, List.pairwise_map]
  apply List.Pairwise.imp_of_mem _ (h0.task_nodup.filter (isDue s.now))
  intro a b ha hb hab heq
  obtain ⟨ra, hra, a1, _, a3⟩ := hF a ha
  obtain ⟨rb, hrb, b1, _, b3⟩ := hF b hb
  have := h.req_uniq ra hra rb hrb (by omega)
  subst this
  rw [a3] at b3
  exact hab (by simpa using b3)

theorem step_removedRid_nodup {s : State} (op : Op) (h : Inv s) (hw : NoWrap (step s op).1) :
    ((step s op).2.filterMap removedRid).Nodup := by
  by_cases hop : op = .settle
  · subst hop; exact settle_removedRid_nodup h
  · have : (step s op).2.filterMap removedRid = [] := by
      rw [List.filterMap_eq_nil_iff]
      intro x hx
      have hok := step_obs op h hw x hx
      cases x with
      | removed t r tk dl tid => exact absurd hok.1 hop
      | _ => rfl
    rw [this]; exact List.nodup_nil

theorem removed_once (cfg : Cfg) (ops : List Op) (hw : NoWrap (run (init cfg) ops).1) :
    ((run (init cfg) ops).2.filterMap removedRid).Nodup := by
  have := run_ind (P := fun s tr => Inv s ∧ (∀ rid ∈ tr.filterMap removedRid, Gone rid s) ∧
      (tr.filterMap removedRid).Nodup) (G := NoWrap) noWrap_of_step
    (by
      intro s tr op ⟨hi, hg, hn⟩ hw
      have hnew : ∀ rid ∈ (step s op).2.filterMap removedRid,
          (∃ r ∈ s.requests, r.rid = rid) ∧ Gone rid (step s op).1 := by
        intro rid hrid
        obtain ⟨x, hx, hxr⟩ := List.mem_filterMap.1 hrid
        cases x with
        | removed t r tk dl tid =>
          simp only [removedRid, Option.some.injEq] at hxr
          subst hxr
          have hok := step_obs op hi hw _ hx
          obtain ⟨hop, _, _, _, q, hq, hq1, _⟩ := hok
          subst hop
          exact ⟨⟨q, hq, hq1⟩, gone_after_timeout hi hw hx⟩
        | _ => simp [removedRid] at hxr
      refine ⟨inv_step op hi hw, ?_, ?_⟩
      · intro rid hrid
        rw [List.filterMap_append] at hrid
        rcases List.mem_append.1 hrid with h1 | h1
        · exact gone_step op (hg rid h1)
        · exact (hnew rid h1).2
      · rw [List.filterMap_append, List.nodup_append]
        refine ⟨hn, step_removedRid_nodup op hi hw, ?_⟩
        intro a ha b hb hab
        subst hab
        obtain ⟨⟨q, hq, hq1⟩, _⟩ := hnew a hb
        exact (hg a ha).2 q hq hq1)
    ops (init cfg) [] ⟨inv_init cfg, by simp, by simp⟩ hw
  simpa using this.2.2

/-! ### timing: not before, not late, on the dot -/

/-- every pending task is un-cancelled, has started, and its deadline lies in the future -/
def Ahead (s : State) : Prop := ∀ t ∈ s.tasks, t.cancelled = false ∧ ∃ d, t.deadline = some d ∧ s.now < d

/-- no pending un-cancelled task is overdue -/
def OnTime (s : State) : Prop := ∀ t ∈ s.tasks, t.cancelled = false → ∀ d, t.deadline = some d → s.now ≤ d

theorem wishlistTimeout_pos {s : State} {T : Nat} (h : wishlistTimeout s = some T) : 1 ≤ T := by
  unfold wishlistTimeout at h
  simp only [] at h
  generalize (if s.cfg.wishlistTimeout < 0 then s.wlInterval.getD defaultWishlistInterval
    else s.cfg.wishlistTimeout.toNat) = v at h
  by_cases hv : v = 0
  · simp [hv] at h
  · simp [hv] at h; omega

theorem newRequest_tasks (s : State) (k : Kind) (to : Option Nat) :
    ∀ t ∈ (newRequest s k to).1.tasks, t ∈ s.tasks ∨ (t.cancelled = false ∧ t.deadline = none ∧ to = some t.timeout) := by
  intro t ht
  rw [newRequest_state] at ht
  cases to with
  | none => exact .inl ht
  | some T =>
    simp only [timerStart, registered] at ht
    rcases List.mem_append.1 ht with h | h
    · exact .inl h
    · simp at h; subst h; exact .inr ⟨rfl, rfl, rfl⟩

theorem wishlistRound_tasks (n : Nat) (s : State) (o : List Obs) :
    ∀ t ∈ (wishlistRound n s o).1.tasks, t ∈ s.tasks ∨ (t.cancelled = false ∧ t.deadline = none ∧ 1 ≤ t.timeout) := by
  induction n generalizing s o with
  | zero => intro t ht; exact .inl ht
  | succ n ih =>
    intro t ht
    simp only [wishlistRound] at ht
    rcases ih _ _ t ht with h | h
    · rcases newRequest_tasks _ _ _ t h with h | ⟨h1, h2, h3⟩
      · exact .inl h
      · exact .inr ⟨h1, h2, wishlistTimeout_pos h3⟩
    · exact .inr h

theorem startTask_deadline (n : Nat) (t : TTask) :
    (startTask n t).deadline = some (match t.deadline with | none => n + t.timeout | some d => d) := by
  unfold startTask; split <;> simp_all

theorem settle_now (s : State) : (settle s).1.now = s.now := by
  unfold settle
  rcases settleWishlist_cases (settleTimers s).1 (settleTimers s).2 with he | ⟨w, _, _, he⟩
  · rw [he, settleTimers_now]
  · rw [he]; simp [wishlistRound_now, settleTimers_now]

/-- **not late**: when the loop has run, whatever is still pending is not yet due -/
theorem settle_ahead (s : State) : Ahead (settle s).1 := by
  have hT : ∀ t ∈ (settleTimers s).1.tasks, t.cancelled = false ∧ ∃ d, t.deadline = some d ∧ s.now < d := by
    intro t ht
    rw [settleTimers_state] at ht
    obtain ⟨htm, hnf⟩ := List.mem_filter.1 ht
    obtain ⟨t0, _, rfl⟩ := List.mem_map.1 htm
    unfold isFinishing reached at hnf
    rw [startTask_deadline] at hnf ⊢
    simp only [Bool.not_or, Bool.and_eq_true, Bool.not_eq_true', decide_eq_false_iff_not] at hnf
    exact ⟨hnf.1, _, rfl, by omega⟩
  intro t ht
  rw [settle_now]
  unfold settle at ht
  rcases settleWishlist_cases (settleTimers s).1 (settleTimers s).2 with he | ⟨w, _, _, he⟩
  · rw [he] at ht; exact hT t ht
  · rw [he] at ht
    simp only [] at ht
    obtain ⟨t0, ht0, rfl⟩ := List.mem_map.1 ht
    rw [settleTimers_now]
    rcases wishlistRound_tasks _ _ _ t0 ht0 with h | ⟨h1, h2, h3⟩
    · obtain ⟨k1, d, k2, k3⟩ := hT t0 h
      rw [startTask_deadline, k2]
      exact ⟨by simpa using k1, d, rfl, k3⟩
    · rw [startTask_deadline, h2]
      exact ⟨by simpa using h1, _, rfl, by show s.now < s.now + t0.timeout; omega⟩

theorem removed_mem_wishlistRound (n : Nat) (s : State) (o : List Obs) {t rid tk dl tid : Nat}
    (hx : Obs.removed t rid tk dl tid ∈ (wishlistRound n s o).2) : Obs.removed t rid tk dl tid ∈ o := by
  induction n generalizing s o with
  | zero => exact hx
  | succ n ih =>
    simp only [wishlistRound] at hx
    have := ih _ _ hx
    rcases List.mem_append.1 this with h | h
    · exact h
    · unfold newRequest at h; simp at h

theorem removed_mem_settle (s : State) {t rid tk dl tid : Nat} (hx : Obs.removed t rid tk dl tid ∈ (settle s).2) :
    ∃ t0 ∈ s.tasks, t0.cancelled = false ∧ t = s.now ∧ (startTask s.now t0).deadline = some dl ∧ dl ≤ s.now ∧
      t0.id = tid ∧ t0.rid = rid := by
  unfold settle at hx
  have hx' : Obs.removed t rid tk dl tid ∈ (settleTimers s).2 := by
    rcases settleWishlist_cases (settleTimers s).1 (settleTimers s).2 with he | ⟨w, _, _, he⟩
    · rw [he] at hx; exact hx
    · rw [he] at hx; exact removed_mem_wishlistRound _ _ _ hx
  simp only [settleTimers] at hx'
  rcases fireAll_obs_mem _ _ _ _ hx' with h | ⟨f, hf, h | h⟩
  · cases h
  · obtain ⟨hfm, hd⟩ := List.mem_filter.1 hf
    obtain ⟨t0, ht0, rfl⟩ := List.mem_map.1 hfm
    unfold isDue reached at hd
    rw [startTask_deadline] at hd h
    simp only [Bool.and_eq_true, Bool.not_eq_true', decide_eq_true_eq, startTask_cancelled] at hd
    simp only [Option.getD_some, Obs.removed.injEq, startTask_rid, startTask_ticket, startTask_id] at h
    obtain ⟨h1, h2, _, h4, h5⟩ := h
    refine ⟨t0, ht0, hd.1, h1, ?_, ?_, h5.symm, h2.symm⟩
    · rw [startTask_deadline, h4]
    · rw [h4]; exact hd.2
  · cases h

/-- **on the dot**: if nothing pending is overdue, a removal reported by this run of the loop happens
exactly at its deadline -/
theorem settle_exact {s : State} (h : OnTime s) {t rid tk dl tid : Nat}
    (hx : Obs.removed t rid tk dl tid ∈ (settle s).2) : t = dl := by
  obtain ⟨t0, ht0, hc, rfl, hd, hle, _⟩ := removed_mem_settle s hx
  rw [startTask_deadline] at hd
  cases h0 : t0.deadline with
  | none => rw [h0] at hd; simp at hd; omega
  | some d =>
    rw [h0] at hd; simp at hd
    have := h t0 ht0 hc d h0
    omega

theorem onTime_of_ahead_jump1 {s : State} (h : Ahead s) : OnTime (step s (.jump 1)).1 := by
  intro t ht _ d hd
  obtain ⟨_, d', h1, h2⟩ := h t ht
  simp only [step] at hd ⊢
  rw [h1] at hd; cases hd; omega

theorem removed_is_settle (s : State) (op : Op) {t rid tk dl tid : Nat}
    (hx : Obs.removed t rid tk dl tid ∈ (step s op).2) : op = .settle := by
  cases op <;> simp only [step] at hx
  · unfold newRequest at hx; simp at hx
  · cases hx
  · cases hx
  · split at hx <;> simp at hx
  · split at hx <;> simp at hx
  · split at hx
    · simp at hx
    · split at hx <;> simp at hx
  · split at hx
    · simp at hx
    · split at hx <;> simp at hx
  · cases hx
  · rfl

theorem sleep_exact (d : Nat) {s : State} (h : OnTime s) :
    (∀ t rid tk dl tid, Obs.removed t rid tk dl tid ∈ (run s (sleepOps d)).2 → t = dl) ∧
    Ahead (run s (sleepOps d)).1 := by
  induction d generalizing s with
  | zero =>
    simp only [sleepOps, run_cons, run_nil, List.append_nil]
    exact ⟨fun t rid tk dl tid hx => settle_exact h hx, settle_ahead s⟩
  | succ d ih =>
    simp only [sleepOps, run_cons]
    have h1 : OnTime (step (step s .settle).1 (.jump 1)).1 := onTime_of_ahead_jump1 (settle_ahead s)
    obtain ⟨ih1, ih2⟩ := ih h1
    refine ⟨?_, ih2⟩
    intro t rid tk dl tid hx
    rcases List.mem_append.1 hx with hx | hx
    · exact settle_exact h hx
    · rcases List.mem_append.1 hx with hx | hx
      · cases hx
      · exact ih1 t rid tk dl tid hx

/-! ### reachable states; the ticket generator -/

theorem reach_inv (cfg : Cfg) (ops : List Op) (hw : NoWrap (run (init cfg) ops).1) : Inv (run (init cfg) ops).1 := by
  have := run_ind (P := fun s _ => Inv s) (G := NoWrap) noWrap_of_step
    (fun s _ op hi hw => inv_step op hi hw) ops (init cfg) [] (inv_init cfg) hw
  exact this

/-- every observation of a history without a generator wrap is one a step may report (`ObsOk`) -/
theorem reach_obs (cfg : Cfg) (ops : List Op) (hw : NoWrap (run (init cfg) ops).1) :
    ∀ x ∈ (run (init cfg) ops).2, (∀ t rid tk tid, x ≠ .loopErr t rid tk tid) ∧ (∀ a b, x ≠ .clobber a b) := by
  have := run_ind (P := fun s tr => Inv s ∧ ∀ x ∈ tr, (∀ t rid tk tid, x ≠ .loopErr t rid tk tid) ∧
      (∀ a b, x ≠ .clobber a b)) (G := NoWrap) noWrap_of_step
    (by
      intro s tr op ⟨hi, ht⟩ hw
      refine ⟨inv_step op hi hw, ?_⟩
      intro x hx
      rcases List.mem_append.1 hx with hx | hx
      · exact ht x hx
      · have hok := step_obs op hi hw x hx
        constructor
        · intro t rid tk tid hc; subst hc; exact hok
        · intro a b hc; subst hc; exact hok)
    ops (init cfg) [] ⟨inv_init cfg, by simp⟩ hw
  simpa using this.2

/-- the `n`-th output of `ticket_generator(initial)` (`n = 0`: the start value, never handed out) -/
def ticketAt (initial : Nat) : Nat → Nat
  | 0 => initial
  | n + 1 => nextTicket initial (ticketAt initial n)

theorem ticketAt_default (n : Nat) : ticketAt defaultInitial n = n % maxTicket + 1 := by
  induction n with
  | zero => rfl
  | succ n ih =>
    simp only [ticketAt, ih, nextTicket]
    have hm : maxTicket = 4294967295 := rfl
    have hi : defaultInitial = 1 := rfl
    rw [hm, hi]
    split <;> omega

/-! ## The removal report (`nstep`): each registered listener is told of a removal exactly once, and the
reporting task is never cancelled -/

/-! ### task ids are never re-used -/

/-- `s'` has at least the task-id counter of `s`, and every pending task of `s'` carries the id of a pending task
of `s` or a fresh one -/
def Grows (s s' : State) : Prop :=
  s.nextTask ≤ s'.nextTask ∧ ∀ t ∈ s'.tasks, (∃ t0 ∈ s.tasks, t0.id = t.id) ∨ s.nextTask ≤ t.id

theorem Grows.refl (s : State) : Grows s s := ⟨Nat.le_refl _, fun t ht => .inl ⟨t, ht, rfl⟩⟩

theorem Grows.trans {a b c : State} (h1 : Grows a b) (h2 : Grows b c) : Grows a c := by
  refine ⟨Nat.le_trans h1.1 h2.1, ?_⟩
  intro t ht
  rcases h2.2 t ht with ⟨t1, ht1, he⟩ | hge
  · rcases h1.2 t1 ht1 with ⟨t0, ht0, he0⟩ | hge
    · exact .inl ⟨t0, ht0, by omega⟩
    · exact .inr (by omega)
  · exact .inr (by have := h1.1; omega)

theorem grows_of_eq {s s' : State} (h1 : s'.nextTask = s.nextTask) (h2 : s'.tasks = s.tasks) : Grows s s' := by
  refine ⟨by omega, ?_⟩
  intro t ht
  rw [h2] at ht
  exact .inl ⟨t, ht, rfl⟩

theorem grows_timerCancel (s : State) (rid : Nat) (h : Option Nat) : Grows s (timerCancel s rid h) := by
  cases h with
  | none => exact Grows.refl s
  | some id =>
    rw [timerCancel_some]
    refine ⟨Nat.le_refl _, ?_⟩
    intro t ht
    obtain ⟨t0, ht0, rfl⟩ := List.mem_map.1 ht
    exact .inl ⟨t0, ht0, by simp⟩

theorem grows_timerStart (s : State) (rid tk T : Nat) : Grows s (timerStart s rid tk T) := by
  unfold timerStart
  refine ⟨by simp, ?_⟩
  intro t ht
  rcases List.mem_append.1 ht with h | h
  · exact .inl ⟨t, h, rfl⟩
  · simp at h; subst h; exact .inr (Nat.le_refl _)

theorem grows_newRequest (s : State) (k : Kind) (to : Option Nat) : Grows s (newRequest s k to).1 := by
  rw [newRequest_state]
  cases to with
  | none => exact grows_of_eq rfl rfl
  | some T => exact (grows_of_eq (s' := registered s k (some T)) rfl rfl).trans (grows_timerStart _ _ _ _)

theorem grows_wishlistRound (n : Nat) (s : State) (o : List Obs) : Grows s (wishlistRound n s o).1 := by
  induction n generalizing s o with
  | zero => exact Grows.refl s
  | succ n ih => simp only [wishlistRound]; exact (grows_newRequest s _ _).trans (ih _ _)

theorem grows_settleTimers (s : State) : Grows s (settleTimers s).1 := by
  rw [settleTimers_state]
  refine ⟨Nat.le_refl _, ?_⟩
  intro t ht
  obtain ⟨t0, ht0, rfl⟩ := List.mem_map.1 (List.mem_filter.1 ht).1
  exact .inl ⟨t0, ht0, by simp⟩

theorem grows_mapStart (s : State) (n : Nat) : Grows s { s with tasks := s.tasks.map (startTask n) } := by
  refine ⟨Nat.le_refl _, ?_⟩
  intro t ht
  obtain ⟨t0, ht0, rfl⟩ := List.mem_map.1 ht
  exact .inl ⟨t0, ht0, by simp⟩

theorem grows_settleWishlist (s : State) (o : List Obs) : Grows s (settleWishlist s o).1 := by
  rcases settleWishlist_cases s o with he | ⟨w, _, _, he⟩
  · rw [he]; exact Grows.refl s
  · rw [he]
    refine (grows_wishlistRound s.cfg.items s o).trans ?_
    refine ⟨Nat.le_refl _, ?_⟩
    intro t ht
    obtain ⟨t0, ht0, rfl⟩ := List.mem_map.1 ht
    exact .inl ⟨t0, ht0, by simp⟩

theorem grows_settle (s : State) : Grows s (settle s).1 := by
  unfold settle
  exact (grows_settleTimers s).trans (grows_settleWishlist _ _)

theorem grows_step (s : State) (op : Op) : Grows s (step s op).1 := by
  cases op with
  | search k => exact grows_newRequest s _ _
  | wlInterval n => exact grows_of_eq rfl rfl
  | serverClosing => exact grows_of_eq rfl rfl
  | jump d => exact grows_of_eq rfl rfl
  | settle => exact grows_settle s
  | remove tk =>
    simp only [step]
    cases hl : lookup s tk with
    | none => exact Grows.refl s
    | some r =>
      cases hto : r.timeout with
      | none => simp only [hto]; exact grows_of_eq rfl rfl
      | some T =>
        simp only [hto]
        exact (grows_of_eq (s' := { s with requests := s.requests.filter (fun q => q.ticket ≠ tk) }) rfl rfl).trans
          (grows_timerCancel _ _ _)
  | reply tk =>
    simp only [step]
    cases hl : lookup s tk with
    | none => exact Grows.refl s
    | some r => exact grows_of_eq rfl rfl
  | timerCancel tk =>
    simp only [step]
    cases hl : lookup s tk with
    | none => exact Grows.refl s
    | some r =>
      cases hto : r.timeout with
      | none => simp only [hto]; exact Grows.refl s
      | some T => simp only [hto]; exact grows_timerCancel s _ _
  | timerReschedule tk n =>
    simp only [step]
    cases hl : lookup s tk with
    | none => exact Grows.refl s
    | some r =>
      cases hto : r.timeout with
      | none => simp only [hto]; exact Grows.refl s
      | some T =>
        simp only [hto]
        exact ((grows_timerCancel s r.rid r.handle).trans
          (grows_of_eq (s' := { (timerCancel s r.rid r.handle) with
            requests := setTimeout (timerCancel s r.rid r.handle).requests r.rid n }) rfl rfl)).trans
          (grows_timerStart _ _ _ _)

/-! ### who can be cancelled -/

/-- `Timer.cancel` is only ever called on a pending task: the handle of a registered request -/
theorem timerOf_task {s : State} (h : Inv s) {tk id : Nat} (hc : timerOf s tk = some id) :
    ∃ r ∈ s.requests, r.ticket = tk ∧ r.handle = some id ∧ ∃ t ∈ s.tasks, t.id = id ∧ t.cancelled = false := by
  unfold timerOf at hc
  cases hl : lookup s tk with
  | none => simp [hl] at hc
  | some r =>
    obtain ⟨hr, htk⟩ := lookup_some hl
    cases hto : r.timeout with
    | none => simp [hl, hto] at hc
    | some T =>
      simp only [hl, hto] at hc
      obtain ⟨t, ht, h1, _, h3⟩ := h.handle_task r hr id hc
      exact ⟨r, hr, htk, hc, t, ht, h1, h3⟩

theorem cancelTarget_task {s : State} (h : Inv s) {op : Op} {id : Nat} (hc : cancelTarget s op = some id) :
    ∃ t ∈ s.tasks, t.id = id ∧ t.cancelled = false := by
  have key : ∀ tk, timerOf s tk = some id → ∃ t ∈ s.tasks, t.id = id ∧ t.cancelled = false := by
    intro tk hc
    obtain ⟨_, _, _, _, t, ht, h1, h2⟩ := timerOf_task h hc
    exact ⟨t, ht, h1, h2⟩
  cases op with
  | remove tk => exact key tk hc
  | timerCancel tk => exact key tk hc
  | timerReschedule tk n => exact key tk hc
  | search k => cases hc
  | wlInterval n => cases hc
  | serverClosing => cases hc
  | reply tk => cases hc
  | jump d => cases hc
  | settle => cases hc

/-- what `cancelTarget` names is what `step` cancels: the named pending task is marked cancelled … -/
theorem cancelTarget_marks {s : State} (h : Inv s) {op : Op} {id : Nat} (hc : cancelTarget s op = some id) :
    ∀ t ∈ (step s op).1.tasks, t.id = id → t.cancelled = true := by
  have key : ∀ tk, timerOf s tk = some id → ∀ r, lookup s tk = some r →
      ∀ t ∈ (timerCancel s r.rid r.handle).tasks, t.id = id → t.cancelled = true := by
    intro tk htk r hl t ht hid
    unfold timerOf at htk
    rw [hl] at htk
    cases hto : r.timeout with
    | none => simp [hto] at htk
    | some T =>
      simp only [hto] at htk
      rw [htk, timerCancel_some] at ht
      obtain ⟨t0, _, rfl⟩ := List.mem_map.1 ht
      rw [markCancelled_cancelled]
      simp at hid
      simp [hid]
  have hl : ∀ tk, timerOf s tk = some id → ∃ r, lookup s tk = some r ∧ ∃ T, r.timeout = some T := by
    intro tk htk
    unfold timerOf at htk
    cases hl : lookup s tk with
    | none => simp [hl] at htk
    | some r =>
      cases hto : r.timeout with
      | none => simp [hl, hto] at htk
      | some T => exact ⟨r, rfl, T, hto⟩
  cases op with
  | search k => cases hc
  | wlInterval n => cases hc
  | serverClosing => cases hc
  | reply tk => cases hc
  | jump d => cases hc
  | settle => cases hc
  | remove tk =>
    have hc : timerOf s tk = some id := hc
    obtain ⟨r, hr, T, hT⟩ := hl tk hc
    intro t ht
    simp only [step, hr, hT] at ht
    have := key tk hc r hr
    cases hh : r.handle with
    | none => unfold timerOf at hc; simp [hr, hT, hh] at hc
    | some i =>
      rw [hh, timerCancel_some] at ht this
      exact this t ht
  | timerCancel tk =>
    have hc : timerOf s tk = some id := hc
    obtain ⟨r, hr, T, hT⟩ := hl tk hc
    intro t ht
    simp only [step, hr, hT] at ht
    exact key tk hc r hr t ht
  | timerReschedule tk n =>
    have hc : timerOf s tk = some id := hc
    obtain ⟨r, hr, T, hT⟩ := hl tk hc
    intro t ht hid
    simp only [step, hr, hT, timerStart] at ht
    rcases List.mem_append.1 ht with ht | ht
    · exact key tk hc r hr t ht hid
    · -- the fresh task has a new id
      exfalso
      obtain ⟨t0, ht0, h0, _⟩ := cancelTarget_task (op := .timerReschedule tk n) h (by simpa [cancelTarget] using hc)
      have h1 := h.task_id t0 ht0
      have h2 : (timerCancel s r.rid r.handle).nextTask = s.nextTask := by cases r.handle <;> rfl
      simp at ht
      subst ht
      simp only [h2] at hid
      omega

/-- … and no other pending task is: a task that was not cancelled before the step and is cancelled after it is the
one `cancelTarget` names. -/
theorem cancelTarget_complete (s : State) (op : Op) :
    ∀ t ∈ (step s op).1.tasks, t.cancelled = true →
      (∃ t0 ∈ s.tasks, t0.id = t.id ∧ t0.cancelled = true) ∨ cancelTarget s op = some t.id := by
  have hmark : ∀ (l : List TTask) (id : Nat), ∀ t ∈ l.map (markCancelled id), t.cancelled = true →
      (∃ t0 ∈ l, t0.id = t.id ∧ t0.cancelled = true) ∨ id = t.id := by
    intro l id t ht hc
    obtain ⟨t0, ht0, rfl⟩ := List.mem_map.1 ht
    rw [markCancelled_cancelled] at hc
    by_cases h0 : t0.cancelled = true
    · exact .inl ⟨t0, ht0, by simp, h0⟩
    · right; simp at h0; simp [h0] at hc; simp [hc]
  have hcan : ∀ (s0 : State) (rid : Nat) (hd : Option Nat), ∀ t ∈ (timerCancel s0 rid hd).tasks, t.cancelled = true →
      (∃ t0 ∈ s0.tasks, t0.id = t.id ∧ t0.cancelled = true) ∨ hd = some t.id := by
    intro s0 rid hd t ht hc
    cases hd with
    | none => exact .inl ⟨t, ht, rfl, hc⟩
    | some id =>
      rw [timerCancel_some] at ht
      rcases hmark _ _ t ht hc with h | h
      · exact .inl h
      · exact .inr (by rw [h])
  have hsame : ∀ t ∈ s.tasks, t.cancelled = true → (∃ t0 ∈ s.tasks, t0.id = t.id ∧ t0.cancelled = true) ∨
      cancelTarget s op = some t.id := fun t ht hc => .inl ⟨t, ht, rfl, hc⟩
  have hnew : ∀ (k : Kind) (to : Option Nat), ∀ t ∈ (newRequest s k to).1.tasks, t.cancelled = true →
      ∃ t0 ∈ s.tasks, t0.id = t.id ∧ t0.cancelled = true := by
    intro k to t ht hc
    rcases newRequest_tasks s k to t ht with h | ⟨h, _, _⟩
    · exact ⟨t, h, rfl, hc⟩
    · rw [h] at hc; cases hc
  cases op with
  | search k => intro t ht hc; exact .inl (hnew k _ t ht hc)
  | wlInterval n => exact hsame
  | serverClosing => exact hsame
  | jump d => exact hsame
  | reply tk =>
    intro t ht hc
    simp only [step] at ht
    cases hl : lookup s tk with
    | none => rw [hl] at ht; exact hsame t ht hc
    | some r => rw [hl] at ht; exact hsame t ht hc
  | settle =>
    intro t ht hc
    left
    -- a loop run only finishes cancelled tasks and starts fresh, un-cancelled ones
    have hT : ∀ x ∈ (settleTimers s).1.tasks, x.cancelled = true → ∃ t0 ∈ s.tasks, t0.id = x.id ∧ t0.cancelled = true := by
      intro x hx hxc
      rw [settleTimers_state] at hx
      obtain ⟨t0, ht0, rfl⟩ := List.mem_map.1 (List.mem_filter.1 hx).1
      exact ⟨t0, ht0, by simp, by simpa using hxc⟩
    simp only [step, settle] at ht
    rcases settleWishlist_cases (settleTimers s).1 (settleTimers s).2 with he | ⟨w, _, _, he⟩
    · rw [he] at ht; exact hT t ht hc
    · rw [he] at ht
      simp only [] at ht
      obtain ⟨t1, ht1, rfl⟩ := List.mem_map.1 ht
      rcases wishlistRound_tasks _ _ _ t1 ht1 with h | ⟨h, _, _⟩
      · obtain ⟨t0, ht0, h1, h2⟩ := hT t1 h (by simpa using hc)
        exact ⟨t0, ht0, by simpa using h1, h2⟩
      · simp [h] at hc
  | remove tk =>
    intro t ht hc
    cases hl : lookup s tk with
    | none => simp only [step, hl] at ht; exact hsame t ht hc
    | some r =>
      cases hto : r.timeout with
      | none => simp only [step, hl, hto] at ht; exact hsame t ht hc
      | some T =>
        simp only [step, hl, hto] at ht
        rcases hcan _ _ _ t ht hc with h | h
        · exact .inl h
        · right; simp [cancelTarget, timerOf, hl, hto, h]
  | timerCancel tk =>
    intro t ht hc
    cases hl : lookup s tk with
    | none => simp only [step, hl] at ht; exact hsame t ht hc
    | some r =>
      cases hto : r.timeout with
      | none => simp only [step, hl, hto] at ht; exact hsame t ht hc
      | some T =>
        simp only [step, hl, hto] at ht
        rcases hcan _ _ _ t ht hc with h | h
        · exact .inl h
        · right; simp [cancelTarget, timerOf, hl, hto, h]
  | timerReschedule tk n =>
    intro t ht hc
    cases hl : lookup s tk with
    | none => simp only [step, hl] at ht; exact hsame t ht hc
    | some r =>
      cases hto : r.timeout with
      | none => simp only [step, hl, hto] at ht; exact hsame t ht hc
      | some T =>
        simp only [step, hl, hto, timerStart] at ht
        rcases List.mem_append.1 ht with ht | ht
        · rcases hcan _ _ _ t ht hc with h | h
          · exact .inl h
          · right; simp [cancelTarget, timerOf, hl, hto, h]
        · simp at ht; subst ht; cases hc

/-- the task whose callback reports a removal is finished as far as the registry is concerned: it is not among
the pending tasks after that loop run, and its id is below the counter -/
theorem settle_fired_not_pending {s : State} (h : Inv s) {t rid tk dl tid : Nat}
    (hx : Obs.removed t rid tk dl tid ∈ (settle s).2) :
    tid < s.nextTask ∧ ∀ x ∈ (settle s).1.tasks, x.id ≠ tid := by
  obtain ⟨t0, ht0, hc, _, hd, hle, hid, _⟩ := removed_mem_settle s hx
  have hlt : tid < s.nextTask := by have := h.task_id t0 ht0; omega
  refine ⟨hlt, ?_⟩
  have hT : ∀ x ∈ (settleTimers s).1.tasks, x.id ≠ tid := by
    intro x hxm heq
    rw [settleTimers_state] at hxm
    obtain ⟨hm, hnf⟩ := List.mem_filter.1 hxm
    obtain ⟨x0, hx0, rfl⟩ := List.mem_map.1 hm
    have : x0 = t0 := pairwise_id_inj h.task_nodup x0 hx0 t0 ht0 (by simp at heq; omega)
    subst this
    unfold isFinishing reached at hnf
    rw [hd] at hnf
    simp [hle] at hnf
  intro x hxm
  unfold settle at hxm
  rcases settleWishlist_cases (settleTimers s).1 (settleTimers s).2 with he | ⟨w, _, _, he⟩
  · rw [he] at hxm; exact hT x hxm
  · rw [he] at hxm
    simp only [] at hxm
    obtain ⟨x1, hx1, rfl⟩ := List.mem_map.1 hxm
    rcases (grows_wishlistRound _ _ _).2 x1 hx1 with ⟨x0, hx0, he0⟩ | hge
    · have := hT x0 hx0; simp; omega
    · have : (settleTimers s).1.nextTask = s.nextTask := by rw [settleTimers_state]
      simp; omega

/-! ### the removal report -/

theorem nrun_nil (s : NState) : nrun s [] = (s, []) := rfl
theorem nrun_cons (s : NState) (op : NOp) (ops : List NOp) :
    nrun s (op :: ops) = ((nrun (nstep s op).1 ops).1, (nstep s op).2 ++ (nrun (nstep s op).1 ops).2) := rfl

theorem nrun_ind {P : NState → List NObs → Prop} {G : NState → Prop}
    (hG : ∀ s op, G (nstep s op).1 → G s)
    (hstep : ∀ s tr op, P s tr → G (nstep s op).1 → P (nstep s op).1 (tr ++ (nstep s op).2)) :
    ∀ ops s tr, P s tr → G (nrun s ops).1 → P (nrun s ops).1 (tr ++ (nrun s ops).2) := by
  intro ops
  induction ops with
  | nil => intro s tr h _; simpa [nrun_nil] using h
  | cons op ops ih =>
    intro s tr h hg
    rw [nrun_cons] at hg ⊢
    have hgs : G (nstep s op).1 := by
      clear ih h
      generalize (nstep s op).1 = s' at hg
      induction ops generalizing s' with
      | nil => simpa [nrun_nil] using hg
      | cons op' ops' ih' => rw [nrun_cons] at hg; exact hG _ _ (ih' _ hg)
    have := ih _ _ (hstep s tr op h hgs) hg
    simpa [List.append_assoc] using this

theorem nstep_resume_base (s : NState) (rid : Nat) : (nstep s (.resume rid)).1.base = s.base := by
  simp only [nstep]
  split
  · rfl
  · split
    · rfl
    · split <;> rfl

theorem nstep_resume_listeners (s : NState) (rid : Nat) : (nstep s (.resume rid)).1.listeners = s.listeners := by
  simp only [nstep]
  split
  · rfl
  · split
    · rfl
    · split <;> rfl

theorem nstep_base_base (s : NState) (op : Op) : (nstep s (.base op)).1.base = (step s.base op).1 := by
  simp only [nstep]; split <;> rfl

theorem nstep_listeners (s : NState) (op : NOp) : (nstep s op).1.listeners = s.listeners := by
  cases op with
  | base op => simp only [nstep]; split <;> rfl
  | resume rid => exact nstep_resume_listeners s rid

theorem noWrap_of_nstep (s : NState) (op : NOp) (h : NoWrap (nstep s op).1.base) : NoWrap s.base := by
  cases op with
  | base op => rw [nstep_base_base] at h; exact noWrap_of_step _ _ h
  | resume rid => rw [nstep_resume_base] at h; exact h

def toldKey : NObs → Option (Nat × Nat)
  | .told _ rid _ i => some (rid, i)
  | _ => none

theorem pairwise_rid_inj {l : List Emission} (h : l.Pairwise (fun a b => a.rid ≠ b.rid)) :
    ∀ a ∈ l, ∀ b ∈ l, a.rid = b.rid → a = b := by
  induction l with
  | nil => intro a ha; cases ha
  | cons x xs ih =>
    rw [List.pairwise_cons] at h
    intro a ha b hb hab
    rcases List.mem_cons.1 ha with rfl | ha' <;> rcases List.mem_cons.1 hb with rfl | hb'
    · rfl
    · exact absurd hab (h.1 b hb')
    · exact absurd hab.symm (h.1 a ha')
    · exact ih h.2 a ha' b hb' hab

@[simp] theorem bump_rid (rid : Nat) (e : Emission) : (bump rid e).rid = e.rid := by unfold bump; split <;> rfl
@[simp] theorem bump_tid (rid : Nat) (e : Emission) : (bump rid e).tid = e.tid := by unfold bump; split <;> rfl
@[simp] theorem bump_cancelled (rid : Nat) (e : Emission) : (bump rid e).cancelled = e.cancelled := by
  unfold bump; split <;> rfl
theorem bump_told (rid : Nat) (e : Emission) : (bump rid e).told = if e.rid = rid then e.told + 1 else e.told := by
  unfold bump; split <;> rfl

/-- The ledger of the removal reports.  `tr` is the trace so far. -/
structure NInv (s : NState) (tr : List NObs) : Prop where
  inv : Inv s.base
  /-- a running report: not cancelled, between its first and its last listener, for a request that is gone, run
  by a task that is not pending any more and whose id will never be handed out again -/
  rep_ok : ∀ e ∈ s.reporting, e.cancelled = false ∧ 1 ≤ e.told ∧ e.told ≤ s.listeners ∧ Gone e.rid s.base ∧
    e.tid < s.base.nextTask ∧ ∀ t ∈ s.base.tasks, t.id ≠ e.tid
  rep_nodup : s.reporting.Pairwise (fun a b => a.rid ≠ b.rid)
  /-- the listeners a running report has passed have been told -/
  rep_told : ∀ e ∈ s.reporting, ∀ j, j < e.told → ∃ t' tk', NObs.told t' e.rid tk' j ∈ tr
  told_ok : ∀ t rid tk i, NObs.told t rid tk i ∈ tr →
    i < s.listeners ∧ Gone rid s.base ∧ ∀ e ∈ s.reporting, e.rid = rid → i < e.told
  told_nodup : (tr.filterMap toldKey).Nodup
  /-- nothing is lost: a listener has been told, or the report is still running and has not reached it yet -/
  complete : ∀ t rid tk dl tid, NObs.base (.removed t rid tk dl tid) ∈ tr → ∀ i, i < s.listeners →
    (∃ t' tk', NObs.told t' rid tk' i ∈ tr) ∨ ∃ e ∈ s.reporting, e.rid = rid ∧ e.told ≤ i
  /-- a listener is only told of removals that happened -/
  rep_src : ∀ e ∈ s.reporting, ∃ t0 dl, NObs.base (.removed t0 e.rid e.ticket dl e.tid) ∈ tr
  told_src : ∀ t rid tk i, NObs.told t rid tk i ∈ tr → ∃ t0 dl tid, NObs.base (.removed t0 rid tk dl tid) ∈ tr
  /-- listeners are told in registration order -/
  in_order : ∀ t rid tk i, NObs.told t rid tk i ∈ tr → ∀ j, j < i → ∃ t' tk', NObs.told t' rid tk' j ∈ tr
  no_abort : ∀ t rid tk i, NObs.aborted t rid tk i ∉ tr

theorem ninv_init (cfg : Cfg) (n : Nat) : NInv (ninit cfg n) [] := by
  constructor
  · exact inv_init cfg
  · intro e he; cases he
  · exact List.Pairwise.nil
  · intro e he; cases he
  · intro t rid tk i h; cases h
  · exact List.nodup_nil
  · intro t rid tk dl tid h; cases h
  · intro e he; cases he
  · intro t rid tk i h; cases h
  · intro t rid tk i h; cases h
  · intro t rid tk i h; cases h

theorem mem_newEmission {obs : List Obs} {e : Emission} (h : e ∈ obs.filterMap newEmission) :
    ∃ t dl, Obs.removed t e.rid e.ticket dl e.tid ∈ obs ∧ e.told = 1 ∧ e.cancelled = false := by
  obtain ⟨x, hx, hxe⟩ := List.mem_filterMap.1 h
  cases x with
  | removed t rid tk dl tid =>
    simp only [newEmission, Option.some.injEq] at hxe
    subst hxe
    exact ⟨t, dl, hx, rfl, rfl⟩
  | _ => simp [newEmission] at hxe

theorem mem_firstTold {obs : List Obs} {x : NObs} (h : x ∈ obs.filterMap firstTold) :
    ∃ t rid tk dl tid, Obs.removed t rid tk dl tid ∈ obs ∧ x = .told t rid tk 0 := by
  obtain ⟨y, hy, hyx⟩ := List.mem_filterMap.1 h
  cases y with
  | removed t rid tk dl tid =>
    simp only [firstTold, Option.some.injEq] at hyx
    exact ⟨t, rid, tk, dl, tid, hy, hyx.symm⟩
  | _ => simp [firstTold] at hyx

theorem newEmission_of_removed {obs : List Obs} {t rid tk dl tid : Nat} (h : Obs.removed t rid tk dl tid ∈ obs) :
    ({ rid := rid, ticket := tk, tid := tid, told := 1, cancelled := false } : Emission) ∈ obs.filterMap newEmission :=
  List.mem_filterMap.2 ⟨_, h, rfl⟩

theorem firstTold_of_removed {obs : List Obs} {t rid tk dl tid : Nat} (h : Obs.removed t rid tk dl tid ∈ obs) :
    NObs.told t rid tk 0 ∈ obs.filterMap firstTold :=
  List.mem_filterMap.2 ⟨_, h, rfl⟩

theorem newEmission_rids (obs : List Obs) : (obs.filterMap newEmission).map (·.rid) = obs.filterMap removedRid := by
  rw [List.map_filterMap]
  congr 1
  funext x
  cases x <;> rfl

theorem firstTold_keys (obs : List Obs) :
    (obs.filterMap firstTold).filterMap toldKey = (obs.filterMap removedRid).map (fun r => (r, 0)) := by
  rw [List.filterMap_filterMap, List.map_filterMap]
  congr 1
  funext x
  cases x <;> rfl

theorem base_keys (obs : List Obs) : (obs.map NObs.base).filterMap toldKey = [] := by
  rw [List.filterMap_map]
  apply List.filterMap_eq_nil_iff.2
  intro x _
  rfl

/-- what a base step reports about removals -/
theorem step_removed_facts {s : State} (op : Op) (h : Inv s) (hw : NoWrap (step s op).1) {t rid tk dl tid : Nat}
    (hx : Obs.removed t rid tk dl tid ∈ (step s op).2) :
    (∃ r ∈ s.requests, r.rid = rid) ∧ Gone rid (step s op).1 ∧ tid < s.nextTask ∧
      ∀ x ∈ (step s op).1.tasks, x.id ≠ tid := by
  have hok := step_obs op h hw _ hx
  obtain ⟨hop, _, _, _, q, hq, hq1, _⟩ := hok
  subst hop
  have := settle_fired_not_pending h hx
  exact ⟨⟨q, hq, hq1⟩, gone_after_timeout h hw hx, this.1, this.2⟩

theorem ninv_resume {s : NState} {tr : List NObs} (rid : Nat) (h : NInv s tr) :
    NInv (nstep s (.resume rid)).1 (tr ++ (nstep s (.resume rid)).2) := by
  obtain ⟨hinv, hrep, hnd, hrt, htold, hkeys, hcomp, hrs, hts, hord, hab⟩ := h
  have hinj := pairwise_rid_inj hnd
  have hnil : ∀ x : NObs, toldKey x = none → (tr ++ [x]).filterMap toldKey = tr.filterMap toldKey := by
    intro x hx
    rw [List.filterMap_append]
    simp [hx]
  simp only [nstep]
  cases hf : s.reporting.find? (fun e => decide (e.rid = rid)) with
  | none =>
    simp only []
    constructor
    · exact hinv
    · exact hrep
    · exact hnd
    · intro e he j hj
      obtain ⟨t', tk', h1⟩ := hrt e he j hj
      exact ⟨t', tk', List.mem_append.2 (.inl h1)⟩
    · intro t r tk i hm
      rcases List.mem_append.1 hm with hm | hm
      · exact htold t r tk i hm
      · simp at hm
    · rw [hnil _ rfl]; exact hkeys
    · intro t r tk dl tid hm i hi
      have hm' : NObs.base (.removed t r tk dl tid) ∈ tr := by
        rcases List.mem_append.1 hm with hm | hm
        · exact hm
        · simp at hm
      rcases hcomp t r tk dl tid hm' i hi with ⟨t', tk', h1⟩ | h1
      · exact .inl ⟨t', tk', List.mem_append.2 (.inl h1)⟩
      · exact .inr h1
    · intro e he
      obtain ⟨t0, dl, h1⟩ := hrs e he
      exact ⟨t0, dl, List.mem_append.2 (.inl h1)⟩
    · intro t r tk i hm
      rcases List.mem_append.1 hm with hm | hm
      · obtain ⟨t0, dl, tid, h1⟩ := hts t r tk i hm
        exact ⟨t0, dl, tid, List.mem_append.2 (.inl h1)⟩
      · simp at hm
    · intro t r tk i hm j hj
      rcases List.mem_append.1 hm with hm | hm
      · obtain ⟨t', tk', h1⟩ := hord t r tk i hm j hj
        exact ⟨t', tk', List.mem_append.2 (.inl h1)⟩
      · simp at hm
    · intro t r tk i hm
      rcases List.mem_append.1 hm with hm | hm
      · exact hab t r tk i hm
      · simp at hm
  | some e =>
    have hem : e ∈ s.reporting := List.mem_of_find?_eq_some hf
    have her : e.rid = rid := by simpa using List.find?_some hf
    obtain ⟨hec, he1, hen, heg, het, hett⟩ := hrep e hem
    simp only [hec, Bool.false_eq_true, if_false]
    by_cases hlt : e.told < s.listeners
    · -- the next listener is called
      simp only [hlt, if_true]
      have hbump : ∀ e0 ∈ s.reporting, e0.rid = rid → e0 = e := fun e0 h0 hr => hinj e0 h0 e hem (by omega)
      constructor
      · exact hinv
      · intro e' he'
        obtain ⟨e0, he0, rfl⟩ := List.mem_map.1 he'
        obtain ⟨a, b, c, d, f, g⟩ := hrep e0 he0
        refine ⟨by simpa using a, ?_, ?_, by simpa using d, by simpa using f, by simpa using g⟩
        · rw [bump_told]; split <;> omega
        · show (bump rid e0).told ≤ s.listeners
          rw [bump_told]
          split
          · rename_i hr; have := hbump e0 he0 hr; subst this; omega
          · exact c
      · rw [List.pairwise_map]
        simpa using hnd
      · intro e' he' j hj
        obtain ⟨e0, he0, rfl⟩ := List.mem_map.1 he'
        rw [bump_told] at hj
        rw [bump_rid]
        by_cases hr : e0.rid = rid
        · have h0 := hbump e0 he0 hr
          subst h0
          rw [if_pos hr] at hj
          by_cases hj' : j < e0.told
          · obtain ⟨t', tk', h1⟩ := hrt e0 he0 j hj'
            exact ⟨t', tk', List.mem_append.2 (.inl h1)⟩
          · have : j = e0.told := by omega
            subst this
            exact ⟨s.base.now, e0.ticket, List.mem_append.2 (.inr (by simp))⟩
        · rw [if_neg hr] at hj
          obtain ⟨t', tk', h1⟩ := hrt e0 he0 j hj
          exact ⟨t', tk', List.mem_append.2 (.inl h1)⟩
      · intro t r tk i hm
        rcases List.mem_append.1 hm with hm | hm
        · obtain ⟨a, b, c⟩ := htold t r tk i hm
          refine ⟨a, b, ?_⟩
          intro e' he' her'
          obtain ⟨e0, he0, rfl⟩ := List.mem_map.1 he'
          have := c e0 he0 (by simpa using her')
          rw [bump_told]; split <;> omega
        · simp only [List.mem_singleton, NObs.told.injEq] at hm
          obtain ⟨_, rfl, _, rfl⟩ := hm
          refine ⟨hlt, heg, ?_⟩
          intro e' he' her'
          obtain ⟨e0, he0, rfl⟩ := List.mem_map.1 he'
          have h0 : e0 = e := hinj e0 he0 e hem (by simpa using her')
          subst h0
          rw [bump_told, if_pos her]; omega
      · rw [List.filterMap_append, List.nodup_append]
        refine ⟨hkeys, by simp [toldKey], ?_⟩
        intro a ha b hb hab
        simp only [List.filterMap_cons, toldKey, List.filterMap_nil, List.mem_singleton] at hb
        subst hab hb
        obtain ⟨x, hx, hxk⟩ := List.mem_filterMap.1 ha
        cases x with
        | told t' r' tk' i' =>
          simp only [toldKey, Option.some.injEq, Prod.mk.injEq] at hxk
          obtain ⟨rfl, rfl⟩ := hxk
          have := (htold t' _ tk' _ hx).2.2 e hem rfl
          omega
        | _ => simp [toldKey] at hxk
      · intro t r tk dl tid hm i hi
        have hm' : NObs.base (.removed t r tk dl tid) ∈ tr := by
          rcases List.mem_append.1 hm with hm | hm
          · exact hm
          · simp at hm
        rcases hcomp t r tk dl tid hm' i hi with ⟨t', tk', h1⟩ | ⟨e0, he0, h1, h2⟩
        · exact .inl ⟨t', tk', List.mem_append.2 (.inl h1)⟩
        · by_cases hr : e0.rid = rid
          · have h0 := hbump e0 he0 hr
            subst h0
            by_cases hi' : e0.told = i
            · left
              refine ⟨s.base.now, e0.ticket, List.mem_append.2 (.inr ?_)⟩
              simp [← h1, hi']
            · right
              refine ⟨bump rid e0, List.mem_map.2 ⟨e0, he0, rfl⟩, by simpa using h1, ?_⟩
              rw [bump_told, if_pos hr]; omega
          · right
            refine ⟨bump rid e0, List.mem_map.2 ⟨e0, he0, rfl⟩, by simpa using h1, ?_⟩
            rw [bump_told, if_neg hr]; exact h2
      · intro e' he'
        obtain ⟨e0, he0, rfl⟩ := List.mem_map.1 he'
        obtain ⟨t0, dl, h1⟩ := hrs e0 he0
        refine ⟨t0, dl, List.mem_append.2 (.inl ?_)⟩
        have : (bump rid e0).ticket = e0.ticket := by unfold bump; split <;> rfl
        rw [bump_rid, bump_tid, this]; exact h1
      · intro t r tk i hm
        rcases List.mem_append.1 hm with hm | hm
        · obtain ⟨t0, dl, tid, h1⟩ := hts t r tk i hm
          exact ⟨t0, dl, tid, List.mem_append.2 (.inl h1)⟩
        · simp only [List.mem_singleton, NObs.told.injEq] at hm
          obtain ⟨_, rfl, rfl, _⟩ := hm
          obtain ⟨t0, dl, h1⟩ := hrs e hem
          exact ⟨t0, dl, e.tid, List.mem_append.2 (.inl h1)⟩
      · intro t r tk i hm j hj
        rcases List.mem_append.1 hm with hm | hm
        · obtain ⟨t', tk', h1⟩ := hord t r tk i hm j hj
          exact ⟨t', tk', List.mem_append.2 (.inl h1)⟩
        · simp only [List.mem_singleton, NObs.told.injEq] at hm
          obtain ⟨_, rfl, _, rfl⟩ := hm
          obtain ⟨t', tk', h1⟩ := hrt e hem j hj
          exact ⟨t', tk', List.mem_append.2 (.inl h1)⟩
      · intro t r tk i hm
        rcases List.mem_append.1 hm with hm | hm
        · exact hab t r tk i hm
        · simp at hm
    · -- the last listener has returned: `emit` returns, the task is done
      simp only [hlt, if_false]
      constructor
      · exact hinv
      · intro e' he'; exact hrep e' (List.mem_filter.1 he').1
      · exact hnd.filter _
      · intro e' he' j hj
        obtain ⟨t', tk', h1⟩ := hrt e' (List.mem_filter.1 he').1 j hj
        exact ⟨t', tk', List.mem_append.2 (.inl h1)⟩
      · intro t r tk i hm
        rcases List.mem_append.1 hm with hm | hm
        · obtain ⟨a, b, c⟩ := htold t r tk i hm
          exact ⟨a, b, fun e' he' => c e' (List.mem_filter.1 he').1⟩
        · simp at hm
      · rw [hnil _ rfl]; exact hkeys
      · intro t r tk dl tid hm i hi
        have hi : i < s.listeners := hi
        have hm' : NObs.base (.removed t r tk dl tid) ∈ tr := by
          rcases List.mem_append.1 hm with hm | hm
          · exact hm
          · simp at hm
        rcases hcomp t r tk dl tid hm' i hi with ⟨t', tk', h1⟩ | ⟨e0, he0, h1, h2⟩
        · exact .inl ⟨t', tk', List.mem_append.2 (.inl h1)⟩
        · by_cases hr : e0.rid = rid
          · have h0 : e0 = e := hinj e0 he0 e hem (by omega)
            subst h0; omega
          · exact .inr ⟨e0, List.mem_filter.2 ⟨he0, by simpa using hr⟩, h1, h2⟩
      · intro e' he'
        obtain ⟨t0, dl, h1⟩ := hrs e' (List.mem_filter.1 he').1
        exact ⟨t0, dl, List.mem_append.2 (.inl h1)⟩
      · intro t r tk i hm
        rcases List.mem_append.1 hm with hm | hm
        · obtain ⟨t0, dl, tid, h1⟩ := hts t r tk i hm
          exact ⟨t0, dl, tid, List.mem_append.2 (.inl h1)⟩
        · simp at hm
      · intro t r tk i hm j hj
        rcases List.mem_append.1 hm with hm | hm
        · obtain ⟨t', tk', h1⟩ := hord t r tk i hm j hj
          exact ⟨t', tk', List.mem_append.2 (.inl h1)⟩
        · simp at hm
      · intro t r tk i hm
        rcases List.mem_append.1 hm with hm | hm
        · exact hab t r tk i hm
        · simp at hm

theorem ninv_base {s : NState} {tr : List NObs} (op : Op) (h : NInv s tr) (hw : NoWrap (step s.base op).1) :
    NInv (nstep s (.base op)).1 (tr ++ (nstep s (.base op)).2) := by
  obtain ⟨hinv, hrep, hnd, hrt, htold, hkeys, hcomp, hrs, hts, hord, hab⟩ := h
  have hinv' := inv_step op hinv hw
  have hgrow := grows_step s.base op
  -- `Timer.cancel` never reaches a reporting task
  have hhit : s.reporting.map (hit (cancelTarget s.base op)) = s.reporting := by
    rw [List.map_congr_left (g := id)]
    · simp
    · intro e he
      unfold hit
      split
      · rename_i hc
        obtain ⟨t, ht, hid, _⟩ := cancelTarget_task hinv hc
        exact absurd hid ((hrep e he).2.2.2.2.2 t ht)
      · rfl
  -- the running reports stay as they are
  have hold : ∀ e ∈ s.reporting, e.cancelled = false ∧ 1 ≤ e.told ∧ e.told ≤ s.listeners ∧ Gone e.rid (step s.base op).1 ∧
      e.tid < (step s.base op).1.nextTask ∧ ∀ t ∈ (step s.base op).1.tasks, t.id ≠ e.tid := by
    intro e he
    obtain ⟨a, b, c, d, f, g⟩ := hrep e he
    refine ⟨a, b, c, gone_step op d, by have := hgrow.1; omega, ?_⟩
    intro t ht
    rcases hgrow.2 t ht with ⟨t0, ht0, he0⟩ | hge
    · have := g t0 ht0; omega
    · omega
  by_cases hn : s.listeners = 0
  · -- nobody listens: nothing to report, nothing is reporting
    have hnone : s.reporting = [] := by
      cases hr : s.reporting with
      | nil => rfl
      | cons e es =>
        have := hrep e (by rw [hr]; simp)
        omega
    simp only [nstep, hn, if_true, hhit]
    constructor
    · exact hinv'
    · intro e he
      have he : e ∈ s.reporting := he
      rw [hnone] at he; cases he
    · exact hnd
    · intro e he
      have he : e ∈ s.reporting := he
      rw [hnone] at he; cases he
    · intro t r tk i hm
      rcases List.mem_append.1 hm with hm | hm
      · have := (htold t r tk i hm).1; omega
      · simp at hm
    · rw [List.filterMap_append, base_keys, List.append_nil]; exact hkeys
    · intro t r tk dl tid _ i hi
      have hi : i < 0 := hi
      omega
    · intro e he
      have he : e ∈ s.reporting := he
      rw [hnone] at he; cases he
    · intro t r tk i hm
      rcases List.mem_append.1 hm with hm | hm
      · have := (htold t r tk i hm).1; omega
      · simp at hm
    · intro t r tk i hm
      rcases List.mem_append.1 hm with hm | hm
      · have := (htold t r tk i hm).1; omega
      · simp at hm
    · intro t r tk i hm
      rcases List.mem_append.1 hm with hm | hm
      · exact hab t r tk i hm
      · simp at hm
  · simp only [nstep, hn, if_false, hhit]
    have hpos : 0 < s.listeners := Nat.pos_of_ne_zero hn
    have hfacts : ∀ t rid tk dl tid, Obs.removed t rid tk dl tid ∈ (step s.base op).2 →
        (∃ r ∈ s.base.requests, r.rid = rid) ∧ Gone rid (step s.base op).1 ∧ tid < s.base.nextTask ∧
          ∀ x ∈ (step s.base op).1.tasks, x.id ≠ tid := fun t rid tk dl tid hx => step_removed_facts op hinv hw hx
    -- a request that is gone is not removed again
    have hfresh : ∀ t rid tk dl tid, Obs.removed t rid tk dl tid ∈ (step s.base op).2 → ¬ Gone rid s.base := by
      intro t rid tk dl tid hx hg
      obtain ⟨⟨r, hr, hr1⟩, _⟩ := hfacts t rid tk dl tid hx
      exact hg.2 r hr hr1
    have hsplit : ∀ x, x ∈ tr ++ ((step s.base op).2.map NObs.base ++ (step s.base op).2.filterMap firstTold) →
        x ∈ tr ∨ (∃ o ∈ (step s.base op).2, x = .base o) ∨
          ∃ t rid tk dl tid, Obs.removed t rid tk dl tid ∈ (step s.base op).2 ∧ x = .told t rid tk 0 := by
      intro x hx
      rcases List.mem_append.1 hx with hx | hx
      · exact .inl hx
      · rcases List.mem_append.1 hx with hx | hx
        · obtain ⟨o, ho, rfl⟩ := List.mem_map.1 hx
          exact .inr (.inl ⟨o, ho, rfl⟩)
        · exact .inr (.inr (mem_firstTold hx))
    constructor
    · exact hinv'
    · intro e he
      rcases List.mem_append.1 he with he | he
      · exact hold e he
      · obtain ⟨t, dl, hx, h1, h2⟩ := mem_newEmission he
        obtain ⟨_, hg, hlt, hnp⟩ := hfacts _ _ _ _ _ hx
        exact ⟨h2, by omega, by show e.told ≤ s.listeners; omega, hg,
          by show e.tid < (step s.base op).1.nextTask; have := hgrow.1; omega, hnp⟩
    · rw [List.pairwise_append]
      refine ⟨hnd, ?_, ?_⟩
      · have hnodup : ((step s.base op).2.filterMap removedRid).Nodup := step_removedRid_nodup op hinv hw
        rw [← newEmission_rids, List.Nodup, List.pairwise_map] at hnodup
        exact hnodup
      · intro a ha b hb heq
        obtain ⟨t, dl, hx, _⟩ := mem_newEmission hb
        exact hfresh _ _ _ _ _ hx (heq ▸ (hrep a ha).2.2.2.1)
    · intro e he j hj
      rcases List.mem_append.1 he with he | he
      · obtain ⟨t', tk', h1⟩ := hrt e he j hj
        exact ⟨t', tk', List.mem_append.2 (.inl h1)⟩
      · obtain ⟨t, dl, hx, h1, _⟩ := mem_newEmission he
        have : j = 0 := by omega
        subst this
        exact ⟨t, e.ticket, List.mem_append.2 (.inr (List.mem_append.2 (.inr (firstTold_of_removed hx))))⟩
    · intro t r tk i hm
      rcases hsplit _ hm with hm | ⟨o, _, ho⟩ | ⟨t0, rid0, tk0, dl0, tid0, hx, hxe⟩
      · obtain ⟨a, b, c⟩ := htold t r tk i hm
        refine ⟨a, gone_step op b, ?_⟩
        intro e he her
        rcases List.mem_append.1 he with he | he
        · exact c e he her
        · obtain ⟨t1, dl1, hx1, _⟩ := mem_newEmission he
          exact absurd (her ▸ b) (hfresh _ _ _ _ _ hx1)
      · cases ho
      · simp only [NObs.told.injEq] at hxe
        obtain ⟨rfl, rfl, rfl, rfl⟩ := hxe
        obtain ⟨_, hg, _, _⟩ := hfacts _ _ _ _ _ hx
        refine ⟨hpos, hg, ?_⟩
        intro e he her
        rcases List.mem_append.1 he with he | he
        · have := (hrep e he).2.1; omega
        · obtain ⟨_, _, _, h1, _⟩ := mem_newEmission he
          omega
    · rw [List.filterMap_append, List.filterMap_append, base_keys, List.nil_append, firstTold_keys, List.nodup_append]
      refine ⟨hkeys, ?_, ?_⟩
      · have hnodup : ((step s.base op).2.filterMap removedRid).Nodup := step_removedRid_nodup op hinv hw
        rw [List.Nodup, List.pairwise_map]
        exact hnodup.imp (fun hab hc => hab (by simpa using hc))
      · intro a ha b hb hab
        subst hab
        obtain ⟨rid, hrid, rfl⟩ := List.mem_map.1 hb
        obtain ⟨x, hx, hxk⟩ := List.mem_filterMap.1 ha
        obtain ⟨o, ho, hor⟩ := List.mem_filterMap.1 hrid
        cases o with
        | removed t0 rid0 tk0 dl0 tid0 =>
          simp only [removedRid, Option.some.injEq] at hor
          subst hor
          cases x with
          | told t' r' tk' i' =>
            simp only [toldKey, Option.some.injEq, Prod.mk.injEq] at hxk
            obtain ⟨rfl, rfl⟩ := hxk
            exact hfresh _ _ _ _ _ ho (htold t' _ tk' _ hx).2.1
          | _ => simp [toldKey] at hxk
        | _ => simp [removedRid] at hor
    · intro t r tk dl tid hm i hi
      have hi : i < s.listeners := hi
      rcases hsplit _ hm with hm | ⟨o, ho, hoe⟩ | ⟨t0, rid0, tk0, dl0, tid0, _, hxe⟩
      · rcases hcomp t r tk dl tid hm i hi with ⟨t', tk', h1⟩ | ⟨e0, he0, h1, h2⟩
        · exact .inl ⟨t', tk', List.mem_append.2 (.inl h1)⟩
        · exact .inr ⟨e0, List.mem_append.2 (.inl he0), h1, h2⟩
      · simp only [NObs.base.injEq] at hoe
        subst hoe
        by_cases hi0 : i = 0
        · subst hi0
          exact .inl ⟨t, tk, List.mem_append.2 (.inr (List.mem_append.2 (.inr (firstTold_of_removed ho))))⟩
        · exact .inr ⟨_, List.mem_append.2 (.inr (newEmission_of_removed ho)), rfl, by show 1 ≤ i; omega⟩
      · cases hxe
    · intro e he
      rcases List.mem_append.1 he with he | he
      · obtain ⟨t0, dl, h1⟩ := hrs e he
        exact ⟨t0, dl, List.mem_append.2 (.inl h1)⟩
      · obtain ⟨t, dl, hx, _⟩ := mem_newEmission he
        exact ⟨t, dl, List.mem_append.2 (.inr (List.mem_append.2 (.inl (List.mem_map.2 ⟨_, hx, rfl⟩))))⟩
    · intro t r tk i hm
      rcases hsplit _ hm with hm | ⟨o, _, ho⟩ | ⟨t0, rid0, tk0, dl0, tid0, hx, hxe⟩
      · obtain ⟨t0, dl, tid, h1⟩ := hts t r tk i hm
        exact ⟨t0, dl, tid, List.mem_append.2 (.inl h1)⟩
      · cases ho
      · simp only [NObs.told.injEq] at hxe
        obtain ⟨rfl, rfl, rfl, rfl⟩ := hxe
        exact ⟨t, dl0, tid0, List.mem_append.2 (.inr (List.mem_append.2 (.inl (List.mem_map.2 ⟨_, hx, rfl⟩))))⟩
    · intro t r tk i hm j hj
      rcases hsplit _ hm with hm | ⟨o, _, ho⟩ | ⟨t0, rid0, tk0, dl0, tid0, _, hxe⟩
      · obtain ⟨t', tk', h1⟩ := hord t r tk i hm j hj
        exact ⟨t', tk', List.mem_append.2 (.inl h1)⟩
      · cases ho
      · simp only [NObs.told.injEq] at hxe
        omega
    · intro t r tk i hm
      rcases hsplit _ hm with hm | ⟨o, _, ho⟩ | ⟨t0, rid0, tk0, dl0, tid0, _, hxe⟩
      · exact hab t r tk i hm
      · cases ho
      · cases hxe

theorem ninv_step {s : NState} {tr : List NObs} (op : NOp) (h : NInv s tr) (hw : NoWrap (nstep s op).1.base) :
    NInv (nstep s op).1 (tr ++ (nstep s op).2) := by
  cases op with
  | base op => rw [nstep_base_base] at hw; exact ninv_base op h hw
  | resume rid => exact ninv_resume rid h

/-- every history of the layered model keeps the ledger -/
theorem reach_ninv (cfg : Cfg) (n : Nat) (ops : List NOp) (hw : NoWrap (nrun (ninit cfg n) ops).1.base) :
    NInv (nrun (ninit cfg n) ops).1 (nrun (ninit cfg n) ops).2 := by
  have := nrun_ind (P := NInv) (G := fun s => NoWrap s.base) noWrap_of_nstep
    (fun s tr op hi hw => ninv_step op hi hw) ops (ninit cfg n) [] (ninv_init cfg n) hw
  simpa using this

theorem nrun_listeners (s : NState) (ops : List NOp) : (nrun s ops).1.listeners = s.listeners := by
  induction ops generalizing s with
  | nil => rfl
  | cons op ops ih => rw [nrun_cons]; simp only [ih, nstep_listeners]

/-! ### letting every suspended listener return -/

theorem nrun_append (s : NState) (a b : List NOp) :
    nrun s (a ++ b) = ((nrun (nrun s a).1 b).1, (nrun s a).2 ++ (nrun (nrun s a).1 b).2) := by
  induction a generalizing s with
  | nil => simp [nrun_nil]
  | cons op ops ih => simp [nrun_cons, ih, List.append_assoc]

/-- the schedule that lets the listeners of one running report return, one after the other, to the end -/
def drainOne (n : Nat) (e : Emission) : List NOp := List.replicate (n - e.told + 1) (.resume e.rid)

/-- … of every running report -/
def drainOps (s : NState) : List NOp := s.reporting.flatMap (drainOne s.listeners)

theorem find_bump (rid : Nat) (l : List Emission) :
    (l.map (bump rid)).find? (fun e => decide (e.rid = rid)) = (l.find? (fun e => decide (e.rid = rid))).map (bump rid) := by
  induction l with
  | nil => rfl
  | cons x xs ih =>
    simp only [List.map_cons, List.find?_cons, bump_rid]
    split
    · rfl
    · exact ih

theorem filter_bump (rid : Nat) (l : List Emission) :
    (l.map (bump rid)).filter (fun x => decide (x.rid ≠ rid)) = l.filter (fun x => decide (x.rid ≠ rid)) := by
  induction l with
  | nil => rfl
  | cons x xs ih =>
    simp only [List.map_cons, List.filter_cons, bump_rid, ih]
    split
    · rename_i h
      have : bump rid x = x := by unfold bump; rw [if_neg (by simpa using h)]
      rw [this]
    · rfl

/-- resuming an un-cancelled report `k + 1` times when `k` listeners are still to be called: they are called in
order, then `emit` returns; nothing else changes -/
theorem drainOne_run (s : NState) (e : Emission) (k : Nat)
    (hf : s.reporting.find? (fun x => decide (x.rid = e.rid)) = some e) (hc : e.cancelled = false)
    (hk : e.told + k = s.listeners) :
    (nrun s (List.replicate (k + 1) (.resume e.rid))).1 =
      { s with reporting := s.reporting.filter (fun x => decide (x.rid ≠ e.rid)) } := by
  induction k generalizing s e with
  | zero =>
    simp only [List.replicate, nrun_cons, nrun_nil, nstep, hf, hc]
    have : ¬ e.told < s.listeners := by omega
    simp [this]
  | succ k ih =>
    rw [List.replicate_succ, nrun_cons]
    have hlt : e.told < s.listeners := by omega
    have hs : (nstep s (.resume e.rid)).1 = { s with reporting := s.reporting.map (bump e.rid) } := by
      simp only [nstep, hf, hc]
      simp [hlt]
    rw [hs]
    have hb : (bump e.rid e).rid = e.rid := bump_rid _ _
    have := ih { s with reporting := s.reporting.map (bump e.rid) } (bump e.rid e)
      (by rw [hb]; simp only []; rw [find_bump, hf]; rfl) (by simpa using hc)
      (by rw [bump_told, if_pos rfl]; simp only []; omega)
    rw [hb] at this
    rw [this]
    show ({ base := s.base, listeners := s.listeners,
            reporting := (s.reporting.map (bump e.rid)).filter (fun x => decide (x.rid ≠ e.rid)) } : NState) = _
    rw [filter_bump]

theorem drain_run (n : Nat) (b : State) (l : List Emission)
    (hnd : l.Pairwise (fun x y => x.rid ≠ y.rid)) (hok : ∀ e ∈ l, e.cancelled = false ∧ e.told ≤ n) :
    (nrun { base := b, listeners := n, reporting := l } (l.flatMap (drainOne n))).1 =
      { base := b, listeners := n, reporting := [] } := by
  induction l with
  | nil => rfl
  | cons e es ih =>
    rw [List.pairwise_cons] at hnd
    have he := hok e (by simp)
    have h1 := drainOne_run { base := b, listeners := n, reporting := e :: es } e (n - e.told)
      (by simp [List.find?_cons]) he.1 (by have := he.2; show e.told + (n - e.told) = n; omega)
    have hfil : (e :: es).filter (fun x => decide (x.rid ≠ e.rid)) = es := by
      rw [List.filter_cons]
      simp only [ne_eq, not_true_eq_false, decide_false, Bool.false_eq_true, if_false]
      apply List.filter_eq_self.2
      intro x hx
      have := hnd.1 x hx
      simpa using fun h => this h.symm
    simp only [List.flatMap_cons, nrun_append]
    unfold drainOne at h1 ⊢
    rw [h1]
    simp only [hfil]
    exact ih hnd.2 (fun e' he' => hok e' (by simp [he']))

/-- when every suspended listener is allowed to return, every report runs to its end -/
theorem drain_state {s : NState} {tr : List NObs} (h : NInv s tr) :
    (nrun s (drainOps s)).1 = { s with reporting := [] } := by
  have := drain_run s.listeners s.base s.reporting h.rep_nodup
    (fun e he => ⟨(h.rep_ok e he).1, (h.rep_ok e he).2.2.1⟩)
  cases s
  exact this

end AioslskVerif.Search
