import AioslskVerif.Model.Cache
/-!
Helper lemmas for C17 (model: `Model/Cache.lean`, property theorems: `Props/C17.lean`).
-/
namespace AioslskVerif.Cache
open AioslskVerif.Generated.Cache

/-! ### facts about the generated tables (finite, by evaluation) -/

theorem stateOfValue_value : ∀ s : St, stateOfValue s.value = some s := by intro s; cases s <;> decide
theorem dir_digits_length : ∀ d : Dir, d.digits.length = 1 := by intro d; cases d <;> decide
theorem dir_digits_inj : ∀ a b : Dir, a.digits = b.digits → a = b := by intro a b; cases a <;> cases b <;> decide

/-! ### the key -/
theorem colon_not_mem_toDigits (n : Nat) : ':' ∉ Nat.toDigits 10 n := by
  intro h
  have := Nat.isDigit_of_mem_toDigits (by decide) (by decide) h
  revert this; decide

theorem toDigits_inj {a b : Nat} (h : Nat.toDigits 10 a = Nat.toDigits 10 b) : a = b := by
  have := congrArg (fun l => Nat.ofDigitChars 10 l 0) h
  simpa [Nat.ofDigitChars_ten_toDigits] using this

theorem split_at_sep {c : Char} : ∀ {a b r s : Str}, c ∉ a → c ∉ b → a ++ c :: r = b ++ c :: s → a = b ∧ r = s
  | [], [], _, _, _, _, h => by simpa using h
  | [], y :: b, _, _, _, hb, h => by
    simp only [List.nil_append, List.cons_append, List.cons.injEq] at h
    exact absurd (h.1 ▸ List.mem_cons_self) hb
  | x :: a, [], _, _, ha, _, h => by
    simp only [List.nil_append, List.cons_append, List.cons.injEq] at h
    exact absurd (h.1 ▸ List.mem_cons_self) ha
  | x :: a, y :: b, _, _, ha, hb, h => by
    simp only [List.cons_append, List.cons.injEq] at h
    have := split_at_sep (fun m => ha (List.mem_cons_of_mem _ m)) (fun m => hb (List.mem_cons_of_mem _ m)) h.2
    exact ⟨by rw [h.1, this.1], this.2⟩

theorem keyChars_inj {u p u' p' : Str} {d d' : Dir} (h : keyChars u p d = keyChars u' p' d') :
    u = u' ∧ p = p' ∧ d = d' := by
  unfold keyChars at h
  obtain ⟨hl, hr⟩ := split_at_sep (colon_not_mem_toDigits _) (colon_not_mem_toDigits _) h
  have hlen := toDigits_inj hl
  rw [List.append_assoc, List.append_assoc] at hr
  obtain ⟨hu, hr⟩ := List.append_inj hr hlen
  obtain ⟨hp, hd⟩ := List.append_inj' hr (by rw [dir_digits_length, dir_digits_length])
  exact ⟨hu, hp, dir_digits_inj _ _ hd⟩

theorem keyBytes_inj {u p u' p' : Str} {d d' : Dir} (h : keyBytes u p d = keyBytes u' p' d') :
    u = u' ∧ p = p' ∧ d = d' := by
  unfold keyBytes at h
  simp only [String.toUTF8_eq_toByteArray, String.toByteArray_inj, String.ofList_inj] at h
  exact keyChars_inj h

theorem keyOf_inj {t t' : Transfer} (h : keyOf t = keyOf t') : ident t = ident t' := by
  obtain ⟨a, b, c⟩ := keyBytes_inj h
  simp [ident, a, b, c]
/-! ### pickle round trip and the database -/

theorem restore_persist (t : Transfer) : restore (persist t) = some (canon t) := by
  simp [restore, persist, stateOfValue_value, canon]

theorem restoreAll_map_persist : ∀ l : List Transfer, restoreAll (l.map persist) = some (l.map canon)
  | [] => rfl
  | t :: l => by simp [restoreAll, restore_persist, restoreAll_map_persist l]

section
variable {K : Type} [DecidableEq K]

theorem foldl_put (f : Transfer → K) (g : Transfer → Rec) :
    ∀ (ts : List Transfer) (db : Db K), (ts.map f).Nodup →
      ts.foldl (fun db t => db.put (f t) (g t)) db
        = (ts.map fun t => (f t, g t)).reverse ++ db.filter (fun e => e.1 ∉ ts.map f)
  | [], db, _ => by simp [List.filter_eq_self.2]
  | t :: ts, db, h => by
    rw [List.map_cons, List.nodup_cons] at h
    rw [List.foldl_cons, foldl_put f g ts _ h.2]
    simp only [Db.put, List.map_cons, List.reverse_cons, List.append_assoc, List.singleton_append]
    congr 1
    rw [List.filter_cons_of_pos (by simpa using h.1), List.filter_filter]
    congr 1
    apply List.filter_congr
    intro e _
    simp only [List.mem_cons, not_or, ne_eq, decide_not, Bool.decide_and]
    rw [Bool.and_comm]

theorem write_eq (H : ByteArray → K) (db : Db K) (ts : List Transfer)
    (h : (ts.map fun t => H (keyOf t)).Nodup) :
    write H db ts = (ts.map fun t => (H (keyOf t), persist t)).reverse := by
  unfold write
  simp only
  rw [foldl_put (fun t => H (keyOf t)) persist ts db h, List.filter_append]
  have h1 : List.filter (fun e => decide (e.1 ∈ ts.map fun t => H (keyOf t)))
      (ts.map fun t => (H (keyOf t), persist t)).reverse = (ts.map fun t => (H (keyOf t), persist t)).reverse := by
    rw [List.filter_eq_self]
    intro e he
    simp only [List.mem_reverse, List.mem_map] at he
    obtain ⟨t, ht, rfl⟩ := he
    simp only [decide_eq_true_eq, List.mem_map]
    exact ⟨t, ht, rfl⟩
  have h2 : List.filter (fun e => decide (e.1 ∈ ts.map fun t => H (keyOf t)))
      (db.filter (fun e => e.1 ∉ ts.map fun t => H (keyOf t))) = [] := by
    rw [List.filter_eq_nil_iff]
    intro e he
    simp only [List.mem_filter, decide_eq_true_eq] at he
    simpa using he.2
  rw [h1, h2, List.append_nil]

end

/-! ### read_cache: repair and add -/

theorem not_processing_repairState : ∀ (s : St) (b : Bool), isProcessing (repairState s b) = false := by
  intro s b; cases s <;> cases b <;> decide

theorem isTransferring_initializing : isTransferring .initializing = false := by decide

theorem repair_state (t : Transfer) : (repair t).1.state = repairState t.state (isTransfered t) := by
  unfold repair repairState
  simp only
  split
  · simp [transition]
  · split <;> simp [isTransfered]

theorem repair_remotelyQueued (t : Transfer) : (repair t).1.remotelyQueued = false := by
  unfold repair; simp only; split
  · simp [transition]
  · split <;> simp

theorem repair_runtime (t : Transfer) :
    (repair t).1.listeners = t.listeners ∧ (repair t).1.tasks = t.tasks ∧ (repair t).1.hasOffset = t.hasOffset := by
  unfold repair; simp only; split
  · simp [transition]
  · split <;> simp

theorem repair_notifications (t : Transfer) (h : t.listeners = []) : (repair t).2 = [] := by
  unfold repair; simp only; split
  · simp [transition, h]
  · split <;> simp

/-- everything but state, remote-queue mark and times is untouched by the repair -/
theorem repair_fields (t : Transfer) :
    let r := (repair t).1
    ident r = ident t ∧ r.localPath = t.localPath ∧ r.filesize = t.filesize ∧ r.bytes = t.bytes ∧
    r.failReason = t.failReason ∧ r.abortReason = t.abortReason ∧ r.placeInQueue = t.placeInQueue ∧
    r.queueAttempts = t.queueAttempts ∧ r.uploadRequestAttempts = t.uploadRequestAttempts := by
  unfold repair; simp only; split
  · simp [transition, ident]
  · split <;> simp [ident]

theorem repair_times (t : Transfer) :
    (isTransferring t.state = true → (repair t).1.startTime = none ∧ (repair t).1.completeTime = none) ∧
    (isTransferring t.state = false → (repair t).1.startTime = t.startTime ∧ (repair t).1.completeTime = t.completeTime) := by
  unfold repair; simp only; split
  · rename_i h; simp [transition, h, isTransferring_initializing]
  · split <;> simp_all

theorem restore_runtime {r : Rec} {t : Transfer} (h : restore r = some t) :
    t.listeners = [] ∧ t.tasks = 0 ∧ t.hasOffset = false := by
  unfold restore at h
  split at h
  · cases h
  · cases h; simp

theorem restoreAll_mem : ∀ {rs : List Rec} {l : List Transfer}, restoreAll rs = some l →
    ∀ x ∈ l, ∃ r ∈ rs, restore r = some x
  | [], l, h, x, hx => by simp [restoreAll] at h; subst h; cases hx
  | r :: rs, l, h, x, hx => by
    unfold restoreAll at h
    split at h
    · rename_i t ts h1 h2
      cases h
      rcases List.mem_cons.1 hx with rfl | hx
      · exact ⟨r, List.mem_cons_self, h1⟩
      · obtain ⟨r', hr', e⟩ := restoreAll_mem h2 x hx
        exact ⟨r', List.mem_cons_of_mem _ hr', e⟩
    · cases h

theorem add_id (m : Mgr) (t : Transfer) : (m.add t).id = m.id := by
  unfold Mgr.add; split <;> rfl

theorem mem_add {m : Mgr} {t x : Transfer} (h : x ∈ (m.add t).transfers) :
    x ∈ m.transfers ∨ x = attach m.id t := by
  unfold Mgr.add at h; split at h
  · exact .inl h
  · simpa using h

theorem addAll_id : ∀ (l : List Transfer) (m : Mgr), (m.addAll l).id = m.id
  | [], m => rfl
  | x :: l, m => by
    show (Mgr.addAll (m.add (repair x).1) l).id = m.id
    rw [addAll_id l, add_id]

theorem mem_addAll : ∀ (l : List Transfer) (m : Mgr) (x : Transfer), x ∈ (m.addAll l).transfers →
    x ∈ m.transfers ∨ ∃ y ∈ l, x = attach m.id (repair y).1
  | [], m, x, h => .inl h
  | y :: l, m, x, h => by
    have := mem_addAll l (m.add (repair y).1) x h
    rcases this with h1 | ⟨z, hz, e⟩
    · rcases mem_add h1 with h2 | h2
      · exact .inl h2
      · exact .inr ⟨y, List.mem_cons_self, h2⟩
    · exact .inr ⟨z, List.mem_cons_of_mem _ hz, by rw [e, add_id]⟩

theorem ident_attach (i : Nat) (t : Transfer) : ident (attach i t) = ident t := rfl
theorem ident_canon (t : Transfer) : ident (canon t) = ident t := rfl
theorem ident_repair (t : Transfer) : ident (repair t).1 = ident t := (repair_fields t).1

/-- adding transfers with pairwise distinct identities, none of which is present yet, appends all of them -/
theorem addAll_fresh : ∀ (l : List Transfer) (m : Mgr), (l.map ident).Nodup →
    (∀ t ∈ l, ident t ∉ m.transfers.map ident) →
    (m.addAll l).transfers = m.transfers ++ l.map (fun t => attach m.id (repair t).1) ∧
    (m.addAll l).addedEvents = m.addedEvents + l.length
  | [], m, _, _ => by simp [Mgr.addAll]
  | x :: l, m, hnd, hdis => by
    rw [List.map_cons, List.nodup_cons] at hnd
    have hx : ident x ∉ m.transfers.map ident := hdis x List.mem_cons_self
    have hadd : m.add (repair x).1 =
        { m with transfers := m.transfers ++ [attach m.id (repair x).1],
                 addedEvents := m.addedEvents + 1, cycleRequested := true } := by
      unfold Mgr.add
      rw [if_neg]
      simp only [List.any_eq_true, decide_eq_true_eq, not_exists, not_and, ident_repair]
      intro q hq e
      exact hx (e ▸ List.mem_map_of_mem hq)
    have ih := addAll_fresh l (m.add (repair x).1) hnd.2 (by
      intro t ht
      rw [hadd]
      simp only [List.map_append, List.map_cons, List.map_nil, List.mem_append, List.mem_singleton, not_or]
      refine ⟨hdis t (List.mem_cons_of_mem _ ht), ?_⟩
      rw [ident_attach, ident_repair]
      intro e
      exact hnd.1 (e ▸ List.mem_map_of_mem ht))
    show (Mgr.addAll (m.add (repair x).1) l).transfers = _ ∧ (Mgr.addAll (m.add (repair x).1) l).addedEvents = _
    rw [ih.1, ih.2, hadd]
    simp only [List.map_cons, List.append_assoc, List.singleton_append, List.length_cons]
    exact ⟨trivial, by omega⟩

/-! ### histories: add / remove split at their suspension points, writes anywhere -/

/-- What the ghost lists promise about the manager's list: identities pairwise distinct, everything
reported added (and not asked to be removed since) is listed, nothing reported removed (and not
asked to be added since) is listed. -/
structure Inv (ts : List Transfer) (there gone : List Ident) : Prop where
  nodup : (ts.map ident).Nodup
  there : ∀ i ∈ there, i ∈ ts.map ident
  gone : ∀ i ∈ gone, i ∉ ts.map ident

def GhostInv {K : Type} (s : Sys K) : Prop := Inv s.mgr.transfers s.there s.gone

theorem add_listed {m : Mgr} {t : Transfer} (h : m.transfers.any (fun q => ident q = ident t) = true) :
    m.add t = m := by
  unfold Mgr.add; rw [if_pos h]

theorem add_not_listed {m : Mgr} {t : Transfer} (h : ¬ m.transfers.any (fun q => ident q = ident t) = true) :
    (m.add t).transfers = m.transfers ++ [attach m.id t] := by
  unfold Mgr.add; rw [if_neg h]

theorem not_any_ident {l : List Transfer} {i : Ident}
    (h : ¬ l.any (fun q => ident q = i) = true) : i ∉ l.map ident := by
  intro hm
  apply h
  obtain ⟨q, hq, e⟩ := List.mem_map.1 hm
  exact List.any_eq_true.2 ⟨q, hq, by simpa using e⟩

theorem add_nodup (m : Mgr) (t : Transfer) (h : (m.transfers.map ident).Nodup) :
    ((m.add t).transfers.map ident).Nodup := by
  by_cases hl : m.transfers.any (fun q => ident q = ident t) = true
  · rw [add_listed hl]; exact h
  · rw [add_not_listed hl, List.map_append, List.map_cons, List.map_nil, ident_attach]
    refine List.nodup_append.2 ⟨h, by simp, ?_⟩
    intro a ha b hb
    rw [List.mem_singleton] at hb
    subst hb
    exact fun e => not_any_ident hl (e ▸ ha)

theorem addAll_nodup : ∀ (l : List Transfer) (m : Mgr), (m.transfers.map ident).Nodup →
    ((m.addAll l).transfers.map ident).Nodup
  | [], _, h => h
  | x :: l, m, h => addAll_nodup l (m.add (repair x).1) (add_nodup m _ h)

theorem not_mem_ids_eraseP (id : Ident) : ∀ l : List Transfer, (l.map ident).Nodup →
    id ∉ (l.eraseP (fun q => ident q = id)).map ident
  | [], _ => by simp
  | q :: l, h => by
    rw [List.map_cons, List.nodup_cons] at h
    by_cases e : ident q = id
    · rw [List.eraseP_cons_of_pos (by simpa using e)]; exact e ▸ h.1
    · rw [List.eraseP_cons_of_neg (by simpa using e)]
      simp only [List.map_cons, List.mem_cons, not_or]
      exact ⟨fun h' => e h'.symm, not_mem_ids_eraseP id l h.2⟩

theorem mem_ids_eraseP_of_ne {id i : Ident} (hne : i ≠ id) : ∀ l : List Transfer, i ∈ l.map ident →
    i ∈ (l.eraseP (fun q => ident q = id)).map ident
  | [], h => by simp at h
  | q :: l, h => by
    by_cases e : ident q = id
    · rw [List.eraseP_cons_of_pos (by simpa using e)]
      rw [List.map_cons, List.mem_cons] at h
      rcases h with h | h
      · exact absurd (h.trans e) hne
      · exact h
    · rw [List.eraseP_cons_of_neg (by simpa using e), List.map_cons]
      rw [List.map_cons, List.mem_cons] at h
      rcases h with h | h
      · exact h ▸ List.mem_cons_self
      · exact List.mem_cons_of_mem _ (mem_ids_eraseP_of_ne hne l h)

theorem ids_eraseP_sublist (id : Ident) (l : List Transfer) :
    ((l.eraseP (fun q => ident q = id)).map ident).Sublist (l.map ident) :=
  (List.eraseP_sublist).map ident

theorem ident_removeLocalFile (t : Transfer) : ident (removeLocalFile t) = ident t := by
  unfold removeLocalFile
  split
  · split <;> rfl
  · rfl

theorem ident_setCompleteTime (n : Nat) (t : Transfer) : ident (setCompleteTime n t) = ident t := by
  unfold setCompleteTime; split <;> rfl

theorem abortEffect_ident {now : Nat} {q q' : Transfer} (h : abortEffect now q = some q') : ident q' = ident q := by
  unfold abortEffect at h
  split at h
  · cases h
  · rename_i stops removes _
    simp only [Option.some.injEq] at h
    subst h
    cases stops <;> cases removes
    · rfl
    · exact ident_removeLocalFile q
    · exact ident_setCompleteTime now q
    · exact (ident_removeLocalFile _).trans (ident_setCompleteTime now q)

theorem ids_replace {l : List Transfer} {id : Ident} {q' : Transfer} (h : ident q' = id) :
    (l.map (fun x => if ident x = id then q' else x)).map ident = l.map ident := by
  rw [List.map_map]
  apply List.map_congr_left
  intro x _
  simp only [Function.comp]
  split
  · rename_i e; rw [h, e]
  · rfl

theorem ids_setAt : ∀ (l : List Transfer) (i : Nat) (q t : Transfer), l[i]? = some q → ident t = ident q →
    (setAt l i t).map ident = l.map ident
  | [], _, _, _, h, _ => by simp at h
  | x :: l, 0, q, t, h, e => by
    simp only [List.getElem?_cons_zero, Option.some.injEq] at h
    simp [setAt, e, h]
  | x :: l, i + 1, q, t, h, e => by
    simp only [List.getElem?_cons_succ] at h
    simp [setAt, ids_setAt l i q t h e]

theorem Inv.detach {ts : List Transfer} {there gone : List Ident} (h : Inv ts there gone) (id : Ident)
    (tainted : Bool) :
    Inv (ts.eraseP (fun q => ident q = id)) (there.filter (· ≠ id))
      (if tainted then gone.filter (· ≠ id) else id :: gone.filter (· ≠ id)) := by
  obtain ⟨h1, h2, h3⟩ := h
  refine ⟨h1.sublist (ids_eraseP_sublist id _), ?_, ?_⟩
  · intro i hi
    simp only [List.mem_filter, decide_eq_true_eq] at hi
    exact mem_ids_eraseP_of_ne hi.2 _ (h2 i hi.1)
  · intro i hi
    have hnot : ∀ j ∈ gone.filter (· ≠ id), j ∉ (ts.eraseP (fun q => ident q = id)).map ident := by
      intro j hj hm
      simp only [List.mem_filter] at hj
      exact h3 j hj.1 ((ids_eraseP_sublist id _).subset hm)
    cases tainted
    · simp only [Bool.false_eq_true, if_false, List.mem_cons] at hi
      rcases hi with rfl | hi
      · exact not_mem_ids_eraseP _ _ h1
      · exact hnot i hi
    · simp only [if_true] at hi
      exact hnot i hi

theorem Inv.forget {ts : List Transfer} {there gone : List Ident} (h : Inv ts there gone) (id : Ident) :
    Inv ts (there.filter (· ≠ id)) gone :=
  ⟨h.nodup, fun i hi => h.there i (List.mem_filter.1 hi).1, h.gone⟩

theorem Inv.ids_eq {ts ts' : List Transfer} {there gone : List Ident} (h : Inv ts there gone)
    (e : ts'.map ident = ts.map ident) : Inv ts' there gone :=
  ⟨e ▸ h.nodup, fun i hi => e ▸ h.there i hi, fun i hi => e ▸ h.gone i hi⟩

section
variable {K : Type}

theorem inv_detach {s : Sys K} (h : GhostInv s) (id : Ident) (tainted : Bool) : GhostInv (detach s id tainted) :=
  Inv.detach h id tainted

theorem inv_doAdd {s : Sys K} (h : GhostInv s) (t : Transfer) (g : Bool) : GhostInv (doAdd s t g).1 := by
  obtain ⟨h1, h2, h3⟩ := h
  unfold doAdd
  simp only
  by_cases hl : s.listed (ident t) = true
  · rw [if_pos hl]
    exact ⟨h1, h2, fun i hi => h3 i (List.mem_filter.1 hi).1⟩
  · rw [if_neg hl]
    have hl' : ¬ s.mgr.transfers.any (fun q => ident q = ident t) = true := hl
    have hid : ident t ∉ s.mgr.transfers.map ident := not_any_ident hl'
    refine ⟨add_nodup _ _ h1, ?_, ?_⟩
    · intro i hi
      show i ∈ (s.mgr.add t).transfers.map ident
      rw [add_not_listed hl', List.map_append, List.mem_append]
      rcases List.mem_cons.1 hi with rfl | hi
      · right; simp [ident_attach]
      · left; exact h2 i (List.mem_filter.1 hi).1
    · intro i hi
      show i ∉ (s.mgr.add t).transfers.map ident
      rw [add_not_listed hl', List.map_append, List.mem_append, not_or]
      have := List.mem_filter.1 hi
      refine ⟨h3 i this.1, ?_⟩
      simp only [List.map_cons, List.map_nil, List.mem_singleton, ident_attach]
      simpa using this.2

theorem inv_doAddRet {s : Sys K} (h : GhostInv s) (id : Ident) : GhostInv (doAddRet s id).1 := by
  unfold doAddRet; split <;> exact h

theorem inv_doRmCall {s : Sys K} (h : GhostInv s) (id : Ident) (now : Nat) (g : Bool) :
    GhostInv (doRmCall s id now g).1 := by
  unfold doRmCall
  split
  · exact h
  · rename_i q hq
    split
    · exact h
    · have hqi : ident q = id := by simpa using List.find?_some hq
      have hs1 : Inv s.mgr.transfers (s.there.filter (· ≠ id)) s.gone := Inv.forget h id
      simp only
      split
      · rename_i q' hq'
        have hi' : ident q' = id := (abortEffect_ident hq').trans hqi
        have hs2 : Inv (s.mgr.transfers.map (fun x => if ident x = id then q' else x))
            (s.there.filter (· ≠ id)) s.gone := hs1.ids_eq (ids_replace hi')
        cases g
        · exact Inv.detach hs2 id false
        · exact hs2
      · cases g
        · exact Inv.detach hs1 id false
        · exact Inv.detach hs1 id false

theorem inv_doRmStep {s : Sys K} (h : GhostInv s) (id : Ident) : GhostInv (doRmStep s id).1 := by
  unfold doRmStep
  split
  · exact h
  · rename_i p _
    split
    · exact inv_detach h id p.tainted
    · exact h

theorem inv_doMut {s : Sys K} (h : GhostInv s) (t : Transfer) : GhostInv (doMut s t).1 := by
  unfold doMut
  split
  · rename_i i _
    split
    · rename_i q hq
      have e : (setAt s.mgr.transfers i
          { t with user := q.user, path := q.path, dir := q.dir, listeners := q.listeners }).map ident
            = s.mgr.transfers.map ident := ids_setAt _ i q _ hq rfl
      exact Inv.ids_eq h e
    · exact h
  · exact h

theorem inv_doLegacy [DecidableEq K] (H : ByteArray → K) {s : Sys K} (h : GhostInv s) (id : Ident) (a o k st : Bool) :
    GhostInv (doLegacy H s id a o k st).1 := by
  unfold doLegacy; split <;> exact h

theorem inv_doRestart (s : Sys K) : GhostInv (doRestart s).1 := by
  unfold doRestart
  split
  · rename_i m hm
    refine ⟨?_, (fun i hi => hi), (fun i hi => nomatch hi)⟩
    unfold Mgr.load at hm
    cases hr : readAll s.db with
    | none => simp [hr] at hm
    | some l =>
      simp only [hr, Option.map_some, Option.some.injEq] at hm
      subst hm
      exact addAll_nodup l _ (by simp [Mgr.empty])
  · exact ⟨(by simp [Mgr.empty]), (fun i hi => nomatch hi), (fun i hi => nomatch hi)⟩

theorem inv_init : GhostInv (Sys.init : Sys K) :=
  ⟨(by simp [Sys.init, Mgr.empty]), (fun i hi => nomatch hi), (fun i hi => nomatch hi)⟩

/-- the loop of `read_cache` registers through `add()`: whatever runs between its phases, the list keeps
pairwise distinct identities and agrees with the reports -/
theorem inv_loadRun : ∀ (l : List Transfer) {s : Sys K}, GhostInv s → GhostInv (loadRun s l).1
  | [], _, h => h
  | x :: rest, s, h => by
    unfold loadRun
    split
    · exact inv_loadRun rest h
    · exact inv_doAdd h _ false

theorem inv_doLoadCall (s : Sys K) (order : List Ident) : GhostInv (doLoadCall s order).1 := by
  unfold doLoadCall
  simp only
  split
  · exact ⟨(by simp [Mgr.empty]), (fun i hi => nomatch hi), (fun i hi => nomatch hi)⟩
  · exact inv_loadRun _ ⟨(by simp [Mgr.empty]), (fun i hi => nomatch hi), (fun i hi => nomatch hi)⟩

theorem inv_doLoadStep {s : Sys K} (h : GhostInv s) : GhostInv (doLoadStep s).1 := by
  unfold doLoadStep
  split
  · exact h
  · exact inv_loadRun _ h

theorem inv_doDupKey [DecidableEq K] (H : ByteArray → K) {s : Sys K} (h : GhostInv s) (id : Ident) :
    GhostInv (doDupKey H s id).1 := by
  unfold doDupKey; split <;> exact h

theorem inv_step [DecidableEq K] (H : ByteArray → K) {s : Sys K} (h : GhostInv s) (o : Op) : GhostInv (step H s o).1 := by
  cases o with
  | new => exact inv_init
  | add t => exact inv_doAdd h t false
  | addCall t => exact inv_doAdd h t true
  | addRet id => exact inv_doAddRet h id
  | edit t => exact inv_doMut h t
  | rm id now => exact inv_doRmCall h id now false
  | rmCall id now => exact inv_doRmCall h id now true
  | rmStep id => exact inv_doRmStep h id
  | store => exact h
  | legacy id a o k st => exact inv_doLegacy H h id a o k st
  | restart => exact inv_doRestart s
  | sched _ => exact h
  | prev t k => exact h
  | dupKey id => exact inv_doDupKey H h id
  | loadCall order => exact inv_doLoadCall s order
  | loadStep => exact inv_doLoadStep h

theorem inv_run [DecidableEq K] (H : ByteArray → K) : ∀ (ops : List Op) {s : Sys K}, GhostInv s → GhostInv (run H s ops)
  | [], _, h => h
  | o :: ops, _, h => inv_run H ops (inv_step H h o)

theorem run_append [DecidableEq K] (H : ByteArray → K) (s : Sys K) (a b : List Op) : run H s (a ++ b) = run H (run H s a) b := by
  unfold run; rw [List.foldl_append]

theorem doAdd_db (s : Sys K) (t : Transfer) (g : Bool) : (doAdd s t g).1.db = s.db := by
  simp only [doAdd]; split <;> rfl

theorem loadRun_db : ∀ (l : List Transfer) (s : Sys K), (loadRun s l).1.db = s.db
  | [], _ => rfl
  | x :: rest, s => by
    unfold loadRun
    split
    · exact loadRun_db rest s
    · exact doAdd_db s _ false

theorem quiet_db [DecidableEq K] (H : ByteArray → K) (s : Sys K) (o : Op) (h : o.quiet = true) : (step H s o).1.db = s.db := by
  cases o with
  | new => cases h
  | prev t k => cases h
  | dupKey id => cases h
  | loadCall order => cases h
  | loadStep =>
    simp only [step, doLoadStep]
    split
    · rfl
    · exact loadRun_db _ s
  | store => cases h
  | legacy id a o k st => cases h
  | restart => cases h
  | add t => simp only [step, doAdd]; split <;> rfl
  | addCall t => simp only [step, doAdd]; split <;> rfl
  | addRet id => simp only [step, doAddRet]; split <;> rfl
  | edit t =>
    simp only [step, doMut]
    split
    · split <;> rfl
    · rfl
  | rm id now =>
    simp only [step, doRmCall]
    split
    · rfl
    · split
      · rfl
      · split <;> rfl
  | rmCall id now =>
    simp only [step, doRmCall]
    split
    · rfl
    · split
      · rfl
      · split <;> rfl
  | rmStep id =>
    simp only [step, doRmStep]
    split
    · rfl
    · split <;> rfl
  | sched _ => rfl

theorem quiet_run_db [DecidableEq K] (H : ByteArray → K) : ∀ (ops : List Op) (s : Sys K), (∀ o ∈ ops, o.quiet = true) →
    (run H s ops).db = s.db
  | [], _, _ => rfl
  | o :: ops, s, h => by
    show (run H (step H s o).1 ops).db = s.db
    rw [quiet_run_db H ops _ (fun x hx => h x (List.mem_cons_of_mem _ hx)), quiet_db H s o (h o List.mem_cons_self)]

end

/-! ### `read_cache()` split at its suspension points, interleaved with other operations -/

theorem restoreAll_complete : ∀ {rs : List Rec} {l : List Transfer}, restoreAll rs = some l →
    ∀ r ∈ rs, ∃ x ∈ l, restore r = some x
  | [], _, _, r, hr => nomatch hr
  | r0 :: rs, l, h, r, hr => by
    unfold restoreAll at h
    split at h
    · rename_i t ts h1 h2
      cases h
      rcases List.mem_cons.1 hr with rfl | hr
      · exact ⟨t, List.mem_cons_self, h1⟩
      · obtain ⟨x, hx, e⟩ := restoreAll_complete h2 r hr
        exact ⟨x, List.mem_cons_of_mem _ hx, e⟩
    · cases h

theorem mem_pull {id : Ident} : ∀ {l : List Transfer} {t : Transfer} {r : List Transfer}, pull id l = some (t, r) →
    ∀ x, x ∈ l ↔ x = t ∨ x ∈ r
  | [], _, _, h, _ => by simp [pull] at h
  | y :: l, t, r, h, x => by
    unfold pull at h
    split at h
    · cases h; simp
    · cases hp : pull id l with
      | none => simp [hp] at h
      | some q =>
        obtain ⟨t', r'⟩ := q
        simp only [hp, Option.map_some, Option.some.injEq, Prod.mk.injEq] at h
        obtain ⟨rfl, rfl⟩ := h
        rw [List.mem_cons, mem_pull hp x, List.mem_cons]
        constructor
        · rintro (h | h | h)
          · exact .inr (.inl h)
          · exact .inl h
          · exact .inr (.inr h)
        · rintro (h | h | h)
          · exact .inr (.inl h)
          · exact .inl h
          · exact .inr (.inr h)

/-- whatever order the environment picks, the entries are the same -/
theorem mem_readOrder : ∀ (order : List Ident) (l : List Transfer) (x : Transfer), x ∈ readOrder order l ↔ x ∈ l
  | [], _, _ => Iff.rfl
  | id :: rest, l, x => by
    unfold readOrder
    split
    · rename_i t r hp
      rw [List.mem_cons, mem_readOrder rest r x, mem_pull hp x]
    · exact mem_readOrder rest l x

theorem add_ids_mono (m : Mgr) (t : Transfer) {i : Ident} (hi : i ∈ m.transfers.map ident) :
    i ∈ (m.add t).transfers.map ident := by
  by_cases hl : m.transfers.any (fun q => ident q = ident t) = true
  · rw [add_listed hl]; exact hi
  · rw [add_not_listed hl, List.map_append, List.mem_append]; exact .inl hi

theorem add_mem_ids (m : Mgr) (t : Transfer) : ident t ∈ (m.add t).transfers.map ident := by
  by_cases hl : m.transfers.any (fun q => ident q = ident t) = true
  · rw [add_listed hl]
    obtain ⟨q, hq, e⟩ := List.any_eq_true.1 hl
    exact List.mem_map.2 ⟨q, hq, by simpa using e⟩
  · rw [add_not_listed hl, List.map_append, List.mem_append]
    right; simp [ident_attach]

theorem addAll_ids_mono : ∀ (l : List Transfer) (m : Mgr) {i : Ident}, i ∈ m.transfers.map ident →
    i ∈ (m.addAll l).transfers.map ident
  | [], _, _, h => h
  | x :: l, m, _, h => addAll_ids_mono l (m.add (repair x).1) (add_ids_mono m _ h)

/-- **nothing in the cache is skipped**: every entry's identity is listed after the loop -/
theorem addAll_cons (m : Mgr) (y : Transfer) (l : List Transfer) :
    m.addAll (y :: l) = (m.add (repair y).1).addAll l := rfl

theorem addAll_complete (l : List Transfer) : ∀ (m : Mgr) (x : Transfer), x ∈ l →
    ident x ∈ (m.addAll l).transfers.map ident := by
  induction l with
  | nil => intro m x hx; cases hx
  | cons y l ih =>
    intro m x hx
    rw [addAll_cons]
    rcases List.mem_cons.1 hx with e | hx
    · have h := add_mem_ids m (repair y).1
      rw [ident_repair] at h
      rw [e]
      exact addAll_ids_mono l _ h
    · exact ih _ x hx

section
variable {K : Type}

theorem listed_mem {s : Sys K} {i : Ident} (h : s.listed i = true) : i ∈ s.mgr.transfers.map ident := by
  obtain ⟨q, hq, e⟩ := List.any_eq_true.1 h
  exact List.mem_map.2 ⟨q, hq, by simpa using e⟩

theorem doAdd_mgr (s : Sys K) (t : Transfer) (g : Bool) :
    (doAdd s t g).1.mgr = s.mgr ∨ (doAdd s t g).1.mgr = s.mgr.add t := by
  simp only [doAdd]; split
  · exact .inl rfl
  · exact .inr rfl

theorem doAdd_loading (s : Sys K) (t : Transfer) (g : Bool) : (doAdd s t g).1.loading = s.loading := by
  simp only [doAdd]; split <;> rfl

theorem doAdd_ids_mono (s : Sys K) (t : Transfer) (g : Bool) {i : Ident} (hi : i ∈ s.mgr.transfers.map ident) :
    i ∈ (doAdd s t g).1.mgr.transfers.map ident := by
  rcases doAdd_mgr s t g with e | e <;> rw [e]
  · exact hi
  · exact add_ids_mono _ _ hi

theorem doAdd_mem_ids (s : Sys K) (t : Transfer) (g : Bool) : ident t ∈ (doAdd s t g).1.mgr.transfers.map ident := by
  simp only [doAdd]; split
  · rename_i hl; exact listed_mem hl
  · exact add_mem_ids _ _

/-- one phase of the loop of `read_cache`: nothing listed is dropped, and every entry the loop was still to
reach is listed afterwards or still to be reached -/
theorem loadRun_spec : ∀ (l : List Transfer) (s : Sys K),
    (∀ i ∈ s.mgr.transfers.map ident, i ∈ (loadRun s l).1.mgr.transfers.map ident) ∧
    (∀ i ∈ l.map ident, i ∈ (loadRun s l).1.mgr.transfers.map ident ∨
        ∃ rem, (loadRun s l).1.loading = some rem ∧ i ∈ rem.map ident)
  | [], _ => ⟨fun _ hi => hi, fun _ hi => nomatch hi⟩
  | x :: rest, s => by
    unfold loadRun
    split
    · rename_i hl
      obtain ⟨m, c⟩ := loadRun_spec rest s
      refine ⟨m, ?_⟩
      intro i hi
      rw [List.map_cons, List.mem_cons] at hi
      rcases hi with rfl | hi
      · exact .inl (m _ (listed_mem hl))
      · exact c i hi
    · refine ⟨fun i hi => doAdd_ids_mono s _ false hi, ?_⟩
      intro i hi
      rw [List.map_cons, List.mem_cons] at hi
      rcases hi with rfl | hi
      · have h := doAdd_mem_ids s (repair x).1 false
        rw [ident_repair] at h
        exact .inl h
      · exact .inr ⟨rest, rfl, hi⟩

/-- what a phase of the loop registers is the repaired image of an entry it was to reach -/
theorem loadRun_registers : ∀ (l : List Transfer) (s : Sys K) (t : Transfer), t ∈ (loadRun s l).1.mgr.transfers →
    t ∈ s.mgr.transfers ∨ ∃ x ∈ l, t = attach s.mgr.id (repair x).1
  | [], _, _, h => .inl h
  | x :: rest, s, t, h => by
    unfold loadRun at h
    split at h
    · rcases loadRun_registers rest s t h with h | ⟨y, hy, e⟩
      · exact .inl h
      · exact .inr ⟨y, List.mem_cons_of_mem _ hy, e⟩
    · rcases doAdd_mgr s (repair x).1 false with e | e
      · exact .inl (by simpa [e] using h)
      · have h' : t ∈ (s.mgr.add (repair x).1).transfers := by simpa [e] using h
        rcases mem_add h' with h1 | h1
        · exact .inl h1
        · exact .inr ⟨x, List.mem_cons_self, h1⟩

/-- what is listed plus what the loop has yet to reach: `add()`ing the rest would give the same manager before and
after a phase of the loop -/
theorem loadRun_addAll : ∀ (l : List Transfer) (s : Sys K),
    (loadRun s l).1.mgr.addAll ((loadRun s l).1.loading.getD []) = s.mgr.addAll l
  | [], _ => rfl
  | x :: rest, s => by
    unfold loadRun
    split
    · rename_i hl
      rw [loadRun_addAll rest s, addAll_cons, add_listed]
      have : s.mgr.transfers.any (fun q => ident q = ident x) = true := hl
      simpa only [ident_repair] using this
    · rename_i hl
      rw [addAll_cons]
      have hl' : ¬ s.listed (ident (repair x).1) = true := by rwa [ident_repair]
      simp only [doAdd, if_neg hl', Option.getD_some]

theorem run_replicate_loadStep [DecidableEq K] (H : ByteArray → K) : ∀ (n : Nat) (s : Sys K),
    (run H s (List.replicate n .loadStep)).mgr.addAll ((run H s (List.replicate n .loadStep)).loading.getD [])
      = s.mgr.addAll (s.loading.getD [])
  | 0, _ => rfl
  | n + 1, s => by
    have e : run H s (List.replicate (n + 1) .loadStep) = run H (step H s .loadStep).1 (List.replicate n .loadStep) := rfl
    rw [e, run_replicate_loadStep H n]
    simp only [step, doLoadStep]
    split
    · rfl
    · rename_i rest hl
      rw [loadRun_addAll rest s, hl]; rfl

/-- every identity of `ids` is listed, or `read_cache()` is still running and has yet to reach it -/
def LoadInv (ids : List Ident) (s : Sys K) : Prop :=
  ∀ i ∈ ids, i ∈ s.mgr.transfers.map ident ∨ ∃ rem, s.loading = some rem ∧ i ∈ rem.map ident

theorem LoadInv.mono {ids : List Ident} {s s' : Sys K} (h : LoadInv ids s)
    (hm : ∀ i ∈ s.mgr.transfers.map ident, i ∈ s'.mgr.transfers.map ident) (hl : s'.loading = s.loading) :
    LoadInv ids s' := by
  intro i hi
  rcases h i hi with h1 | ⟨rem, h1, h2⟩
  · exact .inl (hm i h1)
  · exact .inr ⟨rem, hl ▸ h1, h2⟩

theorem loadInv_loadRun {ids : List Ident} {s : Sys K} {rest : List Transfer} (h : LoadInv ids s)
    (hl : s.loading = some rest) : LoadInv ids (loadRun s rest).1 := by
  intro i hi
  obtain ⟨m, c⟩ := loadRun_spec rest s
  rcases h i hi with h1 | ⟨rem, h1, h2⟩
  · exact .inl (m i h1)
  · rw [hl] at h1; cases h1; exact c i h2

theorem loadInv_step [DecidableEq K] (H : ByteArray → K) {ids : List Ident} {s : Sys K} (h : LoadInv ids s) (o : Op)
    (hk : o.keeps = true) : LoadInv ids (step H s o).1 := by
  cases o with
  | new => cases hk
  | restart => cases hk
  | loadCall order => cases hk
  | rm id now => cases hk
  | rmCall id now => cases hk
  | rmStep id => cases hk
  | add t => exact h.mono (fun _ hi => doAdd_ids_mono s t false hi) (doAdd_loading s t false)
  | addCall t => exact h.mono (fun _ hi => doAdd_ids_mono s t true hi) (doAdd_loading s t true)
  | addRet id =>
    simp only [step, doAddRet]; split <;> exact h
  | edit t =>
    simp only [step, doMut]
    split
    · rename_i i _
      split
      · rename_i q hq
        have e : (setAt s.mgr.transfers i
            { t with user := q.user, path := q.path, dir := q.dir, listeners := q.listeners }).map ident
              = s.mgr.transfers.map ident := ids_setAt _ i q _ hq rfl
        exact h.mono (fun j hj => by simpa only [e] using hj) rfl
      · exact h
    · exact h
  | store => exact h
  | legacy id a o k st => simp only [step, doLegacy]; split <;> exact h
  | sched _ => exact h
  | prev t k => exact h
  | dupKey id => simp only [step, doDupKey]; split <;> exact h
  | loadStep =>
    simp only [step, doLoadStep]
    split
    · exact h
    · rename_i rest hl
      exact loadInv_loadRun h hl

theorem loadInv_run [DecidableEq K] (H : ByteArray → K) {ids : List Ident} : ∀ (ops : List Op) {s : Sys K},
    LoadInv ids s → (∀ o ∈ ops, o.keeps = true) → LoadInv ids (run H s ops)
  | [], _, h, _ => h
  | o :: ops, _, h, hk =>
    loadInv_run H ops (loadInv_step H h o (hk o List.mem_cons_self)) (fun x hx => hk x (List.mem_cons_of_mem _ hx))

end

/-! ### scheduling -/

/-- the download list is a plain filter of the transfer list -/
theorem sched_downloads (off : Str → Bool) (up : List Str) :
    ∀ (ts : List Transfer) (acc : SchedAcc),
      (ts.foldl (schedStep off up) acc).2.1
        = acc.2.1 ++ ts.filter (fun t => !off t.user && (t.dir = .download && downloadWanted t))
  | [], acc => by simp
  | t :: ts, acc => by
    rw [List.foldl_cons, sched_downloads off up ts]
    unfold schedStep
    cases hoff : off t.user
    · cases hd : t.dir
      · simp only [Bool.false_eq_true, if_false]
        rw [List.filter_cons_of_neg (by simp [hd])]
        split
        · rfl
        · split
          · rfl
          · split <;> rfl
      · cases hw : downloadWanted t
        · simp [hoff, hd, hw]
        · simp [hoff, hd, hw]
    · simp [hoff]

theorem eligible_downloads (off : Str → Bool) (ts : List Transfer) :
    (eligible off ts).1 = ts.filter (fun t => !off t.user && (t.dir = .download && downloadWanted t)) := by
  unfold eligible
  rw [sched_downloads]; rfl

/-- upload side of the loop: what the accumulator satisfies at the end -/
theorem sched_uploads (off : Str → Bool) (up : List Str) :
    ∀ (ts : List Transfer) (acc : SchedAcc),
      let r := ts.foldl (schedStep off up) acc
      (∀ u ∈ acc.1, u ∈ r.1) ∧
      (∀ t ∈ ts, off t.user = false → t.dir = .upload → t.user ∉ up → t.state = .queued → t.user ∈ r.1) ∧
      ((∀ u ∈ acc.1, ∃ t' ∈ acc.2.2, t'.user = u) → ∀ u ∈ r.1, ∃ t' ∈ r.2.2, t'.user = u) ∧
      (∀ t' ∈ r.2.2, t' ∈ acc.2.2 ∨ (t' ∈ ts ∧ off t'.user = false ∧ t'.dir = .upload ∧ t'.state = .queued ∧ t'.user ∉ up))
  | [], acc => by simp
  | t :: ts, acc => by
    intro r
    have ih := sched_uploads off up ts (schedStep off up acc t)
    simp only at ih
    obtain ⟨i1, i2, i3, i4⟩ := ih
    have hr : r = ts.foldl (schedStep off up) (schedStep off up acc t) := rfl
    -- facts about one step
    have s1 : ∀ u ∈ acc.1, u ∈ (schedStep off up acc t).1 := by
      intro u hu; unfold schedStep
      split
      · exact hu
      · split
        · split
          · exact hu
          · split
            · exact hu
            · split
              · exact List.mem_cons_of_mem _ hu
              · exact hu
        · split <;> exact hu
    have s2 : off t.user = false → t.dir = .upload → t.user ∉ up → t.state = .queued →
        t.user ∈ (schedStep off up acc t).1 := by
      intro h1 h2 h3 h4; unfold schedStep
      simp only [h1, h2, h3, h4, Bool.false_eq_true, if_false, if_true]
      split
      · assumption
      · exact List.mem_cons_self
    have s3 : (∀ u ∈ acc.1, ∃ t' ∈ acc.2.2, t'.user = u) →
        ∀ u ∈ (schedStep off up acc t).1, ∃ t' ∈ (schedStep off up acc t).2.2, t'.user = u := by
      intro h u; unfold schedStep
      split
      · exact h u
      · split
        · split
          · exact h u
          · split
            · exact h u
            · split
              · intro hu
                rcases List.mem_cons.1 hu with rfl | hu
                · exact ⟨t, by simp, rfl⟩
                · obtain ⟨t', ht', e⟩ := h u hu
                  exact ⟨t', by simp [ht'], e⟩
              · exact h u
        · split <;> exact h u
    have s4 : ∀ t' ∈ (schedStep off up acc t).2.2, t' ∈ acc.2.2 ∨
        (t' = t ∧ off t.user = false ∧ t.dir = .upload ∧ t.state = .queued ∧ t.user ∉ up) := by
      intro t'; unfold schedStep
      split
      · exact .inl
      · rename_i hoff
        split
        · rename_i hd
          split
          · exact .inl
          · rename_i hup
            split
            · exact .inl
            · split
              · rename_i hq
                intro h
                rcases List.mem_append.1 h with h | h
                · exact .inl h
                · exact .inr ⟨by simpa using h, by simpa using hoff, hd, hq, hup⟩
              · exact .inl
        · split <;> exact .inl
    refine ⟨fun u hu => hr ▸ i1 u (s1 u hu), ?_, fun h => hr ▸ i3 (s3 h), ?_⟩
    · intro x hx h1 h2 h3 h4
      rcases List.mem_cons.1 hx with rfl | hx
      · exact hr ▸ i1 _ (s2 h1 h2 h3 h4)
      · exact hr ▸ i2 x hx h1 h2 h3 h4
    · intro t' ht'
      rcases i4 t' (hr ▸ ht') with h | ⟨h, rest⟩
      · rcases s4 t' h with h | ⟨rfl, rest⟩
        · exact .inl h
        · exact .inr ⟨List.mem_cons_self, rest⟩
      · exact .inr ⟨List.mem_cons_of_mem _ h, rest⟩

end AioslskVerif.Cache
