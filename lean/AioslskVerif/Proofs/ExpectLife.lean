import AioslskVerif.Proofs.Expect
/-!
Helper lemmas for C12 (round 5): **what ends a request**.  A pending request leaves the pending state only by one of
its own events — the completion loop of a message that matches it, its timeout, a cancellation of the request or of its
caller, the failure of its own `send` — and by nothing else that happens meanwhile: connections being closed, opened,
lost (`connState`), other requests, other messages, scheduled callbacks.
-/
namespace AioslskVerif.Expect

/-- the events of request `k` (whose record is `w`) itself, in state `s` -/
def OwnEvent (s : State) (k : Nat) (w : Waiter) (op : Op) : Prop :=
  op = .timeout k ∨ op = .cancelTask k ∨ op = .cancelFut k ∨ (∃ c, op = .sendFails k c) ∨
  (∃ h hd, op = .finish h ∧ s.hs[h]? = some hd ∧ hd.done = false ∧ w.m.matches hd.μ = true)

/-- the request is as pending as before: still pending, same matcher, still awaited if it was, the caller's timeout
neither fired nor disarmed, nobody cancelled the caller -/
def Kept (w x : Waiter) : Prop :=
  x.fut = .pending ∧ x.m = w.m ∧ (w.awaiting = true → x.awaiting = true) ∧ x.expired = w.expired ∧
  x.cancelReq = w.cancelReq

theorem Kept.trans {w x y : Waiter} (h1 : Kept w x) (h2 : Kept x y) : Kept w y :=
  ⟨h2.1, h2.2.1.trans h1.2.1, fun h => h2.2.2.1 (h1.2.2.1 h), h2.2.2.2.1.trans h1.2.2.2.1,
   h2.2.2.2.2.trans h1.2.2.2.2⟩

/-- one step that is not one of the request's own events leaves it pending -/
theorem step_pending_kept {s : State} (hi : Inv s) (op : Op) {k : Nat} {w : Waiter} (hk : s.ws[k]? = some w)
    (hp : w.fut = .pending) (hno : ¬ OwnEvent s k w op) :
    ∃ w', (step s op).ws[k]? = some w' ∧ Kept w w' := by
  have hlt : k < s.ws.length := (List.getElem?_eq_some_iff.mp hk).1
  have krefl : Kept w w := ⟨hp, rfl, fun h => h, rfl, rfl⟩
  have same : ∃ w', s.ws[k]? = some w' ∧ Kept w w' := ⟨w, hk, krefl⟩
  -- the new list is `s.ws.set j x`: either `j ≠ k`, or `x` is as pending as `w`
  have viaSet : ∀ (j : Nat) (x : Waiter), (j = k → Kept w x) →
      ∃ w', (s.ws.set j x)[k]? = some w' ∧ Kept w w' := by
    intro j x hx
    rcases set_get (j := j) (x := x) hk with ⟨hj, h⟩ | ⟨_, h⟩
    · exact ⟨x, h, hx hj⟩
    · exact ⟨w, h, krefl⟩
  cases op with
  | create kd m =>
    refine ⟨w, ?_, krefl⟩
    simp only [step]
    exact (List.getElem?_append_left hlt).trans hk
  | arrive c μ => exact same
  | connState c b => exact same
  | awaitF j =>
    simp only [step]
    cases hj : s.ws[j]? with
    | none => exact same
    | some wj =>
      simp only
      by_cases hs : wj.started = true
      · simp only [hs, if_true]; exact same
      · simp only [hs]
        by_cases hjk : j = k
        · subst hjk
          rw [hk] at hj; cases hj
          simp only [hp, State.put]
          exact viaSet j _ (fun _ => ⟨by first | rfl | simp [hp], rfl, fun _ => rfl, rfl, rfl⟩)
        · cases hf : wj.fut <;> simp only [State.put] <;> exact viaSet j _ (fun h => absurd h hjk)
  | finish h =>
    simp only [step]
    cases hh : s.hs[h]? with
    | none => exact same
    | some hd =>
      simp only
      by_cases hdn : hd.done = true
      · simp only [hdn, if_true]; exact same
      · have hdf : hd.done = false := by simpa using hdn
        simp only [hdf, Bool.false_eq_true, if_false, deliver_eq, List.getElem?_map, hk]
        have hnh : ¬ hit hd.μ w = true := fun hh' =>
          hno (Or.inr (Or.inr (Or.inr (Or.inr ⟨h, hd, rfl, hh, hdf, (hit_pending hh').2.2⟩))))
        have hw : resolveW hd.μ h w = w := by simp [resolveW, hnh]
        exact ⟨_, rfl, by rw [hw]; exact krefl⟩
  | timeout j =>
    have hjk : j ≠ k := fun h => hno (Or.inl (by rw [h]))
    simp only [step]
    cases hj : s.ws[j]? with
    | none => exact same
    | some wj =>
      simp only
      by_cases hc : (wj.awaiting && !wj.expired) = true
      · simp only [hc, if_true, State.put]
        exact viaSet j _ (fun h => absurd h hjk)
      · simp only [hc]; exact same
  | cancelTask j =>
    have hjk : j ≠ k := fun h => hno (Or.inr (Or.inl (by rw [h])))
    simp only [step]
    cases hj : s.ws[j]? with
    | none => exact same
    | some wj =>
      simp only
      by_cases hc : wj.awaiting = true
      · simp only [hc, if_true, State.put]
        exact viaSet j _ (fun h => absurd h hjk)
      · simp only [hc]; exact same
  | cancelFut j =>
    have hjk : j ≠ k := fun h => hno (Or.inr (Or.inr (Or.inl (by rw [h]))))
    simp only [step]
    cases hj : s.ws[j]? with
    | none => exact same
    | some wj =>
      simp only [State.put]
      exact viaSet j _ (fun h => absurd h hjk)
  | sendFails j c =>
    have hjk : j ≠ k := fun h => hno (Or.inr (Or.inr (Or.inr (Or.inl ⟨c, by rw [h]⟩))))
    simp only [step]
    cases hj : s.ws[j]? with
    | none => exact same
    | some wj =>
      simp only
      by_cases hc : (decide (wj.kind = .exec) && !wj.started) = true
      · simp only [hc, if_true, State.put]
        exact viaSet j _ (fun h => absurd h hjk)
      · simp only [hc]; exact same
  | cb =>
    simp only [step]
    cases hq : s.cbq with
    | nil => exact same
    | cons c q =>
      cases c with
      | remove j =>
        simp only
        cases hj : s.ws[j]? with
        | none => exact same
        | some wj =>
          simp only
          refine viaSet j _ (fun hjk => ?_)
          subst hjk
          rw [hk] at hj; cases hj
          exact ⟨hp, rfl, fun h => h, rfl, rfl⟩
      | wake j =>
        simp only
        cases hj : s.ws[j]? with
        | none => exact same
        | some wj =>
          simp only [State.put]
          refine viaSet j _ (fun hjk => ?_)
          subst hjk
          rw [hk] at hj; cases hj
          -- a pending request: its caller's timeout has not fired and nobody cancelled the caller (invariant)
          have h0 := hi.w _ _ hk
          have he : w.expired = false := by
            cases hx : w.expired with
            | false => rfl
            | true => exact absurd hp (h0.2.2.2.1 hx).1
          have hc : w.cancelReq = false := by
            cases hx : w.cancelReq with
            | false => rfl
            | true => exact absurd hp (h0.2.2.2.2.2.2.2.2.2.2 hx)
          have hw : (wakeW j w).1 = w := by
            unfold wakeW
            cases ha : w.awaiting <;> simp [hc, he, hp]
          rw [hw]; exact krefl

/-- no event of request `k`'s own in the op list, run from state `s` -/
def NoOwnEvent (k : Nat) : State → List Op → Prop
  | _, [] => True
  | s, op :: rest => (∀ w, s.ws[k]? = some w → ¬ OwnEvent s k w op) ∧ NoOwnEvent k (step s op) rest

theorem kept_foldl (l : List Op) : ∀ (s : State) (k : Nat) (w : Waiter), Inv s → s.ws[k]? = some w →
    w.fut = .pending → NoOwnEvent k s l → ∃ w', (l.foldl step s).ws[k]? = some w' ∧ Kept w w' := by
  induction l with
  | nil => intro s k w _ hk hp _; exact ⟨w, hk, hp, rfl, fun h => h, rfl, rfl⟩
  | cons op rest ih =>
    intro s k w hi hk hp hno
    obtain ⟨w1, hk1, h1⟩ := step_pending_kept hi op hk hp (hno.1 w hk)
    obtain ⟨w2, hk2, h2⟩ := ih (step s op) k w1 (inv_step hi op) hk1 h1.1 hno.2
    exact ⟨w2, hk2, h1.trans h2⟩

/-- a request that was pending and is not any more: somewhere in between is the first of its own events -/
theorem ends_by_own_event_foldl (l : List Op) : ∀ (s : State) (k : Nat) (w w' : Waiter), Inv s →
    s.ws[k]? = some w → w.fut = .pending → (l.foldl step s).ws[k]? = some w' → w'.fut ≠ .pending →
    ∃ a op b w1, l = a ++ op :: b ∧ (a.foldl step s).ws[k]? = some w1 ∧ w1.fut = .pending ∧
      OwnEvent (a.foldl step s) k w1 op := by
  induction l with
  | nil =>
    intro s k w w' _ hk hp hk' hnp
    simp only [List.foldl_nil] at hk'
    rw [hk] at hk'; cases hk'
    exact absurd hp hnp
  | cons op rest ih =>
    intro s k w w' hi hk hp hk' hnp
    by_cases hown : OwnEvent s k w op
    · exact ⟨[], op, rest, w, rfl, hk, hp, hown⟩
    · obtain ⟨w1, hk1, h1⟩ := step_pending_kept hi op hk hp hown
      obtain ⟨a, op', b, w2, he, hk2, hp2, ho2⟩ := ih (step s op) k w1 w' (inv_step hi op) hk1 h1.1 hk' hnp
      exact ⟨op :: a, op', b, w2, by rw [he]; rfl, hk2, hp2, ho2⟩

/-- connection events (any number, any connections, closing or (re)opening) are nobody's own events -/
theorem connEvents_foreign (k : Nat) (cs : List (Nat × Bool)) : ∀ s : State,
    NoOwnEvent k s (cs.map fun x => Op.connState x.1 x.2) := by
  induction cs with
  | nil => intro s; trivial
  | cons x rest ih =>
    intro s
    refine ⟨fun w _ h => ?_, ih _⟩
    rcases h with h | h | h | ⟨_, h⟩ | ⟨_, _, h, _⟩ <;> cases h

/-- running a scheduled callback changes neither `expired` nor `cancelReq` of any request -/
theorem cb_flags {s : State} {k : Nat} {w : Waiter} (hk : s.ws[k]? = some w) :
    ∃ w', (step s .cb).ws[k]? = some w' ∧ w'.expired = w.expired ∧ w'.cancelReq = w.cancelReq := by
  have same : ∃ w', s.ws[k]? = some w' ∧ w'.expired = w.expired ∧ w'.cancelReq = w.cancelReq := ⟨w, hk, rfl, rfl⟩
  have viaSet : ∀ (j : Nat) (x : Waiter), (j = k → x.expired = w.expired ∧ x.cancelReq = w.cancelReq) →
      ∃ w', (s.ws.set j x)[k]? = some w' ∧ w'.expired = w.expired ∧ w'.cancelReq = w.cancelReq := by
    intro j x hx
    rcases set_get (j := j) (x := x) hk with ⟨hj, h⟩ | ⟨_, h⟩
    · exact ⟨x, h, hx hj⟩
    · exact ⟨w, h, rfl, rfl⟩
  simp only [step]
  cases hq : s.cbq with
  | nil => exact same
  | cons c q =>
    cases c with
    | remove j =>
      simp only
      cases hj : s.ws[j]? with
      | none => exact same
      | some wj =>
        simp only
        refine viaSet j _ (fun hjk => ?_)
        subst hjk
        rw [hk] at hj; cases hj
        exact ⟨rfl, rfl⟩
    | wake j =>
      simp only
      cases hj : s.ws[j]? with
      | none => exact same
      | some wj =>
        simp only [State.put]
        refine viaSet j _ (fun hjk => ?_)
        subst hjk
        rw [hk] at hj; cases hj
        unfold wakeW
        cases hf : w.fut <;> cases hkd : w.kind <;> cases ha : w.awaiting <;> cases hc : w.cancelReq <;>
          cases he : w.expired <;> simp_all [FStatus.done, setException]

theorem cb_flags_foldl : ∀ (n : Nat) (s : State) (k : Nat) (w : Waiter), s.ws[k]? = some w →
    ∃ w', ((List.replicate n Op.cb).foldl step s).ws[k]? = some w' ∧ w'.expired = w.expired ∧
      w'.cancelReq = w.cancelReq := by
  intro n
  induction n with
  | zero => intro s k w hk; exact ⟨w, hk, rfl, rfl⟩
  | succ n ih =>
    intro s k w hk
    rw [List.replicate_succ, List.foldl_cons]
    obtain ⟨w1, hk1, he1, hc1⟩ := cb_flags hk
    obtain ⟨w2, hk2, he2, hc2⟩ := ih (step s .cb) k w1 hk1
    exact ⟨w2, hk2, he2.trans he1, hc2.trans hc1⟩

end AioslskVerif.Expect
