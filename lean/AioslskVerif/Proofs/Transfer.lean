import AioslskVerif.Model.Transfer
import AioslskVerif.Spec.TransferGraph
/-!
Helper lemmas for C03 (`Props/C03.lean`): the shape of the who-did-what trace and the invariant of
the lock/dispatch model (parametrised by soundness of the regenerated table).
-/
namespace AioslskVerif.Transfer
open AioslskVerif.Generated.Transfer AioslskVerif.Spec.Transfer

/-- What the concurrent theorems need from the regenerated table (discharged in `Props/C03.lean` by
`C03_table_sound`, so that a table that breaks it is reported as exactly that obligation). -/
def TableSound : Prop :=
  ∀ (d : Dir) (s : St) (m : Meth) (t : St) (e : List Eff), implStep d s m = some (t, e) → edge d s t = true

/-! ### Shape of the ghost trace -/

/-- what the lock is doing -/
inductive Phase
  | idle                     -- lock free
  | running (id : Nat)       -- invocation `id` owns the lock and has not yet made its transition
  | notified (id : Nat)      -- invocation `id` has made its transition, listeners are being told
deriving DecidableEq

/-- `Shape ph tr`: the trace (newest first) is a sequence of complete invocation blocks — either
`[ret id false]` alone, or effects of one `id` followed by its one event and `ret id true` —
followed, when `ph ≠ idle`, by what the invocation still in progress has done so far. -/
inductive Shape : Phase → List Item → Prop
  | nil : Shape .idle []
  | refused {tr} (id : Nat) : Shape .idle tr → Shape .idle (.ret id false :: tr)
  | start {tr} (id : Nat) : Shape .idle tr → Shape (.running id) tr
  | eff {tr} (id : Nat) (e : Eff) : Shape (.running id) tr → Shape (.running id) (.eff id e :: tr)
  | event {tr} (id : Nat) (a b : St) :
      Shape (.running id) tr → Shape (.notified id) (.event id a b :: tr)
  | done {tr} (id : Nat) : Shape (.notified id) tr → Shape .idle (.ret id true :: tr)

/-- In a well-shaped trace a refusal is never directly preceded by an effect or an event: the
item before a `ret id false` (if any) is the return of an earlier invocation. -/
theorem Shape.refusal_isolated {ph : Phase} {tr : List Item} (h : Shape ph tr) :
    ∀ pre id rest, tr = pre ++ .ret id false :: rest →
      rest = [] ∨ ∃ id' ok rest', rest = .ret id' ok :: rest' := by
  induction h with
  | nil => intro pre id rest h; cases pre <;> simp at h
  | refused id' h ih =>
    intro pre id rest heq
    cases pre with
    | nil =>
      simp only [List.nil_append, List.cons.injEq] at heq
      obtain ⟨_, rfl⟩ := heq
      cases h with
      | nil => exact Or.inl rfl
      | refused i _ => exact Or.inr ⟨i, false, _, rfl⟩
      | done i _ => exact Or.inr ⟨i, true, _, rfl⟩
    | cons p ps =>
      simp only [List.cons_append, List.cons.injEq] at heq
      exact ih ps id rest heq.2
  | start id' h ih => exact ih
  | eff id' e h ih =>
    intro pre id rest heq
    cases pre with
    | nil => simp at heq
    | cons p ps =>
      simp only [List.cons_append, List.cons.injEq] at heq
      exact ih ps id rest heq.2
  | event id' a b h ih =>
    intro pre id rest heq
    cases pre with
    | nil => simp at heq
    | cons p ps =>
      simp only [List.cons_append, List.cons.injEq] at heq
      exact ih ps id rest heq.2
  | done id' h ih =>
    intro pre id rest heq
    cases pre with
    | nil => simp at heq
    | cons p ps =>
      simp only [List.cons_append, List.cons.injEq] at heq
      exact ih ps id rest heq.2

/-! ### Invariant of the lock/dispatch model -/

/-- all listener events so far are documented edges -/
def EventsOk (d : Dir) (tr : List Item) : Prop :=
  ∀ id a b, Item.event id a b ∈ tr → edge d a b = true

def phaseOf : Option Pending → Phase
  | none => .idle
  | some p => if p.notified then .notified p.call.id else .running p.call.id

/-- Invariant: events are edges; the trace is well shaped, with the suspended lock holder (if any)
as the invocation in progress; the transition a holder has not yet made is an edge **from the
current state**. -/
structure Inv (cfg : Cfg) (x : XState) : Prop where
  events : EventsOk cfg.dir x.trace
  shape : Shape (phaseOf x.holder) x.trace
  pending : ∀ p, x.holder = some p → p.notified = false → edge cfg.dir x.cur p.target = true

theorem runEffs_inv (cfg : Cfg) (c : Call) (t : St) (effs : List Eff) :
    ∀ (force : Bool) (x : XState), EventsOk cfg.dir x.trace → Shape (.running c.id) x.trace →
      edge cfg.dir x.cur t = true → Inv cfg (runEffs cfg c t effs force x) := by
  induction effs with
  | nil =>
    intro force x hev hsh hedge
    unfold runEffs
    split
    · refine ⟨?_, ?_, ?_⟩
      · intro id a b hmem
        simp only [List.mem_cons] at hmem
        rcases hmem with h | h
        · cases h; exact hedge
        · exact hev id a b h
      · simpa [phaseOf] using Shape.event c.id x.cur t hsh
      · intro p hp hn
        simp only [Option.some.injEq] at hp
        subst hp
        simp at hn
    · refine ⟨?_, ?_, ?_⟩
      · intro id a b hmem
        simp only [List.mem_cons] at hmem
        rcases hmem with h | h | h
        · cases h
        · cases h; exact hedge
        · exact hev id a b h
      · simpa [phaseOf] using Shape.done c.id (Shape.event c.id x.cur t hsh)
      · intro p hp; simp at hp
  | cons e es ih =>
    intro force x hev hsh hedge
    unfold runEffs
    split
    · refine ⟨hev, ?_, ?_⟩
      · simpa [phaseOf] using hsh
      · intro p hp _
        simp only [Option.some.injEq] at hp
        subst hp
        exact hedge
    · apply ih
      · intro id a b hmem
        simp only [List.mem_cons] at hmem
        rcases hmem with h | h
        · cases h
        · exact hev id a b h
      · exact Shape.eff c.id e hsh
      · exact hedge

theorem grant_inv (hts : TableSound) (cfg : Cfg) (hm : cfg.mode = .current) (c : Call) (x : XState)
    (hinv : Inv cfg x) (hfree : x.holder = none) : Inv cfg (grant cfg c x) := by
  have hsh : Shape .idle x.trace := by simpa [hfree, phaseOf] using hinv.shape
  unfold grant
  split
  · refine ⟨?_, ?_, ?_⟩
    · intro id a b hmem
      simp only [List.mem_cons] at hmem
      rcases hmem with h | h
      · cases h
      · exact hinv.events id a b h
    · simpa [hfree, phaseOf] using Shape.refused c.id hsh
    · intro p hp; simp [hfree] at hp
  · next t effs heq =>
    have hd : dispatchOn cfg x c = x.cur := by simp [dispatchOn, hm]
    rw [hd] at heq
    exact runEffs_inv cfg c t effs false x hinv.events (Shape.start c.id hsh) (hts _ _ _ _ _ heq)

theorem drain_inv (hts : TableSound) (cfg : Cfg) (hm : cfg.mode = .current) (cs : List Call) :
    ∀ x : XState, Inv cfg x → x.holder = none → Inv cfg (drain cfg cs x) := by
  induction cs with
  | nil => intro x hinv _; exact ⟨hinv.events, hinv.shape, hinv.pending⟩
  | cons c cs ih =>
    intro x hinv hfree
    have hg := grant_inv hts cfg hm c x hinv hfree
    unfold drain
    dsimp only
    split
    · exact ⟨hg.events, hg.shape, hg.pending⟩
    · next hnone => exact ih _ hg hnone

theorem arrive_inv (hts : TableSound) (cfg : Cfg) (hm : cfg.mode = .current) (c : Call) (x : XState)
    (hinv : Inv cfg x) : Inv cfg (arrive cfg c x) := by
  unfold arrive
  dsimp only
  split
  · next p hp => exact ⟨hinv.events, hinv.shape, hinv.pending⟩
  · next hnone => exact drain_inv hts cfg hm _ x hinv hnone

theorem step_inv (hts : TableSound) (cfg : Cfg) (hm : cfg.mode = .current) (x : XState) (op : XOp)
    (hinv : Inv cfg x) : Inv cfg (step cfg x op) := by
  cases op with
  | create c => exact ⟨hinv.events, hinv.shape, hinv.pending⟩
  | start id =>
    simp only [step]
    split
    · exact hinv
    · exact arrive_inv hts cfg hm _ _ ⟨hinv.events, hinv.shape, hinv.pending⟩
  | call c => exact arrive_inv hts cfg hm _ _ hinv
  | resume =>
    simp only [step]
    split
    · exact hinv
    · next p hp =>
      have hr : Inv cfg (if p.notified then
            { x with holder := none, trace := .ret p.call.id true :: x.trace }
          else runEffs cfg p.call p.target p.rest true x) := by
        split
        · next hn =>
          have hsh : Shape (.notified p.call.id) x.trace := by simpa [hp, phaseOf, hn] using hinv.shape
          refine ⟨?_, ?_, ?_⟩
          · intro id a b hmem
            simp only [List.mem_cons] at hmem
            rcases hmem with h | h
            · cases h
            · exact hinv.events id a b h
          · simpa [phaseOf] using Shape.done p.call.id hsh
          · intro q hq; simp at hq
        · next hn =>
          have hn' : p.notified = false := by simpa using hn
          have hsh : Shape (.running p.call.id) x.trace := by simpa [hp, phaseOf, hn'] using hinv.shape
          exact runEffs_inv cfg p.call p.target p.rest true x hinv.events hsh (hinv.pending p hp hn')
      split
      · exact hr
      · next hnone => exact drain_inv hts cfg hm _ _ hr hnone
  | spawn => exact ⟨hinv.events, hinv.shape, hinv.pending⟩
  | setFile => exact ⟨hinv.events, hinv.shape, hinv.pending⟩
  | tick => exact ⟨hinv.events, hinv.shape, hinv.pending⟩

theorem run_inv (hts : TableSound) (cfg : Cfg) (hm : cfg.mode = .current) (ops : List XOp) :
    ∀ x : XState, Inv cfg x → Inv cfg (run cfg x ops) := by
  induction ops with
  | nil => intro x h; exact h
  | cons op ops ih => intro x h; exact ih _ (step_inv hts cfg hm x op h)

theorem init_inv (cfg : Cfg) (s : St) (f : Fields) : Inv cfg (init s f) :=
  ⟨by intro id a b h; simp [init] at h, by simpa [init, phaseOf] using Shape.nil,
   by intro p h; simp [init] at h⟩

end AioslskVerif.Transfer
