import AioslskVerif.Model.Transfer
import AioslskVerif.Spec.TransferGraph
/-!
Helper lemmas for C03 (`Props/C03.lean`): the shape of the who-did-what trace and the invariant of
the lock/dispatch model (parametrised by soundness of the regenerated table).
-/
namespace AioslskVerif.Transfer
open AioslskVerif.Generated.Transfer AioslskVerif.Spec.Transfer

/-- What the concurrent theorems need from the regenerated table (discharged in `Props/C03.lean` by
`C03_table_sound`, so that a table that breaks it is reported as exactly that obligation). -/
def TableSound : Prop :=
  ∀ (d : Dir) (s : St) (m : Meth) (t : St) (e : List Eff), implStep d s m = some (t, e) → edge d s t = true

/-! ### Shape of the ghost trace -/

/-- what the lock is doing -/
inductive Phase
  | idle                     -- lock free
  | running (id : Nat)       -- invocation `id` owns the lock and has not yet made its transition
  | notified (id : Nat)      -- invocation `id` has made its transition, listeners are being told
deriving DecidableEq

/-- `Shape ph tr`: the trace (newest first) is a sequence of complete invocation blocks — either
`[ret id false]` alone, or effects of one `id` followed by its one state change, the listener events
of that change and `ret id true`, or such a block cut short by `cancelled id` (the caller of the lock
holder was cancelled: nothing of that invocation follows) — followed, when `ph ≠ idle`, by what the
invocation still in progress has done so far. A `cancelled id` of a caller that was still *waiting* for
the lock may stand anywhere: it belongs to no block, that invocation never ran. -/
inductive Shape : Phase → List Item → Prop
  | nil : Shape .idle []
  | refused {tr} (id : Nat) : Shape .idle tr → Shape .idle (.ret id false :: tr)
  | start {tr} (id : Nat) : Shape .idle tr → Shape (.running id) tr
  | eff {tr} (id : Nat) (e : Eff) : Shape (.running id) tr → Shape (.running id) (.eff id e :: tr)
  | trans {tr} (id : Nat) (a b : St) :
      Shape (.running id) tr → Shape (.notified id) (.trans id a b :: tr)
  | event {tr} (id : Nat) (li : Nat) (a b : St) :
      Shape (.notified id) tr → Shape (.notified id) (.event id li a b :: tr)
  | done {tr} (id : Nat) : Shape (.notified id) tr → Shape .idle (.ret id true :: tr)
  | waiterCancelled {ph tr} (id : Nat) : Shape ph tr → Shape ph (.cancelled id :: tr)
  | cancelledRunning {tr} (id : Nat) : Shape (.running id) tr → Shape .idle (.cancelled id :: tr)
  | cancelledNotified {tr} (id : Nat) : Shape (.notified id) tr → Shape .idle (.cancelled id :: tr)

/-- In a well-shaped trace a refusal is never directly preceded by an effect or an event: the
item before a `ret id false` (if any) is the return — or the cancellation — of another invocation. -/
theorem Shape.refusal_isolated {ph : Phase} {tr : List Item} (h : Shape ph tr) :
    ∀ pre id rest, tr = pre ++ .ret id false :: rest →
      rest = [] ∨ (∃ id' ok rest', rest = .ret id' ok :: rest') ∨
        (∃ id' rest', rest = .cancelled id' :: rest') := by
  induction h with
  | nil => intro pre id rest h; cases pre <;> simp at h
  | refused id' h ih =>
    intro pre id rest heq
    cases pre with
    | nil =>
      simp only [List.nil_append, List.cons.injEq] at heq
      obtain ⟨_, rfl⟩ := heq
      cases h with
      | nil => exact Or.inl rfl
      | refused i _ => exact Or.inr (Or.inl ⟨i, false, _, rfl⟩)
      | done i _ => exact Or.inr (Or.inl ⟨i, true, _, rfl⟩)
      | waiterCancelled i _ => exact Or.inr (Or.inr ⟨i, _, rfl⟩)
      | cancelledRunning i _ => exact Or.inr (Or.inr ⟨i, _, rfl⟩)
      | cancelledNotified i _ => exact Or.inr (Or.inr ⟨i, _, rfl⟩)
    | cons p ps =>
      simp only [List.cons_append, List.cons.injEq] at heq
      exact ih ps id rest heq.2
  | start id' h ih => exact ih
  | eff id' e h ih =>
    intro pre id rest heq
    cases pre with
    | nil => simp at heq
    | cons p ps =>
      simp only [List.cons_append, List.cons.injEq] at heq
      exact ih ps id rest heq.2
  | trans id' a b h ih =>
    intro pre id rest heq
    cases pre with
    | nil => simp at heq
    | cons p ps =>
      simp only [List.cons_append, List.cons.injEq] at heq
      exact ih ps id rest heq.2
  | event id' li a b h ih =>
    intro pre id rest heq
    cases pre with
    | nil => simp at heq
    | cons p ps =>
      simp only [List.cons_append, List.cons.injEq] at heq
      exact ih ps id rest heq.2
  | done id' h ih =>
    intro pre id rest heq
    cases pre with
    | nil => simp at heq
    | cons p ps =>
      simp only [List.cons_append, List.cons.injEq] at heq
      exact ih ps id rest heq.2
  | waiterCancelled id' h ih =>
    intro pre id rest heq
    cases pre with
    | nil => simp at heq
    | cons p ps =>
      simp only [List.cons_append, List.cons.injEq] at heq
      exact ih ps id rest heq.2
  | cancelledRunning id' h ih =>
    intro pre id rest heq
    cases pre with
    | nil => simp at heq
    | cons p ps =>
      simp only [List.cons_append, List.cons.injEq] at heq
      exact ih ps id rest heq.2
  | cancelledNotified id' h ih =>
    intro pre id rest heq
    cases pre with
    | nil => simp at heq
    | cons p ps =>
      simp only [List.cons_append, List.cons.injEq] at heq
      exact ih ps id rest heq.2

/-! ### What the listeners are told, newest first -/

/-- the state changes in a trace, newest first -/
def transNF (tr : List Item) : List (St × St) := tr.filterMap Item.change

/-- what listener `li` was told in a trace, newest first -/
def toldNF (li : Nat) (tr : List Item) : List (St × St) := tr.filterMap (Item.toldTo li)

@[simp] theorem transNF_nil : transNF [] = [] := rfl
@[simp] theorem transNF_eff (id e tr) : transNF (.eff id e :: tr) = transNF tr := rfl
@[simp] theorem transNF_ret (id ok tr) : transNF (.ret id ok :: tr) = transNF tr := rfl
@[simp] theorem transNF_cancelled (id tr) : transNF (.cancelled id :: tr) = transNF tr := rfl
@[simp] theorem transNF_event (id l a b tr) : transNF (.event id l a b :: tr) = transNF tr := rfl
@[simp] theorem transNF_trans (id a b tr) : transNF (.trans id a b :: tr) = (a, b) :: transNF tr := rfl
@[simp] theorem toldNF_nil (li) : toldNF li [] = [] := rfl
@[simp] theorem toldNF_eff (li id e tr) : toldNF li (.eff id e :: tr) = toldNF li tr := rfl
@[simp] theorem toldNF_ret (li id ok tr) : toldNF li (.ret id ok :: tr) = toldNF li tr := rfl
@[simp] theorem toldNF_cancelled (li id tr) : toldNF li (.cancelled id :: tr) = toldNF li tr := rfl
@[simp] theorem toldNF_trans (li id a b tr) : toldNF li (.trans id a b :: tr) = toldNF li tr := rfl
theorem toldNF_event_same (li id a b tr) :
    toldNF li (.event id li a b :: tr) = (a, b) :: toldNF li tr := by
  simp [toldNF, Item.toldTo]
theorem toldNF_event_other (li l id a b tr) (h : l ≠ li) :
    toldNF li (.event id l a b :: tr) = toldNF li tr := by
  simp [toldNF, Item.toldTo, h]

/-- newest-first list of state changes that leads from `s0` to `cur` -/
def ChainNF (s0 : St) : St → List (St × St) → Prop
  | cur, [] => cur = s0
  | cur, (a, b) :: r => b = cur ∧ ChainNF s0 a r

theorem follows_append (s : St) (l : List (St × St)) (a b : St) :
    follows s (l ++ [(a, b)]) =
      match follows s l with
      | some e => if a = e then some b else none
      | none => none := by
  induction l generalizing s with
  | nil => simp [follows]
  | cons p r ih =>
    obtain ⟨a', b'⟩ := p
    simp only [List.cons_append, follows]
    split
    · exact ih b'
    · rfl

theorem ChainNF.follows {s0 : St} : ∀ {cur : St} {l : List (St × St)}, ChainNF s0 cur l →
    follows s0 l.reverse = some cur := by
  intro cur l
  induction l generalizing cur with
  | nil => intro h; simp only [ChainNF] at h; simp [Transfer.follows, h]
  | cons p r ih =>
    obtain ⟨a, b⟩ := p
    intro h
    simp only [ChainNF] at h
    rw [List.reverse_cons, follows_append, ih h.2]
    simp [h.1]

/-! ### Invariant of the lock/dispatch model -/

/-- all listener events so far are documented edges -/
def EventsOk (d : Dir) (tr : List Item) : Prop :=
  ∀ id li a b, Item.event id li a b ∈ tr → edge d a b = true

/-- all state changes so far are documented edges -/
def TransOk (d : Dir) (tr : List Item) : Prop :=
  ∀ id a b, Item.trans id a b ∈ tr → edge d a b = true

theorem EventsOk.cons {d : Dir} {tr : List Item} {it : Item} (h : EventsOk d tr)
    (hit : ∀ id li a b, it = .event id li a b → edge d a b = true) : EventsOk d (it :: tr) := by
  intro id li a b hmem
  simp only [List.mem_cons] at hmem
  rcases hmem with h' | h'
  · exact hit id li a b h'.symm
  · exact h id li a b h'

theorem TransOk.cons {d : Dir} {tr : List Item} {it : Item} (h : TransOk d tr)
    (hit : ∀ id a b, it = .trans id a b → edge d a b = true) : TransOk d (it :: tr) := by
  intro id a b hmem
  simp only [List.mem_cons] at hmem
  rcases hmem with h' | h'
  · exact hit id a b h'.symm
  · exact h id a b h'

def phaseOf : Option Pending → Phase
  | none => .idle
  | some p => if p.notified then .notified p.call.id else .running p.call.id

/-- Invariant (`s0` = the state the run started in): events and state changes are edges; the trace is
well shaped, with the suspended lock holder (if any) as the invocation in progress; the transition a
holder has not yet made is an edge **from the current state**; the state changes lead from `s0` to
the current state; every listener has been told a subsequence of the state changes, the first one all of
them; and **as long as no cancellation has cut a listener loop short** (`cuts = 0`): while no listener
loop is in progress every listener has been told exactly the state changes; while the lock holder is
suspended inside listener `pos`, the listeners up to `pos` have been told all of them and the later ones
all but the newest, which is `(old, current state)`. -/
structure Inv (cfg : Cfg) (s0 : St) (x : XState) : Prop where
  events : EventsOk cfg.dir x.trace
  transOk : TransOk cfg.dir x.trace
  shape : Shape (phaseOf x.holder) x.trace
  pending : ∀ p, x.holder = some p → p.notified = false → edge cfg.dir x.cur p.target = true
  chain : ChainNF s0 x.cur (transNF x.trace)
  quiet : x.cuts = 0 → (∀ p, x.holder = some p → p.notified = false) →
    ∀ li, li < cfg.listeners.length → toldNF li x.trace = transNF x.trace
  telling : ∀ p, x.holder = some p → p.notified = true →
    p.pos < cfg.listeners.length ∧ edge cfg.dir p.old x.cur = true ∧
    (∃ rest, transNF x.trace = (p.old, x.cur) :: rest ∧
      ∀ li, p.pos < li → (toldNF li x.trace).Sublist rest) ∧
    (x.cuts = 0 →
      (∀ li, li ≤ p.pos → toldNF li x.trace = transNF x.trace) ∧
      (∀ li, p.pos < li → li < cfg.listeners.length →
        transNF x.trace = (p.old, x.cur) :: toldNF li x.trace))
  sub : ∀ li, (toldNF li x.trace).Sublist (transNF x.trace)
  first : 0 < cfg.listeners.length → toldNF 0 x.trace = transNF x.trace
  abandonedRunning : ∀ p, x.holder = some p → p.abandoned = true → p.notified = false

theorem Inv.congr {cfg : Cfg} {s0 : St} {x y : XState} (hinv : Inv cfg s0 x) (h1 : y.cur = x.cur)
    (h2 : y.holder = x.holder) (h3 : y.trace = x.trace) (h4 : y.cuts = x.cuts) : Inv cfg s0 y := by
  obtain ⟨a, b, c, d, e, f, g, h, i, j⟩ := hinv
  exact ⟨h3 ▸ a, h3 ▸ b, h2 ▸ h3 ▸ c, h1 ▸ h2 ▸ d, h1 ▸ h3 ▸ e, h2 ▸ h3 ▸ h4 ▸ f,
    h1 ▸ h2 ▸ h3 ▸ h4 ▸ g, h3 ▸ h, h3 ▸ i, h2 ▸ j⟩

/-- pushing the cancellation of a caller that never ran changes nothing the invariant speaks of -/
theorem Inv.push_cancelled {cfg : Cfg} {s0 : St} {x y : XState} (hinv : Inv cfg s0 x) (id : Nat)
    (h1 : y.cur = x.cur) (h2 : y.holder = x.holder) (h3 : y.trace = .cancelled id :: x.trace)
    (h4 : y.cuts = x.cuts) : Inv cfg s0 y := by
  refine ⟨?_, ?_, ?_, ?_, ?_, ?_, ?_, ?_, ?_, ?_⟩
  · rw [h3]; exact hinv.events.cons (by intro _ _ _ _ h; cases h)
  · rw [h3]; exact hinv.transOk.cons (by intro _ _ _ h; cases h)
  · rw [h2, h3]; exact Shape.waiterCancelled id hinv.shape
  · rw [h1, h2]; exact hinv.pending
  · rw [h1, h3]; simpa using hinv.chain
  · rw [h2, h3, h4]; simpa using hinv.quiet
  · rw [h1, h2, h3, h4]; simpa using hinv.telling
  · rw [h3]; simpa using hinv.sub
  · rw [h3]; simpa using hinv.first
  · rw [h2]; exact hinv.abandonedRunning

theorem notifyFrom_inv (cfg : Cfg) (s0 : St) (c : Call) (old : St) :
    ∀ (gs : List Bool) (pos : Nat) (x : XState), pos + gs.length = cfg.listeners.length →
      EventsOk cfg.dir x.trace → TransOk cfg.dir x.trace → Shape (.notified c.id) x.trace →
      edge cfg.dir old x.cur = true → ChainNF s0 x.cur (transNF x.trace) →
      (∃ rest, transNF x.trace = (old, x.cur) :: rest ∧
        ∀ li, pos ≤ li → (toldNF li x.trace).Sublist rest) →
      (∀ li, (toldNF li x.trace).Sublist (transNF x.trace)) →
      (0 < pos → toldNF 0 x.trace = transNF x.trace) →
      (pos = 0 → 0 < cfg.listeners.length → transNF x.trace = (old, x.cur) :: toldNF 0 x.trace) →
      (x.cuts = 0 → (∀ li, li < pos → toldNF li x.trace = transNF x.trace) ∧
        (∀ li, pos ≤ li → li < cfg.listeners.length →
          transNF x.trace = (old, x.cur) :: toldNF li x.trace)) →
      Inv cfg s0 (notifyFrom c old gs pos x) := by
  intro gs
  induction gs with
  | nil =>
    intro pos x hlen hev htr hsh hedge hch _ hsub hfirst _ hq
    simp only [List.length_nil, Nat.add_zero] at hlen
    unfold notifyFrom
    refine ⟨?_, ?_, ?_, ?_, ?_, ?_, ?_, ?_, ?_, ?_⟩
    · exact hev.cons (by intro _ _ _ _ h; cases h)
    · exact htr.cons (by intro _ _ _ h; cases h)
    · simpa [phaseOf] using Shape.done c.id hsh
    · intro p hp; simp at hp
    · simpa using hch
    · intro hc _ li hli
      simpa using (hq hc).1 li (by omega)
    · intro p hp; simp at hp
    · intro li; simpa using hsub li
    · intro h0; simpa using hfirst (by omega)
    · intro p hp; simp at hp
  | cons g gs ih =>
    intro pos x hlen hev htr hsh hedge hch hrest hsub hfirst hfirst0 hq
    simp only [List.length_cons] at hlen
    have hev' : EventsOk cfg.dir (.event c.id pos old x.cur :: x.trace) :=
      hev.cons (by intro _ _ _ _ h; cases h; exact hedge)
    have htr' : TransOk cfg.dir (.event c.id pos old x.cur :: x.trace) :=
      htr.cons (by intro _ _ _ h; cases h)
    obtain ⟨rest, hrest1, hrest2⟩ := hrest
    have hrest' : ∃ rest, transNF (.event c.id pos old x.cur :: x.trace) = (old, x.cur) :: rest ∧
        ∀ li, pos + 1 ≤ li → (toldNF li (.event c.id pos old x.cur :: x.trace)).Sublist rest := by
      refine ⟨rest, by rw [transNF_event]; exact hrest1, ?_⟩
      intro li hli
      rw [toldNF_event_other _ _ _ _ _ _ (by omega)]
      exact hrest2 li (by omega)
    have hsub' : ∀ li, (toldNF li (.event c.id pos old x.cur :: x.trace)).Sublist
        (transNF (.event c.id pos old x.cur :: x.trace)) := by
      intro li
      by_cases h : pos = li
      · subst h
        rw [toldNF_event_same, transNF_event, hrest1]
        exact (hrest2 pos (Nat.le_refl _)).cons_cons _
      · rw [toldNF_event_other _ _ _ _ _ _ h, transNF_event]; exact hsub li
    have hfirst' : toldNF 0 (.event c.id pos old x.cur :: x.trace)
        = transNF (.event c.id pos old x.cur :: x.trace) := by
      by_cases h : pos = 0
      · subst h
        rw [toldNF_event_same, transNF_event]
        exact (hfirst0 rfl (by omega)).symm
      · rw [toldNF_event_other _ _ _ _ _ _ h, transNF_event]; exact hfirst (by omega)
    have hq' : x.cuts = 0 →
        (∀ li, li ≤ pos → toldNF li (.event c.id pos old x.cur :: x.trace)
          = transNF (.event c.id pos old x.cur :: x.trace)) ∧
        (∀ li, pos < li → li < cfg.listeners.length →
          transNF (.event c.id pos old x.cur :: x.trace)
            = (old, x.cur) :: toldNF li (.event c.id pos old x.cur :: x.trace)) := by
      intro hc
      obtain ⟨hlt, hge⟩ := hq hc
      refine ⟨?_, ?_⟩
      · intro li hli
        rcases Nat.lt_or_eq_of_le hli with h | h
        · rw [toldNF_event_other _ _ _ _ _ _ (by omega), transNF_event]; exact hlt li h
        · subst h
          rw [toldNF_event_same, transNF_event]
          exact (hge li (Nat.le_refl _) (by omega)).symm
      · intro li h1 h2
        rw [toldNF_event_other _ _ _ _ _ _ (by omega), transNF_event]
        exact hge li (by omega) h2
    unfold notifyFrom
    dsimp only
    split
    · refine ⟨hev', htr', ?_, ?_, ?_, ?_, ?_, hsub', fun _ => hfirst', ?_⟩
      · simpa [phaseOf] using Shape.event c.id pos old x.cur hsh
      · intro p hp hn
        simp only [Option.some.injEq] at hp
        subst hp
        simp at hn
      · simpa using hch
      · intro _ h li _
        have := h _ rfl
        simp at this
      · intro p hp _
        simp only [Option.some.injEq] at hp
        subst hp
        refine ⟨by dsimp only; omega, hedge, ?_, hq'⟩
        obtain ⟨r, hr1, hr2⟩ := hrest'
        exact ⟨r, hr1, fun li hli => hr2 li (by dsimp only at hli; omega)⟩
      · intro p hp ha
        simp only [Option.some.injEq] at hp
        subst hp
        simp at ha
    · refine ih (pos + 1) { x with trace := .event c.id pos old x.cur :: x.trace } (by omega) hev' htr'
        (Shape.event c.id pos old x.cur hsh) hedge (by simpa using hch) hrest' hsub' (fun _ => hfirst')
        (by intro h; omega) ?_
      intro hc
      obtain ⟨hle, hgt⟩ := hq' hc
      exact ⟨fun li hli => hle li (by omega), fun li h1 h2 => hgt li (by omega) h2⟩

theorem runEffs_inv (cfg : Cfg) (s0 : St) (c : Call) (t : St) (effs : List Eff) :
    ∀ (force : Bool) (x : XState), EventsOk cfg.dir x.trace → TransOk cfg.dir x.trace →
      Shape (.running c.id) x.trace → edge cfg.dir x.cur t = true →
      ChainNF s0 x.cur (transNF x.trace) →
      (x.cuts = 0 → ∀ li, li < cfg.listeners.length → toldNF li x.trace = transNF x.trace) →
      (∀ li, (toldNF li x.trace).Sublist (transNF x.trace)) →
      (0 < cfg.listeners.length → toldNF 0 x.trace = transNF x.trace) →
      Inv cfg s0 (runEffs cfg c t effs force x) := by
  induction effs with
  | nil =>
    intro force x hev htr hsh hedge hch hq hsub hfirst
    unfold runEffs
    apply notifyFrom_inv cfg s0 c x.cur cfg.listeners 0 _ (by simp)
    · exact hev.cons (by intro _ _ _ _ h; cases h)
    · exact htr.cons (by intro _ _ _ h; cases h; exact hedge)
    · exact Shape.trans c.id x.cur t hsh
    · exact hedge
    · show ChainNF s0 t ((x.cur, t) :: transNF x.trace)
      exact ⟨rfl, hch⟩
    · exact ⟨transNF x.trace, rfl, fun li _ => by simpa using hsub li⟩
    · intro li
      simpa using (hsub li).cons (x.cur, t)
    · intro h; omega
    · intro _ h0
      simp only [transNF_trans, toldNF_trans, hfirst h0]
    · intro hc
      refine ⟨fun li hli => by omega, ?_⟩
      intro li _ hli
      simp only [transNF_trans, toldNF_trans, hq hc li hli]
  | cons e es ih =>
    intro force x hev htr hsh hedge hch hq hsub hfirst
    unfold runEffs
    split
    · refine ⟨hev, htr, ?_, ?_, hch, fun hc _ => hq hc, ?_, hsub, hfirst, ?_⟩
      · simpa [phaseOf] using hsh
      · intro p hp _
        simp only [Option.some.injEq] at hp
        subst hp
        exact hedge
      · intro p hp hn
        simp only [Option.some.injEq] at hp
        subst hp
        simp at hn
      · intro p hp ha
        simp only [Option.some.injEq] at hp
        subst hp
        simp at ha
    · apply ih
      · exact hev.cons (by intro _ _ _ _ h; cases h)
      · exact htr.cons (by intro _ _ _ h; cases h)
      · exact Shape.eff c.id e hsh
      · exact hedge
      · simpa using hch
      · intro hc li hli; simpa using hq hc li hli
      · intro li; simpa using hsub li
      · intro h0; simpa using hfirst h0

theorem Inv.quiet_of_free {cfg : Cfg} {s0 : St} {x : XState} (hinv : Inv cfg s0 x)
    (hfree : x.holder = none) (hc : x.cuts = 0) :
    ∀ li, li < cfg.listeners.length → toldNF li x.trace = transNF x.trace :=
  hinv.quiet hc (by intro p hp; simp [hfree] at hp)

theorem grant_inv (hts : TableSound) (cfg : Cfg) (s0 : St) (hm : cfg.mode = .current) (c : Call)
    (x : XState) (hinv : Inv cfg s0 x) (hfree : x.holder = none) : Inv cfg s0 (grant cfg c x) := by
  have hsh : Shape .idle x.trace := by simpa [hfree, phaseOf] using hinv.shape
  unfold grant
  split
  · refine ⟨?_, ?_, ?_, ?_, ?_, ?_, ?_, ?_, ?_, ?_⟩
    · exact hinv.events.cons (by intro _ _ _ _ h; cases h)
    · exact hinv.transOk.cons (by intro _ _ _ h; cases h)
    · simpa [hfree, phaseOf] using Shape.refused c.id hsh
    · intro p hp; simp [hfree] at hp
    · simpa using hinv.chain
    · intro hc _ li hli; simpa using hinv.quiet_of_free hfree hc li hli
    · intro p hp; simp [hfree] at hp
    · intro li; simpa using hinv.sub li
    · intro h0; simpa using hinv.first h0
    · intro p hp; simp [hfree] at hp
  · next t effs heq =>
    have hd : dispatchOn cfg x c = x.cur := by simp [dispatchOn, hm]
    rw [hd] at heq
    exact runEffs_inv cfg s0 c t effs false x hinv.events hinv.transOk (Shape.start c.id hsh)
      (hts _ _ _ _ _ heq) hinv.chain (fun hc => hinv.quiet_of_free hfree hc) hinv.sub hinv.first

theorem drain_inv (hts : TableSound) (cfg : Cfg) (s0 : St) (hm : cfg.mode = .current)
    (cs : List Call) :
    ∀ x : XState, Inv cfg s0 x → x.holder = none → Inv cfg s0 (drain cfg cs x) := by
  induction cs with
  | nil =>
    intro x hinv _
    exact hinv.congr rfl rfl rfl rfl
  | cons c cs ih =>
    intro x hinv hfree
    have hg := grant_inv hts cfg s0 hm c x hinv hfree
    unfold drain
    dsimp only
    split
    · exact hg.congr rfl rfl rfl rfl
    · next hnone => exact ih _ hg hnone

theorem arrive_inv (hts : TableSound) (cfg : Cfg) (s0 : St) (hm : cfg.mode = .current) (c : Call)
    (x : XState) (hinv : Inv cfg s0 x) : Inv cfg s0 (arrive cfg c x) := by
  unfold arrive
  dsimp only
  split
  · next p hp => exact hinv.congr rfl rfl rfl rfl
  · next hnone => exact drain_inv hts cfg s0 hm _ x hinv hnone

/-- the tasks an abandoned (or just cancelled) lock holder waited for have ended: its block is closed -/
theorem tasksEnded_inv (cfg : Cfg) (s0 : St) (x : XState) (p : Pending) (hinv : Inv cfg s0 x)
    (hp : x.holder = some p) (hn : p.notified = false) : Inv cfg s0 (tasksEnded p x) := by
  have hsh : Shape (.running p.call.id) x.trace := by simpa [hp, phaseOf, hn] using hinv.shape
  have hq : x.cuts = 0 → ∀ li, li < cfg.listeners.length → toldNF li x.trace = transNF x.trace :=
    fun hc => hinv.quiet hc (by intro q hq; rw [hp] at hq; cases hq; exact hn)
  unfold tasksEnded
  refine ⟨?_, ?_, ?_, ?_, ?_, ?_, ?_, ?_, ?_, ?_⟩
  · exact (hinv.events.cons (by intro _ _ _ _ h; cases h)).cons (by intro _ _ _ _ h; cases h)
  · exact (hinv.transOk.cons (by intro _ _ _ h; cases h)).cons (by intro _ _ _ h; cases h)
  · simpa [phaseOf] using Shape.cancelledRunning p.call.id (Shape.eff p.call.id .cancelTasks hsh)
  · intro q hq; simp at hq
  · simpa using hinv.chain
  · intro hc _ li hli; simpa using hq hc li hli
  · intro q hq; simp at hq
  · intro li; simpa using hinv.sub li
  · intro h0; simpa using hinv.first h0
  · intro q hq; simp at hq

/-- the caller of the suspended lock holder is cancelled -/
theorem abandon_inv (cfg : Cfg) (s0 : St) (x : XState) (p : Pending) (hinv : Inv cfg s0 x)
    (hp : x.holder = some p) : Inv cfg s0 (abandon cfg p x) := by
  unfold abandon
  split
  · next hn =>
    -- inside listener `p.pos`
    have hsh : Shape (.notified p.call.id) x.trace := by simpa [hp, phaseOf, hn] using hinv.shape
    obtain ⟨hpos, _, _, hcond⟩ := hinv.telling p hp hn
    refine ⟨?_, ?_, ?_, ?_, ?_, ?_, ?_, ?_, ?_, ?_⟩
    · exact hinv.events.cons (by intro _ _ _ _ h; cases h)
    · exact hinv.transOk.cons (by intro _ _ _ h; cases h)
    · simpa [phaseOf] using Shape.cancelledNotified p.call.id hsh
    · intro q hq; simp at hq
    · simpa using hinv.chain
    · intro hc _ li hli
      dsimp only at hc
      split at hc
      · omega
      · next hlast =>
        simpa using (hcond hc).1 li (by omega)
    · intro q hq; simp at hq
    · intro li; simpa using hinv.sub li
    · intro h0; simpa using hinv.first h0
    · intro q hq; simp at hq
  · next hn =>
    have hn' : p.notified = false := by simpa using hn
    have hsh : Shape (.running p.call.id) x.trace := by simpa [hp, phaseOf, hn'] using hinv.shape
    have hq : x.cuts = 0 → ∀ li, li < cfg.listeners.length → toldNF li x.trace = transNF x.trace :=
      fun hc => hinv.quiet hc (by intro q hq; rw [hp] at hq; cases hq; exact hn')
    have plain : Inv cfg s0 { x with holder := none, trace := .cancelled p.call.id :: x.trace } := by
      refine ⟨?_, ?_, ?_, ?_, ?_, ?_, ?_, ?_, ?_, ?_⟩
      · exact hinv.events.cons (by intro _ _ _ _ h; cases h)
      · exact hinv.transOk.cons (by intro _ _ _ h; cases h)
      · simpa [phaseOf] using Shape.cancelledRunning p.call.id hsh
      · intro q hq; simp at hq
      · simpa using hinv.chain
      · intro hc _ li hli; simpa using hq hc li hli
      · intro q hq; simp at hq
      · intro li; simpa using hinv.sub li
      · intro h0; simpa using hinv.first h0
      · intro q hq; simp at hq
    split
    · split
      · -- stays the lock holder, abandoned
        refine ⟨hinv.events, hinv.transOk, ?_, ?_, hinv.chain, fun hc _ => hq hc, ?_, hinv.sub,
          hinv.first, ?_⟩
        · simpa [phaseOf, hn'] using hsh
        · intro q hq' _
          simp only [Option.some.injEq] at hq'
          subst hq'
          exact hinv.pending p hp hn'
        · intro q hq' hqn
          simp only [Option.some.injEq] at hq'
          subst hq'
          simp [hn'] at hqn
        · intro q hq' _
          simp only [Option.some.injEq] at hq'
          subst hq'
          exact hn'
      · exact tasksEnded_inv cfg s0 x p hinv hp hn'
    · exact plain

theorem step_inv (hts : TableSound) (cfg : Cfg) (s0 : St) (hm : cfg.mode = .current) (x : XState)
    (op : XOp) (hinv : Inv cfg s0 x) : Inv cfg s0 (step cfg x op) := by
  cases op with
  | create c => exact hinv.congr rfl rfl rfl rfl
  | start id =>
    simp only [step]
    split
    · exact hinv
    · exact arrive_inv hts cfg s0 hm _ _ (hinv.congr rfl rfl rfl rfl)
  | call c => exact arrive_inv hts cfg s0 hm _ _ hinv
  | resume =>
    simp only [step]
    split
    · exact hinv
    · next p hp =>
      have hr : Inv cfg s0 (if p.abandoned then tasksEnded p x
          else if p.notified then
            notifyFrom p.call p.old (cfg.listeners.drop (p.pos + 1)) (p.pos + 1) x
          else runEffs cfg p.call p.target p.rest true x) := by
        split
        · next ha => exact tasksEnded_inv cfg s0 x p hinv hp (hinv.abandonedRunning p hp ha)
        · split
          · next hn =>
            have hsh : Shape (.notified p.call.id) x.trace := by simpa [hp, phaseOf, hn] using hinv.shape
            obtain ⟨hpos, hedge, ⟨rest, hr1, hr2⟩, hcond⟩ := hinv.telling p hp hn
            apply notifyFrom_inv cfg s0 p.call p.old _ (p.pos + 1) x
              (by rw [List.length_drop]; omega) hinv.events hinv.transOk hsh hedge hinv.chain
            · exact ⟨rest, hr1, fun li hli => hr2 li (by omega)⟩
            · exact hinv.sub
            · intro _; exact hinv.first (by omega)
            · intro h; omega
            · intro hc
              obtain ⟨hle, hgt⟩ := hcond hc
              exact ⟨fun li hli => hle li (by omega), fun li h1 h2 => hgt li (by omega) h2⟩
          · next hn =>
            have hn' : p.notified = false := by simpa using hn
            have hsh : Shape (.running p.call.id) x.trace := by simpa [hp, phaseOf, hn'] using hinv.shape
            refine runEffs_inv cfg s0 p.call p.target p.rest true x hinv.events hinv.transOk hsh
              (hinv.pending p hp hn') hinv.chain (fun hc => hinv.quiet hc ?_) hinv.sub hinv.first
            intro q hq
            rw [hp] at hq
            simp only [Option.some.injEq] at hq
            subst hq
            exact hn'
      split
      · exact hr
      · next hnone => exact drain_inv hts cfg s0 hm _ _ hr hnone
  | spawn => exact hinv.congr rfl rfl rfl rfl
  | setFile => exact hinv.congr rfl rfl rfl rfl
  | tick => exact hinv.congr rfl rfl rfl rfl
  | fsFault b => exact hinv.congr rfl rfl rfl rfl
  | cancelCaller id =>
    simp only [step]
    split
    · exact hinv
    · next p hp =>
      split
      · split
        · exact hinv
        · have ha := abandon_inv cfg s0 x p hinv hp
          split
          · exact ha
          · next hnone => exact drain_inv hts cfg s0 hm _ _ ha hnone
      · split
        · exact hinv.push_cancelled id rfl rfl rfl rfl
        · exact hinv
  | reload => exact hinv

theorem run_inv (hts : TableSound) (cfg : Cfg) (s0 : St) (hm : cfg.mode = .current) (ops : List XOp) :
    ∀ x : XState, Inv cfg s0 x → Inv cfg s0 (run cfg x ops) := by
  induction ops with
  | nil => intro x h; exact h
  | cons op ops ih => intro x h; exact ih _ (step_inv hts cfg s0 hm x op h)

theorem init_inv (cfg : Cfg) (s : St) (f : Fields) : Inv cfg s (init s f) :=
  ⟨by intro id li a b h; simp [init] at h, by intro id a b h; simp [init] at h,
   by simpa [init, phaseOf] using Shape.nil, by intro p h; simp [init] at h,
   by simp [init, ChainNF], by intro _ _ li _; simp [init], by intro p h; simp [init] at h,
   by intro li; simp [init], by intro _; simp [init], by intro p h; simp [init] at h⟩

/-! ### Cancellations cut listener loops short only when they happen -/

/-- `cuts` only grows, and only `cancelCaller` makes it grow -/
def XOp.isCancel : XOp → Bool
  | .cancelCaller _ => true
  | _ => false

theorem notifyFrom_cuts (c : Call) (old : St) :
    ∀ (gs : List Bool) (pos : Nat) (x : XState), (notifyFrom c old gs pos x).cuts = x.cuts := by
  intro gs
  induction gs with
  | nil => intro pos x; rfl
  | cons g gs ih =>
    intro pos x
    unfold notifyFrom
    dsimp only
    split
    · rfl
    · rw [ih]

theorem runEffs_cuts (cfg : Cfg) (c : Call) (t : St) (effs : List Eff) :
    ∀ (force : Bool) (x : XState), (runEffs cfg c t effs force x).cuts = x.cuts := by
  induction effs with
  | nil => intro force x; unfold runEffs; rw [notifyFrom_cuts]
  | cons e es ih =>
    intro force x
    unfold runEffs
    split
    · rfl
    · rw [ih]

theorem grant_cuts (cfg : Cfg) (c : Call) (x : XState) : (grant cfg c x).cuts = x.cuts := by
  unfold grant
  split
  · rfl
  · rw [runEffs_cuts]

theorem drain_cuts (cfg : Cfg) (cs : List Call) : ∀ x : XState, (drain cfg cs x).cuts = x.cuts := by
  induction cs with
  | nil => intro x; rfl
  | cons c cs ih =>
    intro x
    unfold drain
    dsimp only
    split
    · exact grant_cuts cfg c x
    · rw [ih, grant_cuts]

theorem arrive_cuts (cfg : Cfg) (c : Call) (x : XState) : (arrive cfg c x).cuts = x.cuts := by
  unfold arrive
  dsimp only
  split
  · rfl
  · rw [drain_cuts]

theorem step_cuts_of_not_cancel (cfg : Cfg) (x : XState) (op : XOp) (h : op.isCancel = false) :
    (step cfg x op).cuts = x.cuts := by
  cases op with
  | create c => rfl
  | start id =>
    simp only [step]
    split
    · rfl
    · rw [arrive_cuts]
  | call c => simp only [step]; rw [arrive_cuts]
  | resume =>
    simp only [step]
    split
    · rfl
    · next p hp =>
      have hr : (if p.abandoned then tasksEnded p x
          else if p.notified then
            notifyFrom p.call p.old (cfg.listeners.drop (p.pos + 1)) (p.pos + 1) x
          else runEffs cfg p.call p.target p.rest true x).cuts = x.cuts := by
        split
        · rfl
        · split
          · rw [notifyFrom_cuts]
          · rw [runEffs_cuts]
      split
      · exact hr
      · rw [drain_cuts, hr]
  | spawn => rfl
  | setFile => rfl
  | tick => rfl
  | fsFault b => rfl
  | cancelCaller id => simp [XOp.isCancel] at h
  | reload => rfl

theorem run_cuts_of_no_cancel (cfg : Cfg) (ops : List XOp) (h : ops.all (fun o => !o.isCancel) = true) :
    ∀ x : XState, (run cfg x ops).cuts = x.cuts := by
  induction ops with
  | nil => intro x; rfl
  | cons op ops ih =>
    intro x
    simp only [List.all_cons, Bool.and_eq_true, Bool.not_eq_eq_eq_not, Bool.not_true] at h
    show (run cfg (step cfg x op) ops).cuts = x.cuts
    rw [ih h.2, step_cuts_of_not_cancel cfg x op h.1]

/-! ### With no listener registered nobody is told anything -/

theorem noListeners_grant (cfg : Cfg) (hl : cfg.listeners = []) (c : Call) (x : XState) :
    ∀ id li a b, Item.event id li a b ∈ (grant cfg c x).trace → Item.event id li a b ∈ x.trace := by
  have hrun : ∀ (effs : List Eff) (t : St) (force : Bool) (y : XState) id li a b,
      Item.event id li a b ∈ (runEffs cfg c t effs force y).trace → Item.event id li a b ∈ y.trace := by
    intro effs
    induction effs with
    | nil =>
      intro t force y id li a b h
      unfold runEffs at h
      rw [hl] at h
      simpa [notifyFrom] using h
    | cons e es ih =>
      intro t force y id li a b h
      unfold runEffs at h
      split at h
      · exact h
      · simpa using ih _ _ _ id li a b h
  intro id li a b h
  unfold grant at h
  split at h
  · simpa using h
  · exact hrun _ _ _ _ id li a b h

theorem noListeners_arrive_init (cfg : Cfg) (hl : cfg.listeners = []) (c : Call) (s : St) (f : Fields) :
    ∀ id li a b, Item.event id li a b ∉ (arrive cfg c (init s f)).trace := by
  intro id li a b h
  have hg := noListeners_grant cfg hl
  unfold arrive at h
  simp only [init, List.nil_append] at h
  unfold drain at h
  dsimp only at h
  split at h
  · have := hg _ _ id li a b h
    simp at this
  · unfold drain at h
    have := hg _ _ id li a b h
    simp at this

/-- a transfer read from the cache starts a new life: whatever was stored, the result is a transfer in
some state with some fields, lock free, nothing pending, empty trace -/
theorem load_is_init (cfg : Cfg) (stored : St) (f : Fields) (whole : Bool) :
    ∃ s' f', load cfg stored f whole = init s' f' := by
  unfold load
  cases stored <;> exact ⟨_, _, rfl⟩

/-! ### From the newest-first bookkeeping to the observation functions of the model -/

theorem told_eq (li : Nat) (x : XState) : told li x = (toldNF li x.trace).reverse := by
  simp only [told, toldNF, List.filterMap_reverse]

theorem transitions_eq (x : XState) : transitions x = (transNF x.trace).reverse := by
  simp only [transitions, transNF, List.filterMap_reverse]

end AioslskVerif.Transfer
