import AioslskVerif.Model.Transfer
import AioslskVerif.Spec.TransferGraph
/-!
Helper lemmas for C03 (`Props/C03.lean`): the shape of the who-did-what trace and the invariant of
the lock/dispatch model (parametrised by soundness of the regenerated table).
-/
namespace AioslskVerif.Transfer
open AioslskVerif.Generated.Transfer AioslskVerif.Spec.Transfer

/-- What the concurrent theorems need from the regenerated table (discharged in `Props/C03.lean` by
`C03_table_sound`, so that a table that breaks it is reported as exactly that obligation). -/
def TableSound : Prop :=
  ∀ (d : Dir) (s : St) (m : Meth) (t : St) (e : List Eff), implStep d s m = some (t, e) → edge d s t = true

/-! ### Shape of the ghost trace -/

/-- what the lock is doing -/
inductive Phase
  | idle                     -- lock free
  | running (id : Nat)       -- invocation `id` owns the lock and has not yet made its transition
  | notified (id : Nat)      -- invocation `id` has made its transition, listeners are being told
deriving DecidableEq

/-- `Shape ph tr`: the trace (newest first) is a sequence of complete invocation blocks — either
`[ret id false]` alone, or effects of one `id` followed by its one state change, the listener events
of that change and `ret id true` — followed, when `ph ≠ idle`, by what the invocation still in
progress has done so far. -/
inductive Shape : Phase → List Item → Prop
  | nil : Shape .idle []
  | refused {tr} (id : Nat) : Shape .idle tr → Shape .idle (.ret id false :: tr)
  | start {tr} (id : Nat) : Shape .idle tr → Shape (.running id) tr
  | eff {tr} (id : Nat) (e : Eff) : Shape (.running id) tr → Shape (.running id) (.eff id e :: tr)
  | trans {tr} (id : Nat) (a b : St) :
      Shape (.running id) tr → Shape (.notified id) (.trans id a b :: tr)
  | event {tr} (id : Nat) (li : Nat) (a b : St) :
      Shape (.notified id) tr → Shape (.notified id) (.event id li a b :: tr)
  | done {tr} (id : Nat) : Shape (.notified id) tr → Shape .idle (.ret id true :: tr)

/-- In a well-shaped trace a refusal is never directly preceded by an effect or an event: the
item before a `ret id false` (if any) is the return of an earlier invocation. -/
theorem Shape.refusal_isolated {ph : Phase} {tr : List Item} (h : Shape ph tr) :
    ∀ pre id rest, tr = pre ++ .ret id false :: rest →
      rest = [] ∨ ∃ id' ok rest', rest = .ret id' ok :: rest' := by
  induction h with
  | nil => intro pre id rest h; cases pre <;> simp at h
  | refused id' h ih =>
    intro pre id rest heq
    cases pre with
    | nil =>
      simp only [List.nil_append, List.cons.injEq] at heq
      obtain ⟨_, rfl⟩ := heq
      cases h with
      | nil => exact Or.inl rfl
      | refused i _ => exact Or.inr ⟨i, false, _, rfl⟩
      | done i _ => exact Or.inr ⟨i, true, _, rfl⟩
    | cons p ps =>
      simp only [List.cons_append, List.cons.injEq] at heq
      exact ih ps id rest heq.2
  | start id' h ih => exact ih
  | eff id' e h ih =>
    intro pre id rest heq
    cases pre with
    | nil => simp at heq
    | cons p ps =>
      simp only [List.cons_append, List.cons.injEq] at heq
      exact ih ps id rest heq.2
  | trans id' a b h ih =>
    intro pre id rest heq
    cases pre with
    | nil => simp at heq
    | cons p ps =>
      simp only [List.cons_append, List.cons.injEq] at heq
      exact ih ps id rest heq.2
  | event id' li a b h ih =>
    intro pre id rest heq
    cases pre with
    | nil => simp at heq
    | cons p ps =>
      simp only [List.cons_append, List.cons.injEq] at heq
      exact ih ps id rest heq.2
  | done id' h ih =>
    intro pre id rest heq
    cases pre with
    | nil => simp at heq
    | cons p ps =>
      simp only [List.cons_append, List.cons.injEq] at heq
      exact ih ps id rest heq.2

/-! ### What the listeners are told, newest first -/

/-- the state changes in a trace, newest first -/
def transNF (tr : List Item) : List (St × St) := tr.filterMap Item.change

/-- what listener `li` was told in a trace, newest first -/
def toldNF (li : Nat) (tr : List Item) : List (St × St) := tr.filterMap (Item.toldTo li)

@[simp] theorem transNF_nil : transNF [] = [] := rfl
@[simp] theorem transNF_eff (id e tr) : transNF (.eff id e :: tr) = transNF tr := rfl
@[simp] theorem transNF_ret (id ok tr) : transNF (.ret id ok :: tr) = transNF tr := rfl
@[simp] theorem transNF_event (id l a b tr) : transNF (.event id l a b :: tr) = transNF tr := rfl
@[simp] theorem transNF_trans (id a b tr) : transNF (.trans id a b :: tr) = (a, b) :: transNF tr := rfl
@[simp] theorem toldNF_nil (li) : toldNF li [] = [] := rfl
@[simp] theorem toldNF_eff (li id e tr) : toldNF li (.eff id e :: tr) = toldNF li tr := rfl
@[simp] theorem toldNF_ret (li id ok tr) : toldNF li (.ret id ok :: tr) = toldNF li tr := rfl
@[simp] theorem toldNF_trans (li id a b tr) : toldNF li (.trans id a b :: tr) = toldNF li tr := rfl
theorem toldNF_event_same (li id a b tr) :
    toldNF li (.event id li a b :: tr) = (a, b) :: toldNF li tr := by
  simp [toldNF, Item.toldTo]
theorem toldNF_event_other (li l id a b tr) (h : l ≠ li) :
    toldNF li (.event id l a b :: tr) = toldNF li tr := by
  simp [toldNF, Item.toldTo, h]

/-- newest-first list of state changes that leads from `s0` to `cur` -/
def ChainNF (s0 : St) : St → List (St × St) → Prop
  | cur, [] => cur = s0
  | cur, (a, b) :: r => b = cur ∧ ChainNF s0 a r

theorem follows_append (s : St) (l : List (St × St)) (a b : St) :
    follows s (l ++ [(a, b)]) =
      match follows s l with
      | some e => if a = e then some b else none
      | none => none := by
  induction l generalizing s with
  | nil => simp [follows]
  | cons p r ih =>
    obtain ⟨a', b'⟩ := p
    simp only [List.cons_append, follows]
    split
    · exact ih b'
    · rfl

theorem ChainNF.follows {s0 : St} : ∀ {cur : St} {l : List (St × St)}, ChainNF s0 cur l →
    follows s0 l.reverse = some cur := by
  intro cur l
  induction l generalizing cur with
  | nil => intro h; simp only [ChainNF] at h; simp [Transfer.follows, h]
  | cons p r ih =>
    obtain ⟨a, b⟩ := p
    intro h
    simp only [ChainNF] at h
    rw [List.reverse_cons, follows_append, ih h.2]
    simp [h.1]

/-! ### Invariant of the lock/dispatch model -/

/-- all listener events so far are documented edges -/
def EventsOk (d : Dir) (tr : List Item) : Prop :=
  ∀ id li a b, Item.event id li a b ∈ tr → edge d a b = true

/-- all state changes so far are documented edges -/
def TransOk (d : Dir) (tr : List Item) : Prop :=
  ∀ id a b, Item.trans id a b ∈ tr → edge d a b = true

def phaseOf : Option Pending → Phase
  | none => .idle
  | some p => if p.notified then .notified p.call.id else .running p.call.id

/-- Invariant (`s0` = the state the run started in): events and state changes are edges; the trace is
well shaped, with the suspended lock holder (if any) as the invocation in progress; the transition a
holder has not yet made is an edge **from the current state**; the state changes lead from `s0` to
the current state; while no listener loop is in progress every listener has been told exactly the
state changes; while the lock holder is suspended inside listener `pos`, the listeners up to `pos`
have been told all of them and the later ones all but the newest, which is `(old, current state)`. -/
structure Inv (cfg : Cfg) (s0 : St) (x : XState) : Prop where
  events : EventsOk cfg.dir x.trace
  transOk : TransOk cfg.dir x.trace
  shape : Shape (phaseOf x.holder) x.trace
  pending : ∀ p, x.holder = some p → p.notified = false → edge cfg.dir x.cur p.target = true
  chain : ChainNF s0 x.cur (transNF x.trace)
  quiet : (∀ p, x.holder = some p → p.notified = false) →
    ∀ li, li < cfg.listeners.length → toldNF li x.trace = transNF x.trace
  telling : ∀ p, x.holder = some p → p.notified = true →
    p.pos < cfg.listeners.length ∧ edge cfg.dir p.old x.cur = true ∧
    (∀ li, li ≤ p.pos → toldNF li x.trace = transNF x.trace) ∧
    (∀ li, p.pos < li → li < cfg.listeners.length →
      transNF x.trace = (p.old, x.cur) :: toldNF li x.trace)

theorem notifyFrom_inv (cfg : Cfg) (s0 : St) (c : Call) (old : St) :
    ∀ (gs : List Bool) (pos : Nat) (x : XState), pos + gs.length = cfg.listeners.length →
      EventsOk cfg.dir x.trace → TransOk cfg.dir x.trace → Shape (.notified c.id) x.trace →
      edge cfg.dir old x.cur = true → ChainNF s0 x.cur (transNF x.trace) →
      (∀ li, li < pos → toldNF li x.trace = transNF x.trace) →
      (∀ li, pos ≤ li → li < cfg.listeners.length →
        transNF x.trace = (old, x.cur) :: toldNF li x.trace) →
      Inv cfg s0 (notifyFrom c old gs pos x) := by
  intro gs
  induction gs with
  | nil =>
    intro pos x hlen hev htr hsh hedge hch hlt hge
    simp only [List.length_nil, Nat.add_zero] at hlen
    unfold notifyFrom
    refine ⟨?_, ?_, ?_, ?_, ?_, ?_, ?_⟩
    · intro id li a b hmem
      simp only [List.mem_cons] at hmem
      rcases hmem with h | h
      · cases h
      · exact hev id li a b h
    · intro id a b hmem
      simp only [List.mem_cons] at hmem
      rcases hmem with h | h
      · cases h
      · exact htr id a b h
    · simpa [phaseOf] using Shape.done c.id hsh
    · intro p hp; simp at hp
    · simpa using hch
    · intro _ li hli
      simpa using hlt li (by omega)
    · intro p hp; simp at hp
  | cons g gs ih =>
    intro pos x hlen hev htr hsh hedge hch hlt hge
    simp only [List.length_cons] at hlen
    have hev' : EventsOk cfg.dir (.event c.id pos old x.cur :: x.trace) := by
      intro id li a b hmem
      simp only [List.mem_cons] at hmem
      rcases hmem with h | h
      · cases h; exact hedge
      · exact hev id li a b h
    have htr' : TransOk cfg.dir (.event c.id pos old x.cur :: x.trace) := by
      intro id a b hmem
      simp only [List.mem_cons] at hmem
      rcases hmem with h | h
      · cases h
      · exact htr id a b h
    have hle : ∀ li, li ≤ pos →
        toldNF li (.event c.id pos old x.cur :: x.trace) = transNF (.event c.id pos old x.cur :: x.trace) := by
      intro li hli
      rcases Nat.lt_or_eq_of_le hli with h | h
      · rw [toldNF_event_other _ _ _ _ _ _ (by omega), transNF_event]; exact hlt li h
      · subst h
        rw [toldNF_event_same, transNF_event]
        exact (hge li (Nat.le_refl _) (by omega)).symm
    have hgt : ∀ li, pos < li → li < cfg.listeners.length →
        transNF (.event c.id pos old x.cur :: x.trace)
          = (old, x.cur) :: toldNF li (.event c.id pos old x.cur :: x.trace) := by
      intro li h1 h2
      rw [toldNF_event_other _ _ _ _ _ _ (by omega), transNF_event]
      exact hge li (by omega) h2
    unfold notifyFrom
    dsimp only
    split
    · refine ⟨hev', htr', ?_, ?_, ?_, ?_, ?_⟩
      · simpa [phaseOf] using Shape.event c.id pos old x.cur hsh
      · intro p hp hn
        simp only [Option.some.injEq] at hp
        subst hp
        simp at hn
      · simpa using hch
      · intro h li _
        have := h _ rfl
        simp at this
      · intro p hp _
        simp only [Option.some.injEq] at hp
        subst hp
        exact ⟨by dsimp only; omega, hedge, hle, hgt⟩
    · refine ih (pos + 1) { x with trace := .event c.id pos old x.cur :: x.trace } (by omega) hev' htr'
        (Shape.event c.id pos old x.cur hsh) hedge (by simpa using hch) ?_ ?_
      · intro li hli; exact hle li (by omega)
      · intro li h1 h2; exact hgt li (by omega) h2

theorem runEffs_inv (cfg : Cfg) (s0 : St) (c : Call) (t : St) (effs : List Eff) :
    ∀ (force : Bool) (x : XState), EventsOk cfg.dir x.trace → TransOk cfg.dir x.trace →
      Shape (.running c.id) x.trace → edge cfg.dir x.cur t = true →
      ChainNF s0 x.cur (transNF x.trace) →
      (∀ li, li < cfg.listeners.length → toldNF li x.trace = transNF x.trace) →
      Inv cfg s0 (runEffs cfg c t effs force x) := by
  induction effs with
  | nil =>
    intro force x hev htr hsh hedge hch hq
    unfold runEffs
    apply notifyFrom_inv cfg s0 c x.cur cfg.listeners 0 _ (by simp)
    · intro id li a b hmem
      simp only [List.mem_cons] at hmem
      rcases hmem with h | h
      · cases h
      · exact hev id li a b h
    · intro id a b hmem
      simp only [List.mem_cons] at hmem
      rcases hmem with h | h
      · cases h; exact hedge
      · exact htr id a b h
    · exact Shape.trans c.id x.cur t hsh
    · exact hedge
    · show ChainNF s0 t ((x.cur, t) :: transNF x.trace)
      exact ⟨rfl, hch⟩
    · intro li hli; omega
    · intro li _ hli
      simp only [transNF_trans, toldNF_trans, hq li hli]
  | cons e es ih =>
    intro force x hev htr hsh hedge hch hq
    unfold runEffs
    split
    · refine ⟨hev, htr, ?_, ?_, hch, fun _ => hq, ?_⟩
      · simpa [phaseOf] using hsh
      · intro p hp _
        simp only [Option.some.injEq] at hp
        subst hp
        exact hedge
      · intro p hp hn
        simp only [Option.some.injEq] at hp
        subst hp
        simp at hn
    · apply ih
      · intro id li a b hmem
        simp only [List.mem_cons] at hmem
        rcases hmem with h | h
        · cases h
        · exact hev id li a b h
      · intro id a b hmem
        simp only [List.mem_cons] at hmem
        rcases hmem with h | h
        · cases h
        · exact htr id a b h
      · exact Shape.eff c.id e hsh
      · exact hedge
      · simpa using hch
      · intro li hli; simpa using hq li hli

theorem Inv.quiet_of_free {cfg : Cfg} {s0 : St} {x : XState} (hinv : Inv cfg s0 x)
    (hfree : x.holder = none) :
    ∀ li, li < cfg.listeners.length → toldNF li x.trace = transNF x.trace :=
  hinv.quiet (by intro p hp; simp [hfree] at hp)

theorem grant_inv (hts : TableSound) (cfg : Cfg) (s0 : St) (hm : cfg.mode = .current) (c : Call)
    (x : XState) (hinv : Inv cfg s0 x) (hfree : x.holder = none) : Inv cfg s0 (grant cfg c x) := by
  have hsh : Shape .idle x.trace := by simpa [hfree, phaseOf] using hinv.shape
  unfold grant
  split
  · refine ⟨?_, ?_, ?_, ?_, ?_, ?_, ?_⟩
    · intro id li a b hmem
      simp only [List.mem_cons] at hmem
      rcases hmem with h | h
      · cases h
      · exact hinv.events id li a b h
    · intro id a b hmem
      simp only [List.mem_cons] at hmem
      rcases hmem with h | h
      · cases h
      · exact hinv.transOk id a b h
    · simpa [hfree, phaseOf] using Shape.refused c.id hsh
    · intro p hp; simp [hfree] at hp
    · simpa using hinv.chain
    · intro _ li hli; simpa using hinv.quiet_of_free hfree li hli
    · intro p hp; simp [hfree] at hp
  · next t effs heq =>
    have hd : dispatchOn cfg x c = x.cur := by simp [dispatchOn, hm]
    rw [hd] at heq
    exact runEffs_inv cfg s0 c t effs false x hinv.events hinv.transOk (Shape.start c.id hsh)
      (hts _ _ _ _ _ heq) hinv.chain (hinv.quiet_of_free hfree)

theorem drain_inv (hts : TableSound) (cfg : Cfg) (s0 : St) (hm : cfg.mode = .current)
    (cs : List Call) :
    ∀ x : XState, Inv cfg s0 x → x.holder = none → Inv cfg s0 (drain cfg cs x) := by
  induction cs with
  | nil =>
    intro x hinv _
    exact ⟨hinv.events, hinv.transOk, hinv.shape, hinv.pending, hinv.chain, hinv.quiet, hinv.telling⟩
  | cons c cs ih =>
    intro x hinv hfree
    have hg := grant_inv hts cfg s0 hm c x hinv hfree
    unfold drain
    dsimp only
    split
    · exact ⟨hg.events, hg.transOk, hg.shape, hg.pending, hg.chain, hg.quiet, hg.telling⟩
    · next hnone => exact ih _ hg hnone

theorem arrive_inv (hts : TableSound) (cfg : Cfg) (s0 : St) (hm : cfg.mode = .current) (c : Call)
    (x : XState) (hinv : Inv cfg s0 x) : Inv cfg s0 (arrive cfg c x) := by
  unfold arrive
  dsimp only
  split
  · next p hp =>
    exact ⟨hinv.events, hinv.transOk, hinv.shape, hinv.pending, hinv.chain, hinv.quiet, hinv.telling⟩
  · next hnone => exact drain_inv hts cfg s0 hm _ x hinv hnone

theorem step_inv (hts : TableSound) (cfg : Cfg) (s0 : St) (hm : cfg.mode = .current) (x : XState)
    (op : XOp) (hinv : Inv cfg s0 x) : Inv cfg s0 (step cfg x op) := by
  have same : ∀ y : XState, y.cur = x.cur → y.holder = x.holder → y.trace = x.trace → Inv cfg s0 y := by
    intro y h1 h2 h3
    obtain ⟨a, b, c, d, e, f, g⟩ := hinv
    exact ⟨h3 ▸ a, h3 ▸ b, h2 ▸ h3 ▸ c, h1 ▸ h2 ▸ d, h1 ▸ h3 ▸ e, h2 ▸ h3 ▸ f, h1 ▸ h2 ▸ h3 ▸ g⟩
  cases op with
  | create c => exact same _ rfl rfl rfl
  | start id =>
    simp only [step]
    split
    · exact hinv
    · exact arrive_inv hts cfg s0 hm _ _ (same _ rfl rfl rfl)
  | call c => exact arrive_inv hts cfg s0 hm _ _ hinv
  | resume =>
    simp only [step]
    split
    · exact hinv
    · next p hp =>
      have hr : Inv cfg s0 (if p.notified then
            notifyFrom p.call p.old (cfg.listeners.drop (p.pos + 1)) (p.pos + 1) x
          else runEffs cfg p.call p.target p.rest true x) := by
        split
        · next hn =>
          have hsh : Shape (.notified p.call.id) x.trace := by simpa [hp, phaseOf, hn] using hinv.shape
          obtain ⟨hpos, hedge, hle, hgt⟩ := hinv.telling p hp hn
          apply notifyFrom_inv cfg s0 p.call p.old _ (p.pos + 1) x
            (by rw [List.length_drop]; omega) hinv.events hinv.transOk hsh hedge hinv.chain
          · intro li hli; exact hle li (by omega)
          · intro li h1 h2; exact hgt li (by omega) h2
        · next hn =>
          have hn' : p.notified = false := by simpa using hn
          have hsh : Shape (.running p.call.id) x.trace := by simpa [hp, phaseOf, hn'] using hinv.shape
          refine runEffs_inv cfg s0 p.call p.target p.rest true x hinv.events hinv.transOk hsh
            (hinv.pending p hp hn') hinv.chain (hinv.quiet ?_)
          intro q hq
          rw [hp] at hq
          simp only [Option.some.injEq] at hq
          subst hq
          exact hn'
      split
      · exact hr
      · next hnone => exact drain_inv hts cfg s0 hm _ _ hr hnone
  | spawn => exact same _ rfl rfl rfl
  | setFile => exact same _ rfl rfl rfl
  | tick => exact same _ rfl rfl rfl

theorem run_inv (hts : TableSound) (cfg : Cfg) (s0 : St) (hm : cfg.mode = .current) (ops : List XOp) :
    ∀ x : XState, Inv cfg s0 x → Inv cfg s0 (run cfg x ops) := by
  induction ops with
  | nil => intro x h; exact h
  | cons op ops ih => intro x h; exact ih _ (step_inv hts cfg s0 hm x op h)

theorem init_inv (cfg : Cfg) (s : St) (f : Fields) : Inv cfg s (init s f) :=
  ⟨by intro id li a b h; simp [init] at h, by intro id a b h; simp [init] at h,
   by simpa [init, phaseOf] using Shape.nil, by intro p h; simp [init] at h,
   by simp [init, ChainNF], by intro _ li _; simp [init], by intro p h; simp [init] at h⟩

/-! ### From the newest-first bookkeeping to the observation functions of the model -/

theorem told_eq (li : Nat) (x : XState) : told li x = (toldNF li x.trace).reverse := by
  simp only [told, toldNF, List.filterMap_reverse]

theorem transitions_eq (x : XState) : transitions x = (transNF x.trace).reverse := by
  simp only [transitions, transNF, List.filterMap_reverse]

end AioslskVerif.Transfer
