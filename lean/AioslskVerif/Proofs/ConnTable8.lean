import AioslskVerif.Proofs.ConnBase
/-! The step table of `Proofs/ConnBase.lean` for connections of origin `server`, type F, by kernel evaluation. -/
namespace AioslskVerif.Conn

theorem table_server_F : tableFor .server true = true := by decide +kernel

end AioslskVerif.Conn
