import AioslskVerif.Proofs.Transfer
/-!
File-system faults (`XOp.fsFault`) change only what becomes of the file: helper lemmas for
`C03_fs_faults_change_only_the_file` (Props/C03.lean). `calm` erases the two facts about the file system
(`fsBroken`, `fileExists`); every function of the model commutes with it.
-/
namespace AioslskVerif.Transfer
open AioslskVerif.Generated.Transfer

/-- the fields without the two facts about the file system -/
def calmF (f : Fields) : Fields := { f with fsBroken := false, fileExists := false }

/-- the state without the two facts about the file system -/
def calm (x : XState) : XState := { x with f := calmF x.f }

theorem calm_cases {x y : XState} (h : calm x = calm y) :
    ∃ f', calmF f' = calmF y.f ∧ x = { y with f := f' } := by
  refine ⟨x.f, congrArg XState.f h, ?_⟩
  cases x; cases y
  simp only [calm, XState.mk.injEq] at h ⊢
  obtain ⟨h1, -, h3, h4, h5, h6, h7, h8⟩ := h
  subst_vars
  simp

theorem calm_of {y : XState} {f' : Fields} (hf : calmF f' = calmF y.f) :
    calm { y with f := f' } = calm y := by
  simp only [calm, hf]

theorem blocks_calmF (cfg : Cfg) (f : Fields) (e : Eff) : blocks cfg (calmF f) e = blocks cfg f e := by
  cases e <;> rfl

theorem blocks_congr (cfg : Cfg) {f f' : Fields} (h : calmF f' = calmF f) (e : Eff) :
    blocks cfg f' e = blocks cfg f e := by
  rw [← blocks_calmF cfg f', ← blocks_calmF cfg f, h]

theorem applyEff_calmF (cfg : Cfg) (c : Call) (now : Nat) (f : Fields) (e : Eff) :
    calmF (applyEff cfg c now (calmF f) e) = calmF (applyEff cfg c now f e) := by
  cases e <;> (try rfl)
  · cases hd : cfg.dir <;> cases hl : f.localPath <;> simp [applyEff, calmF, hd, hl]
  · cases hs : f.startTime <;> simp [applyEff, calmF, hs]

theorem applyEff_congr (cfg : Cfg) (c : Call) (now : Nat) {f f' : Fields} (h : calmF f' = calmF f) (e : Eff) :
    calmF (applyEff cfg c now f' e) = calmF (applyEff cfg c now f e) := by
  rw [← applyEff_calmF cfg c now f', ← applyEff_calmF cfg c now f, h]

theorem notifyFrom_calm (c : Call) (old : St) :
    ∀ (gs : List Bool) (pos : Nat) (x y : XState), calm x = calm y →
      calm (notifyFrom c old gs pos x) = calm (notifyFrom c old gs pos y) := by
  intro gs
  induction gs with
  | nil =>
    intro pos x y h
    obtain ⟨f', hf, rfl⟩ := calm_cases h
    simp only [notifyFrom, calm, hf]
  | cons g gs ih =>
    intro pos x y h
    obtain ⟨f', hf, rfl⟩ := calm_cases h
    unfold notifyFrom
    dsimp only
    split
    · simp only [calm, hf]
    · apply ih; simp only [calm, hf]

theorem runEffs_calm (cfg : Cfg) (c : Call) (t : St) (effs : List Eff) :
    ∀ (force : Bool) (x y : XState), calm x = calm y →
      calm (runEffs cfg c t effs force x) = calm (runEffs cfg c t effs force y) := by
  induction effs with
  | nil =>
    intro force x y h
    obtain ⟨f', hf, rfl⟩ := calm_cases h
    unfold runEffs
    apply notifyFrom_calm
    simp only [calm, hf]
  | cons e es ih =>
    intro force x y h
    obtain ⟨f', hf, rfl⟩ := calm_cases h
    unfold runEffs
    dsimp only
    rw [blocks_congr cfg hf e]
    split
    · simp only [calm, hf]
    · apply ih
      simp only [calm, applyEff_congr cfg c y.now hf e]

theorem grant_calm (cfg : Cfg) (c : Call) (x y : XState) (h : calm x = calm y) :
    calm (grant cfg c x) = calm (grant cfg c y) := by
  obtain ⟨f', hf, rfl⟩ := calm_cases h
  unfold grant dispatchOn
  dsimp only
  split
  · simp only [calm, hf]
  · exact runEffs_calm cfg c _ _ false _ _ h

theorem calm_holder {x y : XState} (h : calm x = calm y) : x.holder = y.holder := by
  show (calm x).holder = (calm y).holder
  rw [h]

theorem calm_setWaiters {x y : XState} (h : calm x = calm y) (ws : List Call) :
    calm { x with waiters := ws } = calm { y with waiters := ws } := by
  obtain ⟨f', hf, rfl⟩ := calm_cases h
  simp only [calm, hf]

theorem drain_calm (cfg : Cfg) : ∀ (cs : List Call) (x y : XState), calm x = calm y →
    calm (drain cfg cs x) = calm (drain cfg cs y) := by
  intro cs
  induction cs with
  | nil => intro x y h; exact calm_setWaiters h []
  | cons c cs ih =>
    intro x y h
    have hg := grant_calm cfg c x y h
    obtain ⟨g', hg', hgx⟩ := calm_cases hg
    unfold drain
    dsimp only
    rw [hgx]
    dsimp only
    split
    · simp only [calm, hg']
    · exact ih _ _ (calm_of hg')

/-- a step of the lock holder is over: the lock goes on to the waiters if it is free -/
theorem finish_calm (cfg : Cfg) {z1 z2 : XState} (h : calm z1 = calm z2) :
    calm (match z1.holder with | some _ => z1 | none => drain cfg z1.waiters z1) =
    calm (match z2.holder with | some _ => z2 | none => drain cfg z2.waiters z2) := by
  obtain ⟨g', hg, rfl⟩ := calm_cases h
  dsimp only
  split
  · exact h
  · exact drain_calm cfg _ _ _ h

theorem arrive_calm (cfg : Cfg) (c : Call) (x y : XState) (h : calm x = calm y) :
    calm (arrive cfg c x) = calm (arrive cfg c y) := by
  obtain ⟨f', hf, rfl⟩ := calm_cases h
  unfold arrive
  dsimp only
  split
  · simp only [calm, hf]
  · exact drain_calm cfg _ _ _ h

theorem tasksEnded_calm (p : Pending) (x y : XState) (h : calm x = calm y) :
    calm (tasksEnded p x) = calm (tasksEnded p y) := by
  obtain ⟨f', hf, rfl⟩ := calm_cases h
  have hf' : calmF { f' with tasksLive := false } = calmF { y.f with tasksLive := false } :=
    congrArg (fun g : Fields => ({ g with tasksLive := false } : Fields)) hf
  simp only [tasksEnded, calm, hf']

theorem abandon_calm (cfg : Cfg) (p : Pending) (x y : XState) (h : calm x = calm y) :
    calm (abandon cfg p x) = calm (abandon cfg p y) := by
  unfold abandon
  split
  · obtain ⟨f', hf, rfl⟩ := calm_cases h
    simp only [calm, hf]
  · split
    · split
      · obtain ⟨f', hf, rfl⟩ := calm_cases h
        simp only [calm, hf]
      · exact tasksEnded_calm p x y h
    · obtain ⟨f', hf, rfl⟩ := calm_cases h
      simp only [calm, hf]

/-- what an op does to everything but the file does not depend on the file system -/
theorem step_calm (cfg : Cfg) (x y : XState) (op : XOp) (h : calm x = calm y) :
    calm (step cfg x op) = calm (step cfg y op) := by
  obtain ⟨f', hf, rfl⟩ := calm_cases h
  cases op with
  | create c => simp only [step, calm, hf]
  | start id =>
    simp only [step]
    split
    · exact h
    · apply arrive_calm
      simp only [calm, hf]
  | call c => simp only [step]; exact arrive_calm cfg _ _ _ h
  | resume =>
    simp only [step]
    split
    · exact h
    · next p hp =>
      apply finish_calm
      split
      · exact tasksEnded_calm p _ _ h
      · split
        · exact notifyFrom_calm _ _ _ _ _ _ h
        · exact runEffs_calm cfg _ _ _ _ _ _ h
  | spawn =>
    have hf' : calmF { f' with tasksLive := true } = calmF { y.f with tasksLive := true } :=
      congrArg (fun g : Fields => ({ g with tasksLive := true } : Fields)) hf
    simp only [step, calm, hf']
  | setFile =>
    have hf' : calmF { f' with localPath := true, fileExists := true }
        = calmF { y.f with localPath := true, fileExists := true } :=
      congrArg (fun g : Fields => ({ g with localPath := true } : Fields)) hf
    simp only [step, calm, hf']
  | tick => simp only [step, calm, hf]
  | fsFault b =>
    have hf' : calmF { f' with fsBroken := b } = calmF { y.f with fsBroken := b } := hf
    simp only [step, calm, hf']
  | cancelCaller id =>
    simp only [step]
    split
    · exact h
    · next p hp =>
      split
      · split
        · exact h
        · exact finish_calm cfg (abandon_calm cfg p _ _ h)
      · split
        · simp only [calm, hf]
        · exact h
  | reload => exact h

/-- the fault itself changes nothing but the fact it is -/
theorem step_fsFault_calm (cfg : Cfg) (x : XState) (b : Bool) : calm (step cfg x (.fsFault b)) = calm x := rfl

def XOp.isFault : XOp → Bool
  | .fsFault _ => true
  | _ => false

theorem run_calm_filter (cfg : Cfg) (ops : List XOp) : ∀ x y : XState, calm x = calm y →
    calm (run cfg x ops) = calm (run cfg y (ops.filter (fun o => !o.isFault))) := by
  induction ops with
  | nil => intro x y h; exact h
  | cons op ops ih =>
    intro x y h
    show calm (run cfg (step cfg x op) ops) = _
    cases hop : op.isFault with
    | true =>
      have : ∃ b, op = .fsFault b := by cases op <;> simp [XOp.isFault] at hop; exact ⟨_, rfl⟩
      obtain ⟨b, rfl⟩ := this
      simp only [List.filter_cons, XOp.isFault, Bool.not_true, Bool.false_eq_true, if_false]
      exact ih _ _ ((step_fsFault_calm cfg x b).trans h)
    | false =>
      simp only [List.filter_cons, hop, Bool.not_false, if_true]
      show _ = calm (run cfg (step cfg y op) (ops.filter _))
      exact ih _ _ (step_calm cfg x y op h)

end AioslskVerif.Transfer
