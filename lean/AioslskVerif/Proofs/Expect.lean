import AioslskVerif.Model.Expect
/-!
Helper lemmas for C12 (`Props/C12.lean`): the matcher loop, a closed form of the completion loop,
and the invariant of the expected-response list under every operation.
-/
namespace AioslskVerif.Expect

/-! ### matcher -/

theorem fieldOk_const (μ : Msg) (f : Nat) (c : Val) :
    fieldOk μ (f, .const c) = ((μ.attr f).getD .none == c) := rfl

theorem fieldOk_pred (μ : Msg) (f : Nat) (p : Val → Bool) :
    fieldOk μ (f, .pred p) = (match μ.attr f with | none => false | some v => p v) := rfl

theorem fieldsMatch_iff (μ : Msg) (fs : List (Nat × Exp)) :
    fieldsMatch μ fs = true ↔ ∀ fe ∈ fs, fieldOk μ fe = true := by
  induction fs with
  | nil => simp [fieldsMatch]
  | cons fe rest ih =>
    obtain ⟨f, e⟩ := fe
    rw [List.forall_mem_cons, ← ih]
    cases e with
    | const c =>
      rw [fieldOk_const]
      simp only [fieldsMatch]
      by_cases h : (μ.attr f).getD .none = c <;> simp [h]
    | pred p =>
      rw [fieldOk_pred]
      simp only [fieldsMatch]
      cases h : μ.attr f with
      | none => simp
      | some v => by_cases hp : p v = true <;> simp [hp]

/-! ### closed form of the completion loop -/

/-- what the loop does to one waiter -/
def resolveW (μ : Msg) (n : Nat) (w : Waiter) : Waiter :=
  if hit μ w then { w with fut := .result n } else w

/-- callbacks scheduled by the loop -/
def cbsOf (μ : Msg) : Nat → List Waiter → List Cb
  | _, [] => []
  | k, w :: rest => (if hit μ w then doneCbs k w else []) ++ cbsOf μ (k + 1) rest

theorem hit_pending {μ : Msg} {w : Waiter} (h : hit μ w = true) :
    w.fut = .pending ∧ w.listed = true ∧ w.m.matches μ = true := by
  unfold hit at h
  simp only [Bool.and_eq_true, Bool.not_eq_true'] at h
  refine ⟨?_, h.1.1, h.2⟩
  cases hf : w.fut <;> simp [hf, FStatus.done] at h ⊢

theorem deliver_eq (μ : Msg) (n : Nat) (off : Nat) (ws : List Waiter) :
    deliver μ n off ws = (ws.map (resolveW μ n), cbsOf μ off ws, false) := by
  induction ws generalizing off with
  | nil => rfl
  | cons w rest ih =>
    unfold deliver
    by_cases h : hit μ w = true
    · have hp := (hit_pending h).1
      simp only [h, if_true, hp, setResult, ih, List.map_cons, resolveW, cbsOf]
    · simp only [h, ih, List.map_cons, resolveW, cbsOf]
      simp

theorem mem_cbsOf {μ : Msg} {c : Cb} {off : Nat} {ws : List Waiter} :
    c ∈ cbsOf μ off ws ↔ ∃ j w, ws[j]? = some w ∧ hit μ w = true ∧ c ∈ doneCbs (off + j) w := by
  induction ws generalizing off with
  | nil => simp [cbsOf]
  | cons w rest ih =>
    simp only [cbsOf, List.mem_append, ih]
    constructor
    · rintro (h | ⟨j, w', hj, hh, hc⟩)
      · by_cases hw : hit μ w = true
        · exact ⟨0, w, by simp, hw, by simpa [hw] using h⟩
        · simp [hw] at h
      · exact ⟨j + 1, w', by simpa using hj, hh, by rw [← Nat.add_assoc, Nat.add_right_comm]; exact hc⟩
    · rintro ⟨j, w', hj, hh, hc⟩
      cases j with
      | zero =>
        simp at hj; subst hj
        left; simpa [hh] using hc
      | succ j =>
        right
        exact ⟨j, w', by simpa using hj, hh, by rw [Nat.add_right_comm, Nat.add_assoc]; exact hc⟩

/-! ### the invariant -/

/-- what holds of the waiter with identity `k` when `q` is the queue of scheduled callbacks -/
def WInv (q : List Cb) (k : Nat) (w : Waiter) : Prop :=
  (w.fut = .pending → w.listed = true) ∧
  (w.listed = true → w.fut ≠ .pending → Cb.remove k ∈ q) ∧
  (w.awaiting = true → w.fut ≠ .pending → Cb.wake k ∈ q) ∧
  (w.expired = true → w.fut ≠ .pending ∧ w.started = true) ∧
  (w.started = true → w.out = .none → w.awaiting = true) ∧
  (w.out ≠ .none → w.started = true ∧ w.awaiting = false) ∧
  (w.awaiting = true → w.started = true) ∧
  (w.expired = true → w.cancelReq = false → w.out = .none ∨ w.out = .timeout) ∧
  w.out ≠ .invalidState ∧
  (w.out ≠ .none → w.fut ≠ .pending) ∧
  (w.cancelReq = true → w.fut ≠ .pending)

structure Inv (s : State) : Prop where
  w : ∀ k w, s.ws[k]? = some w → WInv s.cbq k w
  q : ∀ j, Cb.remove j ∈ s.cbq → ∃ w, s.ws[j]? = some w ∧ w.fut ≠ .pending
  e : s.err = 0

theorem WInv.mono {q q' : List Cb} {k : Nat} {w : Waiter} (h : WInv q k w)
    (hr : Cb.remove k ∈ q → Cb.remove k ∈ q') (hw : Cb.wake k ∈ q → Cb.wake k ∈ q') : WInv q' k w := by
  unfold WInv at *
  grind

theorem inv_update {s s' : State} {k : Nat} {w w' : Waiter} (hi : Inv s) (hk : s.ws[k]? = some w)
    (hws : s'.ws = s.ws.set k w') (herr : s'.err = 0)
    (hother : ∀ j, j ≠ k → ∀ c, (c = Cb.remove j ∨ c = Cb.wake j) → c ∈ s.cbq → c ∈ s'.cbq)
    (hw : WInv s.cbq k w → WInv s'.cbq k w')
    (hmono : w.fut ≠ .pending → w'.fut ≠ .pending)
    (hq : ∀ j, Cb.remove j ∈ s'.cbq → Cb.remove j ∈ s.cbq ∨ (j = k ∧ w'.fut ≠ .pending)) : Inv s' := by
  have hlt : k < s.ws.length := by
    have := List.getElem?_eq_some_iff.mp hk
    exact this.1
  refine ⟨?_, ?_, herr⟩
  · intro j wj hj
    rw [hws, List.getElem?_set] at hj
    by_cases hjk : k = j
    · subst hjk
      simp [hlt] at hj
      subst hj
      exact hw (hi.w _ _ hk)
    · simp [hjk] at hj
      exact (hi.w _ _ hj).mono (hother j (Ne.symm hjk) _ (Or.inl rfl)) (hother j (Ne.symm hjk) _ (Or.inr rfl))
  · intro j hj
    rw [hws, List.getElem?_set]
    rcases hq j hj with h | ⟨rfl, h⟩
    · obtain ⟨wj, hwj, hd⟩ := hi.q j h
      by_cases hjk : k = j
      · subst hjk
        rw [hk] at hwj; cases hwj
        exact ⟨w', by simp [hlt], hmono hd⟩
      · exact ⟨wj, by simp [hjk, hwj], hd⟩
    · exact ⟨w', by simp [hlt], h⟩

theorem inv_put {s : State} {k : Nat} {w w' : Waiter} {cbs : List Cb} (hi : Inv s) (hk : s.ws[k]? = some w)
    (hw : WInv s.cbq k w → WInv (s.cbq ++ cbs) k w')
    (hmono : w.fut ≠ .pending → w'.fut ≠ .pending)
    (hq : ∀ j, Cb.remove j ∈ cbs → j = k ∧ w'.fut ≠ .pending) : Inv (s.put k (w', cbs)) := by
  refine inv_update (s' := s.put k (w', cbs)) hi hk rfl hi.e ?_ hw hmono ?_
  · intro j _ c _ hc
    exact List.mem_append_left _ hc
  · intro j hj
    rcases List.mem_append.mp hj with h | h
    · exact Or.inl h
    · exact Or.inr (hq j h)

theorem doneCbs_remove {j k : Nat} {w : Waiter} (h : Cb.remove j ∈ doneCbs k w) : j = k := by
  unfold doneCbs at h
  by_cases ha : w.awaiting = true <;> simp [ha] at h <;> exact h

theorem cancelW_cases (k : Nat) (w : Waiter) :
    (w.fut = .pending ∧ cancelW k w = ({ w with fut := .cancelled }, doneCbs k w)) ∨
    (w.fut ≠ .pending ∧ cancelW k w = (w, [])) := by
  unfold cancelW
  cases h : w.fut <;> simp

theorem inv_create {s : State} (hi : Inv s) (kd : Kind) (m : Matcher) : Inv (step s (.create kd m)) := by
  refine ⟨?_, ?_, hi.e⟩
  · intro k w hk
    simp only [step] at hk ⊢
    by_cases hlt : k < s.ws.length
    · rw [List.getElem?_append_left hlt] at hk
      exact hi.w _ _ hk
    · rw [List.getElem?_append_right (Nat.le_of_not_lt hlt)] at hk
      cases hkl : k - s.ws.length with
      | zero =>
        simp [hkl] at hk
        subst hk
        simp [WInv]
      | succ n => simp [hkl] at hk
  · intro j hj
    obtain ⟨w, hw, hd⟩ := hi.q j hj
    refine ⟨w, ?_, hd⟩
    simp only [step]
    have : j < s.ws.length := (List.getElem?_eq_some_iff.mp hw).1
    exact (List.getElem?_append_left this).trans hw

theorem inv_congr {s s' : State} (hi : Inv s) (hw : s'.ws = s.ws) (hq : s'.cbq = s.cbq) (he : s'.err = s.err) :
    Inv s' := by
  refine ⟨?_, ?_, by rw [he]; exact hi.e⟩
  · intro k w hk
    rw [hw] at hk; rw [hq]
    exact hi.w k w hk
  · intro j hj
    rw [hq] at hj; rw [hw]
    exact hi.q j hj

/-- the completion loop keeps the invariant -/
theorem inv_deliver {s s' : State} (hi : Inv s) (μ : Msg) (n : Nat)
    (hws : s'.ws = s.ws.map (resolveW μ n)) (hcb : s'.cbq = s.cbq ++ cbsOf μ 0 s.ws) (he : s'.err = 0) : Inv s' := by
  refine ⟨?_, ?_, he⟩
  · intro k w' hk
    rw [hws] at hk; rw [hcb]
    simp only [List.getElem?_map] at hk
    cases hw : s.ws[k]? with
    | none => simp [hw] at hk
    | some w =>
      simp [hw] at hk
      subst hk
      have h0 := hi.w _ _ hw
      by_cases hh : hit μ w = true
      · have hp := hit_pending hh
        have hr : Cb.remove k ∈ cbsOf μ 0 s.ws := mem_cbsOf.mpr ⟨k, w, hw, hh, by simp [doneCbs]⟩
        have hwk : w.awaiting = true → Cb.wake k ∈ cbsOf μ 0 s.ws := fun ha =>
          mem_cbsOf.mpr ⟨k, w, hw, hh, by simp [doneCbs, ha]⟩
        simp only [resolveW, hh, if_true]
        unfold WInv at *
        simp only [List.mem_append]
        grind
      · simp only [resolveW, hh]
        exact h0.mono (fun h => List.mem_append_left _ h) (fun h => List.mem_append_left _ h)
  · intro j hj
    rw [hcb] at hj; rw [hws]
    simp only [List.getElem?_map]
    rcases List.mem_append.mp hj with h | h
    · obtain ⟨w, hw, hd⟩ := hi.q j h
      refine ⟨resolveW μ n w, by simp [hw], ?_⟩
      unfold resolveW
      split <;> simp_all
    · obtain ⟨j', w, hw, hh, hc⟩ := mem_cbsOf.mp h
      have := doneCbs_remove hc
      simp at this
      subst this
      refine ⟨resolveW μ n w, by simp [hw], ?_⟩
      simp [resolveW, hh]

theorem inv_finish {s : State} (hi : Inv s) (h : Nat) : Inv (step s (.finish h)) := by
  simp only [step]
  cases hh : s.hs[h]? with
  | none => exact hi
  | some hd =>
    simp only
    by_cases hdn : hd.done = true
    · simp only [hdn, if_true]; exact hi
    · simp only [hdn, deliver_eq]
      exact inv_deliver hi hd.μ h rfl rfl (by simp [hi.e])

theorem inv_awaitF {s : State} (hi : Inv s) (k : Nat) : Inv (step s (.awaitF k)) := by
  simp only [step]
  cases hk : s.ws[k]? with
  | none => exact hi
  | some w =>
    simp only
    by_cases hs : w.started = true
    · simp [hs]; exact hi
    · simp only [hs]
      cases hf : w.fut <;> simp only <;>
        (apply inv_put hi hk
         · intro h; unfold WInv at *; simp only [List.append_nil]; grind
         · simp [hf]
         · simp)

/-- the waiters `x` that `cancelW k w` can return: same caller-side flags as `w` -/
def SameFlags (w x : Waiter) : Prop :=
  x.kind = w.kind ∧ x.started = w.started ∧ x.awaiting = w.awaiting ∧ x.expired = w.expired ∧
  x.cancelReq = w.cancelReq ∧ x.out = w.out

theorem inv_cancel_like {s : State} (hi : Inv s) {k : Nat} {w : Waiter} (hk : s.ws[k]? = some w)
    (g : Waiter → Waiter)
    (hfut : ∀ x, (g x).fut = x.fut)
    (hg : ∀ q x, x.fut ≠ .pending → SameFlags w x → WInv q k x → WInv q k (g x)) :
    Inv (s.put k (g (cancelW k w).1, (cancelW k w).2)) := by
  rcases cancelW_cases k w with ⟨hp, hc⟩ | ⟨hp, hc⟩
  · rw [hc]
    apply inv_put hi hk
    · intro h
      apply hg _ _ (by simp) (by simp [SameFlags])
      unfold WInv at *
      simp only [List.mem_append, doneCbs]
      grind
    · simp [hfut]
    · intro j hj
      exact ⟨doneCbs_remove hj, by simp [hfut]⟩
  · rw [hc]
    apply inv_put hi hk
    · intro h
      simp only [List.append_nil]
      exact hg _ _ hp (by simp [SameFlags]) h
    · simp [hfut]
    · simp

theorem inv_timeout {s : State} (hi : Inv s) (k : Nat) : Inv (step s (.timeout k)) := by
  simp only [step]
  cases hk : s.ws[k]? with
  | none => exact hi
  | some w =>
    simp only
    by_cases hc : (w.awaiting && !w.expired) = true
    · simp only [hc, if_true]
      simp only [Bool.and_eq_true, Bool.not_eq_true'] at hc
      apply inv_cancel_like hi hk (fun x => { x with expired := true }) (fun _ => rfl)
      intro q x hx hsf h
      unfold WInv SameFlags at *
      grind
    · simp only [hc]; exact hi

theorem inv_cancelTask {s : State} (hi : Inv s) (k : Nat) : Inv (step s (.cancelTask k)) := by
  simp only [step]
  cases hk : s.ws[k]? with
  | none => exact hi
  | some w =>
    simp only
    by_cases hc : w.awaiting = true
    · simp only [hc, if_true]
      apply inv_cancel_like hi hk (fun x => { x with cancelReq := true }) (fun _ => rfl)
      intro q x hx hsf h
      unfold WInv SameFlags at *
      grind
    · simp only [hc]; exact hi

theorem inv_cancelFut {s : State} (hi : Inv s) (k : Nat) : Inv (step s (.cancelFut k)) := by
  simp only [step]
  cases hk : s.ws[k]? with
  | none => exact hi
  | some w =>
    simp only
    exact inv_cancel_like hi hk (fun x => x) (fun _ => rfl) (fun _ _ _ _ h => h)

theorem inv_sendFails {s : State} (hi : Inv s) (k : Nat) (c : Bool) : Inv (step s (.sendFails k c)) := by
  simp only [step]
  cases hk : s.ws[k]? with
  | none => exact hi
  | some w =>
    simp only
    by_cases hc : (decide (w.kind = .exec) && !w.started) = true
    · simp only [hc, if_true]
      simp only [Bool.and_eq_true, Bool.not_eq_true', decide_eq_true_eq] at hc
      apply inv_cancel_like hi hk
        (fun x => { x with started := true, out := if c then .cancelled else .sendError }) (fun _ => rfl)
      intro q x hx hsf h
      unfold WInv SameFlags at *
      cases c <;> simp only [Bool.false_eq_true, if_false, if_true] <;> grind
    · simp only [hc]; exact hi

theorem wakeW_remove {j k : Nat} {w : Waiter} (h : Cb.remove j ∈ (wakeW k w).2) :
    j = k ∧ (wakeW k w).1.fut ≠ .pending := by
  unfold wakeW at h ⊢
  cases hf : w.fut <;> cases hk : w.kind <;> cases ha : w.awaiting <;> cases hc : w.cancelReq <;>
    cases he : w.expired <;> simp_all [FStatus.done, setException]

theorem wakeW_mono {k : Nat} {w : Waiter} (h : w.fut ≠ .pending) : (wakeW k w).1.fut ≠ .pending := by
  unfold wakeW
  cases hf : w.fut <;> cases hk : w.kind <;> cases ha : w.awaiting <;> cases hc : w.cancelReq <;>
    cases he : w.expired <;> simp_all [FStatus.done]

theorem wakeW_inv {q : List Cb} {k : Nat} {w : Waiter} (h : WInv (Cb.wake k :: q) k w) :
    WInv (q ++ (wakeW k w).2) k (wakeW k w).1 := by
  unfold WInv at *
  unfold wakeW
  cases hf : w.fut <;> cases hk : w.kind <;> cases ha : w.awaiting <;> cases hc : w.cancelReq <;>
    cases he : w.expired <;> simp_all [FStatus.done, setException] <;> grind

theorem inv_cb {s : State} (hi : Inv s) : Inv (step s .cb) := by
  simp only [step]
  cases hq : s.cbq with
  | nil => simp only; exact hi
  | cons c q =>
    cases c with
    | remove k =>
      simp only
      obtain ⟨w, hk, hd⟩ := hi.q k (by simp [hq])
      simp only [hk]
      refine inv_update (s' := { s with ws := s.ws.set k { w with listed := false }, cbq := q }) hi hk rfl hi.e
        ?_ ?_ (fun h => h) ?_
      · intro j hj c hc hm
        rw [hq] at hm
        rcases hc with rfl | rfl <;> simp_all
      · intro h
        rw [hq] at h
        unfold WInv at *
        simp_all
      · intro j hj
        left; rw [hq]; exact List.mem_cons_of_mem _ hj
    | wake k =>
      simp only
      cases hk : s.ws[k]? with
      | none =>
        simp only
        refine ⟨?_, ?_, hi.e⟩
        · intro j wj hj
          have h := hi.w j wj hj
          rw [hq] at h
          apply h.mono
          · intro hm; simpa using hm
          · intro hm
            have : j ≠ k := by rintro rfl; simp_all
            simp_all
        · intro j hj
          exact hi.q j (by rw [hq]; exact List.mem_cons_of_mem _ hj)
      | some w =>
        simp only
        refine inv_update (s' := State.put { s with cbq := q } k (wakeW k w)) hi hk rfl hi.e ?_ ?_ wakeW_mono ?_
        · intro j hj c hc hm
          rw [hq] at hm
          simp only [State.put, List.mem_append]
          left
          rcases hc with rfl | rfl <;> simp_all
        · intro h
          rw [hq] at h
          exact wakeW_inv h
        · intro j hj
          simp only [State.put, List.mem_append] at hj
          rcases hj with h | h
          · left; rw [hq]; exact List.mem_cons_of_mem _ h
          · right; exact wakeW_remove h

theorem inv_step {s : State} (hi : Inv s) (op : Op) : Inv (step s op) := by
  cases op with
  | create kd m => exact inv_create hi kd m
  | awaitF k => exact inv_awaitF hi k
  | arrive c μ => exact inv_congr hi rfl rfl rfl
  | finish h => exact inv_finish hi h
  | connState c b => exact inv_congr hi rfl rfl rfl
  | timeout k => exact inv_timeout hi k
  | cancelTask k => exact inv_cancelTask hi k
  | cancelFut k => exact inv_cancelFut hi k
  | sendFails k c => exact inv_sendFails hi k c
  | cb => exact inv_cb hi

theorem inv_init : Inv {} := ⟨by simp, by simp, rfl⟩

theorem inv_foldl (ops : List Op) : ∀ s, Inv s → Inv (ops.foldl step s) := by
  induction ops with
  | nil => intro s h; exact h
  | cons op rest ih => intro s h; exact ih _ (inv_step h op)

theorem inv_run (ops : List Op) : Inv (run ops) := inv_foldl ops _ inv_init

/-! ### how one waiter evolves in one step -/

/-- evolution of a waiter under any operation other than a matching message -/
def Quiet (w x : Waiter) : Prop :=
  x.m = w.m ∧ (w.fut ≠ .pending → x.fut = w.fut) ∧ (∀ i, x.fut = .result i → w.fut = .result i) ∧
  (w.out ≠ .none → w.started = true → w.awaiting = false → x.out = w.out)

theorem Quiet.rfl' (w : Waiter) : Quiet w w := ⟨rfl, fun _ => rfl, fun _ h => h, fun _ _ _ => rfl⟩

theorem quiet_cancelW (k : Nat) (w : Waiter) : Quiet w (cancelW k w).1 := by
  rcases cancelW_cases k w with ⟨hp, hc⟩ | ⟨hp, hc⟩ <;> rw [hc] <;> simp [Quiet, hp]

theorem quiet_wakeW (k : Nat) (w : Waiter) : Quiet w (wakeW k w).1 := by
  unfold Quiet wakeW
  cases hf : w.fut <;> cases hk : w.kind <;> cases ha : w.awaiting <;> cases hc : w.cancelReq <;>
    cases he : w.expired <;> simp_all [FStatus.done, setException]

theorem set_get {ws : List Waiter} {j k : Nat} {w x : Waiter} (hk : ws[k]? = some w) :
    (j = k ∧ (ws.set j x)[k]? = some x) ∨ (j ≠ k ∧ (ws.set j x)[k]? = some w) := by
  have hlt : k < ws.length := (List.getElem?_eq_some_iff.mp hk).1
  rw [List.getElem?_set]
  by_cases h : j = k
  · subst h; left; simp [hlt]
  · right; simp [h, hk]

/-- the op is the completion loop of the (not yet completed) call `h` for message `μ` -/
def IsFinish (s : State) (op : Op) (h : Nat) (μ : Msg) : Prop :=
  op = .finish h ∧ ∃ hd, s.hs[h]? = some hd ∧ hd.done = false ∧ hd.μ = μ

/-- a waiter that exists stays, and evolves quietly unless the op is a completion loop that hits it -/
theorem step_get {s : State} (op : Op) {k : Nat} {w : Waiter} (hk : s.ws[k]? = some w) :
    ∃ w', (step s op).ws[k]? = some w' ∧
      ((∃ h μ, IsFinish s op h μ ∧ w' = resolveW μ h w) ∨ Quiet w w') := by
  have hlt : k < s.ws.length := (List.getElem?_eq_some_iff.mp hk).1
  -- generic: the new list is `s.ws.set j x` with `Quiet` at j
  have viaSet : ∀ (j : Nat) (wj x : Waiter), s.ws[j]? = some wj → Quiet wj x → True →
      ∃ w', (s.ws.set j x)[k]? = some w' ∧
        ((∃ h μ, IsFinish s op h μ ∧ w' = resolveW μ h w) ∨ Quiet w w') := by
    intro j wj x hj hq _
    rcases set_get (j := j) (x := x) hk with ⟨rfl, h⟩ | ⟨_, h⟩
    · rw [hk] at hj; cases hj
      exact ⟨x, h, Or.inr hq⟩
    · exact ⟨w, h, Or.inr (Quiet.rfl' w)⟩
  have same : True → ∃ w', s.ws[k]? = some w' ∧
      ((∃ h μ, IsFinish s op h μ ∧ w' = resolveW μ h w) ∨ Quiet w w') :=
    fun _ => ⟨w, hk, Or.inr (Quiet.rfl' w)⟩
  cases op with
  | create kd m =>
    refine ⟨w, ?_, Or.inr (Quiet.rfl' w)⟩
    simp only [step]
    exact (List.getElem?_append_left hlt).trans hk
  | arrive c μ => exact same trivial
  | connState c b => exact same trivial
  | awaitF j =>
    simp only [step]
    cases hj : s.ws[j]? with
    | none => exact same (by simp)
    | some wj =>
      simp only
      by_cases hs : wj.started = true
      · simp only [hs, if_true]; exact same (by simp)
      · simp only [hs]
        cases hf : wj.fut <;> simp only [State.put] <;>
          exact viaSet j wj _ hj (by unfold Quiet; simp_all) (by simp)
  | finish h =>
    simp only [step]
    cases hh : s.hs[h]? with
    | none => exact same trivial
    | some hd =>
      simp only
      by_cases hdn : hd.done = true
      · simp only [hdn, if_true]; exact same trivial
      · have hdf : hd.done = false := by simpa using hdn
        simp only [hdf, Bool.false_eq_true, if_false, deliver_eq, List.getElem?_map, hk]
        exact ⟨_, rfl, Or.inl ⟨h, hd.μ, ⟨rfl, hd, hh, hdf, rfl⟩, rfl⟩⟩
  | timeout j =>
    simp only [step]
    cases hj : s.ws[j]? with
    | none => exact same (by simp)
    | some wj =>
      simp only
      by_cases hc : (wj.awaiting && !wj.expired) = true
      · simp only [hc, if_true, State.put]
        refine viaSet j wj _ hj ?_ (by simp)
        have := quiet_cancelW j wj
        unfold Quiet at *
        simp only [Bool.and_eq_true] at hc
        simp_all
      · simp only [hc]; exact same (by simp)
  | cancelTask j =>
    simp only [step]
    cases hj : s.ws[j]? with
    | none => exact same (by simp)
    | some wj =>
      simp only
      by_cases hc : wj.awaiting = true
      · simp only [hc, if_true, State.put]
        refine viaSet j wj _ hj ?_ (by simp)
        have := quiet_cancelW j wj
        unfold Quiet at *
        simp_all
      · simp only [hc]; exact same (by simp)
  | cancelFut j =>
    simp only [step]
    cases hj : s.ws[j]? with
    | none => exact same (by simp)
    | some wj =>
      simp only [State.put]
      exact viaSet j wj _ hj (quiet_cancelW j wj) (by simp)
  | sendFails j c =>
    simp only [step]
    cases hj : s.ws[j]? with
    | none => exact same (by simp)
    | some wj =>
      simp only
      by_cases hc : (decide (wj.kind = .exec) && !wj.started) = true
      · simp only [hc, if_true, State.put]
        refine viaSet j wj _ hj ?_ (by simp)
        have := quiet_cancelW j wj
        unfold Quiet at *
        simp only [Bool.and_eq_true, Bool.not_eq_true'] at hc
        simp_all
      · simp only [hc]; exact same (by simp)
  | cb =>
    simp only [step]
    cases hq : s.cbq with
    | nil => exact same (by simp)
    | cons c q =>
      cases c with
      | remove j =>
        simp only
        cases hj : s.ws[j]? with
        | none => exact same (by simp)
        | some wj => exact viaSet j wj _ hj (by simp [Quiet]) (by simp)
      | wake j =>
        simp only
        cases hj : s.ws[j]? with
        | none => exact same (by simp)
        | some wj =>
          simp only [State.put]
          exact viaSet j wj _ hj (quiet_wakeW j wj) (by simp)

/-- a waiter that appears in a step is a freshly created, pending one -/
theorem step_new {s : State} (op : Op) {k : Nat} {w' : Waiter} (hn : s.ws[k]? = none)
    (hk : (step s op).ws[k]? = some w') : w'.fut = .pending := by
  have hlen : ∀ j x, (s.ws.set j x)[k]? = none := by
    intro j x; simp at hn ⊢; exact hn
  cases op with
  | create kd m =>
    simp only [step] at hk
    have hge : s.ws.length ≤ k := by simpa [List.getElem?_eq_none_iff] using hn
    rw [List.getElem?_append_right hge] at hk
    cases hkl : k - s.ws.length with
    | zero => simp [hkl] at hk; subst hk; rfl
    | succ n => simp [hkl] at hk
  | arrive c μ => simp [step, hn] at hk
  | connState c b => simp [step, hn] at hk
  | finish h =>
    simp only [step] at hk
    cases hh : s.hs[h]? with
    | none => simp [hh, hn] at hk
    | some hd =>
      simp only [hh] at hk
      split at hk
      · simp [hn] at hk
      · simp [deliver_eq, List.getElem?_map, hn] at hk
  | awaitF j =>
    simp only [step] at hk
    cases hj : s.ws[j]? with
    | none => simp [hj, hn] at hk
    | some wj =>
      simp only [hj] at hk
      split at hk
      · simp [hn] at hk
      · split at hk <;> simp [State.put, hlen] at hk
  | timeout j =>
    simp only [step] at hk
    cases hj : s.ws[j]? with
    | none => simp [hj, hn] at hk
    | some wj =>
      simp only [hj] at hk
      split at hk
      · simp [State.put, hlen] at hk
      · simp [hn] at hk
  | cancelTask j =>
    simp only [step] at hk
    cases hj : s.ws[j]? with
    | none => simp [hj, hn] at hk
    | some wj =>
      simp only [hj] at hk
      split at hk
      · simp [State.put, hlen] at hk
      · simp [hn] at hk
  | cancelFut j =>
    simp only [step] at hk
    cases hj : s.ws[j]? with
    | none => simp [hj, hn] at hk
    | some wj => simp [hj, State.put, hlen] at hk
  | sendFails j c =>
    simp only [step] at hk
    cases hj : s.ws[j]? with
    | none => simp [hj, hn] at hk
    | some wj =>
      simp only [hj] at hk
      split at hk
      · simp [State.put, hlen] at hk
      · simp [hn] at hk
  | cb =>
    simp only [step] at hk
    cases hq : s.cbq with
    | nil => simp [hq, hn] at hk
    | cons c q =>
      cases c with
      | remove j =>
        simp only [hq] at hk
        cases hj : s.ws[j]? with
        | none => simp [hj, hn] at hk
        | some wj => simp [hj, hlen] at hk
      | wake j =>
        simp only [hq] at hk
        cases hj : s.ws[j]? with
        | none => simp [hj, hn] at hk
        | some wj => simp [hj, State.put, hlen] at hk

/-! ### trace-level helpers -/

theorem resolveW_hit_iff {s : State} (hi : Inv s) {k : Nat} {w : Waiter} (hk : s.ws[k]? = some w) (μ : Msg) :
    hit μ w = true ↔ (w.fut = .pending ∧ w.m.matches μ = true) := by
  constructor
  · intro h; exact ⟨(hit_pending h).1, (hit_pending h).2.2⟩
  · rintro ⟨hp, hm⟩
    have hl := (hi.w _ _ hk).1 hp
    simp [hit, hp, hl, hm, FStatus.done]

theorem step_stable {s : State} (hi : Inv s) (op : Op) {k : Nat} {w : Waiter} (hk : s.ws[k]? = some w) :
    ∃ w', (step s op).ws[k]? = some w' ∧ w'.m = w.m ∧ (w.fut ≠ .pending → w'.fut = w.fut) ∧
      (w.out ≠ .none → w'.out = w.out) := by
  obtain ⟨w', hk', h⟩ := step_get op hk
  refine ⟨w', hk', ?_⟩
  rcases h with ⟨h, μ, _, rfl⟩ | ⟨hm, hf, _, ho⟩
  · unfold resolveW
    by_cases hh : hit μ w = true
    · have := (hit_pending hh).1
      simp [hh, this]
    · simp [hh]
  · have h6 := (hi.w _ _ hk).2.2.2.2.2.1
    exact ⟨hm, hf, fun hn => ho hn (h6 hn).1 (h6 hn).2⟩

theorem stable_foldl (ops : List Op) : ∀ (s : State) (k : Nat) (w : Waiter), Inv s → s.ws[k]? = some w →
    ∃ w', (ops.foldl step s).ws[k]? = some w' ∧ w'.m = w.m ∧ (w.fut ≠ .pending → w'.fut = w.fut) ∧
      (w.out ≠ .none → w'.out = w.out) := by
  induction ops with
  | nil => intro s k w _ hk; exact ⟨w, hk, rfl, fun _ => rfl, fun _ => rfl⟩
  | cons op rest ih =>
    intro s k w hi hk
    obtain ⟨w1, hk1, hm1, hf1, ho1⟩ := step_stable hi op hk
    obtain ⟨w2, hk2, hm2, hf2, ho2⟩ := ih _ k w1 (inv_step hi op) hk1
    refine ⟨w2, hk2, hm2.trans hm1, ?_, ?_⟩
    · intro h
      have := hf1 h
      rw [hf2 (by rw [this]; exact h), this]
    · intro h
      have := ho1 h
      rw [ho2 (by rw [this]; exact h), this]

theorem first_match_foldl (ops : List Op) : ∀ (s : State) (k i : Nat) (w : Waiter), Inv s →
    (∀ w0, s.ws[k]? = some w0 → w0.fut ≠ .result i) →
    (ops.foldl step s).ws[k]? = some w → w.fut = .result i →
    ∃ pre post hd w0, ops = pre ++ Op.finish i :: post ∧
      (pre.foldl step s).hs[i]? = some hd ∧ hd.done = false ∧
      (pre.foldl step s).ws[k]? = some w0 ∧ w0.fut = .pending ∧ w0.listed = true ∧ w0.m.matches hd.μ = true := by
  induction ops with
  | nil => intro s k i w _ h0 hk hr; exact absurd hr (h0 w hk)
  | cons op rest ih =>
    intro s k i w hi h0 hk hr
    by_cases hA : ∃ w1, (step s op).ws[k]? = some w1 ∧ w1.fut = .result i
    · obtain ⟨w1, hk1, hr1⟩ := hA
      cases hs : s.ws[k]? with
      | none =>
        have := step_new op hs hk1
        rw [this] at hr1; cases hr1
      | some w0 =>
        obtain ⟨w1', hk1', h⟩ := step_get op hs
        rw [hk1] at hk1'; cases hk1'
        rcases h with ⟨h, μ, ⟨rfl, hd, hhd, hdn, rfl⟩, rfl⟩ | ⟨_, _, hres, _⟩
        · by_cases hh : hit hd.μ w0 = true
          · have hp := hit_pending hh
            simp [resolveW, hh] at hr1
            subst hr1
            exact ⟨[], rest, hd, w0, rfl, hhd, hdn, hs, hp.1, hp.2.1, hp.2.2⟩
          · simp [resolveW, hh] at hr1
            exact absurd hr1 (h0 w0 hs)
        · exact absurd (hres i hr1) (h0 w0 hs)
    · have h0' : ∀ w1, (step s op).ws[k]? = some w1 → w1.fut ≠ .result i :=
        fun w1 h1 h2 => hA ⟨w1, h1, h2⟩
      obtain ⟨pre, post, hd, w0, he, hp⟩ := ih (step s op) k i w (inv_step hi op) h0' hk hr
      exact ⟨op :: pre, post, hd, w0, by rw [he]; rfl, hp⟩

/-! ### the calls of `on_message_received` -/

/-- a call record never changes its message or connection, and `done` only goes up -/
theorem step_hs {s : State} (op : Op) {h : Nat} {hd : Handling} (hh : s.hs[h]? = some hd) :
    ∃ hd', (step s op).hs[h]? = some hd' ∧ hd'.μ = hd.μ ∧ hd'.c = hd.c ∧ (hd.done = true → hd'.done = true) := by
  have hlt : h < s.hs.length := (List.getElem?_eq_some_iff.mp hh).1
  have same : (step s op).hs = s.hs → ∃ hd', (step s op).hs[h]? = some hd' ∧ hd'.μ = hd.μ ∧ hd'.c = hd.c ∧
      (hd.done = true → hd'.done = true) := fun he => ⟨hd, by rw [he]; exact hh, rfl, rfl, fun x => x⟩
  cases op with
  | arrive c μ =>
    refine ⟨hd, ?_, rfl, rfl, fun x => x⟩
    simp only [step]
    exact (List.getElem?_append_left hlt).trans hh
  | finish j =>
    simp only [step]
    cases hj : s.hs[j]? with
    | none => exact ⟨hd, hh, rfl, rfl, fun x => x⟩
    | some hj' =>
      simp only
      by_cases hdn : hj'.done = true
      · simp only [hdn, if_true]; exact ⟨hd, hh, rfl, rfl, fun x => x⟩
      · have hdf : hj'.done = false := by simpa using hdn
        simp only [hdf, Bool.false_eq_true, if_false]
        rw [List.getElem?_set]
        by_cases hjh : j = h
        · subst hjh
          rw [hh] at hj; cases hj
          exact ⟨{ hd with done := true }, by simp [hlt], rfl, rfl, fun _ => rfl⟩
        · exact ⟨hd, by simp [hjh, hh], rfl, rfl, fun x => x⟩
  | create kd m => exact same rfl
  | connState c b => exact same rfl
  | awaitF j =>
    apply same
    simp only [step]
    cases s.ws[j]? with
    | none => rfl
    | some wj => simp only; split; rfl; split <;> rfl
  | timeout j =>
    apply same
    simp only [step]
    cases s.ws[j]? with
    | none => rfl
    | some wj => simp only; split <;> rfl
  | cancelTask j =>
    apply same
    simp only [step]
    cases s.ws[j]? with
    | none => rfl
    | some wj => simp only; split <;> rfl
  | cancelFut j =>
    apply same
    simp only [step]
    cases s.ws[j]? with
    | none => rfl
    | some wj => rfl
  | sendFails j c =>
    apply same
    simp only [step]
    cases s.ws[j]? with
    | none => rfl
    | some wj => simp only; split <;> rfl
  | cb =>
    apply same
    simp only [step]
    cases s.cbq with
    | nil => rfl
    | cons c q =>
      cases c with
      | remove j => simp only; cases s.ws[j]? <;> rfl
      | wake j => simp only; cases s.ws[j]? <;> rfl

/-- a call record that appears in a step is the one `arrive` has just appended -/
theorem step_hs_new {s : State} (op : Op) {h : Nat} {hd : Handling} (hn : s.hs[h]? = none)
    (hh : (step s op).hs[h]? = some hd) : ∃ c μ, op = .arrive c μ ∧ h = s.hs.length ∧ hd = { μ := μ, c := c } := by
  have hge : s.hs.length ≤ h := by simpa [List.getElem?_eq_none_iff] using hn
  have absurdSame : (step s op).hs = s.hs → False := fun he => by rw [he, hn] at hh; cases hh
  cases op with
  | arrive c μ =>
    simp only [step] at hh
    rw [List.getElem?_append_right hge] at hh
    cases hkl : h - s.hs.length with
    | zero =>
      simp [hkl] at hh
      exact ⟨c, μ, rfl, by omega, hh.symm⟩
    | succ n => simp [hkl] at hh
  | finish j =>
    exfalso
    simp only [step] at hh
    cases hj : s.hs[j]? with
    | none => simp [hj, hn] at hh
    | some hj' =>
      simp only [hj] at hh
      split at hh
      · simp [hn] at hh
      · have : (s.hs.set j { hj' with done := true })[h]? = none := by simp; exact hge
        simp [this] at hh
  | create kd m => exact (absurdSame rfl).elim
  | connState c b => exact (absurdSame rfl).elim
  | awaitF j =>
    refine (absurdSame ?_).elim
    simp only [step]
    cases s.ws[j]? with
    | none => rfl
    | some wj => simp only; split; rfl; split <;> rfl
  | timeout j =>
    refine (absurdSame ?_).elim
    simp only [step]
    cases s.ws[j]? with
    | none => rfl
    | some wj => simp only; split <;> rfl
  | cancelTask j =>
    refine (absurdSame ?_).elim
    simp only [step]
    cases s.ws[j]? with
    | none => rfl
    | some wj => simp only; split <;> rfl
  | cancelFut j =>
    refine (absurdSame ?_).elim
    simp only [step]
    cases s.ws[j]? with
    | none => rfl
    | some wj => rfl
  | sendFails j c =>
    refine (absurdSame ?_).elim
    simp only [step]
    cases s.ws[j]? with
    | none => rfl
    | some wj => simp only; split <;> rfl
  | cb =>
    refine (absurdSame ?_).elim
    simp only [step]
    cases s.cbq with
    | nil => rfl
    | cons c q =>
      cases c with
      | remove j => simp only; cases s.ws[j]? <;> rfl
      | wake j => simp only; cases s.ws[j]? <;> rfl

/-- every call record stems from an `arrive` of exactly that message on exactly that connection, and its index is
the number of messages received before it -/
theorem arrival_foldl (ops : List Op) : ∀ (s : State) (h : Nat) (hd : Handling), s.hs[h]? = none →
    (ops.foldl step s).hs[h]? = some hd →
    ∃ pre post, ops = pre ++ Op.arrive hd.c hd.μ :: post ∧ (pre.foldl step s).hs.length = h := by
  induction ops with
  | nil => intro s h hd hn hh; simp only [List.foldl_nil] at hh; rw [hn] at hh; cases hh
  | cons op rest ih =>
    intro s h hd hn hh
    cases h1 : (step s op).hs[h]? with
    | none =>
      obtain ⟨pre, post, he, hl⟩ := ih (step s op) h hd h1 hh
      exact ⟨op :: pre, post, by rw [he]; rfl, hl⟩
    | some hd1 =>
      obtain ⟨c, μ, rfl, hlen, rfl⟩ := step_hs_new op hn h1
      -- the record keeps μ and c for the rest of the run
      have keep : ∀ (l : List Op) (t : State) (x : Handling), t.hs[h]? = some x →
          ∃ y, (l.foldl step t).hs[h]? = some y ∧ y.μ = x.μ ∧ y.c = x.c := by
        intro l
        induction l with
        | nil => intro t x hx; exact ⟨x, hx, rfl, rfl⟩
        | cons o l ihl =>
          intro t x hx
          obtain ⟨x', hx', hm, hc, _⟩ := step_hs o hx
          obtain ⟨y, hy, hm', hc'⟩ := ihl _ x' hx'
          exact ⟨y, hy, hm'.trans hm, hc'.trans hc⟩
      obtain ⟨y, hy, hm, hc⟩ := keep rest _ _ h1
      simp only [List.foldl_cons] at hh
      rw [hh] at hy; cases hy
      refine ⟨[], rest, ?_, by simpa using hlen.symm⟩
      simp only [List.nil_append]
      rw [hm, hc]

/-- create + await + arrival of a matching message + return of its handlers, from any state -/
theorem nested_step (s : State) (kd : Kind) (m : Matcher) (c : Nat) (μ : Msg) (hm : m.matches μ = true) :
    (∃ w, (step (step (step (step s (.create kd m)) (.awaitF s.ws.length)) (.arrive c μ)) (.finish s.hs.length)).ws[s.ws.length]?
        = some w ∧ w.fut = .result s.hs.length) ∧
    (∀ (h0 : Nat) (hd : Handling), s.hs[h0]? = some hd →
      (step (step (step (step s (.create kd m)) (.awaitF s.ws.length)) (.arrive c μ)) (.finish s.hs.length)).hs[h0]? = some hd) := by
  let w0 : Waiter := { m := m, kind := kd, started := true, awaiting := true }
  have h2 : step (step s (.create kd m)) (.awaitF s.ws.length) = { s with ws := s.ws ++ [w0] } := by
    simp [step, State.put, w0]
  have h3 : step (step (step s (.create kd m)) (.awaitF s.ws.length)) (.arrive c μ) =
      { s with ws := s.ws ++ [w0], hs := s.hs ++ [{ μ := μ, c := c }] } := by
    rw [h2]; simp [step]
  rw [h3]
  have hhit : hit μ w0 = true := by simp [hit, w0, FStatus.done, hm]
  constructor
  · refine ⟨resolveW μ s.hs.length w0, ?_, by simp [resolveW, hhit]⟩
    simp [step, deliver_eq]
  · intro h0 hd h0d
    have hlt : h0 < s.hs.length := (List.getElem?_eq_some_iff.mp h0d).1
    have hne : s.hs.length ≠ h0 := by omega
    simp only [step, List.getElem?_append_right (Nat.le_refl _), Nat.sub_self, List.getElem?_cons_zero,
      Bool.false_eq_true, if_false]
    rw [List.getElem?_set, if_neg hne, List.getElem?_append_left hlt]
    exact h0d

theorem wakeW_cbs_nil {q : List Cb} {k : Nat} {w : Waiter} (h : WInv q k w) : (wakeW k w).2 = [] := by
  unfold WInv at h
  unfold wakeW
  cases hf : w.fut <;> cases hk : w.kind <;> cases ha : w.awaiting <;> cases hc : w.cancelReq <;>
    cases he : w.expired <;> simp_all [FStatus.done]

theorem cb_length {s : State} (hi : Inv s) : (step s .cb).cbq.length = s.cbq.length - 1 := by
  simp only [step]
  cases hq : s.cbq with
  | nil => simp [hq]
  | cons c q =>
    cases c with
    | remove k => cases hk : s.ws[k]? <;> simp [hk]
    | wake k =>
      cases hk : s.ws[k]? with
      | none => simp [hk]
      | some w => simp [hk, State.put, wakeW_cbs_nil (hi.w _ _ hk)]

theorem drain_foldl : ∀ (n : Nat) (s : State), Inv s → s.cbq.length = n →
    ((List.replicate n Op.cb).foldl step s).cbq = [] := by
  intro n
  induction n with
  | zero => intro s _ h; simpa using h
  | succ n ih =>
    intro s hi h
    rw [List.replicate_succ, List.foldl_cons]
    apply ih _ (inv_step hi _)
    rw [cb_length hi, h]; rfl

end AioslskVerif.Expect
