import AioslskVerif.Model.Expect
/-!
Helper lemmas for C12 (`Props/C12.lean`): the matcher loop, a closed form of the completion loop,
and the invariant of the expected-response list under every operation.
-/
namespace AioslskVerif.Expect

/-! ### matcher -/

theorem fieldOk_const (μ : Msg) (f : Nat) (c : Val) :
    fieldOk μ (f, .const c) = ((μ.attr f).getD .none == c) := rfl

theorem fieldOk_pred (μ : Msg) (f : Nat) (p : Val → Bool) :
    fieldOk μ (f, .pred p) = (match μ.attr f with | none => false | some v => p v) := rfl

theorem fieldsMatch_iff (μ : Msg) (fs : List (Nat × Exp)) :
    fieldsMatch μ fs = true ↔ ∀ fe ∈ fs, fieldOk μ fe = true := by
  induction fs with
  | nil => simp [fieldsMatch]
  | cons fe rest ih =>
    obtain ⟨f, e⟩ := fe
    rw [List.forall_mem_cons, ← ih]
    cases e with
    | const c =>
      rw [fieldOk_const]
      simp only [fieldsMatch]
      by_cases h : (μ.attr f).getD .none = c <;> simp [h]
    | pred p =>
      rw [fieldOk_pred]
      simp only [fieldsMatch]
      cases h : μ.attr f with
      | none => simp
      | some v => by_cases hp : p v = true <;> simp [hp]

/-! ### closed form of the completion loop -/

/-- what the loop does to one waiter -/
def resolveW (μ : Msg) (n : Nat) (w : Waiter) : Waiter :=
  if hit μ w then { w with fut := .result n } else w

/-- callbacks scheduled by the loop -/
def cbsOf (μ : Msg) : Nat → List Waiter → List Cb
  | _, [] => []
  | k, w :: rest => (if hit μ w then doneCbs k w else []) ++ cbsOf μ (k + 1) rest

theorem hit_pending {μ : Msg} {w : Waiter} (h : hit μ w = true) :
    w.fut = .pending ∧ w.listed = true ∧ w.m.matches μ = true := by
  unfold hit at h
  simp only [Bool.and_eq_true, Bool.not_eq_true'] at h
  refine ⟨?_, h.1.1, h.2⟩
  cases hf : w.fut <;> simp [hf, FStatus.done] at h ⊢

theorem deliver_eq (μ : Msg) (n : Nat) (off : Nat) (ws : List Waiter) :
    deliver μ n off ws = (ws.map (resolveW μ n), cbsOf μ off ws, false) := by
  induction ws generalizing off with
  | nil => rfl
  | cons w rest ih =>
    unfold deliver
    by_cases h : hit μ w = true
    · have hp := (hit_pending h).1
      simp only [h, if_true, hp, setResult, ih, List.map_cons, resolveW, cbsOf]
    · simp only [h, ih, List.map_cons, resolveW, cbsOf]
      simp

theorem mem_cbsOf {μ : Msg} {c : Cb} {off : Nat} {ws : List Waiter} :
    c ∈ cbsOf μ off ws ↔ ∃ j w, ws[j]? = some w ∧ hit μ w = true ∧ c ∈ doneCbs (off + j) w := by
  induction ws generalizing off with
  | nil => simp [cbsOf]
  | cons w rest ih =>
    simp only [cbsOf, List.mem_append, ih]
    constructor
    · rintro (h | ⟨j, w', hj, hh, hc⟩)
      · by_cases hw : hit μ w = true
        · exact ⟨0, w, by simp, hw, by simpa [hw] using h⟩
        · simp [hw] at h
      · exact ⟨j + 1, w', by simpa using hj, hh, by rw [← Nat.add_assoc, Nat.add_right_comm]; exact hc⟩
    · rintro ⟨j, w', hj, hh, hc⟩
      cases j with
      | zero =>
        simp at hj; subst hj
        left; simpa [hh] using hc
      | succ j =>
        right
        exact ⟨j, w', by simpa using hj, hh, by rw [Nat.add_right_comm, Nat.add_assoc]; exact hc⟩

/-! ### the invariant -/

/-- what holds of the waiter with identity `k` when `q` is the queue of scheduled callbacks -/
def WInv (q : List Cb) (k : Nat) (w : Waiter) : Prop :=
  (w.fut = .pending → w.listed = true) ∧
  (w.listed = true → w.fut ≠ .pending → Cb.remove k ∈ q) ∧
  (w.awaiting = true → w.fut ≠ .pending → Cb.wake k ∈ q) ∧
  (w.expired = true → w.fut ≠ .pending ∧ w.started = true) ∧
  (w.started = true → w.out = .none → w.awaiting = true) ∧
  (w.out ≠ .none → w.started = true ∧ w.awaiting = false) ∧
  (w.awaiting = true → w.started = true) ∧
  (w.expired = true → w.cancelReq = false → w.out = .none ∨ w.out = .timeout) ∧
  w.out ≠ .invalidState

structure Inv (s : State) : Prop where
  w : ∀ k w, s.ws[k]? = some w → WInv s.cbq k w
  q : ∀ j, Cb.remove j ∈ s.cbq → ∃ w, s.ws[j]? = some w ∧ w.fut ≠ .pending
  e : s.err = 0

theorem WInv.mono {q q' : List Cb} {k : Nat} {w : Waiter} (h : WInv q k w)
    (hr : Cb.remove k ∈ q → Cb.remove k ∈ q') (hw : Cb.wake k ∈ q → Cb.wake k ∈ q') : WInv q' k w := by
  unfold WInv at *
  grind

theorem inv_update {s s' : State} {k : Nat} {w w' : Waiter} (hi : Inv s) (hk : s.ws[k]? = some w)
    (hws : s'.ws = s.ws.set k w') (herr : s'.err = 0)
    (hother : ∀ j, j ≠ k → ∀ c, (c = Cb.remove j ∨ c = Cb.wake j) → c ∈ s.cbq → c ∈ s'.cbq)
    (hw : WInv s.cbq k w → WInv s'.cbq k w')
    (hmono : w.fut ≠ .pending → w'.fut ≠ .pending)
    (hq : ∀ j, Cb.remove j ∈ s'.cbq → Cb.remove j ∈ s.cbq ∨ (j = k ∧ w'.fut ≠ .pending)) : Inv s' := by
  have hlt : k < s.ws.length := by
    have := List.getElem?_eq_some_iff.mp hk
    exact this.1
  refine ⟨?_, ?_, herr⟩
  · intro j wj hj
    rw [hws, List.getElem?_set] at hj
    by_cases hjk : k = j
    · subst hjk
      simp [hlt] at hj
      subst hj
      exact hw (hi.w _ _ hk)
    · simp [hjk] at hj
      exact (hi.w _ _ hj).mono (hother j (Ne.symm hjk) _ (Or.inl rfl)) (hother j (Ne.symm hjk) _ (Or.inr rfl))
  · intro j hj
    rw [hws, List.getElem?_set]
    rcases hq j hj with h | ⟨rfl, h⟩
    · obtain ⟨wj, hwj, hd⟩ := hi.q j h
      by_cases hjk : k = j
      · subst hjk
        rw [hk] at hwj; cases hwj
        exact ⟨w', by simp [hlt], hmono hd⟩
      · exact ⟨wj, by simp [hjk, hwj], hd⟩
    · exact ⟨w', by simp [hlt], h⟩

theorem inv_put {s : State} {k : Nat} {w w' : Waiter} {cbs : List Cb} (hi : Inv s) (hk : s.ws[k]? = some w)
    (hw : WInv s.cbq k w → WInv (s.cbq ++ cbs) k w')
    (hmono : w.fut ≠ .pending → w'.fut ≠ .pending)
    (hq : ∀ j, Cb.remove j ∈ cbs → j = k ∧ w'.fut ≠ .pending) : Inv (s.put k (w', cbs)) := by
  apply inv_update hi hk (w' := w') rfl hi.e
  · intro j _ c _ hc
    exact List.mem_append_left _ hc
  · exact hw
  · exact hmono
  · intro j hj
    rcases List.mem_append.mp hj with h | h
    · exact Or.inl h
    · exact Or.inr (hq j h)

theorem doneCbs_remove {j k : Nat} {w : Waiter} (h : Cb.remove j ∈ doneCbs k w) : j = k := by
  unfold doneCbs at h
  by_cases ha : w.awaiting = true <;> simp [ha] at h <;> exact h

theorem cancelW_cases (k : Nat) (w : Waiter) :
    (w.fut = .pending ∧ cancelW k w = ({ w with fut := .cancelled }, doneCbs k w)) ∨
    (w.fut ≠ .pending ∧ cancelW k w = (w, [])) := by
  unfold cancelW
  cases h : w.fut <;> simp

theorem inv_create {s : State} (hi : Inv s) (kd : Kind) (m : Matcher) : Inv (step s (.create kd m)) := by
  refine ⟨?_, ?_, hi.e⟩
  · intro k w hk
    simp only [step] at hk ⊢
    rw [List.getElem?_append] at hk
    by_cases hlt : k < s.ws.length
    · simp [hlt] at hk
      exact hi.w _ _ hk
    · simp [hlt] at hk
      obtain ⟨_, rfl⟩ := hk
      simp [WInv]
  · intro j hj
    obtain ⟨w, hw, hd⟩ := hi.q j hj
    refine ⟨w, ?_, hd⟩
    simp only [step]
    rw [List.getElem?_append]
    have : j < s.ws.length := (List.getElem?_eq_some_iff.mp hw).1
    simp [this, hw]

theorem inv_message {s : State} (hi : Inv s) (μ : Msg) : Inv (step s (.message μ)) := by
  simp only [step, deliver_eq]
  refine ⟨?_, ?_, by simp [hi.e]⟩
  · intro k w' hk
    simp only [List.getElem?_map] at hk
    cases hw : s.ws[k]? with
    | none => simp [hw] at hk
    | some w =>
      simp [hw] at hk
      subst hk
      have h0 := hi.w _ _ hw
      by_cases hh : hit μ w = true
      · have hp := hit_pending hh
        have hr : Cb.remove k ∈ cbsOf μ 0 s.ws := mem_cbsOf.mpr ⟨k, w, hw, hh, by simp [doneCbs]⟩
        have hwk : w.awaiting = true → Cb.wake k ∈ cbsOf μ 0 s.ws := fun ha =>
          mem_cbsOf.mpr ⟨k, w, hw, hh, by simp [doneCbs, ha]⟩
        simp only [resolveW, hh, if_true]
        unfold WInv at *
        simp only [List.mem_append]
        grind
      · simp only [resolveW, hh]
        exact h0.mono (fun h => List.mem_append_left _ h) (fun h => List.mem_append_left _ h)
  · intro j hj
    simp only [List.getElem?_map]
    rcases List.mem_append.mp hj with h | h
    · obtain ⟨w, hw, hd⟩ := hi.q j h
      refine ⟨resolveW μ s.nmsg w, by simp [hw], ?_⟩
      unfold resolveW
      split <;> simp_all
    · obtain ⟨j', w, hw, hh, hc⟩ := mem_cbsOf.mp h
      have := doneCbs_remove hc
      simp at this
      subst this
      refine ⟨resolveW μ s.nmsg w, by simp [hw], ?_⟩
      simp [resolveW, hh]

end AioslskVerif.Expect
