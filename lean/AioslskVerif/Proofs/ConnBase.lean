import AioslskVerif.Model.Conn
/-!
Definitions for the helper lemmas of C10 (`Proofs/Conn.lean`): enumerations, well-formed control states, legal
event histories, the step table.  The table is decided per origin and connection type in `Proofs/ConnTable1..8.lean`
(eight small modules that build in parallel).

The control state `K` of a connection and the op alphabet `FOp` are finite.  `tableOK` checks, for every
well-formed control state (`good`) and every fine-grained op — completions, API calls, and the four ops that let a
state notification's listeners return or suspend —, that the successor is well-formed and that the events the step
emits continue a legal event history (`track`).  It is decided by kernel evaluation over an enumeration of the
well-formed states only (`allGood`, built in stages from the parts of `good`; `mem_allGood` shows it is complete) and
of all ops (`mem_allFOp`); `inv_run` lifts it to every op list by induction, the un-suspended ops `Op.new` / `Op.at`
being finite compositions of fine-grained steps (`settle`).
-/
namespace AioslskVerif.Conn

/-! ## enumerations -/

def allBool : List Bool := [false, true]
def allOrigin : List Origin := [.direct, .back, .incoming, .server]
def allCState : List CState := [.uninit, .connecting, .connected, .closing, .closed]
def allAtt : List Att := [.noteConnecting, .opening, .noteConnected, .sendingInit, .awaitInit, .closing, .idle, .idleQuiet]
def allCloser : List Closer := [.none, .other, .attempt, .attemptC, .sender, .queue, .queueC]
def allCPhase : List CPhase := [.noteClosing, .noteClosingNW, .waiting, .noteClosed]
def allMode : List SendMode := [.ok, .block, .fail]
def allFirst : List First := [.initP, .initF, .pierceP, .pierceF, .pierceUnknown, .undecodable]
def allReason : List Reason := [.unknown, .connectFailed, .requested, .readError, .writeError, .timeout, .eof]

def allCOp : List COp :=
  allMode.map .connectOk ++ [.connectFail, .connectTimeout, .cancelAttempt] ++ allFirst.map .firstFrame ++
  allBool.map .frame ++ [.partialEof, .eof, .reset, .readTimeout, .closeDone] ++ allReason.map .disconnect ++
  allMode.map .send ++ [.drainOk] ++ allBool.map .sendTimeout ++ [.restart] ++ allMode.map .queue ++ [.queueTimeout] ++
  allMode.map .sendData ++ [.recvData, .data]

def allFOp : List FOp := allCOp.map .op ++ allMode.map .noteA ++ [.noteC, .parkA, .parkC]

theorem mem_allBool (b : Bool) : b ∈ allBool := by cases b <;> decide
theorem mem_allOrigin (x : Origin) : x ∈ allOrigin := by cases x <;> decide
theorem mem_allCState (x : CState) : x ∈ allCState := by cases x <;> decide
theorem mem_allAtt (x : Att) : x ∈ allAtt := by cases x <;> decide
theorem mem_allCloser (x : Closer) : x ∈ allCloser := by cases x <;> decide
theorem mem_allCPhase (x : CPhase) : x ∈ allCPhase := by cases x <;> decide
theorem mem_allMode (x : SendMode) : x ∈ allMode := by cases x <;> decide
theorem mem_allFirst (x : First) : x ∈ allFirst := by cases x <;> decide
theorem mem_allReason (x : Reason) : x ∈ allReason := by cases x <;> decide

theorem mem_allCOp (op : COp) : op ∈ allCOp := by
  cases op with
  | connectOk m => cases m <;> decide
  | firstFrame f => cases f <;> decide
  | frame g => cases g <;> decide
  | send m => cases m <;> decide
  | sendTimeout a => cases a <;> decide
  | disconnect r => cases r <;> decide
  | queue m => cases m <;> decide
  | sendData m => cases m <;> decide
  | _ => decide

theorem mem_allFOp (op : FOp) : op ∈ allFOp := by
  cases op with
  | op o => exact List.mem_append_left _ (List.mem_append_left _ (List.mem_map_of_mem (mem_allCOp o)))
  | noteA m => cases m <;> decide
  | noteC => decide
  | parkA => decide
  | parkC => decide

/-! ## well-formed control states, in stages -/

abbrev Skel := Origin × CState × Att
abbrev Desc := Closer × CPhase × Reason
abbrev Bits := Bool × Bool × Bool × Bool      -- reader, sock, sendParked, qParked

def K.skel (k : K) : Skel := (k.origin, k.st, k.att)
def K.desc (k : K) : Desc := (k.closer, k.cph, k.cr)
def K.bits (k : K) : Bits := (k.reader, k.sock, k.sendParked, k.qParked)

/-- origin, reported state and the position of the attempt / accept handler -/
def gA : Skel → Bool
  | (o, st, att) =>
    st != .uninit &&
    (!(att == .noteConnecting || att == .opening) ||
      ((st == .connecting || st == .closing || st == .closed) && o != .incoming)) &&
    (st != .connecting || att == .noteConnecting || att == .opening) &&
    (att != .sendingInit || ((o == .direct || o == .back) && (st == .connected || st == .closing))) &&
    (att != .awaitInit || (o == .incoming && (st == .connected || st == .closing))) &&
    (att != .idleQuiet || ((o == .direct || o == .back) && (st == .closing || st == .closed))) &&
    (att != .closing || ((st == .closing || st == .closed) && o != .incoming))

/-- the task that runs `disconnect` past its guard -/
def gB : Skel → Desc → Bool
  | (_, st, att), (cl, ph, cr) =>
    (cl != .none || (ph == .noteClosed && cr == .unknown && st != .closing)) &&
    (cl == .none || (if ph == .noteClosed then st == .closed else st == .closing)) &&
    ((att == .closing) == (cl == .attempt || cl == .attemptC)) &&
    (!(att == .noteConnecting || att == .opening) || cl == .none || ph == .noteClosingNW || ph == .noteClosed) &&
    (!((att == .sendingInit || att == .awaitInit) && st == .closing) || ph == .noteClosing) &&
    (cl != .queueC || ph == .noteClosed) &&
    -- the reason a task closes the connection with
    (!(cl == .attempt) || cr == .connectFailed || cr == .writeError || cr == .timeout) &&
    (!(cl == .attemptC) || cr == .connectFailed || cr == .requested || cr == .writeError || cr == .timeout) &&
    (!(cl == .sender || cl == .queue || cl == .queueC) || cr == .writeError || cr == .timeout)

/-- who is parked on the socket -/
def gC : Skel → Desc → Bits → Bool
  | (_, st, att), (_, ph, _), (reader, sock, sendParked, qParked) =>
    (st != .connected || sock) &&
    (!sock || st == .connected || (st == .closing && ph == .noteClosing)) &&
    (!(att == .sendingInit || att == .awaitInit) || sock) &&
    (!reader || (sock && att.over)) &&
    (!sendParked || sock) &&
    (!qParked || st == .connected || (st == .closing && ph == .noteClosing))

def regOf (o : Origin) (st : CState) : Bool := o != .server && st != .closed

def good (k : K) : Bool :=
  gA k.skel && gB k.skel k.desc && gC k.skel k.desc k.bits && (k.registered == regOf k.origin k.st)

def mkK (s : Skel) (d : Desc) (b : Bits) (typF slow : Bool) : K :=
  { origin := s.1, typF := typF, slow := slow, st := s.2.1, att := s.2.2, reader := b.1, sock := b.2.1,
    closer := d.1, cph := d.2.1, cr := d.2.2, sendParked := b.2.2.1, qParked := b.2.2.2,
    registered := regOf s.1 s.2.1 }

def allSkelOf (o : Origin) : List Skel := allCState.flatMap fun st => allAtt.map fun att => (o, st, att)
def allDesc : List Desc :=
  allCloser.flatMap fun cl => allCPhase.flatMap fun ph => allReason.map fun r => (cl, ph, r)
def allBits : List Bits :=
  allBool.flatMap fun a => allBool.flatMap fun b => allBool.flatMap fun c => allBool.map fun d => (a, b, c, d)

/-- every well-formed control state of a connection of origin `o` and type `t` (and nothing else) -/
def allGoodOf (o : Origin) (t : Bool) : List K :=
  ((allSkelOf o).filter gA).flatMap fun s => (allDesc.filter (gB s)).flatMap fun d =>
    (allBits.filter (gC s d)).flatMap fun b => allBool.map fun sl => mkK s d b t sl

theorem mem_allSkelOf (s : Skel) : s ∈ allSkelOf s.1 := by
  obtain ⟨o, st, att⟩ := s
  simp only [allSkelOf, List.mem_flatMap, List.mem_map]
  exact ⟨st, mem_allCState _, att, mem_allAtt _, rfl⟩

theorem mem_allDesc (d : Desc) : d ∈ allDesc := by
  obtain ⟨cl, ph, r⟩ := d
  simp only [allDesc, List.mem_flatMap, List.mem_map]
  exact ⟨cl, mem_allCloser _, ph, mem_allCPhase _, r, mem_allReason _, rfl⟩

theorem mem_allBits (b : Bits) : b ∈ allBits := by
  obtain ⟨a, b, c, d⟩ := b
  simp only [allBits, List.mem_flatMap, List.mem_map]
  exact ⟨a, mem_allBool _, b, mem_allBool _, c, mem_allBool _, d, mem_allBool _, rfl⟩

theorem mem_allGood {k : K} (h : good k = true) : k ∈ allGoodOf k.origin k.typF := by
  simp only [good, Bool.and_eq_true, beq_iff_eq] at h
  obtain ⟨⟨⟨hA, hB⟩, hC⟩, hR⟩ := h
  simp only [allGoodOf, List.mem_flatMap, List.mem_map, List.mem_filter]
  refine ⟨k.skel, ⟨mem_allSkelOf k.skel, hA⟩, k.desc, ⟨mem_allDesc _, hB⟩, k.bits, ⟨mem_allBits _, hC⟩,
    k.slow, mem_allBool _, ?_⟩
  cases k
  simp only [mkK, K.skel, K.desc, K.bits] at hR ⊢
  rw [← hR]

/-! ## legal event histories -/

/-- may `t` be reported right after `s`? forward only; the server connection may restart -/
def okNext (o : Origin) (s t : CState) : Bool :=
  decide (s.rank < t.rank) || (o == .server && s == .closed && t == .connecting)

/-- follow an event list from reported state `s`; `none` when it is not a legal history: a report that does not
move forward, a delivered message / bytes of a message written while not CONNECTED, or raw data of a file
connection written / handed out while neither CONNECTED nor CLOSING -/
def track (o : Origin) : CState → List Ev → Option CState
  | s, [] => some s
  | s, .st t _ :: es => if okNext o s t then track o t es else none
  | s, .delivered :: es => if s = .connected then track o s es else none
  | s, .wrote :: es => if s = .connected then track o s es else none
  | s, .wroteRaw :: es => if s = .connected ∨ s = .closing then track o s es else none
  | s, .recvData :: es => if s = .connected ∨ s = .closing then track o s es else none
  | s, .init _ :: es => track o s es
  | s, .cc :: es => track o s es
  | s, .attRes _ :: es => track o s es
  | s, .sendRes _ :: es => track o s es
  | s, .queueRes _ :: es => track o s es

/-- connect-back: the peer that asked got a pierce-firewall message, or the server a CannotConnect,
unless the attempt was cancelled -/
def answered (e : Ev) : Bool := e == .wrote || e == .cc || e == .attRes .cancelled

def backDone (k : K) : Bool := k.att == .idle || k.att == .sendingInit

def stepOK (k : K) (op : FOp) : Bool :=
  match stepF k op with
  | none => true
  | some (k', out) =>
    good k' && decide (track k.origin k.st out = some k'.st) && k'.origin == k.origin &&
    (k.origin != .back || !backDone k' || backDone k || out.any answered)

/-- the CLOSING notification of the running `disconnect` is outstanding: the writer has not been touched yet -/
def K.closingNotified (k : K) : Bool := k.st == .closing && k.cph == .noteClosing

/-- consequences of `good` used by the registry theorems, decided over the enumeration -/
def kFacts (k : K) : Bool :=
  (k.registered == (k.origin != .server && k.st != .closed && k.live)) &&
    (k.live || k.st == .closed) && k.st != .uninit &&
    (k.st == .connected || k.closingNotified || (!k.sendParked && !k.qParked && !k.reader)) &&
    (k.st != .closed || !k.sock)

/-- the table of one origin and connection type: every well-formed state has the derived facts and every op keeps
the invariant -/
def tableFor (o : Origin) (t : Bool) : Bool := (allGoodOf o t).all fun k => kFacts k && allFOp.all (stepOK k)

def newOK : Bool :=
  allOrigin.all fun o => allBool.all fun t => allBool.all fun s =>
    let (k, e) := newK o t s
    good k && decide (track o .uninit e = some k.st) && k.origin == o && !(o == .back && backDone k)

end AioslskVerif.Conn
