import AioslskVerif.Model.Search
/-! Helper lemmas for C18 (model: `Model/Search.lean`). -/
namespace AioslskVerif.Search
open AioslskVerif.Generated.Search

/-! ### generic induction over op lists -/

theorem run_nil (s : State) : run s [] = (s, []) := rfl
theorem run_cons (s : State) (op : Op) (ops : List Op) :
    run s (op :: ops) = ((run (step s op).1 ops).1, (step s op).2 ++ (run (step s op).1 ops).2) := rfl

theorem run_append (s : State) (a b : List Op) :
    run s (a ++ b) = ((run (run s a).1 b).1, (run s a).2 ++ (run (run s a).1 b).2) := by
  induction a generalizing s with
  | nil => simp [run_nil]
  | cons op ops ih => simp [run_cons, ih, List.append_assoc]

/-- Induction principle: `P` relates the state and the trace so far; `G` is a guard on the *final* state that is
inherited by every earlier state (`hG`). -/
theorem run_ind {P : State → List Obs → Prop} {G : State → Prop}
    (hG : ∀ s op, G (step s op).1 → G s)
    (hstep : ∀ s tr op, P s tr → G (step s op).1 → P (step s op).1 (tr ++ (step s op).2)) :
    ∀ ops s tr, P s tr → G (run s ops).1 → P (run s ops).1 (tr ++ (run s ops).2) := by
  intro ops
  induction ops with
  | nil => intro s tr h _; simpa [run_nil] using h
  | cons op ops ih =>
    intro s tr h hg
    rw [run_cons] at hg ⊢
    have hgs : G (step s op).1 := by
      clear ih h
      generalize (step s op).1 = s' at hg
      induction ops generalizing s' with
      | nil => simpa [run_nil] using hg
      | cons op' ops' ih' => rw [run_cons] at hg; exact hG _ _ (ih' _ hg)
    have := ih _ _ (hstep s tr op h hgs) hg
    simpa [List.append_assoc] using this

/-! ### fireAll -/

theorem fireTask_requests (s : State) (t : TTask) :
    (fireTask s t).1 = { s with requests := s.requests.filter (fun r => r.ticket ≠ t.ticket) } := by
  unfold fireTask
  split
  · rfl
  · rename_i h
    have : s.requests.filter (fun r => r.ticket ≠ t.ticket) = s.requests := by
      apply List.filter_eq_self.2
      intro r hr
      simp only [List.any_eq_true, not_exists, not_and, decide_eq_true_eq] at h
      simpa using h r hr
    rw [this]

theorem fireAll_state (F : List TTask) (s : State) (o : List Obs) :
    (fireAll F s o).1 = { s with requests := s.requests.filter (fun r => F.all (fun t => r.ticket ≠ t.ticket)) } := by
  induction F generalizing s o with
  | nil => cases s; simp only [fireAll, List.all_nil]; congr 1; exact (List.filter_eq_self.2 (fun _ _ => rfl)).symm
  | cons t ts ih =>
    simp only [fireAll, ih, fireTask_requests, List.filter_filter, List.all_cons]
    congr 1
    apply List.filter_congr
    intro r _
    simp [Bool.and_comm]

theorem fireAll_obs_mem (F : List TTask) (s : State) (o : List Obs) (x : Obs) (hx : x ∈ (fireAll F s o).2) :
    x ∈ o ∨ ∃ t ∈ F, x = Obs.removed s.now t.rid t.ticket (t.deadline.getD 0) t.id ∨
                      x = Obs.loopErr s.now t.rid t.ticket t.id := by
  induction F generalizing s o with
  | nil => left; simpa [fireAll] using hx
  | cons t ts ih =>
    simp only [fireAll] at hx
    rcases ih _ _ hx with h | ⟨t', ht', h⟩
    · rcases List.mem_append.1 h with h | h
      · exact .inl h
      · right; refine ⟨t, by simp, ?_⟩
        unfold fireTask at h; split at h <;> simp_all
    · right; refine ⟨t', by simp [ht'], ?_⟩
      simpa [fireTask_requests] using h

/-! ### the invariant -/

/-- the ticket generator has not wrapped yet -/
def NoWrap (s : State) : Prop := s.cfg.initial + s.draws ≤ maxTicket

structure Inv (s : State) : Prop where
  gen_eq : s.gen = s.cfg.initial + s.draws
  req_tk : ∀ r ∈ s.requests, r.ticket = s.cfg.initial + r.rid ∧ 1 ≤ r.rid ∧ r.rid ≤ s.draws
  req_uniq : ∀ r1 ∈ s.requests, ∀ r2 ∈ s.requests, r1.rid = r2.rid → r1 = r2
  task_id : ∀ t ∈ s.tasks, t.id < s.nextTask
  task_nodup : s.tasks.Pairwise (fun a b => a.id ≠ b.id)
  /-- an un-cancelled pending timer task is the current handle of a registered request -/
  task_live : ∀ t ∈ s.tasks, t.cancelled = false →
    ∃ r ∈ s.requests, r.rid = t.rid ∧ r.ticket = t.ticket ∧ r.handle = some t.id
  /-- the handle of a registered request is an un-cancelled pending task of its Timer -/
  handle_task : ∀ r ∈ s.requests, ∀ id, r.handle = some id →
    ∃ t ∈ s.tasks, t.id = id ∧ t.rid = r.rid ∧ t.cancelled = false
  handle_timeout : ∀ r ∈ s.requests, r.timeout = none → r.handle = none

theorem inv_congr {s s' : State} (h : Inv s) (h1 : s'.cfg = s.cfg) (h2 : s'.gen = s.gen) (h3 : s'.draws = s.draws)
    (h4 : s'.nextTask = s.nextTask) (h5 : s'.requests = s.requests) (h6 : s'.tasks = s.tasks) : Inv s' := by
  obtain ⟨a, b, c, d, e, f, g, i⟩ := h
  constructor <;> simp only [h1, h2, h3, h4, h5, h6] <;> assumption

@[simp] theorem startTask_id (n : Nat) (t : TTask) : (startTask n t).id = t.id := by unfold startTask; split <;> rfl
@[simp] theorem startTask_rid (n : Nat) (t : TTask) : (startTask n t).rid = t.rid := by unfold startTask; split <;> rfl
@[simp] theorem startTask_ticket (n : Nat) (t : TTask) : (startTask n t).ticket = t.ticket := by
  unfold startTask; split <;> rfl
@[simp] theorem startTask_cancelled (n : Nat) (t : TTask) : (startTask n t).cancelled = t.cancelled := by
  unfold startTask; split <;> rfl
@[simp] theorem startTask_timeout (n : Nat) (t : TTask) : (startTask n t).timeout = t.timeout := by
  unfold startTask; split <;> rfl

theorem inv_mapStart {s : State} (n : Nat) (h : Inv s) : Inv { s with tasks := s.tasks.map (startTask n) } := by
  obtain ⟨a, b, c, d, e, f, g, i⟩ := h
  constructor <;> simp only [] <;> try assumption
  · intro t ht
    obtain ⟨t0, ht0, rfl⟩ := List.mem_map.1 ht
    simpa using d t0 ht0
  · rw [List.pairwise_map]
    simpa using e
  · intro t ht hc
    obtain ⟨t0, ht0, rfl⟩ := List.mem_map.1 ht
    simpa using f t0 ht0 (by simpa using hc)
  · intro r hr id hid
    obtain ⟨t, ht, h1, h2, h3⟩ := g r hr id hid
    exact ⟨startTask n t, List.mem_map.2 ⟨t, ht, rfl⟩, by simpa using h1, by simpa using h2, by simpa using h3⟩

theorem inv_reply {s : State} (tk : Nat) (h : Inv s) :
    Inv { s with requests := s.requests.map (fun q => if q.ticket = tk then { q with results := q.results + 1 } else q) } := by
  obtain ⟨a, b, c, d, e, f, g, i⟩ := h
  constructor <;> simp only [] <;> try assumption
  · intro r hr
    obtain ⟨r0, hr0, rfl⟩ := List.mem_map.1 hr
    have := b r0 hr0
    split <;> simpa using this
  · intro r1 hr1 r2 hr2 heq
    obtain ⟨q1, hq1, rfl⟩ := List.mem_map.1 hr1
    obtain ⟨q2, hq2, rfl⟩ := List.mem_map.1 hr2
    have : q1 = q2 := c q1 hq1 q2 hq2 (by grind)
    subst this; rfl
  · intro t ht hc
    obtain ⟨r, hr, h1, h2, h3⟩ := f t ht hc
    refine ⟨_, List.mem_map.2 ⟨r, hr, rfl⟩, ?_⟩
    split <;> simp_all
  · intro r hr id hid
    obtain ⟨r0, hr0, rfl⟩ := List.mem_map.1 hr
    have := g r0 hr0 id (by grind)
    grind
  · intro r hr hto
    obtain ⟨r0, hr0, rfl⟩ := List.mem_map.1 hr
    have := i r0 hr0
    grind

/-! ### Timer.cancel / remove_request -/

theorem pairwise_id_inj {l : List TTask} (h : l.Pairwise (fun a b => a.id ≠ b.id)) :
    ∀ a ∈ l, ∀ b ∈ l, a.id = b.id → a = b := by
  induction l with
  | nil => intro a ha; cases ha
  | cons x xs ih =>
    rw [List.pairwise_cons] at h
    intro a ha b hb hab
    rcases List.mem_cons.1 ha with rfl | ha' <;> rcases List.mem_cons.1 hb with rfl | hb'
    · rfl
    · exact absurd hab (h.1 b hb')
    · exact absurd hab.symm (h.1 a ha')
    · exact ih h.2 a ha' b hb' hab

def markCancelled (id : Nat) (t : TTask) : TTask := if t.id = id then { t with cancelled := true } else t

@[simp] theorem markCancelled_id (i : Nat) (t : TTask) : (markCancelled i t).id = t.id := by
  unfold markCancelled; split <;> rfl
@[simp] theorem markCancelled_rid (i : Nat) (t : TTask) : (markCancelled i t).rid = t.rid := by
  unfold markCancelled; split <;> rfl
@[simp] theorem markCancelled_ticket (i : Nat) (t : TTask) : (markCancelled i t).ticket = t.ticket := by
  unfold markCancelled; split <;> rfl
theorem markCancelled_cancelled (i : Nat) (t : TTask) :
    (markCancelled i t).cancelled = (t.cancelled || decide (t.id = i)) := by
  unfold markCancelled; split <;> simp_all

theorem timerCancel_some (s : State) (rid id : Nat) :
    timerCancel s rid (some id) =
      { s with tasks := s.tasks.map (markCancelled id), requests := setHandle s.requests rid none } := rfl

/-- `Timer.cancel` on the Timer of a registered request. -/
theorem inv_timerCancel {s : State} (h : Inv s) (r : Req) (hr : r ∈ s.requests) :
    Inv (timerCancel s r.rid r.handle) := by
  cases hh : r.handle with
  | none => simpa [timerCancel] using h
  | some id =>
    rw [timerCancel_some]
    obtain ⟨a, b, c, d, e, f, g, i⟩ := h
    constructor <;> simp only [setHandle] <;> try assumption
    · intro q hq
      obtain ⟨q0, hq0, rfl⟩ := List.mem_map.1 hq
      have := b q0 hq0
      split <;> simpa using this
    · intro r1 hr1 r2 hr2 heq
      obtain ⟨q1, hq1, rfl⟩ := List.mem_map.1 hr1
      obtain ⟨q2, hq2, rfl⟩ := List.mem_map.1 hr2
      have : q1 = q2 := c q1 hq1 q2 hq2 (by grind)
      subst this; rfl
    · intro t ht
      obtain ⟨t0, ht0, rfl⟩ := List.mem_map.1 ht
      simpa using d t0 ht0
    · rw [List.pairwise_map]; simpa using e
    · intro t ht hc
      obtain ⟨t0, ht0, rfl⟩ := List.mem_map.1 ht
      rw [markCancelled_cancelled] at hc
      have hc0 : t0.cancelled = false := by grind
      have hne : t0.id ≠ id := by grind
      obtain ⟨q, hq, h1, h2, h3⟩ := f t0 ht0 hc0
      have hqr : q.rid ≠ r.rid := by
        intro heq
        have := c q hq r hr heq
        grind
      refine ⟨q, List.mem_map.2 ⟨q, hq, by simp [hqr]⟩, by simpa using h1, by simpa using h2, by simpa using h3⟩
    · intro q hq id' hid'
      obtain ⟨q0, hq0, rfl⟩ := List.mem_map.1 hq
      by_cases hqr : q0.rid = r.rid
      · simp [hqr] at hid'
      · simp only [hqr, if_false] at hid'
        obtain ⟨t, ht, h1, h2, h3⟩ := g q0 hq0 id' hid'
        refine ⟨markCancelled id t, List.mem_map.2 ⟨t, ht, rfl⟩, by simpa using h1, by simpa [hqr] using h2, ?_⟩
        rw [markCancelled_cancelled]
        have : t.id ≠ id := by
          intro heq
          obtain ⟨t', ht', h1', h2', _⟩ := g r hr id hh
          have : t = t' := pairwise_id_inj e t ht t' ht' (by omega)
          grind
        simp [h3, this]
    · intro q hq hto
      obtain ⟨q0, hq0, rfl⟩ := List.mem_map.1 hq
      have := i q0 hq0
      grind

theorem Inv.ticket_inj {s : State} (h : Inv s) : ∀ r1 ∈ s.requests, ∀ r2 ∈ s.requests, r1.ticket = r2.ticket → r1 = r2 := by
  intro r1 h1 r2 h2 heq
  have a := h.req_tk r1 h1
  have b := h.req_tk r2 h2
  exact h.req_uniq r1 h1 r2 h2 (by omega)

/-- dropping a registered request whose Timer holds no task -/
theorem inv_dropDisarmed {s : State} (h : Inv s) (r : Req) (hr : r ∈ s.requests) (hh : r.handle = none) :
    Inv { s with requests := s.requests.filter (fun q => q.ticket ≠ r.ticket) } := by
  have hinj := h.ticket_inj
  obtain ⟨a, b, c, d, e, f, g, i⟩ := h
  constructor <;> simp only [] <;> try assumption
  · intro q hq; exact b q (List.mem_filter.1 hq).1
  · intro r1 h1 r2 h2; exact c r1 (List.mem_filter.1 h1).1 r2 (List.mem_filter.1 h2).1
  · intro t ht hc
    obtain ⟨q, hq, h1, h2, h3⟩ := f t ht hc
    refine ⟨q, List.mem_filter.2 ⟨hq, ?_⟩, h1, h2, h3⟩
    have : q.ticket ≠ r.ticket := by
      intro heq
      have := hinj q hq r hr heq
      grind
    simpa using this
  · intro q hq; exact g q (List.mem_filter.1 hq).1
  · intro q hq; exact i q (List.mem_filter.1 hq).1

theorem lookup_some {s : State} {tk : Nat} {r : Req} (h : lookup s tk = some r) : r ∈ s.requests ∧ r.ticket = tk := by
  unfold lookup at h
  exact ⟨List.mem_of_find?_eq_some h, by simpa using List.find?_some h⟩

theorem lookup_none {s : State} {tk : Nat} (h : lookup s tk = none) : ∀ r ∈ s.requests, r.ticket ≠ tk := by
  unfold lookup at h
  intro r hr
  simpa using List.find?_eq_none.1 h r hr

theorem setHandle_filter (rs : List Req) (rid tk : Nat) (h : Option Nat) :
    setHandle (rs.filter (fun q => q.ticket ≠ tk)) rid h = (setHandle rs rid h).filter (fun q => q.ticket ≠ tk) := by
  unfold setHandle
  rw [List.filter_map]
  congr 1
  apply List.filter_congr
  intro q _
  simp only [Function.comp]
  split <;> rfl

/-- state after `remove_request(tk)` for a registered `r` -/
theorem inv_remove {s : State} (h : Inv s) (tk : Nat) (r : Req) (hl : lookup s tk = some r) :
    Inv (step s (.remove tk)).1 := by
  obtain ⟨hr, htk⟩ := lookup_some hl
  have hc := inv_timerCancel h r hr
  simp only [step, hl]
  cases hh : r.handle with
  | none =>
    have key := inv_dropDisarmed h r hr hh
    rw [htk] at key
    cases hto : r.timeout <;> simpa [hh, timerCancel] using key
  | some id =>
    have hto : r.timeout ≠ none := fun h0 => by have := h.handle_timeout r hr h0; simp [hh] at this
    obtain ⟨T, hT⟩ := Option.ne_none_iff_exists'.1 hto
    simp only [hT, timerCancel_some]
    rw [hh, timerCancel_some] at hc
    rw [setHandle_filter]
    have hmem : ({ r with handle := none } : Req) ∈ setHandle s.requests r.rid none := by
      unfold setHandle
      exact List.mem_map.2 ⟨r, hr, by simp⟩
    have := inv_dropDisarmed hc _ hmem rfl
    simpa [htk] using this

/-! ### Timer.start / reschedule -/

theorem inv_setTimeout {s : State} (h : Inv s) (rid n : Nat) :
    Inv { s with requests := setTimeout s.requests rid n } := by
  obtain ⟨a, b, c, d, e, f, g, i⟩ := h
  constructor <;> simp only [setTimeout] <;> try assumption
  · intro r hr
    obtain ⟨r0, hr0, rfl⟩ := List.mem_map.1 hr
    have := b r0 hr0
    split <;> simpa using this
  · intro r1 hr1 r2 hr2 heq
    obtain ⟨q1, hq1, rfl⟩ := List.mem_map.1 hr1
    obtain ⟨q2, hq2, rfl⟩ := List.mem_map.1 hr2
    have : q1 = q2 := c q1 hq1 q2 hq2 (by grind)
    subst this; rfl
  · intro t ht hc
    obtain ⟨r, hr, h1, h2, h3⟩ := f t ht hc
    refine ⟨_, List.mem_map.2 ⟨r, hr, rfl⟩, ?_⟩
    split <;> simp_all
  · intro r hr id hid
    obtain ⟨r0, hr0, rfl⟩ := List.mem_map.1 hr
    have := g r0 hr0 id (by grind)
    grind
  · intro r hr hto
    obtain ⟨r0, hr0, rfl⟩ := List.mem_map.1 hr
    have := i r0 hr0
    grind

theorem inv_timerStart {s : State} (h : Inv s) (rid tk T : Nat)
    (hq : ∃ q ∈ s.requests, q.rid = rid ∧ q.ticket = tk ∧ q.handle = none ∧ q.timeout ≠ none) :
    Inv (timerStart s rid tk T) := by
  obtain ⟨q, hqm, hq1, hq2, hq3, hq4⟩ := hq
  obtain ⟨a, b, c, d, e, f, g, i⟩ := h
  unfold timerStart
  constructor <;> simp only [setHandle] <;> try assumption
  · intro r hr
    obtain ⟨r0, hr0, rfl⟩ := List.mem_map.1 hr
    have := b r0 hr0
    split <;> simpa using this
  · intro r1 hr1 r2 hr2 heq
    obtain ⟨q1, hq1, rfl⟩ := List.mem_map.1 hr1
    obtain ⟨q2, hq2, rfl⟩ := List.mem_map.1 hr2
    have : q1 = q2 := c q1 hq1 q2 hq2 (by grind)
    subst this; rfl
  · intro t ht
    rcases List.mem_append.1 ht with ht | ht
    · have := d t ht; omega
    · simp at ht; subst ht; simp
  · rw [List.pairwise_append]
    refine ⟨e, by simp, ?_⟩
    intro x hx y hy
    simp at hy; subst hy
    have := d x hx
    simp; omega
  · intro t ht hc
    rcases List.mem_append.1 ht with ht | ht
    · obtain ⟨r, hr, h1, h2, h3⟩ := f t ht hc
      have hne : r.rid ≠ rid := by
        intro heq
        have := c r hr q hqm (by omega)
        grind
      exact ⟨r, List.mem_map.2 ⟨r, hr, by simp [hne]⟩, h1, h2, h3⟩
    · simp at ht; subst ht
      exact ⟨{ q with handle := some s.nextTask }, List.mem_map.2 ⟨q, hqm, by simp [hq1]⟩, by simpa using hq1,
        by simpa using hq2, rfl⟩
  · intro r hr id hid
    obtain ⟨r0, hr0, rfl⟩ := List.mem_map.1 hr
    by_cases hr : r0.rid = rid
    · simp only [hr, if_true] at hid ⊢
      refine ⟨_, List.mem_append.2 (.inr (List.mem_singleton.2 rfl)), ?_⟩
      simp at hid; simp [hid]
    · simp only [hr, if_false] at hid ⊢
      obtain ⟨t, ht, h1⟩ := g r0 hr0 id hid
      exact ⟨t, List.mem_append.2 (.inl ht), h1⟩
  · intro r hr hto
    obtain ⟨r0, hr0, rfl⟩ := List.mem_map.1 hr
    by_cases hr : r0.rid = rid
    · have := c r0 hr0 q hqm (by omega)
      subst this
      simp [hr] at hto
      exact absurd hto hq4
    · simp only [hr, if_false] at hto ⊢
      exact i r0 hr0 hto

/-- `requests[tk].timer.reschedule(n)` -/
theorem inv_reschedule {s : State} (h : Inv s) (tk n : Nat) : Inv (step s (.timerReschedule tk n)).1 := by
  simp only [step]
  cases hl : lookup s tk with
  | none => simpa using h
  | some r =>
    obtain ⟨hr, htk⟩ := lookup_some hl
    cases hto : r.timeout with
    | none => simpa [hto] using h
    | some T0 =>
      simp only [hto]
      have hc := inv_timerCancel h r hr
      have hst := inv_setTimeout hc r.rid n
      apply inv_timerStart hst
      -- the request, with its handle cleared by `cancel` and its new timeout
      refine ⟨{ r with handle := none, timeout := some n }, ?_, rfl, rfl, rfl, by simp⟩
      cases hh : r.handle with
      | none =>
        simp only [timerCancel, setTimeout]
        exact List.mem_map.2 ⟨r, hr, by simp [hh]⟩
      | some id =>
        simp only [timerCancel_some, setTimeout, setHandle, List.map_map]
        exact List.mem_map.2 ⟨r, hr, by simp⟩

/-! ### new requests -/

theorem nextTicket_nowrap (initial d : Nat) (h : initial + d + 1 ≤ maxTicket) :
    nextTicket initial (initial + d) = initial + d + 1 := by
  unfold nextTicket
  have : ¬ (initial + d + 1 > maxTicket) := by omega
  simp [this]

theorem newRequest_draws (s : State) (k : Kind) (to : Option Nat) : (newRequest s k to).1.draws = s.draws + 1 := by
  unfold newRequest; cases to <;> simp [timerStart]

theorem newRequest_cfg (s : State) (k : Kind) (to : Option Nat) : (newRequest s k to).1.cfg = s.cfg := by
  unfold newRequest; cases to <;> simp [timerStart]

theorem newRequest_now (s : State) (k : Kind) (to : Option Nat) : (newRequest s k to).1.now = s.now := by
  unfold newRequest; cases to <;> simp [timerStart]

/-- the registration part of `newRequest` (before `Timer.start`) -/
def registered (s : State) (k : Kind) (to : Option Nat) : State :=
  { s with gen := nextTicket s.cfg.initial s.gen, draws := s.draws + 1,
           requests := s.requests.filter (fun r => r.ticket ≠ nextTicket s.cfg.initial s.gen) ++
             [{ rid := s.draws + 1, ticket := nextTicket s.cfg.initial s.gen, kind := k, timeout := to,
                handle := none, results := 0 }] }

theorem newRequest_state (s : State) (k : Kind) (to : Option Nat) :
    (newRequest s k to).1 = match to with
      | none => registered s k none
      | some T => timerStart (registered s k (some T)) (s.draws + 1) (nextTicket s.cfg.initial s.gen) T := by
  unfold newRequest registered; cases to <;> rfl

theorem inv_registered {s : State} (h : Inv s) (k : Kind) (to : Option Nat)
    (hw : s.cfg.initial + s.draws + 1 ≤ maxTicket) : Inv (registered s k to) := by
  obtain ⟨a, b, c, d, e, f, g, i⟩ := h
  have htk : nextTicket s.cfg.initial s.gen = s.cfg.initial + s.draws + 1 := by
    rw [a]; exact nextTicket_nowrap _ _ hw
  unfold registered
  rw [htk]
  constructor <;> simp only [] <;> try assumption
  · omega
  · intro r hr
    rcases List.mem_append.1 hr with hr | hr
    · have := b r (List.mem_filter.1 hr).1; omega
    · simp at hr; subst hr; simp; omega
  · intro r1 h1 r2 h2 heq
    rcases List.mem_append.1 h1 with h1 | h1 <;> rcases List.mem_append.1 h2 with h2 | h2
    · exact c r1 (List.mem_filter.1 h1).1 r2 (List.mem_filter.1 h2).1 heq
    · have := b r1 (List.mem_filter.1 h1).1
      simp at h2; subst h2; simp at heq; omega
    · have := b r2 (List.mem_filter.1 h2).1
      simp at h1; subst h1; simp at heq; omega
    · simp at h1 h2; rw [h1, h2]
  · intro t ht hc
    obtain ⟨q, hq, h1, h2, h3⟩ := f t ht hc
    refine ⟨q, List.mem_append.2 (.inl (List.mem_filter.2 ⟨hq, ?_⟩)), h1, h2, h3⟩
    have := b q hq
    simp; omega
  · intro r hr id hid
    rcases List.mem_append.1 hr with hr | hr
    · exact g r (List.mem_filter.1 hr).1 id hid
    · simp at hr; subst hr; simp at hid
  · intro r hr hto
    rcases List.mem_append.1 hr with hr | hr
    · exact i r (List.mem_filter.1 hr).1 hto
    · simp at hr; subst hr; rfl

theorem inv_newRequest {s : State} (h : Inv s) (k : Kind) (to : Option Nat)
    (hw : NoWrap (newRequest s k to).1) : Inv (newRequest s k to).1 := by
  have hw' : s.cfg.initial + s.draws + 1 ≤ maxTicket := by
    unfold NoWrap at hw; rw [newRequest_draws, newRequest_cfg] at hw; omega
  rw [newRequest_state]
  cases to with
  | none => exact inv_registered h k none hw'
  | some T =>
    apply inv_timerStart (inv_registered h k (some T) hw')
    refine ⟨_, List.mem_append.2 (.inr (List.mem_singleton.2 rfl)), rfl, rfl, rfl, by simp⟩

/-- without a wrap no registered request is overwritten, and the only observation is the `sent` event -/
theorem newRequest_obs {s : State} (h : Inv s) (k : Kind) (to : Option Nat)
    (hw : NoWrap (newRequest s k to).1) :
    (newRequest s k to).2 = [Obs.sent s.now (s.draws + 1) (s.cfg.initial + s.draws + 1)] := by
  have hw' : s.cfg.initial + s.draws + 1 ≤ maxTicket := by
    unfold NoWrap at hw; rw [newRequest_draws, newRequest_cfg] at hw; omega
  have htk : nextTicket s.cfg.initial s.gen = s.cfg.initial + s.draws + 1 := by
    rw [h.gen_eq]; exact nextTicket_nowrap _ _ hw'
  unfold newRequest
  simp only [htk]
  have : s.requests.filter (fun r => r.ticket = s.cfg.initial + s.draws + 1) = [] := by
    apply List.filter_eq_nil_iff.2
    intro r hr
    have := h.req_tk r hr
    simp; omega
  simp [this]

/-! ### the loop runs: timer tasks -/

@[simp] theorem unsetDone_rid (fin : List TTask) (r : Req) : (unsetDone fin r).rid = r.rid := by
  unfold unsetDone; split <;> rfl
@[simp] theorem unsetDone_ticket (fin : List TTask) (r : Req) : (unsetDone fin r).ticket = r.ticket := by
  unfold unsetDone; split <;> rfl
@[simp] theorem unsetDone_timeout (fin : List TTask) (r : Req) : (unsetDone fin r).timeout = r.timeout := by
  unfold unsetDone; split <;> rfl
@[simp] theorem unsetDone_results (fin : List TTask) (r : Req) : (unsetDone fin r).results = r.results := by
  unfold unsetDone; split <;> rfl
theorem unsetDone_handle (fin : List TTask) (r : Req) :
    (unsetDone fin r).handle = if fin.any (fun t => t.rid = r.rid && r.handle == some t.id) then none else r.handle := by
  unfold unsetDone; split <;> rfl

theorem settleTimers_state (s : State) :
    (settleTimers s).1 =
      { s with tasks := (s.tasks.map (startTask s.now)).filter (fun t => !isFinishing s.now t),
               requests := (s.requests.filter (fun r => ((s.tasks.map (startTask s.now)).filter (isDue s.now)).all
                              (fun t => r.ticket ≠ t.ticket))).map
                            (unsetDone ((s.tasks.map (startTask s.now)).filter (isFinishing s.now))) } := by
  simp only [settleTimers, fireAll_state]

theorem isDue_finishing {n : Nat} {t : TTask} (h : isDue n t = true) : isFinishing n t = true := by
  unfold isDue at h; unfold isFinishing; simp_all

/-- core: finishing / firing the timer tasks of a state whose tasks have all taken their first step -/
theorem inv_settleCore {s : State} (h : Inv s) (n : Nat) :
    Inv { s with tasks := s.tasks.filter (fun t => !isFinishing n t),
                 requests := (s.requests.filter (fun r => (s.tasks.filter (isDue n)).all
                                (fun t => r.ticket ≠ t.ticket))).map (unsetDone (s.tasks.filter (isFinishing n))) } := by
  have hinj := h.ticket_inj
  obtain ⟨a, b, c, d, e, f, g, i⟩ := h
  constructor <;> simp only [] <;> try assumption
  · intro r hr
    obtain ⟨q, hq, rfl⟩ := List.mem_map.1 hr
    simpa using b q (List.mem_filter.1 hq).1
  · intro r1 h1 r2 h2 heq
    obtain ⟨q1, hq1, rfl⟩ := List.mem_map.1 h1
    obtain ⟨q2, hq2, rfl⟩ := List.mem_map.1 h2
    have := c q1 (List.mem_filter.1 hq1).1 q2 (List.mem_filter.1 hq2).1 (by simpa using heq)
    subst this; rfl
  · intro t ht; exact d t (List.mem_filter.1 ht).1
  · exact e.filter _
  · intro t ht hc
    obtain ⟨htm, hnf⟩ := List.mem_filter.1 ht
    obtain ⟨q, hq, h1, h2, h3⟩ := f t htm hc
    have hsurv : (s.tasks.filter (isDue n)).all (fun x => q.ticket ≠ x.ticket) = true := by
      rw [List.all_eq_true]
      intro x hx
      obtain ⟨hxm, hxd⟩ := List.mem_filter.1 hx
      have hxc : x.cancelled = false := by unfold isDue at hxd; simp_all
      obtain ⟨qx, hqx, k1, k2, k3⟩ := f x hxm hxc
      have : q.ticket ≠ x.ticket := by
        intro heq
        have hqq := hinj q hq qx hqx (by omega)
        subst hqq
        have hid : t.id = x.id := by simpa [h3] using k3
        have := pairwise_id_inj e t htm x hxm hid
        subst this
        have := isDue_finishing hxd
        simp [this] at hnf
      simpa using this
    have hkeep : (unsetDone (s.tasks.filter (isFinishing n)) q).handle = some t.id := by
      rw [unsetDone_handle]
      have : (s.tasks.filter (isFinishing n)).any (fun x => x.rid = q.rid && q.handle == some x.id) = false := by
        rw [List.any_eq_false]
        intro x hx
        obtain ⟨hxm, hxf⟩ := List.mem_filter.1 hx
        intro hcon
        simp only [Bool.and_eq_true, decide_eq_true_eq, beq_iff_eq] at hcon
        have hid : t.id = x.id := by simpa [h3] using hcon.2
        have := pairwise_id_inj e t htm x hxm hid
        subst this
        simp [hxf] at hnf
      rw [if_neg (by rw [this]; simp)]
      exact h3
    exact ⟨_, List.mem_map.2 ⟨q, List.mem_filter.2 ⟨hq, hsurv⟩, rfl⟩, by simpa using h1, by simpa using h2, hkeep⟩
  · intro r hr id hid
    obtain ⟨q, hq, rfl⟩ := List.mem_map.1 hr
    rw [unsetDone_handle] at hid
    split at hid
    · cases hid
    · rename_i hany
      obtain ⟨t, ht, k1, k2, k3⟩ := g q (List.mem_filter.1 hq).1 id hid
      refine ⟨t, List.mem_filter.2 ⟨ht, ?_⟩, k1, by simpa using k2, k3⟩
      cases hfin : isFinishing n t with
      | false => rfl
      | true =>
        exfalso
        apply hany
        rw [List.any_eq_true]
        refine ⟨t, List.mem_filter.2 ⟨ht, hfin⟩, ?_⟩
        simp [k2, hid, k1]
  · intro r hr hto
    obtain ⟨q, hq, rfl⟩ := List.mem_map.1 hr
    rw [unsetDone_handle]
    have := i q (List.mem_filter.1 hq).1 (by simpa using hto)
    simp [this]

theorem inv_settleTimers {s : State} (h : Inv s) : Inv (settleTimers s).1 := by
  rw [settleTimers_state]
  exact inv_settleCore (inv_mapStart s.now h) s.now

/-! ### wishlist rounds, settle, step -/

theorem wishlistRound_cfg (n : Nat) (s : State) (o : List Obs) : (wishlistRound n s o).1.cfg = s.cfg := by
  induction n generalizing s o with
  | zero => rfl
  | succ n ih => simp only [wishlistRound, ih, newRequest_cfg]

theorem wishlistRound_now (n : Nat) (s : State) (o : List Obs) : (wishlistRound n s o).1.now = s.now := by
  induction n generalizing s o with
  | zero => rfl
  | succ n ih => simp only [wishlistRound, ih, newRequest_now]

theorem wishlistRound_draws (n : Nat) (s : State) (o : List Obs) : (wishlistRound n s o).1.draws = s.draws + n := by
  induction n generalizing s o with
  | zero => rfl
  | succ n ih => simp only [wishlistRound, ih, newRequest_draws]; omega

theorem inv_wishlistRound (n : Nat) {s : State} (o : List Obs) (h : Inv s) (hw : NoWrap (wishlistRound n s o).1) :
    Inv (wishlistRound n s o).1 := by
  induction n generalizing s o with
  | zero => exact h
  | succ n ih =>
    simp only [wishlistRound] at hw ⊢
    apply ih _ _ hw
    apply inv_newRequest h
    unfold NoWrap at hw ⊢
    rw [wishlistRound_cfg, wishlistRound_draws] at hw
    omega

/-- a round only adds `sent` observations, for requests that did not exist before -/
theorem wishlistRound_obs (n : Nat) {s : State} (o : List Obs) (h : Inv s) (hw : NoWrap (wishlistRound n s o).1) :
    ∀ x ∈ (wishlistRound n s o).2, x ∈ o ∨ ∃ rid, x = Obs.sent s.now rid (s.cfg.initial + rid) ∧ s.draws < rid := by
  induction n generalizing s o with
  | zero => intro x hx; exact .inl hx
  | succ n ih =>
    simp only [wishlistRound] at hw ⊢
    have hw1 : NoWrap (newRequest s .wishlist (wishlistTimeout s)).1 := by
      unfold NoWrap at hw ⊢
      rw [wishlistRound_cfg, wishlistRound_draws] at hw
      omega
    intro x hx
    rcases ih _ (inv_newRequest h _ _ hw1) hw x hx with hx | ⟨rid, hx, hlt⟩
    · rw [newRequest_obs h _ _ hw1] at hx
      rcases List.mem_append.1 hx with hx | hx
      · exact .inl hx
      · right; refine ⟨s.draws + 1, ?_, by omega⟩
        simp at hx; rw [hx]; simp [Nat.add_assoc]
    · right
      rw [newRequest_now, newRequest_cfg] at hx
      rw [newRequest_draws] at hlt
      exact ⟨rid, hx, by omega⟩



/-! ### generalisations used by `tick` and by the set-up phases (round 4) -/

/-- any change of the pending tasks that keeps identity, owner and the cancelled flag keeps the invariant -/
theorem inv_mapTasks {s : State} (f : TTask → TTask) (h : Inv s)
    (h1 : ∀ t, (f t).id = t.id) (h2 : ∀ t, (f t).rid = t.rid) (h3 : ∀ t, (f t).ticket = t.ticket)
    (h4 : ∀ t, (f t).cancelled = t.cancelled) : Inv { s with tasks := s.tasks.map f } := by
  obtain ⟨a, b, c, d, e, f', g, i⟩ := h
  constructor <;> simp only [] <;> try assumption
  · intro t ht
    obtain ⟨t0, ht0, rfl⟩ := List.mem_map.1 ht
    rw [h1]; exact d t0 ht0
  · rw [List.pairwise_map]
    exact e.imp (fun hab => by rw [h1, h1]; exact hab)
  · intro t ht hc
    obtain ⟨t0, ht0, rfl⟩ := List.mem_map.1 ht
    rw [h2, h3, h1]
    exact f' t0 ht0 (by rw [h4] at hc; exact hc)
  · intro r hr id hid
    obtain ⟨t, ht, k1, k2, k3⟩ := g r hr id hid
    exact ⟨f t, List.mem_map.2 ⟨t, ht, rfl⟩, by rw [h1]; exact k1, by rw [h2]; exact k2, by rw [h4]; exact k3⟩

/-- core of a loop run, for any choice of the tasks that fire (`D`) and of those that end (`F`): firing tasks are
un-cancelled and end -/
theorem inv_fireCore {s : State} (h : Inv s) (D F : TTask → Bool)
    (hDF : ∀ t, D t = true → F t = true) (hDc : ∀ t, D t = true → t.cancelled = false) :
    Inv { s with tasks := s.tasks.filter (fun t => !F t),
                 requests := (s.requests.filter (fun r => (s.tasks.filter D).all
                                (fun t => r.ticket ≠ t.ticket))).map (unsetDone (s.tasks.filter F)) } := by
  have hinj := h.ticket_inj
  obtain ⟨a, b, c, d, e, f, g, i⟩ := h
  constructor <;> simp only [] <;> try assumption
  · intro r hr
    obtain ⟨q, hq, rfl⟩ := List.mem_map.1 hr
    simpa using b q (List.mem_filter.1 hq).1
  · intro r1 h1 r2 h2 heq
    obtain ⟨q1, hq1, rfl⟩ := List.mem_map.1 h1
    obtain ⟨q2, hq2, rfl⟩ := List.mem_map.1 h2
    have := c q1 (List.mem_filter.1 hq1).1 q2 (List.mem_filter.1 hq2).1 (by simpa using heq)
    subst this; rfl
  · intro t ht; exact d t (List.mem_filter.1 ht).1
  · exact e.filter _
  · intro t ht hc
    obtain ⟨htm, hnf⟩ := List.mem_filter.1 ht
    obtain ⟨q, hq, h1, h2, h3⟩ := f t htm hc
    have hsurv : (s.tasks.filter D).all (fun x => q.ticket ≠ x.ticket) = true := by
      rw [List.all_eq_true]
      intro x hx
      obtain ⟨hxm, hxd⟩ := List.mem_filter.1 hx
      have hxc : x.cancelled = false := hDc x hxd
      obtain ⟨qx, hqx, k1, k2, k3⟩ := f x hxm hxc
      have : q.ticket ≠ x.ticket := by
        intro heq
        have hqq := hinj q hq qx hqx (by omega)
        subst hqq
        have hid : t.id = x.id := by simpa [h3] using k3
        have := pairwise_id_inj e t htm x hxm hid
        subst this
        have := hDF _ hxd
        simp [this] at hnf
      simpa using this
    have hkeep : (unsetDone (s.tasks.filter F) q).handle = some t.id := by
      rw [unsetDone_handle]
      have : (s.tasks.filter F).any (fun x => x.rid = q.rid && q.handle == some x.id) = false := by
        rw [List.any_eq_false]
        intro x hx
        obtain ⟨hxm, hxf⟩ := List.mem_filter.1 hx
        intro hcon
        simp only [Bool.and_eq_true, decide_eq_true_eq, beq_iff_eq] at hcon
        have hid : t.id = x.id := by simpa [h3] using hcon.2
        have := pairwise_id_inj e t htm x hxm hid
        subst this
        simp [hxf] at hnf
      rw [if_neg (by rw [this]; simp)]
      exact h3
    exact ⟨_, List.mem_map.2 ⟨q, List.mem_filter.2 ⟨hq, hsurv⟩, rfl⟩, by simpa using h1, by simpa using h2, hkeep⟩
  · intro r hr id hid
    obtain ⟨q, hq, rfl⟩ := List.mem_map.1 hr
    rw [unsetDone_handle] at hid
    split at hid
    · cases hid
    · rename_i hany
      obtain ⟨t, ht, k1, k2, k3⟩ := g q (List.mem_filter.1 hq).1 id hid
      refine ⟨t, List.mem_filter.2 ⟨ht, ?_⟩, k1, by simpa using k2, k3⟩
      cases hfin : F t with
      | false => rfl
      | true =>
        exfalso
        apply hany
        rw [List.any_eq_true]
        refine ⟨t, List.mem_filter.2 ⟨ht, hfin⟩, ?_⟩
        simp [k2, hid, k1]
  · intro r hr hto
    obtain ⟨q, hq, rfl⟩ := List.mem_map.1 hr
    rw [unsetDone_handle]
    have := i q (List.mem_filter.1 hq).1 (by simpa using hto)
    simp [this]

/-- registering request object `rid` (its ticket was drawn earlier, nothing with that `rid` is registered) -/
theorem inv_addReq {s : State} (h : Inv s) (rid : Nat) (k : Kind) (to : Option Nat)
    (h1 : 1 ≤ rid) (h2 : rid ≤ s.draws) (hf : ∀ r ∈ s.requests, r.rid ≠ rid) :
    Inv { s with requests := s.requests.filter (fun r => r.ticket ≠ s.cfg.initial + rid) ++
            [{ rid := rid, ticket := s.cfg.initial + rid, kind := k, timeout := to, handle := none, results := 0 }] } := by
  obtain ⟨a, b, c, d, e, f, g, i⟩ := h
  constructor <;> simp only [] <;> try assumption
  · intro r hr
    rcases List.mem_append.1 hr with hr | hr
    · exact b r (List.mem_filter.1 hr).1
    · simp at hr; subst hr; simp; omega
  · intro r1 h1' r2 h2' heq
    rcases List.mem_append.1 h1' with h1' | h1' <;> rcases List.mem_append.1 h2' with h2' | h2'
    · exact c r1 (List.mem_filter.1 h1').1 r2 (List.mem_filter.1 h2').1 heq
    · have := hf r1 (List.mem_filter.1 h1').1
      simp at h2'; subst h2'; simp at heq; omega
    · have := hf r2 (List.mem_filter.1 h2').1
      simp at h1'; subst h1'; simp at heq; omega
    · simp at h1' h2'; rw [h1', h2']
  · intro t ht hc
    obtain ⟨q, hq, k1, k2, k3⟩ := f t ht hc
    refine ⟨q, List.mem_append.2 (.inl (List.mem_filter.2 ⟨hq, ?_⟩)), k1, k2, k3⟩
    have := b q hq
    have := hf q hq
    simp; omega
  · intro r hr id hid
    rcases List.mem_append.1 hr with hr | hr
    · exact g r (List.mem_filter.1 hr).1 id hid
    · simp at hr; subst hr; simp at hid
  · intro r hr hto
    rcases List.mem_append.1 hr with hr | hr
    · exact i r (List.mem_filter.1 hr).1 hto
    · simp at hr; subst hr; rfl

theorem fireAll_obs_ok (F : List TTask) (s : State) (o : List Obs)
    (hp : F.Pairwise (fun a b => a.id ≠ b.id))
    (hw : ∀ t ∈ F, ∃ r ∈ s.requests, r.ticket = t.ticket ∧ r.handle = some t.id)
    (hinj : ∀ r1 ∈ s.requests, ∀ r2 ∈ s.requests, r1.ticket = r2.ticket → r1 = r2) :
    ∀ x ∈ (fireAll F s o).2, x ∈ o ∨ ∃ t ∈ F, x = Obs.removed s.now t.rid t.ticket (t.deadline.getD 0) t.id := by
  induction F generalizing s o with
  | nil => intro x hx; exact .inl hx
  | cons t ts ih =>
    rw [List.pairwise_cons] at hp
    obtain ⟨rt, hrt, hrt1, hrt2⟩ := hw t (by simp)
    have hany : s.requests.any (fun r => r.ticket = t.ticket) = true := by
      rw [List.any_eq_true]; exact ⟨rt, hrt, by simpa using hrt1⟩
    have hfire : fireTask s t = ({ s with requests := s.requests.filter (fun r => r.ticket ≠ t.ticket) },
        [Obs.removed s.now t.rid t.ticket (t.deadline.getD 0) t.id]) := by
      unfold fireTask; rw [if_pos hany]
    simp only [fireAll, hfire]
    intro x hx
    have := ih { s with requests := s.requests.filter (fun r => r.ticket ≠ t.ticket) } _ hp.2
      (by
        intro t2 ht2
        obtain ⟨r2, hr2, k1, k2⟩ := hw t2 (by simp [ht2])
        refine ⟨r2, List.mem_filter.2 ⟨hr2, ?_⟩, k1, k2⟩
        have : r2.ticket ≠ t.ticket := by
          intro heq
          have := hinj r2 hr2 rt hrt (by omega)
          subst this
          have : t2.id = t.id := by simpa [k2] using hrt2
          exact hp.1 t2 ht2 this.symm
        simpa using this)
      (by
        intro r1 h1 r2 h2
        exact hinj r1 (List.mem_filter.1 h1).1 r2 (List.mem_filter.1 h2).1)
      x hx
    rcases this with h | ⟨t', ht', h⟩
    · rcases List.mem_append.1 h with h | h
      · exact .inl h
      · right; exact ⟨t, by simp, by simpa using h⟩
    · right; exact ⟨t', by simp [ht'], h⟩

theorem fireAll_obs_eq (F : List TTask) (s : State) (o : List Obs)
    (hp : F.Pairwise (fun a b => a.id ≠ b.id))
    (hw : ∀ t ∈ F, ∃ r ∈ s.requests, r.ticket = t.ticket ∧ r.handle = some t.id)
    (hinj : ∀ r1 ∈ s.requests, ∀ r2 ∈ s.requests, r1.ticket = r2.ticket → r1 = r2) :
    (fireAll F s o).2 = o ++ F.map (fun t => Obs.removed s.now t.rid t.ticket (t.deadline.getD 0) t.id) := by
  induction F generalizing s o with
  | nil => simp [fireAll]
  | cons t ts ih =>
    rw [List.pairwise_cons] at hp
    obtain ⟨rt, hrt, hrt1, hrt2⟩ := hw t (by simp)
    have hany : s.requests.any (fun r => r.ticket = t.ticket) = true := by
      rw [List.any_eq_true]; exact ⟨rt, hrt, by simpa using hrt1⟩
    have hfire : fireTask s t = ({ s with requests := s.requests.filter (fun r => r.ticket ≠ t.ticket) },
        [Obs.removed s.now t.rid t.ticket (t.deadline.getD 0) t.id]) := by
      unfold fireTask; rw [if_pos hany]
    simp only [fireAll, hfire]
    rw [ih { s with requests := s.requests.filter (fun r => r.ticket ≠ t.ticket) } _ hp.2
      (by
        intro t2 ht2
        obtain ⟨r2, hr2, k1, k2⟩ := hw t2 (by simp [ht2])
        refine ⟨r2, List.mem_filter.2 ⟨hr2, ?_⟩, k1, k2⟩
        have : r2.ticket ≠ t.ticket := by
          intro heq
          have := hinj r2 hr2 rt hrt (by omega)
          subst this
          have : t2.id = t.id := by simpa [k2] using hrt2
          exact hp.1 t2 ht2 this.symm
        simpa using this)
      (by
        intro r1 h1 r2 h2
        exact hinj r1 (List.mem_filter.1 h1).1 r2 (List.mem_filter.1 h2).1)]
    simp [List.append_assoc]


end AioslskVerif.Search
