import AioslskVerif.Model.Entitle
import AioslskVerif.Spec.Entitle
import AioslskVerif.Proofs.Query
import AioslskVerif.Proofs.Shares
/-!
Helper lemmas for C08 (`Props/C08.lean`).
-/
namespace AioslskVerif.Entitle
open AioslskVerif AioslskVerif.Shares AioslskVerif.Transfer
open AioslskVerif.Generated.Entitle

/-! ## strings -/

theorem infixB_iff (a : List Ch) (s : List Ch) : infixB a s = true ↔ ∃ l r, s = l ++ a ++ r := by
  induction s with
  | nil =>
    simp only [infixB, List.isEmpty_iff]
    constructor
    · intro h; exact ⟨[], [], by simp [h]⟩
    · rintro ⟨l, r, h⟩
      have := congrArg List.length h
      simp at this
      exact List.eq_nil_of_length_eq_zero (by omega)
  | cons ch s ih =>
    simp only [infixB, Bool.or_eq_true, List.isPrefixOf_iff_prefix, ih]
    constructor
    · rintro (⟨r, hr⟩ | ⟨l, r, h⟩)
      · exact ⟨[], r, by simp [hr]⟩
      · exact ⟨ch :: l, r, by simp [h]⟩
    · rintro ⟨l, r, h⟩
      cases l with
      | nil => left; exact ⟨r, by simpa using h.symm⟩
      | cons c l =>
        right
        simp only [List.cons_append, List.cons.injEq] at h
        exact ⟨l, r, h.2⟩

/-! ## the query loop -/

section
variable {I : Type}

theorem mem_keepLoop (re extra : I → Bool) (cap : Nat) (l acc : List I) (x : I)
    (h : x ∈ Query.keepLoop re extra cap l acc) : x ∈ acc ∨ (x ∈ l ∧ re x = true ∧ extra x = true) := by
  induction l generalizing acc with
  | nil => left; simpa [Query.keepLoop] using h
  | cons it rest ih =>
    simp only [Query.keepLoop] at h
    cases hre : re it with
    | false =>
      simp only [hre, Bool.false_eq_true, if_false] at h
      rcases ih _ h with h | ⟨h1, h2⟩
      · exact Or.inl h
      · exact Or.inr ⟨List.mem_cons_of_mem _ h1, h2⟩
    | true =>
      cases hex : extra it with
      | false =>
        simp only [hre, hex, Bool.false_eq_true, if_false, if_true] at h
        split at h
        · exact Or.inl h
        · rcases ih _ h with h | ⟨h1, h2⟩
          · exact Or.inl h
          · exact Or.inr ⟨List.mem_cons_of_mem _ h1, h2⟩
      | true =>
        simp only [hre, hex, if_true] at h
        have hit : x ∈ acc ++ [it] → x ∈ acc ∨ (x ∈ it :: rest ∧ re x = true ∧ extra x = true) := by
          intro h
          rcases List.mem_append.1 h with h | h
          · exact Or.inl h
          · simp only [List.mem_singleton] at h; subst h; exact Or.inr ⟨by simp, hre, hex⟩
        split at h
        · exact hit h
        · rcases ih _ h with h | ⟨h1, h2⟩
          · exact hit h
          · exact Or.inr ⟨List.mem_cons_of_mem _ h1, h2⟩

end

theorem mem_query {Ch' : Type} [DecidableEq Ch'] (K : Query.Cls Ch') {I : Type} [DecidableEq I] (qp' : I → List Ch')
    (cap : Nat) (extra : I → Bool) (tm : List I) (q : Query.Query Ch') (x : I)
    (h : x ∈ Query.query K qp' cap extra tm q) :
    x ∈ tm ∧ Query.matchesRegex K q (qp' x) = true ∧ extra x = true := by
  simp only [Query.query] at h
  split at h
  · simp at h
  · rcases mem_keepLoop _ _ _ _ _ _ h with h | ⟨h1, h2, h3⟩
    · simp at h
    · exact ⟨(Query.prefilter_sublist K qp' tm q).subset h1, h2, h3⟩

/-! ## the state table restricted to what the cycle and the requests use -/

theorem mem_allSt (st : St) : st ∈ allSt := by cases st <;> simp [allSt]

/-- a method other than `queue` is refused in ABORTED -/
theorem methSR_aborted (m : Meth) (hm : m ≠ .queue) (r : Option Reason) (a : Option Reason) :
    methSR m r (.aborted, a) = ((.aborted, a), false) := by
  cases m <;> first | exact absurd rfl hm | rfl

theorem applyMeth_aborted (m : Meth) (hm : m ≠ .queue) (r : Option Reason) (x : Xfer) (hx : x.state = .aborted) :
    applyMeth m r x = (x, false) := by
  cases x with
  | mk u p st a =>
    simp only at hx
    subst hx
    simp [applyMeth, Xfer.sr, Xfer.withSR, methSR_aborted m hm]

/-- `fail` never produces QUEUED -/
theorem fail_not_queued (r : Option Reason) (x : Xfer) (h : (applyMeth .fail r x).1.state = .queued) :
    (applyMeth .fail r x).1 = x := by
  cases x with
  | mk u p st a =>
    cases st <;> simp [applyMeth, Xfer.sr, Xfer.withSR, methSR, Generated.Transfer.implStep] at h ⊢

theorem newUpload_eq (u : Name) (p : List Ch) : newUpload u p = { user := u, path := p, state := .queued, reason := none } := by
  rfl

/-! ## lists of uploads -/

theorem updFirst_getElem? (p : Xfer → Bool) (f : Xfer → Xfer) (xs : List Xfer) (k : Nat) (y : Xfer)
    (h : xs[k]? = some y) :
    (updFirst p f xs)[k]? = some y ∨ (xs.find? p = some y ∧ (updFirst p f xs)[k]? = some (f y)) := by
  induction xs generalizing k with
  | nil => simp at h
  | cons z l ih =>
    simp only [updFirst]
    by_cases hz : p z = true
    · simp only [hz, if_true]
      cases k with
      | zero =>
        simp only [List.getElem?_cons_zero, Option.some.injEq] at h
        subst h
        right
        simp [List.find?, hz]
      | succ k =>
        left
        simpa using h
    · simp only [hz]
      cases k with
      | zero => left; simpa using h
      | succ k =>
        simp only [List.getElem?_cons_succ] at h ⊢
        rcases ih k h with h' | ⟨h1, h2⟩
        · exact Or.inl h'
        · right
          refine ⟨?_, h2⟩
          simp only [List.find?]
          simp [hz, h1]

theorem mem_updFirst (p : Xfer → Bool) (f : Xfer → Xfer) (xs : List Xfer) (x' : Xfer) (h : x' ∈ updFirst p f xs) :
    x' ∈ xs ∨ ∃ y, xs.find? p = some y ∧ x' = f y := by
  induction xs with
  | nil => simp [updFirst] at h
  | cons z l ih =>
    simp only [updFirst] at h
    cases hz : p z with
    | true =>
      simp only [hz, if_true, List.mem_cons] at h
      rcases h with h | h
      · right; exact ⟨z, by simp [List.find?, hz], h⟩
      · left; exact List.mem_cons_of_mem _ h
    | false =>
      simp only [hz, Bool.false_eq_true, if_false, List.mem_cons] at h
      rcases h with h | h
      · left; simp [h]
      · rcases ih h with h | ⟨y, h1, h2⟩
        · left; exact List.mem_cons_of_mem _ h
        · right; exact ⟨y, by simp [List.find?, hz, h1], h2⟩

theorem length_updFirst (p : Xfer → Bool) (f : Xfer → Xfer) (xs : List Xfer) : (updFirst p f xs).length = xs.length := by
  induction xs with
  | nil => rfl
  | cons z l ih => simp only [updFirst]; split <;> simp [ih]

/-! ## `findShared` -/

theorem findShared_some (c : Cfg) (sh : Shares.St Comp) (u : Name) (path : List Ch) (it : SItem)
    (h : findShared c sh u path = some it) :
    it ∈ sh.items ∧ remotePath c it = path ∧ locked c it.sd u = false := by
  simp only [findShared] at h
  split at h
  · simp at h
  · rename_i it' hf
    split at h
    · simp at h
    · rename_i hl
      simp only [Option.some.injEq] at h
      subst h
      refine ⟨List.mem_of_find?_eq_some hf, ?_, by simpa using hl⟩
      simpa using List.find?_some hf

/-! ## the index stays well-formed under the share operations of `step` -/

theorem add_paths_mono (sh : Shares.St Comp) (p q : List Comp) (h : q ∈ sh.paths) : q ∈ (add sh p).1.paths := by
  unfold add
  split
  · exact h
  · split <;> exact List.mem_append_left _ h

theorem mem_add_paths (sh : Shares.St Comp) (p : List Comp) : p ∈ (add sh p).1.paths := by
  unfold add
  split
  · assumption
  · split <;> simp

theorem foldAdd_inv (ps : List (List Comp)) (sh : Shares.St Comp) (h : Shares.Inv sh) :
    Shares.Inv (ps.foldl (fun s p => (add s p).1) sh) := by
  induction ps generalizing sh with
  | nil => exact h
  | cons p ps ih => exact ih _ (inv_add sh p h)

theorem foldAdd_paths_mono (ps : List (List Comp)) (sh : Shares.St Comp) (q : List Comp) (h : q ∈ sh.paths) :
    q ∈ (ps.foldl (fun s p => (add s p).1) sh).paths := by
  induction ps generalizing sh with
  | nil => exact h
  | cons p ps ih => exact ih _ (add_paths_mono sh p q h)

theorem foldAdd_paths (ps : List (List Comp)) (sh : Shares.St Comp) (q : List Comp) (h : q ∈ ps) :
    q ∈ (ps.foldl (fun s p => (add s p).1) sh).paths := by
  induction ps generalizing sh with
  | nil => simp at h
  | cons p ps ih =>
    simp only [List.foldl_cons]
    rcases List.mem_cons.1 h with rfl | h
    · exact foldAdd_paths_mono ps _ _ (mem_add_paths sh q)
    · exact ih _ h

/-- `load_from_settings()` leaves a well-formed index: exactly the listed directories, every item
in the innermost listed directory that holds it, term map = index. -/
theorem inv_reloadSh (sh : Shares.St Comp) (ps : List (List Comp)) (h : Shares.Inv sh) (hn : ps.Nodup) :
    Shares.Inv (reloadSh sh ps) ∧ (reloadSh sh ps).paths = ps := by
  have h1 := foldAdd_inv ps sh h
  refine ⟨⟨hn, ?_, ?_, (List.filter_sublist).nodup h1.items_nodup, (List.filter_sublist).nodup h1.items_nodup,
    fun _ => Iff.rfl⟩, rfl⟩
  · intro it hit
    simp only [reloadSh, List.mem_filter, List.contains_iff_mem] at hit
    exact hit.2
  · intro it hit q hq hpre
    simp only [reloadSh, List.mem_filter] at hit
    exact h1.innermost it hit.1 q (foldAdd_paths ps sh q hq) hpre

theorem inv_reload (sh : Shares.St Comp) (ps : List (List Comp)) (disk : List (File Comp)) (h : Shares.Inv sh)
    (hn : ps.Nodup) :
    Shares.Inv (ps.foldl (fun sh p => scanDir sh p disk) (reloadSh sh ps)) ∧
      (ps.foldl (fun sh p => scanDir sh p disk) (reloadSh sh ps)).paths = ps := by
  obtain ⟨h1, h2⟩ := inv_reloadSh sh ps h hn
  obtain ⟨h3, h4⟩ := inv_scanAll disk ps (reloadSh sh ps) h1 (by intro p hp; rw [h2]; exact hp)
  exact ⟨h3, h4.trans h2⟩

theorem inv_step_sh (s : S) (op : Op) (h : Shares.Inv s.sh) : Shares.Inv (step s op).1.sh := by
  cases op with
  | share d disk =>
    simp only [step]
    split
    · rename_i hr
      have h1 : Shares.Inv (add s.sh d.path).1 := inv_add s.sh d.path h
      exact (inv_scanDir _ _ disk h1 (mem_add_paths s.sh d.path)).1
    · exact h
  | unshare p =>
    simp only [step]
    split
    · exact inv_remove s.sh p h
    · exact h
  | setMode p m => simp only [step]; split <;> exact h
  | cycle => simp only [step]; repeat' split
             all_goals exact h
  | poll => simp only [step]; split <;> exact h
  | reload es disk =>
    simp only [step]
    split
    · exact h
    · rename_i hn
      exact (inv_reload s.sh _ disk h (by simpa using hn)).1
  | scanAll disk => exact (inv_scanAll disk s.sh.paths s.sh h (fun _ hp => hp)).1
  | _ => exact h

theorem inv_run_sh (ops : List Op) (s : S) (h : Shares.Inv s.sh) : Shares.Inv (run s ops).sh := by
  induction ops generalizing s with
  | nil => exact h
  | cons op ops ih =>
    simp only [run, List.foldl_cons]
    exact ih _ (inv_step_sh s op h)

/-! ## admission, reconciliation, stickiness (used by `Props/C08.lean`) -/

theorem applyMeth_key (m : Meth) (r : Option Reason) (x : Xfer) :
    (applyMeth m r x).1.user = x.user ∧ (applyMeth m r x).1.path = x.path := by
  simp [applyMeth, Xfer.withSR]

theorem entitled_of_findShared {c : Cfg} {sh : Shares.St Comp} {u : Name} {p : List Ch} {it : SItem}
    (h : findShared c sh u p = some it) : Entitled c sh u p :=
  ⟨it, (findShared_some c sh u p it h).1, (findShared_some c sh u p it h).2.1, (findShared_some c sh u p it h).2.2⟩

theorem admit_refused (c : Cfg) (sh : Shares.St Comp) (xs : List Xfer) (u : Name) (p : List Ch) :
    AdmitSound c sh xs u p (xs, some .notShared) :=
  ⟨fun _ h hn => absurd h hn, fun h => absurd h (Nat.lt_irrefl _), Nat.le_refl _, fun _ => rfl⟩

theorem admit_unchanged (c : Cfg) (sh : Shares.St Comp) (xs : List Xfer) (u : Name) (p : List Ch) (r : Option FailR)
    (hb : isBlocked c u 32 = false) (hE : Entitled c sh u p) : AdmitSound c sh xs u p (xs, r) :=
  ⟨fun _ h hn => absurd h hn, fun h => absurd h (Nat.lt_irrefl _), Nat.le_refl _, fun h => by
    rcases h with h | h
    · rw [hb] at h; cases h
    · exact absurd hE h⟩

theorem admit_new (c : Cfg) (sh : Shares.St Comp) (xs : List Xfer) (u : Name) (p : List Ch) (r : Option FailR)
    (hb : isBlocked c u 32 = false) (hE : Entitled c sh u p) : AdmitSound c sh xs u p (xs ++ [newUpload u p], r) := by
  refine ⟨?_, fun _ => ⟨hb, hE⟩, by simp, ?_⟩
  · intro x' hx' hn _
    simp only [List.mem_append, List.mem_singleton] at hx'
    rcases hx' with hx' | rfl
    · exact absurd hx' hn
    · exact ⟨hb, hE, rfl, rfl⟩
  · rintro (h | h)
    · rw [hb] at h; cases h
    · exact absurd hE h

theorem admit_failed (c : Cfg) (sh : Shares.St Comp) (xs : List Xfer) (u : Name) (p : List Ch) (y : Xfer)
    (hfind : xs.find? (sameKey u p) = some y) :
    AdmitSound c sh xs u p (updFirst (sameKey u p) (fun y => (applyMeth .fail none y).1) xs, some .notShared) := by
  have hymem : y ∈ xs := List.mem_of_find?_eq_some hfind
  refine ⟨?_, by simp [length_updFirst], by simp [length_updFirst], fun _ => rfl⟩
  intro x' hx' hn hst
  rcases mem_updFirst _ _ _ _ hx' with h | ⟨z, hz, rfl⟩
  · exact absurd h hn
  · rw [hfind] at hz
    cases hz
    rw [fail_not_queued none y hst] at hn
    exact absurd hymem hn

theorem admit_requeued (c : Cfg) (sh : Shares.St Comp) (xs : List Xfer) (u : Name) (p : List Ch) (y : Xfer)
    (hfind : xs.find? (sameKey u p) = some y) (hb : isBlocked c u 32 = false) (hE : Entitled c sh u p) :
    AdmitSound c sh xs u p (updFirst (sameKey u p) (fun y => (applyMeth .queue none y).1) xs, none) := by
  have hy : sameKey u p y = true := by simpa using List.find?_some hfind
  refine ⟨?_, by simp [length_updFirst], by simp [length_updFirst], ?_⟩
  · intro x' hx' hn _
    rcases mem_updFirst _ _ _ _ hx' with h | ⟨z, hz, rfl⟩
    · exact absurd h hn
    · rw [hfind] at hz
      cases hz
      simp only [sameKey, Bool.and_eq_true, decide_eq_true_eq] at hy
      exact ⟨hb, hE, (applyMeth_key _ _ y).1.trans hy.1, (applyMeth_key _ _ y).2.trans hy.2⟩
  · rintro (h | h)
    · rw [hb] at h; cases h
    · exact absurd hE h

theorem onQueue_sound (c : Cfg) (sh : Shares.St Comp) (xs : List Xfer) (u : Name) (p : List Ch) :
    AdmitSound c sh xs u p (onQueue c sh xs u p) := by
  have hq : queueFlag = 32 := rfl
  have hr : queueBlockedReason = .notShared := rfl
  simp only [onQueue, hq, hr]
  cases hb : isBlocked c u 32 with
  | true => exact admit_refused c sh xs u p
  | false =>
    simp only [Bool.false_eq_true, if_false]
    cases hfind : xs.find? (sameKey u p) with
    | none =>
      cases hsh : findShared c sh u p with
      | none => exact admit_refused c sh xs u p
      | some it => exact admit_new c sh xs u p _ hb (entitled_of_findShared hsh)
    | some y =>
      cases hsh : findShared c sh u p with
      | none => exact admit_failed c sh xs u p y hfind
      | some it =>
        have hE := entitled_of_findShared hsh
        simp only
        split
        · exact admit_unchanged c sh xs u p _ hb hE
        · split
          · exact admit_requeued c sh xs u p y hfind hb hE
          · exact admit_unchanged c sh xs u p _ hb hE

theorem onRequest_sound (c : Cfg) (sh : Shares.St Comp) (xs : List Xfer) (u : Name) (p : List Ch) :
    AdmitSound c sh xs u p (onRequest c sh xs u p) := by
  have hq : requestFlag = 32 := rfl
  have hr : requestBlockedReason = .notShared := rfl
  simp only [onRequest, hq, hr]
  cases hb : isBlocked c u 32 with
  | true => exact admit_refused c sh xs u p
  | false =>
    simp only [Bool.false_eq_true, if_false]
    cases hfind : xs.find? (sameKey u p) with
    | none =>
      cases hsh : findShared c sh u p with
      | none => exact admit_refused c sh xs u p
      | some it => exact admit_new c sh xs u p _ hb (entitled_of_findShared hsh)
    | some y =>
      cases hsh : findShared c sh u p with
      | none => exact admit_failed c sh xs u p y hfind
      | some it => exact admit_unchanged c sh xs u p _ hb (entitled_of_findShared hsh)

theorem reconcileSR_table (b n : Bool) (st : St) (r : Option Reason)
    (h1 : st ≠ .complete) (h2 : st ≠ .failed) (h3 : st ≠ .virgin) :
    (r = some .requested → st = .aborted → reconcileSR b n (st, r) = (st, r)) ∧
    (r ≠ some .requested → b = true → reconcileSR b n (st, r) = (.aborted, some .blocked)) ∧
    (r ≠ some .requested → b = false → n = true → reconcileSR b n (st, r) = (.aborted, some .notShared)) ∧
    (r ≠ some .requested → b = false → n = false → st = .aborted → reconcileSR b n (st, r) = (.queued, none)) ∧
    (r ≠ some .requested → b = false → n = false → st ≠ .aborted → reconcileSR b n (st, r) = (st, r)) := by
  cases b <;> cases n <;> cases st <;> rcases r with _ | r <;> (try cases r) <;>
    first
    | exact absurd rfl h1
    | exact absurd rfl h2
    | exact absurd rfl h3
    | (refine ⟨?_, ?_, ?_, ?_, ?_⟩ <;> intros <;> first | contradiction | decide)

theorem findShared_isNone_iff (c : Cfg) (sh : Shares.St Comp) (hU : UniquePaths c sh) (u : Name) (p : List Ch) :
    (findShared c sh u p).isNone = true ↔ ¬ Entitled c sh u p := by
  constructor
  · intro h hE
    obtain ⟨it, hit, hp, hl⟩ := hE
    simp only [findShared] at h
    cases hf : sh.items.find? (fun it => remotePath c it = p) with
    | none =>
      have := List.find?_eq_none.1 hf it hit
      simp [hp] at this
    | some it' =>
      have h1 : it' ∈ sh.items := List.mem_of_find?_eq_some hf
      have h2 : remotePath c it' = p := by simpa using List.find?_some hf
      have : it' = it := hU it' h1 it hit (h2.trans hp.symm)
      subst this
      simp [hf, hl] at h
  · intro h
    cases hf : findShared c sh u p with
    | none => rfl
    | some it => exact absurd (entitled_of_findShared hf) h

theorem reconcile1_spec (c : Cfg) (sh : Shares.St Comp) (hU : UniquePaths c sh) (x : Xfer)
    (h1 : x.state ≠ .complete) (h2 : x.state ≠ .failed) (h3 : x.state ≠ .virgin) :
    Reconciled c sh x (reconcile1 c sh x) := by
  have he : evalFlag = 32 := rfl
  obtain ⟨t1, t2, t3, t4, t5⟩ := reconcileSR_table (userBlocked c x) (fileNotShared c sh x) x.state x.reason h1 h2 h3
  have hn := findShared_isNone_iff c sh hU x.user x.path
  cases x with
  | mk u p st r =>
    simp only [reconcile1, reconcileX, Xfer.sr, Xfer.withSR, userBlocked, fileNotShared, he] at *
    refine ⟨rfl, rfl, ?_, ?_⟩
    · intro ha hr
      rw [t1 hr ha]
    · intro hr
      refine ⟨?_, ?_, ?_, ?_⟩
      · intro hb
        rw [t2 hr hb]; exact ⟨rfl, rfl⟩
      · intro hb hE
        rw [t3 hr hb (hn.2 hE)]; exact ⟨rfl, rfl⟩
      · intro hb hE ha
        have : (findShared c sh u p).isNone = false := by
          cases hh : (findShared c sh u p).isNone with
          | false => rfl
          | true => exact absurd hE (hn.1 hh)
        rw [t4 hr hb this ha]; exact ⟨rfl, rfl⟩
      · intro hb hE ha
        have : (findShared c sh u p).isNone = false := by
          cases hh : (findShared c sh u p).isNone with
          | false => rfl
          | true => exact absurd hE (hn.1 hh)
        rw [t5 hr hb this ha]

theorem sticky_updFirst (p : Xfer → Bool) (f : Xfer → Xfer) (xs : List Xfer) (k : Nat) (x : Xfer)
    (hk : xs[k]? = some x) (hf : f x = x ∨ ∀ y, xs.find? p = some y → y ≠ x) :
    (updFirst p f xs)[k]? = some x := by
  rcases updFirst_getElem? p f xs k x hk with h | ⟨h1, h2⟩
  · exact h
  · rcases hf with hf | hf
    · rw [h2, hf]
    · exact absurd rfl (hf x h1)

/-! ## state locks -/

theorem flightOf_map (fs : List Flight) (g : Flight → Flight) (hg : ∀ f, (g f).k = f.k) (k : Nat) :
    flightOf (fs.map g) k = (flightOf fs k).map g := by
  induction fs with
  | nil => rfl
  | cons f l ih =>
    simp only [flightOf, List.map_cons, List.find?_cons, hg] at ih ⊢
    split
    · rfl
    · exact ih

theorem isLocked_map (fs : List Flight) (g : Flight → Flight) (hg : ∀ f, (g f).k = f.k) (k : Nat) :
    isLocked (fs.map g) k = isLocked fs k := by
  simp [isLocked, flightOf_map fs g hg]

theorem isLocked_addWaiter (fs : List Flight) (k' : Nat) (c : Call) (k : Nat) :
    isLocked (addWaiter fs k' c) k = isLocked fs k :=
  isLocked_map fs _ (fun f => by split <;> rfl) k

theorem isLocked_reconcileL (c : Cfg) (sh : Shares.St Comp) (fs : List Flight) (xs : List Xfer) (k : Nat) :
    isLocked (reconcileL c sh fs xs).2 k = isLocked fs k :=
  isLocked_map fs _ (fun f => by
    split
    · split <;> rfl
    · rfl) k

theorem isLocked_append (fs : List Flight) (f : Flight) (k : Nat) :
    isLocked (fs ++ [f]) k = (isLocked fs k || decide (f.k = k)) := by
  simp only [isLocked, flightOf, List.find?_append, List.find?_cons, List.find?_nil]
  cases hf : fs.find? (fun f => decide (f.k = k)) with
  | some g => simp
  | none =>
    by_cases hk : f.k = k <;> simp [hk]

theorem isLocked_filter (fs : List Flight) (k k' : Nat) (h : isLocked fs k = false) :
    isLocked (fs.filter (fun g => g.k ≠ k')) k = false := by
  simp only [isLocked, flightOf, Option.isSome_eq_false_iff, Option.isNone_iff_eq_none, List.find?_eq_none] at h ⊢
  intro g hg
  exact h g (List.mem_filter.1 hg).1

theorem getElem?_reconcileFrom (c : Cfg) (sh : Shares.St Comp) (fs : List Flight) (xs : List Xfer) (i j : Nat) :
    (reconcileFrom c sh fs i xs)[j]? = (xs[j]?).map (fun x => (cycleOne c sh fs (i + j) x).1) := by
  induction xs generalizing i j with
  | nil => simp [reconcileFrom]
  | cons x l ih =>
    cases j with
    | zero => simp [reconcileFrom]
    | succ j =>
      simp only [reconcileFrom, List.getElem?_cons_succ]
      rw [ih]
      have : i + 1 + j = i + (j + 1) := by omega
      rw [this]

theorem length_reconcileFrom (c : Cfg) (sh : Shares.St Comp) (fs : List Flight) (xs : List Xfer) (i : Nat) :
    (reconcileFrom c sh fs i xs).length = xs.length := by
  induction xs generalizing i with
  | nil => rfl
  | cons x l ih => simp [reconcileFrom, ih]

/-- an upload whose lock is free is reconciled by the cycle as if there were no locks at all -/
theorem cycleOne_free (c : Cfg) (sh : Shares.St Comp) (fs : List Flight) (k : Nat) (x : Xfer)
    (h : isLocked fs k = false) : (cycleOne c sh fs k x).1 = reconcile1 c sh x := by
  simp [cycleOne, h, reconcile1, reconcileX, reconcileSR]

/-- with no lock held `manage_shares_changed` is the plain map over the uploads -/
theorem reconcileL_free (c : Cfg) (sh : Shares.St Comp) (xs : List Xfer) :
    reconcileL c sh [] xs = (reconcile c sh xs, []) := by
  simp only [reconcileL, List.map_nil, Prod.mk.injEq, and_true]
  apply List.ext_getElem?
  intro j
  rw [getElem?_reconcileFrom]
  simp only [reconcile, List.getElem?_map]
  cases xs[j]? with
  | none => rfl
  | some x => simp [cycleOne_free c sh [] _ x rfl]

theorem sticky_step (s : S) (op : Op) (k : Nat) (x : Xfer) (hk : s.xs[k]? = some x)
    (ha : x.state = .aborted) (hr : x.reason = some .requested) (hfree : isLocked s.flights k = false)
    (hop : Op.requeues k op = false) :
    (step s op).1.xs[k]? = some x ∧ isLocked (step s op).1.flights k = false := by
  have hfail : (applyMeth .fail none x).1 = x := by rw [applyMeth_aborted .fail (by decide) none x ha]
  have hlt : k < s.xs.length := (List.getElem?_eq_some_iff.1 hk).1
  -- a call on upload `k'` that is not a re-queue of `k`
  have hcall : ∀ (k' : Nat) (c : Call), (k' = k → c.m ≠ .queue) →
      (callOn s.xs s.flights k' c).1.1[k]? = some x ∧ isLocked (callOn s.xs s.flights k' c).1.2 k = false := by
    intro k' c hc
    simp only [callOn]
    split
    · exact ⟨hk, by rw [isLocked_addWaiter]; exact hfree⟩
    · refine ⟨?_, hfree⟩
      simp only [modifyAt]
      split
      · exact hk
      · rename_i y hy
        by_cases hkk : k' = k
        · subst hkk
          rw [hk] at hy
          cases hy
          rw [applyMeth_aborted c.m (hc rfl) _ x ha]
          simp [hlt]
        · simp only [List.getElem?_set]
          simp [hkk, hk]
  cases op with
  | queueReq u p =>
    refine ⟨?_, hfree⟩
    simp only [step, guarded]
    split
    · exact hk
    simp only [onQueue]
    split
    · exact hk
    · split
      · split
        · exact hk
        · rw [List.getElem?_append_left hlt]
          exact hk
      · rename_i y hfind
        split
        · exact sticky_updFirst _ _ _ _ _ hk (Or.inl hfail)
        · split
          · exact hk
          · split
            · rename_i hst
              refine sticky_updFirst _ _ _ _ _ hk (Or.inr ?_)
              intro z hz hzx
              rw [hfind] at hz
              cases hz
              subst hzx
              rw [ha] at hst
              revert hst
              decide
            · exact hk
  | xferReq u p =>
    refine ⟨?_, hfree⟩
    simp only [step, guarded]
    split
    · exact hk
    simp only [onRequest]
    split
    · exact hk
    · split
      · split
        · exact hk
        · rw [List.getElem?_append_left hlt]
          exact hk
      · split
        · exact sticky_updFirst _ _ _ _ _ hk (Or.inl hfail)
        · exact hk
  | cycle =>
    simp only [step]
    split
    · exact ⟨hk, hfree⟩
    split
    · refine ⟨?_, by rw [isLocked_reconcileL]; exact hfree⟩
      simp only [reconcileL, getElem?_reconcileFrom, hk, Option.map_some, Option.some.injEq, Nat.zero_add]
      rw [cycleOne_free _ _ _ _ _ hfree]
      cases x with
      | mk u p st r =>
        simp only at ha hr
        subst ha hr
        simp only [reconcile1, reconcileX, Xfer.sr, Xfer.withSR]
        have := (reconcileSR_table (userBlocked s.cfg ⟨u, p, .aborted, some .requested⟩)
          (fileNotShared s.cfg s.sh ⟨u, p, .aborted, some .requested⟩) .aborted (some .requested)
          (by decide) (by decide) (by decide)).1 rfl rfl
        rw [this]
    · exact ⟨hk, hfree⟩
  | meth k' m =>
    exact hcall k' { m := m } (fun hkk hm => by
      simp only [Op.requeues, hkk, decide_true, Bool.true_and, decide_eq_false_iff_not] at hop
      exact hop hm)
  | userAbort k' => exact hcall k' { m := .abort, r := some .requested } (fun _ => by decide)
  | userQueue k' =>
    exact hcall k' { m := .queue } (fun hkk => by simp [Op.requeues, hkk] at hop)
  | beginCall k' c ph =>
    have hc : k' = k → c.m ≠ .queue := fun hkk hm => by simp [Op.requeues, hkk, hm] at hop
    simp only [step, beginOn]
    split
    · exact hcall k' c hc
    · split
      · exact ⟨hk, hfree⟩
      · rename_i y hy
        by_cases hkk : k' = k
        · subst hkk
          rw [hk] at hy
          cases hy
          have hnone : Generated.Transfer.implStep .upload x.state c.m = none := by
            rw [ha]
            have := hc rfl
            cases hm : c.m <;> first | exact absurd hm this | rfl
          simp only [hnone]
          exact ⟨hk, hfree⟩
        · have hset : ∀ z, (s.xs.set k' z)[k]? = some x := by
            intro z
            simp only [List.getElem?_set]
            simp [hkk, hk]
          have happ : ∀ f : Flight, f.k = k' → isLocked (s.flights ++ [f]) k = false := by
            intro f hf
            rw [isLocked_append, hfree, hf]
            simp [hkk]
          split
          · exact ⟨hk, hfree⟩
          · split
            · split
              · exact ⟨hset _, happ _ rfl⟩
              · exact ⟨hset _, hfree⟩
            · exact ⟨hset _, happ _ rfl⟩
  | endCall k' =>
    simp only [step, endOn]
    split
    · rename_i f y hf hy
      by_cases hkk : k' = k
      · subst hkk
        simp [isLocked, hf] at hfree
      · refine ⟨?_, isLocked_filter _ _ _ hfree⟩
        simp only [List.getElem?_set]
        simp [hkk, hk]
    · exact ⟨hk, hfree⟩
  | share d disk => simp only [step]; split <;> exact ⟨hk, hfree⟩
  | unshare p => simp only [step]; split <;> exact ⟨hk, hfree⟩
  | setMode p m => simp only [step]; split <;> exact ⟨hk, hfree⟩
  | poll => simp only [step]; split <;> exact ⟨hk, hfree⟩
  | reload es disk => simp only [step]; split <;> exact ⟨hk, hfree⟩
  | _ => exact ⟨hk, hfree⟩

/-! ## calls that run behind a state lock -/

theorem runCalls_cons (c : Call) (cs : List Call) (sr : St × Option Reason) :
    runCalls (c :: cs) sr = runCalls cs (runCall c sr) := rfl

theorem runCalls_append (cs ds : List Call) (sr : St × Option Reason) :
    runCalls (cs ++ ds) sr = runCalls ds (runCalls cs sr) := by
  simp [runCalls, List.foldl_append]

/-- an abort that gets its turn leaves the upload ABORTED for its reason — or is refused, because
the upload is not live (any more) -/
theorem abort_lands (r : Option Reason) (j : Bool) (sr : St × Option Reason) :
    runCall { m := .abort, r := r, job := j } sr = (.aborted, r) ∨
    (runCall { m := .abort, r := r, job := j } sr = sr ∧
      (sr.1 = .virgin ∨ sr.1 = .complete ∨ sr.1 = .failed ∨ sr.1 = .aborted)) := by
  obtain ⟨st, a⟩ := sr
  cases st <;> simp [runCall, methSR, Generated.Transfer.implStep, effReason]

/-- one call: ABORTED afterwards means ABORTED before and untouched, or the call is an abort that
left its reason -/
theorem runCall_aborted (c : Call) (sr : St × Option Reason) (h : (runCall c sr).1 = .aborted) :
    (sr.1 = .aborted ∧ runCall c sr = sr) ∨ (c.m = .abort ∧ (runCall c sr).2 = c.r) := by
  obtain ⟨m, r, j⟩ := c
  obtain ⟨st, a⟩ := sr
  cases m <;> cases st <;> simp [runCall, methSR, Generated.Transfer.implStep, effReason] at h ⊢

theorem runCalls_aborted (all cs : List Call) (hsub : ∀ c ∈ cs, c ∈ all) (sr : St × Option Reason)
    (h0 : sr.1 = .aborted → ∃ c ∈ all, c.m = .abort ∧ sr.2 = c.r)
    (h : (runCalls cs sr).1 = .aborted) : ∃ c ∈ all, c.m = .abort ∧ (runCalls cs sr).2 = c.r := by
  induction cs generalizing sr with
  | nil => exact h0 h
  | cons c cs ih =>
    rw [runCalls_cons] at h ⊢
    apply ih (fun d hd => hsub d (by simp [hd])) (runCall c sr) _ h
    intro ha
    rcases runCall_aborted c sr ha with ⟨h1, h2⟩ | ⟨h1, h2⟩
    · rw [h2]; exact h0 h1
    · exact ⟨c, hsub c (by simp), h1, h2⟩

theorem runCall_not_virgin (c : Call) (sr : St × Option Reason) (h : sr.1 ≠ .virgin) :
    (runCall c sr).1 ≠ .virgin := by
  obtain ⟨m, r, j⟩ := c
  obtain ⟨st, a⟩ := sr
  cases m <;> cases st <;> simp [runCall, methSR, Generated.Transfer.implStep] at h ⊢

theorem runCalls_not_virgin (cs : List Call) (sr : St × Option Reason) (h : sr.1 ≠ .virgin) :
    (runCalls cs sr).1 ≠ .virgin := by
  induction cs generalizing sr with
  | nil => exact h
  | cons c cs ih => rw [runCalls_cons]; exact ih _ (runCall_not_virgin c sr h)

/-- in COMPLETE, FAILED and ABORTED every method but `queue` is refused -/
theorem runCall_refused (c : Call) (sr : St × Option Reason)
    (hst : sr.1 = .complete ∨ sr.1 = .failed ∨ sr.1 = .aborted) (hc : c.m ≠ .queue) : runCall c sr = sr := by
  obtain ⟨m, r, j⟩ := c
  obtain ⟨st, a⟩ := sr
  simp only at hst hc
  rcases hst with rfl | rfl | rfl <;> cases m <;>
    first | exact absurd rfl hc | simp [runCall, methSR, Generated.Transfer.implStep]

theorem runCalls_refused (cs : List Call) (sr : St × Option Reason)
    (hst : sr.1 = .complete ∨ sr.1 = .failed ∨ sr.1 = .aborted) (hc : ∀ c ∈ cs, c.m ≠ .queue) :
    runCalls cs sr = sr := by
  induction cs with
  | nil => rfl
  | cons c cs ih =>
    rw [runCalls_cons, runCall_refused c sr hst (hc c (by simp))]
    exact ih (fun d hd => hc d (by simp [hd]))

/-- the loop of `_evaluate_aborted_state` in words -/
theorem verdict_spec (b n : Bool) (a : Option Reason) :
    verdict b n a = if a = some .requested then some .requested
      else if b then some .blocked else if n then some .notShared else none := by
  cases b <;> cases n <;> rcases a with _ | a <;> (try cases a) <;> decide

theorem isLocked_filter_self (fs : List Flight) (k : Nat) : isLocked (fs.filter (fun g => g.k ≠ k)) k = false := by
  simp only [isLocked, flightOf, Option.isSome_eq_false_iff, Option.isNone_iff_eq_none, List.find?_eq_none]
  intro g hg
  simpa using (List.mem_filter.1 hg).2

/-- … and not even a cycle while the job of an earlier one is still waiting for a state lock (the
management task starts no other job meanwhile) -/
theorem busy_cycle_noop (s : S) (h : jobWaiting s.flights = true) : step s .cycle = (s, .busy) := by
  simp [step, h]


theorem cycle_xs (s : S) (hflag : s.sharesChanged = true) (hjob : jobWaiting s.flights = false) :
    (step s .cycle).1.xs = reconcileFrom s.cfg s.sh s.flights 0 s.xs := by
  simp [step, hjob, hflag, reconcileL]

theorem cycle_flights (s : S) (hflag : s.sharesChanged = true) (hjob : jobWaiting s.flights = false) :
    (step s .cycle).1.flights = (reconcileL s.cfg s.sh s.flights s.xs).2 := by
  simp [step, hjob, hflag]

/-- a cycle that meets the held lock of upload `k`: the upload as the cycle leaves it, the call it
may have left waiting -/
theorem cycle_locked (s : S) (hflag : s.sharesChanged = true) (hjob : jobWaiting s.flights = false)
    (k : Nat) (x : Xfer) (f : Flight) (hk : s.xs[k]? = some x) (hf : flightOf s.flights k = some f) :
    (step s .cycle).1.xs[k]? = some (cycleOne s.cfg s.sh s.flights k x).1 ∧
    flightOf (step s .cycle).1.flights k = some
      { f with waiters := f.waiters ++ (cycleOne s.cfg s.sh s.flights k x).2.toList } := by
  have hfk : f.k = k := by simpa [flightOf] using List.find?_some hf
  constructor
  · rw [cycle_xs s hflag hjob, getElem?_reconcileFrom, hk]; simp
  · rw [cycle_flights s hflag hjob]
    simp only [reconcileL]
    rw [flightOf_map _ _ (fun f => by
      split
      · split <;> rfl
      · rfl), hf]
    simp only [Option.map_some, hfk, hk, Option.some.injEq]
    cases (cycleOne s.cfg s.sh s.flights k x).2 <;> simp
    cases f
    simp_all

/-- the release of upload `k`'s lock: the pending calls run one after the other -/
theorem endCall_at (s : S) (k : Nat) (x : Xfer) (f : Flight) (hk : s.xs[k]? = some x)
    (hf : flightOf s.flights k = some f) :
    (step s (.endCall k)).1.xs[k]? = some (x.withSR (runCalls f.pendingCalls x.sr)) ∧
    isLocked (step s (.endCall k)).1.flights k = false := by
  have hlt : k < s.xs.length := (List.getElem?_eq_some_iff.1 hk).1
  simp only [step, endOn, hf, hk]
  refine ⟨?_, isLocked_filter_self _ k⟩
  simp only [List.getElem?_set, hlt, if_true]

/-- **A cycle that meets a held state lock, then the release of that lock**: the upload ends where
the calls that were pending (the rest of the holder's method, the waiters) followed by the cycle's
own call — if it decided on one — lead, starting from what the cycle left (the upload as it showed,
with the reason the cycle may have written directly). -/
theorem cycle_end_locked (s : S) (hflag : s.sharesChanged = true) (hjob : jobWaiting s.flights = false)
    (k : Nat) (x : Xfer) (f : Flight) (hk : s.xs[k]? = some x) (hf : flightOf s.flights k = some f) :
    (run s [.cycle, .endCall k]).xs[k]? =
        some ((cycleOne s.cfg s.sh s.flights k x).1.withSR
          (runCalls (f.pendingCalls ++ (cycleOne s.cfg s.sh s.flights k x).2.toList)
            (cycleOne s.cfg s.sh s.flights k x).1.sr)) ∧
      isLocked (run s [.cycle, .endCall k]).flights k = false := by
  obtain ⟨hx1, hf1⟩ := cycle_locked s hflag hjob k x f hk hf
  simp only [run, List.foldl_cons, List.foldl_nil]
  obtain ⟨h1, h2⟩ := endCall_at _ k _ _ hx1 hf1
  refine ⟨?_, h2⟩
  rw [h1]
  simp [Flight.pendingCalls, List.append_assoc]

/-! ## what happens elsewhere while a lock is held -/

theorem flightOf_addWaiter_ne (fs : List Flight) (k k' : Nat) (c : Call) (h : k' ≠ k) :
    flightOf (addWaiter fs k' c) k = flightOf fs k := by
  rw [addWaiter, flightOf_map _ _ (fun f => by split <;> rfl)]
  cases hf : flightOf fs k with
  | none => rfl
  | some f =>
    have hfk : f.k = k := by simpa [flightOf] using List.find?_some hf
    have : f.k ≠ k' := fun h' => h (h'.symm.trans hfk)
    simp [this]

theorem flightOf_filter_ne (fs : List Flight) (k k' : Nat) (h : k' ≠ k) :
    flightOf (fs.filter (fun g => g.k ≠ k')) k = flightOf fs k := by
  simp only [flightOf, List.find?_filter]
  congr 1
  funext a
  by_cases ha : a.k = k
  · simp [ha]
    exact fun h' => h h'.symm
  · simp [ha]

theorem flightOf_append_some (fs : List Flight) (g f : Flight) (k : Nat) (h : flightOf fs k = some f) :
    flightOf (fs ++ [g]) k = some f := by
  simp only [flightOf, List.find?_append] at h ⊢
  rw [h]
  rfl

/-- **While upload `k`'s lock is held and the management job waits for it**, everything that does
not call a state method of that upload — configuration changes, polls, scans, searches, calls on the
other uploads (also suspended ones, also releases of other locks), further cycle requests (the task
starts no job) — leaves the upload and its lock queue as they are. -/
theorem leaves_step (s : S) (op : Op) (k : Nat) (x : Xfer) (f : Flight) (hk : s.xs[k]? = some x)
    (hf : flightOf s.flights k = some f) (hw : f.waiters.any (·.job) = true) (hop : Op.leaves k op = true) :
    (step s op).1.xs[k]? = some x ∧ flightOf (step s op).1.flights k = some f := by
  have hfm : f ∈ s.flights := List.mem_of_find?_eq_some hf
  have hjob : jobWaiting s.flights = true := List.any_eq_true.2 ⟨f, hfm, hw⟩
  have hcall : ∀ (k' : Nat) (c : Call), k' ≠ k →
      (callOn s.xs s.flights k' c).1.1[k]? = some x ∧ flightOf (callOn s.xs s.flights k' c).1.2 k = some f := by
    intro k' c hkk
    simp only [callOn]
    split
    · exact ⟨hk, by rw [flightOf_addWaiter_ne _ _ _ _ hkk]; exact hf⟩
    · refine ⟨?_, hf⟩
      simp only [modifyAt]
      split
      · exact hk
      · simp only [List.getElem?_set]
        simp [hkk, hk]
  cases op with
  | cycle => rw [busy_cycle_noop s hjob]; exact ⟨hk, hf⟩
  | meth k' m => exact hcall k' _ (by simpa [Op.leaves] using hop)
  | userAbort k' => exact hcall k' _ (by simpa [Op.leaves] using hop)
  | userQueue k' => exact hcall k' _ (by simpa [Op.leaves] using hop)
  | beginCall k' c ph =>
    have hkk : k' ≠ k := by simpa [Op.leaves] using hop
    have hset : ∀ z, (s.xs.set k' z)[k]? = some x := by
      intro z
      simp only [List.getElem?_set]
      simp [hkk, hk]
    simp only [step, beginOn]
    split
    · exact hcall k' c hkk
    · split
      · exact ⟨hk, hf⟩
      · split
        · exact ⟨hk, hf⟩
        · split
          · split
            · exact ⟨hset _, flightOf_append_some _ _ _ _ hf⟩
            · exact ⟨hset _, hf⟩
          · exact ⟨hset _, flightOf_append_some _ _ _ _ hf⟩
  | endCall k' =>
    have hkk : k' ≠ k := by simpa [Op.leaves] using hop
    simp only [step, endOn]
    split
    · refine ⟨?_, by rw [flightOf_filter_ne _ _ _ hkk]; exact hf⟩
      simp only [List.getElem?_set]
      simp [hkk, hk]
    · exact ⟨hk, hf⟩
  | queueReq u p => simp [Op.leaves] at hop
  | xferReq u p => simp [Op.leaves] at hop
  | share d disk => simp only [step]; split <;> exact ⟨hk, hf⟩
  | unshare p => simp only [step]; split <;> exact ⟨hk, hf⟩
  | setMode p m => simp only [step]; split <;> exact ⟨hk, hf⟩
  | poll => simp only [step]; split <;> exact ⟨hk, hf⟩
  | reload es disk => simp only [step]; split <;> exact ⟨hk, hf⟩
  | _ => exact ⟨hk, hf⟩

theorem leaves_run (ops : List Op) (s : S) (k : Nat) (x : Xfer) (f : Flight) (hk : s.xs[k]? = some x)
    (hf : flightOf s.flights k = some f) (hw : f.waiters.any (·.job) = true)
    (hops : ∀ op ∈ ops, Op.leaves k op = true) :
    (run s ops).xs[k]? = some x ∧ flightOf (run s ops).flights k = some f := by
  induction ops generalizing s with
  | nil => exact ⟨hk, hf⟩
  | cons op ops ih =>
    simp only [run, List.foldl_cons]
    obtain ⟨h1, h2⟩ := leaves_step s op k x f hk hf hw (hops op (by simp))
    exact ih _ h1 h2 (fun o ho => hops o (by simp [ho]))

theorem run_append (s : S) (a b : List Op) : run s (a ++ b) = run (run s a) b := by
  simp [run, List.foldl_append]

/-- what the cycle decides for an upload some condition applies to, by the state it shows -/
theorem cycleAct_of_verdict (b n : Bool) (st : St) (a : Option Reason) (r : Reason) (hv : verdict b n a = some r) :
    cycleAct b n (st, a) =
      if st = .complete ∨ st = .failed then .none else if st = .aborted then .assign r else .call .abort (some r) := by
  cases st <;> simp [cycleAct, hv, skipStates]

/-! ## reachable states: the configured directories are the shared ones -/

/-- what every reachable state satisfies: the index is well-formed and every configured directory
(`DirInfo`) belongs to a shared path -/
structure WF (s : S) : Prop where
  sh : Shares.Inv s.sh
  dirs : ∀ d ∈ s.cfg.dirs, d.path ∈ s.sh.paths

theorem wf_init (s : S) (h1 : s.sh = {}) (h2 : s.cfg.dirs = []) : WF s :=
  ⟨by rw [h1]; exact Shares.inv_init, by simp [h2]⟩

theorem remove_paths_mem {C : Type} [DecidableEq C] (sh : Shares.St C) (p q : List C) (hq : q ∈ sh.paths)
    (hne : q ≠ p) : q ∈ (remove sh p).1.paths := by
  unfold remove
  split
  · exact hq
  · dsimp only
    split <;> exact (List.mem_erase_of_ne hne).2 hq

theorem wf_step (s : S) (op : Op) (h : WF s) : WF (step s op).1 := by
  refine ⟨inv_step_sh s op h.sh, ?_⟩
  cases op with
  | share d disk =>
    simp only [step]
    split
    · intro d' hd'
      have hp : (scanDir (add s.sh d.path).1 d.path disk).paths = (add s.sh d.path).1.paths := rfl
      simp only [hp]
      rcases List.mem_append.1 hd' with hd' | hd'
      · exact add_paths_mono _ _ _ (h.dirs d' hd')
      · simp only [List.mem_singleton] at hd'
        subst hd'
        exact mem_add_paths s.sh d'.path
    · exact h.dirs
  | unshare p =>
    simp only [step]
    split
    · rename_i hr
      intro d' hd'
      simp only [List.mem_filter, decide_eq_true_eq] at hd'
      exact remove_paths_mem s.sh p d'.path (h.dirs d' hd'.1) hd'.2
    · exact h.dirs
  | setMode p m =>
    simp only [step]
    split
    · intro d' hd'
      simp only [setDirMode, List.mem_map] at hd'
      obtain ⟨d0, hd0, rfl⟩ := hd'
      have := h.dirs d0 hd0
      split <;> exact this
    · exact h.dirs
  | cycle => simp only [step]; repeat' split
             all_goals exact h.dirs
  | poll => simp only [step]; split <;> exact h.dirs
  | beginCall k c ph => exact h.dirs
  | endCall k => exact h.dirs
  | reload es disk =>
    simp only [step]
    split
    · exact h.dirs
    · rename_i hn
      intro d' hd'
      rw [(inv_reload s.sh _ disk h.sh (by simpa using hn)).2]
      exact List.mem_map_of_mem hd'
  | scanAll disk =>
    intro d' hd'
    simp only [step]
    rw [(inv_scanAll disk s.sh.paths s.sh h.sh (fun _ hp => hp)).2]
    exact h.dirs d' hd'
  | setFriends l => exact h.dirs
  | setBlocked l => exact h.dirs
  | mutFriends l => exact h.dirs
  | mutBlocked l => exact h.dirs
  | phrases l => exact h.dirs
  | search u q => exact h.dirs
  | sharesReq u => exact h.dirs
  | dirReq u q => exact h.dirs
  | queueReq u q => exact h.dirs
  | xferReq u q => exact h.dirs
  | meth k m => exact h.dirs
  | userAbort k => exact h.dirs
  | userQueue k => exact h.dirs

theorem wf_run (ops : List Op) (s : S) (h : WF s) : WF (run s ops) := by
  induction ops generalizing s with
  | nil => exact h
  | cons op ops ih =>
    simp only [run, List.foldl_cons]
    exact ih _ (wf_step s op h)

/-- with no shared directory left there is no configured directory and no indexed item -/
theorem wf_empty (s : S) (h : WF s) (hp : s.sh.paths = []) : s.cfg.dirs = [] ∧ s.sh.items = [] := by
  constructor
  · apply List.eq_nil_iff_forall_not_mem.2
    intro d hd
    have := h.dirs d hd
    rw [hp] at this
    simp at this
  · apply List.eq_nil_iff_forall_not_mem.2
    intro it hit
    have := h.sh.owner it hit
    rw [hp] at this
    simp at this

/-- `load_from_settings()` announces itself unless the settings name no directory and none was
shared — and then it changes nothing -/
theorem reload_silent (s : S) (h : WF s) (es : List DirInfo)
    (ha : (!es.isEmpty || !(droppedBy s.sh (es.map (·.path))).isEmpty) = false) :
    es = [] ∧ s.cfg.dirs = [] ∧ s.sh.items = [] := by
  simp only [Bool.or_eq_false_iff, Bool.not_eq_false', List.isEmpty_iff] at ha
  obtain ⟨h1, h2⟩ := ha
  subst h1
  have hp : s.sh.paths = [] := by
    apply List.eq_nil_iff_forall_not_mem.2
    simpa [droppedBy] using h2
  exact ⟨rfl, wf_empty s h hp⟩

/-! ## the shares-changed flag -/

/-- only a cycle clears the flag -/
theorem flag_persists (s : S) (op : Op) (hop : op ≠ .cycle) (h : s.sharesChanged = true) :
    (step s op).1.sharesChanged = true := by
  cases op with
  | cycle => exact absurd rfl hop
  | setFriends l => rfl
  | setBlocked l => rfl
  | share d disk => simp only [step]; split <;> first | rfl | exact h
  | unshare p => simp only [step]; split <;> first | rfl | exact h
  | setMode p m => simp only [step]; split <;> first | rfl | exact h
  | poll => simp only [step]; split <;> first | rfl | exact h
  | reload es disk =>
    simp only [step]
    split
    · exact h
    · simp [h]
  | scanAll disk => rfl
  | _ => exact h


end AioslskVerif.Entitle
