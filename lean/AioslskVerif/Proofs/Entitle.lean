import AioslskVerif.Model.Entitle
import AioslskVerif.Spec.Entitle
import AioslskVerif.Proofs.Query
import AioslskVerif.Proofs.Shares
/-!
Helper lemmas for C08 (`Props/C08.lean`).
-/
namespace AioslskVerif.Entitle
open AioslskVerif AioslskVerif.Shares AioslskVerif.Transfer
open AioslskVerif.Generated.Entitle

/-! ## strings -/

theorem infixB_iff (a : List Ch) (s : List Ch) : infixB a s = true ↔ ∃ l r, s = l ++ a ++ r := by
  induction s with
  | nil =>
    simp only [infixB, List.isEmpty_iff]
    constructor
    · intro h; exact ⟨[], [], by simp [h]⟩
    · rintro ⟨l, r, h⟩
      have := congrArg List.length h
      simp at this
      exact List.eq_nil_of_length_eq_zero (by omega)
  | cons ch s ih =>
    simp only [infixB, Bool.or_eq_true, List.isPrefixOf_iff_prefix, ih]
    constructor
    · rintro (⟨r, hr⟩ | ⟨l, r, h⟩)
      · exact ⟨[], r, by simp [hr]⟩
      · exact ⟨ch :: l, r, by simp [h]⟩
    · rintro ⟨l, r, h⟩
      cases l with
      | nil => left; exact ⟨r, by simpa using h.symm⟩
      | cons c l =>
        right
        simp only [List.cons_append, List.cons.injEq] at h
        exact ⟨l, r, h.2⟩

/-! ## the query loop -/

section
variable {I : Type}

theorem mem_keepLoop (re extra : I → Bool) (cap : Nat) (l acc : List I) (x : I)
    (h : x ∈ Query.keepLoop re extra cap l acc) : x ∈ acc ∨ (x ∈ l ∧ re x = true ∧ extra x = true) := by
  induction l generalizing acc with
  | nil => left; simpa [Query.keepLoop] using h
  | cons it rest ih =>
    simp only [Query.keepLoop] at h
    cases hre : re it with
    | false =>
      simp only [hre, Bool.false_eq_true, if_false] at h
      rcases ih _ h with h | ⟨h1, h2⟩
      · exact Or.inl h
      · exact Or.inr ⟨List.mem_cons_of_mem _ h1, h2⟩
    | true =>
      cases hex : extra it with
      | false =>
        simp only [hre, hex, Bool.false_eq_true, if_false, if_true] at h
        split at h
        · exact Or.inl h
        · rcases ih _ h with h | ⟨h1, h2⟩
          · exact Or.inl h
          · exact Or.inr ⟨List.mem_cons_of_mem _ h1, h2⟩
      | true =>
        simp only [hre, hex, if_true] at h
        have hit : x ∈ acc ++ [it] → x ∈ acc ∨ (x ∈ it :: rest ∧ re x = true ∧ extra x = true) := by
          intro h
          rcases List.mem_append.1 h with h | h
          · exact Or.inl h
          · simp only [List.mem_singleton] at h; subst h; exact Or.inr ⟨by simp, hre, hex⟩
        split at h
        · exact hit h
        · rcases ih _ h with h | ⟨h1, h2⟩
          · exact hit h
          · exact Or.inr ⟨List.mem_cons_of_mem _ h1, h2⟩

end

theorem mem_query {Ch' : Type} [DecidableEq Ch'] (K : Query.Cls Ch') {I : Type} [DecidableEq I] (qp' : I → List Ch')
    (cap : Nat) (extra : I → Bool) (tm : List I) (q : Query.Query Ch') (x : I)
    (h : x ∈ Query.query K qp' cap extra tm q) :
    x ∈ tm ∧ Query.matchesRegex K q (qp' x) = true ∧ extra x = true := by
  simp only [Query.query] at h
  split at h
  · simp at h
  · rcases mem_keepLoop _ _ _ _ _ _ h with h | ⟨h1, h2, h3⟩
    · simp at h
    · exact ⟨(Query.prefilter_sublist K qp' tm q).subset h1, h2, h3⟩

/-! ## the state table restricted to what the cycle and the requests use -/

theorem mem_allSt (st : St) : st ∈ allSt := by cases st <;> simp [allSt]

/-- a method other than `queue` is refused in ABORTED -/
theorem methSR_aborted (m : Meth) (hm : m ≠ .queue) (r : Option Reason) (a : Option Reason) :
    methSR m r (.aborted, a) = ((.aborted, a), false) := by
  cases m <;> first | exact absurd rfl hm | rfl

theorem applyMeth_aborted (m : Meth) (hm : m ≠ .queue) (r : Option Reason) (x : Xfer) (hx : x.state = .aborted) :
    applyMeth m r x = (x, false) := by
  cases x with
  | mk u p st a =>
    simp only at hx
    subst hx
    simp [applyMeth, Xfer.sr, Xfer.withSR, methSR_aborted m hm]

/-- `fail` never produces QUEUED -/
theorem fail_not_queued (r : Option Reason) (x : Xfer) (h : (applyMeth .fail r x).1.state = .queued) :
    (applyMeth .fail r x).1 = x := by
  cases x with
  | mk u p st a =>
    cases st <;> simp [applyMeth, Xfer.sr, Xfer.withSR, methSR, Generated.Transfer.implStep] at h ⊢

theorem newUpload_eq (u : Name) (p : List Ch) : newUpload u p = { user := u, path := p, state := .queued, reason := none } := by
  rfl

/-! ## lists of uploads -/

theorem updFirst_getElem? (p : Xfer → Bool) (f : Xfer → Xfer) (xs : List Xfer) (k : Nat) (y : Xfer)
    (h : xs[k]? = some y) :
    (updFirst p f xs)[k]? = some y ∨ (xs.find? p = some y ∧ (updFirst p f xs)[k]? = some (f y)) := by
  induction xs generalizing k with
  | nil => simp at h
  | cons z l ih =>
    simp only [updFirst]
    by_cases hz : p z = true
    · simp only [hz, if_true]
      cases k with
      | zero =>
        simp only [List.getElem?_cons_zero, Option.some.injEq] at h
        subst h
        right
        simp [List.find?, hz]
      | succ k =>
        left
        simpa using h
    · simp only [hz]
      cases k with
      | zero => left; simpa using h
      | succ k =>
        simp only [List.getElem?_cons_succ] at h ⊢
        rcases ih k h with h' | ⟨h1, h2⟩
        · exact Or.inl h'
        · right
          refine ⟨?_, h2⟩
          simp only [List.find?]
          simp [hz, h1]

theorem mem_updFirst (p : Xfer → Bool) (f : Xfer → Xfer) (xs : List Xfer) (x' : Xfer) (h : x' ∈ updFirst p f xs) :
    x' ∈ xs ∨ ∃ y, xs.find? p = some y ∧ x' = f y := by
  induction xs with
  | nil => simp [updFirst] at h
  | cons z l ih =>
    simp only [updFirst] at h
    cases hz : p z with
    | true =>
      simp only [hz, if_true, List.mem_cons] at h
      rcases h with h | h
      · right; exact ⟨z, by simp [List.find?, hz], h⟩
      · left; exact List.mem_cons_of_mem _ h
    | false =>
      simp only [hz, Bool.false_eq_true, if_false, List.mem_cons] at h
      rcases h with h | h
      · left; simp [h]
      · rcases ih h with h | ⟨y, h1, h2⟩
        · left; exact List.mem_cons_of_mem _ h
        · right; exact ⟨y, by simp [List.find?, hz, h1], h2⟩

theorem length_updFirst (p : Xfer → Bool) (f : Xfer → Xfer) (xs : List Xfer) : (updFirst p f xs).length = xs.length := by
  induction xs with
  | nil => rfl
  | cons z l ih => simp only [updFirst]; split <;> simp [ih]

/-! ## `findShared` -/

theorem findShared_some (c : Cfg) (sh : Shares.St Comp) (u : Name) (path : List Ch) (it : SItem)
    (h : findShared c sh u path = some it) :
    it ∈ sh.items ∧ remotePath c it = path ∧ locked c it.sd u = false := by
  simp only [findShared] at h
  split at h
  · simp at h
  · rename_i it' hf
    split at h
    · simp at h
    · rename_i hl
      simp only [Option.some.injEq] at h
      subst h
      refine ⟨List.mem_of_find?_eq_some hf, ?_, by simpa using hl⟩
      simpa using List.find?_some hf

/-! ## the index stays well-formed under the share operations of `step` -/

theorem add_paths_mono (sh : Shares.St Comp) (p q : List Comp) (h : q ∈ sh.paths) : q ∈ (add sh p).1.paths := by
  unfold add
  split
  · exact h
  · split <;> exact List.mem_append_left _ h

theorem mem_add_paths (sh : Shares.St Comp) (p : List Comp) : p ∈ (add sh p).1.paths := by
  unfold add
  split
  · assumption
  · split <;> simp

theorem foldAdd_inv (ps : List (List Comp)) (sh : Shares.St Comp) (h : Shares.Inv sh) :
    Shares.Inv (ps.foldl (fun s p => (add s p).1) sh) := by
  induction ps generalizing sh with
  | nil => exact h
  | cons p ps ih => exact ih _ (inv_add sh p h)

theorem foldAdd_paths_mono (ps : List (List Comp)) (sh : Shares.St Comp) (q : List Comp) (h : q ∈ sh.paths) :
    q ∈ (ps.foldl (fun s p => (add s p).1) sh).paths := by
  induction ps generalizing sh with
  | nil => exact h
  | cons p ps ih => exact ih _ (add_paths_mono sh p q h)

theorem foldAdd_paths (ps : List (List Comp)) (sh : Shares.St Comp) (q : List Comp) (h : q ∈ ps) :
    q ∈ (ps.foldl (fun s p => (add s p).1) sh).paths := by
  induction ps generalizing sh with
  | nil => simp at h
  | cons p ps ih =>
    simp only [List.foldl_cons]
    rcases List.mem_cons.1 h with rfl | h
    · exact foldAdd_paths_mono ps _ _ (mem_add_paths sh q)
    · exact ih _ h

/-- `load_from_settings()` leaves a well-formed index: exactly the listed directories, every item
in the innermost listed directory that holds it, term map = index. -/
theorem inv_reloadSh (sh : Shares.St Comp) (ps : List (List Comp)) (h : Shares.Inv sh) (hn : ps.Nodup) :
    Shares.Inv (reloadSh sh ps) ∧ (reloadSh sh ps).paths = ps := by
  have h1 := foldAdd_inv ps sh h
  refine ⟨⟨hn, ?_, ?_, (List.filter_sublist).nodup h1.items_nodup, (List.filter_sublist).nodup h1.items_nodup,
    fun _ => Iff.rfl⟩, rfl⟩
  · intro it hit
    simp only [reloadSh, List.mem_filter, List.contains_iff_mem] at hit
    exact hit.2
  · intro it hit q hq hpre
    simp only [reloadSh, List.mem_filter] at hit
    exact h1.innermost it hit.1 q (foldAdd_paths ps sh q hq) hpre

theorem inv_reload (sh : Shares.St Comp) (ps : List (List Comp)) (disk : List (File Comp)) (h : Shares.Inv sh)
    (hn : ps.Nodup) :
    Shares.Inv (ps.foldl (fun sh p => scanDir sh p disk) (reloadSh sh ps)) ∧
      (ps.foldl (fun sh p => scanDir sh p disk) (reloadSh sh ps)).paths = ps := by
  obtain ⟨h1, h2⟩ := inv_reloadSh sh ps h hn
  obtain ⟨h3, h4⟩ := inv_scanAll disk ps (reloadSh sh ps) h1 (by intro p hp; rw [h2]; exact hp)
  exact ⟨h3, h4.trans h2⟩

theorem inv_step_sh (s : S) (op : Op) (h : Shares.Inv s.sh) : Shares.Inv (step s op).1.sh := by
  cases op with
  | share d disk =>
    simp only [step]
    split
    · rename_i hr
      have h1 : Shares.Inv (add s.sh d.path).1 := inv_add s.sh d.path h
      exact (inv_scanDir _ _ disk h1 (mem_add_paths s.sh d.path)).1
    · exact h
  | unshare p =>
    simp only [step]
    split
    · exact inv_remove s.sh p h
    · exact h
  | setMode p m => simp only [step]; split <;> exact h
  | cycle => simp only [step]; split <;> exact h
  | poll => simp only [step]; split <;> exact h
  | reload es disk =>
    simp only [step]
    split
    · exact h
    · rename_i hn
      exact (inv_reload s.sh _ disk h (by simpa using hn)).1
  | scanAll disk => exact (inv_scanAll disk s.sh.paths s.sh h (fun _ hp => hp)).1
  | _ => exact h

theorem inv_run_sh (ops : List Op) (s : S) (h : Shares.Inv s.sh) : Shares.Inv (run s ops).sh := by
  induction ops generalizing s with
  | nil => exact h
  | cons op ops ih =>
    simp only [run, List.foldl_cons]
    exact ih _ (inv_step_sh s op h)

/-! ## admission, reconciliation, stickiness (used by `Props/C08.lean`) -/

theorem applyMeth_key (m : Meth) (r : Option Reason) (x : Xfer) :
    (applyMeth m r x).1.user = x.user ∧ (applyMeth m r x).1.path = x.path := by
  simp [applyMeth, Xfer.withSR]

theorem entitled_of_findShared {c : Cfg} {sh : Shares.St Comp} {u : Name} {p : List Ch} {it : SItem}
    (h : findShared c sh u p = some it) : Entitled c sh u p :=
  ⟨it, (findShared_some c sh u p it h).1, (findShared_some c sh u p it h).2.1, (findShared_some c sh u p it h).2.2⟩

theorem admit_refused (c : Cfg) (sh : Shares.St Comp) (xs : List Xfer) (u : Name) (p : List Ch) :
    AdmitSound c sh xs u p (xs, some .notShared) :=
  ⟨fun _ h hn => absurd h hn, fun h => absurd h (Nat.lt_irrefl _), Nat.le_refl _, fun _ => rfl⟩

theorem admit_unchanged (c : Cfg) (sh : Shares.St Comp) (xs : List Xfer) (u : Name) (p : List Ch) (r : Option FailR)
    (hb : isBlocked c u 32 = false) (hE : Entitled c sh u p) : AdmitSound c sh xs u p (xs, r) :=
  ⟨fun _ h hn => absurd h hn, fun h => absurd h (Nat.lt_irrefl _), Nat.le_refl _, fun h => by
    rcases h with h | h
    · rw [hb] at h; cases h
    · exact absurd hE h⟩

theorem admit_new (c : Cfg) (sh : Shares.St Comp) (xs : List Xfer) (u : Name) (p : List Ch) (r : Option FailR)
    (hb : isBlocked c u 32 = false) (hE : Entitled c sh u p) : AdmitSound c sh xs u p (xs ++ [newUpload u p], r) := by
  refine ⟨?_, fun _ => ⟨hb, hE⟩, by simp, ?_⟩
  · intro x' hx' hn _
    simp only [List.mem_append, List.mem_singleton] at hx'
    rcases hx' with hx' | rfl
    · exact absurd hx' hn
    · exact ⟨hb, hE, rfl, rfl⟩
  · rintro (h | h)
    · rw [hb] at h; cases h
    · exact absurd hE h

theorem admit_failed (c : Cfg) (sh : Shares.St Comp) (xs : List Xfer) (u : Name) (p : List Ch) (y : Xfer)
    (hfind : xs.find? (sameKey u p) = some y) :
    AdmitSound c sh xs u p (updFirst (sameKey u p) (fun y => (applyMeth .fail none y).1) xs, some .notShared) := by
  have hymem : y ∈ xs := List.mem_of_find?_eq_some hfind
  refine ⟨?_, by simp [length_updFirst], by simp [length_updFirst], fun _ => rfl⟩
  intro x' hx' hn hst
  rcases mem_updFirst _ _ _ _ hx' with h | ⟨z, hz, rfl⟩
  · exact absurd h hn
  · rw [hfind] at hz
    cases hz
    rw [fail_not_queued none y hst] at hn
    exact absurd hymem hn

theorem admit_requeued (c : Cfg) (sh : Shares.St Comp) (xs : List Xfer) (u : Name) (p : List Ch) (y : Xfer)
    (hfind : xs.find? (sameKey u p) = some y) (hb : isBlocked c u 32 = false) (hE : Entitled c sh u p) :
    AdmitSound c sh xs u p (updFirst (sameKey u p) (fun y => (applyMeth .queue none y).1) xs, none) := by
  have hy : sameKey u p y = true := by simpa using List.find?_some hfind
  refine ⟨?_, by simp [length_updFirst], by simp [length_updFirst], ?_⟩
  · intro x' hx' hn _
    rcases mem_updFirst _ _ _ _ hx' with h | ⟨z, hz, rfl⟩
    · exact absurd h hn
    · rw [hfind] at hz
      cases hz
      simp only [sameKey, Bool.and_eq_true, decide_eq_true_eq] at hy
      exact ⟨hb, hE, (applyMeth_key _ _ y).1.trans hy.1, (applyMeth_key _ _ y).2.trans hy.2⟩
  · rintro (h | h)
    · rw [hb] at h; cases h
    · exact absurd hE h

theorem onQueue_sound (c : Cfg) (sh : Shares.St Comp) (xs : List Xfer) (u : Name) (p : List Ch) :
    AdmitSound c sh xs u p (onQueue c sh xs u p) := by
  have hq : queueFlag = 32 := rfl
  have hr : queueBlockedReason = .notShared := rfl
  simp only [onQueue, hq, hr]
  cases hb : isBlocked c u 32 with
  | true => exact admit_refused c sh xs u p
  | false =>
    simp only [Bool.false_eq_true, if_false]
    cases hfind : xs.find? (sameKey u p) with
    | none =>
      cases hsh : findShared c sh u p with
      | none => exact admit_refused c sh xs u p
      | some it => exact admit_new c sh xs u p _ hb (entitled_of_findShared hsh)
    | some y =>
      cases hsh : findShared c sh u p with
      | none => exact admit_failed c sh xs u p y hfind
      | some it =>
        have hE := entitled_of_findShared hsh
        simp only
        split
        · exact admit_unchanged c sh xs u p _ hb hE
        · split
          · exact admit_requeued c sh xs u p y hfind hb hE
          · exact admit_unchanged c sh xs u p _ hb hE

theorem onRequest_sound (c : Cfg) (sh : Shares.St Comp) (xs : List Xfer) (u : Name) (p : List Ch) :
    AdmitSound c sh xs u p (onRequest c sh xs u p) := by
  have hq : requestFlag = 32 := rfl
  have hr : requestBlockedReason = .notShared := rfl
  simp only [onRequest, hq, hr]
  cases hb : isBlocked c u 32 with
  | true => exact admit_refused c sh xs u p
  | false =>
    simp only [Bool.false_eq_true, if_false]
    cases hfind : xs.find? (sameKey u p) with
    | none =>
      cases hsh : findShared c sh u p with
      | none => exact admit_refused c sh xs u p
      | some it => exact admit_new c sh xs u p _ hb (entitled_of_findShared hsh)
    | some y =>
      cases hsh : findShared c sh u p with
      | none => exact admit_failed c sh xs u p y hfind
      | some it => exact admit_unchanged c sh xs u p _ hb (entitled_of_findShared hsh)

theorem reconcileSR_table (b n : Bool) (st : St) (r : Option Reason)
    (h1 : st ≠ .complete) (h2 : st ≠ .failed) (h3 : st ≠ .virgin) :
    (r = some .requested → st = .aborted → reconcileSR b n (st, r) = (st, r)) ∧
    (r ≠ some .requested → b = true → reconcileSR b n (st, r) = (.aborted, some .blocked)) ∧
    (r ≠ some .requested → b = false → n = true → reconcileSR b n (st, r) = (.aborted, some .notShared)) ∧
    (r ≠ some .requested → b = false → n = false → st = .aborted → reconcileSR b n (st, r) = (.queued, none)) ∧
    (r ≠ some .requested → b = false → n = false → st ≠ .aborted → reconcileSR b n (st, r) = (st, r)) := by
  cases b <;> cases n <;> cases st <;> rcases r with _ | r <;> (try cases r) <;>
    first
    | exact absurd rfl h1
    | exact absurd rfl h2
    | exact absurd rfl h3
    | (refine ⟨?_, ?_, ?_, ?_, ?_⟩ <;> intros <;> first | contradiction | decide)

theorem findShared_isNone_iff (c : Cfg) (sh : Shares.St Comp) (hU : UniquePaths c sh) (u : Name) (p : List Ch) :
    (findShared c sh u p).isNone = true ↔ ¬ Entitled c sh u p := by
  constructor
  · intro h hE
    obtain ⟨it, hit, hp, hl⟩ := hE
    simp only [findShared] at h
    cases hf : sh.items.find? (fun it => remotePath c it = p) with
    | none =>
      have := List.find?_eq_none.1 hf it hit
      simp [hp] at this
    | some it' =>
      have h1 : it' ∈ sh.items := List.mem_of_find?_eq_some hf
      have h2 : remotePath c it' = p := by simpa using List.find?_some hf
      have : it' = it := hU it' h1 it hit (h2.trans hp.symm)
      subst this
      simp [hf, hl] at h
  · intro h
    cases hf : findShared c sh u p with
    | none => rfl
    | some it => exact absurd (entitled_of_findShared hf) h

theorem reconcile1_spec (c : Cfg) (sh : Shares.St Comp) (hU : UniquePaths c sh) (x : Xfer)
    (h1 : x.state ≠ .complete) (h2 : x.state ≠ .failed) (h3 : x.state ≠ .virgin) :
    Reconciled c sh x (reconcile1 c sh x) := by
  have he : evalFlag = 32 := rfl
  obtain ⟨t1, t2, t3, t4, t5⟩ := reconcileSR_table (userBlocked c x) (fileNotShared c sh x) x.state x.reason h1 h2 h3
  have hn := findShared_isNone_iff c sh hU x.user x.path
  cases x with
  | mk u p st r =>
    simp only [reconcile1, reconcileX, Xfer.sr, Xfer.withSR, userBlocked, fileNotShared, he] at *
    refine ⟨rfl, rfl, ?_, ?_⟩
    · intro ha hr
      rw [t1 hr ha]
    · intro hr
      refine ⟨?_, ?_, ?_, ?_⟩
      · intro hb
        rw [t2 hr hb]; exact ⟨rfl, rfl⟩
      · intro hb hE
        rw [t3 hr hb (hn.2 hE)]; exact ⟨rfl, rfl⟩
      · intro hb hE ha
        have : (findShared c sh u p).isNone = false := by
          cases hh : (findShared c sh u p).isNone with
          | false => rfl
          | true => exact absurd hE (hn.1 hh)
        rw [t4 hr hb this ha]; exact ⟨rfl, rfl⟩
      · intro hb hE ha
        have : (findShared c sh u p).isNone = false := by
          cases hh : (findShared c sh u p).isNone with
          | false => rfl
          | true => exact absurd hE (hn.1 hh)
        rw [t5 hr hb this ha]

theorem sticky_updFirst (p : Xfer → Bool) (f : Xfer → Xfer) (xs : List Xfer) (k : Nat) (x : Xfer)
    (hk : xs[k]? = some x) (hf : f x = x ∨ ∀ y, xs.find? p = some y → y ≠ x) :
    (updFirst p f xs)[k]? = some x := by
  rcases updFirst_getElem? p f xs k x hk with h | ⟨h1, h2⟩
  · exact h
  · rcases hf with hf | hf
    · rw [h2, hf]
    · exact absurd rfl (hf x h1)

theorem sticky_step (s : S) (op : Op) (k : Nat) (x : Xfer) (hk : s.xs[k]? = some x)
    (ha : x.state = .aborted) (hr : x.reason = some .requested) (hop : Op.requeues k op = false) :
    (step s op).1.xs[k]? = some x := by
  have hfail : (applyMeth .fail none x).1 = x := by rw [applyMeth_aborted .fail (by decide) none x ha]
  cases op with
  | queueReq u p =>
    simp only [step, onQueue]
    split
    · exact hk
    · split
      · split
        · exact hk
        · rw [List.getElem?_append_left (by
            have := List.getElem?_eq_some_iff.1 hk; exact this.1)]
          exact hk
      · rename_i y hfind
        split
        · exact sticky_updFirst _ _ _ _ _ hk (Or.inl hfail)
        · split
          · exact hk
          · split
            · rename_i hst
              refine sticky_updFirst _ _ _ _ _ hk (Or.inr ?_)
              intro z hz hzx
              rw [hfind] at hz
              cases hz
              subst hzx
              rw [ha] at hst
              revert hst
              decide
            · exact hk
  | xferReq u p =>
    simp only [step, onRequest]
    split
    · exact hk
    · split
      · split
        · exact hk
        · rw [List.getElem?_append_left (by
            have := List.getElem?_eq_some_iff.1 hk; exact this.1)]
          exact hk
      · split
        · exact sticky_updFirst _ _ _ _ _ hk (Or.inl hfail)
        · exact hk
  | cycle =>
    simp only [step]
    split
    · simp only [reconcile, List.getElem?_map, hk, Option.map_some, Option.some.injEq]
      cases x with
      | mk u p st r =>
        simp only at ha hr
        subst ha hr
        simp only [reconcile1, reconcileX, Xfer.sr, Xfer.withSR]
        have := (reconcileSR_table (userBlocked s.cfg ⟨u, p, .aborted, some .requested⟩)
          (fileNotShared s.cfg s.sh ⟨u, p, .aborted, some .requested⟩) .aborted (some .requested)
          (by decide) (by decide) (by decide)).1 rfl rfl
        rw [this]
    · exact hk
  | meth k' m =>
    simp only [step, modifyAt]
    split
    · exact hk
    · rename_i y hy
      by_cases hkk : k' = k
      · subst hkk
        rw [hk] at hy
        cases hy
        have hm : m ≠ .queue := by
          intro hm
          simp [Op.requeues, hm] at hop
        rw [applyMeth_aborted m hm none x ha]
        have hlt : k' < s.xs.length := (List.getElem?_eq_some_iff.1 hk).1
        simp [hlt]
      · simp only [List.getElem?_set]
        simp [hkk, hk]
  | userAbort k' =>
    simp only [step, modifyAt]
    split
    · exact hk
    · rename_i y hy
      by_cases hkk : k' = k
      · subst hkk
        rw [hk] at hy
        cases hy
        rw [applyMeth_aborted .abort (by decide) _ x ha]
        have hlt : k' < s.xs.length := (List.getElem?_eq_some_iff.1 hk).1
        simp [hlt]
      · simp only [List.getElem?_set]
        simp [hkk, hk]
  | userQueue k' =>
    simp only [step, modifyAt]
    split
    · exact hk
    · by_cases hkk : k' = k
      · simp [Op.requeues, hkk] at hop
      · simp only [List.getElem?_set]
        simp [hkk, hk]
  | share d disk => simp only [step]; split <;> exact hk
  | unshare p => simp only [step]; split <;> exact hk
  | setMode p m => simp only [step]; split <;> exact hk
  | poll => simp only [step]; split <;> exact hk
  | reload es disk => simp only [step]; split <;> exact hk
  | _ => exact hk

/-! ## reachable states: the configured directories are the shared ones -/

/-- what every reachable state satisfies: the index is well-formed and every configured directory
(`DirInfo`) belongs to a shared path -/
structure WF (s : S) : Prop where
  sh : Shares.Inv s.sh
  dirs : ∀ d ∈ s.cfg.dirs, d.path ∈ s.sh.paths

theorem wf_init (s : S) (h1 : s.sh = {}) (h2 : s.cfg.dirs = []) : WF s :=
  ⟨by rw [h1]; exact Shares.inv_init, by simp [h2]⟩

theorem remove_paths_mem {C : Type} [DecidableEq C] (sh : Shares.St C) (p q : List C) (hq : q ∈ sh.paths)
    (hne : q ≠ p) : q ∈ (remove sh p).1.paths := by
  unfold remove
  split
  · exact hq
  · dsimp only
    split <;> exact (List.mem_erase_of_ne hne).2 hq

theorem wf_step (s : S) (op : Op) (h : WF s) : WF (step s op).1 := by
  refine ⟨inv_step_sh s op h.sh, ?_⟩
  cases op with
  | share d disk =>
    simp only [step]
    split
    · intro d' hd'
      have hp : (scanDir (add s.sh d.path).1 d.path disk).paths = (add s.sh d.path).1.paths := rfl
      simp only [hp]
      rcases List.mem_append.1 hd' with hd' | hd'
      · exact add_paths_mono _ _ _ (h.dirs d' hd')
      · simp only [List.mem_singleton] at hd'
        subst hd'
        exact mem_add_paths s.sh d'.path
    · exact h.dirs
  | unshare p =>
    simp only [step]
    split
    · rename_i hr
      intro d' hd'
      simp only [List.mem_filter, decide_eq_true_eq] at hd'
      exact remove_paths_mem s.sh p d'.path (h.dirs d' hd'.1) hd'.2
    · exact h.dirs
  | setMode p m =>
    simp only [step]
    split
    · intro d' hd'
      simp only [setDirMode, List.mem_map] at hd'
      obtain ⟨d0, hd0, rfl⟩ := hd'
      have := h.dirs d0 hd0
      split <;> exact this
    · exact h.dirs
  | cycle => simp only [step]; split <;> exact h.dirs
  | poll => simp only [step]; split <;> exact h.dirs
  | reload es disk =>
    simp only [step]
    split
    · exact h.dirs
    · rename_i hn
      intro d' hd'
      rw [(inv_reload s.sh _ disk h.sh (by simpa using hn)).2]
      exact List.mem_map_of_mem hd'
  | scanAll disk =>
    intro d' hd'
    simp only [step]
    rw [(inv_scanAll disk s.sh.paths s.sh h.sh (fun _ hp => hp)).2]
    exact h.dirs d' hd'
  | setFriends l => exact h.dirs
  | setBlocked l => exact h.dirs
  | mutFriends l => exact h.dirs
  | mutBlocked l => exact h.dirs
  | phrases l => exact h.dirs
  | search u q => exact h.dirs
  | sharesReq u => exact h.dirs
  | dirReq u q => exact h.dirs
  | queueReq u q => exact h.dirs
  | xferReq u q => exact h.dirs
  | meth k m => exact h.dirs
  | userAbort k => exact h.dirs
  | userQueue k => exact h.dirs

theorem wf_run (ops : List Op) (s : S) (h : WF s) : WF (run s ops) := by
  induction ops generalizing s with
  | nil => exact h
  | cons op ops ih =>
    simp only [run, List.foldl_cons]
    exact ih _ (wf_step s op h)

/-- with no shared directory left there is no configured directory and no indexed item -/
theorem wf_empty (s : S) (h : WF s) (hp : s.sh.paths = []) : s.cfg.dirs = [] ∧ s.sh.items = [] := by
  constructor
  · apply List.eq_nil_iff_forall_not_mem.2
    intro d hd
    have := h.dirs d hd
    rw [hp] at this
    simp at this
  · apply List.eq_nil_iff_forall_not_mem.2
    intro it hit
    have := h.sh.owner it hit
    rw [hp] at this
    simp at this

/-- `load_from_settings()` announces itself unless the settings name no directory and none was
shared — and then it changes nothing -/
theorem reload_silent (s : S) (h : WF s) (es : List DirInfo)
    (ha : (!es.isEmpty || !(droppedBy s.sh (es.map (·.path))).isEmpty) = false) :
    es = [] ∧ s.cfg.dirs = [] ∧ s.sh.items = [] := by
  simp only [Bool.or_eq_false_iff, Bool.not_eq_false', List.isEmpty_iff] at ha
  obtain ⟨h1, h2⟩ := ha
  subst h1
  have hp : s.sh.paths = [] := by
    apply List.eq_nil_iff_forall_not_mem.2
    simpa [droppedBy] using h2
  exact ⟨rfl, wf_empty s h hp⟩

/-! ## the shares-changed flag -/

/-- only a cycle clears the flag -/
theorem flag_persists (s : S) (op : Op) (hop : op ≠ .cycle) (h : s.sharesChanged = true) :
    (step s op).1.sharesChanged = true := by
  cases op with
  | cycle => exact absurd rfl hop
  | setFriends l => rfl
  | setBlocked l => rfl
  | share d disk => simp only [step]; split <;> first | rfl | exact h
  | unshare p => simp only [step]; split <;> first | rfl | exact h
  | setMode p m => simp only [step]; split <;> first | rfl | exact h
  | poll => simp only [step]; split <;> first | rfl | exact h
  | reload es disk =>
    simp only [step]
    split
    · exact h
    · simp [h]
  | scanAll disk => rfl
  | _ => exact h


end AioslskVerif.Entitle
