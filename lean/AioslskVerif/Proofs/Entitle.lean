import AioslskVerif.Model.Entitle
import AioslskVerif.Proofs.Query
import AioslskVerif.Proofs.Shares
/-!
Helper lemmas for C08 (`Props/C08.lean`).
-/
namespace AioslskVerif.Entitle
open AioslskVerif AioslskVerif.Shares AioslskVerif.Transfer
open AioslskVerif.Generated.Entitle

/-! ## strings -/

theorem infixB_iff (a : List Ch) (s : List Ch) : infixB a s = true ↔ ∃ l r, s = l ++ a ++ r := by
  induction s with
  | nil =>
    simp only [infixB, List.isEmpty_iff]
    constructor
    · intro h; exact ⟨[], [], by simp [h]⟩
    · rintro ⟨l, r, h⟩
      have := congrArg List.length h
      simp at this
      exact List.eq_nil_of_length_eq_zero (by omega)
  | cons ch s ih =>
    simp only [infixB, Bool.or_eq_true, List.isPrefixOf_iff_prefix, ih]
    constructor
    · rintro (⟨r, hr⟩ | ⟨l, r, h⟩)
      · exact ⟨[], r, by simp [hr]⟩
      · exact ⟨ch :: l, r, by simp [h]⟩
    · rintro ⟨l, r, h⟩
      cases l with
      | nil => left; exact ⟨r, by simpa using h.symm⟩
      | cons c l =>
        right
        simp only [List.cons_append, List.cons.injEq] at h
        exact ⟨l, r, h.2⟩

/-! ## the query loop -/

section
variable {I : Type}

theorem mem_keepLoop (re extra : I → Bool) (cap : Nat) (l acc : List I) (x : I)
    (h : x ∈ Query.keepLoop re extra cap l acc) : x ∈ acc ∨ (x ∈ l ∧ re x = true ∧ extra x = true) := by
  induction l generalizing acc with
  | nil => left; simpa [Query.keepLoop] using h
  | cons it rest ih =>
    simp only [Query.keepLoop] at h
    cases hre : re it with
    | false =>
      simp only [hre, Bool.false_eq_true, if_false] at h
      rcases ih _ h with h | ⟨h1, h2⟩
      · exact Or.inl h
      · exact Or.inr ⟨List.mem_cons_of_mem _ h1, h2⟩
    | true =>
      cases hex : extra it with
      | false =>
        simp only [hre, hex, Bool.false_eq_true, if_false, if_true] at h
        split at h
        · exact Or.inl h
        · rcases ih _ h with h | ⟨h1, h2⟩
          · exact Or.inl h
          · exact Or.inr ⟨List.mem_cons_of_mem _ h1, h2⟩
      | true =>
        simp only [hre, hex, if_true] at h
        have hit : x ∈ acc ++ [it] → x ∈ acc ∨ (x ∈ it :: rest ∧ re x = true ∧ extra x = true) := by
          intro h
          rcases List.mem_append.1 h with h | h
          · exact Or.inl h
          · simp only [List.mem_singleton] at h; subst h; exact Or.inr ⟨by simp, hre, hex⟩
        split at h
        · exact hit h
        · rcases ih _ h with h | ⟨h1, h2⟩
          · exact hit h
          · exact Or.inr ⟨List.mem_cons_of_mem _ h1, h2⟩

end

theorem mem_query {Ch' : Type} [DecidableEq Ch'] (K : Query.Cls Ch') {I : Type} [DecidableEq I] (qp' : I → List Ch')
    (cap : Nat) (extra : I → Bool) (tm : List I) (q : Query.Query Ch') (x : I)
    (h : x ∈ Query.query K qp' cap extra tm q) :
    x ∈ tm ∧ Query.matchesRegex K q (qp' x) = true ∧ extra x = true := by
  simp only [Query.query] at h
  split at h
  · simp at h
  · rcases mem_keepLoop _ _ _ _ _ _ h with h | ⟨h1, h2, h3⟩
    · simp at h
    · exact ⟨(Query.prefilter_sublist K qp' tm q).subset h1, h2, h3⟩

/-! ## the state table restricted to what the cycle and the requests use -/

theorem mem_allSt (st : St) : st ∈ allSt := by cases st <;> simp [allSt]

/-- a method other than `queue` is refused in ABORTED -/
theorem methSR_aborted (m : Meth) (hm : m ≠ .queue) (r : Option Reason) (a : Option Reason) :
    methSR m r (.aborted, a) = ((.aborted, a), false) := by
  cases m <;> first | exact absurd rfl hm | rfl

theorem applyMeth_aborted (m : Meth) (hm : m ≠ .queue) (r : Option Reason) (x : Xfer) (hx : x.state = .aborted) :
    applyMeth m r x = (x, false) := by
  cases x with
  | mk u p st a =>
    simp only at hx
    subst hx
    simp [applyMeth, Xfer.sr, Xfer.withSR, methSR_aborted m hm]

/-- `fail` never produces QUEUED -/
theorem fail_not_queued (r : Option Reason) (x : Xfer) (h : (applyMeth .fail r x).1.state = .queued) :
    (applyMeth .fail r x).1 = x := by
  cases x with
  | mk u p st a =>
    cases st <;> simp [applyMeth, Xfer.sr, Xfer.withSR, methSR, Generated.Transfer.implStep] at h ⊢

theorem newUpload_eq (u : Name) (p : List Ch) : newUpload u p = { user := u, path := p, state := .queued, reason := none } := by
  rfl

/-! ## lists of uploads -/

theorem updFirst_getElem? (p : Xfer → Bool) (f : Xfer → Xfer) (xs : List Xfer) (k : Nat) (y : Xfer)
    (h : xs[k]? = some y) :
    (updFirst p f xs)[k]? = some y ∨ (xs.find? p = some y ∧ (updFirst p f xs)[k]? = some (f y)) := by
  induction xs generalizing k with
  | nil => simp at h
  | cons z l ih =>
    simp only [updFirst]
    by_cases hz : p z = true
    · simp only [hz, if_true]
      cases k with
      | zero =>
        simp only [List.getElem?_cons_zero, Option.some.injEq] at h
        subst h
        right
        simp [List.find?, hz]
      | succ k =>
        left
        simpa using h
    · simp only [hz]
      cases k with
      | zero => left; simpa using h
      | succ k =>
        simp only [List.getElem?_cons_succ] at h ⊢
        rcases ih k h with h' | ⟨h1, h2⟩
        · exact Or.inl h'
        · right
          refine ⟨?_, h2⟩
          simp only [List.find?]
          simp [hz, h1]

theorem mem_updFirst (p : Xfer → Bool) (f : Xfer → Xfer) (xs : List Xfer) (x' : Xfer) (h : x' ∈ updFirst p f xs) :
    x' ∈ xs ∨ ∃ y, xs.find? p = some y ∧ x' = f y := by
  induction xs with
  | nil => simp [updFirst] at h
  | cons z l ih =>
    simp only [updFirst] at h
    cases hz : p z with
    | true =>
      simp only [hz, if_true, List.mem_cons] at h
      rcases h with h | h
      · right; exact ⟨z, by simp [List.find?, hz], h⟩
      · left; exact List.mem_cons_of_mem _ h
    | false =>
      simp only [hz, Bool.false_eq_true, if_false, List.mem_cons] at h
      rcases h with h | h
      · left; simp [h]
      · rcases ih h with h | ⟨y, h1, h2⟩
        · left; exact List.mem_cons_of_mem _ h
        · right; exact ⟨y, by simp [List.find?, hz, h1], h2⟩

theorem length_updFirst (p : Xfer → Bool) (f : Xfer → Xfer) (xs : List Xfer) : (updFirst p f xs).length = xs.length := by
  induction xs with
  | nil => rfl
  | cons z l ih => simp only [updFirst]; split <;> simp [ih]

/-! ## `findShared` -/

theorem findShared_some (c : Cfg) (sh : Shares.St Comp) (u : Name) (path : List Ch) (it : SItem)
    (h : findShared c sh u path = some it) :
    it ∈ sh.items ∧ remotePath c it = path ∧ locked c it.sd u = false := by
  simp only [findShared] at h
  split at h
  · simp at h
  · rename_i it' hf
    split at h
    · simp at h
    · rename_i hl
      simp only [Option.some.injEq] at h
      subst h
      refine ⟨List.mem_of_find?_eq_some hf, ?_, by simpa using hl⟩
      simpa using List.find?_some hf

/-! ## the index stays well-formed under the share operations of `step` -/

theorem inv_step_sh (s : S) (op : Op) (h : Shares.Inv s.sh) : Shares.Inv (step s op).1.sh := by
  cases op with
  | share d disk =>
    simp only [step]
    split
    · rename_i hr
      have h1 : Shares.Inv (add s.sh d.path).1 := inv_add s.sh d.path h
      have hp : d.path ∈ (add s.sh d.path).1.paths := by
        simp only [add] at hr ⊢
        split
        · rename_i hm; simp [hm] at hr
        · split <;> simp
      exact (inv_scanDir _ _ disk h1 hp).1
    · exact h
  | unshare p =>
    simp only [step]
    split
    · exact inv_remove s.sh p h
    · exact h
  | setMode p m => simp only [step]; split <;> exact h
  | cycle => simp only [step]; split <;> exact h
  | _ => exact h

theorem inv_run_sh (ops : List Op) (s : S) (h : Shares.Inv s.sh) : Shares.Inv (run s ops).sh := by
  induction ops generalizing s with
  | nil => exact h
  | cons op ops ih =>
    simp only [run, List.foldl_cons]
    exact ih _ (inv_step_sh s op h)

end AioslskVerif.Entitle
