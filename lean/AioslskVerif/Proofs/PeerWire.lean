import AioslskVerif.Proofs.PeerConnect
/-!
Helper lemmas for the wire-level half of C11 (`Model/PeerConnect.lean`, "The wire"): the invariant `WInv` ties the
wire-level state of the connection objects (`X`) to the control state (`S`); it is preserved by every step because of
what `frameOK` (checked for every good state x every op in `table_ok`) says about how one step can change `ps`, the
phase of the accepted connection and `ic`.
-/
namespace AioslskVerif.PeerConnect

/-- the wire-level state is what the control state says it must be: the outgoing connection is finalised, and PeerInit
written — in the encoding of the dialled port — exactly when `ps`; the accepted connection is fresh until its pierce
message is matched, finalised from then on; a pierced connection the request holds is finalised -/
structure WInv (x : X) : Prop where
  dw : x.dw = if x.s.ps then finalize x.typ (Wire.fresh x.dialObf) else Wire.fresh x.dialObf
  enc : x.initEnc = if x.s.ps then some x.dialObf else none
  aC : x.s.a = .nConnected → x.aw = Wire.fresh x.aObf
  aI : x.s.a = .nInit → x.aw = finalize x.typ (Wire.fresh x.aObf)
  ic : x.s.ic = true → x.iw = finalize x.typ (Wire.fresh x.iObf)

theorem winv_init (t : CT) (o : Bool) (m : Mode) (l f : Bool) : WInv (xinit t o m l f) := by
  have hps : (init m l f).ps = false := by cases m <;> cases l <;> cases f <;> rfl
  have ha : (init m l f).a = .none := by cases m <;> cases l <;> cases f <;> rfl
  have hic : (init m l f).ic = false := by cases m <;> cases l <;> cases f <;> rfl
  constructor <;> simp [xinit, hps, ha, hic]

theorem frame_facts {s s' : S} {op : Op} (h : frameOK s op s' = true) :
    (if evWrites s op = true then s.ps = false ∧ s'.ps = true else s'.ps = s.ps) ∧
    (s'.a = .nConnected → s.a = .nConnected ∨ (evLands s op).isSome = true) ∧
    (if evAccepts s op = true then s'.a = .nInit else (s'.a = .nInit → s.a = .nInit)) ∧
    (s'.ic = true → s.ic = true ∨ evHands s op = true) := by
  simp only [frameOK, Bool.and_eq_true] at h
  obtain ⟨⟨⟨f1, f2⟩, f3⟩, f4⟩ := h
  refine ⟨?_, ?_, ?_, ?_⟩
  · split <;> simp_all
  · intro h; simp_all
  · split
    · simp_all
    · intro h; simp_all
  · intro h; simp_all

theorem winv_step {x : X} {s' : S} {op : Op} (hg : good x.s = true) (hw : WInv x) (hs : step x.s op = some s') :
    WInv { wireStep x op with s := s' } := by
  obtain ⟨f1, f2, f3, f4⟩ := frame_facts (frame_step hg hs)
  obtain ⟨w1, w2, w3, w4, w5⟩ := hw
  cases op with
  | note n =>
    cases n <;>
      simp [evWrites, evLands, evAccepts, evHands] at f1 f2 f3 f4 <;>
      constructor <;> simp only [wireStep] <;> (try split) <;> simp_all [Wire.fresh, finalize]
  | pierce o =>
    simp [evWrites, evLands, evAccepts, evHands] at f1 f2 f3 f4
    constructor <;> simp only [wireStep] <;> (try split) <;> simp_all [Wire.fresh, finalize]
  | _ =>
    simp [evWrites, evLands, evAccepts, evHands] at f1 f2 f3 f4 <;>
    constructor <;> simp only [wireStep] <;> simp_all

theorem xstepT_s (x : X) (op : Op) : (xstepT x op).s = stepT x.s op := by
  unfold xstepT xstep stepT
  cases step x.s op <;> rfl

theorem wireStep_cfg (x : X) (op : Op) : (wireStep x op).typ = x.typ ∧ (wireStep x op).dialObf = x.dialObf := by
  unfold wireStep
  split <;> (try split) <;> exact ⟨rfl, rfl⟩

theorem xstepT_cfg (x : X) (op : Op) : (xstepT x op).typ = x.typ ∧ (xstepT x op).dialObf = x.dialObf := by
  unfold xstepT xstep
  cases step x.s op with
  | none => exact ⟨rfl, rfl⟩
  | some s' => exact wireStep_cfg x op

theorem winv_xstepT {x : X} (op : Op) (hg : good x.s = true) (hw : WInv x) : WInv (xstepT x op) := by
  unfold xstepT xstep
  cases hs : step x.s op with
  | none => simpa using hw
  | some s' => simpa using winv_step hg hw hs

/-- the control half of a run with wire-level state is the run of `Model.run` -/
theorem xrun_s (t : CT) (o : Bool) (m : Mode) (l f : Bool) (ops : List Op) : (xrun t o m l f ops).s = run m l f ops := by
  unfold xrun run
  suffices h : ∀ (x : X), (ops.foldl xstepT x).s = ops.foldl stepT x.s from h _
  induction ops with
  | nil => intro x; rfl
  | cons op ops ih => intro x; simp only [List.foldl_cons, ih, xstepT_s]

theorem xrun_inv (t : CT) (o : Bool) (m : Mode) (l f : Bool) (ops : List Op) :
    let x := xrun t o m l f ops
    WInv x ∧ good x.s = true ∧ x.typ = t ∧ x.dialObf = o := by
  unfold xrun
  suffices h : ∀ (x : X), WInv x → good x.s = true → x.typ = t → x.dialObf = o →
      (WInv (ops.foldl xstepT x) ∧ good (ops.foldl xstepT x).s = true ∧ (ops.foldl xstepT x).typ = t ∧
        (ops.foldl xstepT x).dialObf = o) from h _ (winv_init t o m l f) (good_init m l f) rfl rfl
  induction ops with
  | nil => intro x hw hg ht ho; exact ⟨hw, hg, ht, ho⟩
  | cons op ops ih =>
    intro x hw hg ht ho
    simp only [List.foldl_cons]
    refine ih _ (winv_xstepT op hg hw) ?_ ?_ ?_
    · rw [xstepT_s]; exact good_stepT op hg
    · rw [(xstepT_cfg x op).1]; exact ht
    · rw [(xstepT_cfg x op).2]; exact ho

/-- `select_port` gives port 0 exactly when there is no port at all -/
theorem selectPort_zero (prefer : Bool) (port obfs : Nat) :
    (selectPort prefer port obfs).1 = 0 ↔ port = 0 ∧ obfs = 0 := by
  simp only [selectPort]
  by_cases hp : port = 0 <;> by_cases ho : obfs = 0 <;> cases prefer <;> simp_all

end AioslskVerif.PeerConnect
