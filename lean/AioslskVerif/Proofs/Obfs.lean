import AioslskVerif.Model.Obfs
/-! Helper lemmas for the obfuscation round trip (C01). -/
namespace AioslskVerif.Obfs

theorem pyRot_eq (x : BitVec 32) (r : Nat) (h : r < 32) : pyRot x r = x.rotateRight r := by
  rw [BitVec.rotateRight_def, Nat.mod_eq_of_lt h]; rfl

theorem getLsbD_rot (x : BitVec 32) (r i : Nat) (hr : r < 32) (hi : i < 32) :
    (x.rotateRight r).getLsbD i = x.getLsbD ((r + i) % 32) := by
  rw [BitVec.getLsbD_rotateRight_of_lt hr]
  by_cases h : i < 32 - r
  · simp only [h, decide_true, cond_true]; congr 1; omega
  · simp only [h, decide_false, cond_false, hi, decide_true, Bool.true_and]; congr 1; omega

/-- rotating right by `a` then by `b` is rotating right by `(a + b) % 32` -/
theorem rot_rot (x : BitVec 32) (a b : Nat) (ha : a < 32) (hb : b < 32) :
    (x.rotateRight a).rotateRight b = x.rotateRight ((a + b) % 32) := by
  apply BitVec.eq_of_getLsbD_eq
  intro i hi
  have h1 : (b + i) % 32 < 32 := Nat.mod_lt _ (by decide)
  have h2 : (a + b) % 32 < 32 := Nat.mod_lt _ (by decide)
  rw [getLsbD_rot _ b i hb hi, getLsbD_rot _ a _ ha h1, getLsbD_rot _ _ i h2 hi]
  congr 1; omega

theorem keyToBV_bvToKey (x : BitVec 32) : keyToBV (bvToKey x) = x := by
  unfold keyToBV bvToKey
  have hx := x.isLt
  have h : leNat [UInt8.ofNat (x.toNat % 256), UInt8.ofNat (x.toNat / 256 % 256),
      UInt8.ofNat (x.toNat / 65536 % 256), UInt8.ofNat (x.toNat / 16777216 % 256)] = x.toNat := by
    simp only [leNat, UInt8.toNat_ofNat']
    omega
  rw [h]; simp

theorem bvToKey_length (x : BitVec 32) : (bvToKey x).length = 4 := rfl

end AioslskVerif.Obfs

namespace AioslskVerif.Obfs

/-- the key used for 4-byte block `j` (both directions) -/
def blockKey (key : Bytes) (j : Nat) : Bytes := rotateKey key (31 - j % 32)

theorem blockKey_zero (key : Bytes) : rotateKey key 31 = blockKey key 0 := rfl

theorem blockKey_succ (key : Bytes) (j : Nat) : rotateKey (blockKey key j) 31 = blockKey key (j + 1) := by
  unfold blockKey rotateKey
  rw [keyToBV_bvToKey]
  have h1 : 31 - j % 32 < 32 := by omega
  have h2 : 31 - (j + 1) % 32 < 32 := by omega
  rw [pyRot_eq _ _ h1, pyRot_eq _ 31 (by decide), pyRot_eq _ _ h2, rot_rot _ _ _ h1 (by decide)]
  congr 2; omega

theorem blockKey_mod (key : Bytes) (j : Nat) : blockKey key (j % 32) = blockKey key j := by
  unfold blockKey; rw [Nat.mod_mod]

/-- closed form of the encoder loop -/
def encSpec (key : Bytes) : Nat → Bytes → Bytes
  | _, [] => []
  | idx, b :: r => ((blockKey key (idx / 4)).getD (idx % 4) 0 ^^^ b) :: encSpec key (idx + 1) r

theorem encLoop_eq (key : Bytes) : ∀ (data : Bytes) (idx : Nat) (cur : Bytes),
    cur = (if idx = 0 then key else blockKey key ((idx - 1) / 4)) →
    encLoop idx cur data = encSpec key idx data
  | [], _, _, _ => rfl
  | b :: r, idx, cur, hcur => by
    have hk : (if idx % 4 = 0 then rotateKey cur 31 else cur) = blockKey key (idx / 4) := by
      by_cases h0 : idx = 0
      · subst h0; simp [hcur, blockKey_zero]
      · simp only [h0, if_false] at hcur
        by_cases h4 : idx % 4 = 0
        · simp only [h4, if_true, hcur, blockKey_succ]
          congr 1; omega
        · simp only [h4, if_false, hcur]
          congr 1; omega
    simp only [encLoop, encSpec, hk]
    congr 1
    apply encLoop_eq key r (idx + 1)
    simp

theorem encSpec_length (key : Bytes) : ∀ (data : Bytes) (idx : Nat), (encSpec key idx data).length = data.length
  | [], _ => rfl
  | _ :: r, idx => by simp [encSpec, encSpec_length key r (idx + 1)]

theorem rotateKey_length (key : Bytes) (r : Nat) : (rotateKey key r).length = 4 := rfl

theorem fullKey_succ (key : Bytes) (ka : Nat) :
    fullKey key (ka + 1) = fullKey key ka ++ rotateKey key (31 - ka) := by
  simp [fullKey, List.range_succ, List.flatMap_append]

theorem fullKey_length (key : Bytes) : ∀ ka, (fullKey key ka).length = 4 * ka
  | 0 => rfl
  | ka + 1 => by rw [fullKey_succ, List.length_append, fullKey_length key ka, rotateKey_length]; omega

theorem fullKey_get (key : Bytes) : ∀ (ka i : Nat), i < 4 * ka →
    (fullKey key ka).getD i 0 = (rotateKey key (31 - i / 4)).getD (i % 4) 0
  | 0, i, h => by omega
  | ka + 1, i, h => by
    rw [fullKey_succ]
    by_cases hi : i < 4 * ka
    · have hl : i < (fullKey key ka).length := by rw [fullKey_length]; exact hi
      have := fullKey_get key ka i hi
      simp only [List.getD_eq_getElem?_getD] at this ⊢
      rw [List.getElem?_append_left hl]; exact this
    · have hl : (fullKey key ka).length ≤ i := by rw [fullKey_length]; omega
      simp only [List.getD_eq_getElem?_getD]
      rw [List.getElem?_append_right hl, fullKey_length]
      have h1 : i / 4 = ka := by omega
      have h2 : i - 4 * ka = i % 4 := by omega
      rw [h1, h2]

/-- the decoder's key byte at position `p` of an `n`-byte message is the encoder's -/
theorem fullKey_byte (key : Bytes) (n p : Nat) (hp : p < n) :
    (fullKey key (min ((n + 3) / 4) 32)).getD (p % (fullKey key (min ((n + 3) / 4) 32)).length) 0
      = (blockKey key (p / 4)).getD (p % 4) 0 := by
  rw [fullKey_length]
  by_cases hbig : 32 ≤ (n + 3) / 4
  · have hka : min ((n + 3) / 4) 32 = 32 := by omega
    rw [hka]
    have hlt : p % (4 * 32) < 4 * 32 := Nat.mod_lt _ (by decide)
    rw [fullKey_get key 32 _ hlt]
    have h1 : p % (4 * 32) / 4 = (p / 4) % 32 := by omega
    have h2 : p % (4 * 32) % 4 = p % 4 := by omega
    rw [h1, h2]
    rfl
  · have hka : min ((n + 3) / 4) 32 = (n + 3) / 4 := by omega
    rw [hka]
    have hlt : p < 4 * ((n + 3) / 4) := by omega
    rw [Nat.mod_eq_of_lt hlt, fullKey_get key _ _ hlt]
    unfold blockKey
    have : p / 4 % 32 = p / 4 := by omega
    rw [this]

theorem xor_cancel (a b : UInt8) : (a ^^^ b) ^^^ a = b := by
  rw [UInt8.xor_comm a b, UInt8.xor_assoc, UInt8.xor_self, UInt8.xor_zero]

theorem xorAt_encSpec (key fk : Bytes) : ∀ (data : Bytes) (idx : Nat),
    (∀ p, idx ≤ p → p < idx + data.length →
      fk.getD (p % fk.length) 0 = (blockKey key (p / 4)).getD (p % 4) 0) →
    xorAt fk idx (encSpec key idx data) = data
  | [], _, _ => rfl
  | b :: r, idx, h => by
    simp only [encSpec, xorAt]
    rw [h idx (Nat.le_refl _) (by simp), xor_cancel]
    congr 1
    apply xorAt_encSpec key fk r (idx + 1)
    intro p hp1 hp2
    exact h p (by omega) (by simp only [List.length_cons]; omega)

end AioslskVerif.Obfs
