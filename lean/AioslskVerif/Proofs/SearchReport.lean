import AioslskVerif.Proofs.Search
/-! Helper lemmas for C18, part 3: the removal report (`nstep`) — each registered listener is told of a removal
exactly once, and the reporting task is never cancelled. -/
namespace AioslskVerif.Search
open AioslskVerif.Generated.Search

/-! ### the removal report -/

theorem nrun_nil (s : NState) : nrun s [] = (s, []) := rfl
theorem nrun_cons (s : NState) (op : NOp) (ops : List NOp) :
    nrun s (op :: ops) = ((nrun (nstep s op).1 ops).1, (nstep s op).2 ++ (nrun (nstep s op).1 ops).2) := rfl

theorem nrun_ind {P : NState → List NObs → Prop} {G : NState → Prop}
    (hG : ∀ s op, G (nstep s op).1 → G s)
    (hstep : ∀ s tr op, P s tr → G (nstep s op).1 → P (nstep s op).1 (tr ++ (nstep s op).2)) :
    ∀ ops s tr, P s tr → G (nrun s ops).1 → P (nrun s ops).1 (tr ++ (nrun s ops).2) := by
  intro ops
  induction ops with
  | nil => intro s tr h _; simpa [nrun_nil] using h
  | cons op ops ih =>
    intro s tr h hg
    rw [nrun_cons] at hg ⊢
    have hgs : G (nstep s op).1 := by
      clear ih h
      generalize (nstep s op).1 = s' at hg
      induction ops generalizing s' with
      | nil => simpa [nrun_nil] using hg
      | cons op' ops' ih' => rw [nrun_cons] at hg; exact hG _ _ (ih' _ hg)
    have := ih _ _ (hstep s tr op h hgs) hg
    simpa [List.append_assoc] using this

theorem nstep_resume_base (s : NState) (rid : Nat) : (nstep s (.resume rid)).1.base = s.base := by
  simp only [nstep]
  split
  · rfl
  · split
    · rfl
    · split <;> rfl

theorem nstep_resume_listeners (s : NState) (rid : Nat) : (nstep s (.resume rid)).1.listeners = s.listeners := by
  simp only [nstep]
  split
  · rfl
  · split
    · rfl
    · split <;> rfl

theorem nstep_base_base (s : NState) (op : Op) : (nstep s (.base op)).1.base = (step s.base op).1 := by
  simp only [nstep]; split <;> rfl

theorem nstep_listeners (s : NState) (op : NOp) : (nstep s op).1.listeners = s.listeners := by
  cases op with
  | base op => simp only [nstep]; split <;> rfl
  | resume rid => exact nstep_resume_listeners s rid

theorem noWrap_of_nstep (s : NState) (op : NOp) (h : NoWrap (nstep s op).1.base) : NoWrap s.base := by
  cases op with
  | base op => rw [nstep_base_base] at h; exact noWrap_of_step _ _ h
  | resume rid => rw [nstep_resume_base] at h; exact h

def toldKey : NObs → Option (Nat × Nat)
  | .told _ rid _ i => some (rid, i)
  | _ => none

theorem pairwise_rid_inj {l : List Emission} (h : l.Pairwise (fun a b => a.rid ≠ b.rid)) :
    ∀ a ∈ l, ∀ b ∈ l, a.rid = b.rid → a = b := by
  induction l with
  | nil => intro a ha; cases ha
  | cons x xs ih =>
    rw [List.pairwise_cons] at h
    intro a ha b hb hab
    rcases List.mem_cons.1 ha with rfl | ha' <;> rcases List.mem_cons.1 hb with rfl | hb'
    · rfl
    · exact absurd hab (h.1 b hb')
    · exact absurd hab.symm (h.1 a ha')
    · exact ih h.2 a ha' b hb' hab

@[simp] theorem bump_rid (rid : Nat) (e : Emission) : (bump rid e).rid = e.rid := by unfold bump; split <;> rfl
@[simp] theorem bump_tid (rid : Nat) (e : Emission) : (bump rid e).tid = e.tid := by unfold bump; split <;> rfl
@[simp] theorem bump_cancelled (rid : Nat) (e : Emission) : (bump rid e).cancelled = e.cancelled := by
  unfold bump; split <;> rfl
theorem bump_told (rid : Nat) (e : Emission) : (bump rid e).told = if e.rid = rid then e.told + 1 else e.told := by
  unfold bump; split <;> rfl

/-- The ledger of the removal reports.  `tr` is the trace so far. -/
structure NInv (s : NState) (tr : List NObs) : Prop where
  inv : SInv s.base
  /-- a running report: not cancelled, between its first and its last listener, for a request that is gone, run
  by a task that is not pending any more and whose id will never be handed out again -/
  rep_ok : ∀ e ∈ s.reporting, e.cancelled = false ∧ 1 ≤ e.told ∧ e.told ≤ s.listeners ∧ Gone e.rid s.base ∧
    e.tid < s.base.nextTask ∧ ∀ t ∈ s.base.tasks, t.id ≠ e.tid
  rep_nodup : s.reporting.Pairwise (fun a b => a.rid ≠ b.rid)
  /-- the listeners a running report has passed have been told -/
  rep_told : ∀ e ∈ s.reporting, ∀ j, j < e.told → ∃ t' tk', NObs.told t' e.rid tk' j ∈ tr
  told_ok : ∀ t rid tk i, NObs.told t rid tk i ∈ tr →
    i < s.listeners ∧ Gone rid s.base ∧ ∀ e ∈ s.reporting, e.rid = rid → i < e.told
  told_nodup : (tr.filterMap toldKey).Nodup
  /-- nothing is lost: a listener has been told, or the report is still running and has not reached it yet -/
  complete : ∀ t rid tk dl tid, NObs.base (.removed t rid tk dl tid) ∈ tr → ∀ i, i < s.listeners →
    (∃ t' tk', NObs.told t' rid tk' i ∈ tr) ∨ ∃ e ∈ s.reporting, e.rid = rid ∧ e.told ≤ i
  /-- a listener is only told of removals that happened -/
  rep_src : ∀ e ∈ s.reporting, ∃ t0 dl, NObs.base (.removed t0 e.rid e.ticket dl e.tid) ∈ tr
  told_src : ∀ t rid tk i, NObs.told t rid tk i ∈ tr → ∃ t0 dl tid, NObs.base (.removed t0 rid tk dl tid) ∈ tr
  /-- listeners are told in registration order -/
  in_order : ∀ t rid tk i, NObs.told t rid tk i ∈ tr → ∀ j, j < i → ∃ t' tk', NObs.told t' rid tk' j ∈ tr
  no_abort : ∀ t rid tk i, NObs.aborted t rid tk i ∉ tr

theorem ninv_init (cfg : Cfg) (n : Nat) : NInv (ninit cfg n) [] := by
  constructor
  · exact sinv_init cfg
  · intro e he; cases he
  · exact List.Pairwise.nil
  · intro e he; cases he
  · intro t rid tk i h; cases h
  · exact List.nodup_nil
  · intro t rid tk dl tid h; cases h
  · intro e he; cases he
  · intro t rid tk i h; cases h
  · intro t rid tk i h; cases h
  · intro t rid tk i h; cases h

theorem mem_newEmission {obs : List Obs} {e : Emission} (h : e ∈ obs.filterMap newEmission) :
    ∃ t dl, Obs.removed t e.rid e.ticket dl e.tid ∈ obs ∧ e.told = 1 ∧ e.cancelled = false := by
  obtain ⟨x, hx, hxe⟩ := List.mem_filterMap.1 h
  cases x with
  | removed t rid tk dl tid =>
    simp only [newEmission, Option.some.injEq] at hxe
    subst hxe
    exact ⟨t, dl, hx, rfl, rfl⟩
  | _ => simp [newEmission] at hxe

theorem mem_firstTold {obs : List Obs} {x : NObs} (h : x ∈ obs.filterMap firstTold) :
    ∃ t rid tk dl tid, Obs.removed t rid tk dl tid ∈ obs ∧ x = .told t rid tk 0 := by
  obtain ⟨y, hy, hyx⟩ := List.mem_filterMap.1 h
  cases y with
  | removed t rid tk dl tid =>
    simp only [firstTold, Option.some.injEq] at hyx
    exact ⟨t, rid, tk, dl, tid, hy, hyx.symm⟩
  | _ => simp [firstTold] at hyx

theorem newEmission_of_removed {obs : List Obs} {t rid tk dl tid : Nat} (h : Obs.removed t rid tk dl tid ∈ obs) :
    ({ rid := rid, ticket := tk, tid := tid, told := 1, cancelled := false } : Emission) ∈ obs.filterMap newEmission :=
  List.mem_filterMap.2 ⟨_, h, rfl⟩

theorem firstTold_of_removed {obs : List Obs} {t rid tk dl tid : Nat} (h : Obs.removed t rid tk dl tid ∈ obs) :
    NObs.told t rid tk 0 ∈ obs.filterMap firstTold :=
  List.mem_filterMap.2 ⟨_, h, rfl⟩

theorem newEmission_rids (obs : List Obs) : (obs.filterMap newEmission).map (·.rid) = obs.filterMap removedRid := by
  rw [List.map_filterMap]
  congr 1
  funext x
  cases x <;> rfl

theorem firstTold_keys (obs : List Obs) :
    (obs.filterMap firstTold).filterMap toldKey = (obs.filterMap removedRid).map (fun r => (r, 0)) := by
  rw [List.filterMap_filterMap, List.map_filterMap]
  congr 1
  funext x
  cases x <;> rfl

theorem base_keys (obs : List Obs) : (obs.map NObs.base).filterMap toldKey = [] := by
  rw [List.filterMap_map]
  apply List.filterMap_eq_nil_iff.2
  intro x _
  rfl

theorem ninv_resume {s : NState} {tr : List NObs} (rid : Nat) (h : NInv s tr) :
    NInv (nstep s (.resume rid)).1 (tr ++ (nstep s (.resume rid)).2) := by
  obtain ⟨hinv, hrep, hnd, hrt, htold, hkeys, hcomp, hrs, hts, hord, hab⟩ := h
  have hinj := pairwise_rid_inj hnd
  have hnil : ∀ x : NObs, toldKey x = none → (tr ++ [x]).filterMap toldKey = tr.filterMap toldKey := by
    intro x hx
    rw [List.filterMap_append]
    simp [hx]
  simp only [nstep]
  cases hf : s.reporting.find? (fun e => decide (e.rid = rid)) with
  | none =>
    simp only []
    constructor
    · exact hinv
    · exact hrep
    · exact hnd
    · intro e he j hj
      obtain ⟨t', tk', h1⟩ := hrt e he j hj
      exact ⟨t', tk', List.mem_append.2 (.inl h1)⟩
    · intro t r tk i hm
      rcases List.mem_append.1 hm with hm | hm
      · exact htold t r tk i hm
      · simp at hm
    · rw [hnil _ rfl]; exact hkeys
    · intro t r tk dl tid hm i hi
      have hm' : NObs.base (.removed t r tk dl tid) ∈ tr := by
        rcases List.mem_append.1 hm with hm | hm
        · exact hm
        · simp at hm
      rcases hcomp t r tk dl tid hm' i hi with ⟨t', tk', h1⟩ | h1
      · exact .inl ⟨t', tk', List.mem_append.2 (.inl h1)⟩
      · exact .inr h1
    · intro e he
      obtain ⟨t0, dl, h1⟩ := hrs e he
      exact ⟨t0, dl, List.mem_append.2 (.inl h1)⟩
    · intro t r tk i hm
      rcases List.mem_append.1 hm with hm | hm
      · obtain ⟨t0, dl, tid, h1⟩ := hts t r tk i hm
        exact ⟨t0, dl, tid, List.mem_append.2 (.inl h1)⟩
      · simp at hm
    · intro t r tk i hm j hj
      rcases List.mem_append.1 hm with hm | hm
      · obtain ⟨t', tk', h1⟩ := hord t r tk i hm j hj
        exact ⟨t', tk', List.mem_append.2 (.inl h1)⟩
      · simp at hm
    · intro t r tk i hm
      rcases List.mem_append.1 hm with hm | hm
      · exact hab t r tk i hm
      · simp at hm
  | some e =>
    have hem : e ∈ s.reporting := List.mem_of_find?_eq_some hf
    have her : e.rid = rid := by simpa using List.find?_some hf
    obtain ⟨hec, he1, hen, heg, het, hett⟩ := hrep e hem
    simp only [hec, Bool.false_eq_true, if_false]
    by_cases hlt : e.told < s.listeners
    · -- the next listener is called
      simp only [hlt, if_true]
      have hbump : ∀ e0 ∈ s.reporting, e0.rid = rid → e0 = e := fun e0 h0 hr => hinj e0 h0 e hem (by omega)
      constructor
      · exact hinv
      · intro e' he'
        obtain ⟨e0, he0, rfl⟩ := List.mem_map.1 he'
        obtain ⟨a, b, c, d, f, g⟩ := hrep e0 he0
        refine ⟨by simpa using a, ?_, ?_, by simpa using d, by simpa using f, by simpa using g⟩
        · rw [bump_told]; split <;> omega
        · show (bump rid e0).told ≤ s.listeners
          rw [bump_told]
          split
          · rename_i hr; have := hbump e0 he0 hr; subst this; omega
          · exact c
      · rw [List.pairwise_map]
        simpa using hnd
      · intro e' he' j hj
        obtain ⟨e0, he0, rfl⟩ := List.mem_map.1 he'
        rw [bump_told] at hj
        rw [bump_rid]
        by_cases hr : e0.rid = rid
        · have h0 := hbump e0 he0 hr
          subst h0
          rw [if_pos hr] at hj
          by_cases hj' : j < e0.told
          · obtain ⟨t', tk', h1⟩ := hrt e0 he0 j hj'
            exact ⟨t', tk', List.mem_append.2 (.inl h1)⟩
          · have : j = e0.told := by omega
            subst this
            exact ⟨s.base.now, e0.ticket, List.mem_append.2 (.inr (by simp))⟩
        · rw [if_neg hr] at hj
          obtain ⟨t', tk', h1⟩ := hrt e0 he0 j hj
          exact ⟨t', tk', List.mem_append.2 (.inl h1)⟩
      · intro t r tk i hm
        rcases List.mem_append.1 hm with hm | hm
        · obtain ⟨a, b, c⟩ := htold t r tk i hm
          refine ⟨a, b, ?_⟩
          intro e' he' her'
          obtain ⟨e0, he0, rfl⟩ := List.mem_map.1 he'
          have := c e0 he0 (by simpa using her')
          rw [bump_told]; split <;> omega
        · simp only [List.mem_singleton, NObs.told.injEq] at hm
          obtain ⟨_, rfl, _, rfl⟩ := hm
          refine ⟨hlt, heg, ?_⟩
          intro e' he' her'
          obtain ⟨e0, he0, rfl⟩ := List.mem_map.1 he'
          have h0 : e0 = e := hinj e0 he0 e hem (by simpa using her')
          subst h0
          rw [bump_told, if_pos her]; omega
      · rw [List.filterMap_append, List.nodup_append]
        refine ⟨hkeys, by simp [toldKey], ?_⟩
        intro a ha b hb hab
        simp only [List.filterMap_cons, toldKey, List.filterMap_nil, List.mem_singleton] at hb
        subst hab hb
        obtain ⟨x, hx, hxk⟩ := List.mem_filterMap.1 ha
        cases x with
        | told t' r' tk' i' =>
          simp only [toldKey, Option.some.injEq, Prod.mk.injEq] at hxk
          obtain ⟨rfl, rfl⟩ := hxk
          have := (htold t' _ tk' _ hx).2.2 e hem rfl
          omega
        | _ => simp [toldKey] at hxk
      · intro t r tk dl tid hm i hi
        have hm' : NObs.base (.removed t r tk dl tid) ∈ tr := by
          rcases List.mem_append.1 hm with hm | hm
          · exact hm
          · simp at hm
        rcases hcomp t r tk dl tid hm' i hi with ⟨t', tk', h1⟩ | ⟨e0, he0, h1, h2⟩
        · exact .inl ⟨t', tk', List.mem_append.2 (.inl h1)⟩
        · by_cases hr : e0.rid = rid
          · have h0 := hbump e0 he0 hr
            subst h0
            by_cases hi' : e0.told = i
            · left
              refine ⟨s.base.now, e0.ticket, List.mem_append.2 (.inr ?_)⟩
              simp [← h1, hi']
            · right
              refine ⟨bump rid e0, List.mem_map.2 ⟨e0, he0, rfl⟩, by simpa using h1, ?_⟩
              rw [bump_told, if_pos hr]; omega
          · right
            refine ⟨bump rid e0, List.mem_map.2 ⟨e0, he0, rfl⟩, by simpa using h1, ?_⟩
            rw [bump_told, if_neg hr]; exact h2
      · intro e' he'
        obtain ⟨e0, he0, rfl⟩ := List.mem_map.1 he'
        obtain ⟨t0, dl, h1⟩ := hrs e0 he0
        refine ⟨t0, dl, List.mem_append.2 (.inl ?_)⟩
        have : (bump rid e0).ticket = e0.ticket := by unfold bump; split <;> rfl
        rw [bump_rid, bump_tid, this]; exact h1
      · intro t r tk i hm
        rcases List.mem_append.1 hm with hm | hm
        · obtain ⟨t0, dl, tid, h1⟩ := hts t r tk i hm
          exact ⟨t0, dl, tid, List.mem_append.2 (.inl h1)⟩
        · simp only [List.mem_singleton, NObs.told.injEq] at hm
          obtain ⟨_, rfl, rfl, _⟩ := hm
          obtain ⟨t0, dl, h1⟩ := hrs e hem
          exact ⟨t0, dl, e.tid, List.mem_append.2 (.inl h1)⟩
      · intro t r tk i hm j hj
        rcases List.mem_append.1 hm with hm | hm
        · obtain ⟨t', tk', h1⟩ := hord t r tk i hm j hj
          exact ⟨t', tk', List.mem_append.2 (.inl h1)⟩
        · simp only [List.mem_singleton, NObs.told.injEq] at hm
          obtain ⟨_, rfl, _, rfl⟩ := hm
          obtain ⟨t', tk', h1⟩ := hrt e hem j hj
          exact ⟨t', tk', List.mem_append.2 (.inl h1)⟩
      · intro t r tk i hm
        rcases List.mem_append.1 hm with hm | hm
        · exact hab t r tk i hm
        · simp at hm
    · -- the last listener has returned: `emit` returns, the task is done
      simp only [hlt, if_false]
      constructor
      · exact hinv
      · intro e' he'; exact hrep e' (List.mem_filter.1 he').1
      · exact hnd.filter _
      · intro e' he' j hj
        obtain ⟨t', tk', h1⟩ := hrt e' (List.mem_filter.1 he').1 j hj
        exact ⟨t', tk', List.mem_append.2 (.inl h1)⟩
      · intro t r tk i hm
        rcases List.mem_append.1 hm with hm | hm
        · obtain ⟨a, b, c⟩ := htold t r tk i hm
          exact ⟨a, b, fun e' he' => c e' (List.mem_filter.1 he').1⟩
        · simp at hm
      · rw [hnil _ rfl]; exact hkeys
      · intro t r tk dl tid hm i hi
        have hi : i < s.listeners := hi
        have hm' : NObs.base (.removed t r tk dl tid) ∈ tr := by
          rcases List.mem_append.1 hm with hm | hm
          · exact hm
          · simp at hm
        rcases hcomp t r tk dl tid hm' i hi with ⟨t', tk', h1⟩ | ⟨e0, he0, h1, h2⟩
        · exact .inl ⟨t', tk', List.mem_append.2 (.inl h1)⟩
        · by_cases hr : e0.rid = rid
          · have h0 : e0 = e := hinj e0 he0 e hem (by omega)
            subst h0; omega
          · exact .inr ⟨e0, List.mem_filter.2 ⟨he0, by simpa using hr⟩, h1, h2⟩
      · intro e' he'
        obtain ⟨t0, dl, h1⟩ := hrs e' (List.mem_filter.1 he').1
        exact ⟨t0, dl, List.mem_append.2 (.inl h1)⟩
      · intro t r tk i hm
        rcases List.mem_append.1 hm with hm | hm
        · obtain ⟨t0, dl, tid, h1⟩ := hts t r tk i hm
          exact ⟨t0, dl, tid, List.mem_append.2 (.inl h1)⟩
        · simp at hm
      · intro t r tk i hm j hj
        rcases List.mem_append.1 hm with hm | hm
        · obtain ⟨t', tk', h1⟩ := hord t r tk i hm j hj
          exact ⟨t', tk', List.mem_append.2 (.inl h1)⟩
        · simp at hm
      · intro t r tk i hm
        rcases List.mem_append.1 hm with hm | hm
        · exact hab t r tk i hm
        · simp at hm

theorem ninv_base {s : NState} {tr : List NObs} (op : Op) (h : NInv s tr) (hw : NoWrap (step s.base op).1) :
    NInv (nstep s (.base op)).1 (tr ++ (nstep s (.base op)).2) := by
  obtain ⟨hinv, hrep, hnd, hrt, htold, hkeys, hcomp, hrs, hts, hord, hab⟩ := h
  have hinv' := sinv_step op hinv hw
  have hgrow := grows_step s.base op
  -- `Timer.cancel` never reaches a reporting task
  have hhit : s.reporting.map (hit (cancelTarget s.base op)) = s.reporting := by
    rw [List.map_congr_left (g := id)]
    · simp
    · intro e he
      unfold hit
      split
      · rename_i hc
        obtain ⟨t, ht, hid, _⟩ := cancelTarget_task hinv hc
        exact absurd hid ((hrep e he).2.2.2.2.2 t ht)
      · rfl
  -- the running reports stay as they are
  have hold : ∀ e ∈ s.reporting, e.cancelled = false ∧ 1 ≤ e.told ∧ e.told ≤ s.listeners ∧ Gone e.rid (step s.base op).1 ∧
      e.tid < (step s.base op).1.nextTask ∧ ∀ t ∈ (step s.base op).1.tasks, t.id ≠ e.tid := by
    intro e he
    obtain ⟨a, b, c, d, f, g⟩ := hrep e he
    refine ⟨a, b, c, gone_step op d, by have := hgrow.1; omega, ?_⟩
    intro t ht
    rcases hgrow.2 t ht with ⟨t0, ht0, he0⟩ | hge
    · have := g t0 ht0; omega
    · omega
  by_cases hn : s.listeners = 0
  · -- nobody listens: nothing to report, nothing is reporting
    have hnone : s.reporting = [] := by
      cases hr : s.reporting with
      | nil => rfl
      | cons e es =>
        have := hrep e (by rw [hr]; simp)
        omega
    simp only [nstep, hn, if_true, hhit]
    constructor
    · exact hinv'
    · intro e he
      have he : e ∈ s.reporting := he
      rw [hnone] at he; cases he
    · exact hnd
    · intro e he
      have he : e ∈ s.reporting := he
      rw [hnone] at he; cases he
    · intro t r tk i hm
      rcases List.mem_append.1 hm with hm | hm
      · have := (htold t r tk i hm).1; omega
      · simp at hm
    · rw [List.filterMap_append, base_keys, List.append_nil]; exact hkeys
    · intro t r tk dl tid _ i hi
      have hi : i < 0 := hi
      omega
    · intro e he
      have he : e ∈ s.reporting := he
      rw [hnone] at he; cases he
    · intro t r tk i hm
      rcases List.mem_append.1 hm with hm | hm
      · have := (htold t r tk i hm).1; omega
      · simp at hm
    · intro t r tk i hm
      rcases List.mem_append.1 hm with hm | hm
      · have := (htold t r tk i hm).1; omega
      · simp at hm
    · intro t r tk i hm
      rcases List.mem_append.1 hm with hm | hm
      · exact hab t r tk i hm
      · simp at hm
  · simp only [nstep, hn, if_false, hhit]
    have hpos : 0 < s.listeners := Nat.pos_of_ne_zero hn
    have hfacts : ∀ t rid tk dl tid, Obs.removed t rid tk dl tid ∈ (step s.base op).2 →
        (∃ r ∈ s.base.requests, r.rid = rid) ∧ Gone rid (step s.base op).1 ∧ tid < s.base.nextTask ∧
          ∀ x ∈ (step s.base op).1.tasks, x.id ≠ tid := fun t rid tk dl tid hx => step_removed_facts op hinv hw hx
    -- a request that is gone is not removed again
    have hfresh : ∀ t rid tk dl tid, Obs.removed t rid tk dl tid ∈ (step s.base op).2 → ¬ Gone rid s.base := by
      intro t rid tk dl tid hx hg
      obtain ⟨⟨r, hr, hr1⟩, _⟩ := hfacts t rid tk dl tid hx
      exact hg.2.1 r hr hr1
    have hsplit : ∀ x, x ∈ tr ++ ((step s.base op).2.map NObs.base ++ (step s.base op).2.filterMap firstTold) →
        x ∈ tr ∨ (∃ o ∈ (step s.base op).2, x = .base o) ∨
          ∃ t rid tk dl tid, Obs.removed t rid tk dl tid ∈ (step s.base op).2 ∧ x = .told t rid tk 0 := by
      intro x hx
      rcases List.mem_append.1 hx with hx | hx
      · exact .inl hx
      · rcases List.mem_append.1 hx with hx | hx
        · obtain ⟨o, ho, rfl⟩ := List.mem_map.1 hx
          exact .inr (.inl ⟨o, ho, rfl⟩)
        · exact .inr (.inr (mem_firstTold hx))
    constructor
    · exact hinv'
    · intro e he
      rcases List.mem_append.1 he with he | he
      · exact hold e he
      · obtain ⟨t, dl, hx, h1, h2⟩ := mem_newEmission he
        obtain ⟨_, hg, hlt, hnp⟩ := hfacts _ _ _ _ _ hx
        exact ⟨h2, by omega, by show e.told ≤ s.listeners; omega, hg,
          by show e.tid < (step s.base op).1.nextTask; have := hgrow.1; omega, hnp⟩
    · rw [List.pairwise_append]
      refine ⟨hnd, ?_, ?_⟩
      · have hnodup : ((step s.base op).2.filterMap removedRid).Nodup := step_removedRid_nodup op hinv hw
        rw [← newEmission_rids, List.Nodup, List.pairwise_map] at hnodup
        exact hnodup
      · intro a ha b hb heq
        obtain ⟨t, dl, hx, _⟩ := mem_newEmission hb
        exact hfresh _ _ _ _ _ hx (heq ▸ (hrep a ha).2.2.2.1)
    · intro e he j hj
      rcases List.mem_append.1 he with he | he
      · obtain ⟨t', tk', h1⟩ := hrt e he j hj
        exact ⟨t', tk', List.mem_append.2 (.inl h1)⟩
      · obtain ⟨t, dl, hx, h1, _⟩ := mem_newEmission he
        have : j = 0 := by omega
        subst this
        exact ⟨t, e.ticket, List.mem_append.2 (.inr (List.mem_append.2 (.inr (firstTold_of_removed hx))))⟩
    · intro t r tk i hm
      rcases hsplit _ hm with hm | ⟨o, _, ho⟩ | ⟨t0, rid0, tk0, dl0, tid0, hx, hxe⟩
      · obtain ⟨a, b, c⟩ := htold t r tk i hm
        refine ⟨a, gone_step op b, ?_⟩
        intro e he her
        rcases List.mem_append.1 he with he | he
        · exact c e he her
        · obtain ⟨t1, dl1, hx1, _⟩ := mem_newEmission he
          exact absurd (her ▸ b) (hfresh _ _ _ _ _ hx1)
      · cases ho
      · simp only [NObs.told.injEq] at hxe
        obtain ⟨rfl, rfl, rfl, rfl⟩ := hxe
        obtain ⟨_, hg, _, _⟩ := hfacts _ _ _ _ _ hx
        refine ⟨hpos, hg, ?_⟩
        intro e he her
        rcases List.mem_append.1 he with he | he
        · have := (hrep e he).2.1; omega
        · obtain ⟨_, _, _, h1, _⟩ := mem_newEmission he
          omega
    · rw [List.filterMap_append, List.filterMap_append, base_keys, List.nil_append, firstTold_keys, List.nodup_append]
      refine ⟨hkeys, ?_, ?_⟩
      · have hnodup : ((step s.base op).2.filterMap removedRid).Nodup := step_removedRid_nodup op hinv hw
        rw [List.Nodup, List.pairwise_map]
        exact hnodup.imp (fun hab hc => hab (by simpa using hc))
      · intro a ha b hb hab
        subst hab
        obtain ⟨rid, hrid, rfl⟩ := List.mem_map.1 hb
        obtain ⟨x, hx, hxk⟩ := List.mem_filterMap.1 ha
        obtain ⟨o, ho, hor⟩ := List.mem_filterMap.1 hrid
        cases o with
        | removed t0 rid0 tk0 dl0 tid0 =>
          simp only [removedRid, Option.some.injEq] at hor
          subst hor
          cases x with
          | told t' r' tk' i' =>
            simp only [toldKey, Option.some.injEq, Prod.mk.injEq] at hxk
            obtain ⟨rfl, rfl⟩ := hxk
            exact hfresh _ _ _ _ _ ho (htold t' _ tk' _ hx).2.1
          | _ => simp [toldKey] at hxk
        | _ => simp [removedRid] at hor
    · intro t r tk dl tid hm i hi
      have hi : i < s.listeners := hi
      rcases hsplit _ hm with hm | ⟨o, ho, hoe⟩ | ⟨t0, rid0, tk0, dl0, tid0, _, hxe⟩
      · rcases hcomp t r tk dl tid hm i hi with ⟨t', tk', h1⟩ | ⟨e0, he0, h1, h2⟩
        · exact .inl ⟨t', tk', List.mem_append.2 (.inl h1)⟩
        · exact .inr ⟨e0, List.mem_append.2 (.inl he0), h1, h2⟩
      · simp only [NObs.base.injEq] at hoe
        subst hoe
        by_cases hi0 : i = 0
        · subst hi0
          exact .inl ⟨t, tk, List.mem_append.2 (.inr (List.mem_append.2 (.inr (firstTold_of_removed ho))))⟩
        · exact .inr ⟨_, List.mem_append.2 (.inr (newEmission_of_removed ho)), rfl, by show 1 ≤ i; omega⟩
      · cases hxe
    · intro e he
      rcases List.mem_append.1 he with he | he
      · obtain ⟨t0, dl, h1⟩ := hrs e he
        exact ⟨t0, dl, List.mem_append.2 (.inl h1)⟩
      · obtain ⟨t, dl, hx, _⟩ := mem_newEmission he
        exact ⟨t, dl, List.mem_append.2 (.inr (List.mem_append.2 (.inl (List.mem_map.2 ⟨_, hx, rfl⟩))))⟩
    · intro t r tk i hm
      rcases hsplit _ hm with hm | ⟨o, _, ho⟩ | ⟨t0, rid0, tk0, dl0, tid0, hx, hxe⟩
      · obtain ⟨t0, dl, tid, h1⟩ := hts t r tk i hm
        exact ⟨t0, dl, tid, List.mem_append.2 (.inl h1)⟩
      · cases ho
      · simp only [NObs.told.injEq] at hxe
        obtain ⟨rfl, rfl, rfl, rfl⟩ := hxe
        exact ⟨t, dl0, tid0, List.mem_append.2 (.inr (List.mem_append.2 (.inl (List.mem_map.2 ⟨_, hx, rfl⟩))))⟩
    · intro t r tk i hm j hj
      rcases hsplit _ hm with hm | ⟨o, _, ho⟩ | ⟨t0, rid0, tk0, dl0, tid0, _, hxe⟩
      · obtain ⟨t', tk', h1⟩ := hord t r tk i hm j hj
        exact ⟨t', tk', List.mem_append.2 (.inl h1)⟩
      · cases ho
      · simp only [NObs.told.injEq] at hxe
        omega
    · intro t r tk i hm
      rcases hsplit _ hm with hm | ⟨o, _, ho⟩ | ⟨t0, rid0, tk0, dl0, tid0, _, hxe⟩
      · exact hab t r tk i hm
      · cases ho
      · cases hxe

theorem ninv_step {s : NState} {tr : List NObs} (op : NOp) (h : NInv s tr) (hw : NoWrap (nstep s op).1.base) :
    NInv (nstep s op).1 (tr ++ (nstep s op).2) := by
  cases op with
  | base op => rw [nstep_base_base] at hw; exact ninv_base op h hw
  | resume rid => exact ninv_resume rid h

/-- every history of the layered model keeps the ledger -/
theorem reach_ninv (cfg : Cfg) (n : Nat) (ops : List NOp) (hw : NoWrap (nrun (ninit cfg n) ops).1.base) :
    NInv (nrun (ninit cfg n) ops).1 (nrun (ninit cfg n) ops).2 := by
  have := nrun_ind (P := NInv) (G := fun s => NoWrap s.base) noWrap_of_nstep
    (fun s tr op hi hw => ninv_step op hi hw) ops (ninit cfg n) [] (ninv_init cfg n) hw
  simpa using this

theorem nrun_listeners (s : NState) (ops : List NOp) : (nrun s ops).1.listeners = s.listeners := by
  induction ops generalizing s with
  | nil => rfl
  | cons op ops ih => rw [nrun_cons]; simp only [ih, nstep_listeners]

/-! ### letting every suspended listener return -/

theorem nrun_append (s : NState) (a b : List NOp) :
    nrun s (a ++ b) = ((nrun (nrun s a).1 b).1, (nrun s a).2 ++ (nrun (nrun s a).1 b).2) := by
  induction a generalizing s with
  | nil => simp [nrun_nil]
  | cons op ops ih => simp [nrun_cons, ih, List.append_assoc]

/-- the schedule that lets the listeners of one running report return, one after the other, to the end -/
def drainOne (n : Nat) (e : Emission) : List NOp := List.replicate (n - e.told + 1) (.resume e.rid)

/-- … of every running report -/
def drainOps (s : NState) : List NOp := s.reporting.flatMap (drainOne s.listeners)

theorem find_bump (rid : Nat) (l : List Emission) :
    (l.map (bump rid)).find? (fun e => decide (e.rid = rid)) = (l.find? (fun e => decide (e.rid = rid))).map (bump rid) := by
  induction l with
  | nil => rfl
  | cons x xs ih =>
    simp only [List.map_cons, List.find?_cons, bump_rid]
    split
    · rfl
    · exact ih

theorem filter_bump (rid : Nat) (l : List Emission) :
    (l.map (bump rid)).filter (fun x => decide (x.rid ≠ rid)) = l.filter (fun x => decide (x.rid ≠ rid)) := by
  induction l with
  | nil => rfl
  | cons x xs ih =>
    simp only [List.map_cons, List.filter_cons, bump_rid, ih]
    split
    · rename_i h
      have : bump rid x = x := by unfold bump; rw [if_neg (by simpa using h)]
      rw [this]
    · rfl

/-- resuming an un-cancelled report `k + 1` times when `k` listeners are still to be called: they are called in
order, then `emit` returns; nothing else changes -/
theorem drainOne_run (s : NState) (e : Emission) (k : Nat)
    (hf : s.reporting.find? (fun x => decide (x.rid = e.rid)) = some e) (hc : e.cancelled = false)
    (hk : e.told + k = s.listeners) :
    (nrun s (List.replicate (k + 1) (.resume e.rid))).1 =
      { s with reporting := s.reporting.filter (fun x => decide (x.rid ≠ e.rid)) } := by
  induction k generalizing s e with
  | zero =>
    simp only [List.replicate, nrun_cons, nrun_nil, nstep, hf, hc]
    have : ¬ e.told < s.listeners := by omega
    simp [this]
  | succ k ih =>
    rw [List.replicate_succ, nrun_cons]
    have hlt : e.told < s.listeners := by omega
    have hs : (nstep s (.resume e.rid)).1 = { s with reporting := s.reporting.map (bump e.rid) } := by
      simp only [nstep, hf, hc]
      simp [hlt]
    rw [hs]
    have hb : (bump e.rid e).rid = e.rid := bump_rid _ _
    have := ih { s with reporting := s.reporting.map (bump e.rid) } (bump e.rid e)
      (by rw [hb]; simp only []; rw [find_bump, hf]; rfl) (by simpa using hc)
      (by rw [bump_told, if_pos rfl]; simp only []; omega)
    rw [hb] at this
    rw [this]
    show ({ base := s.base, listeners := s.listeners,
            reporting := (s.reporting.map (bump e.rid)).filter (fun x => decide (x.rid ≠ e.rid)) } : NState) = _
    rw [filter_bump]

theorem drain_run (n : Nat) (b : State) (l : List Emission)
    (hnd : l.Pairwise (fun x y => x.rid ≠ y.rid)) (hok : ∀ e ∈ l, e.cancelled = false ∧ e.told ≤ n) :
    (nrun { base := b, listeners := n, reporting := l } (l.flatMap (drainOne n))).1 =
      { base := b, listeners := n, reporting := [] } := by
  induction l with
  | nil => rfl
  | cons e es ih =>
    rw [List.pairwise_cons] at hnd
    have he := hok e (by simp)
    have h1 := drainOne_run { base := b, listeners := n, reporting := e :: es } e (n - e.told)
      (by simp [List.find?_cons]) he.1 (by have := he.2; show e.told + (n - e.told) = n; omega)
    have hfil : (e :: es).filter (fun x => decide (x.rid ≠ e.rid)) = es := by
      rw [List.filter_cons]
      simp only [ne_eq, not_true_eq_false, decide_false, Bool.false_eq_true, if_false]
      apply List.filter_eq_self.2
      intro x hx
      have := hnd.1 x hx
      simpa using fun h => this h.symm
    simp only [List.flatMap_cons, nrun_append]
    unfold drainOne at h1 ⊢
    rw [h1]
    simp only [hfil]
    exact ih hnd.2 (fun e' he' => hok e' (by simp [he']))

/-- when every suspended listener is allowed to return, every report runs to its end -/
theorem drain_state {s : NState} {tr : List NObs} (h : NInv s tr) :
    (nrun s (drainOps s)).1 = { s with reporting := [] } := by
  have := drain_run s.listeners s.base s.reporting h.rep_nodup
    (fun e he => ⟨(h.rep_ok e he).1, (h.rep_ok e he).2.2.1⟩)
  cases s
  exact this

end AioslskVerif.Search
