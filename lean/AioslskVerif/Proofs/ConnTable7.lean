import AioslskVerif.Proofs.ConnBase
/-! The step table of `Proofs/ConnBase.lean` for connections of origin `server`, type P, by kernel evaluation. -/
namespace AioslskVerif.Conn

theorem table_server_P : tableFor .server false = true := by decide +kernel

end AioslskVerif.Conn
