import AioslskVerif.Proofs.Wire
import AioslskVerif.Spec.WireSpec
/-! Top-level fields (guards, optionals, defaults), frames and dispatch: helper lemmas for C01. -/
namespace AioslskVerif.Wire

theorem isAbsent_eq {v : Val} (h : v.isAbsent = true) : v = .absent := by
  cases v <;> simp [Val.isAbsent] at h ⊢

theorem isSomeNil_eq {o : Option Bytes} (h : isSomeNil o = true) : o = some [] := by
  unfold isSomeNil at h; split at h <;> simp_all

theorem isOkWith_eq {e : Except DErr Bool} {b : Bool} (h : isOkWith e b = true) : e = .ok b := by
  unfold isOkWith at h; split at h <;> simp_all

theorem expParsed_snoc (all : List Val) : ∀ (fs : List Field) (vs : List Val) (f : Field) (v : Val),
    fs.length = vs.length →
    expParsed all (fs ++ [f]) (vs ++ [v]) = expParsed all fs vs ++ [if emitted all f v then some v else none]
  | [], [], f, v, _ => by simp [expParsed]
  | g :: fs, w :: vs, f, v, h => by
    simp only [List.cons_append, expParsed, List.length_cons] at h ⊢
    rw [expParsed_snoc all fs vs f v (by omega)]
  | [], _ :: _, _, _, h => by simp at h
  | _ :: _, [], _, _, h => by simp at h

/-- encodings of the types allowed for optional fields are never empty -/
theorem enc_nonempty (t : Ty) (v : Val) (b : Bytes) (ht : t.primOrArr = true) (h : enc t v = some b) :
    b.isEmpty = false := by
  cases t with
  | record fs => simp [Ty.primOrArr] at ht
  | arr e =>
    cases v <;> simp only [enc] at h <;> try (cases h)
    split at h
    · cases hb : encList e ‹_› with
      | none => simp [hb] at h
      | some b' => simp [hb] at h; subst h; simp [le32]
    · cases h
  | prim p =>
    cases p <;> cases v <;> simp only [enc] at h <;> (try cases h) <;>
      (try (split at h <;> (try cases h) <;> simp [le16, le32, le64])) <;> simp_all [le32]

/-- the `_PeerInitTicket` field round-trips when it is the last thing in the message -/
theorem dec_enc_ticket (v : Val) (b : Bytes) (h : enc (.prim .ticket) v = some b) :
    dec (.prim .ticket) b = .ok (v, []) := by
  cases v <;> simp only [enc] at h <;> try (cases h)
  split at h
  · cases h
    have := rd32_le32 _ ‹_› []
    simp only [List.append_nil] at this
    simp [dec, le32_length, this]
  · cases h

theorem isTicket_eq {t : Ty} (h : t.isTicket = true) : t = .prim .ticket := by
  unfold Ty.isTicket at h; split at h <;> simp_all

/-- **Top-level round trip**: decoding the encoding of an in-domain value re-creates exactly the
`parsed` map the encoder's choices imply, and consumes everything. -/
theorem decTop_encTop (all : List Val) : ∀ (fsS : List Field) (vsS : List Val) (fsP : List Field)
    (vsP : List Val) (b : Bytes), fsP.length = vsP.length →
    domFrom all fsP vsP fsS vsS = true → encTop all fsS vsS = some b →
    decTop fsS (expParsed all fsP vsP) b = .ok (expParsed all (fsP ++ fsS) (vsP ++ vsS), [])
  | [], [], fsP, vsP, b, _, _, h => by
    simp [encTop] at h; subst h; simp [decTop]
  | f :: fs, v :: vs, fsP, vsP, b, hlen, hd, h => by
    simp only [domFrom, Bool.and_eq_true] at hd
    obtain ⟨⟨hg, hc⟩, hrest⟩ := hd
    have hg' := isOkWith_eq hg
    have hsn := expParsed_snoc all fsP vsP f v hlen
    have hlen' : (fsP ++ [f]).length = (vsP ++ [v]).length := by simp [hlen]
    have happ : fsP ++ f :: fs = (fsP ++ [f]) ++ fs := by simp
    have happ' : vsP ++ v :: vs = (vsP ++ [v]) ++ vs := by simp
    simp only [decTop, hg', except_bind_ok]
    by_cases hgt : guardEnc f.cond all = true
    · simp only [hgt, Bool.not_true, Bool.false_eq_true, if_false] at hc
      by_cases hab : v.isAbsent = true
      · -- optional, absent, nothing written afterwards
        simp only [hab, if_true, Bool.and_eq_true] at hc
        obtain ⟨⟨ho, _⟩, hnil⟩ := hc
        have hnil' := isSomeNil_eq hnil
        simp only [encTop, hab, Bool.true_or, if_true] at h
        rw [hnil'] at h; cases h
        have hem : emitted all f v = false := by simp [emitted, hab]
        simp only [hem, Bool.false_eq_true, if_false] at hsn
        have ih := decTop_encTop all fs vs (fsP ++ [f]) (vsP ++ [v]) [] hlen' hrest hnil'
        rw [hsn, ← happ, ← happ'] at ih
        simp [ho, hgt, ih]
      · -- present
        have hab' : v.isAbsent = false := by simpa using hab
        simp only [hab', Bool.false_eq_true, if_false, Bool.and_eq_true, Bool.or_eq_true] at hc
        obtain ⟨htk, hopt⟩ := hc
        simp only [encTop, hab', hgt, Bool.not_true, Bool.or_self, Bool.false_eq_true, if_false] at h
        cases ha : enc f.ty v with
        | none => simp [ha] at h
        | some a =>
          cases hb : encTop all fs vs with
          | none => simp [ha, hb] at h
          | some b' =>
            simp [ha, hb] at h; subst h
            have hem : emitted all f v = true := by simp [emitted, hab', hgt]
            simp only [hem, if_true] at hsn
            have ih := decTop_encTop all fs vs (fsP ++ [f]) (vsP ++ [v]) b' hlen' hrest hb
            rw [hsn, ← happ, ← happ'] at ih
            have hcond : (true && (!f.optional || !(a ++ b').isEmpty)) = true := by
              cases ho : f.optional with
              | false => simp
              | true =>
                have hp : f.ty.primOrArr = true := by simpa [ho] using hopt
                have := enc_nonempty f.ty v a hp ha
                cases a with
                | nil => simp at this
                | cons x xs => simp
            have hdec : dec f.ty (a ++ b') = .ok (v, b') := by
              rcases htk with hnt | htk
              · exact dec_enc f.ty v a b' hnt ha
              · obtain ⟨hti, hnil⟩ := htk
                have hnil' := isSomeNil_eq hnil
                rw [hb] at hnil'; cases hnil'
                have := isTicket_eq hti
                rw [this] at ha ⊢
                simpa using dec_enc_ticket v a ha
            rw [hgt, if_pos hcond]
            simp [hdec, ih]
    · have hgf : guardEnc f.cond all = false := by simpa using hgt
      simp only [hgf, Bool.not_false, if_true, Bool.and_eq_true] at hc
      simp only [encTop, hgf, Bool.not_false, Bool.or_true, if_true] at h
      have hem : emitted all f v = false := by simp [emitted, hgf]
      simp only [hem, Bool.false_eq_true, if_false] at hsn
      have ih := decTop_encTop all fs vs (fsP ++ [f]) (vsP ++ [v]) b hlen' hrest h
      rw [hsn, ← happ, ← happ'] at ih
      simp [hgf, ih]
  | [], _ :: _, _, _, _, _, hd, _ => by simp [domFrom] at hd
  | _ :: _, [], _, _, _, _, hd, _ => by simp [domFrom] at hd

/-- building the dataclass from the expected `parsed` map gives the original value back -/
theorem construct_expParsed (all : List Val) : ∀ (fsS : List Field) (vsS : List Val) (fsP : List Field)
    (vsP : List Val), domFrom all fsP vsP fsS vsS = true →
    construct fsS (expParsed all fsS vsS) = .ok vsS
  | [], [], _, _, _ => by simp [construct, expParsed]
  | f :: fs, v :: vs, fsP, vsP, hd => by
    simp only [domFrom, Bool.and_eq_true] at hd
    obtain ⟨⟨_, hc⟩, hrest⟩ := hd
    have ih := construct_expParsed all fs vs (fsP ++ [f]) (vsP ++ [v]) hrest
    simp only [expParsed, construct]
    by_cases hem : emitted all f v = true
    · simp [hem, ih]
    · have hem' : emitted all f v = false := by simpa using hem
      have hv : v = .absent ∧ f.dflt = .none := by
        simp only [emitted, Bool.not_eq_false', Bool.or_eq_true, Bool.not_eq_true'] at hem'
        by_cases hgt : guardEnc f.cond all = true
        · have hab : v.isAbsent = true := by
            rcases hem' with h | h
            · exact h
            · rw [hgt] at h; cases h
          simp only [hgt, Bool.not_true, Bool.false_eq_true, if_false, hab, if_true, Bool.and_eq_true] at hc
          exact ⟨isAbsent_eq hab, by simpa using hc.1.2⟩
        · have hgf : guardEnc f.cond all = false := by simpa using hgt
          simp only [hgf, Bool.not_false, if_true, Bool.and_eq_true] at hc
          exact ⟨isAbsent_eq hc.1, by simpa using hc.2⟩
      obtain ⟨hv1, hv2⟩ := hv
      subst hv1
      simp [hem', hv2, ih, Dflt.toVal]
  | [], _ :: _, _, _, hd => by simp [domFrom] at hd
  | _ :: _, [], _, _, hd => by simp [domFrom] at hd

end AioslskVerif.Wire
namespace AioslskVerif.Wire

/-! ### frames -/

theorem rdId_idBytes (s : MsgSchema) (r : Bytes)
    (h : (s.idWidth == 1 && s.id < 256 || s.idWidth == 4 && s.id < 4294967296) = true) :
    rdId s.idWidth (idBytes s ++ r) = .ok (s.id, r) := by
  simp only [Bool.or_eq_true, Bool.and_eq_true, beq_iff_eq, decide_eq_true_eq] at h
  rcases h with ⟨hw, hid⟩ | ⟨hw, hid⟩
  · simp [rdId, idBytes, hw, rd8_byte _ hid]
  · simp [rdId, idBytes, hw, rd32_le32 _ hid]

/-- what the family dispatcher reads at offset 4 is the class's id (also for the one class whose id is
a `uint32` inside a `uint8` family: its low byte comes first) -/
theorem rdId_family (s : MsgSchema) (r : Bytes)
    (h : (s.idWidth == 1 && s.id < 256 || s.idWidth == 4 && s.id < 4294967296) = true)
    (hf : (s.idWidth == s.family.idWidth || s.family.idWidth == 1 && s.id < 256) = true) :
    ∃ r', rdId s.family.idWidth (idBytes s ++ r) = .ok (s.id, r') := by
  simp only [Bool.or_eq_true, Bool.and_eq_true, beq_iff_eq, decide_eq_true_eq] at hf
  rcases hf with hf | ⟨hf1, hf2⟩
  · exact ⟨r, by rw [← hf]; exact rdId_idBytes s r h⟩
  · simp only [Bool.or_eq_true, Bool.and_eq_true, beq_iff_eq, decide_eq_true_eq] at h
    rcases h with ⟨hw, hid⟩ | ⟨hw, hid⟩
    · exact ⟨r, by simp [rdId, idBytes, hw, hf1, rd8_byte _ hid]⟩
    · refine ⟨[byte (s.id / 256), byte (s.id / 65536), byte (s.id / 16777216)] ++ r, ?_⟩
      have h4 : ¬ (4 : Nat) = 1 := by decide
      simp only [rdId, idBytes, hw, hf1, if_true, h4, if_false, le32, List.cons_append, List.nil_append,
        rd8, byte_toNat]
      congr 2; omega

theorem idBytes_length (s : MsgSchema) : (idBytes s).length = if s.idWidth = 1 then 1 else 4 := by
  unfold idBytes; split <;> simp [le32]

theorem encodeFrame_some (z : Zlib) (s : MsgSchema) (vs : List Val) (fr : Bytes)
    (he : encodeFrame z s vs = some fr) :
    ∃ body payload, encTop vs s.fields vs = some body ∧
      payload = (if s.compress = true then z.deflate body else body) ∧
      (idBytes s).length + payload.length < 4294967296 ∧
      fr = le32 ((idBytes s).length + payload.length) ++ idBytes s ++ payload := by
  unfold encodeFrame at he
  cases hb : encTop vs s.fields vs with
  | none => simp [hb] at he
  | some body =>
    simp only [hb, Option.bind_eq_bind, Option.bind_some] at he
    generalize hp : (if s.compress = true then z.deflate body else body) = payload at he
    by_cases hn : (idBytes s).length + payload.length < 4294967296
    · rw [if_pos hn] at he
      simp only [Option.pure_def, Option.some.injEq] at he
      exact ⟨body, payload, rfl, hp.symm, hn, he.symm⟩
    · rw [if_neg hn] at he; cases he

/-! ### dispatch: the first class with the id is the class itself when ids are unique -/

theorem uniqueKeys_findIdx : ∀ (t : List MsgSchema) (i : Nat) (s : MsgSchema),
    uniqueKeys t = true → t[i]? = some s →
    t.findIdx? (fun x => x.family == s.family && x.dir == s.dir && x.id == s.id) = some i
  | [], i, s, _, h => by simp at h
  | x :: t, 0, s, _, h => by
    simp only [List.getElem?_cons_zero, Option.some.injEq] at h; subst h
    simp [List.findIdx?_cons]
  | x :: t, i + 1, s, hu, h => by
    simp only [List.getElem?_cons_succ] at h
    simp only [uniqueKeys, Bool.and_eq_true, List.all_eq_true] at hu
    have hmem : s ∈ t := List.mem_of_getElem? h
    have hne := hu.1 s hmem
    have ih := uniqueKeys_findIdx t i s hu.2 h
    have hx : (x.family == s.family && x.dir == s.dir && x.id == s.id) = false := by
      have : sameKey x s = false := by simpa using hne
      simpa [sameKey] using this
    simp [List.findIdx?_cons, hx, ih]

/-! ### structural equality of tables is equality -/
mutual
theorem Ty.eq_of_beq : ∀ (a b : Ty), Ty.beq a b = true → a = b
  | .prim p, .prim q, h => by simp [Ty.beq] at h; rw [h]
  | .arr a, .arr b, h => by simp only [Ty.beq] at h; rw [Ty.eq_of_beq a b h]
  | .record as, .record bs, h => by simp only [Ty.beq] at h; rw [Ty.eqL_of_beqL as bs h]
  | .prim _, .arr _, h | .prim _, .record _, h | .arr _, .prim _, h | .arr _, .record _, h
  | .record _, .prim _, h | .record _, .arr _, h => by simp [Ty.beq] at h
theorem Ty.eqL_of_beqL : ∀ (as bs : List Ty), Ty.beqL as bs = true → as = bs
  | [], [], _ => rfl
  | a :: as, b :: bs, h => by
    simp only [Ty.beqL, Bool.and_eq_true] at h
    rw [Ty.eq_of_beq a b h.1, Ty.eqL_of_beqL as bs h.2]
  | [], _ :: _, h | _ :: _, [], h => by simp [Ty.beqL] at h
end

theorem Field.eq_of_beq (a b : Field) (h : a.beq b = true) : a = b := by
  cases a; cases b
  simp only [Field.beq, Bool.and_eq_true, beq_iff_eq] at h
  obtain ⟨⟨⟨h1, h2⟩, h3⟩, h4⟩ := h
  simp only [Field.mk.injEq]
  exact ⟨Ty.eq_of_beq _ _ h1, h2, h3, h4⟩

theorem fields_eq_of_beq : ∀ (as bs : List Field), fieldsBeq as bs = true → as = bs
  | [], [], _ => rfl
  | a :: as, b :: bs, h => by
    simp only [fieldsBeq, Bool.and_eq_true] at h
    rw [Field.eq_of_beq a b h.1, fields_eq_of_beq as bs h.2]
  | [], _ :: _, h | _ :: _, [], h => by simp [fieldsBeq] at h

theorem MsgSchema.eq_of_beq (a b : MsgSchema) (h : a.beq b = true) : a = b := by
  cases a; cases b
  simp only [MsgSchema.beq, Bool.and_eq_true, beq_iff_eq] at h
  obtain ⟨⟨⟨⟨⟨⟨h1, h2⟩, h3⟩, h4⟩, h5⟩, h6⟩, h7⟩ := h
  simp only [MsgSchema.mk.injEq]
  exact ⟨h1, h2, h3, h4, h5, h6, fields_eq_of_beq _ _ h7⟩

theorem table_eq_of_beq : ∀ (as bs : List MsgSchema), tableBeq as bs = true → as = bs
  | [], [], _ => rfl
  | a :: as, b :: bs, h => by
    simp only [tableBeq, Bool.and_eq_true] at h
    rw [MsgSchema.eq_of_beq a b h.1, table_eq_of_beq as bs h.2]
  | [], _ :: _, h | _ :: _, [], h => by simp [tableBeq] at h

end AioslskVerif.Wire
