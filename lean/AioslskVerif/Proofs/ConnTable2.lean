import AioslskVerif.Proofs.ConnBase
/-! The step table of `Proofs/ConnBase.lean` for connections of origin `direct`, type F, by kernel evaluation. -/
namespace AioslskVerif.Conn

theorem table_direct_F : tableFor .direct true = true := by decide +kernel

end AioslskVerif.Conn
