import AioslskVerif.Proofs.ConnBase
/-! The step table of `Proofs/ConnBase.lean` for connections of origin `direct`, type P, by kernel evaluation. -/
namespace AioslskVerif.Conn

theorem table_direct_P : tableFor .direct false = true := by decide +kernel

end AioslskVerif.Conn
