import AioslskVerif.Model.Conn
/-!
Helper lemmas for C10 (and C11's connect-back theorem).

The control state `K` of a connection and the op alphabet `COp` are finite.  `tableOK` checks, for every
well-formed control state (`good`) and every op, that the successor is well-formed and that the events
the step emits continue a legal event history (`track`).  It is decided by kernel evaluation over the
complete enumeration (`mem_allK`, `mem_allCOp`); `inv_run` lifts it to every op list by induction.
-/
namespace AioslskVerif.Conn

/-! ## enumerations -/

def allBool : List Bool := [false, true]
def allOrigin : List Origin := [.direct, .back, .incoming, .server]
def allCState : List CState := [.uninit, .connecting, .connected, .closing, .closed]
def allAtt : List Att := [.opening, .sendingInit, .awaitInit, .closing, .idle]
def allCloser : List Closer := [.none, .other, .attempt, .attemptC, .sender]
def allMode : List SendMode := [.ok, .block, .fail]
def allFirst : List First := [.initP, .initF, .pierceP, .pierceF, .pierceUnknown, .undecodable]
def allReason : List Reason := [.unknown, .connectFailed, .requested, .readError, .writeError, .timeout, .eof]

def allCOp : List COp :=
  allMode.map .connectOk ++ [.connectFail, .connectTimeout, .cancelAttempt] ++ allFirst.map .firstFrame ++
  allBool.map .frame ++ [.partialEof, .eof, .reset, .readTimeout, .closeDone] ++ allReason.map .disconnect ++
  allMode.map .send ++ [.drainOk] ++ allBool.map .sendTimeout ++ [.restart] ++ allMode.map .queue ++ [.queueTimeout]

def allK : List K :=
  allOrigin.flatMap fun origin => allBool.flatMap fun typF => allBool.flatMap fun slow =>
  allCState.flatMap fun st => allAtt.flatMap fun att => allBool.flatMap fun reader =>
  allBool.flatMap fun sock => allCloser.flatMap fun closer => allBool.flatMap fun sendParked =>
  allBool.flatMap fun qParked => allBool.map fun registered =>
    { origin := origin, typF := typF, slow := slow, st := st, att := att, reader := reader, sock := sock,
      closer := closer, sendParked := sendParked, qParked := qParked, registered := registered }

theorem mem_allBool (b : Bool) : b ∈ allBool := by cases b <;> decide
theorem mem_allOrigin (x : Origin) : x ∈ allOrigin := by cases x <;> decide
theorem mem_allCState (x : CState) : x ∈ allCState := by cases x <;> decide
theorem mem_allAtt (x : Att) : x ∈ allAtt := by cases x <;> decide
theorem mem_allCloser (x : Closer) : x ∈ allCloser := by cases x <;> decide
theorem mem_allMode (x : SendMode) : x ∈ allMode := by cases x <;> decide
theorem mem_allFirst (x : First) : x ∈ allFirst := by cases x <;> decide
theorem mem_allReason (x : Reason) : x ∈ allReason := by cases x <;> decide

theorem mem_allCOp (op : COp) : op ∈ allCOp := by
  cases op with
  | connectOk m => cases m <;> decide
  | firstFrame f => cases f <;> decide
  | frame g => cases g <;> decide
  | send m => cases m <;> decide
  | sendTimeout a => cases a <;> decide
  | disconnect r => cases r <;> decide
  | queue m => cases m <;> decide
  | _ => decide

theorem mem_allK (k : K) : k ∈ allK := by
  simp only [allK, List.mem_flatMap, List.mem_map]
  exact ⟨k.origin, mem_allOrigin _, k.typF, mem_allBool _, k.slow, mem_allBool _, k.st, mem_allCState _,
    k.att, mem_allAtt _, k.reader, mem_allBool _, k.sock, mem_allBool _, k.closer, mem_allCloser _,
    k.sendParked, mem_allBool _, k.qParked, mem_allBool _, k.registered, mem_allBool _, rfl⟩

/-! ## well-formed control states -/

def good (k : K) : Bool :=
  k.st != .uninit &&
  (k.registered == (k.origin != .server && k.st != .closed)) &&
  (k.sock == (k.st == .connected)) &&
  ((k.closer != .none) == (k.st == .closing)) &&
  (k.att != .opening || ((k.st == .connecting || k.st == .closed) && k.origin != .incoming)) &&
  (k.st != .connecting || k.att == .opening) &&
  (k.att != .sendingInit || (k.st == .connected && (k.origin == .direct || k.origin == .back))) &&
  (k.att != .awaitInit || (k.st == .connected && k.origin == .incoming)) &&
  ((k.att == .closing) == (k.closer == .attempt || k.closer == .attemptC)) &&
  (!k.reader || (k.sock && k.att == .idle)) &&
  (!k.sendParked || k.sock) &&
  (!k.qParked || k.sock)

/-! ## legal event histories -/

/-- may `t` be reported right after `s`? forward only; the server connection may restart -/
def okNext (o : Origin) (s t : CState) : Bool :=
  decide (s.rank < t.rank) || (o == .server && s == .closed && t == .connecting)

/-- follow an event list from reported state `s`; `none` when it is not a legal history: a report that
does not move forward, or a delivered message / written bytes while not CONNECTED -/
def track (o : Origin) : CState → List Ev → Option CState
  | s, [] => some s
  | s, .st t _ :: es => if okNext o s t then track o t es else none
  | s, .delivered :: es => if s = .connected then track o s es else none
  | s, .wrote :: es => if s = .connected then track o s es else none
  | s, .init _ :: es => track o s es
  | s, .cc :: es => track o s es
  | s, .attRes _ :: es => track o s es
  | s, .sendRes _ :: es => track o s es
  | s, .queueRes _ :: es => track o s es

/-- connect-back: the peer that asked got a pierce-firewall message, or the server a CannotConnect,
unless the attempt was cancelled -/
def answered (e : Ev) : Bool := e == .wrote || e == .cc || e == .attRes .cancelled

def backDone (k : K) : Bool := k.att == .idle || k.att == .sendingInit

def stepOK (k : K) (op : COp) : Bool :=
  match stepK k op with
  | none => true
  | some (k', out) =>
    good k' && decide (track k.origin k.st out = some k'.st) && k'.origin == k.origin &&
    (k.origin != .back || !backDone k' || backDone k || out.any answered)

def tableOK : Bool := allK.all fun k => !good k || allCOp.all (stepOK k)

def newOK : Bool :=
  allOrigin.all fun o => allBool.all fun t => allBool.all fun s =>
    let (k, e) := newK o t s
    good k && decide (track o .uninit e = some k.st) && k.origin == o && !(o == .back && backDone k)

theorem table_ok : tableOK = true := by decide +kernel
theorem new_ok : newOK = true := by decide +kernel

theorem step_ok {k : K} {op : COp} {k' : K} {out : List Ev} (hg : good k = true)
    (h : stepK k op = some (k', out)) :
    good k' = true ∧ track k.origin k.st out = some k'.st ∧ k'.origin = k.origin ∧
      (k.origin = .back → backDone k' = true → backDone k = true ∨ out.any answered = true) := by
  have ht := table_ok
  simp only [tableOK, List.all_eq_true] at ht
  have h1 := ht k (mem_allK k)
  simp only [hg, Bool.not_true, Bool.false_or, List.all_eq_true] at h1
  have h2 := h1 op (mem_allCOp op)
  simp only [stepOK, h, Bool.and_eq_true, decide_eq_true_eq, beq_iff_eq, Bool.or_eq_true, bne_iff_ne, ne_eq,
    Bool.not_eq_true'] at h2
  obtain ⟨⟨⟨a, b⟩, c⟩, d⟩ := h2
  refine ⟨a, b, c, fun hb hd => ?_⟩
  rcases d with ((d | d) | d) | d
  · exact absurd hb d
  · rw [hd] at d; cases d
  · exact Or.inl d
  · exact Or.inr d

theorem new_good (o : Origin) (t s : Bool) :
    good (newK o t s).1 = true ∧ track o .uninit (newK o t s).2 = some (newK o t s).1.st ∧
      (newK o t s).1.origin = o ∧ (o = .back → backDone (newK o t s).1 = false) := by
  have h := new_ok
  simp only [newOK, List.all_eq_true] at h
  have h1 := h o (mem_allOrigin o) t (mem_allBool t) s (mem_allBool s)
  simp only [Bool.and_eq_true, decide_eq_true_eq, beq_iff_eq, Bool.not_eq_true'] at h1
  obtain ⟨⟨⟨a, b⟩, c⟩, d⟩ := h1
  refine ⟨a, b, c, fun hb => ?_⟩
  subst hb
  simpa using d

/-- consequences of `good` used by the registry theorems, decided over the enumeration -/
def kFacts (k : K) : Bool :=
  !good k || ((k.registered == (k.origin != .server && k.st != .closed && k.live)) &&
    (k.live || k.st == .closed) && k.st != .uninit &&
    (k.st == .connected || (!k.sendParked && !k.qParked && !k.reader)))

theorem kfacts_ok : allK.all kFacts = true := by decide +kernel

theorem good_facts {k : K} (h : good k = true) :
    (k.registered = true ↔ (k.origin ≠ .server ∧ k.st ≠ .closed ∧ k.live = true)) ∧
      (k.live = false → k.st = .closed) ∧ k.st ≠ .uninit := by
  have h1 := List.all_eq_true.mp kfacts_ok k (mem_allK k)
  simp only [kFacts, h, Bool.not_true, Bool.false_or, Bool.and_eq_true, beq_iff_eq, Bool.or_eq_true, bne_iff_ne,
    ne_eq] at h1
  obtain ⟨⟨⟨a, b⟩, c⟩, _⟩ := h1
  refine ⟨?_, ?_, c⟩
  · rw [a]
    simp [Bool.and_eq_true, bne_iff_ne, and_assoc]
  · intro hl
    rcases b with b | b
    · rw [hl] at b; cases b
    · exact b

/-- nothing is parked on the socket of a connection that is not CONNECTED: no direct send, no queued send
(pending output), no reader -/
theorem good_parked {k : K} (h : good k = true) (hs : k.st ≠ .connected) :
    k.sendParked = false ∧ k.qParked = false ∧ k.reader = false := by
  have h1 := List.all_eq_true.mp kfacts_ok k (mem_allK k)
  simp only [kFacts, h, Bool.not_true, Bool.false_or, Bool.and_eq_true, beq_iff_eq, Bool.or_eq_true, bne_iff_ne,
    ne_eq, Bool.not_eq_true'] at h1
  obtain ⟨_, d⟩ := h1
  rcases d with d | d
  · exact absurd d hs
  · exact ⟨d.1.1, d.1.2, d.2⟩

/-! ## `track` -/

theorem track_append (o : Origin) (s : CState) (a b : List Ev) :
    track o s (a ++ b) = (track o s a).bind fun t => track o t b := by
  induction a generalizing s with
  | nil => simp [track]
  | cons e es ih =>
    cases e <;> simp only [List.cons_append, track] <;> (try split) <;> simp [ih]

theorem rank_le_four (s : CState) : s.rank ≤ 4 := by cases s <;> decide

theorem rank_inj {a b : CState} (h : a.rank = b.rank) : a = b := by
  cases a <;> cases b <;> first | rfl | (exact absurd h (by decide))

theorem okNext_peer {o : Origin} (ho : o ≠ .server) (s t : CState) : okNext o s t = true ↔ s.rank < t.rank := by
  cases o <;> simp_all [okNext]

/-- peers: reported states strictly increase, lie above the start and at or below the end -/
theorem track_mono {o : Origin} (ho : o ≠ .server) :
    ∀ (evs : List Ev) (s t : CState), track o s evs = some t →
      (states evs).Pairwise (fun a b => a.rank < b.rank) ∧ (∀ x ∈ states evs, s.rank < x.rank) ∧
      s.rank ≤ t.rank ∧ (∀ x ∈ states evs, x.rank ≤ t.rank) := by
  intro evs
  induction evs with
  | nil => intro s t h; simp only [track, Option.some.injEq] at h; subst h; simp [states]
  | cons e es ih =>
    intro s t h
    cases e with
    | st u r =>
      simp only [track] at h
      split at h
      · rename_i hok
        have hlt := (okNext_peer ho s u).mp hok
        obtain ⟨h1, h2, h3, h4⟩ := ih u t h
        refine ⟨?_, ?_, by omega, ?_⟩
        · simp only [states, List.pairwise_cons]; exact ⟨fun x hx => h2 x hx, h1⟩
        · intro x hx; simp only [states, List.mem_cons] at hx
          rcases hx with rfl | hx
          · exact hlt
          · have := h2 x hx; omega
        · intro x hx; simp only [states, List.mem_cons] at hx
          rcases hx with rfl | hx
          · exact h3
          · exact h4 x hx
      · cases h
    | delivered =>
      simp only [track] at h
      split at h
      · exact ih s t h
      · cases h
    | wrote =>
      simp only [track] at h
      split at h
      · exact ih s t h
      · cases h
    | init _ => exact ih s t h
    | cc => exact ih s t h
    | attRes _ => exact ih s t h
    | sendRes _ => exact ih s t h
    | queueRes _ => exact ih s t h

/-- the control state's `st` is the last reported state -/
theorem track_last (o : Origin) : ∀ (evs : List Ev) (s t : CState), track o s evs = some t →
    t = (states evs).getLast?.getD s := by
  intro evs
  induction evs with
  | nil => intro s t h; simp only [track, Option.some.injEq] at h; simp [states, h]
  | cons e es ih =>
    intro s t h
    cases e with
    | st u r =>
      simp only [track] at h
      split at h
      · have := ih u t h
        rw [this]
        simp only [states, List.getLast?_cons, Option.getD_some]
      · cases h
    | delivered =>
      simp only [track] at h
      split at h
      · exact ih s t h
      · cases h
    | wrote =>
      simp only [track] at h
      split at h
      · exact ih s t h
      · cases h
    | init _ => exact ih s t h
    | cc => exact ih s t h
    | attRes _ => exact ih s t h
    | sendRes _ => exact ih s t h
    | queueRes _ => exact ih s t h

/-- peers: after CLOSED nothing is reported, delivered or written -/
theorem track_closed {o : Origin} (ho : o ≠ .server) : ∀ (evs : List Ev) (t : CState),
    track o .closed evs = some t → states evs = [] ∧ Ev.delivered ∉ evs ∧ Ev.wrote ∉ evs := by
  intro evs
  induction evs with
  | nil => intro t _; simp [states]
  | cons e es ih =>
    intro t h
    cases e with
    | st u r =>
      simp only [track] at h
      split at h
      · rename_i hok
        have := (okNext_peer ho .closed u).mp hok
        have := rank_le_four u
        simp only [CState.rank] at *
        omega
      · cases h
    | delivered => simp [track] at h
    | wrote => simp [track] at h
    | init _ => have := ih t h; simpa [states] using this
    | cc => have := ih t h; simpa [states] using this
    | attRes _ => have := ih t h; simpa [states] using this
    | sendRes _ => have := ih t h; simpa [states] using this
    | queueRes _ => have := ih t h; simpa [states] using this

theorem states_append (a b : List Ev) : states (a ++ b) = states a ++ states b := by
  induction a with
  | nil => rfl
  | cons e es ih => cases e <;> simp [states, ih]

/-! ## the invariant of every connection of every reachable net -/

structure CInv (c : Conn) : Prop where
  good : good c.k = true
  hist : track c.k.origin .uninit c.evs = some c.k.st
  back : c.k.origin = .back → backDone c.k = true → c.evs.any answered = true

theorem cinv_new (o : Origin) (t s : Bool) : CInv { k := (newK o t s).1, evs := (newK o t s).2 } := by
  obtain ⟨a, b, c, d⟩ := new_good o t s
  refine ⟨a, ?_, ?_⟩
  · simpa [c] using b
  · intro hb hd
    simp only at hb hd
    rw [c] at hb
    rw [d hb] at hd
    cases hd

theorem cinv_step {c : Conn} (hc : CInv c) {op : COp} {k' : K} {out : List Ev}
    (h : stepK c.k op = some (k', out)) : CInv { k := k', evs := c.evs ++ out } := by
  obtain ⟨a, b, co, d⟩ := step_ok hc.good h
  refine ⟨a, ?_, ?_⟩
  · simp only [co, track_append, hc.hist, Option.bind_some]
    exact b
  · intro hb hd
    simp only at hb hd
    rw [co] at hb
    simp only [List.any_append, Bool.or_eq_true]
    rcases d hb hd with d | d
    · exact Or.inl (hc.back hb d)
    · exact Or.inr d

theorem inv_step (n : Net) (op : Op) (hn : ∀ c ∈ n.conns, CInv c) : ∀ c ∈ (n.step op).conns, CInv c := by
  cases op with
  | new o t s =>
    intro c hc
    simp only [Net.step, List.mem_append, List.mem_singleton] at hc
    rcases hc with hc | rfl
    · exact hn c hc
    · exact cinv_new o t s
  | «at» i cop =>
    intro c hc
    simp only [Net.step] at hc
    split at hc
    · exact hn c hc
    · rename_i c0 hget
      split at hc
      · exact hn c hc
      · rename_i k' out hstep
        have hc0 : c0 ∈ n.conns := List.mem_of_getElem? hget
        rcases List.mem_or_eq_of_mem_set hc with hc | rfl
        · exact hn c hc
        · exact cinv_step (hn c0 hc0) hstep

theorem inv_run (ops : List Op) : ∀ c ∈ (run ops).conns, CInv c := by
  unfold run
  suffices h : ∀ (n : Net), (∀ c ∈ n.conns, CInv c) → ∀ c ∈ (ops.foldl Net.step n).conns, CInv c from
    h {} (by intro c hc; cases hc)
  induction ops with
  | nil => intro n hn; simpa using hn
  | cons op ops ih => intro n hn; exact ih (n.step op) (inv_step n op hn)

end AioslskVerif.Conn
