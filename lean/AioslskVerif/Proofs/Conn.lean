import AioslskVerif.Proofs.ConnTable1
import AioslskVerif.Proofs.ConnTable2
import AioslskVerif.Proofs.ConnTable3
import AioslskVerif.Proofs.ConnTable4
import AioslskVerif.Proofs.ConnTable5
import AioslskVerif.Proofs.ConnTable6
import AioslskVerif.Proofs.ConnTable7
import AioslskVerif.Proofs.ConnTable8
/-!
Helper lemmas for C10 (and C11's connect-back theorem).

The control state `K` of a connection and the op alphabet `FOp` are finite.  `tableFor o t` (`Proofs/ConnBase.lean`)
checks, for every well-formed control state (`good`) of origin `o` and connection type `t` and every fine-grained op — completions, API
calls, and the four ops that let a state notification's listeners return or suspend —, that the successor is
well-formed and that the events the step emits continue a legal event history (`track`).  It is decided by kernel
evaluation (`Proofs/ConnTable1..8.lean`) over an enumeration of the well-formed states only (`allGoodOf`, built in
stages from the parts of `good`; `mem_allGood` shows it is complete) and of all ops (`mem_allFOp`); `inv_run` lifts it
to every op list by induction, the un-suspended ops `Op.new` / `Op.at` being finite compositions of fine-grained
steps (`settle`).
-/
namespace AioslskVerif.Conn

theorem table_ok (o : Origin) (t : Bool) : tableFor o t = true := by
  cases o <;> cases t
  · exact table_direct_P
  · exact table_direct_F
  · exact table_back_P
  · exact table_back_F
  · exact table_incoming_P
  · exact table_incoming_F
  · exact table_server_P
  · exact table_server_F

theorem table_entry {k : K} (hg : good k = true) : kFacts k = true ∧ ∀ op, stepOK k op = true := by
  have ht := table_ok k.origin k.typF
  simp only [tableFor, List.all_eq_true, Bool.and_eq_true] at ht
  have h := ht k (mem_allGood hg)
  exact ⟨h.1, fun op => h.2 op (mem_allFOp op)⟩

theorem new_ok : newOK = true := by decide +kernel

theorem step_ok {k : K} {op : FOp} {k' : K} {out : List Ev} (hg : good k = true)
    (h : stepF k op = some (k', out)) :
    good k' = true ∧ track k.origin k.st out = some k'.st ∧ k'.origin = k.origin ∧
      (k.origin = .back → backDone k' = true → backDone k = true ∨ out.any answered = true) := by
  have h2 := (table_entry hg).2 op
  simp only [stepOK, h, Bool.and_eq_true, decide_eq_true_eq, beq_iff_eq, Bool.or_eq_true, bne_iff_ne, ne_eq,
    Bool.not_eq_true'] at h2
  obtain ⟨⟨⟨a, b⟩, c⟩, d⟩ := h2
  refine ⟨a, b, c, fun hb hd => ?_⟩
  rcases d with ((d | d) | d) | d
  · exact absurd hb d
  · rw [hd] at d; cases d
  · exact Or.inl d
  · exact Or.inr d

theorem new_good (o : Origin) (t s : Bool) :
    good (newK o t s).1 = true ∧ track o .uninit (newK o t s).2 = some (newK o t s).1.st ∧
      (newK o t s).1.origin = o ∧ (o = .back → backDone (newK o t s).1 = false) := by
  have h := new_ok
  simp only [newOK, List.all_eq_true] at h
  have h1 := h o (mem_allOrigin o) t (mem_allBool t) s (mem_allBool s)
  simp only [Bool.and_eq_true, decide_eq_true_eq, beq_iff_eq, Bool.not_eq_true'] at h1
  obtain ⟨⟨⟨a, b⟩, c⟩, d⟩ := h1
  refine ⟨a, b, c, fun hb => ?_⟩
  subst hb
  simpa using d


theorem good_facts {k : K} (h : good k = true) :
    (k.registered = true ↔ (k.origin ≠ .server ∧ k.st ≠ .closed ∧ k.live = true)) ∧
      (k.live = false → k.st = .closed) ∧ k.st ≠ .uninit ∧ (k.st = .closed → k.sock = false) := by
  have h1 := (table_entry h).1
  simp only [kFacts, Bool.and_eq_true, beq_iff_eq, Bool.or_eq_true, bne_iff_ne, ne_eq, Bool.not_eq_true'] at h1
  obtain ⟨⟨⟨⟨a, b⟩, c⟩, _⟩, e⟩ := h1
  refine ⟨?_, ?_, c, ?_⟩
  · rw [a]
    simp [Bool.and_eq_true, bne_iff_ne, and_assoc]
  · intro hl
    rcases b with b | b
    · rw [hl] at b; cases b
    · exact b
  · intro hc
    rcases e with e | e
    · exact absurd hc e
    · exact e

/-- nothing is parked on the socket of a connection that is not CONNECTED — except while the listeners of the
CLOSING notification are still running (`disconnect` has not got to the writer yet): no direct send, no queued send
(pending output), no reader -/
theorem good_parked {k : K} (h : good k = true) (hs : k.st ≠ .connected) (hn : k.closingNotified = false) :
    k.sendParked = false ∧ k.qParked = false ∧ k.reader = false := by
  have h1 := (table_entry h).1
  simp only [kFacts, Bool.and_eq_true, beq_iff_eq, Bool.or_eq_true, bne_iff_ne, ne_eq, Bool.not_eq_true'] at h1
  obtain ⟨⟨_, d⟩, _⟩ := h1
  rcases d with (d | d) | d
  · exact absurd d hs
  · rw [hn] at d; cases d
  · exact ⟨d.1.1, d.1.2, d.2⟩

/-- the task that runs `disconnect` stands in its CLOSED notification: CLOSED is the state -/
theorem good_noteClosed {k : K} (h : good k = true) (hc : k.closer ≠ .none) (hp : k.cph = .noteClosed) :
    k.st = .closed := by
  simp only [good, gB, K.skel, K.desc, Bool.and_eq_true] at h
  obtain ⟨⟨⟨_, hB⟩, _⟩, _⟩ := h
  obtain ⟨⟨⟨⟨⟨⟨⟨⟨_, h2⟩, _⟩, _⟩, _⟩, _⟩, _⟩, _⟩, _⟩ := hB
  simp only [hp, Bool.or_eq_true, beq_iff_eq] at h2
  rcases h2 with h2 | h2
  · exact absurd h2 hc
  · simpa using h2

/-! ## `track` -/

theorem track_append (o : Origin) (s : CState) (a b : List Ev) :
    track o s (a ++ b) = (track o s a).bind fun t => track o t b := by
  induction a generalizing s with
  | nil => simp [track]
  | cons e es ih =>
    cases e <;> simp only [List.cons_append, track] <;> (try split) <;> simp [ih]

theorem rank_le_four (s : CState) : s.rank ≤ 4 := by cases s <;> decide

theorem rank_inj {a b : CState} (h : a.rank = b.rank) : a = b := by
  cases a <;> cases b <;> first | rfl | (exact absurd h (by decide))

theorem okNext_peer {o : Origin} (ho : o ≠ .server) (s t : CState) : okNext o s t = true ↔ s.rank < t.rank := by
  cases o <;> simp_all [okNext]

/-- peers: reported states strictly increase, lie above the start and at or below the end -/
theorem track_mono {o : Origin} (ho : o ≠ .server) :
    ∀ (evs : List Ev) (s t : CState), track o s evs = some t →
      (states evs).Pairwise (fun a b => a.rank < b.rank) ∧ (∀ x ∈ states evs, s.rank < x.rank) ∧
      s.rank ≤ t.rank ∧ (∀ x ∈ states evs, x.rank ≤ t.rank) := by
  intro evs
  induction evs with
  | nil => intro s t h; simp only [track, Option.some.injEq] at h; subst h; simp [states]
  | cons e es ih =>
    intro s t h
    cases e with
    | st u r =>
      simp only [track] at h
      split at h
      · rename_i hok
        have hlt := (okNext_peer ho s u).mp hok
        obtain ⟨h1, h2, h3, h4⟩ := ih u t h
        refine ⟨?_, ?_, by omega, ?_⟩
        · simp only [states, List.pairwise_cons]; exact ⟨fun x hx => h2 x hx, h1⟩
        · intro x hx; simp only [states, List.mem_cons] at hx
          rcases hx with rfl | hx
          · exact hlt
          · have := h2 x hx; omega
        · intro x hx; simp only [states, List.mem_cons] at hx
          rcases hx with rfl | hx
          · exact h3
          · exact h4 x hx
      · cases h
    | delivered =>
      simp only [track] at h
      split at h
      · exact ih s t h
      · cases h
    | wrote =>
      simp only [track] at h
      split at h
      · exact ih s t h
      · cases h
    | wroteRaw =>
      simp only [track] at h
      split at h
      · exact ih s t h
      · cases h
    | recvData =>
      simp only [track] at h
      split at h
      · exact ih s t h
      · cases h
    | init _ => exact ih s t h
    | cc => exact ih s t h
    | attRes _ => exact ih s t h
    | sendRes _ => exact ih s t h
    | queueRes _ => exact ih s t h

/-- the control state's `st` is the last reported state -/
theorem track_last (o : Origin) : ∀ (evs : List Ev) (s t : CState), track o s evs = some t →
    t = (states evs).getLast?.getD s := by
  intro evs
  induction evs with
  | nil => intro s t h; simp only [track, Option.some.injEq] at h; simp [states, h]
  | cons e es ih =>
    intro s t h
    cases e with
    | st u r =>
      simp only [track] at h
      split at h
      · have := ih u t h
        rw [this]
        simp only [states, List.getLast?_cons, Option.getD_some]
      · cases h
    | delivered =>
      simp only [track] at h
      split at h
      · exact ih s t h
      · cases h
    | wrote =>
      simp only [track] at h
      split at h
      · exact ih s t h
      · cases h
    | wroteRaw =>
      simp only [track] at h
      split at h
      · exact ih s t h
      · cases h
    | recvData =>
      simp only [track] at h
      split at h
      · exact ih s t h
      · cases h
    | init _ => exact ih s t h
    | cc => exact ih s t h
    | attRes _ => exact ih s t h
    | sendRes _ => exact ih s t h
    | queueRes _ => exact ih s t h

/-- peers: after CLOSED nothing is reported, delivered, written or handed out -/
theorem track_closed {o : Origin} (ho : o ≠ .server) : ∀ (evs : List Ev) (t : CState),
    track o .closed evs = some t →
      states evs = [] ∧ Ev.delivered ∉ evs ∧ Ev.wrote ∉ evs ∧ Ev.wroteRaw ∉ evs ∧ Ev.recvData ∉ evs := by
  intro evs
  induction evs with
  | nil => intro t _; simp [states]
  | cons e es ih =>
    intro t h
    cases e with
    | st u r =>
      simp only [track] at h
      split at h
      · rename_i hok
        have := (okNext_peer ho .closed u).mp hok
        have := rank_le_four u
        simp only [CState.rank] at *
        omega
      · cases h
    | delivered => simp [track] at h
    | wrote => simp [track] at h
    | wroteRaw => simp [track] at h
    | recvData => simp [track] at h
    | init _ => have := ih t h; simpa [states] using this
    | cc => have := ih t h; simpa [states] using this
    | attRes _ => have := ih t h; simpa [states] using this
    | sendRes _ => have := ih t h; simpa [states] using this
    | queueRes _ => have := ih t h; simpa [states] using this

theorem states_append (a b : List Ev) : states (a ++ b) = states a ++ states b := by
  induction a with
  | nil => rfl
  | cons e es ih => cases e <;> simp [states, ih]

/-! ## the invariant of every connection of every reachable net -/

structure CInv (c : Conn) : Prop where
  good : good c.k = true
  hist : track c.k.origin .uninit c.evs = some c.k.st
  back : c.k.origin = .back → backDone c.k = true → c.evs.any answered = true

theorem cinv_new (o : Origin) (t s : Bool) : CInv { k := (newK o t s).1, evs := (newK o t s).2 } := by
  obtain ⟨a, b, c, d⟩ := new_good o t s
  refine ⟨a, ?_, ?_⟩
  · simpa [c] using b
  · intro hb hd
    simp only at hb hd
    rw [c] at hb
    rw [d hb] at hd
    cases hd

theorem cinv_step {c : Conn} (hc : CInv c) {op : FOp} {k' : K} {out : List Ev}
    (h : stepF c.k op = some (k', out)) : CInv { k := k', evs := c.evs ++ out } := by
  obtain ⟨a, b, co, d⟩ := step_ok hc.good h
  refine ⟨a, ?_, ?_⟩
  · simp only [co, track_append, hc.hist, Option.bind_some]
    exact b
  · intro hb hd
    simp only at hb hd
    rw [co] at hb
    simp only [List.any_append, Bool.or_eq_true]
    rcases d hb hd with d | d
    · exact Or.inl (hc.back hb d)
    · exact Or.inr d

/-- letting every outstanding notification pass keeps the invariant: `settle` is a composition of fine steps -/
theorem cinv_settle (m : SendMode) : ∀ (n : Nat) (k : K) (pre e : List Ev), CInv { k := k, evs := pre ++ e } →
    CInv { k := (settle m n (k, e)).1, evs := pre ++ (settle m n (k, e)).2 } := by
  intro n
  induction n with
  | zero => intro k pre e h; simpa [settle] using h
  | succ n ih =>
    intro k pre e h
    simp only [settle]
    split
    · rename_i k' e' hA
      have h' := cinv_step (c := { k := k, evs := pre ++ e }) h (op := .noteA m) (k' := k') (out := e') hA
      rw [List.append_assoc] at h'
      exact ih k' pre (e ++ e') h'
    · split
      · rename_i k' e' hC
        have h' := cinv_step (c := { k := k, evs := pre ++ e }) h (op := .noteC) (k' := k') (out := e') hC
        rw [List.append_assoc] at h'
        exact ih k' pre (e ++ e') h'
      · exact h

theorem cinv_stepK {c : Conn} (hc : CInv c) {op : COp} {k' : K} {out : List Ev}
    (h : stepK c.k op = some (k', out)) : CInv { k := k', evs := c.evs ++ out } := by
  simp only [stepK, Option.map_eq_some_iff] at h
  obtain ⟨⟨k1, e1⟩, h1, h2⟩ := h
  have hs := cinv_step hc (op := .op op) (k' := k1) (out := e1) h1
  have := cinv_settle (modeOf op) 8 k1 c.evs e1 hs
  rw [h2] at this
  exact this

theorem inv_step (n : Net) (op : Op) (hn : ∀ c ∈ n.conns, CInv c) : ∀ c ∈ (n.step op).conns, CInv c := by
  cases op with
  | new o t s =>
    intro c hc
    simp only [Net.step, List.mem_append, List.mem_singleton] at hc
    rcases hc with hc | rfl
    · exact hn c hc
    · have := cinv_settle .ok 8 (newK o t s).1 [] (newK o t s).2 (by simpa using cinv_new o t s)
      simpa using this
  | newF o t s =>
    intro c hc
    simp only [Net.step, List.mem_append, List.mem_singleton] at hc
    rcases hc with hc | rfl
    · exact hn c hc
    · exact cinv_new o t s
  | «at» i cop =>
    intro c hc
    simp only [Net.step] at hc
    split at hc
    · exact hn c hc
    · rename_i c0 hget
      split at hc
      · exact hn c hc
      · rename_i k' out hstep
        have hc0 : c0 ∈ n.conns := List.mem_of_getElem? hget
        rcases List.mem_or_eq_of_mem_set hc with hc | rfl
        · exact hn c hc
        · exact cinv_stepK (hn c0 hc0) hstep
  | atF i fop =>
    intro c hc
    simp only [Net.step] at hc
    split at hc
    · exact hn c hc
    · rename_i c0 hget
      split at hc
      · exact hn c hc
      · rename_i k' out hstep
        have hc0 : c0 ∈ n.conns := List.mem_of_getElem? hget
        rcases List.mem_or_eq_of_mem_set hc with hc | rfl
        · exact hn c hc
        · exact cinv_step (hn c0 hc0) hstep

theorem inv_run (ops : List Op) : ∀ c ∈ (run ops).conns, CInv c := by
  unfold run
  suffices h : ∀ (n : Net), (∀ c ∈ n.conns, CInv c) → ∀ c ∈ (ops.foldl Net.step n).conns, CInv c from
    h {} (by intro c hc; cases hc)
  induction ops with
  | nil => intro n hn; simpa using hn
  | cons op ops ih => intro n hn; exact ih (n.step op) (inv_step n op hn)

end AioslskVerif.Conn
