import AioslskVerif.Model.XferTasks
/-!
Invariant of the task model (C06) and its preservation by every op.

Besides single flight the invariant says what may still be alive for a transfer whose call is in
progress / has returned / that left the list: tasks the call cancelled (it waits for them), and
*late* download initialisations — created by a peer request that arrived while the call held the state
lock — which are still before `state.initialize()` (`created`, `blocked`) or were refused
(`refused`).  Neither kind ever acts on the transfer (`quiet_step`).
-/
namespace AioslskVerif.Tasks
open AioslskVerif.Sched (St Dir)

@[simp] theorem upd_same {α} (f : Nat → α) (k : Nat) (v : α) : upd f k v k = v := by simp [upd]
theorem upd_other {α} (f : Nat → α) {k i : Nat} (v : α) (h : i ≠ k) : upd f k v i = f i := by simp [upd, h]

/-- a download initialisation that has not got past `state.initialize()` -/
def LateShape (tk : Task) : Prop :=
  tk.kind = .initDownload ∧ (tk.phase = .created ∨ tk.phase = .blocked ∨ tk.phase = .refused)

/-- a task that will not act on its transfer any more: cancelled, or a late initialisation -/
def Inert (tk : Task) : Prop := tk.cancelReq = true ∨ LateShape tk

structure Inv (s : TS) : Prop where
  /-- no task beyond the counter is alive, every live task belongs to an existing transfer -/
  fresh : ∀ t, s.nt ≤ t → (s.tasks t).live = false
  bound : ∀ t, (s.tasks t).live = true → (s.tasks t).xfer < s.nx
  /-- single flight: a live task is the one its transfer's slot holds -/
  single : ∀ t, (s.tasks t).live = true → (s.xs (s.tasks t).xfer).slotOf (s.tasks t).kind = some t
  /-- a call in progress waits for every live task of its transfer, except late initialisations -/
  waits : ∀ k, (s.xs k).locked ≠ none → ∀ t, (s.tasks t).live = true → (s.tasks t).xfer = k →
    t ∈ (s.xs k).waitFor ∨ LateShape (s.tasks t)
  /-- after a call returned everything still alive for the transfer is inert -/
  quietInert : ∀ k, (s.xs k).quiet = true → ∀ t, (s.tasks t).live = true → (s.tasks t).xfer = k → Inert (s.tasks t)
  quietSt : ∀ k, (s.xs k).quiet = true → (s.xs k).removed = true ∨ (s.xs k).st = .aborted ∨ (s.xs k).st = .paused ∨
    ((s.xs k).st = .failed ∧ (s.xs k).retry = false ∧ (s.xs k).dir = .download)
  /-- everything still alive for a transfer that left the list has been cancelled -/
  removedCancelled : ∀ k, (s.xs k).removed = true → ∀ t, (s.tasks t).live = true → (s.tasks t).xfer = k →
    (s.tasks t).cancelReq = true

theorem inv_init : Inv {} := by
  constructor <;> intros <;> simp_all [Task.live]

theorem live_phase {t : Task} :
    t.live = true ↔ (t.phase = .created ∨ t.phase = .running ∨ t.phase = .blocked ∨ t.phase = .refused) := by
  cases t with | mk x k p c => cases p <;> simp [Task.live]

/-- tasks only die / get cancelled / stay late, transfers keep slots / lock / ghost flags, quiet transfers keep their
state -/
theorem Inv.frame {s s' : TS} (h : Inv s) (hnx : s'.nx = s.nx) (hnt : s'.nt = s.nt)
    (htask : ∀ t, (s'.tasks t).live = true →
      (s.tasks t).live = true ∧ (s'.tasks t).xfer = (s.tasks t).xfer ∧ (s'.tasks t).kind = (s.tasks t).kind ∧
      ((s.tasks t).cancelReq = true → (s'.tasks t).cancelReq = true) ∧
      (((s.xs (s.tasks t).xfer).locked ≠ none ∨ (s.xs (s.tasks t).xfer).quiet = true) →
        LateShape (s.tasks t) → LateShape (s'.tasks t)))
    (hx : ∀ k, (s'.xs k).rqSlot = (s.xs k).rqSlot ∧ (s'.xs k).ttSlot = (s.xs k).ttSlot ∧
      (s'.xs k).locked = (s.xs k).locked ∧ (s'.xs k).waitFor = (s.xs k).waitFor ∧
      (s'.xs k).quiet = (s.xs k).quiet ∧ (s'.xs k).removed = (s.xs k).removed)
    (hst : ∀ k, (s.xs k).quiet = true → (s'.xs k).st = (s.xs k).st ∧ (s'.xs k).retry = (s.xs k).retry ∧
      (s'.xs k).dir = (s.xs k).dir) : Inv s' := by
  have hslot : ∀ k kd, (s'.xs k).slotOf kd = (s.xs k).slotOf kd := by
    intro k kd
    cases kd <;> simp [XT.slotOf, (hx k).1, (hx k).2.1]
  constructor
  · intro t ht
    rw [hnt] at ht
    cases hl : (s'.tasks t).live
    · rfl
    · have := (htask t hl).1
      rw [h.fresh t ht] at this
      cases this
  · intro t hl
    obtain ⟨h1, h2, _⟩ := htask t hl
    rw [h2, hnx]
    exact h.bound t h1
  · intro t hl
    obtain ⟨h1, h2, h3, _⟩ := htask t hl
    rw [h2, h3, hslot]
    exact h.single t h1
  · intro k hk t hl hxf
    obtain ⟨h1, h2, _, _, h5⟩ := htask t hl
    have hxf' : (s.tasks t).xfer = k := h2 ▸ hxf
    rw [(hx k).2.2.2.1]
    rw [(hx k).2.2.1] at hk
    rcases h.waits k hk t h1 hxf' with hw | hw
    · exact Or.inl hw
    · exact Or.inr (h5 (Or.inl (hxf' ▸ hk)) hw)
  · intro k hq t hl hxf
    obtain ⟨h1, h2, _, h4, h5⟩ := htask t hl
    have hxf' : (s.tasks t).xfer = k := h2 ▸ hxf
    rw [(hx k).2.2.2.2.1] at hq
    rcases h.quietInert k hq t h1 hxf' with hc | hc
    · exact Or.inl (h4 hc)
    · exact Or.inr (h5 (Or.inr (hxf' ▸ hq)) hc)
  · intro k hq
    rw [(hx k).2.2.2.2.1] at hq
    rw [(hx k).2.2.2.2.2, (hst k hq).1, (hst k hq).2.1, (hst k hq).2.2]
    exact h.quietSt k hq
  · intro k hr t hl hxf
    obtain ⟨h1, h2, _, h4, _⟩ := htask t hl
    rw [(hx k).2.2.2.2.2] at hr
    exact h4 (h.removedCancelled k hr t h1 (h2 ▸ hxf))

theorem slotFree_dead {s : TS} (h : Inv s) {k : Nat} {kd : TKind} (hf : s.slotFree ((s.xs k).slotOf kd) = true)
    {t : Nat} (hl : (s.tasks t).live = true) (hx : (s.tasks t).xfer = k)
    (hk : (s.xs k).slotOf (s.tasks t).kind = (s.xs k).slotOf kd) : False := by
  have := h.single t hl
  rw [hx, hk] at this
  rw [this] at hf
  simp [TS.slotFree, hl] at hf

/-- creating a task for `k` in a free slot: by a cycle / a peer request when no call is in progress, or a download
initialisation by a peer request while a call holds the lock -/
theorem inv_spawn {s : TS} (h : Inv s) {k : Nat} {kd : TKind} (hk : k < s.nx)
    (hf : s.slotFree ((s.xs k).slotOf kd) = true) (hlock : (s.xs k).locked = none ∨ kd = .initDownload)
    (hq : (s.xs k).quiet = false) (hr : (s.xs k).removed = false) : Inv (s.spawn k kd) := by
  have hnew : ∀ t, t ≠ s.nt → (s.spawn k kd).tasks t = s.tasks t := fun t ht => upd_other _ _ ht
  have hme : (s.spawn k kd).tasks s.nt = { xfer := k, kind := kd, phase := .created } := upd_same _ _ _
  have hxo : ∀ j, j ≠ k → (s.spawn k kd).xs j = s.xs j := fun j hj => upd_other _ _ hj
  have hnt : (s.spawn k kd).nt = s.nt + 1 := rfl
  have hkeep : ((s.spawn k kd).xs k).locked = (s.xs k).locked ∧ ((s.spawn k kd).xs k).waitFor = (s.xs k).waitFor ∧
      ((s.spawn k kd).xs k).quiet = (s.xs k).quiet ∧ ((s.spawn k kd).xs k).removed = (s.xs k).removed ∧
      ((s.spawn k kd).xs k).st = (s.xs k).st := by
    cases kd <;> simp [TS.spawn]
  have hslot_me : ((s.spawn k kd).xs k).slotOf kd = some s.nt := by
    cases kd <;> simp [TS.spawn, XT.slotOf]
  constructor
  · intro t ht
    rw [hnt] at ht
    rw [hnew t (by omega)]
    exact h.fresh t (by omega)
  · intro t hl
    by_cases ht : t = s.nt
    · subst ht; rw [hme]; exact hk
    · rw [hnew t ht] at hl ⊢; exact h.bound t hl
  · intro t hl
    by_cases ht : t = s.nt
    · subst ht; rw [hme]; exact hslot_me
    · rw [hnew t ht] at hl ⊢
      by_cases hx : (s.tasks t).xfer = k
      · rw [hx]
        have hs := h.single t hl
        rw [hx] at hs
        -- same slot class would contradict the free slot
        cases kd <;> cases hkd : (s.tasks t).kind <;> simp only [XT.slotOf, hkd, TS.spawn, upd_same] at hs ⊢ <;>
          first
          | exact hs
          | (exfalso; exact slotFree_dead h hf hl hx (by simp [XT.slotOf, hkd]))
      · rw [hxo _ hx]; exact h.single t hl
  · intro j hj t hl hxf
    by_cases ht : t = s.nt
    · subst ht
      rw [hme] at hxf ⊢
      simp only at hxf
      subst hxf
      rw [hkeep.1] at hj
      rcases hlock with hlock | hlock
      · exact absurd hlock hj
      · exact Or.inr ⟨hlock, Or.inl rfl⟩
    · rw [hnew t ht] at hl hxf ⊢
      by_cases hjk : j = k
      · subst hjk; rw [hkeep.1] at hj; rw [hkeep.2.1]; exact h.waits j hj t hl hxf
      · rw [hxo j hjk] at hj ⊢; exact h.waits j hj t hl hxf
  · intro j hj t hl hxf
    by_cases hjk : j = k
    · subst hjk; rw [hkeep.2.2.1, hq] at hj; cases hj
    · rw [hxo j hjk] at hj
      by_cases ht : t = s.nt
      · subst ht; rw [hme] at hxf; exact absurd hxf.symm hjk
      · rw [hnew t ht] at hl hxf ⊢; exact h.quietInert j hj t hl hxf
  · intro j hj
    by_cases hjk : j = k
    · subst hjk; rw [hkeep.2.2.1, hq] at hj; cases hj
    · rw [hxo j hjk] at hj ⊢; exact h.quietSt j hj
  · intro j hj t hl hxf
    by_cases hjk : j = k
    · subst hjk; rw [hkeep.2.2.2.1, hr] at hj; cases hj
    · rw [hxo j hjk] at hj
      by_cases ht : t = s.nt
      · subst ht; rw [hme] at hxf; exact absurd hxf.symm hjk
      · rw [hnew t ht] at hl hxf ⊢; exact h.removedCancelled j hj t hl hxf

theorem not_quiet_of_spawnable {s : TS} (h : Inv s) {k : Nat}
    (hr : (s.xs k).removed = false)
    (hs : (s.xs k).st = .queued ∨ (s.xs k).st = .incomplete ∨ ((s.xs k).st = .failed ∧ (s.xs k).retry = true)) :
    (s.xs k).quiet = false := by
  cases hq : (s.xs k).quiet
  · rfl
  · rcases h.quietSt k hq with h1 | h1 | h1 | h1
    · rw [hr] at h1; cases h1
    · rcases hs with h2 | h2 | h2 <;> simp [h1] at h2
    · rcases hs with h2 | h2 | h2 <;> simp [h1] at h2
    · rcases hs with h2 | h2 | h2 <;> simp [h1.1, h1.2] at h2

theorem inv_trySpawn {s : TS} (h : Inv s) (k : Nat) : Inv (s.trySpawn k) := by
  unfold TS.trySpawn
  split
  · rename_i kd hsp
    unfold TS.spawnable at hsp
    simp only at hsp
    split at hsp
    · rename_i hc
      obtain ⟨hk, hr, hl⟩ := hc
      split at hsp
      · split at hsp
        · rename_i hd
          cases hsp
          exact inv_spawn h hk (by simpa [XT.slotOf] using hd.2.2) (Or.inl hl) (not_quiet_of_spawnable h hr hd.1) hr
        · cases hsp
      · split at hsp
        · rename_i hd
          cases hsp
          exact inv_spawn h hk (by simpa [XT.slotOf] using hd.2) (Or.inl hl)
            (not_quiet_of_spawnable h hr (Or.inl hd.1)) hr
        · cases hsp
    · cases hsp
  · exact h

theorem inv_cycle {s : TS} (h : Inv s) (ks : List Nat) : Inv (ks.foldl TS.trySpawn s) := by
  induction ks generalizing s with
  | nil => exact h
  | cons k ks ih => exact ih (inv_trySpawn h k)

/-- a task step: the task `t` changes phase; its transfer changes state / counters only -/
theorem inv_taskUpdate {s : TS} (h : Inv s) (t : Nat) (tk' : Task) (x' : XT)
    (htk : tk'.live = true → (s.tasks t).live = true ∧ tk'.xfer = (s.tasks t).xfer ∧ tk'.kind = (s.tasks t).kind ∧
      ((s.tasks t).cancelReq = true → tk'.cancelReq = true) ∧
      (((s.xs (s.tasks t).xfer).locked ≠ none ∨ (s.xs (s.tasks t).xfer).quiet = true) →
        LateShape (s.tasks t) → LateShape tk'))
    (hx' : x'.rqSlot = (s.xs (s.tasks t).xfer).rqSlot ∧ x'.ttSlot = (s.xs (s.tasks t).xfer).ttSlot ∧
      x'.locked = (s.xs (s.tasks t).xfer).locked ∧ x'.waitFor = (s.xs (s.tasks t).xfer).waitFor ∧
      x'.quiet = (s.xs (s.tasks t).xfer).quiet ∧ x'.removed = (s.xs (s.tasks t).xfer).removed)
    (hq : (s.xs (s.tasks t).xfer).quiet = true →
      x'.st = (s.xs (s.tasks t).xfer).st ∧ x'.retry = (s.xs (s.tasks t).xfer).retry ∧
      x'.dir = (s.xs (s.tasks t).xfer).dir) :
    Inv { s with tasks := upd s.tasks t tk', xs := upd s.xs (s.tasks t).xfer x' } := by
  refine Inv.frame h rfl rfl ?_ ?_ ?_
  · intro u hu
    by_cases e : u = t
    · subst e
      simp only [upd_same] at hu ⊢
      exact htk hu
    · dsimp only at hu ⊢
      rw [upd_other _ _ e] at hu ⊢
      exact ⟨hu, rfl, rfl, id, fun _ => id⟩
  · intro k
    by_cases e : k = (s.tasks t).xfer
    · subst e; simp only [upd_same]; exact hx'
    · simp [upd_other _ _ e]
  · intro k hk
    by_cases e : k = (s.tasks t).xfer
    · subst e; simp only [upd_same]; exact hq hk
    · dsimp only; rw [upd_other _ _ e]; exact ⟨rfl, rfl, rfl⟩

/-- a task only changes phase / gets cancelled -/
theorem inv_taskOnly {s : TS} (h : Inv s) (t : Nat) (tk' : Task)
    (htk : tk'.live = true → (s.tasks t).live = true ∧ tk'.xfer = (s.tasks t).xfer ∧ tk'.kind = (s.tasks t).kind ∧
      ((s.tasks t).cancelReq = true → tk'.cancelReq = true) ∧ (LateShape (s.tasks t) → LateShape tk')) :
    Inv { s with tasks := upd s.tasks t tk' } := by
  refine Inv.frame h rfl rfl ?_ ?_ ?_
  · intro u hu
    by_cases e : u = t
    · subst e
      simp only [upd_same] at hu ⊢
      obtain ⟨a, b, c, d, e⟩ := htk hu
      exact ⟨a, b, c, d, fun _ => e⟩
    · dsimp only at hu ⊢
      rw [upd_other _ _ e] at hu ⊢
      exact ⟨hu, rfl, rfl, id, fun _ => id⟩
  · intro k; exact ⟨rfl, rfl, rfl, rfl, rfl, rfl⟩
  · intro k _; exact ⟨rfl, rfl, rfl⟩

theorem dead_of_done (tk : Task) : ({ tk with phase := .done } : Task).live = true → False := by
  simp [Task.live]

theorem bump_fields (x : XT) : (bump x).rqSlot = x.rqSlot ∧ (bump x).ttSlot = x.ttSlot ∧ (bump x).locked = x.locked ∧
    (bump x).waitFor = x.waitFor ∧ (bump x).quiet = x.quiet ∧ (bump x).removed = x.removed :=
  ⟨rfl, rfl, rfl, rfl, rfl, rfl⟩

/-- a live task of a quiet transfer that has not been cancelled is a late initialisation -/
theorem late_of_quiet {s : TS} (h : Inv s) {t : Nat} (hl : (s.tasks t).live = true)
    (hq : (s.xs (s.tasks t).xfer).quiet = true) (hc : (s.tasks t).cancelReq = false) : LateShape (s.tasks t) := by
  rcases h.quietInert _ hq t hl rfl with h1 | h1
  · rw [hc] at h1; cases h1
  · exact h1

/-- … and its transfer cannot be initialised: a quiet transfer whose lock is free is ABORTED / PAUSED / FAILED -/
theorem quiet_not_startable {s : TS} (h : Inv s) {t : Nat} (hl : (s.tasks t).live = true)
    (hq : (s.xs (s.tasks t).xfer).quiet = true) (hc : (s.tasks t).cancelReq = false)
    (hs : (s.xs (s.tasks t).xfer).st = .queued ∨ (s.xs (s.tasks t).xfer).st = .incomplete) : False := by
  rcases h.quietSt _ hq with h1 | h1 | h1 | h1
  · have := h.removedCancelled _ h1 t hl rfl
    rw [hc] at this; cases this
  · rcases hs with h2 | h2 <;> rw [h1] at h2 <;> cases h2
  · rcases hs with h2 | h2 <;> rw [h1] at h2 <;> cases h2
  · rcases hs with h2 | h2 <;> rw [h1.1] at h2 <;> cases h2

theorem inv_taskStart {s : TS} (h : Inv s) (t : Nat) : Inv (step s (.taskStart t)) := by
  simp only [step]
  split
  · rename_i hp
    have hl : (s.tasks t).live = true := live_phase.mpr (Or.inl hp)
    split
    · exact inv_taskOnly h t _ (fun hc => (dead_of_done _ hc).elim)
    · rename_i hnc
      have hnc' : (s.tasks t).cancelReq = false := by simpa using hnc
      split
      · -- queueRemotely
        rename_i hkd
        refine inv_taskUpdate h t _ _ ?_ (bump_fields _) ?_
        · intro _
          refine ⟨hl, rfl, rfl, id, fun _ hls => ?_⟩
          have := hls.1
          rw [hkd] at this; cases this
        · intro _; exact ⟨rfl, rfl, rfl⟩
      · -- initUpload
        rename_i hkd
        refine inv_taskUpdate h t _ _ ?_ ?_ ?_
        · intro _
          refine ⟨hl, rfl, rfl, id, fun _ hls => ?_⟩
          have := hls.1
          rw [hkd] at this; cases this
        · split <;> exact ⟨rfl, rfl, rfl, rfl, rfl, rfl⟩
        · intro hq
          have := (late_of_quiet h hl hq hnc').1
          rw [hkd] at this; cases this
      · -- initDownload
        rename_i hkd
        split
        · -- waits for the lock
          refine inv_taskOnly h t _ (fun _ => ⟨hl, rfl, rfl, id, fun _ => ⟨hkd, Or.inr (Or.inl rfl)⟩⟩)
        · rename_i hnl
          split
          · rename_i hs
            refine inv_taskUpdate h t _ _ ?_ (bump_fields _) ?_
            · intro _
              refine ⟨hl, rfl, rfl, id, fun hlq _ => ?_⟩
              exfalso
              rcases hlq with hlk | hq
              · -- a call is in progress but the lock is free: the transfer left the list, the task was cancelled
                have hrem : (s.xs (s.tasks t).xfer).removed = true := by
                  cases hlo : (s.xs (s.tasks t).xfer).locked with
                  | none => exact absurd hlo hlk
                  | some c =>
                    cases hr : (s.xs (s.tasks t).xfer).removed with
                    | true => rfl
                    | false => simp [XT.lockHeld, hlo, hr] at hnl
                have := h.removedCancelled _ hrem t hl rfl
                rw [hnc'] at this; cases this
              · exact quiet_not_startable h hl hq hnc' hs
            · intro hq; exact (quiet_not_startable h hl hq hnc' hs).elim
          · refine inv_taskOnly h t _ (fun _ => ⟨hl, rfl, rfl, id, fun _ => ⟨hkd, Or.inr (Or.inr rfl)⟩⟩)
  · exact h

theorem inv_taskEnd {s : TS} (h : Inv s) (t : Nat) (o : Outcome) : Inv (step s (.taskEnd t o)) := by
  simp only [step]
  split
  · rename_i hp
    have hl : (s.tasks t).live = true := live_phase.mpr (Or.inr (Or.inl hp))
    split
    · exact inv_taskOnly h t _ (fun hc => (dead_of_done _ hc).elim)
    · rename_i hnc
      have hnc' : (s.tasks t).cancelReq = false := by simpa using hnc
      -- a running task that was not cancelled does not belong to a quiet transfer
      have hnq : (s.xs (s.tasks t).xfer).quiet = true → False := by
        intro hq
        rcases (late_of_quiet h hl hq hnc').2 with h1 | h1 | h1 <;> rw [hp] at h1 <;> cases h1
      split
      · refine inv_taskUpdate h t _ _ (fun hc => (dead_of_done _ hc).elim) ⟨rfl, rfl, rfl, rfl, rfl, rfl⟩
          (fun hq => (hnq hq).elim)
      · refine inv_taskUpdate h t _ _ (fun hc => (dead_of_done _ hc).elim) ?_ (fun hq => (hnq hq).elim)
        split <;> exact ⟨rfl, rfl, rfl, rfl, rfl, rfl⟩
      · have := inv_taskUpdate h t (s.tasks t) (bump (if (s.xs (s.tasks t).xfer).st = .initializing then
            { s.xs (s.tasks t).xfer with
              st := (if (s.xs (s.tasks t).xfer).dir = .upload then .uploading else .downloading), rq := false, attempts := 0 }
            else s.xs (s.tasks t).xfer)) (fun _ => ⟨hl, rfl, rfl, id, fun _ => id⟩)
            (by split <;> exact ⟨rfl, rfl, rfl, rfl, rfl, rfl⟩) (fun hq => (hnq hq).elim)
        have e : upd s.tasks t (s.tasks t) = s.tasks := by
          funext i; by_cases hi : i = t <;> simp [upd, hi]
        rw [e] at this
        exact this
      · refine inv_taskUpdate h t _ _ (fun hc => (dead_of_done _ hc).elim) ?_ (fun hq => (hnq hq).elim)
        split <;> exact ⟨rfl, rfl, rfl, rfl, rfl, rfl⟩
      · refine inv_taskUpdate h t _ _ (fun hc => (dead_of_done _ hc).elim) ?_ (fun hq => (hnq hq).elim)
        split <;> exact ⟨rfl, rfl, rfl, rfl, rfl, rfl⟩
      · refine inv_taskUpdate h t _ _ (fun hc => (dead_of_done _ hc).elim) ?_ (fun hq => (hnq hq).elim)
        split <;> exact ⟨rfl, rfl, rfl, rfl, rfl, rfl⟩
      · -- `failing`: the state changes, the task goes on
        have := inv_taskUpdate h t (s.tasks t) (bump (if (s.xs (s.tasks t).xfer).st = .initializing ∨
            (s.xs (s.tasks t).xfer).st = .uploading ∨ (s.xs (s.tasks t).xfer).st = .downloading then
            { s.xs (s.tasks t).xfer with st := .failed, retry := false }
            else s.xs (s.tasks t).xfer)) (fun _ => ⟨hl, rfl, rfl, id, fun _ => id⟩)
            (by split <;> exact ⟨rfl, rfl, rfl, rfl, rfl, rfl⟩) (fun hq => (hnq hq).elim)
        have e : upd s.tasks t (s.tasks t) = s.tasks := by
          funext i; by_cases hi : i = t <;> simp [upd, hi]
        rw [e] at this
        exact this
      · refine inv_taskUpdate h t _ _ (fun hc => (dead_of_done _ hc).elim) ?_ (fun hq => (hnq hq).elim)
        split <;> exact ⟨rfl, rfl, rfl, rfl, rfl, rfl⟩
  · split
    · exact inv_taskOnly h t _ (fun hc => (dead_of_done _ hc).elim)
    · split
      · exact inv_taskOnly h t _ (fun hc => (dead_of_done _ hc).elim)
      · exact h

theorem inv_done_generic {s : TS} (h : Inv s) (t : Nat) (tk' : Task) (hdead : (s.tasks t).live = false)
    (hdead' : tk'.live = false) (x' : XT)
    (hkeep : x'.locked = (s.xs (s.tasks t).xfer).locked ∧ x'.waitFor = (s.xs (s.tasks t).xfer).waitFor ∧
        x'.quiet = (s.xs (s.tasks t).xfer).quiet ∧ x'.removed = (s.xs (s.tasks t).xfer).removed ∧
        x'.st = (s.xs (s.tasks t).xfer).st ∧ x'.retry = (s.xs (s.tasks t).xfer).retry ∧
        x'.dir = (s.xs (s.tasks t).xfer).dir)
    (hslot : ∀ kd u, u ≠ t → (s.xs (s.tasks t).xfer).slotOf kd = some u → x'.slotOf kd = some u) :
    Inv { s with tasks := upd s.tasks t tk', xs := upd s.xs (s.tasks t).xfer x' } := by
  have htasks : ∀ u, u ≠ t → upd s.tasks t tk' u = s.tasks u := fun u hu => upd_other _ _ hu
  have hme : (upd s.tasks t tk' t).live = false := by rw [upd_same]; exact hdead'
  -- every live task is another task than `t`, unchanged
  have hlive : ∀ u, (upd s.tasks t tk' u).live = true → u ≠ t ∧ upd s.tasks t tk' u = s.tasks u := by
    intro u hu
    by_cases e : u = t
    · subst e; rw [hme] at hu; cases hu
    · exact ⟨e, htasks u e⟩
  have hxk : ∀ k, (upd s.xs (s.tasks t).xfer x' k).locked = (s.xs k).locked ∧
      (upd s.xs (s.tasks t).xfer x' k).waitFor = (s.xs k).waitFor ∧
      (upd s.xs (s.tasks t).xfer x' k).quiet = (s.xs k).quiet ∧ (upd s.xs (s.tasks t).xfer x' k).removed = (s.xs k).removed ∧
      (upd s.xs (s.tasks t).xfer x' k).st = (s.xs k).st ∧ (upd s.xs (s.tasks t).xfer x' k).retry = (s.xs k).retry ∧
      (upd s.xs (s.tasks t).xfer x' k).dir = (s.xs k).dir := by
    intro k
    by_cases ek : k = (s.tasks t).xfer
    · subst ek; rw [upd_same]; exact hkeep
    · rw [upd_other _ _ ek]; exact ⟨rfl, rfl, rfl, rfl, rfl, rfl, rfl⟩
  constructor
  · intro u hu
    show (upd s.tasks t tk' u).live = false
    by_cases e : u = t
    · subst e; exact hme
    · rw [htasks u e]; exact h.fresh u hu
  · intro u hl
    change (upd s.tasks t tk' u).live = true at hl
    show (upd s.tasks t tk' u).xfer < s.nx
    obtain ⟨_, e⟩ := hlive u hl
    rw [e] at hl ⊢; exact h.bound u hl
  · intro u hl
    change (upd s.tasks t tk' u).live = true at hl
    show (upd s.xs (s.tasks t).xfer x' (upd s.tasks t tk' u).xfer).slotOf (upd s.tasks t tk' u).kind = some u
    obtain ⟨ne, e⟩ := hlive u hl
    rw [e] at hl ⊢
    by_cases ex : (s.tasks u).xfer = (s.tasks t).xfer
    · rw [ex, upd_same]
      have := h.single u hl
      rw [ex] at this
      exact hslot _ u ne this
    · rw [upd_other _ _ ex]; exact h.single u hl
  · intro k hk u hl hxf
    change (upd s.tasks t tk' u).live = true at hl
    change (upd s.tasks t tk' u).xfer = k at hxf
    change (upd s.xs (s.tasks t).xfer x' k).locked ≠ none at hk
    show u ∈ (upd s.xs (s.tasks t).xfer x' k).waitFor ∨ LateShape (upd s.tasks t tk' u)
    obtain ⟨_, e⟩ := hlive u hl
    rw [e] at hl hxf ⊢
    rw [(hxk k).1] at hk; rw [(hxk k).2.1]
    exact h.waits k hk u hl hxf
  · intro k hq u hl hxf
    change (upd s.tasks t tk' u).live = true at hl
    change (upd s.tasks t tk' u).xfer = k at hxf
    change (upd s.xs (s.tasks t).xfer x' k).quiet = true at hq
    show Inert (upd s.tasks t tk' u)
    obtain ⟨_, e⟩ := hlive u hl
    rw [e] at hl hxf ⊢
    rw [(hxk k).2.2.1] at hq
    exact h.quietInert k hq u hl hxf
  · intro k hq
    change (upd s.xs (s.tasks t).xfer x' k).quiet = true at hq
    show (upd s.xs (s.tasks t).xfer x' k).removed = true ∨ (upd s.xs (s.tasks t).xfer x' k).st = .aborted ∨
      (upd s.xs (s.tasks t).xfer x' k).st = .paused ∨
      ((upd s.xs (s.tasks t).xfer x' k).st = .failed ∧ (upd s.xs (s.tasks t).xfer x' k).retry = false ∧
        (upd s.xs (s.tasks t).xfer x' k).dir = .download)
    rw [(hxk k).2.2.1] at hq
    rw [(hxk k).2.2.2.1, (hxk k).2.2.2.2.1, (hxk k).2.2.2.2.2.1, (hxk k).2.2.2.2.2.2]
    exact h.quietSt k hq
  · intro k hr u hl hxf
    change (upd s.tasks t tk' u).live = true at hl
    change (upd s.tasks t tk' u).xfer = k at hxf
    change (upd s.xs (s.tasks t).xfer x' k).removed = true at hr
    show (upd s.tasks t tk' u).cancelReq = true
    obtain ⟨_, e⟩ := hlive u hl
    rw [e] at hl hxf ⊢
    rw [(hxk k).2.2.2.1] at hr
    exact h.removedCancelled k hr u hl hxf

theorem inv_doneCallback {s : TS} (h : Inv s) (t : Nat) : Inv (step s (.doneCallback t)) := by
  simp only [step]
  split
  · rename_i hp
    refine inv_done_generic h t _ ?_ ?_ _ ?_ ?_
    · simp [Task.live, hp]
    · simp [Task.live]
    · split <;> split <;> exact ⟨rfl, rfl, rfl, rfl, rfl, rfl, rfl⟩
    · intro kd u hu hs
      cases kd <;> split <;> simp only [XT.slotOf] at hs ⊢ <;> split <;> simp_all
  · exact h

theorem mem_liveIn {s : TS} {o : Option Nat} {t : Nat} (ho : o = some t) (hl : (s.tasks t).live = true) : t ∈ liveIn s o := by
  subst ho; simp [liveIn, hl]

/-- a live task of `k` is in one of the slots of `k` -/
theorem mem_slots {s : TS} (h : Inv s) {k t : Nat} (hl : (s.tasks t).live = true) (hx : (s.tasks t).xfer = k) :
    t ∈ liveIn s (s.xs k).rqSlot ++ liveIn s (s.xs k).ttSlot := by
  have := h.single t hl
  rw [hx] at this
  simp only [List.mem_append]
  cases hk : (s.tasks t).kind <;> simp only [XT.slotOf, hk] at this
  · exact Or.inl (mem_liveIn this hl)
  · exact Or.inr (mem_liveIn this hl)
  · exact Or.inr (mem_liveIn this hl)

theorem cancelSlots_task (s : TS) (k t : Nat) :
    ((s.cancelSlots k).tasks t).live = (s.tasks t).live ∧ ((s.cancelSlots k).tasks t).xfer = (s.tasks t).xfer ∧
      ((s.cancelSlots k).tasks t).kind = (s.tasks t).kind ∧ ((s.cancelSlots k).tasks t).phase = (s.tasks t).phase ∧
      ((s.tasks t).cancelReq = true → ((s.cancelSlots k).tasks t).cancelReq = true) ∧
      (t ∈ liveIn s (s.xs k).rqSlot ++ liveIn s (s.xs k).ttSlot → ((s.cancelSlots k).tasks t).cancelReq = true) := by
  unfold TS.cancelSlots
  simp only
  split
  · simp [Task.live]
  · rename_i hn
    exact ⟨rfl, rfl, rfl, rfl, id, fun hm => absurd hm hn⟩

theorem inv_cancelSlots {s : TS} (h : Inv s) (k : Nat) : Inv (s.cancelSlots k) := by
  refine Inv.frame h rfl rfl ?_ (fun _ => ⟨rfl, rfl, rfl, rfl, rfl, rfl⟩) (fun _ _ => ⟨rfl, rfl, rfl⟩)
  intro t hl
  obtain ⟨a, b, c, d, e, _⟩ := cancelSlots_task s k t
  rw [a] at hl
  refine ⟨hl, b, c, e, fun _ hls => ?_⟩
  exact ⟨c ▸ hls.1, by rw [d]; exact hls.2⟩

/-- the transfer of a call: everything alive for it has just been cancelled and is waited for -/
theorem inv_lockUpdate {s : TS} (h : Inv s) (k : Nat) (x' : XT)
    (h1 : x'.rqSlot = (s.xs k).rqSlot) (h2 : x'.ttSlot = (s.xs k).ttSlot) (h3 : x'.quiet = (s.xs k).quiet)
    (hall : ∀ t, (s.tasks t).live = true → (s.tasks t).xfer = k → (s.tasks t).cancelReq = true ∧ t ∈ x'.waitFor)
    (hqs : (s.xs k).quiet = true → x'.removed = true ∨ x'.st = .aborted ∨ x'.st = .paused ∨
      (x'.st = .failed ∧ x'.retry = false ∧ x'.dir = .download)) :
    Inv { s with xs := upd s.xs k x' } := by
  constructor
  · exact h.fresh
  · exact h.bound
  · intro t hl
    show (upd s.xs k x' (s.tasks t).xfer).slotOf (s.tasks t).kind = some t
    by_cases e : (s.tasks t).xfer = k
    · rw [e, upd_same]
      have := h.single t hl
      rw [e] at this
      cases hk : (s.tasks t).kind <;> simp only [XT.slotOf, hk, h1, h2] at this ⊢ <;> exact this
    · rw [upd_other _ _ e]; exact h.single t hl
  · intro j hj t hl hxf
    show t ∈ (upd s.xs k x' j).waitFor ∨ LateShape (s.tasks t)
    change (upd s.xs k x' j).locked ≠ none at hj
    by_cases e : j = k
    · subst e; rw [upd_same]; exact Or.inl (hall t hl hxf).2
    · rw [upd_other _ _ e] at hj ⊢; exact h.waits j hj t hl hxf
  · intro j hq t hl hxf
    change (upd s.xs k x' j).quiet = true at hq
    by_cases e : j = k
    · subst e; exact Or.inl (hall t hl hxf).1
    · rw [upd_other _ _ e] at hq; exact h.quietInert j hq t hl hxf
  · intro j hq
    change (upd s.xs k x' j).quiet = true at hq
    show (upd s.xs k x' j).removed = true ∨ (upd s.xs k x' j).st = .aborted ∨ (upd s.xs k x' j).st = .paused ∨
      ((upd s.xs k x' j).st = .failed ∧ (upd s.xs k x' j).retry = false ∧ (upd s.xs k x' j).dir = .download)
    by_cases e : j = k
    · subst e; rw [upd_same] at hq ⊢; rw [h3] at hq; exact hqs hq
    · rw [upd_other _ _ e] at hq ⊢; exact h.quietSt j hq
  · intro j hr t hl hxf
    by_cases e : j = k
    · subst e; exact (hall t hl hxf).1
    · change (upd s.xs k x' j).removed = true at hr
      rw [upd_other _ _ e] at hr; exact h.removedCancelled j hr t hl hxf

/-- after `cancelSlots k` every live task of `k` is cancelled and among the tasks collected from the slots -/
theorem cancelSlots_all {s : TS} (h : Inv s) (k : Nat) (t : Nat) (hl : ((s.cancelSlots k).tasks t).live = true)
    (hx : ((s.cancelSlots k).tasks t).xfer = k) :
    ((s.cancelSlots k).tasks t).cancelReq = true ∧ t ∈ liveIn s (s.xs k).rqSlot ++ liveIn s (s.xs k).ttSlot := by
  obtain ⟨a, b, _, _, _, f⟩ := cancelSlots_task s k t
  rw [a] at hl
  rw [b] at hx
  have hm := mem_slots h hl hx
  exact ⟨f hm, hm⟩

theorem inv_call {s : TS} (h : Inv s) (k : Nat) (c : CallKind) : Inv (step s (.call k c)) := by
  simp only [step]
  split
  · rename_i hc
    obtain ⟨_, hr, _, _⟩ := hc
    refine inv_lockUpdate (inv_cancelSlots h k) k _ rfl rfl rfl (cancelSlots_all h k) ?_
    intro hq
    change (s.xs k).quiet = true at hq
    rcases h.quietSt k hq with h1 | h1 | h1 | h1
    · rw [hr] at h1; cases h1
    · exact Or.inr (Or.inl h1)
    · exact Or.inr (Or.inr (Or.inl h1))
    · exact Or.inr (Or.inr (Or.inr h1))
  · exact h

theorem inv_removeMid {s : TS} (h : Inv s) (k : Nat) : Inv (step s (.removeMid k)) := by
  simp only [step]
  split
  · exact inv_lockUpdate (inv_cancelSlots h k) k _ rfl rfl rfl (cancelSlots_all h k) (fun _ => Or.inl rfl)
  · exact h

theorem unblock_task (s : TS) (o : Option Nat) (t : Nat) :
    (s.unblock o t).live = (s.tasks t).live ∧ (s.unblock o t).xfer = (s.tasks t).xfer ∧
      (s.unblock o t).kind = (s.tasks t).kind ∧ (s.unblock o t).cancelReq = (s.tasks t).cancelReq ∧
      (LateShape (s.tasks t) → LateShape (s.unblock o t)) := by
  unfold TS.unblock
  cases o with
  | none => exact ⟨rfl, rfl, rfl, rfl, id⟩
  | some u =>
    simp only
    split
    · rename_i hb
      by_cases e : t = u
      · subst e
        rw [upd_same]
        refine ⟨?_, rfl, rfl, rfl, fun hls => ⟨hls.1, Or.inr (Or.inr rfl)⟩⟩
        simp [Task.live, hb]
      · rw [upd_other _ _ e]; exact ⟨rfl, rfl, rfl, rfl, id⟩
    · exact ⟨rfl, rfl, rfl, rfl, id⟩

theorem inv_unblock {s : TS} (h : Inv s) (o : Option Nat) : Inv { s with tasks := s.unblock o } := by
  refine Inv.frame h rfl rfl ?_ (fun _ => ⟨rfl, rfl, rfl, rfl, rfl, rfl⟩) (fun _ _ => ⟨rfl, rfl, rfl⟩)
  intro t hl
  obtain ⟨a, b, c, d, e⟩ := unblock_task s o t
  change (s.unblock o t).live = true at hl
  rw [a] at hl
  exact ⟨hl, b, c, fun hc => by show (s.unblock o t).cancelReq = true; rw [d]; exact hc, fun _ => e⟩

/-- the return of a call: lock and wait list cleared, the transfer becomes quiet -/
theorem inv_returnUpdate {s : TS} (h : Inv s) (k : Nat) (x' : XT)
    (h1 : x'.rqSlot = (s.xs k).rqSlot) (h2 : x'.ttSlot = (s.xs k).ttSlot) (h3 : x'.locked = none)
    (h4 : x'.removed = (s.xs k).removed)
    (hall : ∀ t, (s.tasks t).live = true → (s.tasks t).xfer = k → Inert (s.tasks t))
    (hqs : x'.removed = true ∨ x'.st = .aborted ∨ x'.st = .paused ∨
      (x'.st = .failed ∧ x'.retry = false ∧ x'.dir = .download)) :
    Inv { s with xs := upd s.xs k x' } := by
  constructor
  · exact h.fresh
  · exact h.bound
  · intro t hl
    show (upd s.xs k x' (s.tasks t).xfer).slotOf (s.tasks t).kind = some t
    by_cases e : (s.tasks t).xfer = k
    · rw [e, upd_same]
      have := h.single t hl
      rw [e] at this
      cases hk : (s.tasks t).kind <;> simp only [XT.slotOf, hk, h1, h2] at this ⊢ <;> exact this
    · rw [upd_other _ _ e]; exact h.single t hl
  · intro j hj t hl hxf
    show t ∈ (upd s.xs k x' j).waitFor ∨ LateShape (s.tasks t)
    change (upd s.xs k x' j).locked ≠ none at hj
    by_cases e : j = k
    · subst e; rw [upd_same] at hj; exact absurd h3 hj
    · rw [upd_other _ _ e] at hj ⊢; exact h.waits j hj t hl hxf
  · intro j hq t hl hxf
    change (upd s.xs k x' j).quiet = true at hq
    by_cases e : j = k
    · subst e; exact hall t hl hxf
    · rw [upd_other _ _ e] at hq; exact h.quietInert j hq t hl hxf
  · intro j hq
    change (upd s.xs k x' j).quiet = true at hq
    show (upd s.xs k x' j).removed = true ∨ (upd s.xs k x' j).st = .aborted ∨ (upd s.xs k x' j).st = .paused ∨
      ((upd s.xs k x' j).st = .failed ∧ (upd s.xs k x' j).retry = false ∧ (upd s.xs k x' j).dir = .download)
    by_cases e : j = k
    · subst e; rw [upd_same]; exact hqs
    · rw [upd_other _ _ e] at hq ⊢; exact h.quietSt j hq
  · intro j hr t hl hxf
    change (upd s.xs k x' j).removed = true at hr
    by_cases e : j = k
    · subst e; rw [upd_same, h4] at hr; exact h.removedCancelled j hr t hl hxf
    · rw [upd_other _ _ e] at hr; exact h.removedCancelled j hr t hl hxf

theorem inv_callResume {s : TS} (h : Inv s) (k : Nat) : Inv (step s (.callResume k)) := by
  simp only [step]
  split
  · rename_i c hc
    split
    · rename_i hw
      obtain ⟨hw, hrm⟩ := hw
      have hu := inv_unblock h (s.xs k).ttSlot
      refine inv_returnUpdate hu k _ rfl rfl rfl rfl ?_ ?_
      · intro t hl hxf
        obtain ⟨a, b, _, d, e⟩ := unblock_task s (s.xs k).ttSlot t
        change (s.unblock (s.xs k).ttSlot t).live = true at hl
        change (s.unblock (s.xs k).ttSlot t).xfer = k at hxf
        show Inert (s.unblock (s.xs k).ttSlot t)
        rw [a] at hl
        rw [b] at hxf
        rcases h.waits k (by rw [hc]; simp) t hl hxf with hm | hm
        · have := List.all_eq_true.mp hw t hm
          simp [hl] at this
        · exact Or.inr (e hm)
      · show (s.xs k).removed = true ∨ _
        cases hr : (s.xs k).removed
        · simp only [Bool.false_eq_true, if_false, false_or]
          by_cases hp : c = .pause
          · exact Or.inr (Or.inl (by simp [hp]))
          · exact Or.inl (by simp [hp])
        · exact Or.inl rfl
    · exact h
  · exact h

/-- transfer `k` gets new state / flags; slots, lock, wait list and list membership stay; it may stop being quiet -/
theorem inv_xfields {s : TS} (h : Inv s) (k : Nat) (x' : XT) (h1 : x'.rqSlot = (s.xs k).rqSlot)
    (h2 : x'.ttSlot = (s.xs k).ttSlot) (h3 : x'.locked = (s.xs k).locked) (h4 : x'.waitFor = (s.xs k).waitFor)
    (h5 : x'.removed = (s.xs k).removed)
    (hq : x'.quiet = true → (s.xs k).quiet = true ∧
      (x'.removed = true ∨ x'.st = .aborted ∨ x'.st = .paused ∨
        (x'.st = .failed ∧ x'.retry = false ∧ x'.dir = .download))) :
    Inv { s with xs := upd s.xs k x' } := by
  constructor
  · exact h.fresh
  · exact h.bound
  · intro t hl
    show (upd s.xs k x' (s.tasks t).xfer).slotOf (s.tasks t).kind = some t
    by_cases e : (s.tasks t).xfer = k
    · rw [e, upd_same]
      have := h.single t hl
      rw [e] at this
      cases hk : (s.tasks t).kind <;> simp only [XT.slotOf, hk, h1, h2] at this ⊢ <;> exact this
    · rw [upd_other _ _ e]; exact h.single t hl
  · intro j hj t hl hxf
    show t ∈ (upd s.xs k x' j).waitFor ∨ LateShape (s.tasks t)
    change (upd s.xs k x' j).locked ≠ none at hj
    by_cases e : j = k
    · subst e; rw [upd_same] at hj ⊢; rw [h3] at hj; rw [h4]; exact h.waits j hj t hl hxf
    · rw [upd_other _ _ e] at hj ⊢; exact h.waits j hj t hl hxf
  · intro j hj t hl hxf
    change (upd s.xs k x' j).quiet = true at hj
    by_cases e : j = k
    · subst e; rw [upd_same] at hj; exact h.quietInert j (hq hj).1 t hl hxf
    · rw [upd_other _ _ e] at hj; exact h.quietInert j hj t hl hxf
  · intro j hj
    change (upd s.xs k x' j).quiet = true at hj
    show (upd s.xs k x' j).removed = true ∨ (upd s.xs k x' j).st = .aborted ∨ (upd s.xs k x' j).st = .paused ∨
      ((upd s.xs k x' j).st = .failed ∧ (upd s.xs k x' j).retry = false ∧ (upd s.xs k x' j).dir = .download)
    by_cases e : j = k
    · subst e; rw [upd_same] at hj ⊢; exact (hq hj).2
    · rw [upd_other _ _ e] at hj ⊢; exact h.quietSt j hj
  · intro j hr t hl hxf
    change (upd s.xs k x' j).removed = true at hr
    by_cases e : j = k
    · subst e; rw [upd_same, h5] at hr; exact h.removedCancelled j hr t hl hxf
    · rw [upd_other _ _ e] at hr; exact h.removedCancelled j hr t hl hxf

theorem inv_requeue {s : TS} (h : Inv s) (k : Nat) : Inv (step s (.requeue k)) := by
  simp only [step]
  split
  · exact inv_xfields h k _ rfl rfl rfl rfl rfl (fun hq => by cases hq)
  · exact h

theorem inv_peerFail {s : TS} (h : Inv s) (k : Nat) : Inv (step s (.peerFail k)) := by
  simp only [step]
  split
  · rename_i hc
    exact inv_xfields h k _ rfl rfl rfl rfl rfl (fun hq => ⟨hq, Or.inr (Or.inr (Or.inr ⟨rfl, rfl, hc.2.1⟩))⟩)
  · exact h

theorem inv_peerUploadFailed {s : TS} (h : Inv s) (k : Nat) : Inv (step s (.peerUploadFailed k)) := by
  simp only [step]
  split
  · exact inv_xfields h k _ rfl rfl rfl rfl rfl (fun hq => ⟨hq, h.quietSt k hq⟩)
  · exact h

theorem inv_peerQueueStart {s : TS} (h : Inv s) (k : Nat) : Inv (step s (.peerQueueStart k)) := by
  simp only [step]
  split
  · exact inv_xfields h k _ rfl rfl rfl rfl rfl (fun hq => ⟨hq, h.quietSt k hq⟩)
  · exact h

theorem inv_peerQueueEnd {s : TS} (h : Inv s) (k : Nat) : Inv (step s (.peerQueueEnd k)) := by
  simp only [step]
  split
  · split
    · exact inv_xfields h k _ rfl rfl rfl rfl rfl (fun hq => by cases hq)
    · exact inv_xfields h k _ rfl rfl rfl rfl rfl (fun hq => ⟨hq, h.quietSt k hq⟩)
  · exact h

theorem inv_add {s : TS} (h : Inv s) (x : XT)
    (hx : x.rqSlot = none ∧ x.ttSlot = none ∧ x.locked = none ∧ x.quiet = false ∧ x.removed = false) :
    Inv { s with xs := upd s.xs s.nx x, nx := s.nx + 1 } := by
  have hne : ∀ t, (s.tasks t).live = true → (s.tasks t).xfer ≠ s.nx := fun t hl => Nat.ne_of_lt (h.bound t hl)
  constructor
  · exact h.fresh
  · intro t hl; exact Nat.lt_succ_of_lt (h.bound t hl)
  · intro t hl
    show (upd s.xs s.nx x (s.tasks t).xfer).slotOf (s.tasks t).kind = some t
    rw [upd_other _ _ (hne t hl)]; exact h.single t hl
  · intro j hj t hl hxf
    show t ∈ (upd s.xs s.nx x j).waitFor ∨ LateShape (s.tasks t)
    change (upd s.xs s.nx x j).locked ≠ none at hj
    by_cases e : j = s.nx
    · subst e; rw [upd_same] at hj; exact absurd hx.2.2.1 hj
    · rw [upd_other _ _ e] at hj ⊢; exact h.waits j hj t hl hxf
  · intro j hq t hl hxf
    change (upd s.xs s.nx x j).quiet = true at hq
    by_cases e : j = s.nx
    · subst e; exact absurd hxf (hne t hl)
    · rw [upd_other _ _ e] at hq; exact h.quietInert j hq t hl hxf
  · intro j hq
    change (upd s.xs s.nx x j).quiet = true at hq
    show (upd s.xs s.nx x j).removed = true ∨ (upd s.xs s.nx x j).st = .aborted ∨ (upd s.xs s.nx x j).st = .paused ∨
      ((upd s.xs s.nx x j).st = .failed ∧ (upd s.xs s.nx x j).retry = false ∧ (upd s.xs s.nx x j).dir = .download)
    by_cases e : j = s.nx
    · subst e; rw [upd_same, hx.2.2.2.1] at hq; cases hq
    · rw [upd_other _ _ e] at hq ⊢; exact h.quietSt j hq
  · intro j hr t hl hxf
    change (upd s.xs s.nx x j).removed = true at hr
    by_cases e : j = s.nx
    · subst e; exact absurd hxf (hne t hl)
    · rw [upd_other _ _ e] at hr; exact h.removedCancelled j hr t hl hxf

theorem inv_peerRequest {s : TS} (h : Inv s) (k : Nat) : Inv (step s (.peerRequest k)) := by
  simp only [step]
  split
  · rename_i hc
    obtain ⟨hk, _, hr, hf⟩ := hc
    split
    · rename_i hl
      split
      · rename_i hs
        exact inv_spawn h hk (by simpa [XT.slotOf] using hf) (Or.inl hl)
          (not_quiet_of_spawnable h hr (hs.elim Or.inl (fun e => Or.inr (Or.inl e)))) hr
      · split
        · -- FAILED: re-queued by the peer first
          have h1 := inv_xfields h k { s.xs k with st := .queued, rq := true, quiet := false } rfl rfl rfl rfl rfl
            (fun hq => by cases hq)
          refine inv_spawn h1 hk ?_ (Or.inr rfl) ?_ ?_
          · show TS.slotFree _ ((upd s.xs k _ k).slotOf .initDownload) = true
            rw [upd_same]
            simpa [XT.slotOf, TS.slotFree] using hf
          · show (upd s.xs k _ k).quiet = false
            rw [upd_same]
          · show (upd s.xs k _ k).removed = false
            rw [upd_same]; exact hr
        · exact h
    · -- a call holds the lock
      split
      · rename_i hs
        exact inv_spawn h hk (by simpa [XT.slotOf] using hf) (Or.inr rfl)
          (not_quiet_of_spawnable h hr (hs.elim Or.inl (fun e => Or.inr (Or.inl e)))) hr
      · exact h
  · exact h

theorem inv_step {s : TS} (h : Inv s) (op : Op) : Inv (step s op) := by
  cases op with
  | addDownload => exact inv_add h _ ⟨rfl, rfl, rfl, rfl, rfl⟩
  | addUpload => exact inv_add h _ ⟨rfl, rfl, rfl, rfl, rfl⟩
  | addFailed => exact inv_add h _ ⟨rfl, rfl, rfl, rfl, rfl⟩
  | cycle ks => exact inv_cycle h ks
  | peerRequest k => exact inv_peerRequest h k
  | taskStart t => exact inv_taskStart h t
  | taskEnd t o => exact inv_taskEnd h t o
  | doneCallback t => exact inv_doneCallback h t
  | call k c => exact inv_call h k c
  | removeMid k => exact inv_removeMid h k
  | callResume k => exact inv_callResume h k
  | requeue k => exact inv_requeue h k
  | peerFail k => exact inv_peerFail h k
  | peerUploadFailed k => exact inv_peerUploadFailed h k
  | peerQueueStart k => exact inv_peerQueueStart h k
  | peerQueueEnd k => exact inv_peerQueueEnd h k

theorem inv_foldl {s : TS} (h : Inv s) (ops : List Op) : Inv (ops.foldl step s) := by
  induction ops generalizing s with
  | nil => exact h
  | cons op ops ih => exact ih (inv_step h op)

theorem inv_run (ops : List Op) : Inv (run ops) := inv_foldl inv_init ops

/-! ### a quiet transfer is left alone -/

/-- the fields the property talks about (state, remotely_queued, queue_attempts, every action of a
background task on behalf of the transfer, membership of the transfer list) -/
def obs (x : XT) : St × Bool × Nat × Nat × Bool × Bool := (x.st, x.rq, x.attempts, x.acts, x.removed, x.quiet)

theorem trySpawn_quiet {s : TS} (h : Inv s) {k : Nat} (hq : (s.xs k).quiet = true) (j : Nat) :
    (s.trySpawn j).xs k = s.xs k ∧ (s.trySpawn j).nx = s.nx := by
  unfold TS.trySpawn
  split
  · rename_i kd hsp
    by_cases e : j = k
    · subst e
      exfalso
      unfold TS.spawnable at hsp
      simp only at hsp
      have hs := h.quietSt j hq
      split at hsp
      · rename_i hc
        split at hsp <;> split at hsp <;> try cases hsp
        all_goals
          rename_i hd
          rcases hs with h1 | h1 | h1 | h1
          · rw [hc.2.1] at h1; cases h1
          · simp [h1] at hd
          · simp [h1] at hd
          · simp [h1.1, h1.2] at hd
      · cases hsp
    · exact ⟨upd_other _ _ (fun e' => e e'.symm), rfl⟩
  · exact ⟨rfl, rfl⟩

theorem cycle_quiet {s : TS} (h : Inv s) {k : Nat} (hq : (s.xs k).quiet = true) (ks : List Nat) :
    (ks.foldl TS.trySpawn s).xs k = s.xs k ∧ (ks.foldl TS.trySpawn s).nx = s.nx := by
  induction ks generalizing s with
  | nil => exact ⟨rfl, rfl⟩
  | cons j ks ih =>
    have h1 := trySpawn_quiet h hq j
    have := ih (inv_trySpawn h j) (by rw [h1.1]; exact hq)
    simp only [List.foldl_cons]
    rw [this.1, this.2, h1.1, h1.2]
    exact ⟨rfl, rfl⟩

/-- one step of anything that is not a user / peer action on `k` leaves a quiet transfer alone -/
theorem quiet_step {s : TS} (h : Inv s) {k : Nat} (hk : k < s.nx) (hq : (s.xs k).quiet = true) (op : Op)
    (hn : op.addresses k = false) : obs ((step s op).xs k) = obs (s.xs k) ∧ k < (step s op).nx := by
  have hne : ∀ {j : Nat}, (j == k) = false → k ≠ j := by
    intro j hj e
    subst e
    simp at hj
  cases op with
  | addDownload =>
    simp only [step]
    rw [upd_other _ _ (Nat.ne_of_lt hk)]
    exact ⟨rfl, Nat.lt_succ_of_lt hk⟩
  | addUpload =>
    simp only [step]
    rw [upd_other _ _ (Nat.ne_of_lt hk)]
    exact ⟨rfl, Nat.lt_succ_of_lt hk⟩
  | addFailed =>
    simp only [step]
    rw [upd_other _ _ (Nat.ne_of_lt hk)]
    exact ⟨rfl, Nat.lt_succ_of_lt hk⟩
  | cycle ks =>
    have := cycle_quiet h hq ks
    simp only [step]
    rw [this.1, this.2]
    exact ⟨rfl, hk⟩
  | peerRequest j =>
    have e : k ≠ j := hne (by simpa [Op.addresses] using hn)
    have h1 : ∀ (s1 : TS), (s1.spawn j .initDownload).xs k = s1.xs k := fun s1 => upd_other _ _ e
    simp only [step]
    split
    · split
      · split
        · exact ⟨by rw [h1], hk⟩
        · split
          · refine ⟨?_, hk⟩
            rw [h1]
            show obs (upd s.xs j _ k) = obs (s.xs k)
            rw [upd_other _ _ e]
          · exact ⟨rfl, hk⟩
      · split
        · exact ⟨by rw [h1], hk⟩
        · exact ⟨rfl, hk⟩
    · exact ⟨rfl, hk⟩
  | taskStart t =>
    simp only [step]
    split
    · rename_i hp
      have hl : (s.tasks t).live = true := live_phase.mpr (Or.inl hp)
      split
      · exact ⟨rfl, hk⟩
      · rename_i hnc
        have hnc' : (s.tasks t).cancelReq = false := by simpa using hnc
        by_cases e : k = (s.tasks t).xfer
        · -- a task of the quiet transfer that was not cancelled: a late initialisation; it blocks or is refused
          have hq' : (s.xs (s.tasks t).xfer).quiet = true := e ▸ hq
          have hkd := (late_of_quiet h hl hq' hnc').1
          split
          · rename_i hkd'; rw [hkd] at hkd'; cases hkd'
          · rename_i hkd'; rw [hkd] at hkd'; cases hkd'
          · split
            · exact ⟨rfl, hk⟩
            · split
              · rename_i hs; exact (quiet_not_startable h hl hq' hnc' hs).elim
              · exact ⟨rfl, hk⟩
        · split
          · exact ⟨by simp only []; rw [upd_other _ _ e], hk⟩
          · exact ⟨by simp only []; rw [upd_other _ _ e], hk⟩
          · split
            · exact ⟨rfl, hk⟩
            · split
              · exact ⟨by simp only []; rw [upd_other _ _ e], hk⟩
              · exact ⟨rfl, hk⟩
    · exact ⟨rfl, hk⟩
  | taskEnd t o =>
    simp only [step]
    split
    · rename_i hp
      have hl : (s.tasks t).live = true := live_phase.mpr (Or.inr (Or.inl hp))
      split
      · exact ⟨rfl, hk⟩
      · rename_i hnc
        have hnc' : (s.tasks t).cancelReq = false := by simpa using hnc
        have hne' : k ≠ (s.tasks t).xfer := by
          intro e
          have hq' : (s.xs (s.tasks t).xfer).quiet = true := e ▸ hq
          rcases (late_of_quiet h hl hq' hnc').2 with h1 | h1 | h1 <;> rw [hp] at h1 <;> cases h1
        split <;> exact ⟨by simp only []; rw [upd_other _ _ hne'], hk⟩
    · split
      · exact ⟨rfl, hk⟩
      · split
        · exact ⟨rfl, hk⟩
        · exact ⟨rfl, hk⟩
  | doneCallback t =>
    simp only [step]
    split
    · refine ⟨?_, hk⟩
      simp only []
      by_cases e : k = (s.tasks t).xfer
      · subst e
        rw [upd_same]
        split <;> split <;> rfl
      · rw [upd_other _ _ e]
    · exact ⟨rfl, hk⟩
  | call j c =>
    have e : k ≠ j := hne (by simpa [Op.addresses] using hn)
    simp only [step]
    split
    · exact ⟨by simp only []; rw [upd_other _ _ e]; rfl, hk⟩
    · exact ⟨rfl, hk⟩
  | removeMid j =>
    have e : k ≠ j := hne (by simpa [Op.addresses] using hn)
    simp only [step]
    split
    · exact ⟨by simp only []; rw [upd_other _ _ e]; rfl, hk⟩
    · exact ⟨rfl, hk⟩
  | callResume j =>
    have e : k ≠ j := hne (by simpa [Op.addresses] using hn)
    simp only [step]
    split
    · split
      · exact ⟨by simp only []; rw [upd_other _ _ e], hk⟩
      · exact ⟨rfl, hk⟩
    · exact ⟨rfl, hk⟩
  | requeue j =>
    have e : k ≠ j := hne (by simpa [Op.addresses] using hn)
    simp only [step]
    split
    · exact ⟨by simp only []; rw [upd_other _ _ e], hk⟩
    · exact ⟨rfl, hk⟩
  | peerFail j =>
    have e : k ≠ j := hne (by simpa [Op.addresses] using hn)
    simp only [step]
    split
    · exact ⟨by simp only []; rw [upd_other _ _ e], hk⟩
    · exact ⟨rfl, hk⟩
  | peerUploadFailed j =>
    have e : k ≠ j := hne (by simpa [Op.addresses] using hn)
    simp only [step]
    split
    · exact ⟨by simp only []; rw [upd_other _ _ e], hk⟩
    · exact ⟨rfl, hk⟩
  | peerQueueStart j =>
    have e : k ≠ j := hne (by simpa [Op.addresses] using hn)
    simp only [step]
    split
    · exact ⟨by simp only []; rw [upd_other _ _ e], hk⟩
    · exact ⟨rfl, hk⟩
  | peerQueueEnd j =>
    -- a handler that found the transfer before the call returned and is resumed now: the transfer is quiet, i.e. it left
    -- the list (not touched) or is ABORTED / PAUSED / a FAILED download (nothing the handler re-queues)
    simp only [step]
    split
    · by_cases e : k = j
      · subst e
        split
        · rename_i hc
          exfalso
          rcases h.quietSt k hq with h1 | h1 | h1 | h1
          · rw [hc.1] at h1; cases h1
          · rcases hc.2.2.2 with h2 | h2 <;> rw [h1] at h2 <;> cases h2
          · rcases hc.2.2.2 with h2 | h2 <;> rw [h1] at h2 <;> cases h2
          · rw [hc.2.2.1] at h1; cases h1.2.2
        · exact ⟨by simp only []; rw [upd_same]; rfl, hk⟩
      · split
        · exact ⟨by simp only []; rw [upd_other _ _ e], hk⟩
        · exact ⟨by simp only []; rw [upd_other _ _ e], hk⟩
    · exact ⟨rfl, hk⟩

theorem quiet_foldl {s : TS} (h : Inv s) {k : Nat} (hk : k < s.nx) (hq : (s.xs k).quiet = true) (ops' : List Op)
    (hn : ∀ op ∈ ops', op.addresses k = false) :
    obs ((ops'.foldl step s).xs k) = obs (s.xs k) ∧
      ∀ t, ((ops'.foldl step s).tasks t).live = true → ((ops'.foldl step s).tasks t).xfer = k →
        Inert ((ops'.foldl step s).tasks t) := by
  induction ops' generalizing s with
  | nil => exact ⟨rfl, h.quietInert k hq⟩
  | cons op ops ih =>
    have h1 := quiet_step h hk hq op (hn op List.mem_cons_self)
    have hq' : ((step s op).xs k).quiet = true := by
      have : ((step s op).xs k).quiet = (s.xs k).quiet := congrArg (fun o => o.2.2.2.2.2) h1.1
      rw [this]; exact hq
    have := ih (inv_step h op) h1.2 hq' (fun o ho => hn o (List.mem_cons_of_mem _ ho))
    exact ⟨this.1.trans h1.1, this.2⟩

end AioslskVerif.Tasks
