import AioslskVerif.Model.XferTasks
/-!
Invariant of the task model (C06) and its preservation by every op.
-/
namespace AioslskVerif.Tasks
open AioslskVerif.Sched (St Dir)

@[simp] theorem upd_same {α} (f : Nat → α) (k : Nat) (v : α) : upd f k v k = v := by simp [upd]
theorem upd_other {α} (f : Nat → α) {k i : Nat} (v : α) (h : i ≠ k) : upd f k v i = f i := by simp [upd, h]

structure Inv (s : TS) : Prop where
  /-- no task beyond the counter is alive, every live task belongs to an existing transfer -/
  fresh : ∀ t, s.nt ≤ t → (s.tasks t).live = false
  bound : ∀ t, (s.tasks t).live = true → (s.tasks t).xfer < s.nx
  /-- single flight: a live task is the one its transfer's slot holds -/
  single : ∀ t, (s.tasks t).live = true → (s.xs (s.tasks t).xfer).slotOf (s.tasks t).kind = some t
  /-- a call in progress waits for every live task of its transfer -/
  waits : ∀ k, (s.xs k).locked ≠ none → ∀ t, (s.tasks t).live = true → (s.tasks t).xfer = k → t ∈ (s.xs k).waitFor
  /-- after a call returned nothing is alive for the transfer -/
  quietDead : ∀ k, (s.xs k).quiet = true → ∀ t, (s.tasks t).live = true → (s.tasks t).xfer ≠ k
  quietSt : ∀ k, (s.xs k).quiet = true → (s.xs k).removed = true ∨ (s.xs k).st = .aborted ∨ (s.xs k).st = .paused ∨ (s.xs k).st = .failed

theorem inv_init : Inv {} := by
  constructor <;> intros <;> simp_all [Task.live]

/-- tasks only die, transfers keep slots / lock / ghost flags, quiet transfers keep their state -/
theorem Inv.frame {s s' : TS} (h : Inv s) (hnx : s'.nx = s.nx) (hnt : s'.nt = s.nt)
    (htask : ∀ t, (s'.tasks t).live = true →
      (s.tasks t).live = true ∧ (s'.tasks t).xfer = (s.tasks t).xfer ∧ (s'.tasks t).kind = (s.tasks t).kind)
    (hx : ∀ k, (s'.xs k).rqSlot = (s.xs k).rqSlot ∧ (s'.xs k).ttSlot = (s.xs k).ttSlot ∧
      (s'.xs k).locked = (s.xs k).locked ∧ (s'.xs k).waitFor = (s.xs k).waitFor ∧
      (s'.xs k).quiet = (s.xs k).quiet ∧ (s'.xs k).removed = (s.xs k).removed)
    (hst : ∀ k, (s.xs k).quiet = true → (s'.xs k).st = (s.xs k).st) : Inv s' := by
  have hslot : ∀ k kd, (s'.xs k).slotOf kd = (s.xs k).slotOf kd := by
    intro k kd
    cases kd <;> simp [XT.slotOf, (hx k).1, (hx k).2.1]
  constructor
  · intro t ht
    rw [hnt] at ht
    cases hl : (s'.tasks t).live
    · rfl
    · have := (htask t hl).1
      rw [h.fresh t ht] at this
      cases this
  · intro t hl
    obtain ⟨h1, h2, _⟩ := htask t hl
    rw [h2, hnx]
    exact h.bound t h1
  · intro t hl
    obtain ⟨h1, h2, h3⟩ := htask t hl
    rw [h2, h3, hslot]
    exact h.single t h1
  · intro k hk t hl hxf
    obtain ⟨h1, h2, _⟩ := htask t hl
    rw [(hx k).2.2.2.1]
    rw [(hx k).2.2.1] at hk
    exact h.waits k hk t h1 (h2 ▸ hxf)
  · intro k hq t hl
    obtain ⟨h1, h2, _⟩ := htask t hl
    rw [(hx k).2.2.2.2.1] at hq
    rw [h2]
    exact h.quietDead k hq t h1
  · intro k hq
    rw [(hx k).2.2.2.2.1] at hq
    rw [(hx k).2.2.2.2.2, hst k hq]
    exact h.quietSt k hq

theorem slotFree_dead {s : TS} (h : Inv s) {k : Nat} {kd : TKind} (hf : s.slotFree ((s.xs k).slotOf kd) = true)
    {t : Nat} (hl : (s.tasks t).live = true) (hx : (s.tasks t).xfer = k)
    (hk : (s.xs k).slotOf (s.tasks t).kind = (s.xs k).slotOf kd) : False := by
  have := h.single t hl
  rw [hx, hk] at this
  rw [this] at hf
  simp [TS.slotFree, hl] at hf

/-- creating a task for `k` in a free slot -/
theorem inv_spawn {s : TS} (h : Inv s) {k : Nat} {kd : TKind} (hk : k < s.nx)
    (hf : s.slotFree ((s.xs k).slotOf kd) = true) (hlock : (s.xs k).locked = none)
    (hq : (s.xs k).quiet = false) : Inv (s.spawn k kd) := by
  have hnew : ∀ t, t ≠ s.nt → (s.spawn k kd).tasks t = s.tasks t := fun t ht => upd_other _ _ ht
  have hme : (s.spawn k kd).tasks s.nt = { xfer := k, kind := kd, phase := .created } := upd_same _ _ _
  have hxo : ∀ j, j ≠ k → (s.spawn k kd).xs j = s.xs j := fun j hj => upd_other _ _ hj
  have hnt : (s.spawn k kd).nt = s.nt + 1 := rfl
  have hnx : (s.spawn k kd).nx = s.nx := rfl
  have hkeep : ((s.spawn k kd).xs k).locked = (s.xs k).locked ∧ ((s.spawn k kd).xs k).waitFor = (s.xs k).waitFor ∧
      ((s.spawn k kd).xs k).quiet = (s.xs k).quiet ∧ ((s.spawn k kd).xs k).removed = (s.xs k).removed ∧
      ((s.spawn k kd).xs k).st = (s.xs k).st := by
    cases kd <;> simp [TS.spawn]
  have hslot_me : ((s.spawn k kd).xs k).slotOf kd = some s.nt := by
    cases kd <;> simp [TS.spawn, XT.slotOf]
  constructor
  · intro t ht
    rw [hnt] at ht
    rw [hnew t (by omega)]
    exact h.fresh t (by omega)
  · intro t hl
    by_cases ht : t = s.nt
    · subst ht; rw [hme]; exact hk
    · rw [hnew t ht] at hl ⊢; exact h.bound t hl
  · intro t hl
    by_cases ht : t = s.nt
    · subst ht; rw [hme]; exact hslot_me
    · rw [hnew t ht] at hl ⊢
      by_cases hx : (s.tasks t).xfer = k
      · rw [hx]
        have hs := h.single t hl
        rw [hx] at hs
        -- same slot class would contradict the free slot
        cases kd <;> cases hkd : (s.tasks t).kind <;> simp only [XT.slotOf, hkd, TS.spawn, upd_same] at hs ⊢ <;>
          first
          | exact hs
          | (exfalso; exact slotFree_dead h hf hl hx (by simp [XT.slotOf, hkd]))
      · rw [hxo _ hx]; exact h.single t hl
  · intro j hj t hl hxf
    by_cases ht : t = s.nt
    · subst ht
      rw [hme] at hxf
      simp only at hxf
      subst hxf
      rw [hkeep.1] at hj
      exact absurd hlock hj
    · rw [hnew t ht] at hl hxf
      by_cases hjk : j = k
      · subst hjk; rw [hkeep.1] at hj; exact absurd hlock hj
      · rw [hxo j hjk] at hj ⊢; exact h.waits j hj t hl hxf
  · intro j hj t hl
    by_cases hjk : j = k
    · subst hjk; rw [hkeep.2.2.1, hq] at hj; cases hj
    · rw [hxo j hjk] at hj
      by_cases ht : t = s.nt
      · subst ht; rw [hme]; exact fun e => hjk e.symm
      · rw [hnew t ht] at hl ⊢; exact h.quietDead j hj t hl
  · intro j hj
    by_cases hjk : j = k
    · subst hjk; rw [hkeep.2.2.1, hq] at hj; cases hj
    · rw [hxo j hjk] at hj ⊢; exact h.quietSt j hj

theorem not_quiet_of_spawnable {s : TS} (h : Inv s) {k : Nat}
    (hr : (s.xs k).removed = false) (hs : (s.xs k).st = .queued ∨ (s.xs k).st = .incomplete) : (s.xs k).quiet = false := by
  cases hq : (s.xs k).quiet
  · rfl
  · rcases h.quietSt k hq with h1 | h1 | h1 | h1
    · rw [hr] at h1; cases h1
    · rcases hs with h2 | h2 <;> rw [h2] at h1 <;> cases h1
    · rcases hs with h2 | h2 <;> rw [h2] at h1 <;> cases h1
    · rcases hs with h2 | h2 <;> rw [h2] at h1 <;> cases h1

theorem inv_trySpawn {s : TS} (h : Inv s) (k : Nat) : Inv (s.trySpawn k) := by
  unfold TS.trySpawn
  split
  · rename_i kd hsp
    unfold TS.spawnable at hsp
    simp only at hsp
    split at hsp
    · rename_i hc
      obtain ⟨hk, hr, hl⟩ := hc
      split at hsp
      · split at hsp
        · rename_i hd
          cases hsp
          exact inv_spawn h hk (by simpa [XT.slotOf] using hd.2.2) hl (not_quiet_of_spawnable h hr hd.1)
        · cases hsp
      · split at hsp
        · rename_i hd
          cases hsp
          exact inv_spawn h hk (by simpa [XT.slotOf] using hd.2) hl (not_quiet_of_spawnable h hr (Or.inl hd.1))
        · cases hsp
    · cases hsp
  · exact h

theorem inv_cycle {s : TS} (h : Inv s) (ks : List Nat) : Inv (ks.foldl TS.trySpawn s) := by
  induction ks generalizing s with
  | nil => exact h
  | cons k ks ih => exact ih (inv_trySpawn h k)

theorem live_phase {t : Task} : t.live = true ↔ (t.phase = .created ∨ t.phase = .running) := by
  cases t with | mk x k p c => cases p <;> simp [Task.live]

/-- a task step: the task `t` (live) changes phase; its transfer changes state / counters only -/
theorem inv_taskUpdate {s : TS} (h : Inv s) (t : Nat) (hl : (s.tasks t).live = true) (tk' : Task) (x' : XT)
    (htk : tk'.xfer = (s.tasks t).xfer ∧ tk'.kind = (s.tasks t).kind)
    (hx' : x'.rqSlot = (s.xs (s.tasks t).xfer).rqSlot ∧ x'.ttSlot = (s.xs (s.tasks t).xfer).ttSlot ∧
      x'.locked = (s.xs (s.tasks t).xfer).locked ∧ x'.waitFor = (s.xs (s.tasks t).xfer).waitFor ∧
      x'.quiet = (s.xs (s.tasks t).xfer).quiet ∧ x'.removed = (s.xs (s.tasks t).xfer).removed) :
    Inv { s with tasks := upd s.tasks t tk', xs := upd s.xs (s.tasks t).xfer x' } := by
  refine Inv.frame h rfl rfl ?_ ?_ ?_
  · intro u hu
    by_cases e : u = t
    · subst e
      simp only [upd_same] at hu ⊢
      exact ⟨hl, htk.1, htk.2⟩
    · simp only [upd_other _ _ e] at hu ⊢
      simp [hu]
  · intro k
    by_cases e : k = (s.tasks t).xfer
    · subst e; simp only [upd_same]; exact hx'
    · simp [upd_other _ _ e]
  · intro k hq
    by_cases e : k = (s.tasks t).xfer
    · exact absurd e.symm (h.quietDead k hq t hl)
    · simp only [upd_other _ _ e]

/-- a task only changes phase (cancelled before start / at its await) -/
theorem inv_taskOnly {s : TS} (h : Inv s) (t : Nat) (tk' : Task)
    (htk : tk'.xfer = (s.tasks t).xfer ∧ tk'.kind = (s.tasks t).kind) (hl : tk'.live = true → (s.tasks t).live = true) :
    Inv { s with tasks := upd s.tasks t tk' } := by
  refine Inv.frame h rfl rfl ?_ ?_ ?_
  · intro u hu
    by_cases e : u = t
    · subst e
      simp only [upd_same] at hu ⊢
      exact ⟨hl hu, htk.1, htk.2⟩
    · simp only [upd_other _ _ e] at hu ⊢
      simp [hu]
  · intro k; exact ⟨rfl, rfl, rfl, rfl, rfl, rfl⟩
  · intro k _; rfl

theorem bump_fields (x : XT) : (bump x).rqSlot = x.rqSlot ∧ (bump x).ttSlot = x.ttSlot ∧ (bump x).locked = x.locked ∧
    (bump x).waitFor = x.waitFor ∧ (bump x).quiet = x.quiet ∧ (bump x).removed = x.removed :=
  ⟨rfl, rfl, rfl, rfl, rfl, rfl⟩

theorem inv_taskStart {s : TS} (h : Inv s) (t : Nat) : Inv (step s (.taskStart t)) := by
  simp only [step]
  split
  · rename_i hp
    have hl : (s.tasks t).live = true := live_phase.mpr (Or.inl hp)
    split
    · refine inv_taskOnly h t _ ?_ ?_
      · exact ⟨rfl, rfl⟩
      · intro hc; simp [Task.live] at hc
    · refine inv_taskUpdate h t hl _ _ ?_ ?_
      · exact ⟨rfl, rfl⟩
      split
      · exact bump_fields _
      · split <;> exact ⟨rfl, rfl, rfl, rfl, rfl, rfl⟩
  · exact h

theorem inv_taskEnd {s : TS} (h : Inv s) (t : Nat) (o : Outcome) : Inv (step s (.taskEnd t o)) := by
  simp only [step]
  split
  · rename_i hp
    have hl : (s.tasks t).live = true := live_phase.mpr (Or.inr hp)
    split
    · refine inv_taskOnly h t _ ?_ ?_
      · exact ⟨rfl, rfl⟩
      · intro hc; simp [Task.live] at hc
    · split
      · refine inv_taskUpdate h t hl _ _ ?_ ?_
        · exact ⟨rfl, rfl⟩
        · exact ⟨rfl, rfl, rfl, rfl, rfl, rfl⟩
      · refine inv_taskUpdate h t hl _ _ ?_ ?_
        · exact ⟨rfl, rfl⟩
        · split <;> exact ⟨rfl, rfl, rfl, rfl, rfl, rfl⟩
      · have := inv_taskUpdate h t hl (s.tasks t) (bump (if (s.xs (s.tasks t).xfer).st = .initializing then
            { s.xs (s.tasks t).xfer with
              st := (if (s.xs (s.tasks t).xfer).dir = .upload then .uploading else .downloading), rq := false, attempts := 0 }
            else s.xs (s.tasks t).xfer)) ⟨rfl, rfl⟩ (by split <;> exact ⟨rfl, rfl, rfl, rfl, rfl, rfl⟩)
        have e : upd s.tasks t (s.tasks t) = s.tasks := by
          funext i; by_cases hi : i = t <;> simp [upd, hi]
        rw [e] at this
        exact this
      · refine inv_taskUpdate h t hl _ _ ?_ ?_
        · exact ⟨rfl, rfl⟩
        · split <;> exact ⟨rfl, rfl, rfl, rfl, rfl, rfl⟩
      · refine inv_taskUpdate h t hl _ _ ?_ ?_
        · exact ⟨rfl, rfl⟩
        · split <;> exact ⟨rfl, rfl, rfl, rfl, rfl, rfl⟩
      · refine inv_taskUpdate h t hl _ _ ?_ ?_
        · exact ⟨rfl, rfl⟩
        · split <;> exact ⟨rfl, rfl, rfl, rfl, rfl, rfl⟩
      · refine inv_taskUpdate h t hl _ _ ?_ ?_
        · exact ⟨rfl, rfl⟩
        · split <;> exact ⟨rfl, rfl, rfl, rfl, rfl, rfl⟩
  · exact h

theorem inv_done_generic {s : TS} (h : Inv s) (t : Nat) (tk' : Task) (hdead' : tk'.live = false) (x' : XT)
    (hkeep : x'.locked = (s.xs (s.tasks t).xfer).locked ∧ x'.waitFor = (s.xs (s.tasks t).xfer).waitFor ∧
        x'.quiet = (s.xs (s.tasks t).xfer).quiet ∧ x'.removed = (s.xs (s.tasks t).xfer).removed ∧
        x'.st = (s.xs (s.tasks t).xfer).st)
    (hslot : ∀ kd u, u ≠ t → (s.xs (s.tasks t).xfer).slotOf kd = some u → x'.slotOf kd = some u) :
    Inv { s with tasks := upd s.tasks t tk', xs := upd s.xs (s.tasks t).xfer x' } := by
  have htasks : ∀ u, u ≠ t → upd s.tasks t tk' u = s.tasks u := fun u hu => upd_other _ _ hu
  have hme : (upd s.tasks t tk' t).live = false := by rw [upd_same]; exact hdead'
  constructor
  · intro u hu
    show (upd s.tasks t tk' u).live = false
    by_cases e : u = t
    · subst e; exact hme
    · rw [htasks u e]; exact h.fresh u hu
  · intro u hl
    change (upd s.tasks t tk' u).live = true at hl
    show (upd s.tasks t tk' u).xfer < s.nx
    by_cases e : u = t
    · subst e; rw [hme] at hl; cases hl
    · rw [htasks u e] at hl ⊢; exact h.bound u hl
  · intro u hl
    change (upd s.tasks t tk' u).live = true at hl
    show (upd s.xs (s.tasks t).xfer x' (upd s.tasks t tk' u).xfer).slotOf (upd s.tasks t tk' u).kind = some u
    by_cases e : u = t
    · subst e; rw [hme] at hl; cases hl
    · rw [htasks u e] at hl ⊢
      by_cases ex : (s.tasks u).xfer = (s.tasks t).xfer
      · rw [ex, upd_same]
        have := h.single u hl
        rw [ex] at this
        exact hslot _ u e this
      · rw [upd_other _ _ ex]; exact h.single u hl
  · intro k hk u hl hxf
    change (upd s.tasks t tk' u).live = true at hl
    change (upd s.tasks t tk' u).xfer = k at hxf
    change (upd s.xs (s.tasks t).xfer x' k).locked ≠ none at hk
    show u ∈ (upd s.xs (s.tasks t).xfer x' k).waitFor
    by_cases e : u = t
    · subst e; rw [hme] at hl; cases hl
    · rw [htasks u e] at hl hxf
      by_cases ek : k = (s.tasks t).xfer
      · subst ek
        rw [upd_same] at hk ⊢
        rw [hkeep.1] at hk; rw [hkeep.2.1]
        exact h.waits _ hk u hl hxf
      · rw [upd_other _ _ ek] at hk ⊢
        exact h.waits k hk u hl hxf
  · intro k hq u hl
    change (upd s.tasks t tk' u).live = true at hl
    change (upd s.xs (s.tasks t).xfer x' k).quiet = true at hq
    show (upd s.tasks t tk' u).xfer ≠ k
    by_cases e : u = t
    · subst e; rw [hme] at hl; cases hl
    · rw [htasks u e] at hl ⊢
      by_cases ek : k = (s.tasks t).xfer
      · subst ek; rw [upd_same, hkeep.2.2.1] at hq; exact h.quietDead _ hq u hl
      · rw [upd_other _ _ ek] at hq; exact h.quietDead k hq u hl
  · intro k hq
    change (upd s.xs (s.tasks t).xfer x' k).quiet = true at hq
    show (upd s.xs (s.tasks t).xfer x' k).removed = true ∨ (upd s.xs (s.tasks t).xfer x' k).st = .aborted ∨
      (upd s.xs (s.tasks t).xfer x' k).st = .paused ∨ (upd s.xs (s.tasks t).xfer x' k).st = .failed
    by_cases ek : k = (s.tasks t).xfer
    · subst ek; rw [upd_same] at hq ⊢; rw [hkeep.2.2.1] at hq; rw [hkeep.2.2.2.1, hkeep.2.2.2.2]; exact h.quietSt _ hq
    · rw [upd_other _ _ ek] at hq ⊢; exact h.quietSt k hq

theorem inv_doneCallback {s : TS} (h : Inv s) (t : Nat) : Inv (step s (.doneCallback t)) := by
  simp only [step]
  split
  · refine inv_done_generic h t _ ?_ _ ?_ ?_
    · simp [Task.live]
    · split <;> split <;> exact ⟨rfl, rfl, rfl, rfl, rfl⟩
    · intro kd u hu hs
      cases kd <;> split <;> simp only [XT.slotOf] at hs ⊢ <;> split <;> simp_all
  · exact h

theorem mem_liveIn {s : TS} {o : Option Nat} {t : Nat} (ho : o = some t) (hl : (s.tasks t).live = true) : t ∈ liveIn s o := by
  subst ho; simp [liveIn, hl]

theorem cancelSlots_task (s : TS) (k t : Nat) :
    ((s.cancelSlots k).tasks t).live = (s.tasks t).live ∧ ((s.cancelSlots k).tasks t).xfer = (s.tasks t).xfer ∧
      ((s.cancelSlots k).tasks t).kind = (s.tasks t).kind := by
  unfold TS.cancelSlots
  simp only
  split <;> simp [Task.live]

theorem inv_call {s : TS} (h : Inv s) (k : Nat) (c : CallKind) : Inv (step s (.call k c)) := by
  simp only [step]
  split
  · rename_i hc
    obtain ⟨_, hr, _, _⟩ := hc
    have hxs : (s.cancelSlots k).xs = s.xs := rfl
    have hnt : (s.cancelSlots k).nt = s.nt := rfl
    have hnx : (s.cancelSlots k).nx = s.nx := rfl
    constructor
    · intro t ht
      show ((s.cancelSlots k).tasks t).live = false
      rw [(cancelSlots_task s k t).1]; exact h.fresh t ht
    · intro t hl
      change ((s.cancelSlots k).tasks t).live = true at hl
      show ((s.cancelSlots k).tasks t).xfer < s.nx
      rw [(cancelSlots_task s k t).1] at hl
      rw [(cancelSlots_task s k t).2.1]; exact h.bound t hl
    · intro t hl
      change ((s.cancelSlots k).tasks t).live = true at hl
      rw [(cancelSlots_task s k t).1] at hl
      show (upd s.xs k _ ((s.cancelSlots k).tasks t).xfer).slotOf ((s.cancelSlots k).tasks t).kind = some t
      rw [(cancelSlots_task s k t).2.1, (cancelSlots_task s k t).2.2]
      by_cases e : (s.tasks t).xfer = k
      · rw [e, upd_same]
        have := h.single t hl
        rw [e] at this
        cases hk : (s.tasks t).kind <;> simp only [XT.slotOf, hk] at this ⊢ <;> exact this
      · rw [upd_other _ _ e]; exact h.single t hl
    · intro j hj t hl hxf
      change ((s.cancelSlots k).tasks t).live = true at hl
      change ((s.cancelSlots k).tasks t).xfer = j at hxf
      rw [(cancelSlots_task s k t).1] at hl
      rw [(cancelSlots_task s k t).2.1] at hxf
      show t ∈ (upd s.xs k _ j).waitFor
      by_cases e : j = k
      · subst e
        rw [upd_same]
        have := h.single t hl
        rw [hxf] at this
        simp only [List.mem_append]
        cases hk : (s.tasks t).kind <;> simp only [XT.slotOf, hk] at this
        · exact Or.inl (mem_liveIn this hl)
        · exact Or.inr (mem_liveIn this hl)
        · exact Or.inr (mem_liveIn this hl)
      · change (upd s.xs k _ j).locked ≠ none at hj
        rw [upd_other _ _ e] at hj ⊢
        exact h.waits j hj t hl hxf
    · intro j hq t hl
      change ((s.cancelSlots k).tasks t).live = true at hl
      rw [(cancelSlots_task s k t).1] at hl
      show ((s.cancelSlots k).tasks t).xfer ≠ j
      rw [(cancelSlots_task s k t).2.1]
      change (upd s.xs k _ j).quiet = true at hq
      by_cases e : j = k
      · subst e; rw [upd_same] at hq; exact h.quietDead _ hq t hl
      · rw [upd_other _ _ e] at hq; exact h.quietDead j hq t hl
    · intro j hq
      change (upd s.xs k _ j).quiet = true at hq
      show (upd s.xs k _ j).removed = true ∨ (upd s.xs k _ j).st = .aborted ∨ (upd s.xs k _ j).st = .paused ∨ (upd s.xs k _ j).st = .failed
      by_cases e : j = k
      · subst e
        rw [upd_same] at hq ⊢
        rcases h.quietSt _ hq with h1 | h1 | h1 | h1
        · rw [hr] at h1; cases h1
        · exact Or.inr (Or.inl h1)
        · exact Or.inr (Or.inr (Or.inl h1))
        · exact Or.inr (Or.inr (Or.inr h1))
      · rw [upd_other _ _ e] at hq ⊢; exact h.quietSt j hq
  · exact h

theorem inv_callResume {s : TS} (h : Inv s) (k : Nat) : Inv (step s (.callResume k)) := by
  simp only [step]
  split
  · rename_i c hc
    split
    · rename_i hw
      have hnone : ∀ t, (s.tasks t).live = true → (s.tasks t).xfer ≠ k := by
        intro t hl e
        have hm := h.waits k (by rw [hc]; simp) t hl e
        have := List.all_eq_true.mp hw t hm
        simp [hl] at this
      constructor
      · exact h.fresh
      · exact h.bound
      · intro t hl
        show (upd s.xs k _ (s.tasks t).xfer).slotOf (s.tasks t).kind = some t
        rw [upd_other _ _ (hnone t hl)]; exact h.single t hl
      · intro j hj t hl hxf
        show t ∈ (upd s.xs k _ j).waitFor
        change (upd s.xs k _ j).locked ≠ none at hj
        by_cases e : j = k
        · subst e; rw [upd_same] at hj; exact absurd rfl hj
        · rw [upd_other _ _ e] at hj ⊢; exact h.waits j hj t hl hxf
      · intro j hq t hl
        change (upd s.xs k _ j).quiet = true at hq
        by_cases e : j = k
        · subst e; exact hnone t hl
        · rw [upd_other _ _ e] at hq; exact h.quietDead j hq t hl
      · intro j hq
        change (upd s.xs k _ j).quiet = true at hq
        show (upd s.xs k _ j).removed = true ∨ (upd s.xs k _ j).st = .aborted ∨ (upd s.xs k _ j).st = .paused ∨ (upd s.xs k _ j).st = .failed
        by_cases e : j = k
        · subst e
          rw [upd_same]
          cases hr : (s.xs j).removed
          · simp only [Bool.false_or, if_false, Bool.false_eq_true]
            by_cases hp : c = .pause
            · exact Or.inr (Or.inr (Or.inl (by simp [hp])))
            · exact Or.inr (Or.inl (by simp [hp]))
          · exact Or.inl (by simp [hr])
        · rw [upd_other _ _ e] at hq ⊢; exact h.quietSt j hq
    · exact h
  · exact h

theorem inv_requeue {s : TS} (h : Inv s) (k : Nat) : Inv (step s (.requeue k)) := by
  simp only [step]
  split
  · rename_i hc
    constructor
    · exact h.fresh
    · exact h.bound
    · intro t hl
      show (upd s.xs k _ (s.tasks t).xfer).slotOf (s.tasks t).kind = some t
      by_cases e : (s.tasks t).xfer = k
      · rw [e, upd_same]
        have := h.single t hl
        rw [e] at this
        cases hk : (s.tasks t).kind <;> simp only [XT.slotOf, hk] at this ⊢ <;> exact this
      · rw [upd_other _ _ e]; exact h.single t hl
    · intro j hj t hl hxf
      show t ∈ (upd s.xs k _ j).waitFor
      change (upd s.xs k _ j).locked ≠ none at hj
      by_cases e : j = k
      · subst e; rw [upd_same] at hj; exact absurd hc.2.2.1 hj
      · rw [upd_other _ _ e] at hj ⊢; exact h.waits j hj t hl hxf
    · intro j hq t hl
      change (upd s.xs k _ j).quiet = true at hq
      by_cases e : j = k
      · subst e; rw [upd_same] at hq; cases hq
      · rw [upd_other _ _ e] at hq; exact h.quietDead j hq t hl
    · intro j hq
      change (upd s.xs k _ j).quiet = true at hq
      show (upd s.xs k _ j).removed = true ∨ (upd s.xs k _ j).st = .aborted ∨ (upd s.xs k _ j).st = .paused ∨ (upd s.xs k _ j).st = .failed
      by_cases e : j = k
      · subst e; rw [upd_same] at hq; cases hq
      · rw [upd_other _ _ e] at hq ⊢; exact h.quietSt j hq
  · exact h

theorem inv_add {s : TS} (h : Inv s) (x : XT) (hx : x.rqSlot = none ∧ x.ttSlot = none ∧ x.locked = none ∧ x.quiet = false) :
    Inv { s with xs := upd s.xs s.nx x, nx := s.nx + 1 } := by
  have hne : ∀ t, (s.tasks t).live = true → (s.tasks t).xfer ≠ s.nx := fun t hl => Nat.ne_of_lt (h.bound t hl)
  constructor
  · exact h.fresh
  · intro t hl; exact Nat.lt_succ_of_lt (h.bound t hl)
  · intro t hl
    show (upd s.xs s.nx x (s.tasks t).xfer).slotOf (s.tasks t).kind = some t
    rw [upd_other _ _ (hne t hl)]; exact h.single t hl
  · intro j hj t hl hxf
    show t ∈ (upd s.xs s.nx x j).waitFor
    change (upd s.xs s.nx x j).locked ≠ none at hj
    by_cases e : j = s.nx
    · subst e; rw [upd_same] at hj; exact absurd hx.2.2.1 hj
    · rw [upd_other _ _ e] at hj ⊢; exact h.waits j hj t hl hxf
  · intro j hq t hl
    change (upd s.xs s.nx x j).quiet = true at hq
    by_cases e : j = s.nx
    · subst e; exact hne t hl
    · rw [upd_other _ _ e] at hq; exact h.quietDead j hq t hl
  · intro j hq
    change (upd s.xs s.nx x j).quiet = true at hq
    show (upd s.xs s.nx x j).removed = true ∨ (upd s.xs s.nx x j).st = .aborted ∨ (upd s.xs s.nx x j).st = .paused ∨ (upd s.xs s.nx x j).st = .failed
    by_cases e : j = s.nx
    · subst e; rw [upd_same, hx.2.2.2] at hq; cases hq
    · rw [upd_other _ _ e] at hq ⊢; exact h.quietSt j hq

/-- transfer `k` gets new state / flags, keeps its slots, is not locked and not quiet afterwards -/
theorem inv_reset {s : TS} (h : Inv s) (k : Nat) (x' : XT) (h1 : x'.rqSlot = (s.xs k).rqSlot)
    (h2 : x'.ttSlot = (s.xs k).ttSlot) (h3 : x'.locked = none) (h4 : x'.quiet = false) :
    Inv { s with xs := upd s.xs k x' } := by
  constructor
  · exact h.fresh
  · exact h.bound
  · intro t hl
    show (upd s.xs k x' (s.tasks t).xfer).slotOf (s.tasks t).kind = some t
    by_cases e : (s.tasks t).xfer = k
    · rw [e, upd_same]
      have := h.single t hl
      rw [e] at this
      cases hk : (s.tasks t).kind <;> simp only [XT.slotOf, hk, h1, h2] at this ⊢ <;> exact this
    · rw [upd_other _ _ e]; exact h.single t hl
  · intro j hj t hl hxf
    show t ∈ (upd s.xs k x' j).waitFor
    change (upd s.xs k x' j).locked ≠ none at hj
    by_cases e : j = k
    · subst e; rw [upd_same] at hj; exact absurd h3 hj
    · rw [upd_other _ _ e] at hj ⊢; exact h.waits j hj t hl hxf
  · intro j hq t hl
    change (upd s.xs k x' j).quiet = true at hq
    by_cases e : j = k
    · subst e; rw [upd_same, h4] at hq; cases hq
    · rw [upd_other _ _ e] at hq; exact h.quietDead j hq t hl
  · intro j hq
    change (upd s.xs k x' j).quiet = true at hq
    show (upd s.xs k x' j).removed = true ∨ (upd s.xs k x' j).st = .aborted ∨ (upd s.xs k x' j).st = .paused ∨ (upd s.xs k x' j).st = .failed
    by_cases e : j = k
    · subst e; rw [upd_same, h4] at hq; cases hq
    · rw [upd_other _ _ e] at hq ⊢; exact h.quietSt j hq

theorem inv_peerRequest {s : TS} (h : Inv s) (k : Nat) : Inv (step s (.peerRequest k)) := by
  simp only [step]
  split
  · rename_i hc
    obtain ⟨hk, _, hr, hl, hs, hf⟩ := hc
    split
    · -- FAILED: re-queued by the peer first
      have h1 := inv_reset h k { s.xs k with st := .queued, rq := true, quiet := false } rfl rfl hl rfl
      refine inv_spawn h1 hk ?_ ?_ ?_
      · show TS.slotFree _ ((upd s.xs k _ k).slotOf .initDownload) = true
        rw [upd_same]
        simpa [XT.slotOf, TS.slotFree] using hf
      · show (upd s.xs k _ k).locked = none
        rw [upd_same]; exact hl
      · show (upd s.xs k _ k).quiet = false
        rw [upd_same]
    · rename_i hnf
      have hs' : (s.xs k).st = .queued ∨ (s.xs k).st = .incomplete := by
        rcases hs with h1 | h1 | h1
        · exact Or.inl h1
        · exact Or.inr h1
        · exact absurd h1 hnf
      exact inv_spawn h hk (by simpa [XT.slotOf] using hf) hl (not_quiet_of_spawnable h hr hs')
  · exact h

theorem inv_peerFail {s : TS} (h : Inv s) (k : Nat) : Inv (step s (.peerFail k)) := by
  simp only [step]
  split
  · rename_i hc
    constructor
    · exact h.fresh
    · exact h.bound
    · intro t hl
      show (upd s.xs k _ (s.tasks t).xfer).slotOf (s.tasks t).kind = some t
      by_cases e : (s.tasks t).xfer = k
      · rw [e, upd_same]
        have := h.single t hl
        rw [e] at this
        cases hk : (s.tasks t).kind <;> simp only [XT.slotOf, hk] at this ⊢ <;> exact this
      · rw [upd_other _ _ e]; exact h.single t hl
    · intro j hj t hl hxf
      show t ∈ (upd s.xs k _ j).waitFor
      change (upd s.xs k _ j).locked ≠ none at hj
      by_cases e : j = k
      · subst e; rw [upd_same] at hj; exact absurd hc.2.2.2.1 hj
      · rw [upd_other _ _ e] at hj ⊢; exact h.waits j hj t hl hxf
    · intro j hq t hl
      change (upd s.xs k _ j).quiet = true at hq
      by_cases e : j = k
      · subst e; rw [upd_same] at hq; exact h.quietDead _ hq t hl
      · rw [upd_other _ _ e] at hq; exact h.quietDead j hq t hl
    · intro j hq
      change (upd s.xs k _ j).quiet = true at hq
      show (upd s.xs k _ j).removed = true ∨ (upd s.xs k _ j).st = .aborted ∨ (upd s.xs k _ j).st = .paused ∨ (upd s.xs k _ j).st = .failed
      by_cases e : j = k
      · subst e; rw [upd_same]; exact Or.inr (Or.inr (Or.inr rfl))
      · rw [upd_other _ _ e] at hq ⊢; exact h.quietSt j hq
  · exact h

theorem inv_step {s : TS} (h : Inv s) (op : Op) : Inv (step s op) := by
  cases op with
  | addDownload => exact inv_add h _ ⟨rfl, rfl, rfl, rfl⟩
  | addUpload => exact inv_add h _ ⟨rfl, rfl, rfl, rfl⟩
  | cycle ks => exact inv_cycle h ks
  | peerRequest k => exact inv_peerRequest h k
  | taskStart t => exact inv_taskStart h t
  | taskEnd t o => exact inv_taskEnd h t o
  | doneCallback t => exact inv_doneCallback h t
  | call k c => exact inv_call h k c
  | callResume k => exact inv_callResume h k
  | requeue k => exact inv_requeue h k
  | peerFail k => exact inv_peerFail h k

theorem inv_foldl {s : TS} (h : Inv s) (ops : List Op) : Inv (ops.foldl step s) := by
  induction ops generalizing s with
  | nil => exact h
  | cons op ops ih => exact ih (inv_step h op)

theorem inv_run (ops : List Op) : Inv (run ops) := inv_foldl inv_init ops

/-! ### a quiet transfer is left alone -/

/-- the fields the property talks about (state, remotely_queued, queue_attempts, every action of a
background task on behalf of the transfer, membership of the transfer list) -/
def obs (x : XT) : St × Bool × Nat × Nat × Bool × Bool := (x.st, x.rq, x.attempts, x.acts, x.removed, x.quiet)

theorem trySpawn_quiet {s : TS} (h : Inv s) {k : Nat} (hq : (s.xs k).quiet = true) (j : Nat) :
    (s.trySpawn j).xs k = s.xs k ∧ (s.trySpawn j).nx = s.nx := by
  unfold TS.trySpawn
  split
  · rename_i kd hsp
    by_cases e : j = k
    · subst e
      exfalso
      unfold TS.spawnable at hsp
      simp only at hsp
      have hs := h.quietSt j hq
      split at hsp
      · rename_i hc
        split at hsp <;> split at hsp <;> try cases hsp
        all_goals
          rename_i hd
          rcases hs with h1 | h1 | h1 | h1
          · rw [hc.2.1] at h1; cases h1
          · simp [h1] at hd
          · simp [h1] at hd
          · simp [h1] at hd
      · cases hsp
    · exact ⟨upd_other _ _ (fun e' => e e'.symm), rfl⟩
  · exact ⟨rfl, rfl⟩

theorem cycle_quiet {s : TS} (h : Inv s) {k : Nat} (hq : (s.xs k).quiet = true) (ks : List Nat) :
    (ks.foldl TS.trySpawn s).xs k = s.xs k ∧ (ks.foldl TS.trySpawn s).nx = s.nx := by
  induction ks generalizing s with
  | nil => exact ⟨rfl, rfl⟩
  | cons j ks ih =>
    have h1 := trySpawn_quiet h hq j
    have := ih (inv_trySpawn h j) (by rw [h1.1]; exact hq)
    simp only [List.foldl_cons]
    rw [this.1, this.2, h1.1, h1.2]
    exact ⟨rfl, rfl⟩

/-- one step of anything that is not a user / peer action on `k` leaves a quiet transfer alone -/
theorem quiet_step {s : TS} (h : Inv s) {k : Nat} (hk : k < s.nx) (hq : (s.xs k).quiet = true) (op : Op)
    (hn : op.addresses k = false) : obs ((step s op).xs k) = obs (s.xs k) ∧ k < (step s op).nx := by
  have hdead := h.quietDead k hq
  cases op with
  | addDownload =>
    simp only [step]
    rw [upd_other _ _ (Nat.ne_of_lt hk)]
    exact ⟨rfl, Nat.lt_succ_of_lt hk⟩
  | addUpload =>
    simp only [step]
    rw [upd_other _ _ (Nat.ne_of_lt hk)]
    exact ⟨rfl, Nat.lt_succ_of_lt hk⟩
  | cycle ks =>
    have := cycle_quiet h hq ks
    simp only [step]
    rw [this.1, this.2]
    exact ⟨rfl, hk⟩
  | peerRequest j =>
    have e : k ≠ j := by
      have : ¬ j = k := by simpa [Op.addresses] using hn
      exact fun h => this h.symm
    simp only [step]
    split
    · split
      · refine ⟨?_, hk⟩
        have h1 : ∀ (s1 : TS), (s1.spawn j .initDownload).xs k = s1.xs k := fun s1 => upd_other _ _ e
        rw [h1]
        show obs (upd s.xs j _ k) = obs (s.xs k)
        rw [upd_other _ _ e]
      · exact ⟨by rw [show (s.spawn j .initDownload).xs k = s.xs k from upd_other _ _ e], hk⟩
    · exact ⟨rfl, hk⟩
  | taskStart t =>
    simp only [step]
    split
    · rename_i hp
      have hl : (s.tasks t).live = true := live_phase.mpr (Or.inl hp)
      split
      · exact ⟨rfl, hk⟩
      · exact ⟨by simp only []; rw [upd_other _ _ (fun e => hdead t hl e.symm)], hk⟩
    · exact ⟨rfl, hk⟩
  | taskEnd t o =>
    simp only [step]
    split
    · rename_i hp
      have hl : (s.tasks t).live = true := live_phase.mpr (Or.inr hp)
      have hne : k ≠ (s.tasks t).xfer := fun e => hdead t hl e.symm
      split
      · exact ⟨rfl, hk⟩
      · split <;> exact ⟨by simp only []; rw [upd_other _ _ hne], hk⟩
    · exact ⟨rfl, hk⟩
  | doneCallback t =>
    simp only [step]
    split
    · refine ⟨?_, hk⟩
      simp only []
      by_cases e : k = (s.tasks t).xfer
      · subst e
        rw [upd_same]
        split <;> split <;> rfl
      · rw [upd_other _ _ e]
    · exact ⟨rfl, hk⟩
  | call j c =>
    have e : k ≠ j := by
      have : ¬ j = k := by simpa [Op.addresses] using hn
      exact fun h => this h.symm
    simp only [step]
    split
    · exact ⟨by simp only []; rw [upd_other _ _ e]; rfl, hk⟩
    · exact ⟨rfl, hk⟩
  | callResume j =>
    have e : k ≠ j := by
      have : ¬ j = k := by simpa [Op.addresses] using hn
      exact fun h => this h.symm
    simp only [step]
    split
    · split
      · exact ⟨by simp only []; rw [upd_other _ _ e], hk⟩
      · exact ⟨rfl, hk⟩
    · exact ⟨rfl, hk⟩
  | requeue j =>
    have e : k ≠ j := by
      have : ¬ j = k := by simpa [Op.addresses] using hn
      exact fun h => this h.symm
    simp only [step]
    split
    · exact ⟨by simp only []; rw [upd_other _ _ e], hk⟩
    · exact ⟨rfl, hk⟩
  | peerFail j =>
    have e : k ≠ j := by
      have : ¬ j = k := by simpa [Op.addresses] using hn
      exact fun h => this h.symm
    simp only [step]
    split
    · exact ⟨by simp only []; rw [upd_other _ _ e], hk⟩
    · exact ⟨rfl, hk⟩

theorem quiet_foldl {s : TS} (h : Inv s) {k : Nat} (hk : k < s.nx) (hq : (s.xs k).quiet = true) (ops' : List Op)
    (hn : ∀ op ∈ ops', op.addresses k = false) :
    obs ((ops'.foldl step s).xs k) = obs (s.xs k) ∧
      ∀ t, ((ops'.foldl step s).tasks t).live = true → ((ops'.foldl step s).tasks t).xfer ≠ k := by
  induction ops' generalizing s with
  | nil => exact ⟨rfl, h.quietDead k hq⟩
  | cons op ops ih =>
    have h1 := quiet_step h hk hq op (hn op List.mem_cons_self)
    have hq' : ((step s op).xs k).quiet = true := by
      have : ((step s op).xs k).quiet = (s.xs k).quiet := congrArg (fun o => o.2.2.2.2.2) h1.1
      rw [this]; exact hq
    have := ih (inv_step h op) h1.2 hq' (fun o ho => hn o (List.mem_cons_of_mem _ ho))
    exact ⟨this.1.trans h1.1, this.2⟩

end AioslskVerif.Tasks
