import AioslskVerif.Model.Stream
import AioslskVerif.Proofs.Wire
import AioslskVerif.Proofs.Obfs
/-! Helper lemmas for C02: decoder progress, framing. -/
namespace AioslskVerif.Wire

theorem rd8_len {bs : Bytes} {n : Nat} {r : Bytes} (h : rd8 bs = .ok (n, r)) : r.length + 1 = bs.length := by
  cases bs with
  | nil => simp [rd8] at h
  | cons a t => simp [rd8] at h; obtain ⟨_, rfl⟩ := h; simp

theorem rd16_len {bs : Bytes} {n : Nat} {r : Bytes} (h : rd16 bs = .ok (n, r)) : r.length + 2 = bs.length := by
  match bs, h with
  | a :: b :: t, h => simp [rd16] at h; obtain ⟨_, rfl⟩ := h; simp
  | [], h | [_], h => simp [rd16] at h

theorem rd32_len {bs : Bytes} {n : Nat} {r : Bytes} (h : rd32 bs = .ok (n, r)) : r.length + 4 = bs.length := by
  match bs, h with
  | a :: b :: c :: d :: t, h => simp [rd32] at h; obtain ⟨_, rfl⟩ := h; simp
  | [], h | [_], h | [_, _], h | [_, _, _], h => simp [rd32] at h

theorem rd64_len {bs : Bytes} {n : Nat} {r : Bytes} (h : rd64 bs = .ok (n, r)) : r.length + 8 = bs.length := by
  match bs, h with
  | a :: b :: c :: d :: e :: f :: g :: i :: t, h => simp [rd64] at h; obtain ⟨_, rfl⟩ := h; simp
  | [], h | [_], h | [_, _], h | [_, _, _], h | [_, _, _, _], h | [_, _, _, _, _], h
  | [_, _, _, _, _, _], h | [_, _, _, _, _, _, _], h => simp [rd64] at h

theorem bind_ok {α β : Type} {e : Except DErr α} {f : α → Except DErr β} {b : β}
    (h : (e >>= f) = .ok b) : ∃ a, e = .ok a ∧ f a = .ok b := by
  cases e with
  | error x => cases h
  | ok a => exact ⟨a, rfl, h⟩

end AioslskVerif.Wire

namespace AioslskVerif.Wire

mutual
theorem dec_progress : ∀ (t : Ty) (bs : Bytes) (v : Val) (r : Bytes), dec t bs = .ok (v, r) →
    r.length ≤ bs.length ∧ (t.pos = true → r.length < bs.length)
  | .prim .u8, bs, v, r, h => by
    simp only [dec] at h
    cases hr : rd8 bs with
    | error e => simp [hr] at h
    | ok p => obtain ⟨n, r'⟩ := p; simp [hr] at h; obtain ⟨_, rfl⟩ := h; have := rd8_len hr; omega
  | .prim .u16, bs, v, r, h => by
    simp only [dec] at h
    cases hr : rd16 bs with
    | error e => simp [hr] at h
    | ok p => obtain ⟨n, r'⟩ := p; simp [hr] at h; obtain ⟨_, rfl⟩ := h; have := rd16_len hr; omega
  | .prim .u32, bs, v, r, h => by
    simp only [dec] at h
    cases hr : rd32 bs with
    | error e => simp [hr] at h
    | ok p => obtain ⟨n, r'⟩ := p; simp [hr] at h; obtain ⟨_, rfl⟩ := h; have := rd32_len hr; omega
  | .prim .u64, bs, v, r, h => by
    simp only [dec] at h
    cases hr : rd64 bs with
    | error e => simp [hr] at h
    | ok p => obtain ⟨n, r'⟩ := p; simp [hr] at h; obtain ⟨_, rfl⟩ := h; have := rd64_len hr; omega
  | .prim .ticket, bs, v, r, h => by
    simp only [dec] at h
    split at h
    · cases hr : rd32 bs with
      | error e => simp [hr] at h
      | ok p => obtain ⟨n, r'⟩ := p; simp [hr] at h; obtain ⟨_, rfl⟩ := h; have := rd32_len hr; omega
    · cases hr : rd64 bs with
      | error e => simp [hr] at h
      | ok p => obtain ⟨n, r'⟩ := p; simp [hr] at h; obtain ⟨_, rfl⟩ := h; have := rd64_len hr; omega
  | .prim .i32, bs, v, r, h => by
    simp only [dec] at h
    cases hr : rd32 bs with
    | error e => simp [hr] at h
    | ok p => obtain ⟨n, r'⟩ := p; simp [hr] at h; obtain ⟨_, rfl⟩ := h; have := rd32_len hr; omega
  | .prim .bool, bs, v, r, h => by
    simp only [dec] at h
    cases hr : rd8 bs with
    | error e => simp [hr] at h
    | ok p => obtain ⟨n, r'⟩ := p; simp [hr] at h; obtain ⟨_, rfl⟩ := h; have := rd8_len hr; omega
  | .prim .str, bs, v, r, h => by
    simp only [dec] at h
    cases hr : rd32 bs with
    | error e => simp [hr] at h
    | ok p =>
      obtain ⟨n, r'⟩ := p
      simp only [hr, except_bind_ok] at h
      have := rd32_len hr
      split at h
      · cases h
      · cases hs : decodeString (List.take n r') with
        | error e => simp [hs] at h
        | ok cs => simp [hs] at h; obtain ⟨_, rfl⟩ := h; simp only [List.length_drop]; omega
  | .prim .bytes, bs, v, r, h => by
    simp only [dec] at h
    cases hr : rd32 bs with
    | error e => simp [hr] at h
    | ok p =>
      obtain ⟨n, r'⟩ := p; simp [hr] at h; obtain ⟨_, rfl⟩ := h
      have := rd32_len hr; simp only [List.length_drop]; omega
  | .prim .ip, d :: c :: b :: a :: t, v, r, h => by
    simp [dec] at h; obtain ⟨_, hrr⟩ := h; rw [← hrr]; simp; omega
  | .prim .ip, [], _, _, h | .prim .ip, [_], _, _, h | .prim .ip, [_, _], _, _, h
  | .prim .ip, [_, _, _], _, _, h => by simp [dec] at h
  | .arr e, bs, v, r, h => by
    simp only [dec] at h
    cases hr : rd32 bs with
    | error e => simp [hr] at h
    | ok p =>
      obtain ⟨n, r'⟩ := p
      simp only [hr, except_bind_ok] at h
      cases hl : decList e n r' with
      | error e => simp [hl] at h
      | ok q =>
        obtain ⟨vs, r''⟩ := q; simp [hl] at h; obtain ⟨_, hrr⟩ := h; rw [← hrr]
        have := rd32_len hr
        have := (decList_progress e n r' vs r'' hl).1
        omega
  | .record fs, bs, v, r, h => by
    simp only [dec] at h
    cases hl : decRec fs bs with
    | error e => simp [hl] at h
    | ok q =>
      obtain ⟨vs, r''⟩ := q; simp [hl] at h; obtain ⟨_, hrr⟩ := h; rw [← hrr]
      have := decRec_progress fs bs vs r'' hl
      exact ⟨this.1, fun hp => this.2 (by simpa [Ty.pos] using hp)⟩
theorem decList_progress : ∀ (e : Ty) (n : Nat) (bs : Bytes) (vs : List Val) (r : Bytes),
    decList e n bs = .ok (vs, r) → r.length ≤ bs.length ∧ (e.pos = true → n + r.length ≤ bs.length)
  | _, 0, bs, vs, r, h => by simp [decList] at h; obtain ⟨_, rfl⟩ := h; simp
  | e, n + 1, bs, vs, r, h => by
    simp only [decList] at h
    cases hd : dec e bs with
    | error x => simp [hd] at h
    | ok p =>
      obtain ⟨v, r'⟩ := p
      simp only [hd, except_bind_ok] at h
      cases hl : decList e n r' with
      | error x => simp [hl] at h
      | ok q =>
        obtain ⟨vs', r''⟩ := q; simp [hl] at h; obtain ⟨_, hrr⟩ := h; rw [← hrr]
        have h1 := dec_progress e bs v r' hd
        have h2 := decList_progress e n r' vs' r'' hl
        exact ⟨by omega, fun hp => by have := h1.2 hp; have := h2.2 hp; omega⟩
theorem decRec_progress : ∀ (fs : List Ty) (bs : Bytes) (vs : List Val) (r : Bytes),
    decRec fs bs = .ok (vs, r) → r.length ≤ bs.length ∧ (Ty.posL fs = true → r.length < bs.length)
  | [], bs, vs, r, h => by simp [decRec] at h; obtain ⟨_, rfl⟩ := h; simp [Ty.posL]
  | f :: fs, bs, vs, r, h => by
    simp only [decRec] at h
    cases hd : dec f bs with
    | error x => simp [hd] at h
    | ok p =>
      obtain ⟨v, r'⟩ := p
      simp only [hd, except_bind_ok] at h
      cases hl : decRec fs r' with
      | error x => simp [hl] at h
      | ok q =>
        obtain ⟨vs', r''⟩ := q; simp [hl] at h; obtain ⟨_, hrr⟩ := h; rw [← hrr]
        have h1 := dec_progress f bs v r' hd
        have h2 := decRec_progress fs r' vs' r'' hl
        refine ⟨by omega, fun hp => ?_⟩
        simp only [Ty.posL, Bool.or_eq_true] at hp
        rcases hp with hp | hp
        · have := h1.2 hp; omega
        · have := h2.2 hp; omega
end

end AioslskVerif.Wire

namespace AioslskVerif.Obfs

theorem encSpec_append (key : Bytes) : ∀ (a b : Bytes) (idx : Nat),
    encSpec key idx (a ++ b) = encSpec key idx a ++ encSpec key (idx + a.length) b
  | [], b, idx => by simp [encSpec]
  | x :: a, b, idx => by
    simp only [List.cons_append, encSpec, List.length_cons]
    rw [encSpec_append key a b (idx + 1)]
    congr 3; omega

theorem encode_eq (key data : Bytes) : encode key data = key ++ encSpec key 0 data := by
  unfold encode; rw [encLoop_eq key data 0 key (by simp)]

theorem decode_encode (key data : Bytes) (hk : key.length = 4) : decode (encode key data) = data := by
  unfold decode encode
  have ht : (key ++ encLoop 0 key data).take 4 = key := by
    rw [List.take_append_of_le_length (by omega), List.take_of_length_le (by omega)]
  have hd : (key ++ encLoop 0 key data).drop 4 = encLoop 0 key data := by
    rw [← hk]; exact List.drop_left
  simp only [ht, hd]
  rw [encLoop_eq key data 0 key (by simp), encSpec_length]
  apply xorAt_encSpec
  intro p _ hp
  exact fullKey_byte key data.length p (by omega)

end AioslskVerif.Obfs

namespace AioslskVerif.Stream
open AioslskVerif.Wire AioslskVerif

theorem readerAux_succ {μ : Type} (obf : Bool) (decode : Bytes → Option μ) (fuel : Nat) (s : Bytes) :
    readerAux obf decode (fuel + 1) s =
      if s.isEmpty then [.closed .eof]
      else if s.length < hdrSize obf then [.closed .readError]
      else
        if (s.drop (hdrSize obf)).length < frameLen obf (s.take (hdrSize obf)) then
          if (s.drop (hdrSize obf)).isEmpty then [.closed .eof] else [.closed .readError]
        else
          match decode (plain obf (s.take (hdrSize obf) ++ (s.drop (hdrSize obf)).take (frameLen obf (s.take (hdrSize obf))))) with
          | some m => .deliver m :: readerAux obf decode fuel ((s.drop (hdrSize obf)).drop (frameLen obf (s.take (hdrSize obf))))
          | none => readerAux obf decode fuel ((s.drop (hdrSize obf)).drop (frameLen obf (s.take (hdrSize obf)))) := by
  rfl

/-- what one complete frame at the head of the stream does to the reader -/
theorem readerAux_frame {μ : Type} (obf : Bool) (decode : Bytes → Option μ) (fuel : Nat)
    (k b rest : Bytes) (hk : k.length = 4) (hb : b.length < 4294967296) :
    readerAux obf decode (fuel + 1) (wireFrame (if obf then some k else none) b ++ rest) =
      (match decode (le32 b.length ++ b) with | some m => [Event.deliver m] | none => [])
        ++ readerAux obf decode fuel rest := by
  cases obf with
  | false =>
    simp only [Bool.false_eq_true, if_false, wireFrame]
    rw [readerAux_succ]
    have h1 : ((le32 b.length ++ b) ++ rest).isEmpty = false := by simp [le32]
    have h2 : ¬ ((le32 b.length ++ b) ++ rest).length < hdrSize false := by simp [hdrSize, le32]
    have h3 : ((le32 b.length ++ b) ++ rest).take (hdrSize false) = le32 b.length := by
      simp [hdrSize, le32]
    have h4 : ((le32 b.length ++ b) ++ rest).drop (hdrSize false) = b ++ rest := by
      simp [hdrSize, le32]
    have h5 : frameLen false (le32 b.length) = b.length := by
      have := rd32_le32 b.length hb []
      simp only [List.append_nil] at this
      simp [frameLen, this]
    have h6 : ¬ (b ++ rest).length < b.length := by simp
    simp only [h1, Bool.false_eq_true, if_false, if_neg h2, h3, h4, h5, if_neg h6,
      List.take_left' rfl, List.drop_left' rfl, plain]
    cases decode (le32 b.length ++ b) <;> simp
  | true =>
    simp only [if_true, wireFrame]
    rw [Obfs.encode_eq, Obfs.encSpec_append]
    simp only [le32_length, Nat.zero_add]
    have hl4 : (Obfs.encSpec k 0 (le32 b.length)).length = 4 := by rw [Obfs.encSpec_length]; rfl
    have hlb : (Obfs.encSpec k 4 b).length = b.length := Obfs.encSpec_length _ _ _
    rw [readerAux_succ]
    generalize hH : Obfs.encSpec k 0 (le32 b.length) = H at *
    generalize hB : Obfs.encSpec k 4 b = B at *
    have h1 : ((k ++ (H ++ B)) ++ rest).isEmpty = false := by
      cases k with
      | nil => simp at hk
      | cons x xs => simp
    have h2 : ¬ ((k ++ (H ++ B)) ++ rest).length < hdrSize true := by
      simp [hdrSize, hk, hl4]; omega
    have h3 : ((k ++ (H ++ B)) ++ rest).take (hdrSize true) = k ++ H := by
      have : (k ++ (H ++ B)) ++ rest = (k ++ H) ++ (B ++ rest) := by simp
      rw [this, List.take_left' (by simp [hdrSize, hk, hl4])]
    have h4 : ((k ++ (H ++ B)) ++ rest).drop (hdrSize true) = B ++ rest := by
      have : (k ++ (H ++ B)) ++ rest = (k ++ H) ++ (B ++ rest) := by simp
      rw [this, List.drop_left' (by simp [hdrSize, hk, hl4])]
    have hdecH : Obfs.decode (k ++ H) = le32 b.length := by
      have := Obfs.decode_encode k (le32 b.length) hk
      rw [Obfs.encode_eq, hH] at this; exact this
    have h5 : frameLen true (k ++ H) = b.length := by
      have := rd32_le32 b.length hb []
      simp only [List.append_nil] at this
      simp [frameLen, hdecH, this]
    have hplain : Obfs.decode (k ++ H ++ B) = le32 b.length ++ b := by
      have := Obfs.decode_encode k (le32 b.length ++ b) hk
      rw [Obfs.encode_eq, Obfs.encSpec_append] at this
      simp only [le32_length, Nat.zero_add] at this
      rw [hH, hB] at this
      simpa using this
    have h6 : ¬ (B ++ rest).length < b.length := by simp [hlb]
    simp only [h1, Bool.false_eq_true, if_false, if_neg h2, h3, h4, h5, if_neg h6,
      List.take_left' hlb, List.drop_left' hlb, plain, if_true, hplain]
    cases decode (le32 b.length ++ b) <;> simp

/-- every run of the loop is a list of deliveries followed by exactly one close -/
theorem readerAux_exit {μ : Type} (obf : Bool) (decode : Bytes → Option μ) : ∀ (fuel : Nat) (s : Bytes),
    ∃ (ms : List μ) (c : Close), readerAux obf decode fuel s = ms.map Event.deliver ++ [Event.closed c]
  | 0, s => ⟨[], .readError, by simp [readerAux]⟩
  | fuel + 1, s => by
    rw [readerAux_succ]
    split
    · exact ⟨[], .eof, by simp⟩
    · split
      · exact ⟨[], .readError, by simp⟩
      · split
        · split
          · exact ⟨[], .eof, by simp⟩
          · exact ⟨[], .readError, by simp⟩
        · obtain ⟨ms, c, h⟩ := readerAux_exit obf decode fuel
            ((s.drop (hdrSize obf)).drop (frameLen obf (s.take (hdrSize obf))))
          split
          · rename_i m _
            exact ⟨m :: ms, c, by rw [h]; simp⟩
          · exact ⟨ms, c, h⟩

theorem readerSilentAux_succ {μ : Type} (obf : Bool) (decode : Bytes → Option μ) (fuel : Nat) (s : Bytes) :
    readerSilentAux obf decode (fuel + 1) s =
      if s.length < hdrSize obf then [.closed .timeout]
      else
        if (s.drop (hdrSize obf)).length < frameLen obf (s.take (hdrSize obf)) then [.closed .timeout]
        else
          match decode (plain obf (s.take (hdrSize obf) ++ (s.drop (hdrSize obf)).take (frameLen obf (s.take (hdrSize obf))))) with
          | some m => .deliver m :: readerSilentAux obf decode fuel ((s.drop (hdrSize obf)).drop (frameLen obf (s.take (hdrSize obf))))
          | none => readerSilentAux obf decode fuel ((s.drop (hdrSize obf)).drop (frameLen obf (s.take (hdrSize obf)))) := by
  rfl

theorem hdrSize_pos (obf : Bool) : 0 < hdrSize obf := by unfold hdrSize; split <;> omega

/-- the same bytes followed by silence instead of EOF: the same deliveries, then the read time-out -/
theorem readerSilentAux_spec {μ : Type} (obf : Bool) (decode : Bytes → Option μ) : ∀ (fuel : Nat) (s : Bytes),
    ∃ (ms : List μ) (c : Close), readerAux obf decode fuel s = ms.map Event.deliver ++ [Event.closed c] ∧
      readerSilentAux obf decode fuel s = ms.map Event.deliver ++ [Event.closed .timeout]
  | 0, s => ⟨[], .readError, by simp [readerAux], by simp [readerSilentAux]⟩
  | fuel + 1, s => by
    rw [readerAux_succ, readerSilentAux_succ]
    have hp := hdrSize_pos obf
    by_cases he : s.isEmpty
    · have hlt : s.length < hdrSize obf := by
        have : s = [] := by simpa using he
        subst this; simpa using hp
      rw [if_pos he, if_pos hlt]
      exact ⟨[], .eof, by simp, by simp⟩
    · by_cases hh : s.length < hdrSize obf
      · rw [if_neg he, if_pos hh, if_pos hh]
        exact ⟨[], .readError, by simp, by simp⟩
      · by_cases hb : (s.drop (hdrSize obf)).length < frameLen obf (s.take (hdrSize obf))
        · by_cases hbe : (s.drop (hdrSize obf)).isEmpty
          · rw [if_neg he, if_neg hh, if_pos hb, if_pos hbe, if_neg hh, if_pos hb]
            exact ⟨[], .eof, by simp, by simp⟩
          · rw [if_neg he, if_neg hh, if_pos hb, if_neg hbe, if_neg hh, if_pos hb]
            exact ⟨[], .readError, by simp, by simp⟩
        · obtain ⟨ms, c, h1, h2⟩ := readerSilentAux_spec obf decode fuel
            ((s.drop (hdrSize obf)).drop (frameLen obf (s.take (hdrSize obf))))
          rw [if_neg he, if_neg hh, if_neg hb, if_neg hh, if_neg hb]
          cases decode (plain obf (s.take (hdrSize obf) ++ (s.drop (hdrSize obf)).take (frameLen obf (s.take (hdrSize obf))))) with
          | some m => exact ⟨m :: ms, c, by rw [h1]; simp, by rw [h2]; simp⟩
          | none => exact ⟨ms, c, h1, h2⟩

end AioslskVerif.Stream
