import AioslskVerif.Proofs.ConnBase
/-! The step table of `Proofs/ConnBase.lean` for connections of origin `back`, type P, by kernel evaluation. -/
namespace AioslskVerif.Conn

theorem table_back_P : tableFor .back false = true := by decide +kernel

end AioslskVerif.Conn
